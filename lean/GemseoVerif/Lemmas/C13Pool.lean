/-
C13 — helper lemmas about the worker-pool transition system of `Model/C13.lean`:
inversion of `step?`, the inductive invariant `Inv`, the termination measure `mu`.
-/
import GemseoVerif.Model.C13

set_option linter.unusedSimpArgs false
set_option linter.unusedSectionVars false
set_option linter.unusedVariables false

namespace GV.C13

variable {α β : Type}

/-! ### Worker lists -/

def nExited (ws : List WState) : Nat := ws.countP (fun w => w == .exited)

def nNone (q : List (Option Nat)) : Nat := q.countP (fun o => o.isNone)

theorem busyOf_set_busy (ws : List WState) (w i : Nat) (h : ws[w]? = some .idle) :
    ∀ j, (busyOf (ws.set w (.busy i))).count j = (busyOf ws).count j + (if i = j then 1 else 0) := by
  induction ws generalizing w with
  | nil => simp at h
  | cons x xs ih =>
    intro j
    cases w with
    | zero =>
      simp at h; subst h
      simp [busyOf, List.count_cons]
    | succ w =>
      simp at h
      have := ih w h j
      cases x <;> simp_all [busyOf, List.count_cons] <;> omega

theorem busyOf_set_idle (ws : List WState) (w i : Nat) (h : ws[w]? = some (.busy i)) :
    ∀ j, (busyOf ws).count j = (busyOf (ws.set w .idle)).count j + (if i = j then 1 else 0) := by
  induction ws generalizing w with
  | nil => simp at h
  | cons x xs ih =>
    intro j
    cases w with
    | zero =>
      simp at h; subst h
      simp [busyOf, List.count_cons]
    | succ w =>
      simp at h
      have := ih w h j
      cases x <;> simp_all [busyOf, List.count_cons] <;> omega

theorem busyOf_set_exited (ws : List WState) (w : Nat) (h : ws[w]? = some .idle) :
    busyOf (ws.set w .exited) = busyOf ws := by
  induction ws generalizing w with
  | nil => simp at h
  | cons x xs ih =>
    cases w with
    | zero => simp at h; subst h; simp [busyOf]
    | succ w =>
      simp at h
      have := ih w h
      cases x <;> simp_all [busyOf]

theorem busyOf_length_set_busy (ws : List WState) (w i : Nat) (h : ws[w]? = some .idle) :
    (busyOf (ws.set w (.busy i))).length = (busyOf ws).length + 1 := by
  induction ws generalizing w with
  | nil => simp at h
  | cons x xs ih =>
    cases w with
    | zero => simp at h; subst h; simp [busyOf]
    | succ w =>
      simp at h
      have := ih w h
      cases x <;> simp_all [busyOf]

theorem busyOf_length_set_idle (ws : List WState) (w i : Nat) (h : ws[w]? = some (.busy i)) :
    (busyOf ws).length = (busyOf (ws.set w .idle)).length + 1 := by
  induction ws generalizing w with
  | nil => simp at h
  | cons x xs ih =>
    cases w with
    | zero => simp at h; subst h; simp [busyOf]
    | succ w =>
      simp at h
      have := ih w h
      cases x <;> simp_all [busyOf]

theorem nExited_set_exited (ws : List WState) (w : Nat) (h : ws[w]? = some .idle) :
    nExited (ws.set w .exited) = nExited ws + 1 := by
  induction ws generalizing w with
  | nil => simp at h
  | cons x xs ih =>
    cases w with
    | zero => simp at h; subst h; simp [nExited, List.countP_cons]
    | succ w =>
      simp at h
      have := ih w h
      cases x <;> simp_all [nExited, List.countP_cons]

theorem nExited_set_of_not (ws : List WState) (w : Nat) (a b : WState) (h : ws[w]? = some a)
    (ha : a ≠ .exited) (hb : b ≠ .exited) : nExited (ws.set w b) = nExited ws := by
  induction ws generalizing w with
  | nil => simp at h
  | cons x xs ih =>
    cases w with
    | zero =>
      simp at h; subst h
      cases x <;> cases b <;> simp_all [nExited, List.countP_cons]
    | succ w =>
      simp at h
      have := ih w h
      simp_all [nExited, List.countP_cons]

theorem busyOf_eq_nil_of_all_exited (ws : List WState) (h : ws.all (fun w => w == .exited) = true) :
    busyOf ws = [] := by
  induction ws with
  | nil => rfl
  | cons x xs ih =>
    simp at h
    obtain ⟨hx, hxs⟩ := h
    subst hx
    have := ih (by simpa using hxs)
    simpa [busyOf] using this

/-- A worker list with no exited worker and no busy worker has an idle worker at every index. -/
theorem idle_of_no_busy_no_exited (ws : List WState) (hb : busyOf ws = []) (he : nExited ws = 0)
    (w : Nat) (hw : w < ws.length) : ws[w]? = some .idle := by
  induction ws generalizing w with
  | nil => simp at hw
  | cons x xs ih =>
    cases x with
    | busy i => simp [busyOf] at hb
    | exited => simp [nExited, List.countP_cons] at he
    | idle =>
      cases w with
      | zero => simp
      | succ w =>
        have hb' : busyOf xs = [] := by simpa [busyOf] using hb
        have he' : nExited xs = 0 := by simpa [nExited, List.countP_cons] using he
        simpa using ih hb' he' w (by simpa using hw)

/-- If not every worker has exited, some worker is idle or busy. -/
theorem exists_live_worker (ws : List WState) (h : nExited ws < ws.length) :
    ∃ w : Nat, ws[w]? = some WState.idle ∨ ∃ i, ws[w]? = some (WState.busy i) := by
  induction ws with
  | nil => simp at h
  | cons x xs ih =>
    cases x with
    | idle => exact ⟨0, Or.inl (by simp)⟩
    | busy i => exact ⟨0, Or.inr ⟨i, by simp⟩⟩
    | exited =>
      have : nExited xs < xs.length := by
        simp [nExited, List.countP_cons] at h ⊢
        omega
      obtain ⟨w, hw⟩ := ih this
      exact ⟨w + 1, by simpa using hw⟩

theorem exists_busy_of_ne_nil (ws : List WState) (h : busyOf ws ≠ []) :
    ∃ (w : Nat) (i : Nat), ws[w]? = some (WState.busy i) := by
  induction ws with
  | nil => simp [busyOf] at h
  | cons x xs ih =>
    cases x with
    | busy i => exact ⟨0, i, by simp⟩
    | idle =>
      obtain ⟨w, i, hw⟩ := ih (by simpa [busyOf] using h)
      exact ⟨w + 1, i, by simpa using hw⟩
    | exited =>
      obtain ⟨w, i, hw⟩ := ih (by simpa [busyOf] using h)
      exact ⟨w + 1, i, by simpa using hw⟩

theorem all_exited_iff (ws : List WState) :
    ws.all (fun w => w == .exited) = true ↔ nExited ws = ws.length := by
  induction ws with
  | nil => simp [nExited]
  | cons x xs ih =>
    have hle : nExited xs ≤ xs.length := List.countP_le_length
    cases x <;> simp_all [nExited, List.countP_cons] <;> omega

/-! ### Inversion of `step?` -/

theorem step_submit {c : Cfg α β} {s s' : State β} (h : step? c s .submit = some s') :
    ∃ i rest, s.pending = i :: rest ∧
      s' = { s with pending := rest, queueIn := s.queueIn ++ [some i] } := by
  simp only [step?] at h
  split at h
  · cases h
  · rename_i i rest hp
    exact ⟨i, rest, hp, by cases h; rfl⟩

theorem step_take {c : Cfg α β} {s s' : State β} {w : Nat} (h : step? c s (.take w) = some s') :
    s.workers[w]? = some .idle ∧
    ((∃ i rest, s.queueIn = some i :: rest ∧
        s' = { s with workers := s.workers.set w (.busy i), queueIn := rest }) ∨
     (∃ rest, s.queueIn = none :: rest ∧
        s' = { s with workers := s.workers.set w .exited, queueIn := rest })) := by
  simp only [step?] at h
  split at h
  · rename_i i rest hw hq
    exact ⟨hw, Or.inl ⟨i, rest, hq, by cases h; rfl⟩⟩
  · rename_i rest hw hq
    exact ⟨hw, Or.inr ⟨rest, hq, by cases h; rfl⟩⟩
  · cases h

theorem step_finish {c : Cfg α β} {s s' : State β} {w : Nat} (h : step? c s (.finish w) = some s') :
    ∃ i, s.workers[w]? = some (.busy i) ∧
      s' = { s with workers := s.workers.set w .idle, queueOut := s.queueOut ++ [(i, c.run i)] } := by
  simp only [step?] at h
  split at h
  · rename_i i hw
    exact ⟨i, hw, by cases h; rfl⟩
  · cases h

theorem step_collect {c : Cfg α β} {s s' : State β} (h : step? c s .collect = some s') :
    s.pending = [] ∧ s.sent = false ∧ s.nOutputs ≠ c.nTasks ∧ s.stop = false ∧
    ∃ i o rest, s.queueOut = (i, o) :: rest ∧
      s' = { s with
        queueOut := rest, nOutputs := s.nOutputs + 1, last := some o,
        collected := s.collected ++ [i],
        ordered := match o with | .ok v => s.ordered.set i (some v) | _ => s.ordered,
        cbLog := match o with | .ok v => s.cbLog ++ [(i, v)] | _ => s.cbLog,
        stop := match o with | .failStop => true | _ => s.stop } := by
  simp only [step?] at h
  split at h
  · rename_i hc
    simp only [Bool.and_eq_true, List.isEmpty_iff, Bool.not_eq_true', bne_iff_ne, ne_eq] at hc
    obtain ⟨⟨⟨hp, hs⟩, hn⟩, hst⟩ := hc
    refine ⟨hp, hs, hn, hst, ?_⟩
    split at h
    · cases h
    · rename_i i o rest hq
      refine ⟨i, o, rest, hq, ?_⟩
      cases o <;> (simp only at h; cases h; rfl)
  · cases h

theorem step_shutdown {c : Cfg α β} {s s' : State β} (h : step? c s .shutdown = some s') :
    s.pending = [] ∧ s.sent = false ∧ (s.nOutputs = c.nTasks ∨ s.stop = true) ∧
      s' = { s with queueIn := s.queueIn ++ List.replicate s.workers.length none, sent := true } := by
  simp only [step?] at h
  split at h
  · rename_i hc
    simp only [Bool.and_eq_true, List.isEmpty_iff, Bool.not_eq_true', Bool.or_eq_true, beq_iff_eq] at hc
    obtain ⟨⟨hp, hs⟩, hn⟩ := hc
    exact ⟨hp, hs, hn, by cases h; rfl⟩
  · cases h

/-! ### The invariant -/

/-- Where task `i` currently is (number of occurrences over the five places). -/
def loc (s : State β) (i : Nat) : Nat :=
  s.pending.count i + (tasksOf s.queueIn).count i + (busyOf s.workers).count i
    + (s.queueOut.map Prod.fst).count i + s.collected.count i

/-- The expected callback call of task `i`. -/
def cbOf (c : Cfg α β) (i : Nat) : Option (Nat × β) := (c.run i).toOption.map (fun v => (i, v))

structure Inv (c : Cfg α β) (s : State β) : Prop where
  once : ∀ i, loc s i = if i < c.nTasks then 1 else 0
  len : s.pending.length + (tasksOf s.queueIn).length + (busyOf s.workers).length
          + s.queueOut.length + s.collected.length = c.nTasks
  qout : ∀ p ∈ s.queueOut, p.2 = c.run p.1
  ordered : s.ordered =
    (List.range c.nTasks).map (fun i => if i ∈ s.collected then (c.run i).toOption else none)
  cbs : s.cbLog = s.collected.filterMap (cbOf c)
  nout : s.nOutputs = s.collected.length
  last : s.last = s.collected.getLast?.map c.run
  stop_iff : s.stop = true ↔ s.last = some .failStop
  nostop : s.stop = false → ∀ i ∈ s.collected, c.run i ≠ .failStop
  sent_ok : s.sent = true → (s.nOutputs = c.nTasks ∨ s.stop = true) ∧ s.pending = []
  wlen : s.workers.length = min c.nTasks c.nProcs
  sentinels : if s.sent then nNone s.queueIn + nExited s.workers = s.workers.length
              else nNone s.queueIn = 0 ∧ nExited s.workers = 0

theorem tasksOf_append (a b : List (Option Nat)) : tasksOf (a ++ b) = tasksOf a ++ tasksOf b := by
  simp [tasksOf, List.filterMap_append]

theorem tasksOf_replicate_none (n : Nat) : tasksOf (List.replicate n none) = [] := by
  induction n with
  | zero => rfl
  | succ n ih => simp [tasksOf, List.replicate_succ] at ih ⊢

theorem nNone_append (a b : List (Option Nat)) : nNone (a ++ b) = nNone a + nNone b := by
  simp [nNone, List.countP_append]

theorem nNone_replicate_none (n : Nat) : nNone (List.replicate n none) = n := by
  induction n with
  | zero => rfl
  | succ n ih => simp [nNone, List.replicate_succ, List.countP_cons] at ih ⊢; omega

theorem inv_init (c : Cfg α β) : Inv c (init c) where
  once := by intro i; simp [loc, init, tasksOf, busyOf, List.count_range]
  len := by simp [init, tasksOf, busyOf]
  qout := by simp [init]
  ordered := by
    simp only [init, List.not_mem_nil, if_false]
    apply List.ext_getElem <;> simp
  cbs := by simp [init]
  nout := by simp [init]
  last := by simp [init]
  stop_iff := by simp [init]
  nostop := by simp [init]
  sent_ok := by simp [init]
  wlen := by simp [init]
  sentinels := by
    simp [init, nNone, nExited]
    intro a _ _ h
    subst h
    simp

theorem map_range_set {γ : Type} (n : Nat) (g : Nat → γ) (i : Nat) (a : γ) :
    ((List.range n).map g).set i a = (List.range n).map (fun j => if j = i then a else g j) := by
  apply List.ext_getElem
  · simp
  · intro k h1 h2
    simp only [List.getElem_set, List.getElem_map, List.getElem_range]
    by_cases hik : i = k
    · simp [hik]
    · have : ¬ k = i := fun h => hik h.symm
      simp [hik, this]

theorem tasksOf_cons_some (i : Nat) (q : List (Option Nat)) : tasksOf (some i :: q) = i :: tasksOf q := by
  simp [tasksOf]

theorem tasksOf_nil : tasksOf [] = [] := rfl

theorem tasksOf_cons_none (q : List (Option Nat)) : tasksOf (none :: q) = tasksOf q := by
  simp [tasksOf]

theorem inv_step {c : Cfg α β} {s s' : State β} {op : Op} (hi : Inv c s)
    (h : step? c s op = some s') : Inv c s' := by
  cases op with
  | submit =>
    obtain ⟨i, rest, hp, rfl⟩ := step_submit h
    exact {
      once := by
        intro j
        have := hi.once j
        simp only [loc, hp, tasksOf_append, List.count_append, List.count_cons, tasksOf_cons_some,
          tasksOf_nil, List.count_nil] at this ⊢
        omega
      len := by
        have := hi.len
        simp only [hp, tasksOf_append, List.length_append, List.length_cons, tasksOf_cons_some,
          tasksOf_nil, List.length_nil] at this ⊢
        omega
      qout := hi.qout
      ordered := hi.ordered
      cbs := hi.cbs
      nout := hi.nout
      last := hi.last
      stop_iff := hi.stop_iff
      nostop := hi.nostop
      sent_ok := by
        intro hs
        have := (hi.sent_ok hs).2
        simp [hp] at this
      wlen := hi.wlen
      sentinels := by
        have := hi.sentinels
        simp only [nNone_append] at this ⊢
        simpa [nNone] using this }
  | take w =>
    obtain ⟨hw, hcase⟩ := step_take h
    rcases hcase with ⟨i, rest, hq, rfl⟩ | ⟨rest, hq, rfl⟩
    · exact {
        once := by
          intro j
          have := hi.once j
          have hb := busyOf_set_busy s.workers w i hw j
          simp only [loc, hq, tasksOf_cons_some, List.count_cons] at this ⊢
          simp only [hb]
          split at this <;> split <;> simp_all <;> omega
        len := by
          have := hi.len
          have hb := busyOf_length_set_busy s.workers w i hw
          simp only [hq, tasksOf_cons_some, List.length_cons] at this ⊢
          omega
        qout := hi.qout
        ordered := hi.ordered
        cbs := hi.cbs
        nout := hi.nout
        last := hi.last
        stop_iff := hi.stop_iff
        nostop := hi.nostop
        sent_ok := hi.sent_ok
        wlen := by simpa using hi.wlen
        sentinels := by
          have := hi.sentinels
          have he := nExited_set_of_not s.workers w .idle (.busy i) hw (by simp) (by simp)
          simp only [hq, List.length_set, he] at this ⊢
          simpa [nNone, List.countP_cons] using this }
    · exact {
        once := by
          intro j
          have := hi.once j
          simp only [loc, hq, tasksOf_cons_none, busyOf_set_exited s.workers w hw] at this ⊢
          exact this
        len := by
          have := hi.len
          simp only [hq, tasksOf_cons_none, busyOf_set_exited s.workers w hw] at this ⊢
          exact this
        qout := hi.qout
        ordered := hi.ordered
        cbs := hi.cbs
        nout := hi.nout
        last := hi.last
        stop_iff := hi.stop_iff
        nostop := hi.nostop
        sent_ok := hi.sent_ok
        wlen := by simpa using hi.wlen
        sentinels := by
          have := hi.sentinels
          have he := nExited_set_exited s.workers w hw
          simp only [hq, List.length_set, he] at this ⊢
          simp only [nNone, List.countP_cons, Option.isNone_none, if_true] at this ⊢
          split at this <;> simp_all <;> omega }
  | finish w =>
    obtain ⟨i, hw, rfl⟩ := step_finish h
    exact {
      once := by
        intro j
        have := hi.once j
        have hb := busyOf_set_idle s.workers w i hw j
        simp only [loc, List.map_append, List.count_append, List.map_cons, List.map_nil,
          List.count_cons, List.count_nil] at this ⊢
        split at this <;> simp_all <;> omega
      len := by
        have := hi.len
        have hb := busyOf_length_set_idle s.workers w i hw
        simp only [List.length_append, List.length_cons, List.length_nil] at this ⊢
        omega
      qout := by
        intro p hp
        simp only [List.mem_append, List.mem_singleton] at hp
        rcases hp with hp | rfl
        · exact hi.qout p hp
        · rfl
      ordered := hi.ordered
      cbs := hi.cbs
      nout := hi.nout
      last := hi.last
      stop_iff := hi.stop_iff
      nostop := hi.nostop
      sent_ok := hi.sent_ok
      wlen := by simpa using hi.wlen
      sentinels := by
        have := hi.sentinels
        have he := nExited_set_of_not s.workers w (.busy i) .idle hw (by simp) (by simp)
        simpa only [List.length_set, he] using this }
  | collect =>
    obtain ⟨hp, hs, hn, hst, i, o, rest, hq, rfl⟩ := step_collect h
    have ho : o = c.run i := hi.qout (i, o) (by simp [hq])
    exact {
      once := by
        intro j
        have := hi.once j
        simp only [loc, hq, List.map_cons, List.count_cons, List.count_append, List.count_nil] at this ⊢
        omega
      len := by
        have := hi.len
        simp only [hq, List.length_cons, List.length_append, List.length_nil] at this ⊢
        omega
      qout := by
        intro p hp
        exact hi.qout p (by simp [hq, hp])
      ordered := by
        cases o with
        | ok v =>
          simp only [hi.ordered, map_range_set]
          apply List.map_congr_left
          intro j _
          by_cases hj : j = i
          · subst hj; simp [← ho, Outcome.toOption]
          · simp [hj]
        | fail =>
          simp only [hi.ordered]
          apply List.map_congr_left
          intro j _
          by_cases hj : j = i
          · subst hj; simp [← ho, Outcome.toOption]
          · simp [hj]
        | failStop =>
          simp only [hi.ordered]
          apply List.map_congr_left
          intro j _
          by_cases hj : j = i
          · subst hj; simp [← ho, Outcome.toOption]
          · simp [hj]
      cbs := by
        cases o <;>
          simp [hi.cbs, List.filterMap_append, cbOf, ← ho, Outcome.toOption]
      nout := by simp [hi.nout]
      last := by simp [ho]
      stop_iff := by
        cases o <;> simp [hst]
      nostop := by
        intro hst' j hj
        simp only [List.mem_append, List.mem_singleton] at hj
        rcases hj with hj | rfl
        · exact hi.nostop hst j hj
        · intro hrun
          rw [hrun] at ho
          subst ho
          simp at hst'
      sent_ok := by
        intro h'
        simp [hs] at h'
      wlen := hi.wlen
      sentinels := hi.sentinels }
  | shutdown =>
    obtain ⟨hp, hs, hn, rfl⟩ := step_shutdown h
    exact {
      once := by
        intro j
        have := hi.once j
        simpa only [loc, tasksOf_append, tasksOf_replicate_none, List.append_nil] using this
      len := by
        have := hi.len
        simpa only [tasksOf_append, tasksOf_replicate_none, List.append_nil] using this
      qout := hi.qout
      ordered := hi.ordered
      cbs := hi.cbs
      nout := hi.nout
      last := hi.last
      stop_iff := hi.stop_iff
      nostop := hi.nostop
      sent_ok := fun _ => ⟨hn, hp⟩
      wlen := hi.wlen
      sentinels := by
        have := hi.sentinels
        simp only [hs] at this
        simp [nNone_append, nNone_replicate_none, this.1, this.2] }

/-- Reachable by a schedule from the initial state. -/
def Reachable (c : Cfg α β) (s : State β) : Prop := ∃ ops, run? c (init c) ops = some s

theorem inv_run {c : Cfg α β} {s s' : State β} {ops : List Op} (hi : Inv c s)
    (h : run? c s ops = some s') : Inv c s' := by
  induction ops generalizing s with
  | nil => simp [run?] at h; subst h; exact hi
  | cons op ops ih =>
    simp only [run?] at h
    split at h
    · rename_i s1 h1
      exact ih (inv_step hi h1) h
    · cases h

theorem inv_reachable {c : Cfg α β} {s : State β} (h : Reachable c s) : Inv c s := by
  obtain ⟨ops, h⟩ := h
  exact inv_run (inv_init c) h

/-! ### Termination measure and progress -/

/-- Every transition decreases this measure by exactly one. -/
def mu (s : State β) : Nat :=
  4 * s.pending.length + 3 * (tasksOf s.queueIn).length + 2 * (busyOf s.workers).length
    + s.queueOut.length + nNone s.queueIn + (if s.sent then 0 else s.workers.length + 1)

theorem mu_step {c : Cfg α β} {s s' : State β} {op : Op} (h : step? c s op = some s') :
    mu s' + 1 = mu s := by
  cases op with
  | submit =>
    obtain ⟨i, rest, hp, rfl⟩ := step_submit h
    simp only [mu, hp, tasksOf_append, tasksOf_cons_some, tasksOf_nil, nNone_append,
      List.length_append, List.length_cons, List.length_nil]
    simp [nNone]
    omega
  | take w =>
    obtain ⟨hw, hcase⟩ := step_take h
    rcases hcase with ⟨i, rest, hq, rfl⟩ | ⟨rest, hq, rfl⟩
    · have hb := busyOf_length_set_busy s.workers w i hw
      simp only [mu, hq, tasksOf_cons_some, List.length_cons, List.length_set, hb]
      simp [nNone, List.countP_cons]
      omega
    · simp only [mu, hq, tasksOf_cons_none, List.length_set, busyOf_set_exited s.workers w hw]
      simp [nNone, List.countP_cons]
      omega
  | finish w =>
    obtain ⟨i, hw, rfl⟩ := step_finish h
    have hb := busyOf_length_set_idle s.workers w i hw
    simp only [mu, List.length_append, List.length_cons, List.length_nil, List.length_set]
    omega
  | collect =>
    obtain ⟨hp, hs, hn, hst, i, o, rest, hq, rfl⟩ := step_collect h
    simp only [mu, hq, List.length_cons]
    omega
  | shutdown =>
    obtain ⟨hp, hs, hn, rfl⟩ := step_shutdown h
    simp only [mu, hs, tasksOf_append, tasksOf_replicate_none, List.append_nil, nNone_append,
      nNone_replicate_none]
    simp
    omega

theorem mu_run {c : Cfg α β} {s s' : State β} {ops : List Op} (h : run? c s ops = some s') :
    mu s' + ops.length = mu s := by
  induction ops generalizing s with
  | nil => simp [run?] at h; subst h; simp
  | cons op ops ih =>
    simp only [run?] at h
    split at h
    · rename_i s1 h1
      have := ih h
      have := mu_step h1
      simp only [List.length_cons]
      omega
    · cases h

theorem mu_init (c : Cfg α β) : mu (init c) = 4 * c.nTasks + min c.nTasks c.nProcs + 1 := by
  simp [mu, init, tasksOf, busyOf, nNone]
  omega

theorem run_append {c : Cfg α β} {s s1 s2 : State β} {ops1 ops2 : List Op}
    (h1 : run? c s ops1 = some s1) (h2 : run? c s1 ops2 = some s2) :
    run? c s (ops1 ++ ops2) = some s2 := by
  induction ops1 generalizing s with
  | nil => simp [run?] at h1; subst h1; simpa using h2
  | cons op ops ih =>
    simp only [run?] at h1
    split at h1
    · rename_i s' hs'
      simp only [List.cons_append, run?, hs']
      exact ih h1
    · cases h1

/-- Progress: in a state satisfying the invariant that is not final, some transition is enabled
    (needs at least one worker, i.e. `n_processes ≥ 1`). -/
theorem progress_isSome {c : Cfg α β} {s : State β} (hi : Inv c s) (hp : 1 ≤ c.nProcs)
    (hf : s.final = false) : ∃ op, (step? c s op).isSome = true := by
  by_cases hpend : s.pending = []
  · by_cases hsent : s.sent = true
    · -- joining: some worker has not exited
      have hsn := hi.sentinels
      simp only [hsent, if_true] at hsn
      have hne : nExited s.workers < s.workers.length := by
        have hle : nExited s.workers ≤ s.workers.length := List.countP_le_length
        rcases Nat.lt_or_ge (nExited s.workers) s.workers.length with h | h
        · exact h
        · have heq : nExited s.workers = s.workers.length := Nat.le_antisymm hle h
          have := (all_exited_iff s.workers).mpr heq
          simp [State.final, hsent, this] at hf
      obtain ⟨w, hw⟩ := exists_live_worker s.workers hne
      rcases hw with hw | ⟨i, hw⟩
      · -- idle worker: queue_in holds a sentinel, hence is not empty
        have hq : s.queueIn ≠ [] := by
          intro h0
          simp [h0, nNone] at hsn
          omega
        cases hqi : s.queueIn with
        | nil => exact absurd hqi hq
        | cons x rest =>
          cases x with
          | some i => exact ⟨.take w, by simp [step?, hw, hqi]⟩
          | none => exact ⟨.take w, by simp [step?, hw, hqi]⟩
      · exact ⟨.finish w, by simp [step?, hw]⟩
    · have hsent' : s.sent = false := by simpa using hsent
      by_cases hdone : s.nOutputs = c.nTasks ∨ s.stop = true
      · refine ⟨.shutdown, ?_⟩
        rcases hdone with h | h <;> simp [step?, hpend, hsent', h]
      · have hn : s.nOutputs ≠ c.nTasks := fun h => hdone (Or.inl h)
        have hst : s.stop = false := by
          cases hs : s.stop with
          | true => exact absurd (Or.inr hs) hdone
          | false => rfl
        cases hqo : s.queueOut with
        | cons p rest =>
          obtain ⟨i, o⟩ := p
          refine ⟨.collect, ?_⟩
          cases o <;> simp [step?, hpend, hsent', hn, hst, hqo]
        | nil =>
          by_cases hbusy : busyOf s.workers = []
          · -- no busy worker, nothing to collect: a task waits in queue_in and a worker is idle
            have hlen := hi.len
            have hno := hi.nout
            simp only [hpend, hqo, hbusy, List.length_nil] at hlen
            have hq : (tasksOf s.queueIn).length ≠ 0 := by omega
            have hsn := hi.sentinels
            simp only [hsent', Bool.false_eq_true, if_false] at hsn
            have hw0 : 0 < s.workers.length := by
              rw [hi.wlen]
              have : 0 < c.nTasks := by omega
              omega
            have hidle := idle_of_no_busy_no_exited s.workers hbusy hsn.2 0 hw0
            cases hqi : s.queueIn with
            | nil => simp [hqi, tasksOf] at hq
            | cons x rest =>
              cases x with
              | some i => exact ⟨.take 0, by simp [step?, hidle, hqi]⟩
              | none => exact ⟨.take 0, by simp [step?, hidle, hqi]⟩
          · obtain ⟨w, i, hw⟩ := exists_busy_of_ne_nil s.workers hbusy
            exact ⟨.finish w, by simp [step?, hw]⟩
  · cases hp' : s.pending with
    | nil => exact absurd hp' hpend
    | cons i rest => exact ⟨.submit, by simp [step?, hp']⟩

theorem progress {c : Cfg α β} {s : State β} (hi : Inv c s) (hp : 1 ≤ c.nProcs)
    (hf : s.final = false) : ∃ op s', step? c s op = some s' := by
  obtain ⟨op, h⟩ := progress_isSome hi hp hf
  exact ⟨op, Option.isSome_iff_exists.mp h⟩

/-- Every state satisfying the invariant can be driven to a final state. -/
theorem can_finish {c : Cfg α β} (hp : 1 ≤ c.nProcs) :
    ∀ (m : Nat) (s : State β), mu s = m → Inv c s → ∃ ops s', run? c s ops = some s' ∧ s'.final = true := by
  intro m
  induction m using Nat.strongRecOn with
  | _ m ih =>
    intro s hm hi
    cases hf : s.final with
    | true => exact ⟨[], s, rfl, hf⟩
    | false =>
      obtain ⟨op, s1, h1⟩ := progress hi hp hf
      have hmu := mu_step h1
      obtain ⟨ops, s2, h2, hf2⟩ := ih (mu s1) (by omega) s1 rfl (inv_step hi h1)
      exact ⟨op :: ops, s2, by simp [run?, h1, h2], hf2⟩

end GV.C13
