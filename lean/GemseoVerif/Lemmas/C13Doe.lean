/-
C13 — helper lemmas about the DOE layer and the shared cache of `Model/C13.lean`.
-/
import GemseoVerif.Model.C13

namespace GV.C13

end GV.C13
