/-
C13 — helper lemmas about the DOE layer and the shared cache of `Model/C13.lean`.
-/
import GemseoVerif.Model.C13

set_option linter.unusedSimpArgs false
set_option linter.unusedSectionVars false
set_option linter.unusedVariables false

namespace GV.C13

variable {κ ν : Type} [DecidableEq κ]

/-! ### Keys in first-occurrence order -/

def addKey (ks : List κ) (x : κ) : List κ := if x ∈ ks then ks else ks ++ [x]

def addKeys (ks : List κ) : List κ → List κ
  | [] => ks
  | x :: xs => addKeys (addKey ks x) xs

theorem mem_addKey {ks : List κ} {x y : κ} : y ∈ addKey ks x ↔ y ∈ ks ∨ y = x := by
  unfold addKey
  split
  · constructor
    · exact Or.inl
    · rintro (h | h)
      · exact h
      · subst h; assumption
  · simp

theorem nodup_addKey {ks : List κ} (h : ks.Nodup) (x : κ) : (addKey ks x).Nodup := by
  unfold addKey
  split
  · exact h
  · rename_i hx
    rw [List.nodup_append]
    refine ⟨h, by simp, ?_⟩
    intro a ha b hb
    simp only [List.mem_singleton] at hb
    subst hb
    intro hab
    subst hab
    exact hx ha

theorem mem_addKeys {ks xs : List κ} {y : κ} : y ∈ addKeys ks xs ↔ y ∈ ks ∨ y ∈ xs := by
  induction xs generalizing ks with
  | nil => simp [addKeys]
  | cons x xs ih =>
    simp only [addKeys, ih, mem_addKey, List.mem_cons]
    constructor
    · rintro ((h | h) | h)
      · exact Or.inl h
      · exact Or.inr (Or.inl h)
      · exact Or.inr (Or.inr h)
    · rintro (h | h | h)
      · exact Or.inl (Or.inl h)
      · exact Or.inl (Or.inr h)
      · exact Or.inr h

theorem nodup_addKeys {ks : List κ} (h : ks.Nodup) (xs : List κ) : (addKeys ks xs).Nodup := by
  induction xs generalizing ks with
  | nil => simpa [addKeys] using h
  | cons x xs ih => exact ih (nodup_addKey h x)

/-! ### `Database.store` on a database written as `keys.map (k ↦ (k, g k))` -/

def merge (o v : Option ν) : Option ν :=
  match o with
  | some w => some w
  | none => v

theorem dbStore_map_not_mem (ks : List κ) (g : κ → Option ν) (x : κ) (o : Option ν) (hx : x ∉ ks) :
    dbStore (ks.map (fun k => (k, g k))) x o = ks.map (fun k => (k, g k)) ++ [(x, o)] := by
  induction ks with
  | nil => simp [dbStore]
  | cons k ks ih =>
    simp only [List.mem_cons, not_or] at hx
    have hk : ¬ k = x := fun h => hx.1 h.symm
    simp [dbStore, hk, ih hx.2]

theorem dbStore_map_mem (ks : List κ) (g : κ → Option ν) (x : κ) (o : Option ν) (hx : x ∈ ks)
    (hn : ks.Nodup) :
    dbStore (ks.map (fun k => (k, g k))) x o
      = ks.map (fun k => (k, if k = x then merge o (g k) else g k)) := by
  induction ks with
  | nil => simp at hx
  | cons k ks ih =>
    have hn' := List.nodup_cons.mp hn
    by_cases hk : k = x
    · subst hk
      simp only [List.map_cons, dbStore, if_true, merge]
      congr 1
      apply List.map_congr_left
      intro a ha
      have : ¬ a = k := fun h => hn'.1 (h ▸ ha)
      simp [this]
    · have hx' : x ∈ ks := by
        rcases List.mem_cons.mp hx with h | h
        · exact absurd h.symm hk
        · exact h
      simp [dbStore, hk, ih hx' hn'.2]

/-! ### The three phases of the parallel DOE -/

def blank (ks : List κ) : Db κ ν := ks.map (fun k => (k, none))

/-- Entries of the keys in `D` hold their value, the others are still empty. -/
def part (eval : κ → Option ν) (D ks : List κ) : Db κ ν :=
  ks.map (fun k => (k, if k ∈ D then eval k else none))

/-- The canonical final database: successful keys in first-occurrence order with their values. -/
def canon (eval : κ → Option ν) (ks : List κ) : Db κ ν :=
  (ks.filter (fun k => (eval k).isSome)).map (fun k => (k, eval k))

theorem blank_eq_part (eval : κ → Option ν) (ks : List κ) : (blank ks : Db κ ν) = part eval [] ks := by
  simp [blank, part]

theorem dbStore_blank_none (ks : List κ) (x : κ) :
    dbStore (blank ks : Db κ ν) x none = blank (addKey ks x) := by
  unfold addKey
  split
  · rename_i hx
    induction ks with
    | nil => simp at hx
    | cons k ks ih =>
      by_cases hk : k = x
      · simp [blank, dbStore, hk]
      · have hx' : x ∈ ks := by
          rcases List.mem_cons.mp hx with h | h
          · exact absurd h.symm hk
          · exact h
        have := ih hx'
        simp only [blank] at this
        simp [blank, dbStore, hk, this]
  · rename_i hx
    simp only [blank]
    rw [dbStore_map_not_mem ks (fun _ => none) x none hx]
    simp

theorem doePreseed_blank (ks xs : List κ) :
    doePreseed (blank ks : Db κ ν) xs = blank (addKeys ks xs) := by
  induction xs generalizing ks with
  | nil => simp [doePreseed, addKeys]
  | cons x xs ih => simp [doePreseed, addKeys, dbStore_blank_none, ih]

theorem dbStore_part (eval : κ → Option ν) (D ks : List κ) (x : κ) (hx : x ∈ ks) (hn : ks.Nodup) :
    dbStore (part eval D ks) x (eval x) = part eval (x :: D) ks := by
  simp only [part]
  rw [dbStore_map_mem ks _ x (eval x) hx hn]
  apply List.map_congr_left
  intro k _
  by_cases hk : k = x
  · subst hk
    cases h : eval k <;> simp [merge, h]
  · simp [hk]

theorem doeCallbacks_part (eval : κ → Option ν) (samples ks : List κ) (hn : ks.Nodup)
    (hs : ∀ x ∈ samples, x ∈ ks) (D : List κ) (cbs : List Nat) :
    ∃ D', doeCallbacks eval samples (part eval D ks) cbs = part eval D' ks ∧
      (∀ k, k ∈ D' ↔ k ∈ D ∨ ∃ i ∈ cbs, samples[i]? = some k) := by
  induction cbs generalizing D with
  | nil => exact ⟨D, by simp [doeCallbacks], by simp⟩
  | cons i is ih =>
    simp only [doeCallbacks]
    cases hi : samples[i]? with
    | none =>
      obtain ⟨D', h1, h2⟩ := ih D
      refine ⟨D', h1, ?_⟩
      intro k
      rw [h2 k]
      constructor
      · rintro (h | ⟨j, hj, hk⟩)
        · exact Or.inl h
        · exact Or.inr ⟨j, List.mem_cons_of_mem _ hj, hk⟩
      · rintro (h | ⟨j, hj, hk⟩)
        · exact Or.inl h
        · rcases List.mem_cons.mp hj with rfl | hj
          · simp [hi] at hk
          · exact Or.inr ⟨j, hj, hk⟩
    | some x =>
      have hx : x ∈ ks := hs x (List.mem_of_getElem? hi)
      simp only [dbStore_part eval D ks x hx hn]
      obtain ⟨D', h1, h2⟩ := ih (x :: D)
      refine ⟨D', h1, ?_⟩
      intro k
      rw [h2 k]
      constructor
      · rintro (h | ⟨j, hj, hk⟩)
        · rcases List.mem_cons.mp h with rfl | h
          · exact Or.inr ⟨i, by simp, hi⟩
          · exact Or.inl h
        · exact Or.inr ⟨j, List.mem_cons_of_mem _ hj, hk⟩
      · rintro (h | ⟨j, hj, hk⟩)
        · exact Or.inl (List.mem_cons_of_mem _ h)
        · rcases List.mem_cons.mp hj with rfl | hj
          · rw [hi] at hk
            cases hk
            exact Or.inl (by simp)
          · exact Or.inr ⟨j, hj, hk⟩

theorem removeEmpty_part (eval : κ → Option ν) (D ks : List κ)
    (hc : ∀ k ∈ ks, (eval k).isSome → k ∈ D) :
    dbRemoveEmpty (part eval D ks) = canon eval ks := by
  induction ks with
  | nil => simp [dbRemoveEmpty, part, canon]
  | cons k ks ih =>
    have ih' := ih (fun a ha => hc a (List.mem_cons_of_mem _ ha))
    simp only [dbRemoveEmpty, part, canon] at ih' ⊢
    by_cases hk : (eval k).isSome
    · have hD := hc k (by simp) hk
      simp [hk, hD, ih']
    · have : (if k ∈ D then eval k else none).isSome = false := by
        by_cases hD : k ∈ D <;> simp [hD] <;> simpa using hk
      simp [hk, this, ih']

/-! ### The sequential DOE -/

theorem canon_append (eval : κ → Option ν) (ks : List κ) (x : κ) :
    canon eval (ks ++ [x]) = canon eval ks ++ (match eval x with | some _ => [(x, eval x)] | none => []) := by
  simp only [canon, List.filter_append, List.map_append]
  cases h : eval x <;> simp [h]

theorem dbStore_canon (eval : κ → Option ν) (ks : List κ) (hn : ks.Nodup) (x : κ) (v : ν)
    (hv : eval x = some v) : dbStore (canon eval ks) x (some v) = canon eval (addKey ks x) := by
  unfold addKey
  split
  · rename_i hx
    have hx' : x ∈ ks.filter (fun k => (eval k).isSome) := by
      simp [List.mem_filter, hx, hv]
    simp only [canon]
    rw [dbStore_map_mem _ _ x (some v) hx' (hn.filter _)]
    apply List.map_congr_left
    intro k _
    by_cases hk : k = x
    · subst hk; simp [merge, hv]
    · simp [hk]
  · rename_i hx
    have hx' : x ∉ ks.filter (fun k => (eval k).isSome) := fun h => hx (List.mem_filter.mp h).1
    rw [canon_append]
    simp only [canon, hv]
    rw [dbStore_map_not_mem _ _ x (some v) hx']

theorem canon_addKey_none (eval : κ → Option ν) (ks : List κ) (x : κ) (hv : eval x = none) :
    canon eval (addKey ks x) = canon eval ks := by
  unfold addKey
  split
  · rfl
  · rw [canon_append]; simp [hv]

theorem doeSequential_canon (eval : κ → Option ν) (ks : List κ) (hn : ks.Nodup) (xs : List κ) :
    doeSequential eval (canon eval ks) xs = canon eval (addKeys ks xs) := by
  induction xs generalizing ks with
  | nil => simp [doeSequential, addKeys]
  | cons x xs ih =>
    simp only [doeSequential, addKeys]
    cases hv : eval x with
    | none =>
      simp only []
      rw [← canon_addKey_none eval ks x hv]
      exact ih _ (nodup_addKey hn x)
    | some v =>
      simp only []
      rw [dbStore_canon eval ks hn x v hv]
      exact ih _ (nodup_addKey hn x)

/-! ### Shared cache -/

theorem cacheLookup_nil (x : κ) : cacheLookup ([] : Cache κ ν) x = none := rfl

theorem cacheLookup_cons (p : κ × ν) (ps : Cache κ ν) (x : κ) :
    cacheLookup (p :: ps) x = if p.1 = x then some p.2 else cacheLookup ps x := by
  by_cases hp : p.1 = x <;> simp [cacheLookup, List.find?, hp]

theorem any_cons_key (p : κ × ν) (ps : Cache κ ν) (x : κ) :
    (p :: ps).any (fun e => decide (e.1 = x)) = (decide (p.1 = x) || ps.any (fun e => decide (e.1 = x))) := by
  simp

theorem cacheLookup_append_of_mem (cch : Cache κ ν) (e : κ × ν) (x : κ)
    (h : cch.any (fun p => p.1 = x) = true) : cacheLookup (cch ++ [e]) x = cacheLookup cch x := by
  induction cch with
  | nil => simp at h
  | cons p ps ih =>
    rw [List.cons_append, cacheLookup_cons, cacheLookup_cons]
    by_cases hp : p.1 = x
    · simp [hp]
    · have : ps.any (fun p => p.1 = x) = true := by simpa [hp] using h
      simp [hp, ih this]

theorem cacheLookup_append_of_not_mem (cch : Cache κ ν) (e : κ × ν) (x : κ)
    (h : cch.any (fun p => p.1 = x) = false) :
    cacheLookup (cch ++ [e]) x = if e.1 = x then some e.2 else none := by
  induction cch with
  | nil => rw [List.nil_append, cacheLookup_cons, cacheLookup_nil]
  | cons p ps ih =>
    have hp : ¬ p.1 = x := by
      intro hp
      simp [hp] at h
    have : ps.any (fun p => p.1 = x) = false := by simpa [hp] using h
    rw [List.cons_append, cacheLookup_cons]
    simp [hp, ih this]

theorem cacheLookup_eq_none_iff (cch : Cache κ ν) (x : κ) :
    cacheLookup cch x = none ↔ cch.any (fun p => p.1 = x) = false := by
  induction cch with
  | nil => simp [cacheLookup_nil]
  | cons p ps ih =>
    rw [cacheLookup_cons]
    by_cases hp : p.1 = x
    · simp [hp]
    · simp only [hp, if_false, ih]
      simp [hp]

/-- One atomic `cache_outputs`: the looked-up value of every key. -/
theorem cacheLookup_cacheOutputs (cch : Cache κ ν) (x y : κ) (v : ν) :
    cacheLookup (cacheOutputs cch x v) y =
      match cacheLookup cch y with
      | some w => some w
      | none => if x = y then some v else none := by
  unfold cacheOutputs
  by_cases hx : cch.any (fun e => e.1 = x) = true
  · simp only [hx, if_true]
    cases hl : cacheLookup cch y with
    | some w => rfl
    | none =>
      have := (cacheLookup_eq_none_iff cch y).mp hl
      by_cases hxy : x = y
      · subst hxy; simp [this] at hx
      · simp [hxy]
  · have hx' : cch.any (fun e => e.1 = x) = false := by cases hb : cch.any (fun e => decide (e.1 = x)) with | false => rfl | true => exact absurd hb hx
    simp only [hx', Bool.false_eq_true, if_false]
    by_cases hy : cch.any (fun e => e.1 = y) = true
    · rw [cacheLookup_append_of_mem cch (x, v) y hy]
      cases hl : cacheLookup cch y with
      | some w => rfl
      | none =>
        have := (cacheLookup_eq_none_iff cch y).mp hl
        simp [this] at hy
    · have hy' : cch.any (fun e => e.1 = y) = false := by cases hb : cch.any (fun e => decide (e.1 = y)) with | false => rfl | true => exact absurd hb hy
      rw [cacheLookup_append_of_not_mem cch (x, v) y hy']
      have := (cacheLookup_eq_none_iff cch y).mpr hy'
      simp [this]

theorem cacheLookup_cacheWrites (f : κ → ν) (cch : Cache κ ν) (xs : List κ) (y : κ) :
    cacheLookup (cacheWrites f cch xs) y =
      match cacheLookup cch y with
      | some w => some w
      | none => if y ∈ xs then some (f y) else none := by
  induction xs generalizing cch with
  | nil => simp [cacheWrites]; cases cacheLookup cch y <;> rfl
  | cons x xs ih =>
    simp only [cacheWrites]
    rw [ih, cacheLookup_cacheOutputs]
    cases hl : cacheLookup cch y with
    | some w => rfl
    | none =>
      by_cases hxy : x = y
      · subst hxy; simp
      · have : ¬ y = x := fun h => hxy h.symm
        simp [hxy, this]

theorem any_key_iff (cch : Cache κ ν) (x : κ) :
    (cch.any (fun e => decide (e.1 = x)) = true) ↔ x ∈ cch.map Prod.fst := by
  induction cch with
  | nil => simp
  | cons p ps ih =>
    rw [any_cons_key, Bool.or_eq_true, ih, List.map_cons, List.mem_cons, decide_eq_true_eq]
    constructor
    · rintro (h | h)
      · exact Or.inl h.symm
      · exact Or.inr h
    · rintro (h | h)
      · exact Or.inl h.symm
      · exact Or.inr h

theorem keys_cacheOutputs (cch : Cache κ ν) (x : κ) (v : ν) :
    (cacheOutputs cch x v).map Prod.fst = addKey (cch.map Prod.fst) x := by
  unfold cacheOutputs addKey
  by_cases h : cch.any (fun e => decide (e.1 = x)) = true
  · have hm := (any_key_iff cch x).mp h
    rw [if_pos h, if_pos hm]
  · have hm : x ∉ cch.map Prod.fst := fun hm => h ((any_key_iff cch x).mpr hm)
    rw [if_neg h, if_neg hm, List.map_append]
    rfl

theorem keys_cacheWrites (f : κ → ν) (cch : Cache κ ν) (xs : List κ) :
    (cacheWrites f cch xs).map Prod.fst = addKeys (cch.map Prod.fst) xs := by
  induction xs generalizing cch with
  | nil => simp [cacheWrites, addKeys]
  | cons x xs ih => simp [cacheWrites, addKeys, ih, keys_cacheOutputs]

end GV.C13
