/-
C10 — specification of the *complete* tree language over ℝ: on top of the algebraic fragment
(`C10Tree.lean`) the second-order Taylor polynomial, the convex linearisation and the exact
aggregations (sum of squares, positive sum of squares, max), arbitrarily nested.
-/
import GemseoVerif.Lemmas.C10Tree
import GemseoVerif.Lemmas.C10Ordered

namespace GV.C10

/-- The mask of `ConvexLinearApprox` (`None`: all the inputs). -/
def maskFn (mask : Option (List Bool)) : ℕ → Bool :=
  match mask with
  | none => fun _ => true
  | some l => fun j => l.getD j false

/-- The mathematically defined function denoted by a tree over ℝ (all node kinds).
    `thr` is the sign threshold of the convex linearisations. Derivatives appearing in the
    definitions (Taylor polynomials, convex linearisation) are the true ones (`deriv`). -/
noncomputable def denR (envF : ℕ → ℕ → (ℕ → ℝ) → ℕ → ℝ) (envM : ℕ → ℕ → ℕ) (thr : ℝ) :
    ℕ → Expr ℝ → (ℕ → ℝ) → ℕ → ℝ
  | n, .user id => envF id n
  | _, .poly ps => fun y i => polyEval (ps.getD i []) y
  | n, .lin _ A b => fun y i => sumTo n (fun j => mat A i j * y j) + vec b i
  | n, .quad Q b c => fun y _ =>
      sumTo n (fun i => y i * sumTo n (fun j => mat Q i j * y j)) + sumTo n (fun j => vec b j * y j) + c
  | n, .bin op a b => fun y i =>
      binFn op (denR envF envM thr n a y (bi (dimOf envM n a) i))
        (denR envF envM thr n b y (bi (dimOf envM n b) i))
  | n, .binC op a c => fun y i => binFn op (denR envF envM thr n a y i) (vec c (bi c.length i))
  | n, .neg a => fun y i => - denR envF envM thr n a y i
  | n, .offset a c => fun y i => denR envF envM thr n a y i + vec c (bi c.length i)
  | _, .restrict N fz vals a => fun y i => denR envF envM thr N a (extendPt N fz vals y) i
  | n, .lrestrict fz vals a => fun y i =>
      denR envF envM thr (n + fz.length) a (extendPt (n + fz.length) fz vals y) i
  | n, .lincomp K A a => fun y i => denR envF envM thr K a (matVec n (mat A) y) i
  | n, .concat a b => fun y i =>
      if i < dimOf envM n a then denR envF envM thr n a y i
      else denR envF envM thr n b y (i - dimOf envM n a)
  | n, .normalize lb ub mask a => fun u i => denR envF envM thr n a (unnormalizePt n lb ub mask u) i
  | n, .taylor1 xh a => fun y i =>
      denR envF envM thr n a (vec xh) i
        + sumTo n (fun j => deriv (fun t : ℝ => denR envF envM thr n a (vec xh + t • basisVec j) i) 0
            * (y j - vec xh j))
  | n, .taylor2 xh H a => fun y _ =>
      denR envF envM thr n a (vec xh) 0
        + sumTo n (fun j => deriv (fun t : ℝ => denR envF envM thr n a (vec xh + t • basisVec j) 0) 0
            * (y j - vec xh j))
        + half * sumTo n (fun i => sumTo n (fun j => mat H i j * (y i - vec xh i) * (y j - vec xh j)))
  | n, .convexLin xh mask a =>
      clFn n thr (fun i j => deriv (fun t : ℝ => denR envF envM thr n a (vec xh + t • basisVec j) i) 0)
        (vec xh) (maskFn mask) (denR envF envM thr n a)
  | n, .agg kind idx scale a => fun y _ =>
      match kind with
      | .sumsq => sumTo (selLen idx (dimOf envM n a)) (fun k => vec scale (bi scale.length k)
          * (denR envF envM thr n a y (selIdx idx k) * denR envF envM thr n a y (selIdx idx k)))
      | .possumsq => sumTo (selLen idx (dimOf envM n a)) (fun k => vec scale (bi scale.length k)
          * posSq (denR envF envM thr n a y (selIdx idx k)))
      | .max => maxTo (selLen idx (dimOf envM n a))
          (fun k => denR envF envM thr n a y (selIdx idx k) * vec scale (bi scale.length k))

/-- Well-formed trees, all node kinds. -/
inductive WFR (envM : ℕ → ℕ → ℕ) : ℕ → Expr ℝ → ℕ → Prop
  | user (n id) : WFR envM n (.user id) (envM id n)
  | poly (n) (ps : List (List (Mono ℝ))) : (∀ p ∈ ps, PolyOK n p) → WFR envM n (.poly ps) ps.length
  | lin (n m A b) : WFR envM n (.lin m A b) m
  | quad (n Q b c) : WFR envM n (.quad Q b c) 1
  | bin {n a b Ma Mb} (op) : WFR envM n a Ma → WFR envM n b Mb → Compat Ma Mb →
      WFR envM n (.bin op a b) (max Ma Mb)
  | binC {n a M} (op c) : WFR envM n a M → WFR envM n (.binC op a c) M
  | neg {n a M} : WFR envM n a M → WFR envM n (.neg a) M
  | offset {n a M} (c) : WFR envM n a M → WFR envM n (.offset a c) M
  | restrict {n N a M} (fz : List ℕ) (vals) : WFR envM N a M → fz.Nodup →
      (activeIdx N fz).length = n → WFR envM n (.restrict N fz vals a) M
  | lrestrict {n a M} (fz : List ℕ) (vals) : WFR envM (n + fz.length) a M → fz.Nodup →
      (∀ k ∈ fz, k < n + fz.length) → (activeIdx (n + fz.length) fz).length = n →
      WFR envM n (.lrestrict fz vals a) M
  | lincomp {n K a M} (A) : WFR envM K a M → WFR envM n (.lincomp K A a) M
  | concat {n a b Ma Mb} : WFR envM n a Ma → WFR envM n b Mb → WFR envM n (.concat a b) (Ma + Mb)
  | normalize {n a M} (lb ub mask) : WFR envM n a M → IsLin a → WFR envM n (.normalize lb ub mask a) M
  | taylor1 {n a M} (xh) : WFR envM n a M → WFR envM n (.taylor1 xh a) M
  | taylor2 {n a} (xh H) : WFR envM n a 1 → (∀ i j, i < n → j < n → mat H i j = mat H j i) →
      WFR envM n (.taylor2 xh H a) 1
  | convexLin {n a M} (xh mask) : WFR envM n a M → WFR envM n (.convexLin xh mask a) M
  | agg {n a M} (kind idx scale) : WFR envM n a M →
      (∀ k, k < selLen idx M → selIdx idx k < M) → (kind = .max → 0 < selLen idx M) →
      WFR envM n (.agg kind idx scale a) 1

theorem WFR.dimOf_eq {envM : ℕ → ℕ → ℕ} {n : ℕ} {e : Expr ℝ} {M : ℕ} (h : WFR envM n e M) :
    dimOf envM n e = M := by
  induction h with
  | user | poly | lin | quad => rfl
  | bin op _ _ _ iha ihb => simp [dimOf, iha, ihb]
  | binC op c _ ih => simpa [dimOf] using ih
  | neg _ ih => simpa [dimOf] using ih
  | offset c _ ih => simpa [dimOf] using ih
  | restrict fz vals _ _ _ ih => simpa [dimOf] using ih
  | lrestrict fz vals _ _ _ _ ih => simpa [dimOf] using ih
  | lincomp A _ ih => simpa [dimOf] using ih
  | concat _ _ iha ihb => simp [dimOf, iha, ihb]
  | normalize lb ub mask _ _ ih => simpa [dimOf] using ih
  | taylor1 xh _ ih => simpa [dimOf] using ih
  | taylor2 xh H _ _ _ => rfl
  | convexLin xh mask _ ih => simpa [dimOf] using ih
  | agg kind idx scale _ _ _ _ => rfl

/-- The points at which the tree is evaluated without vanishing divisor and at which it is
    differentiable: off the switching sets of the convex linearisations, unique maximiser. -/
def SafeR (envF : ℕ → ℕ → (ℕ → ℝ) → ℕ → ℝ) (envM : ℕ → ℕ → ℕ) (thr : ℝ) :
    ℕ → Expr ℝ → (ℕ → ℝ) → Prop
  | n, .bin op a b, x =>
      SafeR envF envM thr n a x ∧ SafeR envF envM thr n b x ∧
        (op = .div → ∀ i, i < dimOf envM n b → denR envF envM thr n b x i ≠ 0)
  | n, .binC op a c, x =>
      SafeR envF envM thr n a x ∧ (op = .div → ∀ i, vec c (bi c.length i) ≠ 0)
  | n, .neg a, x => SafeR envF envM thr n a x
  | n, .offset a _, x => SafeR envF envM thr n a x
  | _, .restrict N fz vals a, x => SafeR envF envM thr N a (extendPt N fz vals x)
  | n, .lrestrict fz vals a, x =>
      SafeR envF envM thr (n + fz.length) a (extendPt (n + fz.length) fz vals x)
  | n, .lincomp K A a, x => SafeR envF envM thr K a (matVec n (mat A) x)
  | n, .concat a b, x => SafeR envF envM thr n a x ∧ SafeR envF envM thr n b x
  | n, .normalize lb ub mask a, u => SafeR envF envM thr n a (unnormalizePt n lb ub mask u)
  | n, .taylor1 xh a, _ => SafeR envF envM thr n a (vec xh)
  | n, .taylor2 xh _ a, _ => SafeR envF envM thr n a (vec xh)
  | n, .convexLin xh mask a, x =>
      SafeR envF envM thr n a (vec xh) ∧ SafeR envF envM thr n a (mergePt (maskFn mask) (vec xh) x) ∧
        (∀ j, j < n → maskFn mask j = true → |x j - vec xh j| ≠ thr)
  | n, .agg kind idx scale a, x =>
      SafeR envF envM thr n a x ∧
        (kind = .max → ∀ k, k < selLen idx (dimOf envM n a) →
          k ≠ argmaxTo (selLen idx (dimOf envM n a))
              (fun k => denR envF envM thr n a x (selIdx idx k) * vec scale (bi scale.length k)) →
          denR envF envM thr n a x (selIdx idx k) * vec scale (bi scale.length k)
            < denR envF envM thr n a x (selIdx idx (argmaxTo (selLen idx (dimOf envM n a))
                (fun k => denR envF envM thr n a x (selIdx idx k) * vec scale (bi scale.length k))))
              * vec scale (bi scale.length (argmaxTo (selLen idx (dimOf envM n a))
                (fun k => denR envF envM thr n a x (selIdx idx k) * vec scale (bi scale.length k)))))
  | _, _, _ => True

/-- The convex linearisation only reads the coefficients inside the shape. -/
theorem clFn_congr_coeffs {n M : ℕ} (thr : ℝ) (J0 J0' : ℕ → ℕ → ℝ) (xh : ℕ → ℝ) (mask : ℕ → Bool)
    (F : (ℕ → ℝ) → ℕ → ℝ) (hJ : ∀ i j, i < M → j < n → J0 i j = J0' i j) (y : ℕ → ℝ) {i : ℕ}
    (hi : i < M) : clFn n thr J0 xh mask F y i = clFn n thr J0' xh mask F y i := by
  simp only [clFn, clDirect, clRecipr]
  congr 1
  · congr 1
    exact sumTo_congr (fun j hj => by rw [hJ i j hi hj])
  · exact sumTo_congr (fun j hj => by rw [hJ i j hi hj])

end GV.C10
