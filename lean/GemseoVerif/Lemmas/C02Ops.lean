/-
Helper lemmas for C02: every public edit of a design space preserves well-formedness
(`DS.WF`: distinct names; per variable equal-length non-empty bounds and a current value of the
variable's size).
-/
import GemseoVerif.Lemmas.C02
import Mathlib.Data.List.Nodup

namespace GV.C02

def Var.WF (v : Var) : Prop :=
  v.lb.length = v.ub.length ∧ 0 < v.lb.length ∧ (∀ x, v.value = some x → x.length = v.lb.length)

def DS.WF (d : DS) : Prop := d.names.Nodup ∧ ∀ v ∈ d.vars, v.WF

theorem contains_iff (d : DS) (n : String) : d.contains n = true ↔ n ∈ d.names := by
  simp only [DS.contains, DS.names, List.any_eq_true, List.mem_map, beq_iff_eq]

theorem boundsOk_wf (lb ub : List (Option Rat)) (h : boundsOk lb ub = true) :
    lb.length = ub.length ∧ 0 < lb.length := by
  simp only [boundsOk, Bool.and_eq_true, beq_iff_eq, decide_eq_true_eq] at h
  exact ⟨h.1.1, h.1.2⟩

theorem valueOk_len (tol : Rat) (b : Bool) (lb ub : List (Option Rat)) (x : List Rat)
    (h : valueOk tol b lb ub x = true) : x.length = lb.length := by
  simp only [valueOk, Bool.and_eq_true, beq_iff_eq] at h
  exact h.1.1

/-! ### add / extend -/

theorem wf_addVariable (d d' : DS) (tol : Rat) (v : Var) (hwf : d.WF)
    (h : d.addVariable tol v = some d') : d'.WF := by
  unfold DS.addVariable at h
  by_cases hc : d.contains v.name = true
  · simp [hc] at h
  · simp only [hc, Bool.false_eq_true, if_false] at h
    by_cases hb : boundsOk v.lb v.ub = true
    · simp only [hb, Bool.not_true, Bool.false_eq_true, if_false] at h
      split at h
      · cases h
      · have hbw := boundsOk_wf v.lb v.ub hb
        have hname : v.name ∉ d.names := fun hm => hc ((contains_iff d v.name).mpr hm)
        have build : ∀ (hv : ∀ x, v.value = some x → x.length = v.lb.length),
            ({ d with vars := d.vars ++ [v] } : DS).WF := by
          intro hv
          refine ⟨?_, ?_⟩
          · simp only [DS.names, List.map_append, List.map_cons, List.map_nil]
            rw [List.nodup_append]
            refine ⟨hwf.1, by simp, ?_⟩
            intro a ha b hb'
            simp only [List.mem_singleton] at hb'
            subst hb'
            intro hab; subst hab
            exact hname ha
          · intro w hw
            rcases List.mem_append.mp hw with hw | hw
            · exact hwf.2 w hw
            · simp only [List.mem_singleton] at hw
              subst hw
              exact ⟨hbw.1, hbw.2, hv⟩
        cases hval : v.value with
        | none =>
          simp only [hval, Option.some.injEq] at h
          subst h
          exact build (by intro x hx; rw [hval] at hx; cases hx)
        | some x =>
          simp only [hval] at h
          by_cases hok : valueOk tol v.isInt v.lb v.ub x = true
          · simp only [hok, if_true, Option.some.injEq] at h
            subst h
            exact build (by
              intro y hy; rw [hval] at hy; cases hy
              exact valueOk_len tol v.isInt v.lb v.ub x hok)
          · simp [hok] at h
    · simp [hb] at h

theorem wf_extend (tol : Rat) (vs : List Var) : ∀ (d d' : DS), d.WF → d.extend tol vs = some d' → d'.WF := by
  induction vs with
  | nil =>
    intro d d' hwf h
    simp only [DS.extend, List.foldlM_nil, Option.pure_def, Option.some.injEq] at h
    subst h; exact hwf
  | cons v vs ih =>
    intro d d' hwf h
    simp only [DS.extend, List.foldlM_cons, Option.bind_eq_bind] at h
    cases hadd : d.addVariable tol v with
    | none => simp [hadd] at h
    | some d1 =>
      simp only [hadd, Option.bind_some] at h
      exact ih d1 d' (wf_addVariable d d1 tol v hwf hadd) h

/-! ### remove / filter -/

private theorem wf_filter_vars (d : DS) (p : Var → Bool) (hwf : d.WF) :
    ({ d with vars := d.vars.filter p } : DS).WF := by
  refine ⟨?_, ?_⟩
  · simp only [DS.names]
    exact List.Nodup.sublist (List.Sublist.map _ List.filter_sublist) hwf.1
  · intro v hv
    exact hwf.2 v (List.mem_filter.mp hv).1

theorem wf_removeVariable (d d' : DS) (n : String) (hwf : d.WF)
    (h : d.removeVariable n = some d') : d'.WF := by
  unfold DS.removeVariable at h
  split at h
  · simp only [Option.some.injEq] at h; subst h
    exact wf_filter_vars d _ hwf
  · cases h

theorem wf_filter (d d' : DS) (keep : List String) (hwf : d.WF)
    (h : d.filter keep = some d') : d'.WF := by
  unfold DS.filter at h
  split at h
  · simp only [Option.some.injEq] at h; subst h
    exact wf_filter_vars d _ hwf
  · cases h

/-! ### map-based edits (names unchanged) -/

private theorem wf_map_vars (d : DS) (f : Var → Var) (hwf : d.WF)
    (hname : ∀ v, (f v).name = v.name) (hf : ∀ v ∈ d.vars, v.WF → (f v).WF) (b : Bool) :
    ({ vars := d.vars.map f, intNorm := b } : DS).WF := by
  refine ⟨?_, ?_⟩
  · have : (d.vars.map f).map (·.name) = d.vars.map (·.name) := by
      simp only [List.map_map]
      apply List.map_congr_left
      intro v _; exact hname v
    simp only [DS.names, this]
    exact hwf.1
  · intro w hw
    obtain ⟨v, hv, rfl⟩ := List.mem_map.mp hw
    exact hf v hv (hwf.2 v hv)

theorem pick_length {α : Type} (l : List α) (dims : List Nat) (h : ∀ i ∈ dims, i < l.length) :
    (pick l dims).length = dims.length := by
  unfold pick
  induction dims with
  | nil => rfl
  | cons i is ih =>
    have hi := h i (by simp)
    simp only [List.filterMap_cons, List.getElem?_eq_getElem hi, List.length_cons]
    rw [ih (fun j hj => h j (List.mem_cons_of_mem _ hj))]

theorem find?_mem (d : DS) (n : String) (v : Var) (h : d.find? n = some v) :
    v ∈ d.vars ∧ v.name = n := by
  unfold DS.find? at h
  refine ⟨List.mem_of_find?_eq_some h, ?_⟩
  have := List.find?_some (p := fun w : Var => w.name == n) h
  simpa using this

theorem wf_filterDimensions (d d' : DS) (n : String) (dims : List Nat) (hwf : d.WF)
    (h : d.filterDimensions n dims = some d') : d'.WF := by
  unfold DS.filterDimensions at h
  cases hf : d.find? n with
  | none => simp [hf] at h
  | some v0 =>
    simp only [hf] at h
    split at h
    · cases h
    · rename_i hcond
      simp only [Option.some.injEq] at h
      subst h
      simp only [Bool.or_eq_true, List.isEmpty_iff, List.any_eq_true, decide_eq_true_eq, not_or,
        not_exists, not_and, not_le] at hcond
      obtain ⟨hne, hlt⟩ := hcond
      obtain ⟨hv0, hn0⟩ := find?_mem d n v0 hf
      apply wf_map_vars d _ hwf
      · intro v; split <;> rfl
      · intro v hv hvwf
        by_cases hvn : (v.name == n) = true
        · simp only [hvn, if_true]
          -- v is the variable of that name, i.e. v0 (names are distinct)
          have hvv : v = v0 := by
            have hnd := hwf.1
            have hnm : v.name = v0.name := by rw [hn0]; simpa using hvn
            exact (List.inj_on_of_nodup_map hnd) hv hv0 hnm
          subst hvv
          have hdl : ∀ i ∈ dims, i < v.lb.length := fun i hi => hlt i hi
          have hdu : ∀ i ∈ dims, i < v.ub.length := fun i hi => by rw [← hvwf.1]; exact hlt i hi
          refine ⟨?_, ?_, ?_⟩
          · simp only [pick_length v.lb dims hdl, pick_length v.ub dims hdu]
          · simp only [pick_length v.lb dims hdl]
            exact List.length_pos_of_ne_nil hne
          · intro x hx
            simp only [Option.map_eq_some_iff] at hx
            obtain ⟨y, hy, rfl⟩ := hx
            have hyl := hvwf.2.2 y hy
            rw [pick_length y dims (fun i hi => by rw [hyl]; exact hlt i hi),
              pick_length v.lb dims hdl]
        · simp only [hvn, Bool.false_eq_true, if_false]; exact hvwf

theorem wf_renameVariable (d d' : DS) (old new : String) (hwf : d.WF)
    (h : d.renameVariable old new = some d') : d'.WF := by
  unfold DS.renameVariable at h
  split at h
  · cases h
  · split at h
    · cases h
    · rename_i _ hnew
      simp only [Option.some.injEq] at h
      subst h
      have hnew' : new ∉ d.names := fun hm => hnew ((contains_iff d new).mpr hm)
      refine ⟨?_, ?_⟩
      · -- renaming is injective on the (distinct) names because `new` is fresh
        simp only [DS.names, List.map_map]
        have hmap : List.map ((fun v : Var => v.name) ∘ fun v => if (v.name == old) = true then { v with name := new } else v) d.vars
            = (d.vars.map (·.name)).map (fun m => if m == old then new else m) := by
          simp only [List.map_map]
          apply List.map_congr_left
          intro v _
          simp only [Function.comp]
          split <;> simp_all
        rw [hmap]
        apply List.Nodup.map_on _ hwf.1
        intro a ha b hb hab
        by_cases h1 : (a == old) = true <;> by_cases h2 : (b == old) = true
        · have e1 : a = old := by simpa using h1
          have e2 : b = old := by simpa using h2
          rw [e1, e2]
        · simp only [h1, h2, if_true, Bool.false_eq_true, if_false] at hab
          exact absurd (hab ▸ hb) hnew'
        · simp only [h1, h2, if_true, Bool.false_eq_true, if_false] at hab
          exact absurd (hab ▸ ha) hnew'
        · simpa [h1, h2] using hab
      · intro w hw
        obtain ⟨v, hv, rfl⟩ := List.mem_map.mp hw
        have := hwf.2 v hv
        split
        · exact this
        · exact this

private theorem wf_updVar (d : DS) (n : String) (f : Var → Var) (hwf : d.WF)
    (hname : ∀ v, (f v).name = v.name) (hf : ∀ v ∈ d.vars, v.name = n → v.WF → (f v).WF) :
    (updVar d n f).WF := by
  unfold updVar
  apply wf_map_vars d _ hwf
  · intro v; split
    · exact hname v
    · rfl
  · intro v hv hvwf
    by_cases hvn : (v.name == n) = true
    · simp only [hvn, if_true]
      exact hf v hv (by simpa using hvn) hvwf
    · simp only [hvn, Bool.false_eq_true, if_false]; exact hvwf

theorem wf_setLowerBound (d d' : DS) (n : String) (lb : List (Option Rat)) (hwf : d.WF)
    (h : d.setLowerBound n lb = some d') : d'.WF := by
  unfold DS.setLowerBound at h
  cases hf : d.find? n with
  | none => simp [hf] at h
  | some v0 =>
    simp only [hf] at h
    split at h
    · rename_i hcond
      simp only [Option.some.injEq] at h
      subst h
      simp only [Bool.and_eq_true, beq_iff_eq] at hcond
      obtain ⟨hv0, hn0⟩ := find?_mem d n v0 hf
      apply wf_updVar d n (fun v => { v with lb := lb }) hwf (fun _ => rfl)
      intro v hv hvn hvwf
      have hvv : v = v0 := by
        apply (List.inj_on_of_nodup_map hwf.1) hv hv0
        rw [hvn, hn0]
      subst hvv
      have hb := boundsOk_wf lb v.ub hcond.1.2
      refine ⟨hb.1, hb.2, ?_⟩
      intro x hx
      have := hvwf.2.2 x hx
      simp only [Var.size] at hcond
      rw [this, hcond.1.1]
    · cases h

theorem wf_setUpperBound (d d' : DS) (n : String) (ub : List (Option Rat)) (hwf : d.WF)
    (h : d.setUpperBound n ub = some d') : d'.WF := by
  unfold DS.setUpperBound at h
  cases hf : d.find? n with
  | none => simp [hf] at h
  | some v0 =>
    simp only [hf] at h
    split at h
    · rename_i hcond
      simp only [Option.some.injEq] at h
      subst h
      simp only [Bool.and_eq_true, beq_iff_eq] at hcond
      obtain ⟨hv0, hn0⟩ := find?_mem d n v0 hf
      apply wf_updVar d n (fun v => { v with ub := ub }) hwf (fun _ => rfl)
      intro v hv hvn hvwf
      have hvv : v = v0 := by
        apply (List.inj_on_of_nodup_map hwf.1) hv hv0
        rw [hvn, hn0]
      subst hvv
      have hb := boundsOk_wf v.lb ub hcond.1.2
      exact ⟨hb.1, hb.2, hvwf.2.2⟩
    · cases h

theorem wf_setCurrentVariable (d d' : DS) (n : String) (x : List Rat) (hwf : d.WF)
    (hx : ∀ v ∈ d.vars, v.name = n → x.length = v.size)
    (h : d.setCurrentVariable n x = some d') : d'.WF := by
  unfold DS.setCurrentVariable at h
  split at h
  · simp only [Option.some.injEq] at h
    subst h
    apply wf_updVar d n (fun v => { v with value := some x }) hwf (fun _ => rfl)
    intro v hv hvn hvwf
    refine ⟨hvwf.1, hvwf.2.1, ?_⟩
    intro y hy
    simp only [Option.some.injEq] at hy
    subst hy
    exact hx v hv hvn
  · cases h

theorem wf_initMissing (d : DS) (hwf : d.WF) : d.initMissing.WF := by
  unfold DS.initMissing
  apply wf_map_vars d _ hwf
  · intro v; split <;> rfl
  · intro v _ hvwf
    cases hval : v.value with
    | some x => simp only; exact hvwf
    | none =>
      simp only
      refine ⟨hvwf.1, hvwf.2.1, ?_⟩
      intro x hx
      simp only [Option.some.injEq] at hx
      subst hx
      have hz : (v.lb.zip v.ub).length = v.lb.length := by
        simp [List.length_zip, hvwf.1]
      split <;> simp [hz]

theorem wf_setIntNorm (d : DS) (b : Bool) (hwf : d.WF) : (d.setIntNorm b).WF := hwf

theorem splitBySizes_getElem_length (sizes : List Nat) (x : List Rat) (h : sizes.sum = x.length)
    (i : Nat) (p : List Rat) (hp : (splitBySizes sizes x)[i]? = some p) :
    ∃ s, sizes[i]? = some s ∧ p.length = s := by
  have hl := splitBySizes_lengths sizes x h
  have : ((splitBySizes sizes x).map List.length)[i]? = some p.length := by
    rw [List.getElem?_map, hp]; rfl
  rw [hl] at this
  exact ⟨p.length, this, rfl⟩

theorem wf_setCurrentArray (d d' : DS) (tol : Rat) (x : List Rat) (hwf : d.WF)
    (h : d.setCurrentArray tol x = some d') : d'.WF := by
  unfold DS.setCurrentArray at h
  split at h
  · cases h
  · dsimp only at h
    split at h
    · rename_i hall
      simp only [Option.some.injEq] at h
      subst h
      simp only [List.all_eq_true] at hall
      refine ⟨?_, ?_⟩
      · -- names unchanged
        have : (List.zipWith (fun (v : Var) p => ({ v with value := some p } : Var)) d.vars
            (splitBySizes d.sizes x)).map (·.name) = (d.vars.map (·.name)).take
              (min d.vars.length (splitBySizes d.sizes x).length) := by
          generalize splitBySizes d.sizes x = ps
          induction d.vars generalizing ps with
          | nil => simp
          | cons v vs ih =>
            cases ps with
            | nil => simp
            | cons p ps => simp [List.zipWith_cons_cons, ih ps]
        simp only [DS.names, this]
        exact List.Nodup.sublist (List.take_sublist _ _) hwf.1
      · intro w hw
        have hok := hall w hw
        obtain ⟨i, hi⟩ := List.mem_iff_getElem?.mp hw
        rw [List.getElem?_zipWith] at hi
        cases hv : d.vars[i]? with
        | none => simp [hv] at hi
        | some v =>
          cases hp : (splitBySizes d.sizes x)[i]? with
          | none => simp [hv, hp] at hi
          | some p =>
            simp only [hv, hp, Option.map_some, Option.some.injEq] at hi
            subst hi
            have hvwf := hwf.2 v (List.mem_of_getElem? hv)
            refine ⟨hvwf.1, hvwf.2.1, ?_⟩
            intro y hy
            simp only [Option.some.injEq] at hy
            subst hy
            have := valueOk_len tol _ _ _ _ hok
            simpa using this
    · cases h

theorem wf_setCurrentDict (d d' : DS) (tol : Rat) (m : List (String × List Rat)) (hwf : d.WF)
    (h : d.setCurrentDict tol m = some d') : d'.WF := by
  unfold DS.setCurrentDict at h
  dsimp only at h
  let f : Var → Var := fun v => { v with value := (m.find? (·.1 == v.name)).map (·.2) }
  split at h
  · rename_i hnone
    simp only [Option.some.injEq] at h
    subst h
    have hnone' : ∀ w ∈ d.vars.map f, w.value.isSome = false := by
      intro w hw
      by_contra hc
      have hany : (d.vars.map f).any (fun v => v.value.isSome) = true :=
        List.any_eq_true.mpr ⟨w, hw, by
          cases hv : w.value.isSome
          · exact absurd hv hc
          · rfl⟩
      simp only [f] at hany
      simp [hany] at hnone
    apply wf_map_vars d f hwf (fun _ => rfl)
    intro v hv hvwf
    refine ⟨hvwf.1, hvwf.2.1, ?_⟩
    intro x hx
    have := hnone' (f v) (List.mem_map_of_mem hv)
    rw [hx] at this
    cases this
  · split at h
    · rename_i hall
      simp only [Option.some.injEq] at h
      subst h
      apply wf_map_vars d f hwf (fun _ => rfl)
      intro v hv hvwf
      refine ⟨hvwf.1, hvwf.2.1, ?_⟩
      intro x hx
      have := List.all_eq_true.mp hall (f v) (List.mem_map_of_mem hv)
      rw [hx] at this
      exact valueOk_len tol _ _ _ _ this
    · cases h

end GV.C02
