/-
C05 — helper lemmas: the input data of a call are a *mapping*; the order of its items has no meaning.
`prepare` (`IO.prepare_input_data`) looks every input name up in the dict of the call: a dict with
the same items in another order prepares the same input data.
-/
import GemseoVerif.Lemmas.C05Hist
import Mathlib.Data.List.Perm.Basic
import Mathlib.Data.List.Nodup

namespace GV.C05

/-- The look-up of a name in a dict (distinct keys) does not depend on the order of its items. -/
theorem lookupN_perm {α : Type} {l l' : List (Name × α)} (hp : l.Perm l')
    (hn : (l.map (·.1)).Nodup) (k : Name) : lookupN l k = lookupN l' k := by
  unfold lookupN
  congr 1
  induction hp with
  | nil => rfl
  | cons x _ ih =>
    simp only [List.map_cons, List.nodup_cons] at hn
    simp only [List.find?_cons]
    split
    · rfl
    · exact ih hn.2
  | swap x y l =>
    simp only [List.map_cons, List.nodup_cons, List.mem_cons, not_or] at hn
    simp only [List.find?_cons]
    cases hx : (x.1 == k) <;> cases hy : (y.1 == k) <;> simp_all
  | trans h1 _ ih1 ih2 =>
    exact (ih1 hn).trans (ih2 ((h1.map _).nodup_iff.mp hn))

/-- `IO.prepare_input_data` of a dict and of the same dict with its items in another order. -/
theorem prepare_perm (cfg : Cfg) (st : State) {args args' : List (Name × Nat)} (hp : args.Perm args')
    (hn : (args.map (·.1)).Nodup) : prepare cfg st args = prepare cfg st args' := by
  unfold prepare
  congr 1
  funext ⟨n, d⟩
  simp only [lookupN_perm hp hn n]

end GV.C05
