/-
C17 — matrix algebra of the MDF/IDF equivalence for linear coupled systems (Mathlib `Matrix` over a
field; all index types are arbitrary finite types: any number of couplings `m`, design variables `n`
and function outputs `p`).

Coupled system  `Y(x,t) = A x + C t + b`   (couplings computed from the design variables and the targets),
function        `F(x,t) = P x + Q t + r`   (an objective/constraint output; for a quadratic output `P`, `Q`
                                            are its partial Jacobians at the point),
consistency     `c(x,t) = S (Y(x,t) - t)`   (`S` = the inverse normalisation scales, any invertible matrix).
-/
import Mathlib.LinearAlgebra.Matrix.NonsingularInverse

namespace GV.C17.Alg

open Matrix

set_option linter.unusedSectionVars false

variable {K : Type*} [Field K]
variable {m n p : Type*} [Fintype m] [DecidableEq m] [Fintype n] [DecidableEq n]
  [Fintype p] [DecidableEq p]

/-- `y` is a multidisciplinary solution at `x`. -/
def IsSolution (A : Matrix m n K) (C : Matrix m m K) (b : m → K) (x : n → K) (y : m → K) : Prop :=
  y = A *ᵥ x + C *ᵥ y + b

theorem isSolution_iff (A : Matrix m n K) (C : Matrix m m K) (b : m → K) (x : n → K) (y : m → K) :
    IsSolution A C b x y ↔ (1 - C) *ᵥ y = A *ᵥ x + b := by
  unfold IsSolution
  rw [Matrix.sub_mulVec, Matrix.one_mulVec]
  constructor
  · intro h
    have : y - C *ᵥ y = A *ᵥ x + C *ᵥ y + b - C *ᵥ y := by rw [← h]
    rw [this]; abel
  · intro h
    have e : y = (y - C *ᵥ y) + C *ᵥ y := by abel
    calc y = (y - C *ᵥ y) + C *ᵥ y := e
      _ = A *ᵥ x + C *ᵥ y + b := by rw [h]; abel

/-- Well-posedness: with `I - C` invertible the multidisciplinary solution is unique. -/
theorem solution_unique (A : Matrix m n K) (C : Matrix m m K) (b : m → K) (x : n → K) (y y' : m → K)
    (hC : IsUnit (1 - C).det) (h : IsSolution A C b x y) (h' : IsSolution A C b x y') : y = y' := by
  rw [isSolution_iff] at h h'
  have e : (1 - C)⁻¹ *ᵥ ((1 - C) *ᵥ y) = (1 - C)⁻¹ *ᵥ ((1 - C) *ᵥ y') := by rw [h, h']
  simpa [Matrix.mulVec_mulVec, Matrix.nonsing_inv_mul _ hC] using e

/-- ... and it exists: `y*(x) = (I - C)⁻¹ (A x + b)`. -/
theorem solution_exists (A : Matrix m n K) (C : Matrix m m K) (b : m → K) (x : n → K)
    (hC : IsUnit (1 - C).det) : IsSolution A C b x ((1 - C)⁻¹ *ᵥ (A *ᵥ x + b)) := by
  rw [isSolution_iff, Matrix.mulVec_mulVec, Matrix.mul_nonsing_inv _ hC, Matrix.one_mulVec]

/-- The sensitivity certificate `(I - C) W = A` determines `W = dy*/dx`: two solutions at `x` and
    `x + h` differ exactly by `W h`. -/
theorem solution_increment (A : Matrix m n K) (C : Matrix m m K) (b : m → K) (W : Matrix m n K)
    (x h : n → K) (y y' : m → K) (hC : IsUnit (1 - C).det) (hW : (1 - C) * W = A)
    (hy : IsSolution A C b x y) (hy' : IsSolution A C b (x + h) y') : y' - y = W *ᵥ h := by
  rw [isSolution_iff] at hy hy'
  have e : (1 - C) *ᵥ (y' - y) = (1 - C) *ᵥ (W *ᵥ h) := by
    rw [Matrix.mulVec_sub, hy, hy', Matrix.mulVec_mulVec, hW, Matrix.mulVec_add]; abel
  have e2 : (1 - C)⁻¹ *ᵥ ((1 - C) *ᵥ (y' - y)) = (1 - C)⁻¹ *ᵥ ((1 - C) *ᵥ (W *ᵥ h)) := by rw [e]
  rw [Matrix.mulVec_mulVec, Matrix.mulVec_mulVec, Matrix.nonsing_inv_mul _ hC, Matrix.one_mulVec,
    Matrix.one_mulVec] at e2
  exact e2

/-- Total derivative of an MDF function of a linear coupled system, as an exact increment:
    `F(x+h, y*(x+h)) - F(x, y*(x)) = (P + Q W) h`. -/
theorem mdf_increment (A : Matrix m n K) (C : Matrix m m K) (b : m → K) (W : Matrix m n K)
    (P : Matrix p n K) (Q : Matrix p m K) (r : p → K)
    (x h : n → K) (y y' : m → K) (hC : IsUnit (1 - C).det) (hW : (1 - C) * W = A)
    (hy : IsSolution A C b x y) (hy' : IsSolution A C b (x + h) y') :
    (P *ᵥ (x + h) + Q *ᵥ y' + r) - (P *ᵥ x + Q *ᵥ y + r) = (P + Q * W) *ᵥ h := by
  have hd := solution_increment A C b W x h y y' hC hW hy hy'
  have : Q *ᵥ y' - Q *ᵥ y = (Q * W) *ᵥ h := by
    rw [← Matrix.mulVec_sub, hd, Matrix.mulVec_mulVec]
  rw [Matrix.add_mulVec, ← this, Matrix.mulVec_add]; abel

/-- `(∂c/∂t)⁻¹ ∂c/∂x = -W` for `∂c/∂t = S (C - I)`, `∂c/∂x = S A` and a certified `W`. -/
theorem consistency_solve (A : Matrix m n K) (C S : Matrix m m K) (W : Matrix m n K)
    (hM : IsUnit (S * (C - 1)).det) (hW : (1 - C) * W = A) :
    (S * (C - 1))⁻¹ * (S * A) = -W := by
  have e : S * A = (S * (C - 1)) * (-W) := by
    rw [← hW, Matrix.mul_assoc, Matrix.mul_neg, ← Matrix.neg_mul, neg_sub]
  rw [e, ← Matrix.mul_assoc, Matrix.nonsing_inv_mul _ hM, Matrix.one_mul]

/-- **Total-derivative identity**: `d mdf/dx = P + Q W = ∂idf/∂x − ∂idf/∂t (∂c/∂t)⁻¹ ∂c/∂x`. -/
theorem total_derivative_identity (A : Matrix m n K) (C S : Matrix m m K) (W : Matrix m n K)
    (P : Matrix p n K) (Q : Matrix p m K)
    (hM : IsUnit (S * (C - 1)).det) (hW : (1 - C) * W = A) :
    P + Q * W = P - Q * ((S * (C - 1))⁻¹ * (S * A)) := by
  rw [consistency_solve A C S W hM hW, Matrix.mul_neg, sub_neg_eq_add]

/-- The Jacobian of the consistency constraints w.r.t. the targets is invertible as soon as the
    normalisation and `I - C` are. -/
theorem consistency_jacobian_isUnit (C S : Matrix m m K) (hS : IsUnit S.det) (hC : IsUnit (1 - C).det) :
    IsUnit (S * (C - 1)).det := by
  rw [Matrix.det_mul]
  refine hS.mul ?_
  have : C - 1 = -(1 - C) := by abel
  rw [this, Matrix.det_neg]
  exact (IsUnit.pow _ isUnit_one.neg).mul hC

end GV.C17.Alg
