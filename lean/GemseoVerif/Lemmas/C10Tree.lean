/-
C10 — specification side of the expression trees: the mathematically defined combination
`den` of a tree, its output dimension, well-formedness, and the points at which no divisor
vanishes; plus the facts about the objects built by the model (`build`) that the main induction
of `Props/C10.lean` needs.
-/
import GemseoVerif.Lemmas.C10Restrict
import GemseoVerif.Lemmas.C10Poly

namespace GV.C10

variable {𝕜 : Type} [NontriviallyNormedField 𝕜]

/-- The four operations on numbers. -/
def binFn (op : BinOp) (a b : 𝕜) : 𝕜 :=
  match op with
  | .add => a + b
  | .sub => a - b
  | .mul => a * b
  | .div => a / b

/-- Output dimension of a tree of input dimension `n` (`envM id n` for a user function). -/
def dimOf (envM : ℕ → ℕ → ℕ) : ℕ → Expr 𝕜 → ℕ
  | n, .user id => envM id n
  | _, .poly ps => ps.length
  | _, .lin m _ _ => m
  | _, .quad _ _ _ => 1
  | n, .bin _ a b => max (dimOf envM n a) (dimOf envM n b)
  | n, .binC _ a _ => dimOf envM n a
  | n, .neg a => dimOf envM n a
  | n, .offset a _ => dimOf envM n a
  | _, .restrict N _ _ a => dimOf envM N a
  | n, .lrestrict fz _ a => dimOf envM (n + fz.length) a
  | _, .lincomp K _ a => dimOf envM K a
  | n, .concat a b => dimOf envM n a + dimOf envM n b
  | n, .normalize _ _ _ a => dimOf envM n a
  | n, .taylor1 _ a => dimOf envM n a
  | _, .taylor2 _ _ _ => 1
  | n, .convexLin _ _ a => dimOf envM n a
  | _, .agg _ _ _ _ => 1

/-- The affine change of variables of `MDOLinearFunction.normalize`:
    `x_j = lb_j + (ub_j - lb_j) u_j` on the normalised inputs, `x_j = u_j` on the others. -/
def unnormalizePt (n : ℕ) (lb ub : List 𝕜) (mask : List Bool) (u : ℕ → 𝕜) : ℕ → 𝕜 :=
  fun k => if k < n then normShift lb mask k + normFactor lb ub mask k * u k else 0

/-- The mathematically defined combination denoted by a tree (`envF id n` for a user function):
    pointwise operations with NumPy broadcasting of one-component operands, substitution of the
    inputs for restrictions / linear maps / normalisation, stacking for concatenation, and the
    first-order Taylor polynomial written with the true partial derivatives (`deriv`). -/
noncomputable def den (envF : ℕ → ℕ → (ℕ → 𝕜) → ℕ → 𝕜) (envM : ℕ → ℕ → ℕ) :
    ℕ → Expr 𝕜 → (ℕ → 𝕜) → ℕ → 𝕜
  | n, .user id => envF id n
  | _, .poly ps => fun y i => polyEval (ps.getD i []) y
  | n, .lin _ A b => fun y i => sumTo n (fun j => mat A i j * y j) + vec b i
  | n, .quad Q b c => fun y _ =>
      sumTo n (fun i => y i * sumTo n (fun j => mat Q i j * y j)) + sumTo n (fun j => vec b j * y j) + c
  | n, .bin op a b => fun y i =>
      binFn op (den envF envM n a y (bi (dimOf envM n a) i)) (den envF envM n b y (bi (dimOf envM n b) i))
  | n, .binC op a c => fun y i => binFn op (den envF envM n a y i) (vec c (bi c.length i))
  | n, .neg a => fun y i => - den envF envM n a y i
  | n, .offset a c => fun y i => den envF envM n a y i + vec c (bi c.length i)
  | _, .restrict N fz vals a => fun y i => den envF envM N a (extendPt N fz vals y) i
  | n, .lrestrict fz vals a => fun y i =>
      den envF envM (n + fz.length) a (extendPt (n + fz.length) fz vals y) i
  | n, .lincomp K A a => fun y i => den envF envM K a (matVec n (mat A) y) i
  | n, .concat a b => fun y i =>
      if i < dimOf envM n a then den envF envM n a y i else den envF envM n b y (i - dimOf envM n a)
  | n, .normalize lb ub mask a => fun u i => den envF envM n a (unnormalizePt n lb ub mask u) i
  | n, .taylor1 xh a => fun y i =>
      den envF envM n a (vec xh) i
        + sumTo n (fun j => deriv (fun t : 𝕜 => den envF envM n a (vec xh + t • basisVec j) i) 0
            * (y j - vec xh j))
  | _, .taylor2 _ _ _ => fun _ _ => 0
  | _, .convexLin _ _ _ => fun _ _ => 0
  | _, .agg _ _ _ _ => fun _ _ => 0

/-- Trees whose object is an `MDOLinearFunction`. -/
inductive IsLin : Expr 𝕜 → Prop
  | lin (m A b) : IsLin (.lin m A b)
  | taylor1 (xh a) : IsLin (.taylor1 xh a)
  | neg {a} : IsLin a → IsLin (.neg a)
  | offset {a} (c) : IsLin a → IsLin (.offset a c)
  | lrestrict {a} (fz vals) : IsLin a → IsLin (.lrestrict fz vals a)
  | normalize {a} (lb ub mask) : IsLin a → IsLin (.normalize lb ub mask a)

/-- Well-formed trees (algebraic fragment): `WF envM n e M` — `e` takes `n` inputs and has `M`
    outputs. Aggregations, convex linearisations and second-order Taylor polynomials have their
    own theorems. -/
inductive WF (envM : ℕ → ℕ → ℕ) : ℕ → Expr 𝕜 → ℕ → Prop
  | user (n id) : WF envM n (.user id) (envM id n)
  | poly (n) (ps : List (List (Mono 𝕜))) : (∀ p ∈ ps, PolyOK n p) → WF envM n (.poly ps) ps.length
  | lin (n m A b) : WF envM n (.lin m A b) m
  | quad (n Q b c) : WF envM n (.quad Q b c) 1
  | bin {n a b Ma Mb} (op) : WF envM n a Ma → WF envM n b Mb → Compat Ma Mb →
      WF envM n (.bin op a b) (max Ma Mb)
  | binC {n a M} (op c) : WF envM n a M → WF envM n (.binC op a c) M
  | neg {n a M} : WF envM n a M → WF envM n (.neg a) M
  | offset {n a M} (c) : WF envM n a M → WF envM n (.offset a c) M
  | restrict {n N a M} (fz : List ℕ) (vals) : WF envM N a M → fz.Nodup →
      (activeIdx N fz).length = n → WF envM n (.restrict N fz vals a) M
  | lrestrict {n a M} (fz : List ℕ) (vals) : WF envM (n + fz.length) a M → fz.Nodup →
      (∀ k ∈ fz, k < n + fz.length) → (activeIdx (n + fz.length) fz).length = n →
      WF envM n (.lrestrict fz vals a) M
  | lincomp {n K a M} (A) : WF envM K a M → WF envM n (.lincomp K A a) M
  | concat {n a b Ma Mb} : WF envM n a Ma → WF envM n b Mb → WF envM n (.concat a b) (Ma + Mb)
  | normalize {n a M} (lb ub mask) : WF envM n a M → IsLin a → WF envM n (.normalize lb ub mask a) M
  | taylor1 {n a M} (xh) : WF envM n a M → WF envM n (.taylor1 xh a) M

omit [NontriviallyNormedField 𝕜] in
theorem WF.dimOf_eq {envM : ℕ → ℕ → ℕ} {n : ℕ} {e : Expr 𝕜} {M : ℕ} (h : WF envM n e M) :
    dimOf envM n e = M := by
  induction h with
  | user | poly | lin | quad => rfl
  | bin op _ _ _ iha ihb => simp [dimOf, iha, ihb]
  | binC op c _ ih => simpa [dimOf] using ih
  | neg _ ih => simpa [dimOf] using ih
  | offset c _ ih => simpa [dimOf] using ih
  | restrict fz vals _ _ _ ih => simpa [dimOf] using ih
  | lrestrict fz vals _ _ _ _ ih => simpa [dimOf] using ih
  | lincomp A _ ih => simpa [dimOf] using ih
  | concat _ _ iha ihb => simp [dimOf, iha, ihb]
  | normalize lb ub mask _ _ ih => simpa [dimOf] using ih
  | taylor1 xh _ ih => simpa [dimOf] using ih

/-- The points reached by the evaluation at `x` at which the tree may be evaluated: no divisor
    vanishes (the code would return `inf`/`nan` there). -/
def Safe (envF : ℕ → ℕ → (ℕ → 𝕜) → ℕ → 𝕜) (envM : ℕ → ℕ → ℕ) : ℕ → Expr 𝕜 → (ℕ → 𝕜) → Prop
  | n, .bin op a b, x =>
      Safe envF envM n a x ∧ Safe envF envM n b x ∧
        (op = .div → ∀ i, i < dimOf envM n b → den envF envM n b x i ≠ 0)
  | n, .binC op a c, x =>
      Safe envF envM n a x ∧ (op = .div → ∀ i, vec c (bi c.length i) ≠ 0)
  | n, .neg a, x => Safe envF envM n a x
  | n, .offset a _, x => Safe envF envM n a x
  | _, .restrict N fz vals a, x => Safe envF envM N a (extendPt N fz vals x)
  | n, .lrestrict fz vals a, x =>
      Safe envF envM (n + fz.length) a (extendPt (n + fz.length) fz vals x)
  | n, .lincomp K A a, x => Safe envF envM K a (matVec n (mat A) x)
  | n, .concat a b, x => Safe envF envM n a x ∧ Safe envF envM n b x
  | n, .normalize lb ub mask a, u => Safe envF envM n a (unnormalizePt n lb ub mask u)
  | n, .taylor1 xh a, _ => Safe envF envM n a (vec xh)
  | _, _, _ => True

/-! ### Facts about the objects built by the model -/

section Build

variable [LT 𝕜] [DecidableRel (α := 𝕜) (· < ·)]
variable (env : ℕ → ℕ → (ℕ → 𝕜) → DV 𝕜) (thr : 𝕜)

/-- A linear object built for a tree of `n` inputs has `n` inputs. -/
theorem build_linear_n (e : Expr 𝕜) : ∀ (n : ℕ) (L : LinF 𝕜), build env thr n e = .linear L → L.n = n := by
  induction e with
  | lin m A b => intro n L h; simp only [build, Obj.linear.injEq] at h; subst h; rfl
  | neg a ih =>
    intro n L h
    cases hb : build env thr n a with
    | linear La =>
      simp only [build, hb, Obj.linear.injEq] at h; subst h
      exact ih n La hb
    | generic f => simp [build, hb] at h
  | offset a c ih =>
    intro n L h
    cases hb : build env thr n a with
    | linear La =>
      simp only [build, hb, Obj.linear.injEq] at h; subst h
      exact ih n La hb
    | generic f => simp [build, hb] at h
  | lrestrict fz vals a ih =>
    intro n L h
    cases hb : build env thr (n + fz.length) a with
    | linear La =>
      simp only [build, hb, Obj.linear.injEq] at h; subst h
      have := ih (n + fz.length) La hb
      simp only [LinF.restrict, this]; omega
    | generic f => simp [build, hb] at h
  | normalize lb ub mask a ih =>
    intro n L h
    cases hb : build env thr n a with
    | linear La =>
      simp only [build, hb, Obj.linear.injEq] at h; subst h
      exact ih n La hb
    | generic f => simp [build, hb] at h
  | taylor1 xh a _ => intro n L h; simp only [build, Obj.linear.injEq] at h; subst h; rfl
  | _ => intro n L h; simp [build] at h

/-- The object of an `IsLin` tree is linear (dynamic dispatch never leaves the linear class). -/
theorem IsLin.build_linear {e : Expr 𝕜} (h : IsLin e) : ∀ n, ∃ L, build env thr n e = .linear L := by
  induction h with
  | lin m A b => intro n; exact ⟨_, rfl⟩
  | taylor1 xh a => intro n; exact ⟨_, rfl⟩
  | neg _ ih => intro n; obtain ⟨L, hL⟩ := ih n; exact ⟨L.neg, by simp [build, hL]⟩
  | offset c _ ih => intro n; obtain ⟨L, hL⟩ := ih n; exact ⟨L.offset c, by simp [build, hL]⟩
  | lrestrict fz vals _ ih =>
    intro n; obtain ⟨L, hL⟩ := ih (n + fz.length); exact ⟨L.restrict fz vals, by simp [build, hL]⟩
  | normalize lb ub mask _ ih =>
    intro n; obtain ⟨L, hL⟩ := ih n; exact ⟨L.normalize lb ub mask, by simp [build, hL]⟩

end Build

/-! ### The overrides of `MDOLinearFunction` against the generic operations -/

theorem LinF.neg_den {n M : ℕ} {x : ℕ → 𝕜} {L : LinF 𝕜} {F : (ℕ → 𝕜) → ℕ → 𝕜}
    (h : Den n x (L.eval x) F M) : Den n x (L.neg.eval x) (fun y i => - F y i) M := by
  refine (Den.neg h).congr_dv rfl (fun i _ => ?_) (fun i j _ _ => rfl)
  simp only [LinF.eval, LinF.neg, DV.neg]
  have : sumTo L.n (fun j => -L.A i j * x j) = - sumTo L.n (fun j => L.A i j * x j) := by
    rw [← sumTo_neg]; exact sumTo_congr (fun j _ => by ring)
  rw [this]; ring

theorem LinF.offset_den {n M : ℕ} {x : ℕ → 𝕜} {L : LinF 𝕜} {F : (ℕ → 𝕜) → ℕ → 𝕜} (c : List 𝕜)
    (h : Den n x (L.eval x) F M) :
    Den n x ((L.offset c).eval x) (fun y i => F y i + vec c (bi c.length i)) M := by
  refine (Den.addC h c).congr_dv rfl (fun i _ => ?_) (fun i j _ _ => rfl)
  simp only [LinF.eval, LinF.offset, DV.addC]
  ring

theorem LinF.restrict_den {n M : ℕ} {x : ℕ → 𝕜} {L : LinF 𝕜} {F : (ℕ → 𝕜) → ℕ → 𝕜}
    {fz : List ℕ} (vals : List 𝕜) (hL : L.n = n + fz.length) (hnd : fz.Nodup)
    (hlt : ∀ k ∈ fz, k < n + fz.length) (hn : (activeIdx (n + fz.length) fz).length = n)
    (h : Den (n + fz.length) (extendPt (n + fz.length) fz vals x)
      (L.eval (extendPt (n + fz.length) fz vals x)) F M) :
    Den n x ((L.restrict fz vals).eval x)
      (fun y i => F (extendPt (n + fz.length) fz vals y) i) M := by
  refine (Den.restrict hnd hn h).congr_dv rfl (fun i _ => ?_) (fun i j _ _ => ?_)
  · have hn' : (activeIdx (n + fz.length) fz).length = (n + fz.length) - fz.length := by omega
    exact LinF.restrict_fn L hL vals hnd hlt hn' x i
  · simp only [LinF.eval, LinF.restrict, DV.restrictCols, hL]

/-- Diagonal matrix of the normalisation factors. -/
def diagMat (f : ℕ → 𝕜) : ℕ → ℕ → 𝕜 := fun k j => if k = j then f j else 0

theorem matVec_diag (n : ℕ) (f u : ℕ → 𝕜) (k : ℕ) :
    matVec n (diagMat f) u k = if k < n then f k * u k else 0 := by
  simp only [matVec, diagMat]
  by_cases hk : k < n
  · rw [if_pos hk, ← sumTo_ite_eq n k hk (fun j => f j * u j)]
    refine sumTo_congr (fun j _ => ?_)
    by_cases h : k = j
    · subst h; simp
    · have : ¬ j = k := fun hh => h hh.symm
      simp [h, this]
  · rw [if_neg hk, ← sumTo_zero_fn (K := 𝕜) n]
    refine sumTo_congr (fun j hj => ?_)
    have : ¬ k = j := by omega
    simp [this]

theorem unnormalizePt_affine (n : ℕ) (lb ub : List 𝕜) (mask : List Bool) (u : ℕ → 𝕜) :
    unnormalizePt n lb ub mask u
      = fun k => matVec n (diagMat (normFactor lb ub mask)) u k
          + (fun k => if k < n then normShift lb mask k else 0) k := by
  funext k
  simp only [unnormalizePt, matVec_diag]
  by_cases hk : k < n
  · simp only [if_pos hk]; ring
  · simp [hk]

theorem LinF.normalize_den {n M : ℕ} {u : ℕ → 𝕜} {L : LinF 𝕜} {F : (ℕ → 𝕜) → ℕ → 𝕜}
    (lb ub : List 𝕜) (mask : List Bool) (hL : L.n = n)
    (h : Den n (unnormalizePt n lb ub mask u) (L.eval (unnormalizePt n lb ub mask u)) F M) :
    Den n u ((L.normalize lb ub mask).eval u) (fun y i => F (unnormalizePt n lb ub mask y) i) M := by
  subst hL
  rw [unnormalizePt_affine] at h
  have h2 := Den.comp_affine (diagMat (normFactor lb ub mask))
    (fun k => if k < L.n then normShift lb mask k else 0) h
  have h3 : Den L.n u _ (fun y i => F (unnormalizePt L.n lb ub mask y) i) M :=
    h2.congr (fun y i _ => by rw [unnormalizePt_affine])
  refine h3.congr_dv rfl (fun i _ => ?_) (fun i j _ hj => ?_)
  · simp only [LinF.eval, LinF.normalize, DV.rightMul]
    have e : sumTo L.n (fun j => L.A i j * (matVec L.n (diagMat (normFactor lb ub mask)) u j
          + if j < L.n then normShift lb mask j else 0))
        = sumTo L.n (fun j => L.A i j * normFactor lb ub mask j * u j)
          + sumTo L.n (fun j => L.A i j * normShift lb mask j) := by
      rw [← sumTo_add]
      refine sumTo_congr (fun j hj => ?_)
      rw [matVec_diag, if_pos hj, if_pos hj]; ring
    rw [e]; ring
  · simp only [LinF.eval, LinF.normalize, DV.rightMul]
    rw [← sumTo_ite_eq L.n j hj (fun k => L.A i k * normFactor lb ub mask j)]
    refine sumTo_congr (fun k _ => ?_)
    simp only [diagMat]
    split <;> simp_all

/-- First-order Taylor polynomial: the linear function built from the value and the Jacobian at
    `x̂` is `f(x̂) + sum_j d_j f(x̂) (x_j - x̂_j)`, and its Jacobian is `f'(x̂)` everywhere. -/
theorem taylor1_den {n M : ℕ} {xh : ℕ → 𝕜} {d : DV 𝕜} {F : (ℕ → 𝕜) → ℕ → 𝕜}
    (h : Den n xh d F M) (x : ℕ → 𝕜) :
    Den n x ((taylor1 n d xh).eval x)
      (fun y i => F xh i + sumTo n (fun j => deriv (fun t : 𝕜 => F (xh + t • basisVec j) i) 0 * (y j - xh j))) M := by
  have h1 := LinF.den (taylor1 n d xh) x
  have hm : (taylor1 n d xh).m = M := h.dim
  rw [hm] at h1
  refine h1.congr (fun y i hi => ?_)
  simp only [LinF.fn, taylor1]
  rw [h.val_eq hi]
  have e : sumTo n (fun j => deriv (fun t : 𝕜 => F (xh + t • basisVec j) i) 0 * (y j - xh j))
      = sumTo n (fun j => d.jac i j * y j) - sumTo n (fun j => d.jac i j * xh j) := by
    rw [← sumTo_sub]
    refine sumTo_congr (fun j hj => ?_)
    rw [(h.partial hi hj).deriv]; ring
  rw [e]; ring

end GV.C10
