/-
C16 — lemmas about the requests served by one `DisciplineJacApprox` (Model/C16.lean, last section):
writing the argument of the adapter into the data of the discipline (`overwriteL`), reading the requested
components (`pickL`), the function handed to the gradient approximator (`reqFun`, `reqFunG`), the position of a
component of a named variable in the vector of a request (`compsOf`).
-/
import GemseoVerif.Lemmas.C16
import GemseoVerif.Lemmas.C16Complex

namespace GV.C16

theorem overwriteL_eq_setAll {α : Type} (x : List α) (ic : List Nat) (v : List α) :
    overwriteL x ic v = setAll x (ic.zip v) := rfl

theorem overwriteL_length {α : Type} (x : List α) (ic : List Nat) (v : List α) :
    (overwriteL x ic v).length = x.length := by
  rw [overwriteL_eq_setAll, setAll_length]

theorem pickL_length {α : Type} (d : α) (ic : List Nat) (y : List α) : (pickL d ic y).length = ic.length := by
  simp [pickL]

theorem pickL_getElem? {α : Type} (d : α) (ic : List Nat) (y : List α) (k : Nat) (hk : k < ic.length) :
    (pickL d ic y)[k]? = some (y.getD ic[k] d) := by
  simp [pickL, List.getElem?_map, List.getElem?_eq_getElem hk]

/-- Writing back the values just read changes nothing. -/
theorem overwriteL_pick_self {α : Type} (d : α) (x : List α) (ic : List Nat)
    (hr : ∀ g ∈ ic, g < x.length) : overwriteL x ic (pickL d ic x) = x := by
  induction ic with
  | nil => rfl
  | cons g t ih =>
    have hg : g < x.length := hr g (by simp)
    have hset : x.set g (x.getD g d) = x := by
      apply List.ext_getElem?
      intro j
      rw [List.getElem?_set]
      by_cases hgj : g = j
      · subst hgj; simp [hg, List.getD_eq_getElem?_getD]
      · simp [hgj]
    have ih' := ih (fun g' hg' => hr g' (by simp [hg']))
    simp only [overwriteL, pickL, List.map_cons, List.zip_cons_cons, List.foldl_cons] at ih' ⊢
    rw [hset]
    exact ih'

/-- The argument of the adapter with one component changed is the data of the discipline with the
    corresponding global component changed: the other requested inputs are written back unchanged, the inputs
    that are not requested are not touched. -/
theorem overwriteL_pick_set {α : Type} (d : α) (x : List α) (ic : List Nat) (c : Nat) (a : α)
    (hnd : ic.Nodup) (hr : ∀ g ∈ ic, g < x.length) (hc : c < ic.length) :
    overwriteL x ic ((pickL d ic x).set c a) = x.set ic[c] a := by
  have hlen : ((pickL d ic x).set c a).length = ic.length := by simp [pickL]
  have hfst : ((ic.zip ((pickL d ic x).set c a)).map Prod.fst) = ic := by
    rw [List.map_fst_zip (le_of_eq hlen.symm)]
  apply List.ext_getElem?
  intro j
  rw [overwriteL_eq_setAll]
  by_cases hj : j ∈ ic
  · obtain ⟨k, hk, rfl⟩ := List.mem_iff_getElem.mp hj
    have hkx : ic[k] < x.length := hr _ hj
    have hk' : k < ((pickL d ic x).set c a).length := by rw [hlen]; exact hk
    have hmem : (ic[k], ((pickL d ic x).set c a)[k]) ∈ ic.zip ((pickL d ic x).set c a) := by
      rw [List.mem_iff_getElem]
      refine ⟨k, by simp [pickL]; exact hk, ?_⟩
      simp
    rw [setAll_get_mem x _ ic[k] _ (by rw [hfst]; exact hnd) hmem hkx, List.getElem?_set]
    by_cases hck : c = k
    · subst hck
      simp [hkx]
    · have hne : ic[c] ≠ ic[k] := fun h => hck ((List.Nodup.getElem_inj_iff hnd).mp h)
      simp only [hne, if_false]
      rw [List.getElem_set_ne hck]
      simp [pickL, List.getD_eq_getElem?_getD, List.getElem?_eq_getElem hkx]
  · rw [setAll_get_not_mem x _ j (by rw [hfst]; exact hj), List.getElem?_set]
    have : ic[c] ≠ j := fun h => hj (h ▸ List.getElem_mem hc)
    simp [this]

theorem getR_pick (ic : List Nat) (x : Vec) (c : Nat) (hc : c < ic.length) :
    getR (pick ic x) c = getR x ic[c] := by
  simp [getR, pick, pickL, List.getD_eq_getElem?_getD, List.getElem?_map, List.getElem?_eq_getElem hc]

theorem pick_length (ic : List Nat) (x : Vec) : (pick ic x).length = ic.length := pickL_length _ _ _

/-- The function of a request at the current point is the discipline at its current data. -/
theorem reqFun_self (f : Vec → Vec) (x : Vec) (ic oc : List Nat) (hr : ∀ g ∈ ic, g < x.length) :
    reqFun f x ic oc (pick ic x) = pick oc (f x) := by
  unfold reqFun pick
  rw [overwriteL_pick_self 0 x ic hr]

/-- Perturbing component `c` of the vector of the request perturbs the global component `ic[c]` of the data
    of the discipline, and nothing else. -/
theorem reqFun_bump (f : Vec → Vec) (x : Vec) (ic oc : List Nat) (c : Nat) (d : ℚ)
    (hnd : ic.Nodup) (hr : ∀ g ∈ ic, g < x.length) (hc : c < ic.length) :
    reqFun f x ic oc (bump (pick ic x) c d) = pick oc (f (bump x ic[c] d)) := by
  unfold reqFun bump
  rw [getR_pick ic x c hc]
  unfold pick
  rw [overwriteL_pick_set 0 x ic c _ hnd hr hc]

theorem colDiff_pick (oc : List Nat) (a b : Vec) (d : ℚ) :
    colDiff (pick oc a) (pick oc b) d = oc.map (fun j => (getR a j - getR b j) / d) := by
  simp [colDiff, pick, pickL, getR, List.zipWith_map]

/-! ### Complex step -/

theorem pickL_map_ofRat (ic : List Nat) (x : Vec) :
    pickL (⟨0, 0⟩ : GRat) ic (x.map GRat.ofRat) = (pickL (0 : ℚ) ic x).map GRat.ofRat := by
  simp only [pickL, List.map_map]
  apply List.map_congr_left
  intro j _
  simp only [Function.comp, List.getD_eq_getElem?_getD, List.getElem?_map]
  cases x[j]? <;> simp [GRat.ofRat]

/-- The complex point of the complex step: the real point with `i·δ` on the differentiated component. -/
theorem cadd_csPert_eq_set (x : Vec) (s : Step) (i : Nat) :
    cadd x (csPert x.length x s i) = (x.map GRat.ofRat).set i ⟨getR x i, csDelta x s i⟩ := by
  apply List.ext_getElem?
  intro j
  by_cases hj : j < x.length
  · rw [cadd_csPert_get x s i j hj, List.getElem?_set]
    by_cases hij : i = j
    · subst hij; simp [hj]
    · simp [hij, hj, getR, GRat.ofRat, List.getD_eq_getElem?_getD]
  · have h1 : (cadd x (csPert x.length x s i)).length ≤ j := by
      rw [cadd_csPert_length]; exact not_lt.mp hj
    have h2 : ((x.map GRat.ofRat).set i ⟨getR x i, csDelta x s i⟩).length ≤ j := by
      simp; exact not_lt.mp hj
    rw [List.getElem?_eq_none h1, List.getElem?_eq_none h2]

theorem reqFunG_pert (fc : CVec → CVec) (x : Vec) (s : Step) (ic oc : List Nat) (c : Nat)
    (hnd : ic.Nodup) (hr : ∀ g ∈ ic, g < x.length) (hc : c < ic.length) :
    reqFunG fc x ic oc (cadd (pick ic x) (csPert (pick ic x).length (pick ic x) s c)) =
      pickG oc (fc ((x.map GRat.ofRat).set ic[c] ⟨getR x ic[c], xnnz x ic[c] * s.at c⟩)) := by
  have hr' : ∀ g ∈ ic, g < (x.map GRat.ofRat).length := by simpa using hr
  unfold reqFunG
  rw [cadd_csPert_eq_set]
  have h1 : (pick ic x).map GRat.ofRat = pickL (⟨0, 0⟩ : GRat) ic (x.map GRat.ofRat) := by
    rw [pickL_map_ofRat]; rfl
  rw [h1, overwriteL_pick_set _ (x.map GRat.ofRat) ic c _ hnd hr' hc, getR_pick ic x c hc]
  simp [csDelta, xnnz, getR_pick ic x c hc]

/-! ### Position of a component of a named variable in the vector of a request -/

theorem compsOf_cons (sizes : List Nat) (a : Nat) (t : List Nat) :
    compsOf sizes (a :: t) =
      (List.range (sizes.getD a 0)).map (· + (sizes.take a).sum) ++ compsOf sizes t := by
  simp [compsOf]

/-- Component `c'` of the `b`-th requested name sits at offset (sum of the sizes of the names requested
    before) `+ c'` in the vector of the request; it is the global component (sum of the sizes of the names
    declared before) `+ c'`. -/
theorem compsOf_get (sizes : List Nat) (names : List Nat) (b c' : Nat) (hb : b < names.length)
    (hc : c' < sizes.getD names[b] 0) :
    (compsOf sizes names)[((names.map (fun a => sizes.getD a 0)).take b).sum + c']? =
      some ((sizes.take names[b]).sum + c') := by
  induction names generalizing b with
  | nil => simp at hb
  | cons a t ih =>
    rw [compsOf_cons]
    cases b with
    | zero =>
      simp only [List.take_zero, List.sum_nil, Nat.zero_add, List.getElem_cons_zero] at hc ⊢
      rw [List.getElem?_append_left (by simpa using hc), List.getElem?_map, List.getElem?_range hc]
      simp [Nat.add_comm]
    | succ b =>
      have hb' : b < t.length := by simpa using hb
      simp only [List.map_cons, List.take_succ_cons, List.sum_cons, List.getElem_cons_succ] at hc ⊢
      rw [List.getElem?_append_right (by simp; omega)]
      have := ih b hb' hc
      simp only [List.length_map, List.length_range]
      rw [show sizes.getD a 0 + ((t.map fun a => sizes.getD a 0).take b).sum + c' - sizes.getD a 0
            = ((t.map fun a => sizes.getD a 0).take b).sum + c' by omega]
      exact this

theorem compsOf_length (sizes : List Nat) (names : List Nat) :
    (compsOf sizes names).length = (names.map (fun a => sizes.getD a 0)).sum := by
  induction names with
  | nil => simp [compsOf]
  | cons a t ih => rw [compsOf_cons]; simp [ih]

/-! ### Reading an entry of the completed Jacobian -/

theorem rowsOf_getD (m : Nat) (cols : List Vec) (J : Nat) (hJ : J < m) :
    (rowsOf m cols).getD J [] = cols.map (fun c => getR c J) := by
  simp [rowsOf, List.getD_eq_getElem?_getD, List.getElem?_map, List.getElem?_range hJ]

theorem getR_map_getR (cols : List Vec) (J C : Nat) :
    getR (cols.map (fun c => getR c J)) C = getR (cols.getD C []) J := by
  simp only [getR, List.getD_eq_getElem?_getD, List.getElem?_map]
  cases cols[C]? <;> simp

theorem getD_range_map {β : Type} (n C : Nat) (F : Nat → β) (d : β) (hC : C < n) :
    ((List.range n).map F).getD C d = F C := by
  simp [List.getD_eq_getElem?_getD, List.getElem?_map, List.getElem?_range hC]

theorem getR_map_of_getElem? (oc : List Nat) (qf : Nat → ℚ) (J v : Nat) (h : oc[J]? = some v) :
    getR (oc.map qf) J = qf v := by
  simp [getR, List.getD_eq_getElem?_getD, List.getElem?_map, h]

theorem getD_map_of_lt {α β : Type} (l : List α) (f : α → β) (a : Nat) (d : β) (ha : a < l.length) :
    (l.map f).getD a d = f l[a] := by
  simp [List.getD_eq_getElem?_getD, List.getElem?_map, List.getElem?_eq_getElem ha]

end GV.C16
