/-
C11 — helper lemmas about the HDF export/append/reload model (`Model/C11.lean`):
association lists, `dict.update`, the layout of one file entry, the decoder, the append loop.
-/
import GemseoVerif.Model.C11
import Mathlib.Data.List.Basic
import Mathlib.Data.List.Nodup
import Mathlib.Data.List.Perm.Basic
import Mathlib.Data.List.Perm.Subperm

namespace GV.C11

/-! ### `optAll` -/

theorem optAll_map_some {α : Type} (l : List α) : optAll (l.map some) = some l := by
  induction l with
  | nil => rfl
  | cons a t ih => simp [optAll, ih]

theorem optAll_eq_some {α : Type} {l : List (Option α)} {r : List α} (h : l = r.map some) :
    optAll l = some r := by
  subst h; exact optAll_map_some r

/-! ### association lists -/

section alist
variable {α β : Type} [DecidableEq α]

@[simp] theorem alook_nil (k : α) : alook k ([] : List (α × β)) = none := rfl

theorem alook_cons (k a : α) (b : β) (t : List (α × β)) :
    alook k ((a, b) :: t) = if a = k then some b else alook k t := rfl

theorem alook_eq_none {k : α} {l : List (α × β)} : alook k l = none ↔ k ∉ l.map (·.1) := by
  induction l with
  | nil => simp
  | cons ab t ih =>
    obtain ⟨a, b⟩ := ab
    rw [alook_cons]
    by_cases h : a = k
    · simp [h]
    · simp only [h, if_false, ih, List.map_cons, List.mem_cons, not_or]
      constructor
      · intro h2; exact ⟨fun e => h e.symm, h2⟩
      · intro h2; exact h2.2

theorem alook_mem {k : α} {v : β} {l : List (α × β)} (h : alook k l = some v) : (k, v) ∈ l := by
  induction l with
  | nil => simp at h
  | cons ab t ih =>
    obtain ⟨a, b⟩ := ab
    rw [alook_cons] at h
    by_cases e : a = k
    · simp only [e, if_true, Option.some.injEq] at h
      subst e; subst h; exact List.mem_cons_self
    · simp only [e, if_false] at h
      exact List.mem_cons_of_mem _ (ih h)

theorem alook_isSome_of_mem_keys {k : α} {l : List (α × β)} (h : k ∈ l.map (·.1)) :
    ∃ v, alook k l = some v := by
  cases hl : alook k l with
  | none => exact absurd h (alook_eq_none.mp hl)
  | some v => exact ⟨v, rfl⟩

theorem alook_of_mem_nodup {k : α} {v : β} {l : List (α × β)} (nd : (l.map (·.1)).Nodup)
    (h : (k, v) ∈ l) : alook k l = some v := by
  induction l with
  | nil => cases h
  | cons ab t ih =>
    obtain ⟨a, b⟩ := ab
    rw [alook_cons]
    simp only [List.map_cons, List.nodup_cons] at nd
    rcases List.mem_cons.mp h with e | e
    · injection e with e1 e2; subst e1; subst e2; simp
    · have hk : k ∈ t.map (·.1) := List.mem_map.mpr ⟨(k, v), e, rfl⟩
      have hne : a ≠ k := fun e' => nd.1 (e' ▸ hk)
      simp only [hne, if_false]
      exact ih nd.2 e

/-- Two association lists with unique keys and the same elements define the same map. -/
theorem alook_congr_of_mem_iff {l₁ l₂ : List (α × β)} (n₁ : (l₁.map (·.1)).Nodup)
    (n₂ : (l₂.map (·.1)).Nodup) (h : ∀ x, x ∈ l₁ ↔ x ∈ l₂) (k : α) : alook k l₁ = alook k l₂ := by
  cases h1 : alook k l₁ with
  | some v => exact (alook_of_mem_nodup n₂ ((h _).mp (alook_mem h1))).symm
  | none =>
    cases h2 : alook k l₂ with
    | none => rfl
    | some w =>
      have := alook_of_mem_nodup n₁ ((h _).mpr (alook_mem h2))
      rw [h1] at this; cases this

theorem alook_perm {l₁ l₂ : List (α × β)} (p : l₁.Perm l₂) (n₁ : (l₁.map (·.1)).Nodup) (k : α) :
    alook k l₁ = alook k l₂ :=
  alook_congr_of_mem_iff n₁ ((p.map _).nodup_iff.mp n₁) (fun _ => p.mem_iff) k

theorem alook_append (k : α) (l₁ l₂ : List (α × β)) :
    alook k (l₁ ++ l₂) = (alook k l₁).orElse (fun _ => alook k l₂) := by
  induction l₁ with
  | nil => simp
  | cons ab t ih =>
    obtain ⟨a, b⟩ := ab
    simp only [List.cons_append, alook_cons]
    by_cases e : a = k <;> simp [e, ih]

theorem alook_filter_keys (p : α → Bool) (k : α) (l : List (α × β)) :
    alook k (l.filter (fun ab => p ab.1)) = if p k then alook k l else none := by
  induction l with
  | nil => simp
  | cons ab t ih =>
    obtain ⟨a, b⟩ := ab
    by_cases hp : p a = true
    · simp only [List.filter_cons, hp, if_true, alook_cons]
      by_cases e : a = k
      · subst e; simp [hp]
      · simp only [e, if_false, ih]
    · have hp' : p a = false := by simpa using hp
      simp only [List.filter_cons, hp', Bool.false_eq_true, if_false, alook_cons]
      by_cases e : a = k
      · subst e; simp [hp', ih]
      · simp [e, ih]

end alist

/-! ### `setOut`, `updateOuts`, `dbStore` -/

theorem setOut_keys (c : Outs) (n : String) (v : Val) :
    (setOut c n v).map (·.1) = if n ∈ c.map (·.1) then c.map (·.1) else c.map (·.1) ++ [n] := by
  induction c with
  | nil => simp [setOut]
  | cons mw t ih =>
    obtain ⟨m, w⟩ := mw
    unfold setOut
    by_cases e : m = n
    · subst e; simp
    · have e' : ¬ n = m := fun h => e h.symm
      simp only [e, if_false, List.map_cons, ih, List.mem_cons, e', false_or]
      split <;> simp

theorem setOut_nodup {c : Outs} (nd : (c.map (·.1)).Nodup) (n : String) (v : Val) :
    ((setOut c n v).map (·.1)).Nodup := by
  rw [setOut_keys]
  split
  · exact nd
  · rename_i h
    exact List.nodup_append.mpr ⟨nd, by simp, by
      intro a ha b hb
      simp only [List.mem_singleton] at hb
      subst hb
      exact fun e => h (e ▸ ha)⟩

theorem alook_setOut (c : Outs) (n : String) (v : Val) (k : String) :
    alook k (setOut c n v) = if n = k then some v else alook k c := by
  induction c with
  | nil => simp [setOut, alook_cons]
  | cons mw t ih =>
    obtain ⟨m, w⟩ := mw
    unfold setOut
    by_cases e : m = n
    · subst e
      simp only [if_true, alook_cons]
      split <;> rfl
    · simp only [e, if_false, alook_cons, ih]
      by_cases e2 : m = k
      · subst e2
        have e3 : ¬ n = m := fun h => e h.symm
        simp [e3]
      · simp [e2]

theorem updateOuts_nodup {c : Outs} (nd : (c.map (·.1)).Nodup) (o : Outs) :
    ((updateOuts c o).map (·.1)).Nodup := by
  induction o generalizing c with
  | nil => exact nd
  | cons nv t ih =>
    obtain ⟨n, v⟩ := nv
    exact ih (setOut_nodup nd n v)

/-- `dict.update` with a dict argument (unique names): the new values win. -/
theorem alook_updateOuts (c o : Outs) (nd : (o.map (·.1)).Nodup) (k : String) :
    alook k (updateOuts c o) = (alook k o).orElse (fun _ => alook k c) := by
  induction o generalizing c with
  | nil => simp [updateOuts]
  | cons nv t ih =>
    obtain ⟨n, v⟩ := nv
    simp only [List.map_cons, List.nodup_cons] at nd
    simp only [updateOuts, ih (setOut c n v) nd.2, alook_setOut, alook_cons]
    by_cases e : n = k
    · subst e
      have : alook n t = none := alook_eq_none.mpr nd.1
      simp [this]
    · simp [e]

/-- Updating the empty dict with unique names appends them all. -/
theorem updateOuts_append_of_disjoint (c o : Outs) (nd : (o.map (·.1)).Nodup)
    (dj : ∀ n ∈ o.map (·.1), n ∉ c.map (·.1)) : updateOuts c o = c ++ o := by
  induction o generalizing c with
  | nil => simp [updateOuts]
  | cons nv t ih =>
    obtain ⟨n, v⟩ := nv
    simp only [List.map_cons, List.nodup_cons] at nd
    have hn : n ∉ c.map (·.1) := dj n (by simp)
    have hs : setOut c n v = c ++ [(n, v)] := by
      clear ih dj nd
      induction c with
      | nil => rfl
      | cons mw t' ih' =>
        obtain ⟨m, w⟩ := mw
        simp only [List.map_cons, List.mem_cons, not_or] at hn
        unfold setOut
        have : ¬ m = n := fun h => hn.1 h.symm
        simp [this, ih' hn.2]
    simp only [updateOuts]
    rw [hs, ih (c ++ [(n, v)]) nd.2]
    · simp
    · intro m hm
      simp only [List.map_append, List.map_cons, List.map_nil, List.mem_append, List.mem_singleton, not_or]
      refine ⟨dj m (by simp [hm]), ?_⟩
      intro e; subst e; exact nd.1 hm

/-! ### sorting -/

theorem insertOut_perm (nv : String × Val) (l : Outs) : (insertOut nv l).Perm (nv :: l) := by
  induction l with
  | nil => exact List.Perm.refl _
  | cons mw t ih =>
    unfold insertOut
    split
    · exact List.Perm.refl _
    · exact (ih.cons mw).trans (List.Perm.swap _ _ _)

theorem sortOuts_perm (o : Outs) : (sortOuts o).Perm o := by
  induction o with
  | nil => exact List.Perm.nil
  | cons nv t ih => exact (insertOut_perm nv _).trans (ih.cons nv)

theorem sortOuts_length (o : Outs) : (sortOuts o).length = o.length := (sortOuts_perm o).length_eq

theorem sortOuts_keys_nodup {o : Outs} (nd : (o.map (·.1)).Nodup) : ((sortOuts o).map (·.1)).Nodup :=
  ((sortOuts_perm o).map _).nodup_iff.mpr nd

theorem alook_sortOuts {o : Outs} (nd : (o.map (·.1)).Nodup) (k : String) :
    alook k (sortOuts o) = alook k o :=
  alook_perm (sortOuts_perm o) (sortOuts_keys_nodup nd) k

theorem mem_sortOuts_keys (o : Outs) (n : String) : n ∈ (sortOuts o).map (·.1) ↔ n ∈ o.map (·.1) :=
  ((sortOuts_perm o).map _).mem_iff

/-! ### The layout of one file entry

`Layout e L`: the entry `e` is the image of the list `L` of (name, value) pairs *in file order*:
`k/i` lists the names, the scalar dataset lists the scalar values in that order, and the sub-group
`arr_i` holds each array under its position in `k/i`. -/

def scalarsOf : Outs → List Rat
  | [] => []
  | (_, .scalar r) :: t => r :: scalarsOf t
  | (_, .arr _) :: t => scalarsOf t

def arrsOf : Nat → Outs → List (Nat × Arr)
  | _, [] => []
  | off, (_, .scalar _) :: t => arrsOf (off + 1) t
  | off, (_, .arr a) :: t => (off, a) :: arrsOf (off + 1) t

/-- The scalar pairs of a list, in order. -/
def scalPairs : Outs → Outs
  | [] => []
  | (n, .scalar r) :: t => (n, .scalar r) :: scalPairs t
  | (_, .arr _) :: t => scalPairs t

/-- The array pairs of a list, in order. -/
def arrPairs : Outs → Outs
  | [] => []
  | (_, .scalar _) :: t => arrPairs t
  | (n, .arr a) :: t => (n, .arr a) :: arrPairs t

structure Layout (e : FEntry) (L : Outs) : Prop where
  keys : e.keys = L.map (·.1)
  scal : e.scal = scalarsOf L
  arrs : e.arrs = arrsOf 0 L

theorem scalarsOf_append (L M : Outs) : scalarsOf (L ++ M) = scalarsOf L ++ scalarsOf M := by
  induction L with
  | nil => rfl
  | cons nv t ih =>
    obtain ⟨n, v⟩ := nv
    cases v <;> simp [scalarsOf, ih]

theorem arrsOf_append (off : Nat) (L M : Outs) :
    arrsOf off (L ++ M) = arrsOf off L ++ arrsOf (off + L.length) M := by
  induction L generalizing off with
  | nil => simp [arrsOf]
  | cons nv t ih =>
    obtain ⟨n, v⟩ := nv
    cases v <;> simp [arrsOf, ih, Nat.add_assoc, Nat.add_comm 1]

theorem arrsOf_bounds {off : Nat} {L : Outs} {ja : Nat × Arr} (h : ja ∈ arrsOf off L) :
    off ≤ ja.1 ∧ ja.1 < off + L.length := by
  induction L generalizing off with
  | nil => simp [arrsOf] at h
  | cons nv t ih =>
    obtain ⟨n, v⟩ := nv
    cases v with
    | scalar r =>
      have := ih (off := off + 1) (by simpa [arrsOf] using h)
      simp only [List.length_cons]; omega
    | arr a =>
      simp only [arrsOf, List.mem_cons] at h
      rcases h with h | h
      · subst h; simp only [List.length_cons]; omega
      · have := ih (off := off + 1) h
        simp only [List.length_cons]; omega

theorem hasIdx_false_of_lt {arrs : List (Nat × Arr)} {j : Nat} (h : ∀ ja ∈ arrs, ja.1 < j) :
    hasIdx arrs j = false := by
  unfold hasIdx
  rw [List.any_eq_false]
  intro ja hja
  have := h ja hja
  simp; omega

/-- The placement loop, when the mapping sends the `i`-th name to position `off + i` and every
    array already in the sub-group sits below `off`: arrays land at their positions, scalars are
    collected in order, nothing raises. -/
theorem placeOutputs_spec (mapping : List (String × Nat)) (S : Outs) (off : Nat)
    (arrs0 : List (Nat × Arr))
    (hm : ∀ i (h : i < S.length), alook (S[i].1) mapping = some (off + i))
    (ha : ∀ ja ∈ arrs0, ja.1 < off) :
    placeOutputs mapping arrs0 S = some (arrs0 ++ arrsOf off S, scalarsOf S) := by
  induction S generalizing off arrs0 with
  | nil => simp [placeOutputs, arrsOf, scalarsOf]
  | cons nv t ih =>
    obtain ⟨n, v⟩ := nv
    have h0 : alook n mapping = some off := by
      have := hm 0 (by simp)
      simpa only [List.getElem_cons_zero, Nat.add_zero] using this
    have hm' : ∀ i (h : i < t.length), alook (t[i].1) mapping = some (off + 1 + i) := by
      intro i h
      have := hm (i + 1) (by simp; omega)
      simp only [List.getElem_cons_succ] at this
      rw [this]; congr 1; omega
    cases v with
    | scalar r =>
      have := ih (off + 1) arrs0 hm' (fun ja h => by have := ha ja h; omega)
      simp [placeOutputs, h0, this, arrsOf, scalarsOf]
    | arr a =>
      have hf : hasIdx arrs0 off = false := hasIdx_false_of_lt ha
      have := ih (off + 1) (arrs0 ++ [(off, a)]) hm' (by
        intro ja h
        rcases List.mem_append.mp h with h | h
        · have := ha ja h; omega
        · simp only [List.mem_singleton] at h; subst h; simp)
      simp [placeOutputs, h0, hf, this, arrsOf, scalarsOf]

theorem alook_zip_range' (names : List String) (nd : names.Nodup) (off m i : Nat)
    (hi : i < names.length) (hm : i < m) :
    alook names[i] (names.zip (List.range' off m)) = some (off + i) := by
  induction names generalizing off m i with
  | nil => simp at hi
  | cons a t ih =>
    cases m with
    | zero => omega
    | succ m =>
      simp only [List.range'_succ, List.zip_cons_cons, alook_cons]
      cases i with
      | zero => simp
      | succ i =>
        simp only [List.nodup_cons] at nd
        simp only [List.length_cons] at hi
        have hne : ¬ a = t[i] := fun e => nd.1 (e ▸ List.getElem_mem _)
        simp only [List.getElem_cons_succ, hne, if_false]
        rw [ih nd.2 (off + 1) m i (by omega) (by omega)]
        congr 1; omega

/-- `__create_hdf_input_output`: the new entry is laid out as the outputs sorted by name. -/
theorem createEntry_layout (p : Pt) (o : Outs) (nd : (o.map (·.1)).Nodup) :
    ∃ e, createEntry p o = some e ∧ e.x = p ∧ Layout e (sortOuts o) := by
  have hs := sortOuts_keys_nodup nd
  have hspec := placeOutputs_spec (((sortOuts o).map (·.1)).zip (List.range o.length)) (sortOuts o) 0 []
    (by
      intro i h
      have h' : i < ((sortOuts o).map (·.1)).length := by simpa using h
      have := alook_zip_range' ((sortOuts o).map (·.1)) hs 0 o.length i h'
        (by rw [sortOuts_length] at h; exact h)
      simpa [List.range_eq_range'] using this)
    (by simp)
  refine ⟨{ x := p, keys := (sortOuts o).map (·.1), scal := scalarsOf (sortOuts o),
            arrs := arrsOf 0 (sortOuts o) }, ?_, rfl, ⟨rfl, rfl, rfl⟩⟩
  unfold createEntry addOutputs
  simp only [List.isEmpty_nil, if_true]
  simp [hspec]

/-- Counting: if the names already in the file are distinct and all among the (distinct) names
    of the database outputs, the missing outputs are exactly `len(outputs) - len(existing)` many. -/
theorem missing_length_le (keys : List String) (outs : Outs) (hk : keys.Nodup)
    (hsub : ∀ n ∈ keys, n ∈ outs.map (·.1)) (nd : (outs.map (·.1)).Nodup) :
    keys.length + (outs.filter (fun nv => !(keys.contains nv.1))).length ≤ outs.length := by
  have hlen := List.length_eq_length_filter_add (l := outs) (fun nv => keys.contains nv.1)
  have hsubp : keys.Subperm ((outs.filter (fun nv => keys.contains nv.1)).map (·.1)) := by
    apply List.subperm_of_subset hk
    intro n hn
    obtain ⟨nv, hnv, e⟩ := List.mem_map.mp (hsub n hn)
    exact List.mem_map.mpr ⟨nv, List.mem_filter.mpr ⟨hnv, by simp [e, hn]⟩, e⟩
  have := hsubp.length_le
  simp only [List.length_map] at this
  omega

/-- `__append_hdf_output` on a laid-out entry whose names are among the database outputs: the
    missing outputs, sorted by name, are appended to the layout; nothing raises. -/
theorem appendOutput_layout (e : FEntry) (L outs : Outs) (hL : Layout e L)
    (ndL : (L.map (·.1)).Nodup) (hsub : ∀ n ∈ L.map (·.1), n ∈ outs.map (·.1))
    (nd : (outs.map (·.1)).Nodup) :
    ∃ e', appendOutput e outs = some e' ∧ e'.x = e.x ∧
      Layout e' (L ++ sortOuts (outs.filter (fun nv => !((L.map (·.1)).contains nv.1)))) := by
  unfold appendOutput
  rw [hL.keys]
  generalize hmiss : outs.filter (fun nv => !((L.map (·.1)).contains nv.1)) = missing
  by_cases hem : missing.isEmpty = true
  · have : missing = [] := List.isEmpty_iff.mp hem
    subst this
    refine ⟨e, by simp, rfl, ?_⟩
    have : sortOuts [] = [] := by simp [sortOuts]
    rw [this, List.append_nil]; exact hL
  · simp only [hem, if_false, Bool.false_eq_true]
    have hne : missing ≠ [] := fun h => hem (by simp [h])
    have ndm : (missing.map (·.1)).Nodup := by
      rw [← hmiss]; exact (List.filter_sublist.map _).nodup nd
    have hs := sortOuts_keys_nodup ndm
    have hcount := missing_length_le (L.map (·.1)) outs ndL hsub nd
    rw [hmiss] at hcount
    simp only [List.length_map] at hcount ⊢
    -- the mapping is non-empty, so it is the one used
    have hmlen : 0 < missing.length := List.length_pos_iff.mpr hne
    set ids := List.range' L.length (outs.length - L.length) with hids
    set mapping := ((sortOuts missing).map (·.1)).zip ids with hmap
    have hnotempty : mapping.isEmpty = false := by
      have : 0 < mapping.length := by
        simp only [hmap, hids, List.length_zip, List.length_map, sortOuts_length, List.length_range']
        omega
      cases hm : mapping with
      | nil => simp [hm] at this
      | cons _ _ => rfl
    have hspec := placeOutputs_spec mapping (sortOuts missing) L.length e.arrs
      (by
        intro i h
        have h' : i < ((sortOuts missing).map (·.1)).length := by simpa using h
        have := alook_zip_range' ((sortOuts missing).map (·.1)) hs L.length (outs.length - L.length) i h'
          (by rw [sortOuts_length] at h; omega)
        simpa [hmap, hids] using this)
      (by
        intro ja hja
        rw [hL.arrs] at hja
        have := arrsOf_bounds hja
        omega)
    refine ⟨{ x := e.x, keys := L.map (·.1) ++ (sortOuts missing).map (·.1),
              scal := e.scal ++ scalarsOf (sortOuts missing),
              arrs := e.arrs ++ arrsOf L.length (sortOuts missing) }, ?_, rfl, ?_⟩
    · unfold addOutputs
      simp only [hnotempty, Bool.false_eq_true, if_false, hspec, hL.keys]
    · refine ⟨by simp, ?_, ?_⟩
      · simp [scalarsOf_append, hL.scal]
      · simp [arrsOf_append, hL.arrs]

/-! ### Decoding a laid-out entry (`update_from_file`) -/

theorem scalPairs_sublist (L : Outs) : (scalPairs L).Sublist L := by
  induction L with
  | nil => exact List.Sublist.slnil
  | cons nv t ih =>
    obtain ⟨n, v⟩ := nv
    cases v with
    | scalar r => exact ih.cons_cons _
    | arr a => exact ih.cons _

theorem arrPairs_sublist (L : Outs) : (arrPairs L).Sublist L := by
  induction L with
  | nil => exact List.Sublist.slnil
  | cons nv t ih =>
    obtain ⟨n, v⟩ := nv
    cases v with
    | scalar r => exact ih.cons _
    | arr a => exact ih.cons_cons _

theorem scal_arr_perm (L : Outs) : (scalPairs L ++ arrPairs L).Perm L := by
  induction L with
  | nil => exact List.Perm.nil
  | cons nv t ih =>
    obtain ⟨n, v⟩ := nv
    cases v with
    | scalar r => exact ih.cons _
    | arr a => exact List.perm_middle.trans (ih.cons _)

theorem named_arrays (P : List String) (T : Outs) :
    (arrsOf P.length T).map (fun ja => ((P ++ T.map (·.1))[ja.1]?).map (fun n => (n, Val.arr ja.2)))
      = (arrPairs T).map some := by
  induction T generalizing P with
  | nil => simp [arrsOf, arrPairs]
  | cons nv t ih =>
    obtain ⟨n, v⟩ := nv
    have hP : P ++ ((n, v) :: t).map (·.1) = (P ++ [n]) ++ t.map (·.1) := by simp
    have hlen : (P ++ [n]).length = P.length + 1 := by simp
    have ih' := ih (P ++ [n])
    rw [hlen] at ih'
    cases v with
    | scalar r =>
      simp only [arrsOf, arrPairs]
      rw [hP]; exact ih'
    | arr a =>
      have hP' : P ++ n :: t.map (·.1) = (P ++ [n]) ++ t.map (·.1) := by simp
      simp only [arrsOf, arrPairs, List.map_cons]
      rw [hP', ih']
      congr 1
      simp

theorem scalNames_filter (L : Outs) (nd : (L.map (·.1)).Nodup) :
    (L.map (·.1)).filter (fun k => !((arrPairs L).any (fun nv => nv.1 == k))) = (scalPairs L).map (·.1) := by
  induction L with
  | nil => rfl
  | cons nv t ih =>
    obtain ⟨n, v⟩ := nv
    simp only [List.map_cons, List.nodup_cons] at nd
    have hnot : (arrPairs t).any (fun nv => nv.1 == n) = false := by
      rw [List.any_eq_false]
      intro nv hnv hh
      have : nv.1 = n := by simpa using hh
      exact nd.1 (this ▸ List.mem_map.mpr ⟨nv, (arrPairs_sublist t).subset hnv, rfl⟩)
    cases v with
    | scalar r =>
      simp only [arrPairs, scalPairs, List.map_cons, List.filter_cons, hnot, Bool.not_false, if_true]
      rw [ih nd.2]
    | arr a =>
      simp only [arrPairs, scalPairs, List.map_cons, List.filter_cons, List.any_cons, beq_self_eq_true,
        Bool.true_or, Bool.not_true, Bool.false_eq_true, if_false]
      rw [← ih nd.2]
      apply List.filter_congr
      intro k hk
      have : (n == k) = false := by
        simp only [beq_eq_false_iff_ne, ne_eq]
        intro e; exact nd.1 (e ▸ hk)
      simp [this]

theorem zip_scalars (L : Outs) :
    (((scalPairs L).map (·.1)).zip (scalarsOf L)).map (fun nr => (nr.1, Val.scalar nr.2)) = scalPairs L := by
  induction L with
  | nil => rfl
  | cons nv t ih =>
    obtain ⟨n, v⟩ := nv
    cases v with
    | scalar r => simp [scalPairs, scalarsOf, ih]
    | arr a => simpa [scalPairs, scalarsOf] using ih

/-- Reading back one laid-out entry with distinct names yields exactly its pairs (scalars first,
    then arrays): nothing raises, nothing is lost, kinds and shapes are kept. -/
theorem decodeEntry_layout (e : FEntry) (L : Outs) (hL : Layout e L) (nd : (L.map (·.1)).Nodup) :
    decodeEntry e = some (scalPairs L ++ arrPairs L) := by
  have hnamed := named_arrays [] L
  simp only [List.length_nil, List.nil_append] at hnamed
  have nds : ((scalPairs L).map (·.1)).Nodup := ((scalPairs_sublist L).map _).nodup nd
  have nda : ((arrPairs L).map (·.1)).Nodup := ((arrPairs_sublist L).map _).nodup nd
  have hA : updateOuts [] (arrPairs L) = arrPairs L := by
    rw [updateOuts_append_of_disjoint [] _ nda (by simp)]; simp
  have hS : updateOuts [] (scalPairs L) = scalPairs L := by
    rw [updateOuts_append_of_disjoint [] _ nds (by simp)]; simp
  have hdisj : ∀ n ∈ (arrPairs L).map (·.1), n ∉ (scalPairs L).map (·.1) := by
    intro n hn hs
    have hp := ((scal_arr_perm L).map (·.1)).nodup_iff.mpr nd
    simp only [List.map_append] at hp
    exact (List.nodup_append.mp hp).2.2 n hs n hn rfl
  unfold decodeEntry
  rw [hL.arrs, hL.keys, hnamed, optAll_map_some]
  simp only [hA, hL.scal, scalNames_filter L nd, zip_scalars, hS]
  rw [updateOuts_append_of_disjoint _ _ nda hdisj]

theorem alook_decoded (L : Outs) (nd : (L.map (·.1)).Nodup) (k : String) :
    alook k (scalPairs L ++ arrPairs L) = alook k L :=
  alook_perm (scal_arr_perm L) (((scal_arr_perm L).map _).nodup_iff.mpr nd) k

/-! ### Database facts -/

/-- Two output dicts define the same finite map (same names, same values and kinds). -/
def OutsEq (a b : Outs) : Prop := ∀ n, alook n a = alook n b

/-- Same points in the same order, each with the same outputs. -/
def DbEq (a b : Db) : Prop := List.Forall₂ (fun x y => x.1 = y.1 ∧ OutsEq x.2 y.2) a b

theorem DbEq.points {a b : Db} (h : DbEq a b) : a.map (·.1) = b.map (·.1) := by
  unfold DbEq at h
  induction h with
  | nil => rfl
  | cons h _ ih => simp [h.1, ih]

/-- What a Python dict of dicts guarantees: distinct points, distinct names at each point. -/
structure DbWF (db : Db) : Prop where
  pts : (db.map (·.1)).Nodup
  names : ∀ po ∈ db, (po.2.map (·.1)).Nodup

theorem dbIndex_spec {p : Pt} {db : Db} {i : Nat} (h : dbIndex p db = some i) :
    ∃ outs, db[i]? = some (p, outs) ∧ alook p db = some outs := by
  induction db generalizing i with
  | nil => simp [dbIndex] at h
  | cons qc t ih =>
    obtain ⟨q, c⟩ := qc
    unfold dbIndex at h
    by_cases e : q = p
    · subst e
      simp only [if_true, Option.some.injEq] at h
      subst h
      exact ⟨c, by simp, by simp [alook_cons]⟩
    · simp only [e, if_false, Option.map_eq_some_iff] at h
      obtain ⟨j, hj, rfl⟩ := h
      obtain ⟨outs, h1, h2⟩ := ih hj
      exact ⟨outs, by simpa using h1, by simp [alook_cons, e, h2]⟩

theorem dbIndex_of_mem {p : Pt} {db : Db} (h : p ∈ db.map (·.1)) : ∃ i, dbIndex p db = some i := by
  induction db with
  | nil => simp at h
  | cons qc t ih =>
    obtain ⟨q, c⟩ := qc
    unfold dbIndex
    by_cases e : q = p
    · exact ⟨0, by simp [e]⟩
    · simp only [List.map_cons, List.mem_cons] at h
      rcases h with h | h
      · exact absurd h.symm e
      · obtain ⟨i, hi⟩ := ih h
        exact ⟨i + 1, by simp [e, hi]⟩

theorem dbIndex_of_getElem {db : Db} (nd : (db.map (·.1)).Nodup) {i : Nat} {p : Pt} {outs : Outs}
    (h : db[i]? = some (p, outs)) : dbIndex p db = some i := by
  induction db generalizing i with
  | nil => simp at h
  | cons qc t ih =>
    obtain ⟨q, c⟩ := qc
    simp only [List.map_cons, List.nodup_cons] at nd
    unfold dbIndex
    cases i with
    | zero =>
      simp only [List.getElem?_cons_zero, Option.some.injEq, Prod.mk.injEq] at h
      simp [h.1]
    | succ j =>
      simp only [List.getElem?_cons_succ] at h
      have hp : p ∈ t.map (·.1) := List.mem_map.mpr ⟨(p, outs), List.mem_of_getElem? h, rfl⟩
      have e : ¬ q = p := fun e => nd.1 (e ▸ hp)
      simp [e, ih nd.2 h]

theorem dbWF_getElem {db : Db} (wf : DbWF db) {i : Nat} {p : Pt} {outs : Outs}
    (h : db[i]? = some (p, outs)) : (outs.map (·.1)).Nodup :=
  wf.names (p, outs) (List.mem_of_getElem? h)

/-! ### File-level invariants -/

/-- The entry at index `i` is laid out by a list `L` with distinct names whose pairs are all
    current outputs of the `i`-th database point (the file may lag behind the database). -/
def EntryOK (db : Db) (i : Nat) (e : FEntry) : Prop :=
  ∃ p outs L, db[i]? = some (p, outs) ∧ e.x = p ∧ Layout e L ∧ (L.map (·.1)).Nodup ∧
    ∀ n v, alook n L = some v → alook n outs = some v

/-- The entry at index `i` holds exactly the outputs of the `i`-th database point. -/
def EntryComplete (db : Db) (i : Nat) (e : FEntry) : Prop :=
  ∃ p outs L, db[i]? = some (p, outs) ∧ e.x = p ∧ Layout e L ∧ (L.map (·.1)).Nodup ∧ OutsEq L outs

theorem EntryComplete.ok {db : Db} {i : Nat} {e : FEntry} (h : EntryComplete db i e) :
    EntryOK db i e := by
  obtain ⟨p, outs, L, h1, h2, h3, h4, h5⟩ := h
  exact ⟨p, outs, L, h1, h2, h3, h4, fun n v hv => by rw [← h5 n]; exact hv⟩

structure FileOK (db : Db) (F : File) : Prop where
  idx : (F.map (·.1)).Nodup
  ok : ∀ ie ∈ F, EntryOK db ie.1 ie.2

theorem setEntry_keys (F : File) (i : Nat) (e : FEntry) : (setEntry F i e).map (·.1) = F.map (·.1) := by
  induction F with
  | nil => rfl
  | cons je t ih =>
    obtain ⟨j, e0⟩ := je
    simp only [setEntry, List.map_cons] at ih ⊢
    by_cases h : j = i <;> simp [h, ih]

theorem alook_setEntry (F : File) (i : Nat) (e : FEntry) (j : Nat) :
    alook j (setEntry F i e) = if j = i then (alook i F).map (fun _ => e) else alook j F := by
  induction F with
  | nil => simp [setEntry]
  | cons ke t ih =>
    obtain ⟨k, e0⟩ := ke
    simp only [setEntry, List.map_cons] at ih ⊢
    by_cases hk : k = i
    · subst hk
      simp only [if_true, alook_cons]
      by_cases hj : k = j
      · subst hj; simp
      · have : ¬ j = k := fun h => hj h.symm
        simp [hj, this, ih]
    · simp only [hk, if_false, alook_cons]
      by_cases hj : k = j
      · subst hj; simp [hk]
      · simp [hj, ih]

theorem mem_setEntry {F : File} {i : Nat} {e : FEntry} {je : Nat × FEntry} (h : je ∈ setEntry F i e) :
    je = (i, e) ∨ (je ∈ F ∧ je.1 ≠ i) := by
  simp only [setEntry, List.mem_map] at h
  obtain ⟨ke, hke, rfl⟩ := h
  by_cases hk : ke.1 = i
  · simp [hk]
  · simp [hk, hke]

/-- One iteration of the append loop of `to_file`. -/
theorem appendStep (db : Db) (wf : DbWF db) (F : File) (hF : FileOK db F) (p : Pt) (i : Nat)
    (outs : Outs) (hi : db[i]? = some (p, outs)) :
    ∃ F' e',
      appendOne F i p outs = some F' ∧
      FileOK db F' ∧ alook i F' = some e' ∧ EntryComplete db i e' ∧
      (∀ j, j ≠ i → alook j F' = alook j F) := by
  have ndo := dbWF_getElem wf hi
  unfold appendOne
  cases hl : alook i F with
  | some e =>
    obtain ⟨p', outs', L, h1, h2, h3, h4, h5⟩ := hF.ok (i, e) (alook_mem hl)
    simp only at h1 h2
    rw [hi] at h1
    injection h1 with h1; injection h1 with hp ho; subst hp; subst ho
    have hsub : ∀ n ∈ L.map (·.1), n ∈ outs.map (·.1) := by
      intro n hn
      obtain ⟨v, hv⟩ := alook_isSome_of_mem_keys hn
      exact List.mem_map.mpr ⟨(n, v), alook_mem (h5 n v hv), rfl⟩
    obtain ⟨e', ha, hx, hlay⟩ := appendOutput_layout e L outs h3 h4 hsub ndo
    set missing := outs.filter (fun nv => !((L.map (·.1)).contains nv.1)) with hmiss
    have ndm : (missing.map (·.1)).Nodup := (List.filter_sublist.map _).nodup ndo
    have ndL' : ((L ++ sortOuts missing).map (·.1)).Nodup := by
      rw [List.map_append]
      refine List.nodup_append.mpr ⟨h4, sortOuts_keys_nodup ndm, ?_⟩
      intro a ha b hb hab
      subst hab
      rw [mem_sortOuts_keys] at hb
      obtain ⟨nv, hnv, e1⟩ := List.mem_map.mp hb
      have := (List.mem_filter.mp hnv).2
      simp only [Bool.not_eq_true', List.contains_eq_mem, decide_eq_false_iff_not] at this
      exact this (e1 ▸ ha)
    have heq : OutsEq (L ++ sortOuts missing) outs := by
      intro n
      rw [alook_append, alook_sortOuts ndm, hmiss, alook_filter_keys (fun k => !((L.map (·.1)).contains k))]
      cases hn : alook n L with
      | some v => simp [h5 n v hn]
      | none =>
        have : n ∉ L.map (·.1) := alook_eq_none.mp hn
        simp [this]
    have hcomp : EntryComplete db i e' := ⟨p, outs, _, hi, by rw [hx, h2], hlay, ndL', heq⟩
    refine ⟨setEntry F i e', e', by simp [ha], ⟨by rw [setEntry_keys]; exact hF.idx, ?_⟩, ?_, hcomp, ?_⟩
    · intro je hje
      rcases mem_setEntry hje with h | ⟨h, _⟩
      · subst h; exact hcomp.ok
      · exact hF.ok je h
    · rw [alook_setEntry]; simp [hl]
    · intro j hj; rw [alook_setEntry]; simp [hj]
  | none =>
    obtain ⟨e', hc, hx, hlay⟩ := createEntry_layout p outs ndo
    have hcomp : EntryComplete db i e' :=
      ⟨p, outs, _, hi, hx, hlay, sortOuts_keys_nodup ndo, fun n => alook_sortOuts ndo n⟩
    have hni : i ∉ F.map (·.1) := alook_eq_none.mp hl
    refine ⟨F ++ [(i, e')], e', by simp [hc], ⟨?_, ?_⟩, ?_, hcomp, ?_⟩
    · rw [List.map_append]
      exact List.nodup_append.mpr ⟨hF.idx, by simp, by
        intro a ha b hb hab
        simp only [List.map_cons, List.map_nil, List.mem_singleton] at hb
        subst hab; subst hb; exact hni ha⟩
    · intro je hje
      rcases List.mem_append.mp hje with h | h
      · exact hF.ok je h
      · simp only [List.mem_singleton] at h; subst h; exact hcomp.ok
    · rw [alook_append, hl]; simp [alook_cons]
    · intro j hj
      rw [alook_append]
      cases alook j F with
      | some _ => rfl
      | none =>
        have : ¬ i = j := fun h => hj h.symm
        simp [alook_cons, this]

/-- The append loop of `to_file` over a list of pending points of the database: it never raises,
    keeps the file consistent, completes every entry it touches and leaves the others alone. -/
theorem appendPending_spec (db : Db) (wf : DbWF db) (ps : List Pt)
    (hps : ∀ p ∈ ps, p ∈ db.map (·.1)) (F : File) (hF : FileOK db F) :
    ∃ F', appendPending db F ps = some F' ∧ FileOK db F' ∧
      (∀ j, (∃ p ∈ ps, dbIndex p db = some j) → ∃ e, alook j F' = some e ∧ EntryComplete db j e) ∧
      (∀ j, (¬ ∃ p ∈ ps, dbIndex p db = some j) → alook j F' = alook j F) := by
  induction ps generalizing F with
  | nil => exact ⟨F, rfl, hF, by simp, by simp⟩
  | cons p ps ih =>
    obtain ⟨i, hi⟩ := dbIndex_of_mem (hps p (by simp))
    obtain ⟨outs, hget, hlook⟩ := dbIndex_spec hi
    obtain ⟨F1, e1, hstep, hF1, hl1, hc1, hother⟩ := appendStep db wf F hF p i outs hget
    obtain ⟨F', hrun, hF', htouched, huntouched⟩ :=
      ih (fun q hq => hps q (List.mem_cons_of_mem _ hq)) F1 hF1
    refine ⟨F', ?_, hF', ?_, ?_⟩
    · simp only [appendPending, hi, hlook, hstep, hrun]
    · intro j hj
      by_cases hlater : ∃ q ∈ ps, dbIndex q db = some j
      · exact htouched j hlater
      · obtain ⟨q, hq, hqj⟩ := hj
        rcases List.mem_cons.mp hq with rfl | hq'
        · have : i = j := by rw [hi] at hqj; exact Option.some.inj hqj
          subst this
          exact ⟨e1, by rw [huntouched i hlater]; exact hl1, hc1⟩
        · exact absurd ⟨q, hq', hqj⟩ hlater
    · intro j hj
      have hlater : ¬ ∃ q ∈ ps, dbIndex q db = some j := fun ⟨q, hq, hqj⟩ =>
        hj ⟨q, List.mem_cons_of_mem _ hq, hqj⟩
      have hne : j ≠ i := fun e => hj ⟨p, by simp, e ▸ hi⟩
      rw [huntouched j hlater, hother j hne]

/-! ### Full export -/

theorem exportFrom_spec (db : Db) (nd : ∀ po ∈ db, (po.2.map (·.1)).Nodup) (k : Nat) :
    ∃ F, exportFrom k db = some F ∧ F.map (·.1) = List.range' k db.length ∧
      ∀ i p outs, db[i]? = some (p, outs) →
        ∃ e, (k + i, e) ∈ F ∧ e.x = p ∧ Layout e (sortOuts outs) := by
  induction db generalizing k with
  | nil => exact ⟨[], rfl, rfl, by simp⟩
  | cons po t ih =>
    obtain ⟨p, o⟩ := po
    obtain ⟨e, he, hx, hl⟩ := createEntry_layout p o (nd (p, o) (by simp))
    obtain ⟨R, hR, hk, hall⟩ := ih (fun q hq => nd q (List.mem_cons_of_mem _ hq)) (k + 1)
    refine ⟨(k, e) :: R, by simp [exportFrom, he, hR], by simp [hk, List.range'_succ], ?_⟩
    intro i p' outs' hget
    cases i with
    | zero =>
      simp only [List.getElem?_cons_zero, Option.some.injEq, Prod.mk.injEq] at hget
      obtain ⟨rfl, rfl⟩ := hget
      exact ⟨e, by simp, hx, hl⟩
    | succ j =>
      simp only [List.getElem?_cons_succ] at hget
      obtain ⟨e', hm, hx', hl'⟩ := hall j p' outs' hget
      exact ⟨e', by
        have : k + (j + 1) = k + 1 + j := by omega
        rw [this]; exact List.mem_cons_of_mem _ hm, hx', hl'⟩

/-- A single export of a well-formed database never raises and writes, for every index, a complete
    entry. -/
theorem exportAll_spec (db : Db) (wf : DbWF db) :
    ∃ F, exportAll db = some F ∧ FileOK db F ∧ F.map (·.1) = List.range db.length ∧
      ∀ i p outs, db[i]? = some (p, outs) → ∃ e, alook i F = some e ∧ EntryComplete db i e := by
  obtain ⟨F, hF, hk, hall⟩ := exportFrom_spec db wf.names 0
  have hnd : (F.map (·.1)).Nodup := by
    rw [hk, ← List.range_eq_range']; exact List.nodup_range
  have hcomp : ∀ i p outs, db[i]? = some (p, outs) → ∃ e, alook i F = some e ∧ EntryComplete db i e := by
    intro i p outs hget
    obtain ⟨e, hm, hx, hl⟩ := hall i p outs hget
    rw [Nat.zero_add] at hm
    have ndo := dbWF_getElem wf hget
    exact ⟨e, alook_of_mem_nodup hnd hm,
      ⟨p, outs, _, hget, hx, hl, sortOuts_keys_nodup ndo, fun n => alook_sortOuts ndo n⟩⟩
  refine ⟨F, hF, ⟨hnd, ?_⟩, by rw [hk, List.range_eq_range'], hcomp⟩
  intro ie hie
  have hi : ie.1 ∈ List.range' 0 db.length := by rw [← hk]; exact List.mem_map.mpr ⟨ie, hie, rfl⟩
  have hlt : ie.1 < db.length := by simpa [List.mem_range'] using hi
  obtain ⟨e, he, hc⟩ := hcomp ie.1 db[ie.1].1 db[ie.1].2 (by simp [hlt])
  have : alook ie.1 F = some ie.2 := alook_of_mem_nodup hnd (by simpa using hie)
  rw [this] at he
  injection he with he; subst he
  exact hc.ok

/-! ### Reading a complete file -/

theorem exists_list_of_forall {α : Type} (n : Nat) (P : Nat → α → Prop)
    (h : ∀ i, i < n → ∃ a, P i a) :
    ∃ l : List α, l.length = n ∧ ∀ i (hi : i < l.length), P i l[i] := by
  induction n with
  | zero => exact ⟨[], rfl, by simp⟩
  | succ m ih =>
    obtain ⟨l, hl, hp⟩ := ih (fun i hi => h i (by omega))
    obtain ⟨a, ha⟩ := h m (by omega)
    refine ⟨l ++ [a], by simp [hl], ?_⟩
    intro i hi
    by_cases him : i < l.length
    · rw [List.getElem_append_left him]; exact hp i him
    · have : i = m := by simp [hl] at hi him; omega
      subst this
      rw [List.getElem_append_right (by omega)]
      simpa [hl] using ha

theorem dbStore_new {db : Db} {p : Pt} (h : p ∉ db.map (·.1)) (o : Outs) :
    dbStore db p o = db ++ [(p, o)] := by
  induction db with
  | nil => rfl
  | cons qc t ih =>
    obtain ⟨q, c⟩ := qc
    simp only [List.map_cons, List.mem_cons, not_or] at h
    have : ¬ q = p := fun e => h.1 e.symm
    simp [dbStore, this, ih h.2]

theorem foldl_dbStore (acc ds : Db) (nd : ((acc ++ ds).map (·.1)).Nodup) :
    ds.foldl (fun db po => dbStore db po.1 po.2) acc = acc ++ ds := by
  induction ds generalizing acc with
  | nil => simp
  | cons po t ih =>
    obtain ⟨p, o⟩ := po
    have hp : p ∉ acc.map (·.1) := by
      simp only [List.map_append, List.map_cons] at nd
      have := (List.nodup_append.mp nd).2.2
      intro hmem
      exact this p hmem p (by simp) rfl
    simp only [List.foldl_cons]
    rw [dbStore_new hp, ih (acc ++ [(p, o)]) (by simpa using nd)]
    simp

/-- A file holding one complete entry for every database index (and nothing else) reloads to the
    database content: same points in the same order, same names, values, kinds and shapes. -/
theorem readFile_complete (db : Db) (wf : DbWF db) (F : File) (hF : FileOK db F)
    (hall : ∀ i p outs, db[i]? = some (p, outs) → ∃ e, alook i F = some e ∧ EntryComplete db i e) :
    ∃ d, readFile F = some d ∧ DbEq d db ∧ DbWF d := by
  -- the file has exactly `db.length` members
  have hlen : F.length = db.length := by
    have h1 : (F.map (·.1)).Subperm (List.range db.length) := by
      apply List.subperm_of_subset hF.idx
      intro i hi
      obtain ⟨ie, hie, rfl⟩ := List.mem_map.mp hi
      obtain ⟨p, outs, L, hget, _⟩ := hF.ok ie hie
      have : ie.1 < db.length := by
        by_contra hn
        rw [List.getElem?_eq_none (by omega)] at hget; cases hget
      exact List.mem_range.mpr this
    have h2 : (List.range db.length).Subperm (F.map (·.1)) := by
      apply List.subperm_of_subset List.nodup_range
      intro i hi
      have hi' := List.mem_range.mp hi
      obtain ⟨e, he, _⟩ := hall i db[i].1 db[i].2 (by simp [hi'])
      exact List.mem_map.mpr ⟨(i, e), alook_mem he, rfl⟩
    have := h1.length_le; have := h2.length_le
    simp only [List.length_map, List.length_range] at *
    omega
  -- choose, for every index, the entry and its decoded outputs
  obtain ⟨cs, hcl, hcs⟩ := exists_list_of_forall db.length
    (fun i (c : FEntry × Outs) => alook i F = some c.1 ∧ decodeEntry c.1 = some c.2 ∧
      (c.2.map (·.1)).Nodup ∧
      ∃ p outs, db[i]? = some (p, outs) ∧ c.1.x = p ∧ OutsEq c.2 outs)
    (by
      intro i hi
      obtain ⟨e, he, p, outs, L, hget, hx, hlay, ndL, heq⟩ := hall i db[i].1 db[i].2 (by simp [hi])
      exact ⟨(e, scalPairs L ++ arrPairs L), he, decodeEntry_layout e L hlay ndL,
        ((scal_arr_perm L).map _).nodup_iff.mpr ndL, p, outs, hget, hx,
        fun n => by rw [alook_decoded L ndL n]; exact heq n⟩)
  have h1 : (List.range F.length).map (fun i => alook i F) = (cs.map (·.1)).map some := by
    apply List.ext_getElem (by simp [hlen, hcl])
    intro i h1 h2
    simp only [List.getElem_map, List.getElem_range]
    exact (hcs i (by simpa [hlen, hcl] using h1)).1
  have h2 : (cs.map (·.1)).map (fun e => (decodeEntry e).map (fun o => (e.x, o)))
      = (cs.map (fun c => (c.1.x, c.2))).map some := by
    apply List.ext_getElem (by simp)
    intro i h1 h2
    simp only [List.getElem_map]
    rw [(hcs i (by simpa using h1)).2.1]; rfl
  have hds : DbEq (cs.map (fun c => (c.1.x, c.2))) db := by
    unfold DbEq
    rw [List.forall₂_iff_get]
    refine ⟨by simp [hcl], ?_⟩
    intro i h1 h2
    have hi : i < cs.length := by simpa using h1
    obtain ⟨_, _, _, p, outs, hget, hx, heq⟩ := hcs i hi
    have hdb : db[i] = (p, outs) := by
      have := List.getElem?_eq_getElem h2
      rw [hget] at this; exact (Option.some.inj this).symm
    simp only [List.get_eq_getElem, List.getElem_map, hdb]
    exact ⟨hx, heq⟩
  have hpts : (cs.map (fun c => (c.1.x, c.2))).map (·.1) = db.map (·.1) := hds.points
  have hwf : DbWF (cs.map (fun c => (c.1.x, c.2))) := by
    refine ⟨by rw [hpts]; exact wf.pts, ?_⟩
    intro po hpo
    obtain ⟨c, hc, rfl⟩ := List.mem_map.mp hpo
    obtain ⟨i, hi, rfl⟩ := List.getElem_of_mem hc
    exact (hcs i hi).2.2.1
  refine ⟨cs.map (fun c => (c.1.x, c.2)), ?_, hds, hwf⟩
  unfold readFile
  rw [h1, optAll_map_some]
  simp only [h2, optAll_map_some]
  rw [foldl_dbStore [] _ (by simpa [hpts] using wf.pts)]
  simp

/-! ### `Database.store` and the pending buffer -/

theorem dbStore_keys (db : Db) (p : Pt) (o : Outs) :
    (dbStore db p o).map (·.1) = if p ∈ db.map (·.1) then db.map (·.1) else db.map (·.1) ++ [p] := by
  induction db with
  | nil => simp [dbStore]
  | cons qc t ih =>
    obtain ⟨q, c⟩ := qc
    unfold dbStore
    by_cases e : q = p
    · subst e; simp
    · have e' : ¬ p = q := fun h => e h.symm
      simp only [e, if_false, List.map_cons, ih, List.mem_cons, e', false_or]
      split <;> simp

theorem dbStore_getElem_old {db : Db} (nd : (db.map (·.1)).Nodup) (p : Pt) (o : Outs) {j : Nat}
    {q : Pt} {c : Outs} (h : db[j]? = some (q, c)) :
    (dbStore db p o)[j]? = some (q, if q = p then updateOuts c o else c) := by
  induction db generalizing j with
  | nil => simp at h
  | cons q0c0 t ih =>
    obtain ⟨q0, c0⟩ := q0c0
    simp only [List.map_cons, List.nodup_cons] at nd
    unfold dbStore
    by_cases e : q0 = p
    · subst e
      simp only [if_true]
      cases j with
      | zero =>
        simp only [List.getElem?_cons_zero, Option.some.injEq, Prod.mk.injEq] at h ⊢
        obtain ⟨rfl, rfl⟩ := h; simp
      | succ j =>
        simp only [List.getElem?_cons_succ] at h ⊢
        have hq : q ∈ t.map (·.1) := List.mem_map.mpr ⟨(q, c), List.mem_of_getElem? h, rfl⟩
        have : ¬ q = q0 := fun e => nd.1 (e ▸ hq)
        simp [h, this]
    · simp only [e, if_false]
      cases j with
      | zero =>
        simp only [List.getElem?_cons_zero, Option.some.injEq, Prod.mk.injEq] at h ⊢
        obtain ⟨rfl, rfl⟩ := h; simp [e]
      | succ j =>
        simp only [List.getElem?_cons_succ] at h ⊢
        exact ih nd.2 h

theorem dbStore_getElem_new {db : Db} (nd : (db.map (·.1)).Nodup) (p : Pt) (o : Outs) {j : Nat}
    {q : Pt} {c' : Outs} (h : (dbStore db p o)[j]? = some (q, c')) :
    (∃ c, db[j]? = some (q, c) ∧ c' = if q = p then updateOuts c o else c) ∨
      (j = db.length ∧ q = p ∧ c' = o ∧ p ∉ db.map (·.1)) := by
  induction db generalizing j with
  | nil =>
    cases j with
    | zero =>
      simp only [dbStore, List.getElem?_cons_zero, Option.some.injEq, Prod.mk.injEq] at h
      exact Or.inr ⟨rfl, h.1.symm, h.2.symm, by simp⟩
    | succ j => simp [dbStore] at h
  | cons q0c0 t ih =>
    obtain ⟨q0, c0⟩ := q0c0
    simp only [List.map_cons, List.nodup_cons] at nd
    unfold dbStore at h
    by_cases e : q0 = p
    · subst e
      simp only [if_true] at h
      cases j with
      | zero =>
        simp only [List.getElem?_cons_zero, Option.some.injEq, Prod.mk.injEq] at h
        obtain ⟨rfl, rfl⟩ := h
        exact Or.inl ⟨c0, by simp, by simp⟩
      | succ j =>
        simp only [List.getElem?_cons_succ] at h
        have hq : q ∈ t.map (·.1) := List.mem_map.mpr ⟨(q, c'), List.mem_of_getElem? h, rfl⟩
        have hne : ¬ q = q0 := fun e => nd.1 (e ▸ hq)
        exact Or.inl ⟨c', by simpa using h, by simp [hne]⟩
    · simp only [e, if_false] at h
      cases j with
      | zero =>
        simp only [List.getElem?_cons_zero, Option.some.injEq, Prod.mk.injEq] at h
        obtain ⟨rfl, rfl⟩ := h
        exact Or.inl ⟨c0, by simp, by simp [e]⟩
      | succ j =>
        simp only [List.getElem?_cons_succ] at h
        rcases ih nd.2 h with ⟨c, hc, hc'⟩ | ⟨hj, hq, hc, hp⟩
        · exact Or.inl ⟨c, by simpa using hc, hc'⟩
        · refine Or.inr ⟨by simp [hj], hq, hc, ?_⟩
          simp only [List.map_cons, List.mem_cons, not_or]
          exact ⟨fun h => e h.symm, hp⟩

theorem dbStore_wf {db : Db} (wf : DbWF db) (p : Pt) {o : Outs} (ndo : (o.map (·.1)).Nodup) :
    DbWF (dbStore db p o) := by
  refine ⟨?_, ?_⟩
  · rw [dbStore_keys]
    split
    · exact wf.pts
    · rename_i h
      exact List.nodup_append.mpr ⟨wf.pts, by simp, by
        intro a ha b hb hab
        simp only [List.mem_singleton] at hb
        subst hab; subst hb; exact h ha⟩
  · intro qc hqc
    obtain ⟨j, hj, hget⟩ := List.getElem_of_mem hqc
    have hget' : (dbStore db p o)[j]? = some (qc.1, qc.2) := by
      rw [List.getElem?_eq_getElem hj, hget]
    rcases dbStore_getElem_new wf.pts p o hget' with ⟨c, hc, hc'⟩ | ⟨_, _, hc, _⟩
    · have ndc := dbWF_getElem wf hc
      rw [hc']
      split
      · exact updateOuts_nodup ndc o
      · exact ndc
    · rw [hc]; exact ndo

section pending
variable {κ : Type} [DecidableEq κ] (H : Pt → κ)

theorem addPending_mem_self (pend : List (κ × Pt)) (p : Pt) :
    (H p, p) ∈ addPending H pend p := by
  induction pend with
  | nil => simp [addPending]
  | cons hq t ih =>
    obtain ⟨h, q⟩ := hq
    unfold addPending
    by_cases e : h = H p
    · simp [e]
    · simp [e, ih]

theorem addPending_sub {pend : List (κ × Pt)} {p : Pt} {hq : κ × Pt}
    (h : hq ∈ addPending H pend p) : hq ∈ pend ∨ hq = (H p, p) := by
  induction pend with
  | nil => simp [addPending] at h; exact Or.inr h
  | cons h0q0 t ih =>
    obtain ⟨h0, q0⟩ := h0q0
    unfold addPending at h
    by_cases e : h0 = H p
    · simp only [e, if_true, List.mem_cons] at h
      rcases h with h | h
      · exact Or.inr h
      · exact Or.inl (List.mem_cons_of_mem _ h)
    · simp only [e, if_false, List.mem_cons] at h
      rcases h with h | h
      · exact Or.inl (by simp [h])
      · rcases ih h with h | h
        · exact Or.inl (List.mem_cons_of_mem _ h)
        · exact Or.inr h

theorem addPending_keep {pend : List (κ × Pt)} {p : Pt} {hq : κ × Pt}
    (h : hq ∈ pend) (hne : hq.1 ≠ H p) : hq ∈ addPending H pend p := by
  induction pend with
  | nil => cases h
  | cons h0q0 t ih =>
    obtain ⟨h0, q0⟩ := h0q0
    unfold addPending
    rcases List.mem_cons.mp h with h | h
    · subst h
      simp [hne]
    · by_cases e : h0 = H p
      · simp [e, h]
      · simp only [e, if_false, List.mem_cons]
        exact Or.inr (ih h)

end pending

end GV.C11
