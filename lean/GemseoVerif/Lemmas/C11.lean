/-
C11 — helper lemmas about the HDF export/append/reload model (`Model/C11.lean`):
association lists, `dict.update`, the layout of one file entry, the decoder, the append loop.
-/
import GemseoVerif.Model.C11
import Mathlib.Data.List.Basic
import Mathlib.Data.List.Nodup
import Mathlib.Data.List.Perm.Basic
import Mathlib.Data.List.Perm.Subperm

namespace GV.C11

/-! ### `optAll` -/

theorem optAll_map_some {α : Type} (l : List α) : optAll (l.map some) = some l := by
  induction l with
  | nil => rfl
  | cons a t ih => simp [optAll, ih]

theorem optAll_eq_some {α : Type} {l : List (Option α)} {r : List α} (h : l = r.map some) :
    optAll l = some r := by
  subst h; exact optAll_map_some r

/-! ### association lists -/

section alist
variable {α β : Type} [DecidableEq α]

@[simp] theorem alook_nil (k : α) : alook k ([] : List (α × β)) = none := rfl

theorem alook_cons (k a : α) (b : β) (t : List (α × β)) :
    alook k ((a, b) :: t) = if a = k then some b else alook k t := rfl

theorem alook_eq_none {k : α} {l : List (α × β)} : alook k l = none ↔ k ∉ l.map (·.1) := by
  induction l with
  | nil => simp
  | cons ab t ih =>
    obtain ⟨a, b⟩ := ab
    rw [alook_cons]
    by_cases h : a = k
    · simp [h]
    · simp only [h, if_false, ih, List.map_cons, List.mem_cons, not_or]
      constructor
      · intro h2; exact ⟨fun e => h e.symm, h2⟩
      · intro h2; exact h2.2

theorem alook_mem {k : α} {v : β} {l : List (α × β)} (h : alook k l = some v) : (k, v) ∈ l := by
  induction l with
  | nil => simp at h
  | cons ab t ih =>
    obtain ⟨a, b⟩ := ab
    rw [alook_cons] at h
    by_cases e : a = k
    · simp only [e, if_true, Option.some.injEq] at h
      subst e; subst h; exact List.mem_cons_self
    · simp only [e, if_false] at h
      exact List.mem_cons_of_mem _ (ih h)

theorem alook_isSome_of_mem_keys {k : α} {l : List (α × β)} (h : k ∈ l.map (·.1)) :
    ∃ v, alook k l = some v := by
  cases hl : alook k l with
  | none => exact absurd h (alook_eq_none.mp hl)
  | some v => exact ⟨v, rfl⟩

theorem alook_of_mem_nodup {k : α} {v : β} {l : List (α × β)} (nd : (l.map (·.1)).Nodup)
    (h : (k, v) ∈ l) : alook k l = some v := by
  induction l with
  | nil => cases h
  | cons ab t ih =>
    obtain ⟨a, b⟩ := ab
    rw [alook_cons]
    simp only [List.map_cons, List.nodup_cons] at nd
    rcases List.mem_cons.mp h with e | e
    · injection e with e1 e2; subst e1; subst e2; simp
    · have hk : k ∈ t.map (·.1) := List.mem_map.mpr ⟨(k, v), e, rfl⟩
      have hne : a ≠ k := fun e' => nd.1 (e' ▸ hk)
      simp only [hne, if_false]
      exact ih nd.2 e

/-- Two association lists with unique keys and the same elements define the same map. -/
theorem alook_congr_of_mem_iff {l₁ l₂ : List (α × β)} (n₁ : (l₁.map (·.1)).Nodup)
    (n₂ : (l₂.map (·.1)).Nodup) (h : ∀ x, x ∈ l₁ ↔ x ∈ l₂) (k : α) : alook k l₁ = alook k l₂ := by
  cases h1 : alook k l₁ with
  | some v => exact (alook_of_mem_nodup n₂ ((h _).mp (alook_mem h1))).symm
  | none =>
    cases h2 : alook k l₂ with
    | none => rfl
    | some w =>
      have := alook_of_mem_nodup n₁ ((h _).mpr (alook_mem h2))
      rw [h1] at this; cases this

theorem alook_perm {l₁ l₂ : List (α × β)} (p : l₁.Perm l₂) (n₁ : (l₁.map (·.1)).Nodup) (k : α) :
    alook k l₁ = alook k l₂ :=
  alook_congr_of_mem_iff n₁ ((p.map _).nodup_iff.mp n₁) (fun _ => p.mem_iff) k

theorem alook_append (k : α) (l₁ l₂ : List (α × β)) :
    alook k (l₁ ++ l₂) = (alook k l₁).orElse (fun _ => alook k l₂) := by
  induction l₁ with
  | nil => simp
  | cons ab t ih =>
    obtain ⟨a, b⟩ := ab
    simp only [List.cons_append, alook_cons]
    by_cases e : a = k <;> simp [e, ih]

theorem alook_filter_keys (p : α → Bool) (k : α) (l : List (α × β)) :
    alook k (l.filter (fun ab => p ab.1)) = if p k then alook k l else none := by
  induction l with
  | nil => simp
  | cons ab t ih =>
    obtain ⟨a, b⟩ := ab
    by_cases hp : p a = true
    · simp only [List.filter_cons, hp, if_true, alook_cons]
      by_cases e : a = k
      · subst e; simp [hp]
      · simp only [e, if_false, ih]
    · have hp' : p a = false := by simpa using hp
      simp only [List.filter_cons, hp', Bool.false_eq_true, if_false, alook_cons]
      by_cases e : a = k
      · subst e; simp [hp', ih]
      · simp [e, ih]

end alist

/-! ### `setOut`, `updateOuts`, `dbStore` -/

theorem setOut_keys (c : Outs) (n : String) (v : Val) :
    (setOut c n v).map (·.1) = if n ∈ c.map (·.1) then c.map (·.1) else c.map (·.1) ++ [n] := by
  induction c with
  | nil => simp [setOut]
  | cons mw t ih =>
    obtain ⟨m, w⟩ := mw
    unfold setOut
    by_cases e : m = n
    · subst e; simp
    · have e' : ¬ n = m := fun h => e h.symm
      simp only [e, if_false, List.map_cons, ih, List.mem_cons, e', false_or]
      split <;> simp

theorem setOut_nodup {c : Outs} (nd : (c.map (·.1)).Nodup) (n : String) (v : Val) :
    ((setOut c n v).map (·.1)).Nodup := by
  rw [setOut_keys]
  split
  · exact nd
  · rename_i h
    exact List.nodup_append.mpr ⟨nd, by simp, by
      intro a ha b hb
      simp only [List.mem_singleton] at hb
      subst hb
      exact fun e => h (e ▸ ha)⟩

theorem alook_setOut (c : Outs) (n : String) (v : Val) (k : String) :
    alook k (setOut c n v) = if n = k then some v else alook k c := by
  induction c with
  | nil => simp [setOut, alook_cons]
  | cons mw t ih =>
    obtain ⟨m, w⟩ := mw
    unfold setOut
    by_cases e : m = n
    · subst e
      simp only [if_true, alook_cons]
      split <;> rfl
    · simp only [e, if_false, alook_cons, ih]
      by_cases e2 : m = k
      · subst e2
        have e3 : ¬ n = m := fun h => e h.symm
        simp [e3]
      · simp [e2]

theorem updateOuts_nodup {c : Outs} (nd : (c.map (·.1)).Nodup) (o : Outs) :
    ((updateOuts c o).map (·.1)).Nodup := by
  induction o generalizing c with
  | nil => exact nd
  | cons nv t ih =>
    obtain ⟨n, v⟩ := nv
    exact ih (setOut_nodup nd n v)

/-- `dict.update` with a dict argument (unique names): the new values win. -/
theorem alook_updateOuts (c o : Outs) (nd : (o.map (·.1)).Nodup) (k : String) :
    alook k (updateOuts c o) = (alook k o).orElse (fun _ => alook k c) := by
  induction o generalizing c with
  | nil => simp [updateOuts]
  | cons nv t ih =>
    obtain ⟨n, v⟩ := nv
    simp only [List.map_cons, List.nodup_cons] at nd
    simp only [updateOuts, ih (setOut c n v) nd.2, alook_setOut, alook_cons]
    by_cases e : n = k
    · subst e
      have : alook n t = none := alook_eq_none.mpr nd.1
      simp [this]
    · simp [e]

/-- Updating the empty dict with unique names appends them all. -/
theorem updateOuts_append_of_disjoint (c o : Outs) (nd : (o.map (·.1)).Nodup)
    (dj : ∀ n ∈ o.map (·.1), n ∉ c.map (·.1)) : updateOuts c o = c ++ o := by
  induction o generalizing c with
  | nil => simp [updateOuts]
  | cons nv t ih =>
    obtain ⟨n, v⟩ := nv
    simp only [List.map_cons, List.nodup_cons] at nd
    have hn : n ∉ c.map (·.1) := dj n (by simp)
    have hs : setOut c n v = c ++ [(n, v)] := by
      clear ih dj nd
      induction c with
      | nil => rfl
      | cons mw t' ih' =>
        obtain ⟨m, w⟩ := mw
        simp only [List.map_cons, List.mem_cons, not_or] at hn
        unfold setOut
        have : ¬ m = n := fun h => hn.1 h.symm
        simp [this, ih' hn.2]
    simp only [updateOuts]
    rw [hs, ih (c ++ [(n, v)]) nd.2]
    · simp
    · intro m hm
      simp only [List.map_append, List.map_cons, List.map_nil, List.mem_append, List.mem_singleton, not_or]
      refine ⟨dj m (by simp [hm]), ?_⟩
      intro e; subst e; exact nd.1 hm

/-! ### sorting -/

theorem sortOuts_perm (o : Outs) : (sortOuts o).Perm o := List.mergeSort_perm _ _

theorem sortOuts_length (o : Outs) : (sortOuts o).length = o.length := (sortOuts_perm o).length_eq

theorem sortOuts_keys_nodup {o : Outs} (nd : (o.map (·.1)).Nodup) : ((sortOuts o).map (·.1)).Nodup :=
  ((sortOuts_perm o).map _).nodup_iff.mpr nd

theorem alook_sortOuts {o : Outs} (nd : (o.map (·.1)).Nodup) (k : String) :
    alook k (sortOuts o) = alook k o :=
  alook_perm (sortOuts_perm o) (sortOuts_keys_nodup nd) k

theorem mem_sortOuts_keys (o : Outs) (n : String) : n ∈ (sortOuts o).map (·.1) ↔ n ∈ o.map (·.1) :=
  ((sortOuts_perm o).map _).mem_iff

/-! ### The layout of one file entry

`Layout e L`: the entry `e` is the image of the list `L` of (name, value) pairs *in file order*:
`k/i` lists the names, the scalar dataset lists the scalar values in that order, and the sub-group
`arr_i` holds each array under its position in `k/i`. -/

def scalarsOf : Outs → List Rat
  | [] => []
  | (_, .scalar r) :: t => r :: scalarsOf t
  | (_, .arr _) :: t => scalarsOf t

def arrsOf : Nat → Outs → List (Nat × Arr)
  | _, [] => []
  | off, (_, .scalar _) :: t => arrsOf (off + 1) t
  | off, (_, .arr a) :: t => (off, a) :: arrsOf (off + 1) t

/-- The scalar pairs of a list, in order. -/
def scalPairs : Outs → Outs
  | [] => []
  | (n, .scalar r) :: t => (n, .scalar r) :: scalPairs t
  | (_, .arr _) :: t => scalPairs t

/-- The array pairs of a list, in order. -/
def arrPairs : Outs → Outs
  | [] => []
  | (_, .scalar _) :: t => arrPairs t
  | (n, .arr a) :: t => (n, .arr a) :: arrPairs t

structure Layout (e : FEntry) (L : Outs) : Prop where
  keys : e.keys = L.map (·.1)
  scal : e.scal = scalarsOf L
  arrs : e.arrs = arrsOf 0 L

theorem scalarsOf_append (L M : Outs) : scalarsOf (L ++ M) = scalarsOf L ++ scalarsOf M := by
  induction L with
  | nil => rfl
  | cons nv t ih =>
    obtain ⟨n, v⟩ := nv
    cases v <;> simp [scalarsOf, ih]

theorem arrsOf_append (off : Nat) (L M : Outs) :
    arrsOf off (L ++ M) = arrsOf off L ++ arrsOf (off + L.length) M := by
  induction L generalizing off with
  | nil => simp [arrsOf]
  | cons nv t ih =>
    obtain ⟨n, v⟩ := nv
    cases v <;> simp [arrsOf, ih, Nat.add_assoc, Nat.add_comm 1]

theorem arrsOf_bounds {off : Nat} {L : Outs} {ja : Nat × Arr} (h : ja ∈ arrsOf off L) :
    off ≤ ja.1 ∧ ja.1 < off + L.length := by
  induction L generalizing off with
  | nil => simp [arrsOf] at h
  | cons nv t ih =>
    obtain ⟨n, v⟩ := nv
    cases v with
    | scalar r =>
      have := ih (off := off + 1) (by simpa [arrsOf] using h)
      simp only [List.length_cons]; omega
    | arr a =>
      simp only [arrsOf, List.mem_cons] at h
      rcases h with h | h
      · subst h; simp only [List.length_cons]; omega
      · have := ih (off := off + 1) h
        simp only [List.length_cons]; omega

theorem hasIdx_false_of_lt {arrs : List (Nat × Arr)} {j : Nat} (h : ∀ ja ∈ arrs, ja.1 < j) :
    hasIdx arrs j = false := by
  unfold hasIdx
  rw [List.any_eq_false]
  intro ja hja
  have := h ja hja
  simp; omega

/-- The placement loop, when the mapping sends the `i`-th name to position `off + i` and every
    array already in the sub-group sits below `off`: arrays land at their positions, scalars are
    collected in order, nothing raises. -/
theorem placeOutputs_spec (mapping : List (String × Nat)) (S : Outs) (off : Nat)
    (arrs0 : List (Nat × Arr))
    (hm : ∀ i (h : i < S.length), alook (S[i].1) mapping = some (off + i))
    (ha : ∀ ja ∈ arrs0, ja.1 < off) :
    placeOutputs mapping arrs0 S = some (arrs0 ++ arrsOf off S, scalarsOf S) := by
  induction S generalizing off arrs0 with
  | nil => simp [placeOutputs, arrsOf, scalarsOf]
  | cons nv t ih =>
    obtain ⟨n, v⟩ := nv
    have h0 : alook n mapping = some off := by simpa using hm 0 (by simp)
    have hm' : ∀ i (h : i < t.length), alook (t[i].1) mapping = some (off + 1 + i) := by
      intro i h
      have := hm (i + 1) (by simp; omega)
      simpa [Nat.add_assoc, Nat.add_comm 1] using this
    cases v with
    | scalar r =>
      have := ih (off + 1) arrs0 hm' (fun ja h => by have := ha ja h; omega)
      simp [placeOutputs, h0, this, arrsOf, scalarsOf]
    | arr a =>
      have hf : hasIdx arrs0 off = false := hasIdx_false_of_lt ha
      have := ih (off + 1) (arrs0 ++ [(off, a)]) hm' (by
        intro ja h
        rcases List.mem_append.mp h with h | h
        · have := ha ja h; omega
        · simp only [List.mem_singleton] at h; subst h; simp)
      simp [placeOutputs, h0, hf, this, arrsOf, scalarsOf]

theorem alook_zip_range' (names : List String) (nd : names.Nodup) (off m i : Nat)
    (hi : i < names.length) (hm : i < m) :
    alook names[i] (names.zip (List.range' off m)) = some (off + i) := by
  induction names generalizing off m i with
  | nil => simp at hi
  | cons a t ih =>
    cases m with
    | zero => omega
    | succ m =>
      simp only [List.range'_succ, List.zip_cons_cons, alook_cons]
      cases i with
      | zero => simp
      | succ i =>
        simp only [List.nodup_cons] at nd
        simp only [List.length_cons] at hi
        have hne : ¬ a = t[i] := fun e => nd.1 (e ▸ List.getElem_mem _)
        simp only [List.getElem_cons_succ, hne, if_false]
        rw [ih nd.2 (off + 1) m i (by omega) (by omega)]
        congr 1; omega

/-- `__create_hdf_input_output`: the new entry is laid out as the outputs sorted by name. -/
theorem createEntry_layout (p : Pt) (o : Outs) (nd : (o.map (·.1)).Nodup) :
    ∃ e, createEntry p o = some e ∧ e.x = p ∧ Layout e (sortOuts o) := by
  have hs := sortOuts_keys_nodup nd
  have hspec := placeOutputs_spec (((sortOuts o).map (·.1)).zip (List.range o.length)) (sortOuts o) 0 []
    (by
      intro i h
      have h' : i < ((sortOuts o).map (·.1)).length := by simpa using h
      have := alook_zip_range' ((sortOuts o).map (·.1)) hs 0 o.length i h'
        (by rw [sortOuts_length] at h; exact h)
      simpa [List.range_eq_range'] using this)
    (by simp)
  refine ⟨{ x := p, keys := (sortOuts o).map (·.1), scal := scalarsOf (sortOuts o),
            arrs := arrsOf 0 (sortOuts o) }, ?_, rfl, ⟨rfl, rfl, rfl⟩⟩
  unfold createEntry addOutputs
  simp only [List.isEmpty_nil, if_true]
  simp [hspec]

/-- Counting: if the names already in the file are distinct and all among the (distinct) names
    of the database outputs, the missing outputs are exactly `len(outputs) - len(existing)` many. -/
theorem missing_length_le (keys : List String) (outs : Outs) (hk : keys.Nodup)
    (hsub : ∀ n ∈ keys, n ∈ outs.map (·.1)) (nd : (outs.map (·.1)).Nodup) :
    keys.length + (outs.filter (fun nv => !(keys.contains nv.1))).length ≤ outs.length := by
  have hlen := List.length_eq_length_filter_add (l := outs) (fun nv => keys.contains nv.1)
  have hsubp : keys.Subperm ((outs.filter (fun nv => keys.contains nv.1)).map (·.1)) := by
    apply List.subperm_of_subset hk
    intro n hn
    obtain ⟨nv, hnv, e⟩ := List.mem_map.mp (hsub n hn)
    exact List.mem_map.mpr ⟨nv, List.mem_filter.mpr ⟨hnv, by simp [e, hn]⟩, e⟩
  have := hsubp.length_le
  simp only [List.length_map] at this
  omega

/-- `__append_hdf_output` on a laid-out entry whose names are among the database outputs: the
    missing outputs, sorted by name, are appended to the layout; nothing raises. -/
theorem appendOutput_layout (e : FEntry) (L outs : Outs) (hL : Layout e L)
    (ndL : (L.map (·.1)).Nodup) (hsub : ∀ n ∈ L.map (·.1), n ∈ outs.map (·.1))
    (nd : (outs.map (·.1)).Nodup) :
    ∃ e', appendOutput e outs = some e' ∧ e'.x = e.x ∧
      Layout e' (L ++ sortOuts (outs.filter (fun nv => !((L.map (·.1)).contains nv.1)))) := by
  unfold appendOutput
  rw [hL.keys]
  generalize hmiss : outs.filter (fun nv => !((L.map (·.1)).contains nv.1)) = missing
  by_cases hem : missing.isEmpty = true
  · have : missing = [] := List.isEmpty_iff.mp hem
    subst this
    refine ⟨e, by simp, rfl, ?_⟩
    have : sortOuts [] = [] := by simp [sortOuts]
    rw [this, List.append_nil]; exact hL
  · simp only [hem, if_false, Bool.false_eq_true]
    have hne : missing ≠ [] := fun h => hem (by simp [h])
    have ndm : (missing.map (·.1)).Nodup := by
      rw [← hmiss]; exact (List.filter_sublist.map _).nodup nd
    have hs := sortOuts_keys_nodup ndm
    have hcount := missing_length_le (L.map (·.1)) outs ndL hsub nd
    rw [hmiss] at hcount
    simp only [List.length_map] at hcount ⊢
    -- the mapping is non-empty, so it is the one used
    have hmlen : 0 < missing.length := List.length_pos_iff.mpr hne
    set ids := List.range' L.length (outs.length - L.length) with hids
    set mapping := ((sortOuts missing).map (·.1)).zip ids with hmap
    have hnotempty : mapping.isEmpty = false := by
      have : 0 < mapping.length := by
        simp only [hmap, hids, List.length_zip, List.length_map, sortOuts_length, List.length_range']
        omega
      cases hm : mapping with
      | nil => simp [hm] at this
      | cons _ _ => rfl
    have hspec := placeOutputs_spec mapping (sortOuts missing) L.length e.arrs
      (by
        intro i h
        have h' : i < ((sortOuts missing).map (·.1)).length := by simpa using h
        have := alook_zip_range' ((sortOuts missing).map (·.1)) hs L.length (outs.length - L.length) i h'
          (by rw [sortOuts_length] at h; omega)
        simpa [hmap, hids] using this)
      (by
        intro ja hja
        rw [hL.arrs] at hja
        have := arrsOf_bounds hja
        omega)
    refine ⟨{ x := e.x, keys := L.map (·.1) ++ (sortOuts missing).map (·.1),
              scal := e.scal ++ scalarsOf (sortOuts missing),
              arrs := e.arrs ++ arrsOf L.length (sortOuts missing) }, ?_, rfl, ?_⟩
    · unfold addOutputs
      simp only [hnotempty, Bool.false_eq_true, if_false, hspec, hL.keys]
    · refine ⟨by simp, ?_, ?_⟩
      · simp [scalarsOf_append, hL.scal]
      · simp [arrsOf_append, hL.arrs]

end GV.C11
