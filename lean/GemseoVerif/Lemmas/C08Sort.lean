/-
C08 helper lemmas: `sortDedup` (the model of `sorted(set(...))`) returns a strictly increasing
list with the same members.
-/
import GemseoVerif.Model.C08
import Mathlib.Data.String.Basic
import Mathlib.Data.List.Pairwise

namespace GV.C08

theorem mem_insertUniq {x y : String} {l : List String} :
    y ∈ insertUniq x l ↔ y = x ∨ y ∈ l := by
  induction l with
  | nil => simp [insertUniq]
  | cons z zs ih =>
    simp only [insertUniq]
    split
    · simp
    · split
      · rename_i _ heq
        subst heq
        simp
      · simp only [List.mem_cons, ih]
        constructor
        · rintro (h | h | h)
          · exact Or.inr (Or.inl h)
          · exact Or.inl h
          · exact Or.inr (Or.inr h)
        · rintro (h | h | h)
          · exact Or.inr (Or.inl h)
          · exact Or.inl h
          · exact Or.inr (Or.inr h)

theorem sorted_insertUniq {x : String} {l : List String} (h : l.Pairwise (· < ·)) :
    (insertUniq x l).Pairwise (· < ·) := by
  induction l with
  | nil => simp [insertUniq]
  | cons z zs ih =>
    simp only [insertUniq]
    rw [List.pairwise_cons] at h
    split
    · rename_i hlt
      refine List.Pairwise.cons ?_ (List.Pairwise.cons h.1 h.2)
      intro a ha
      rcases List.mem_cons.1 ha with rfl | ha
      · exact hlt
      · exact lt_trans hlt (h.1 a ha)
    · split
      · exact List.Pairwise.cons h.1 h.2
      · rename_i hnlt hne
        refine List.Pairwise.cons ?_ (ih h.2)
        intro a ha
        rcases mem_insertUniq.1 ha with rfl | ha
        · exact lt_of_le_of_ne (not_lt.1 hnlt) (fun e => hne e.symm)
        · exact h.1 a ha

theorem mem_sortDedup {y : String} {l : List String} : y ∈ sortDedup l ↔ y ∈ l := by
  induction l with
  | nil => simp [sortDedup]
  | cons z zs ih =>
    have : sortDedup (z :: zs) = insertUniq z (sortDedup zs) := rfl
    rw [this, mem_insertUniq, ih, List.mem_cons]

theorem sorted_sortDedup (l : List String) : (sortDedup l).Pairwise (· < ·) := by
  induction l with
  | nil => simp [sortDedup]
  | cons z zs ih =>
    have : sortDedup (z :: zs) = insertUniq z (sortDedup zs) := rfl
    rw [this]
    exact sorted_insertUniq ih

theorem nodup_sortDedup (l : List String) : (sortDedup l).Nodup :=
  (sorted_sortDedup l).imp (fun h => ne_of_lt h)

end GV.C08
