/-
C10 — restriction of a function to some of its inputs is the composition with an affine map:
the frozen inputs are constants, the active ones are copied. Hence the exact Jacobian of the
restriction is made of the columns of the active inputs (`FunctionRestriction._jac_to_wrap`),
and `MDOLinearFunction.restrict` computes the same function as the generic restriction.
-/
import GemseoVerif.Lemmas.C10Calculus
import Mathlib.Data.List.Nodup
import Mathlib.Data.List.GetD

namespace GV.C10

variable {𝕜 : Type} [NontriviallyNormedField 𝕜]

/-! ### Index bookkeeping -/

theorem nodup_getD_eq_iff (l : List ℕ) (hnd : l.Nodup) (j : ℕ) (hj : j < l.length) (k : ℕ) :
    k = l.getD j 0 ↔ (k ∈ l ∧ j = l.idxOf k) := by
  rw [List.getD_eq_getElem l 0 hj]
  constructor
  · intro h
    have hk : k ∈ l := h ▸ List.getElem_mem hj
    refine ⟨hk, ?_⟩
    have hlt : l.idxOf k < l.length := List.idxOf_lt_length_of_mem hk
    have h1 : l[l.idxOf k] = k := List.getElem_idxOf hlt
    have : l[j] = l[l.idxOf k] := by rw [h1, h]
    exact (hnd.getElem_inj_iff).1 this
  · rintro ⟨hk, rfl⟩
    exact (List.getElem_idxOf (List.idxOf_lt_length_of_mem hk)).symm

/-- A sum over the positions of a duplicate-free list selecting the position of `k`. -/
theorem sumTo_select (l : List ℕ) (hnd : l.Nodup) (k : ℕ) (g : ℕ → 𝕜) :
    sumTo l.length (fun j => if k = l.getD j 0 then g j else 0)
      = if k ∈ l then g (l.idxOf k) else 0 := by
  by_cases hk : k ∈ l
  · rw [if_pos hk]
    have hlt : l.idxOf k < l.length := List.idxOf_lt_length_of_mem hk
    rw [← sumTo_ite_eq l.length (l.idxOf k) hlt g]
    refine sumTo_congr (fun j hj => ?_)
    have := nodup_getD_eq_iff l hnd j hj k
    by_cases h : k = l.getD j 0
    · rw [if_pos h, if_pos (this.1 h).2]
    · rw [if_neg h]
      have : ¬ j = l.idxOf k := fun hh => h (this.2 ⟨hk, hh⟩)
      rw [if_neg this]
  · rw [if_neg hk]
    have e : sumTo l.length (fun j => if k = l.getD j 0 then g j else 0)
        = sumTo l.length (fun _ => (0 : 𝕜)) := by
      refine sumTo_congr (fun j hj => ?_)
      have := nodup_getD_eq_iff l hnd j hj k
      have : ¬ k = l.getD j 0 := fun h => hk (this.1 h).1
      rw [if_neg this]
    rw [e, sumTo_zero_fn]

theorem mem_activeIdx {N : ℕ} {fz : List ℕ} {k : ℕ} : k ∈ activeIdx N fz ↔ k < N ∧ k ∉ fz := by
  simp [activeIdx, List.mem_filter, List.mem_range]

theorem nodup_activeIdx (N : ℕ) (fz : List ℕ) : (activeIdx N fz).Nodup :=
  List.Nodup.filter _ List.nodup_range

theorem activeIdx_getD_lt {N : ℕ} {fz : List ℕ} {j : ℕ} (hj : j < (activeIdx N fz).length) :
    (activeIdx N fz).getD j 0 < N := by
  rw [List.getD_eq_getElem _ 0 hj]
  exact (mem_activeIdx.1 (List.getElem_mem hj)).1

/-! ### The extension of a point is an affine map -/

/-- Selection matrix of the active inputs (`N x n`). -/
def selMat (N : ℕ) (fz : List ℕ) : ℕ → ℕ → 𝕜 :=
  fun k j => if k = (activeIdx N fz).getD j 0 then 1 else 0

/-- Constant part: the frozen values at the frozen positions. -/
def frozenVec (N : ℕ) (fz : List ℕ) (vals : List 𝕜) : ℕ → 𝕜 :=
  fun k => if k < N then sumTo fz.length (fun k' => if k = fz.getD k' 0 then vec vals k' else 0) else 0

theorem extendPt_affine {n N : ℕ} {fz : List ℕ} (vals : List 𝕜) (hnd : fz.Nodup)
    (hn : (activeIdx N fz).length = n) (x : ℕ → 𝕜) (k : ℕ) :
    extendPt N fz vals x k = matVec n (selMat N fz) x k + frozenVec N fz vals k := by
  have hmv : matVec n (selMat (𝕜 := 𝕜) N fz) x k
      = if k ∈ activeIdx N fz then x ((activeIdx N fz).idxOf k) else 0 := by
    rw [← sumTo_select (activeIdx N fz) (nodup_activeIdx N fz) k x, hn]
    simp only [matVec, selMat]
    exact sumTo_congr (fun j _ => by split <;> simp)
  rw [hmv]
  simp only [extendPt, frozenVec]
  by_cases hk : k < N
  · simp only [hk, if_true]
    rw [sumTo_select fz hnd k (vec vals)]
    by_cases hf : k ∈ fz
    · have : k ∉ activeIdx N fz := fun h => (mem_activeIdx.1 h).2 hf
      simp [hf, this]
    · have : k ∈ activeIdx N fz := mem_activeIdx.2 ⟨hk, hf⟩
      simp [hf, this]
  · have : k ∉ activeIdx N fz := fun h => hk (mem_activeIdx.1 h).1
    simp [hk, this]

/-- The columns of the active inputs are `J . S` for the selection matrix `S`. -/
theorem rightMul_selMat {n N : ℕ} {fz : List ℕ} (hn : (activeIdx N fz).length = n)
    (r : ℕ → 𝕜) {j : ℕ} (hj : j < n) :
    sumTo N (fun k => r k * selMat N fz k j) = r ((activeIdx N fz).getD j 0) := by
  have hlt : (activeIdx N fz).getD j 0 < N := activeIdx_getD_lt (by omega)
  rw [← sumTo_ite_eq N _ hlt r]
  refine sumTo_congr (fun k _ => ?_)
  simp only [selMat]
  split <;> simp

/-- Same value and same Jacobian entries inside the shape: same denotation. -/
theorem Den.congr_dv {n : ℕ} {x : ℕ → 𝕜} {d d' : DV 𝕜} {F : (ℕ → 𝕜) → ℕ → 𝕜} {M : ℕ}
    (h : Den n x d F M) (hm : d'.m = d.m) (hv : ∀ i, i < M → d'.val i = d.val i)
    (hj : ∀ i j, i < M → j < n → d'.jac i j = d.jac i j) : Den n x d' F M := by
  refine ⟨hm.trans h.dim, fun i hi => ⟨(hv i hi).trans (h.val_eq hi), fun v => ?_⟩⟩
  refine (h.deriv hi v).congr_deriv ?_
  simp only [rowDot]
  exact sumTo_congr (fun j hjn => by rw [hj i j hi hjn])

/-- `FunctionRestriction`: the Jacobian of `x ↦ f(extend x)` is made of the active columns. -/
theorem Den.restrict {n N : ℕ} {fz : List ℕ} {vals : List 𝕜} {x : ℕ → 𝕜} {d : DV 𝕜}
    {F : (ℕ → 𝕜) → ℕ → 𝕜} {M : ℕ} (hnd : fz.Nodup) (hn : (activeIdx N fz).length = n)
    (h : Den N (extendPt N fz vals x) d F M) :
    Den n x (d.restrictCols N fz) (fun y i => F (extendPt N fz vals y) i) M := by
  have hpt : ∀ y : ℕ → 𝕜, extendPt N fz vals y
      = fun k => matVec n (selMat N fz) y k + frozenVec N fz vals k :=
    fun y => funext (fun k => extendPt_affine vals hnd hn y k)
  rw [hpt x] at h
  have h2 := Den.comp_affine (selMat N fz) (frozenVec N fz vals) h
  have h3 : Den n x (d.rightMul N (selMat N fz)) (fun y i => F (extendPt N fz vals y) i) M :=
    h2.congr (fun y i _ => by rw [hpt y])
  refine h3.congr_dv rfl (fun i _ => rfl) (fun i j _ hj => ?_)
  simp only [DV.restrictCols, DV.rightMul]
  exact (rightMul_selMat hn (d.jac i) hj).symm

/-- `MDOLinearFunction.restrict` computes the restriction of the linear function. -/
theorem LinF.restrict_fn {N : ℕ} (L : LinF 𝕜) (hL : L.n = N) {fz : List ℕ} (vals : List 𝕜)
    (hnd : fz.Nodup) (hlt : ∀ k ∈ fz, k < N) (hn : (activeIdx N fz).length = N - fz.length)
    (y : ℕ → 𝕜) (i : ℕ) :
    (L.restrict fz vals).fn y i = L.fn (extendPt N fz vals y) i := by
  subst hL
  have hpt : extendPt L.n fz vals y
      = fun k => matVec (L.n - fz.length) (selMat L.n fz) y k + frozenVec L.n fz vals k :=
    funext (fun k => extendPt_affine vals hnd hn y k)
  simp only [LinF.fn, LinF.restrict]
  rw [hpt]
  -- split the sum over the N inputs into the active part and the frozen part
  have e0 : (fun k => L.A i k * (matVec (L.n - fz.length) (selMat L.n fz) y k + frozenVec L.n fz vals k))
      = fun k => L.A i k * matVec (L.n - fz.length) (selMat L.n fz) y k + L.A i k * frozenVec L.n fz vals k := by
    funext k; ring
  rw [e0, sumTo_add]
  have e1 : sumTo L.n (fun k => L.A i k * matVec (L.n - fz.length) (selMat L.n fz) y k)
      = sumTo (L.n - fz.length) (fun j => L.A i ((activeIdx L.n fz).getD j 0) * y j) := by
    have : (fun k => L.A i k * matVec (L.n - fz.length) (selMat L.n fz) y k)
        = fun k => sumTo (L.n - fz.length) (fun j => L.A i k * selMat L.n fz k j * y j) := by
      funext k
      simp only [matVec]
      rw [← sumTo_mul_left]
      exact sumTo_congr (fun j _ => by ring)
    rw [this, sumTo_comm]
    refine sumTo_congr (fun j hj => ?_)
    rw [← rightMul_selMat hn (L.A i) hj, ← sumTo_mul_right]
  have e2 : sumTo L.n (fun k => L.A i k * frozenVec L.n fz vals k)
      = sumTo fz.length (fun k' => L.A i (fz.getD k' 0) * vec vals k') := by
    have : ∀ k, k < L.n → L.A i k * frozenVec L.n fz vals k
        = sumTo fz.length (fun k' => if k = fz.getD k' 0 then L.A i k * vec vals k' else 0) := by
      intro k hk
      simp only [frozenVec, hk, if_true]
      rw [← sumTo_mul_left]
      exact sumTo_congr (fun k' _ => by split <;> simp)
    rw [sumTo_congr this, sumTo_comm]
    refine sumTo_congr (fun k' hk' => ?_)
    have hmem : fz.getD k' 0 ∈ fz := by
      rw [List.getD_eq_getElem _ 0 hk']; exact List.getElem_mem hk'
    have hlt' : fz.getD k' 0 < L.n := hlt _ hmem
    rw [← sumTo_ite_eq L.n (fz.getD k' 0) hlt' (fun k => L.A i k * vec vals k')]
  rw [e1, e2]
  ring

end GV.C10
