/-
C15 — every single-grammar operation of the model preserves the invariant
`Inv = WF ∧ CacheOK` (required names and defaults refer to elements; the lazily built schema and
validator are absent or were built from the current elements).
-/
import GemseoVerif.Lemmas.C15

namespace GV.C15

def Grammar.Inv (g : Grammar) : Prop := g.WF ∧ g.CacheOK

theorem WF_transfer (g g' : Grammar) (hr : ∀ x ∈ g'.required, x ∈ g.required)
    (hd : ∀ x ∈ akeys g'.defaults, x ∈ akeys g.defaults)
    (hk : ∀ x ∈ g.keys, x ∈ g'.keys) (h : g.WF) : g'.WF :=
  ⟨fun r hr' => hk r (h.1 r (hr r hr')), fun d hd' => hk d (h.2 d (hd d hd'))⟩

theorem WF_reqAddAll (g : Grammar) (names : List Name) (h : g.WF) : (reqAddAll g names).WF := by
  refine ⟨fun r hr => ?_, fun d hd => ?_⟩
  · rcases (mem_reqAddAll g names r).mp hr with h' | h'
    · exact h.1 r h'
    · exact h'.2
  · exact h.2 d hd

theorem WF_setDefaultsChecked (g : Grammar) (l : List (Name × String)) (h : g.WF) :
    (setDefaultsChecked g l).WF := by
  refine ⟨fun r hr => h.1 r hr, fun d hd => ?_⟩
  rcases setDefaultsChecked_defaults_sub g l d hd with h' | h'
  · exact h.2 d h'
  · exact h'

theorem CacheOK_resetCaches (g : Grammar) : g.resetCaches.CacheOK :=
  ⟨Or.inl rfl, Or.inl rfl⟩

theorem CacheOK_transfer (g g' : Grammar) (he : g'.elems = g.elems) (hs : g'.schemaC = g.schemaC)
    (hv : g'.validC = g.validC) (h : g.CacheOK) : g'.CacheOK := by
  unfold Grammar.CacheOK at *
  rw [he, hs, hv]
  exact h

theorem Inv_reqAddAll (g : Grammar) (names : List Name) (h : g.Inv) : (reqAddAll g names).Inv :=
  ⟨WF_reqAddAll g names h.1, CacheOK_transfer g _ rfl rfl rfl h.2⟩

theorem Inv_setDefaultsChecked (g : Grammar) (l : List (Name × String)) (h : g.Inv) :
    (setDefaultsChecked g l).Inv :=
  ⟨WF_setDefaultsChecked g l h.1, CacheOK_transfer g _ rfl rfl rfl h.2⟩

/-- Replacing the elements by a superset of names (and resetting the lazily built objects)
    keeps the invariant; the builder's own required set is irrelevant. -/
theorem Inv_grow (g : Grammar) (e : List (Name × TS)) (b : Option (List Name))
    (hk : ∀ x ∈ g.keys, x ∈ akeys e) (h : g.Inv) :
    ({ g with elems := e, breq := b }.resetCaches).Inv :=
  ⟨WF_transfer g _ (fun _ hx => hx) (fun _ hx => hx) hk h.1, CacheOK_resetCaches _⟩

theorem Inv_fresh (k : Kind) : (Grammar.fresh k).Inv :=
  ⟨⟨fun r hr => by simp [Grammar.fresh] at hr, fun d hd => by simp [Grammar.fresh, akeys] at hd⟩,
   ⟨Or.inl rfl, Or.inl rfl⟩⟩

/-! ### the editing operations -/

theorem Inv_updateFromNames (g g' : Grammar) (names : List Name) (m : Bool) (h : g.Inv)
    (hok : updateFromNames g names m = .ok g') : g'.Inv := by
  unfold updateFromNames at hok
  split at hok
  · cases hok; exact h
  · split at hok
    · split at hok
      · cases hok
      · cases hok
        apply Inv_reqAddAll
        exact Inv_grow g (names.foldl (fun e n => aset e n (.py .ndarray)) g.elems) g.breq
          (fun x hx => (mem_akeys_foldl_aset (fun n => n) (fun _ => TS.py .ndarray) names g.elems x).mpr (Or.inl hx)) h
    · cases hok
      apply Inv_reqAddAll
      exact Inv_grow g _ (some [])
        (fun x hx => (mem_akeys_foldl_jsSet (fun n => n) (fun _ => arrNum) (!m) names g.elems x).mpr (Or.inl hx)) h

theorem Inv_updateFromTypes (g g' : Grammar) (l : List (Name × PyT)) (m : Bool) (h : g.Inv)
    (hok : updateFromTypes g l m = .ok g') : g'.Inv := by
  unfold updateFromTypes at hok
  split at hok
  · cases hok; exact h
  · split at hok
    · split at hok
      · cases hok
      · cases hok
        apply Inv_reqAddAll
        exact Inv_grow g _ g.breq
          (fun x hx => (mem_akeys_foldl_aset (fun p : Name × PyT => p.1) (fun p => TS.py p.2) l g.elems x).mpr (Or.inl hx)) h
    · split at hok
      · cases hok
      · cases hok
        apply Inv_reqAddAll
        exact Inv_grow g _ _
          (fun x hx => (mem_akeys_foldl_jsSet (fun p : Name × PyT => p.1)
            (fun p => (ofPy p.2).getD Node.any) (!m) l g.elems x).mpr (Or.inl hx)) h

theorem Inv_updateFromData (g g' : Grammar) (l : List (Name × Val)) (m : Bool) (h : g.Inv)
    (hok : updateFromData g l m = .ok g') : g'.Inv := by
  unfold updateFromData at hok
  split at hok
  · cases hok; exact h
  · split at hok
    · split at hok
      · cases hok
      · cases hok
        apply Inv_reqAddAll
        exact Inv_grow g _ g.breq
          (fun x hx => (mem_akeys_foldl_aset (fun p : Name × Val => p.1) (fun p => TS.py (typeOfVal p.2)) l g.elems x).mpr (Or.inl hx)) h
    · cases hok
      apply Inv_reqAddAll
      exact Inv_grow g _ (some [])
        (fun x hx => (mem_akeys_jsSetData (!m) g.elems l x).mpr (Or.inl hx)) h

theorem Inv_updateFromSchema (g g' : Grammar) (props : List (Name × Node)) (req : Option (List Name))
    (m : Bool) (h : g.Inv) (hok : updateFromSchema g props req m = .ok g') : g'.Inv := by
  unfold updateFromSchema at hok
  split at hok
  · cases hok
  · simp only at hok
    split at hok
    · cases hok
    · cases hok
      apply Inv_reqAddAll
      exact Inv_grow g _ _ (fun x hx => (mem_akeys_jsSetAll (!m) g.elems props x).mpr (Or.inl hx)) h

theorem Inv_restrictTo (g g' : Grammar) (names : List Name) (h : g.Inv)
    (hok : restrictTo g names = .ok g') : g'.Inv := by
  unfold restrictTo at hok
  split at hok
  · cases hok
  · cases hok
    refine ⟨⟨fun r hr => ?_, fun d hd => ?_⟩, CacheOK_resetCaches _⟩
    · simp only [Grammar.resetCaches, List.mem_filter, decide_eq_true_eq] at hr
      simp only [Grammar.resetCaches, Grammar.keys]
      exact (mem_akeys_filter g.elems (fun n => decide (n ∈ names)) r).mpr ⟨h.1.1 r hr.1, by simpa using hr.2⟩
    · simp only [Grammar.resetCaches] at hd
      have hd' := (mem_akeys_filter g.defaults (fun n => decide (n ∈ names)) d).mp hd
      simp only [Grammar.resetCaches, Grammar.keys]
      exact (mem_akeys_filter g.elems (fun n => decide (n ∈ names)) d).mpr ⟨h.1.2 d hd'.1, hd'.2⟩

theorem Inv_delItem (g g' : Grammar) (n : Name) (h : g.Inv) (hok : delItem g n = .ok g') : g'.Inv := by
  unfold delItem at hok
  split at hok
  · cases hok
  · cases hok
    refine ⟨⟨fun r hr => ?_, fun d hd => ?_⟩, CacheOK_resetCaches _⟩
    · simp only [Grammar.resetCaches] at hr
      have hr' := (mem_serase g.required n r).mp hr
      simp only [Grammar.resetCaches, Grammar.keys]
      exact (mem_akeys_aerase g.elems n r).mpr ⟨h.1.1 r hr'.1, hr'.2⟩
    · simp only [Grammar.resetCaches] at hd
      have hd' := (mem_akeys_aerase g.defaults n d).mp hd
      simp only [Grammar.resetCaches, Grammar.keys]
      exact (mem_akeys_aerase g.elems n d).mpr ⟨h.1.2 d hd'.1, hd'.2⟩

/-- Intermediate invariant of a renaming in progress: names refer to an element or to `cur`. -/
def WFup (g : Grammar) (cur : Name) (strictReq : Bool) : Prop :=
  (∀ r ∈ g.required, r ∈ g.keys ∨ (strictReq = false ∧ r = cur)) ∧
  (∀ d ∈ akeys g.defaults, d ∈ g.keys ∨ d = cur)

theorem WFup_renameRequired (g : Grammar) (cur new : Name) (h : WFup g cur false) :
    WFup (renameRequired g cur new) cur true := by
  unfold renameRequired
  split
  · refine ⟨fun r hr => ?_, fun d hd => h.2 d hd⟩
    rcases (mem_reqAddAll _ [new] r).mp hr with h' | h'
    · have h'' := (mem_serase g.required cur r).mp h'
      rcases h.1 r h''.1 with h3 | h3
      · exact Or.inl h3
      · exact absurd h3.2 h''.2
    · exact Or.inl h'.2
  · rename_i hcr
    refine ⟨fun r hr => ?_, fun d hd => h.2 d hd⟩
    rcases h.1 r hr with h3 | h3
    · exact Or.inl h3
    · exact absurd (h3.2 ▸ hr) hcr

theorem renameRequired_same (g : Grammar) (cur new : Name) :
    (renameRequired g cur new).elems = g.elems ∧ (renameRequired g cur new).schemaC = g.schemaC ∧
    (renameRequired g cur new).validC = g.validC ∧ (renameRequired g cur new).defaults = g.defaults := by
  unfold renameRequired
  split <;> exact ⟨rfl, rfl, rfl, rfl⟩

theorem WF_renameDefault (g : Grammar) (cur new : Name) (h : WFup g cur true) :
    (renameDefault g cur new).WF := by
  have hreq : ∀ r ∈ g.required, r ∈ g.keys := fun r hr => by
    rcases h.1 r hr with h' | h'
    · exact h'
    · exact absurd h'.1 (by simp)
  unfold renameDefault
  split
  · rename_i hl
    refine ⟨hreq, fun d hd => ?_⟩
    rcases h.2 d hd with h' | h'
    · exact h'
    · exact absurd (h' ▸ hd) ((alookup_none_iff g.defaults cur).mp hl)
  · apply WF_setDefaultsChecked
    refine ⟨hreq, fun d hd => ?_⟩
    have hd' := (mem_akeys_aerase g.defaults cur d).mp hd
    rcases h.2 d hd'.1 with h' | h'
    · exact h'
    · exact absurd h' hd'.2

theorem renameDefault_same (g : Grammar) (cur new : Name) :
    (renameDefault g cur new).elems = g.elems ∧ (renameDefault g cur new).schemaC = g.schemaC ∧
    (renameDefault g cur new).validC = g.validC := by
  unfold renameDefault
  split <;> exact ⟨rfl, rfl, rfl⟩

theorem Inv_renameElement (g g' : Grammar) (cur new : Name) (h : g.Inv)
    (hok : renameElement g cur new = .ok g') : g'.Inv := by
  unfold renameElement at hok
  split at hok
  · cases hok
  · rename_i hc
    have hc' : cur ∈ akeys g.elems := by simpa [Grammar.keys] using hc
    cases hok
    have key : ∀ x, x ∈ akeys (amove g.elems cur new) ↔ (x ∈ akeys g.elems ∧ x ≠ cur) ∨ x = new :=
      fun x => mem_akeys_amove g.elems cur new x hc'
    have h0 : WFup ({ g with elems := amove g.elems cur new }.resetCaches) cur false := by
      refine ⟨fun r hr => ?_, fun d hd => ?_⟩
      · by_cases hrc : r = cur
        · exact Or.inr ⟨rfl, hrc⟩
        · exact Or.inl ((key r).mpr (Or.inl ⟨h.1.1 r hr, hrc⟩))
      · by_cases hdc : d = cur
        · exact Or.inr hdc
        · exact Or.inl ((key d).mpr (Or.inl ⟨h.1.2 d hd, hdc⟩))
    have h1 := WFup_renameRequired _ cur new h0
    refine ⟨WF_renameDefault _ cur new h1, ?_⟩
    have s1 := renameRequired_same ({ g with elems := amove g.elems cur new }.resetCaches) cur new
    have s2 := renameDefault_same (renameRequired ({ g with elems := amove g.elems cur new }.resetCaches) cur new) cur new
    apply CacheOK_transfer ({ g with elems := amove g.elems cur new }.resetCaches)
    · rw [s2.1, s1.1]
    · rw [s2.2.1, s1.2.1]
    · rw [s2.2.2, s1.2.2.1]
    · exact CacheOK_resetCaches _

theorem Inv_addNamespace (g g' : Grammar) (n ns : Name) (h : g.Inv)
    (hok : addNamespace g n ns = .ok g') : g'.Inv := by
  unfold addNamespace at hok
  split at hok
  · cases hok
  · split at hok
    · cases hok
    · simp only at hok
      split at hok
      · cases hok
      · rename_i g1 hren
        cases hok
        have h1 := Inv_renameElement g g1 n _ h hren
        exact ⟨WF_transfer g1 _ (fun _ hx => hx) (fun _ hx => hx) (fun _ hx => hx) h1.1,
               CacheOK_transfer g1 _ rfl rfl rfl h1.2⟩

theorem Inv_setDefault (g g' : Grammar) (n : Name) (v : String) (h : g.Inv)
    (hok : setDefault g n v = .ok g') : g'.Inv := by
  unfold setDefault at hok
  split at hok
  · rename_i hn
    cases hok
    refine ⟨⟨h.1.1, fun d hd => ?_⟩, CacheOK_transfer g _ rfl rfl rfl h.2⟩
    rcases (mem_akeys_aset g.defaults n v d).mp hd with h' | h'
    · exact h.1.2 d h'
    · subst h'; exact hn
  · cases hok

theorem Inv_popDefault (g : Grammar) (n : Name) (h : g.Inv) : (popDefault g n).Inv :=
  ⟨⟨h.1.1, fun d hd => h.1.2 d ((mem_akeys_aerase g.defaults n d).mp hd).1⟩,
   CacheOK_transfer g _ rfl rfl rfl h.2⟩

theorem mem_akeys_foldl_aset' (l : List (Name × String)) (d : List (Name × String)) (x : Name) :
    x ∈ akeys (l.foldl (fun d p => aset d p.1 p.2) d) ↔ x ∈ akeys d ∨ x ∈ akeys l := by
  induction l generalizing d with
  | nil => simp [akeys]
  | cons p t ih =>
    rw [List.foldl_cons, ih, mem_akeys_aset]
    have hk : akeys (p :: t) = p.1 :: akeys t := rfl
    rw [hk, List.mem_cons]
    constructor
    · rintro ((h | h) | h)
      · exact Or.inl h
      · exact Or.inr (Or.inl h)
      · exact Or.inr (Or.inr h)
    · rintro (h | h | h)
      · exact Or.inl (Or.inl h)
      · exact Or.inl (Or.inr h)
      · exact Or.inr h

theorem Inv_assignDefaults (g g' : Grammar) (l : List (Name × String)) (h : g.Inv)
    (hok : assignDefaults g l = .ok g') : g'.Inv := by
  unfold assignDefaults at hok
  split at hok
  · cases hok
  · rename_i hall
    cases hok
    refine ⟨⟨h.1.1, fun d hd => ?_⟩, CacheOK_transfer g _ rfl rfl rfl h.2⟩
    rcases (mem_akeys_foldl_aset' l [] d).mp hd with h' | h'
    · simp [akeys] at h'
    · simp only [List.any_eq_true, decide_eq_true_eq, not_exists, not_and, Decidable.not_not] at hall
      obtain ⟨p, hp, rfl⟩ := List.mem_map.mp h'
      exact hall p hp

theorem Inv_reqAdd (g g' : Grammar) (n : Name) (h : g.Inv) (hok : reqAdd g n = .ok g') : g'.Inv := by
  unfold reqAdd at hok
  split at hok
  · rename_i hn
    cases hok
    refine ⟨⟨fun r hr => ?_, h.1.2⟩, CacheOK_transfer g _ rfl rfl rfl h.2⟩
    rcases (mem_sinsert g.required n r).mp hr with h' | h'
    · exact h.1.1 r h'
    · subst h'; exact hn
  · cases hok

theorem Inv_reqDiscard (g : Grammar) (n : Name) (h : g.Inv) : (reqDiscard g n).Inv :=
  ⟨⟨fun r hr => h.1.1 r ((mem_serase g.required n r).mp hr).1, h.1.2⟩,
   CacheOK_transfer g _ rfl rfl rfl h.2⟩

/-! ### the other public ways of writing defaults and required names -/

theorem Inv_updateDefaults (g : Grammar) (l : List (Name × String)) (h : g.Inv) :
    (updateDefaults g l).1.Inv := by
  induction l generalizing g with
  | nil => exact h
  | cons p t ih =>
    unfold updateDefaults
    split
    · rename_i hp
      apply ih
      exact Inv_setDefault g _ p.1 p.2 h (by unfold setDefault; simp [hp])
    · exact h

theorem updateDefaults_same (g : Grammar) (l : List (Name × String)) :
    (updateDefaults g l).1.elems = g.elems ∧ (updateDefaults g l).1.required = g.required ∧
    (updateDefaults g l).1.kind = g.kind ∧ (updateDefaults g l).1.toNs = g.toNs ∧
    (updateDefaults g l).1.fromNs = g.fromNs := by
  induction l generalizing g with
  | nil => exact ⟨rfl, rfl, rfl, rfl, rfl⟩
  | cons p t ih =>
    unfold updateDefaults
    split
    · exact ih _
    · exact ⟨rfl, rfl, rfl, rfl, rfl⟩

theorem Inv_clearDefaults (g : Grammar) (h : g.Inv) : (clearDefaults g).Inv :=
  ⟨⟨h.1.1, fun d hd => by simp [clearDefaults, akeys] at hd⟩, CacheOK_transfer g _ rfl rfl rfl h.2⟩

theorem Inv_reqRemove (g g' : Grammar) (n : Name) (h : g.Inv) (hok : reqRemove g n = .ok g') : g'.Inv := by
  unfold reqRemove at hok
  split at hok
  · cases hok; exact Inv_reqDiscard g n h
  · cases hok

theorem Inv_reqClear (g : Grammar) (h : g.Inv) : (reqClear g).Inv :=
  ⟨⟨fun r hr => by simp [reqClear] at hr, h.1.2⟩, CacheOK_transfer g _ rfl rfl rfl h.2⟩

theorem Inv_reqUpdate (g : Grammar) (l : List Name) (h : g.Inv) : (reqUpdate g l).1.Inv := by
  induction l generalizing g with
  | nil => exact h
  | cons n t ih =>
    unfold reqUpdate
    split
    · rename_i hn
      apply ih
      exact Inv_reqAdd g _ n h (by unfold reqAdd; simp [hn])
    · exact h

theorem reqUpdate_same (g : Grammar) (l : List Name) :
    (reqUpdate g l).1.elems = g.elems ∧ (reqUpdate g l).1.defaults = g.defaults ∧
    (reqUpdate g l).1.kind = g.kind := by
  induction l generalizing g with
  | nil => exact ⟨rfl, rfl, rfl⟩
  | cons n t ih =>
    unfold reqUpdate
    split
    · exact ih _
    · exact ⟨rfl, rfl, rfl⟩

theorem Inv_reqSub (g : Grammar) (l : List Name) (h : g.Inv) : (reqSub g l).Inv :=
  ⟨⟨fun r hr => h.1.1 r (List.mem_filter.mp hr).1, h.1.2⟩, CacheOK_transfer g _ rfl rfl rfl h.2⟩

theorem Inv_reqAnd (g : Grammar) (l : List Name) (h : g.Inv) : (reqAnd g l).Inv :=
  ⟨⟨fun r hr => h.1.1 r (List.mem_filter.mp hr).1, h.1.2⟩, CacheOK_transfer g _ rfl rfl rfl h.2⟩

/-! ### the lazily built objects -/

theorem Inv_fillSchema (g : Grammar) (h : g.Inv) : g.fillSchema.Inv := by
  unfold Grammar.fillSchema
  split
  · exact ⟨WF_transfer g _ (fun _ hx => hx) (fun _ hx => hx) (fun _ hx => hx) h.1,
           ⟨Or.inr rfl, h.2.2⟩⟩
  · exact h

theorem fillSchema_pub (g : Grammar) : g.fillSchema.pub = g.pub := by
  unfold Grammar.fillSchema
  split <;> rfl

theorem Inv_ensureValidator (g : Grammar) (h : g.Inv) : g.ensureValidator.Inv := by
  unfold Grammar.ensureValidator
  split
  · have h1 := Inv_fillSchema g h
    refine ⟨WF_transfer g.fillSchema _ (fun _ hx => hx) (fun _ hx => hx) (fun _ hx => hx) h1.1, ⟨h1.2.1, ?_⟩⟩
    right
    rcases h1.2.1 with hs | hs
    · simp [hs]
    · simp [hs]
  · exact h

theorem ensureValidator_pub (g : Grammar) : g.ensureValidator.pub = g.pub := by
  unfold Grammar.ensureValidator
  split
  · have := fillSchema_pub g
    simpa [Grammar.pub] using this
  · rfl

theorem CacheOK_fillSchema (g : Grammar) (h : g.CacheOK) : g.fillSchema.CacheOK := by
  unfold Grammar.fillSchema
  split
  · exact ⟨Or.inr rfl, h.2⟩
  · exact h

theorem CacheOK_ensureValidator (g : Grammar) (h : g.CacheOK) : g.ensureValidator.CacheOK := by
  unfold Grammar.ensureValidator
  split
  · have h1 := CacheOK_fillSchema g h
    refine ⟨h1.1, ?_⟩
    right
    rcases h1.1 with hs | hs
    · simp [hs]
    · simp [hs]
  · exact h

theorem Inv_validate (g : Grammar) (d : List (Name × Val)) (h : g.Inv) : (validate g d).2.Inv := by
  unfold validate
  split
  · exact h
  · split
    · exact h
    · exact Inv_ensureValidator g h

theorem validate_pub (g : Grammar) (d : List (Name × Val)) : (validate g d).2.pub = g.pub := by
  unfold validate
  split
  · rfl
  · split
    · rfl
    · exact ensureValidator_pub g

/-! ### operations involving two grammars -/

theorem toSimple_src (g : Grammar) (p : Grammar × Grammar) (h : toSimple g = .ok p) :
    p.2 = g ∨ p.2 = g.fillSchema := by
  unfold toSimple at h
  split at h
  · cases h; exact Or.inl rfl
  · simp only at h
    split at h
    · cases h
    · cases h; exact Or.inr rfl

theorem Inv_toSimple (g sg g1 : Grammar) (hg : g.Inv) (h : toSimple g = .ok (sg, g1)) :
    sg.Inv ∧ g1.Inv ∧ g1.pub = g.pub := by
  have hsrc := toSimple_src g (sg, g1) h
  have h1 : g1.Inv ∧ g1.pub = g.pub := by
    rcases hsrc with e | e
    · simp only at e; subst e; exact ⟨hg, rfl⟩
    · simp only at e; subst e; exact ⟨Inv_fillSchema g hg, fillSchema_pub g⟩
  refine ⟨?_, h1⟩
  unfold toSimple at h
  split at h
  · cases h; exact hg
  · simp only at h
    split at h
    · cases h
    · cases h
      apply Inv_setDefaultsChecked
      apply Inv_reqAddAll
      exact ⟨⟨fun r hr => by simp [Grammar.fresh] at hr, fun d hd => by simp [Grammar.fresh, akeys] at hd⟩,
             ⟨Or.inl rfl, Or.inl rfl⟩⟩

theorem Inv_updateSpecific (dst src : Grammar) (p : Grammar × Grammar) (excl : List Name) (m : Bool)
    (hd : dst.Inv) (hs : src.Inv) (hok : updateSpecific dst src excl m = .ok p) :
    p.1.Inv ∧ p.2.Inv ∧ p.2.pub = src.pub := by
  unfold updateSpecific at hok
  split at hok
  · split at hok
    · cases hok
    · split at hok
      · cases hok
      · rename_i q hts
        cases hok
        have ht := Inv_toSimple src q.1 q.2 hs hts
        refine ⟨?_, ht.2.1, ht.2.2⟩
        exact Inv_grow dst _ dst.breq
          (fun x hx => (mem_akeys_foldl_aset (fun q : Name × TS => q.1) (fun q => q.2) _ dst.elems x).mpr (Or.inl hx)) hd
  · split at hok
    · cases hok
    · cases hok
      refine ⟨?_, hs, rfl⟩
      exact Inv_grow dst _ _ (fun x hx => (mem_akeys_jsSetAll (!m) dst.elems _ x).mpr (Or.inl hx)) hd

theorem Inv_updateCommon (d1 src : Grammar) (excl : List Name) (h : d1.Inv) : (updateCommon d1 src excl).Inv := by
  unfold updateCommon
  apply Inv_reqAddAll
  apply Inv_setDefaultsChecked
  exact ⟨WF_transfer d1 _ (fun _ hx => hx) (fun _ hx => hx) (fun _ hx => hx) h.1,
         CacheOK_transfer d1 _ rfl rfl rfl h.2⟩

theorem Inv_updateFrom (dst src : Grammar) (p : Grammar × Grammar) (excl : List Name) (m : Bool)
    (hd : dst.Inv) (hs : src.Inv) (hok : updateFrom dst src excl m = .ok p) :
    p.1.Inv ∧ p.2.Inv ∧ p.2.pub = src.pub := by
  unfold updateFrom at hok
  split at hok
  · cases hok; exact ⟨hd, hs, rfl⟩
  · split at hok
    · cases hok
    · rename_i q hspec
      cases hok
      have h1 := Inv_updateSpecific dst src q excl m hd hs hspec
      exact ⟨Inv_updateCommon q.1 src excl h1.1, h1.2.1, h1.2.2⟩

theorem Inv_copyOf (src : Grammar) (hs : src.Inv) : (copyOf src).Inv := by
  unfold copyOf
  apply Inv_setDefaultsChecked
  apply Inv_reqAddAll
  simp only
  split
  · exact ⟨⟨fun r hr => by simp [Grammar.fresh] at hr, fun d hd => by simp [Grammar.fresh, akeys] at hd⟩,
           ⟨Or.inl rfl, Or.inl rfl⟩⟩
  · exact ⟨⟨fun r hr => by simp [Grammar.fresh] at hr, fun d hd => by simp [Grammar.fresh, akeys] at hd⟩,
           hs.2⟩

theorem schemaView_props_of_cacheOK (g : Grammar) (h : g.CacheOK) : g.schemaView.props = g.elems := by
  unfold Grammar.schemaView Grammar.fillSchema
  split
  · simp
  · rcases h.1 with e | e <;> simp [e]

theorem Inv_pickleOf (src : Grammar) (hs : src.Inv) :
    (pickleOf src).1.Inv ∧ (pickleOf src).2.Inv ∧ (pickleOf src).2.pub = src.pub := by
  unfold pickleOf
  split
  · exact ⟨hs, hs, rfl⟩
  · rename_i hk
    have h1 := Inv_fillSchema src hs
    have hp := schemaView_props_of_cacheOK src.fillSchema h1.2
    have he : src.fillSchema.elems = src.elems := by
      have := fillSchema_pub src
      exact congrArg Pub.elems this
    have hc : src.fillSchema.schemaC = some src.elems := by
      unfold Grammar.fillSchema
      rw [hk]
      cases hsc : src.schemaC with
      | none => simp
      | some l =>
        simp only
        rcases hs.2.1 with e | e
        · rw [hsc] at e; cases e
        · rw [hsc] at e; rw [hsc, e]
    refine ⟨?_, h1, fillSchema_pub src⟩
    apply Inv_setDefaultsChecked
    refine ⟨⟨fun r hr => ?_, fun d hd => by simp [Grammar.fresh, akeys] at hd⟩, ⟨?_, Or.inl rfl⟩⟩
    · simp only [Grammar.keys]
      rw [hp, he]
      exact hs.1.1 r hr
    · right
      simp only
      rw [hp, he, hc]

end GV.C15
