/-
C18 — fitting rules of `MinMaxScaler` and `StandardScaler` (incl. the constant-feature branches):
what the fitted affine map does to the fitting data, and the fitted map is always invertible.
-/
import GemseoVerif.Lemmas.C18Pipe
import Mathlib.Tactic.NormNum

namespace GV.C18

variable {K : Type} [Field K] [DecidableEq K]

set_option linter.unusedSectionVars false

theorem half_eq [NeZero (2 : K)] : (half : K) = 1 / 2 := by
  unfold half; norm_num

/-- The coefficient fitted by `MinMaxScaler` never vanishes. -/
theorem minMaxCoef_ne_zero (lb delta : K) : minMaxCoef lb delta ≠ 0 := by
  unfold minMaxCoef
  by_cases hd : delta = 0
  · by_cases hl : lb = 0 <;> simp [hd, hl]
  · simp [hd]

/-- The coefficient fitted by `StandardScaler` never vanishes. -/
theorem standardCoef_ne_zero (mean std : K) : standardCoef mean std ≠ 0 := by
  unfold standardCoef
  by_cases hd : std = 0
  · by_cases hl : mean = 0 <;> simp [hd, hl]
  · simp [hd]

/-- Non-constant feature: the minimum is sent to 0 and the maximum to 1, affinely. -/
theorem minMax_regular (lb delta x : K) (hd : delta ≠ 0) :
    x * minMaxCoef lb delta + minMaxOff lb delta = (x - lb) / delta := by
  unfold minMaxCoef minMaxOff
  simp only [hd, if_false]
  field_simp
  ring

/-- Constant non-zero feature `z`: `z ↦ z / min − 1/2` (the fitting value is sent to 1/2). -/
theorem minMax_constant_nonzero (lb x : K) (hl : lb ≠ 0) :
    x * minMaxCoef lb 0 + minMaxOff lb 0 = x / lb - half := by
  unfold minMaxCoef minMaxOff
  simp only [hl, if_true, if_false]
  field_simp
  ring

/-- Constant zero feature: `z ↦ z + 1/2`. -/
theorem minMax_constant_zero (x : K) :
    x * minMaxCoef (0 : K) 0 + minMaxOff (0 : K) 0 = x + half := by
  unfold minMaxCoef minMaxOff
  simp

/-- Non-constant feature: `z ↦ (z − mean) / std`. -/
theorem standard_regular (mean std x : K) (hd : std ≠ 0) :
    x * standardCoef mean std + standardOff mean std = (x - mean) / std := by
  unfold standardCoef standardOff
  simp only [hd, if_false]
  field_simp
  ring

/-- Constant non-zero feature: `z ↦ z / mean − 1`. -/
theorem standard_constant_nonzero (mean x : K) (hl : mean ≠ 0) :
    x * standardCoef mean 0 + standardOff mean 0 = x / mean - 1 := by
  unfold standardCoef standardOff
  simp only [hl, if_true, if_false]
  field_simp
  ring

/-- Constant zero feature: identity. -/
theorem standard_constant_zero (x : K) :
    x * standardCoef (0 : K) 0 + standardOff (0 : K) 0 = x := by
  unfold standardCoef standardOff
  simp

section Ordered
variable [LT K] [DecidableRel (α := K) (· < ·)]

/-- A fitted `MinMaxScaler` is lossless whatever the data (constant features included). -/
theorem fitMinMax_lossless (n d : ℕ) (data : ℕ → ℕ → K) : (fitMinMax n d data).Lossless := by
  intro i _
  exact minMaxCoef_ne_zero _ _

theorem fitMinMax_dims (n d : ℕ) (data : ℕ → ℕ → K) :
    (fitMinMax n d data).inDim = d ∧ (fitMinMax n d data).outDim = d := ⟨rfl, rfl⟩

end Ordered

/-- A fitted `StandardScaler` is lossless whatever the data. -/
theorem fitStandard_lossless (n d : ℕ) (data : ℕ → ℕ → K) (std : Vec K) :
    (fitStandard n d data std).Lossless := by
  intro i _
  exact standardCoef_ne_zero _ _

end GV.C18
