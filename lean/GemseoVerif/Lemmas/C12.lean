/-
C12 — helper lemmas about the run / crash / restart model (`Model/C12.lean`) on top of the C11
lemmas: look-ups after a store, the prefix order `DbLe` on databases, the invariant of a run and
its preservation, the loaded state of a restart.
-/
import GemseoVerif.Model.C12
import GemseoVerif.Lemmas.C11Inv

namespace GV.C12
open GV.C11

variable {κ : Type} [DecidableEq κ]

/-! ### look-ups after `Database.store` -/

theorem alook_dbStore (db : Db) (p : Pt) (o : Outs) (q : Pt) :
    alook q (dbStore db p o) =
      if p = q then some (match alook p db with | some c => updateOuts c o | none => o) else alook q db := by
  induction db with
  | nil =>
    simp only [dbStore, alook_cons, alook_nil]
  | cons qc t ih =>
    obtain ⟨q0, c0⟩ := qc
    unfold dbStore
    by_cases e : q0 = p
    · subst e
      simp only [if_true, alook_cons]
      by_cases e2 : q0 = q
      · simp [e2]
      · simp [e2]
    · simp only [e, if_false, alook_cons, ih]
      by_cases e2 : q0 = q
      · subst e2
        have : ¬ p = q0 := fun h => e h.symm
        simp [this]
      · simp [e2]

theorem recorded_dbStore (db : Db) (p : Pt) (n : String) (v : Val) (q : Pt) (m : String) :
    recorded (dbStore db p [(n, v)]) q m =
      if p = q ∧ n = m then some v else recorded db q m := by
  unfold recorded
  rw [alook_dbStore]
  by_cases e : p = q
  · subst e
    simp only [if_true, true_and]
    cases h : alook p db with
    | none =>
      by_cases e2 : n = m <;> simp [alook_cons, e2]
    | some c =>
      simp [updateOuts, alook_setOut]
  · simp [e]

theorem recorded_none_of_not_mem {db : Db} {p : Pt} (h : p ∉ db.map (·.1)) (n : String) :
    recorded db p n = none := by
  unfold recorded
  rw [alook_eq_none.mpr h]

/-! ### the prefix order on databases -/

/-- `a` is a prefix of `b`: the points of `a` are the first points of `b`, in the same order, and
    every output recorded in `a` is recorded in `b` with the same value. -/
def DbLe (a b : Db) : Prop :=
  (a.map (·.1)) <+: (b.map (·.1)) ∧ ∀ p n v, recorded a p n = some v → recorded b p n = some v

theorem DbLe.refl (a : Db) : DbLe a a := ⟨List.prefix_refl _, fun _ _ _ h => h⟩

theorem DbLe.trans {a b c : Db} (h₁ : DbLe a b) (h₂ : DbLe b c) : DbLe a c :=
  ⟨h₁.1.trans h₂.1, fun p n v h => h₂.2 p n v (h₁.2 p n v h)⟩

/-- A store of an output that is not recorded yet only extends the database. -/
theorem dbLe_dbStore (db : Db) (p : Pt) (n : String) (v : Val) (h : recorded db p n = none) :
    DbLe db (dbStore db p [(n, v)]) := by
  refine ⟨?_, ?_⟩
  · rw [dbStore_keys]
    split
    · exact List.prefix_refl _
    · exact List.prefix_append _ _
  · intro q m w hw
    rw [recorded_dbStore]
    by_cases e : p = q ∧ n = m
    · obtain ⟨rfl, rfl⟩ := e
      rw [h] at hw; cases hw
    · simp [e, hw]

/-! ### exports do not touch the database -/

omit [DecidableEq κ] in
theorem doExport_db {s s' : State κ} {a : Bool} (h : doExport s a = some s') : s'.db = s.db := by
  unfold doExport at h
  split at h
  · simp only [Option.map_eq_some_iff] at h
    obtain ⟨F, _, rfl⟩ := h; rfl
  · simp only [Option.map_eq_some_iff] at h
    obtain ⟨F, _, rfl⟩ := h; rfl

omit [DecidableEq κ] in
@[simp] theorem backup_db (s : St κ) : (backup s).h.db = s.h.db := by
  unfold backup
  cases h : doExport s.h true with
  | none => rfl
  | some h' => exact doExport_db h

omit [DecidableEq κ] in
@[simp] theorem backup_calls (s : St κ) : (backup s).calls = s.calls := by
  unfold backup; cases doExport s.h true <;> rfl

omit [DecidableEq κ] in
@[simp] theorem backup_counter (s : St κ) : (backup s).counter = s.counter := by
  unfold backup; cases doExport s.h true <;> rfl

omit [DecidableEq κ] in
@[simp] theorem backup_maximum (s : St κ) : (backup s).maximum = s.maximum := by
  unfold backup; cases doExport s.h true <;> rfl

/-! ### one request -/

section step
variable (H : Pt → κ) (cfg : Cfg) (val : String → Pt → Val)

/-- The three shapes of a request. -/
theorem step_cases (s : St κ) (r : Req) :
    (∃ v, recorded s.h.db r.p r.name = some v ∧ step H cfg val s r = (s, .served v, [])) ∨
    (recorded s.h.db r.p r.name = none ∧ unseen s.h.db r.p = true ∧ maxReached s = true ∧
      step H cfg val s r = (s, .maxIter, [])) ∨
    (recorded s.h.db r.p r.name = none ∧ (unseen s.h.db r.p && maxReached s) = false ∧
      step H cfg val s r = (computedSt H cfg s r (val r.name r.p), .computed (val r.name r.p),
        events cfg r (val r.name r.p) (unseen s.h.db r.p))) := by
  unfold step
  cases h : recorded s.h.db r.p r.name with
  | some v => exact Or.inl ⟨v, rfl, rfl⟩
  | none =>
    right
    by_cases hm : (unseen s.h.db r.p && maxReached s) = true
    · left
      simp only [hm, if_true]
      simp only [Bool.and_eq_true] at hm
      exact ⟨trivial, hm.1, hm.2, trivial⟩
    · right
      have hm' : (unseen s.h.db r.p && maxReached s) = false := by simpa using hm
      simp only [hm', Bool.false_eq_true, if_false]
      exact ⟨trivial, trivial, trivial⟩

omit [DecidableEq κ] in
@[simp] theorem notifyStore_db (s : St κ) : (notifyStore cfg s).h.db = s.h.db := by
  unfold notifyStore; split <;> simp

omit [DecidableEq κ] in
@[simp] theorem notifyNewIter_db (s : St κ) : (notifyNewIter cfg s).h.db = s.h.db := by
  unfold notifyNewIter; split <;> simp

omit [DecidableEq κ] in
@[simp] theorem notifyStore_calls (s : St κ) : (notifyStore cfg s).calls = s.calls := by
  unfold notifyStore; split <;> simp

omit [DecidableEq κ] in
@[simp] theorem notifyNewIter_calls (s : St κ) : (notifyNewIter cfg s).calls = s.calls := by
  unfold notifyNewIter; split <;> simp

@[simp] theorem computedSt_db (s : St κ) (r : Req) (v : Val) :
    (computedSt H cfg s r v).h.db = dbStore s.h.db r.p [(r.name, v)] := by
  unfold computedSt
  split <;> simp [storeSt, doStore]

@[simp] theorem computedSt_calls (s : St κ) (r : Req) (v : Val) :
    (computedSt H cfg s r v).calls = s.calls ++ [(r.name, r.p)] := by
  unfold computedSt
  split <;> simp [storeSt]

/-- The database only grows along a request. -/
theorem step_dbLe (s : St κ) (r : Req) : DbLe s.h.db (step H cfg val s r).1.h.db := by
  rcases step_cases H cfg val s r with ⟨v, _, h⟩ | ⟨_, _, _, h⟩ | ⟨hn, _, h⟩
  · rw [h]; exact DbLe.refl _
  · rw [h]; exact DbLe.refl _
  · rw [h]; simp only [computedSt_db]
    exact dbLe_dbStore _ _ _ _ hn

theorem run_dbLe (s : St κ) (rs : List Req) : DbLe s.h.db (runSt H cfg val s rs).h.db := by
  induction rs generalizing s with
  | nil => exact DbLe.refl _
  | cons r rs ih =>
    unfold runSt run
    have h1 := step_dbLe H cfg val s r
    rcases hs : step H cfg val s r with ⟨s', out, evs⟩
    rw [hs] at h1
    cases out with
    | maxIter => simpa using h1
    | served v =>
      simp only
      exact h1.trans (ih s')
    | computed v =>
      simp only
      exact h1.trans (ih s')

end step

/-! ### the invariant of a run -/

section inv
variable (H : Pt → κ) (cfg : Cfg) (val : String → Pt → Val)

/-- A store of an output that is not recorded yet is inside the quantifier of the C11 theorems
    (it cannot change an output that is already in the file). -/
theorem inScope_of_unrecorded (h : State κ) (hinv : C11.Inv H h) (p : Pt) (n : String) (v : Val)
    (hn : recorded h.db p n = none) : InScope h (.store p [(n, v)]) := by
  refine ⟨by simp, ?_⟩
  intro i e outs hi he ho n' v' hv' hk
  exfalso
  simp only [alook_cons, alook_nil] at hv'
  have hn' : n = n' := by
    by_contra hne; simp [hne] at hv'
  subst hn'
  obtain ⟨p', outs', L, hget, _, hlay, _, hsub⟩ := hinv.file.ok (i, e) (alook_mem he)
  obtain ⟨outs2, hget2, hlook⟩ := dbIndex_spec hi
  simp only at hget
  rw [hget2] at hget
  injection hget with hget; injection hget with _ hoo; subst hoo
  rw [ho] at hlook; injection hlook with hlook; subst hlook
  rw [hlay.keys] at hk
  obtain ⟨w, hw⟩ := alook_isSome_of_mem_keys hk
  have := hsub n w hw
  unfold recorded at hn
  rw [ho] at hn
  simp only at hn
  rw [hn] at this; cases this

/-- The invariant, without the function-call-mode clause. -/
structure Inv0 (s : St κ) : Prop where
  c11 : C11.Inv H s.h
  ok : s.ok = true
  snapWF : DbWF s.snap
  fileSnap : FileOK s.snap s.h.file
  fileComplete : ∀ i p outs, s.snap[i]? = some (p, outs) →
    ∃ e, alook i s.h.file = some e ∧ EntryComplete s.snap i e
  snapLe : DbLe s.snap s.h.db

/-- The invariant of a run: the file is a complete image of the snapshot taken at the last
    export, the snapshot is a prefix of the database, and in function-call mode it *is* the
    database. -/
structure Inv (s : St κ) : Prop where
  base : Inv0 H s
  eachCall : cfg.eachCall = true → s.snap = s.h.db

theorem inv0_init : Inv0 H (St.init : St κ) :=
  ⟨inv_init H, rfl, ⟨by simp [St.init], by simp [St.init]⟩,
   ⟨by simp [St.init, State.init], by simp [St.init, State.init]⟩,
   by simp [St.init], DbLe.refl _⟩

theorem inv_init' : Inv H cfg (St.init : St κ) := ⟨inv0_init H, fun _ => rfl⟩

theorem inv0_backup (s : St κ) (hs : Inv0 H s) :
    Inv0 H (backup s) ∧ (backup s).snap = (backup s).h.db := by
  obtain ⟨h', he, hinv', hdb, _, hall⟩ := inv_export H s.h hs.c11 true
  have hb : backup s = { s with h := h', snap := h'.db } := by
    unfold backup; rw [he]
  rw [hb]
  refine ⟨⟨hinv', hs.ok, hinv'.wf, hinv'.file, ?_, DbLe.refl _⟩, rfl⟩
  intro i p outs hget
  simp only at hget
  rw [hdb] at hget
  obtain ⟨e, h1, h2⟩ := hall i p outs hget
  exact ⟨e, h1, by simpa [hdb] using h2⟩

theorem inv0_storeSt (hinj : Function.Injective H) (s : St κ) (hs : Inv0 H s) (r : Req) (v : Val)
    (hn : recorded s.h.db r.p r.name = none) : Inv0 H (storeSt H s r v) := by
  have hsc := inScope_of_unrecorded H s.h hs.c11 r.p r.name v hn
  refine ⟨inv_store H hinj s.h hs.c11 r.p _ hsc, hs.ok, hs.snapWF, hs.fileSnap, hs.fileComplete, ?_⟩
  exact hs.snapLe.trans (dbLe_dbStore _ _ _ _ hn)

theorem inv0_notifyStore (s : St κ) (hs : Inv0 H s) : Inv0 H (notifyStore cfg s) := by
  unfold notifyStore; split
  · exact (inv0_backup H s hs).1
  · exact hs

theorem inv0_notifyNewIter (s : St κ) (hs : Inv0 H s) : Inv0 H (notifyNewIter cfg s) := by
  unfold notifyNewIter
  split
  · obtain ⟨h1, _⟩ := inv0_backup H s hs
    exact ⟨h1.c11, h1.ok, h1.snapWF, h1.fileSnap, h1.fileComplete, h1.snapLe⟩
  · exact ⟨hs.c11, hs.ok, hs.snapWF, hs.fileSnap, hs.fileComplete, hs.snapLe⟩

theorem inv0_computedSt (hinj : Function.Injective H) (s : St κ) (hs : Inv0 H s) (r : Req) (v : Val)
    (hn : recorded s.h.db r.p r.name = none) : Inv0 H (computedSt H cfg s r v) := by
  unfold computedSt
  have h2 := inv0_notifyStore H cfg _ (inv0_storeSt H hinj s hs r v hn)
  split
  · exact inv0_notifyNewIter H cfg _ h2
  · exact h2

/-- In function-call mode the snapshot is the database after every computed request. -/
theorem computedSt_eachCall (hinj : Function.Injective H) (s : St κ) (hs : Inv0 H s) (r : Req) (v : Val)
    (hn : recorded s.h.db r.p r.name = none) (hc : cfg.eachCall = true) :
    (computedSt H cfg s r v).snap = (computedSt H cfg s r v).h.db := by
  have h1 := inv0_storeSt H hinj s hs r v hn
  obtain ⟨h2, h2e⟩ := inv0_backup H _ h1
  unfold computedSt
  simp only [notifyStore, hc, if_true]
  split
  · unfold notifyNewIter
    split
    · exact (inv0_backup H _ h2).2
    · exact h2e
  · exact h2e

theorem inv_step (hinj : Function.Injective H) (s : St κ) (hs : Inv H cfg s) (r : Req) :
    Inv H cfg (step H cfg val s r).1 := by
  rcases step_cases H cfg val s r with ⟨v, _, h⟩ | ⟨_, _, _, h⟩ | ⟨hn, _, h⟩
  · rw [h]; exact hs
  · rw [h]; exact hs
  · rw [h]
    exact ⟨inv0_computedSt H cfg hinj s hs.base r _ hn,
      fun hc => computedSt_eachCall H cfg hinj s hs.base r _ hn hc⟩

theorem inv_run (hinj : Function.Injective H) (s : St κ) (hs : Inv H cfg s) (rs : List Req) :
    Inv H cfg (runSt H cfg val s rs) := by
  induction rs generalizing s with
  | nil => exact hs
  | cons r rs ih =>
    unfold runSt run
    have h1 := inv_step H cfg val hinj s hs r
    rcases hstep : step H cfg val s r with ⟨s', out, evs⟩
    rw [hstep] at h1
    cases out with
    | maxIter => simpa using h1
    | served v => simp only; exact ih s' h1
    | computed v => simp only; exact ih s' h1

end inv

/-! ### loading the file in a new process -/

section load
variable (H : Pt → κ)

theorem dbEq_getElem_right {a b : Db} (h : DbEq a b) {i : Nat} {p : Pt} {o : Outs}
    (hb : b[i]? = some (p, o)) : ∃ o', a[i]? = some (p, o') ∧ OutsEq o' o := by
  unfold DbEq at h
  rw [List.forall₂_iff_get] at h
  obtain ⟨hlen, hall⟩ := h
  have hi : i < b.length := by
    by_contra hn; rw [List.getElem?_eq_none (by omega)] at hb; cases hb
  have hi' : i < a.length := by omega
  have := hall i hi' hi
  simp only [List.get_eq_getElem] at this
  have hbi : b[i] = (p, o) := by
    have := List.getElem?_eq_getElem hi
    rw [hb] at this; exact (Option.some.inj this).symm
  rw [hbi] at this
  refine ⟨a[i].2, ?_, this.2⟩
  rw [List.getElem?_eq_getElem hi']
  congr 1
  exact Prod.ext this.1 rfl

theorem dbEq_getElem_left {a b : Db} (h : DbEq a b) {i : Nat} {p : Pt} {o : Outs}
    (ha : a[i]? = some (p, o)) : ∃ o', b[i]? = some (p, o') ∧ OutsEq o o' := by
  unfold DbEq at h
  rw [List.forall₂_iff_get] at h
  obtain ⟨hlen, hall⟩ := h
  have hi : i < a.length := by
    by_contra hn; rw [List.getElem?_eq_none (by omega)] at ha; cases ha
  have hi' : i < b.length := by omega
  have := hall i hi hi'
  simp only [List.get_eq_getElem] at this
  have hai : a[i] = (p, o) := by
    have := List.getElem?_eq_getElem hi
    rw [ha] at this; exact (Option.some.inj this).symm
  rw [hai] at this
  refine ⟨b[i].2, ?_, this.2⟩
  rw [List.getElem?_eq_getElem hi']
  congr 1
  exact Prod.ext this.1.symm rfl

theorem dbEq_length {a b : Db} (h : DbEq a b) : a.length = b.length := by
  unfold DbEq at h; exact h.length_eq

/-- **The loaded state.** From a state satisfying the invariant, a new process that loads the
    file gets a database equal to the snapshot (same points in the same order, same outputs and
    values), a counter equal to the number of loaded entries, and satisfies the invariant again —
    so everything proved about a run also holds for a restarted run, and for a restart of a
    restart. -/
theorem restart_spec (s : St κ) (hs : Inv0 H s) :
    ∃ s', restart H s.h = some s' ∧ Inv0 H s' ∧ s'.snap = s'.h.db ∧ DbEq s'.h.db s.snap ∧
      s'.counter = s.snap.length ∧ s'.calls = [] ∧ s'.h.file = s.h.file := by
  obtain ⟨h', hre, hinv', hfile⟩ := inv_reload H s.h hs.c11
  obtain ⟨d, hd, hrest⟩ := readFile_complete s.snap hs.snapWF s.h.file hs.fileSnap hs.fileComplete
  -- (robust to C11 strengthening the conclusion of `readFile_complete` with more conjuncts)
  have heq : DbEq d s.snap := by first | exact hrest | exact hrest.1
  clear hrest
  have hdb : h'.db = d := by
    unfold doReload at hre
    rw [hd] at hre
    simp only [Option.some.injEq] at hre
    rw [← hre]
  have hcomplete : ∀ i p outs, d[i]? = some (p, outs) →
      ∃ e, alook i s.h.file = some e ∧ EntryComplete d i e := by
    intro i p outs hget
    obtain ⟨o', hget', ho'⟩ := dbEq_getElem_left heq hget
    obtain ⟨e, he, p2, outs2, L, hg2, hx, hlay, ndL, hLeq⟩ := hs.fileComplete i p o' hget'
    rw [hget'] at hg2
    injection hg2 with hg2; injection hg2 with hp2 ho2; subst hp2; subst ho2
    exact ⟨e, he, p, outs, L, hget, hx, hlay, ndL, fun n => (hLeq n).trans (ho' n).symm⟩
  refine ⟨{ h := h', snap := h'.db, counter := h'.db.length, maximum := 0, calls := [], ok := true },
    ?_, ?_, rfl, ?_, ?_, rfl, hfile⟩
  · unfold restart
    rw [hre]; rfl
  · refine ⟨hinv', rfl, hinv'.wf, hinv'.file, ?_, DbLe.refl _⟩
    intro i p outs hget
    simp only at hget
    rw [hdb] at hget
    show ∃ e, alook i h'.file = some e ∧ EntryComplete h'.db i e
    rw [hfile, hdb]
    exact hcomplete i p outs hget
  · show DbEq h'.db s.snap
    rw [hdb]; exact heq
  · show h'.db.length = s.snap.length
    rw [hdb]; exact dbEq_length heq

end load

/-! ### runs: concatenation, the log of calls -/

section runs
variable (H : Pt → κ) (cfg : Cfg) (val : String → Pt → Val)

/-- Did the budget stop the run? -/
def stopped (s : St κ) (rs : List Req) : Bool := (run H cfg val s rs).2.2

theorem runSt_nil (s : St κ) : runSt H cfg val s [] = s := rfl

theorem runSt_cons (s : St κ) (r : Req) (rs : List Req) :
    runSt H cfg val s (r :: rs) =
      match (step H cfg val s r).2.1 with
      | .maxIter => (step H cfg val s r).1
      | _ => runSt H cfg val (step H cfg val s r).1 rs := by
  unfold runSt
  conv_lhs => unfold run
  rcases hstep : step H cfg val s r with ⟨s', out, evs⟩
  cases out <;> simp

theorem stopped_cons (s : St κ) (r : Req) (rs : List Req) :
    stopped H cfg val s (r :: rs) =
      match (step H cfg val s r).2.1 with
      | .maxIter => true
      | _ => stopped H cfg val (step H cfg val s r).1 rs := by
  unfold stopped
  conv_lhs => unfold run
  rcases hstep : step H cfg val s r with ⟨s', out, evs⟩
  cases out <;> simp

/-- A run over `a ++ b` is the run over `a` followed — unless the budget stopped it — by the run
    over `b`. -/
theorem runSt_append (s : St κ) (a b : List Req) :
    runSt H cfg val s (a ++ b) =
      if stopped H cfg val s a then runSt H cfg val s a
      else runSt H cfg val (runSt H cfg val s a) b := by
  induction a generalizing s with
  | nil => simp [stopped, run, runSt_nil]
  | cons r a ih =>
    simp only [List.cons_append, runSt_cons, stopped_cons]
    rcases hstep : step H cfg val s r with ⟨s', out, evs⟩
    cases out with
    | maxIter => simp
    | served v => simp only; exact ih s'
    | computed v => simp only; exact ih s'

theorem step_calls (s : St κ) (r : Req) :
    (step H cfg val s r).1.calls = s.calls ∨
    (recorded s.h.db r.p r.name = none ∧ (step H cfg val s r).1.calls = s.calls ++ [(r.name, r.p)]) := by
  rcases step_cases H cfg val s r with ⟨v, _, h⟩ | ⟨_, _, _, h⟩ | ⟨hn, _, h⟩
  · left; rw [h]
  · left; rw [h]
  · right; rw [h]; exact ⟨hn, computedSt_calls H cfg s r _⟩

theorem recorded_none_mono {a b : Db} (h : DbLe a b) {p : Pt} {n : String}
    (hb : recorded b p n = none) : recorded a p n = none := by
  cases ha : recorded a p n with
  | none => rfl
  | some v => rw [h.2 p n v ha] at hb; cases hb

/-- Every invocation of an original callable logged by a run was for a (function, point) that the
    database did not hold when the run started. -/
theorem run_calls_unrecorded (s : St κ) (rs : List Req) :
    ∀ c ∈ (runSt H cfg val s rs).calls, c ∈ s.calls ∨ recorded s.h.db c.2 c.1 = none := by
  induction rs generalizing s with
  | nil => intro c hc; exact Or.inl hc
  | cons r rs ih =>
    intro c hc
    rw [runSt_cons] at hc
    have hle := step_dbLe H cfg val s r
    have hcalls := step_calls H cfg val s r
    rcases hstep : step H cfg val s r with ⟨s', out, evs⟩
    rw [hstep] at hc hle hcalls
    simp only at hle hcalls
    have key : c ∈ s'.calls ∨ recorded s'.h.db c.2 c.1 = none → c ∈ s.calls ∨ recorded s.h.db c.2 c.1 = none := by
      intro h
      rcases h with h | h
      · rcases hcalls with e | ⟨hn, e⟩
        · exact Or.inl (e ▸ h)
        · rw [e] at h
          rcases List.mem_append.mp h with h | h
          · exact Or.inl h
          · simp only [List.mem_singleton] at h
            subst h; exact Or.inr hn
      · exact Or.inr (recorded_none_mono hle h)
    cases out with
    | maxIter => exact key (Or.inl hc)
    | served v => exact key (ih s' c hc)
    | computed v => exact key (ih s' c hc)

/-- The log of calls has no repetition and every logged (function, point) is recorded. -/
def CallsOK (s : St κ) : Prop :=
  s.calls.Nodup ∧ ∀ c ∈ s.calls, (recorded s.h.db c.2 c.1).isSome = true

theorem callsOK_step (s : St κ) (hs : CallsOK s) (r : Req) : CallsOK (step H cfg val s r).1 := by
  rcases step_cases H cfg val s r with ⟨v, _, h⟩ | ⟨_, _, _, h⟩ | ⟨hn, _, h⟩
  · rw [h]; exact hs
  · rw [h]; exact hs
  · rw [h]
    refine ⟨?_, ?_⟩
    · rw [computedSt_calls]
      refine List.nodup_append.mpr ⟨hs.1, by simp, ?_⟩
      intro a ha b hb hab
      simp only [List.mem_singleton] at hb
      subst hab; subst hb
      have := hs.2 _ ha
      simp only at this
      rw [hn] at this; cases this
    · intro c hc
      rw [computedSt_calls] at hc
      rw [computedSt_db, recorded_dbStore]
      rcases List.mem_append.mp hc with hc | hc
      · split
        · rfl
        · exact hs.2 c hc
      · simp only [List.mem_singleton] at hc
        subst hc; simp

theorem callsOK_run (s : St κ) (hs : CallsOK s) (rs : List Req) : CallsOK (runSt H cfg val s rs) := by
  induction rs generalizing s with
  | nil => exact hs
  | cons r rs ih =>
    rw [runSt_cons]
    have h1 := callsOK_step H cfg val s hs r
    rcases hstep : step H cfg val s r with ⟨s', out, evs⟩
    rw [hstep] at h1
    cases out with
    | maxIter => exact h1
    | served v => exact ih s' h1
    | computed v => exact ih s' h1

end runs

end GV.C12
