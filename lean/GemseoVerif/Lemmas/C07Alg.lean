/-
C07 — matrix algebra of the coupled derivatives (Mathlib `Matrix` over a field).

`R_y` is the Jacobian of the residuals w.r.t. the couplings/states, `R_x` w.r.t. the design
variables, `F_y`, `F_x` the partial Jacobians of the functions.  All index types are arbitrary
finite types: the statements hold for every number of couplings, variables and functions.
-/
import Mathlib.LinearAlgebra.Matrix.NonsingularInverse
import Mathlib.LinearAlgebra.Matrix.Block
import Mathlib.Data.Matrix.ColumnRowPartitioned

namespace GV.C07.Alg

open Matrix

set_option linter.unusedSectionVars false

variable {K : Type*} [Field K]
variable {n p m : Type*} [Fintype n] [DecidableEq n] [Fintype p] [DecidableEq p]
  [Fintype m] [DecidableEq m]

/-- The closed form of the property text: `dF/dx = F_x - F_y R_y⁻¹ R_x`. -/
noncomputable def implicit (Fx : Matrix m p K) (Fy : Matrix m n K) (Ry : Matrix n n K)
    (Rx : Matrix n p K) : Matrix m p K :=
  Fx - Fy * Ry⁻¹ * Rx

/-- A solution of the direct system `R_y X = -R_x` is `-R_y⁻¹ R_x`. -/
theorem direct_solution (Ry : Matrix n n K) (Rx X : Matrix n p K) (h : IsUnit Ry.det)
    (hX : Ry * X = -Rx) : X = -(Ry⁻¹ * Rx) := by
  have : Ry⁻¹ * (Ry * X) = Ry⁻¹ * (-Rx) := by rw [hX]
  rw [← Matrix.mul_assoc, Matrix.nonsing_inv_mul _ h, Matrix.one_mul, Matrix.mul_neg] at this
  exact this

/-- A solution of the adjoint system `R_yᵀ Λ = -F_yᵀ` is `-(R_y⁻¹)ᵀ F_yᵀ`. -/
theorem adjoint_solution (Ry : Matrix n n K) (Fy : Matrix m n K) (L : Matrix n m K)
    (h : IsUnit Ry.det) (hL : Ryᵀ * L = -Fyᵀ) : L = -((Ry⁻¹)ᵀ * Fyᵀ) := by
  have hT : IsUnit (Ryᵀ).det := by rwa [Matrix.det_transpose]
  have := direct_solution (Ryᵀ) (Fyᵀ) L hT hL
  rwa [← Matrix.transpose_nonsing_inv] at this

theorem direct_eq_implicit (Fx : Matrix m p K) (Fy : Matrix m n K) (Ry : Matrix n n K)
    (Rx X : Matrix n p K) (h : IsUnit Ry.det) (hX : Ry * X = -Rx) :
    Fx + Fy * X = implicit Fx Fy Ry Rx := by
  rw [direct_solution Ry Rx X h hX, implicit, Matrix.mul_neg, ← sub_eq_add_neg, Matrix.mul_assoc]

theorem adjoint_eq_implicit (Fx : Matrix m p K) (Fy : Matrix m n K) (Ry : Matrix n n K)
    (Rx : Matrix n p K) (L : Matrix n m K) (h : IsUnit Ry.det) (hL : Ryᵀ * L = -Fyᵀ) :
    Fx + (Rxᵀ * L)ᵀ = implicit Fx Fy Ry Rx := by
  rw [adjoint_solution Ry Fy L h hL, implicit, Matrix.mul_neg, Matrix.transpose_neg,
    ← sub_eq_add_neg, Matrix.transpose_mul, Matrix.transpose_mul, Matrix.transpose_transpose,
    Matrix.transpose_transpose, Matrix.transpose_transpose]

/-- Requesting fewer functions (rows `r`) and fewer variables (columns `c`) yields the
    corresponding sub-blocks of the full answer. -/
theorem implicit_submatrix {m' p' : Type*} [Fintype m'] [DecidableEq m'] [Fintype p']
    [DecidableEq p'] (Fx : Matrix m p K) (Fy : Matrix m n K) (Ry : Matrix n n K)
    (Rx : Matrix n p K) (r : m' → m) (c : p' → p) :
    (implicit Fx Fy Ry Rx).submatrix r c =
      implicit (Fx.submatrix r c) (Fy.submatrix r id) Ry (Rx.submatrix id c) := by
  ext i j
  simp [implicit, Matrix.sub_apply, Matrix.mul_apply, Matrix.submatrix_apply]

end GV.C07.Alg

namespace GV.C07.Alg

open Matrix

set_option linter.unusedSectionVars false

variable {K : Type*} [Field K]
variable {n p m : Type*} [Fintype n] [DecidableEq n] [Fintype p] [DecidableEq p]
  [Fintype m] [DecidableEq m]

/-- **Derivative of the converged coupled solution (affine systems).**
    If `(x, y)` and `(x', y')` both satisfy the residual equations `R_y y + R_x x + r₀ = 0`
    with `R_y` invertible, the functions `F = F_x x + F_y y + f₀` differ exactly by the
    closed form applied to `x' - x`. -/
theorem affine_solution_derivative (Fx : Matrix m p K) (Fy : Matrix m n K) (Ry : Matrix n n K)
    (Rx : Matrix n p K) (r0 : n → K) (f0 : m → K) (h : IsUnit Ry.det)
    (x x' : p → K) (y y' : n → K)
    (hy : Ry *ᵥ y + Rx *ᵥ x + r0 = 0) (hy' : Ry *ᵥ y' + Rx *ᵥ x' + r0 = 0) :
    (Fx *ᵥ x' + Fy *ᵥ y' + f0) - (Fx *ᵥ x + Fy *ᵥ y + f0) =
      implicit Fx Fy Ry Rx *ᵥ (x' - x) := by
  have h1 : Ry *ᵥ (y' - y) = -(Rx *ᵥ (x' - x)) := by
    have e : Ry *ᵥ y' + Rx *ᵥ x' + r0 - (Ry *ᵥ y + Rx *ᵥ x + r0) = 0 := by rw [hy, hy']; simp
    rw [Matrix.mulVec_sub, Matrix.mulVec_sub]
    have : Ry *ᵥ y' - Ry *ᵥ y + (Rx *ᵥ x' - Rx *ᵥ x) = 0 := by rw [← e]; abel
    exact eq_neg_of_add_eq_zero_left this
  have h2 : y' - y = -((Ry⁻¹ * Rx) *ᵥ (x' - x)) := by
    have := congrArg (fun v => Ry⁻¹ *ᵥ v) h1
    simp only [Matrix.mulVec_mulVec, Matrix.nonsing_inv_mul _ h, Matrix.one_mulVec,
      Matrix.mulVec_neg] at this
    exact this
  have h3 : (Fx *ᵥ x' + Fy *ᵥ y' + f0) - (Fx *ᵥ x + Fy *ᵥ y + f0)
      = Fx *ᵥ (x' - x) + Fy *ᵥ (y' - y) := by
    rw [Matrix.mulVec_sub, Matrix.mulVec_sub]; abel
  rw [h3, h2, implicit, Matrix.sub_mulVec, Matrix.mulVec_neg, Matrix.mulVec_mulVec,
    Matrix.mul_assoc]
  exact (sub_eq_add_neg _ _).symm

/-! ### Elimination of the couplings that are not between the requested inputs and outputs -/

variable {n₁ n₂ : Type*} [Fintype n₁] [DecidableEq n₁] [Fintype n₂] [DecidableEq n₂]

/-- **Downstream couplings can be dropped.** If the couplings split in two groups such that the
    first group does not depend on the second (`∂R₁/∂y₂ = 0`) and the functions do not depend on
    the second group (`∂F/∂y₂ = 0`), the total derivatives are those of the first group alone. -/
theorem eliminate_downstream (Fx : Matrix m p K) (Fy₁ : Matrix m n₁ K)
    (A : Matrix n₁ n₁ K) (C : Matrix n₂ n₁ K) (D : Matrix n₂ n₂ K)
    (Rx₁ : Matrix n₁ p K) (Rx₂ : Matrix n₂ p K) (hA : IsUnit A.det) (hD : IsUnit D.det) :
    implicit Fx (fromCols Fy₁ (0 : Matrix m n₂ K)) (fromBlocks A 0 C D) (fromRows Rx₁ Rx₂) =
      implicit Fx Fy₁ A Rx₁ := by
  have hdet : IsUnit (fromBlocks A 0 C D).det := by
    rw [Matrix.det_fromBlocks_zero₁₂]; exact hA.mul hD
  obtain ⟨X₁, hX₁⟩ : ∃ X : Matrix n₁ p K, X = -(A⁻¹ * Rx₁) := ⟨_, rfl⟩
  obtain ⟨X₂, hX₂⟩ : ∃ X : Matrix n₂ p K, X = -(D⁻¹ * (Rx₂ + C * X₁)) := ⟨_, rfl⟩
  have hsol : fromBlocks A 0 C D * fromRows X₁ X₂ = -fromRows Rx₁ Rx₂ := by
    rw [fromBlocks_mul_fromRows, fromRows_neg, fromRows_ext_iff]
    constructor
    · rw [hX₁, Matrix.zero_mul, add_zero, Matrix.mul_neg, ← Matrix.mul_assoc,
        Matrix.mul_nonsing_inv _ hA, Matrix.one_mul]
    · rw [hX₂, Matrix.mul_neg, ← Matrix.mul_assoc, Matrix.mul_nonsing_inv _ hD, Matrix.one_mul]
      abel
  rw [← direct_eq_implicit Fx _ _ _ (fromRows X₁ X₂) hdet hsol, fromCols_mul_fromRows,
    Matrix.zero_mul, add_zero]
  exact direct_eq_implicit Fx Fy₁ A Rx₁ X₁ hA (by
    rw [hX₁, Matrix.mul_neg, ← Matrix.mul_assoc, Matrix.mul_nonsing_inv _ hA, Matrix.one_mul])

/-- **Upstream couplings can be dropped.** If the second group of couplings depends neither on the
    requested variables (`∂R₂/∂x = 0`) nor on the first group (`∂R₂/∂y₁ = 0`), the total
    derivatives are those of the first group alone, whatever the dependency of the functions and
    of the first group on the second one. -/
theorem eliminate_upstream (Fx : Matrix m p K) (Fy₁ : Matrix m n₁ K) (Fy₂ : Matrix m n₂ K)
    (A : Matrix n₁ n₁ K) (B : Matrix n₁ n₂ K) (D : Matrix n₂ n₂ K)
    (Rx₁ : Matrix n₁ p K) (hA : IsUnit A.det) (hD : IsUnit D.det) :
    implicit Fx (fromCols Fy₁ Fy₂) (fromBlocks A B 0 D) (fromRows Rx₁ (0 : Matrix n₂ p K)) =
      implicit Fx Fy₁ A Rx₁ := by
  have hdet : IsUnit (fromBlocks A B 0 D).det := by
    rw [Matrix.det_fromBlocks_zero₂₁]; exact hA.mul hD
  obtain ⟨X₁, hX₁⟩ : ∃ X : Matrix n₁ p K, X = -(A⁻¹ * Rx₁) := ⟨_, rfl⟩
  have hsol : fromBlocks A B 0 D * fromRows X₁ (0 : Matrix n₂ p K) = -fromRows Rx₁ 0 := by
    rw [fromBlocks_mul_fromRows, fromRows_neg, fromRows_ext_iff]
    constructor
    · rw [hX₁, Matrix.mul_zero, add_zero, Matrix.mul_neg, ← Matrix.mul_assoc,
        Matrix.mul_nonsing_inv _ hA, Matrix.one_mul]
    · simp
  rw [← direct_eq_implicit Fx _ _ _ (fromRows X₁ 0) hdet hsol, fromCols_mul_fromRows,
    Matrix.mul_zero, add_zero]
  exact direct_eq_implicit Fx Fy₁ A Rx₁ X₁ hA (by
    rw [hX₁, Matrix.mul_neg, ← Matrix.mul_assoc, Matrix.mul_nonsing_inv _ hA, Matrix.one_mul])

end GV.C07.Alg

namespace GV.C07.Alg

open Matrix

set_option linter.unusedSectionVars false

variable {K : Type*} [Field K]
variable {n p m : Type*} [Fintype n] [DecidableEq n] [Fintype p] [DecidableEq p]
  [Fintype m] [DecidableEq m]

/-! ### Change of variables (units): the closed form is equivariant -/

/-- **Change of variables.**  Express the functions in new coordinates `F' = P F`, the design
    variables in `x = Qi x'`, the couplings in `y' = S y` (`Si = S⁻¹`) and take any invertible
    combination `T` of the residuals: the closed form of the transformed partial Jacobians is the
    transformed closed form.  No absolute size of any block enters the result. -/
theorem implicit_change_of_variables {m' p' : Type*} [Fintype m'] [DecidableEq m'] [Fintype p']
    [DecidableEq p'] (Fx : Matrix m p K) (Fy : Matrix m n K) (Ry : Matrix n n K)
    (Rx : Matrix n p K) (P : Matrix m' m K) (Qi : Matrix p p' K) (S Si T : Matrix n n K)
    (hS : Si * S = 1) (hT : IsUnit T.det) (hR : IsUnit Ry.det) :
    implicit (P * Fx * Qi) (P * Fy * Si) (T * Ry * Si) (T * Rx * Qi) =
      P * implicit Fx Fy Ry Rx * Qi := by
  have hSi : IsUnit Si.det := Matrix.isUnit_det_of_right_inverse hS
  have hdet : IsUnit (T * Ry * Si).det := by
    rw [Matrix.det_mul, Matrix.det_mul]; exact (hT.mul hR).mul hSi
  obtain ⟨X, hX⟩ : ∃ X : Matrix n p K, X = -(Ry⁻¹ * Rx) := ⟨_, rfl⟩
  have hRX : Ry * X = -Rx := by
    rw [hX, Matrix.mul_neg, ← Matrix.mul_assoc, Matrix.mul_nonsing_inv _ hR, Matrix.one_mul]
  have hsol : T * Ry * Si * (S * X * Qi) = -(T * Rx * Qi) := by
    calc T * Ry * Si * (S * X * Qi) = T * Ry * (Si * S) * X * Qi := by
          simp only [Matrix.mul_assoc]
      _ = T * (Ry * X) * Qi := by rw [hS, Matrix.mul_one, Matrix.mul_assoc T Ry X]
      _ = -(T * Rx * Qi) := by rw [hRX, Matrix.mul_neg, Matrix.neg_mul]
  rw [← direct_eq_implicit (P * Fx * Qi) (P * Fy * Si) (T * Ry * Si) (T * Rx * Qi) (S * X * Qi)
    hdet hsol, ← direct_eq_implicit Fx Fy Ry Rx X hR hRX]
  calc P * Fx * Qi + P * Fy * Si * (S * X * Qi) = P * Fx * Qi + P * Fy * (Si * S) * X * Qi := by
        simp only [Matrix.mul_assoc]
    _ = P * (Fx + Fy * X) * Qi := by
        rw [hS, Matrix.mul_one, Matrix.mul_add, Matrix.add_mul, Matrix.mul_assoc P Fy X]

/-- Entry of a matrix scaled on the rows and on the columns by diagonal matrices. -/
theorem diagonal_mul_mul_diagonal_apply {r c : Type*} [Fintype r] [DecidableEq r] [Fintype c]
    [DecidableEq c] (a : r → K) (b : c → K) (M : Matrix r c K) (i : r) (j : c) :
    (diagonal a * M * diagonal b) i j = a i * M i j * b j := by
  rw [Matrix.mul_diagonal, Matrix.diagonal_mul]

end GV.C07.Alg
