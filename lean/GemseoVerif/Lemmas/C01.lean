/-
Helper lemmas for C01: the database as an association structure (`store` / `lookupOut`),
and the gradient-scaling round trip used when a Jacobian is served from the database.
-/
import GemseoVerif.Model.C01
import GemseoVerif.Lemmas.C02

namespace GV.C01
open GV.C02

/-! ### setOut / store -/

private theorem find_replace_same (outs : List (OutName × Mat)) (n : OutName) (v : Mat)
    (hany : outs.any (fun p => p.1 == n) = true) :
    ((outs.map (fun p => if p.1 == n then (n, v) else p)).find? (fun p => p.1 == n)).map (·.2)
      = some v := by
  induction outs with
  | nil => simp at hany
  | cons p ps ih =>
    simp only [List.map_cons]
    by_cases hp : p.1 == n
    · simp [hp]
    · simp only [hp, Bool.false_eq_true, if_false, List.find?_cons]
      simp only [List.any_cons, hp, Bool.false_or] at hany
      exact ih hany

private theorem find_replace_other (outs : List (OutName × Mat)) (n m : OutName) (v : Mat)
    (h : m ≠ n) :
    ((outs.map (fun p => if p.1 == n then (n, v) else p)).find? (fun p => p.1 == m)).map (·.2)
      = (outs.find? (fun p => p.1 == m)).map (·.2) := by
  have hnm : (n == m) = false := by
    simp only [beq_eq_false_iff_ne, ne_eq]; exact fun e => h e.symm
  induction outs with
  | nil => rfl
  | cons p ps ih =>
    simp only [List.map_cons]
    by_cases hp : p.1 == n
    · have hpn : p.1 = n := by simpa using hp
      have hpm : (p.1 == m) = false := by rw [hpn]; exact hnm
      simp only [hp, if_true, List.find?_cons, hnm, hpm]
      exact ih
    · simp only [hp, Bool.false_eq_true, if_false, List.find?_cons]
      by_cases hpm : p.1 == m
      · simp [hpm]
      · simp only [hpm]; exact ih

theorem find_setOut_same (outs : List (OutName × Mat)) (n : OutName) (v : Mat) :
    ((setOut outs n v).find? (fun p => p.1 == n)).map (·.2) = some v := by
  unfold setOut
  by_cases hany : outs.any (fun p => p.1 == n) = true
  · simp only [hany, if_true]
    exact find_replace_same outs n v hany
  · simp only [hany, Bool.false_eq_true, if_false]
    rw [List.find?_append]
    have hnone : outs.find? (fun p => p.1 == n) = none := by
      apply List.find?_eq_none.mpr
      intro p hp hpn
      exact hany (List.any_eq_true.mpr ⟨p, hp, hpn⟩)
    simp [hnone]

theorem find_setOut_other (outs : List (OutName × Mat)) (n m : OutName) (v : Mat) (h : m ≠ n) :
    ((setOut outs n v).find? (fun p => p.1 == m)).map (·.2)
      = (outs.find? (fun p => p.1 == m)).map (·.2) := by
  unfold setOut
  by_cases hany : outs.any (fun p => p.1 == n) = true
  · simp only [hany, if_true]
    exact find_replace_other outs n m v h
  · simp only [hany, Bool.false_eq_true, if_false]
    rw [List.find?_append]
    have hnm : (n == m) = false := by
      simp only [beq_eq_false_iff_ne, ne_eq]; exact fun e => h e.symm
    cases hf : outs.find? (fun p => p.1 == m) with
    | none => simp [hnm]
    | some q => simp

theorem store_keys (db : List Entry) (k : List Rat) (n : OutName) (v : Mat) :
    (store db k n v).map (·.key) =
      if db.any (fun e => e.key == k) then db.map (·.key) else db.map (·.key) ++ [k] := by
  unfold store
  by_cases hany : db.any (fun e => e.key == k) = true
  · simp only [hany, if_true, List.map_map]
    apply List.map_congr_left
    intro e _
    simp only [Function.comp]
    split <;> rfl
  · simp [hany]

/-- Entry found for `k'` after a store at an existing key `k`. -/
private theorem lookupEntry_store_hit (db : List Entry) (k k' : List Rat) (n : OutName) (v : Mat) :
    (db.map (fun e => if e.key == k then { e with outs := setOut e.outs n v } else e)).find?
        (fun e => e.key == k')
      = (db.find? (fun e => e.key == k')).map
          (fun e => if e.key == k then { e with outs := setOut e.outs n v } else e) := by
  induction db with
  | nil => rfl
  | cons e es ih =>
    simp only [List.map_cons, List.find?_cons]
    have hkey : (if (e.key == k) = true then ({ e with outs := setOut e.outs n v } : Entry) else e).key
        = e.key := by split <;> rfl
    rw [hkey]
    by_cases hk' : e.key == k'
    · simp [hk']
    · simp only [hk']; exact ih

theorem lookupOut_store_same (db : List Entry) (k : List Rat) (n : OutName) (v : Mat) :
    lookupOut (store db k n v) k n = some v := by
  unfold lookupOut lookupEntry store
  by_cases hany : db.any (fun e => e.key == k) = true
  · simp only [hany, if_true]
    rw [lookupEntry_store_hit]
    obtain ⟨e, he, hek⟩ := List.any_eq_true.mp hany
    cases hf : db.find? (fun e => e.key == k) with
    | none =>
      exfalso
      have := List.find?_eq_none.mp hf e he
      exact this hek
    | some e0 =>
      have hk0 : (e0.key == k) = true := by
        have := List.find?_some (p := fun e : Entry => e.key == k) hf
        simpa using this
      simp only [Option.map_some, hk0, if_true]
      exact find_setOut_same e0.outs n v
  · simp only [hany, Bool.false_eq_true, if_false]
    rw [List.find?_append]
    have hnone : db.find? (fun e => e.key == k) = none := by
      apply List.find?_eq_none.mpr
      intro e he hek
      exact hany (List.any_eq_true.mpr ⟨e, he, hek⟩)
    simp [hnone]

theorem lookupOut_store_other (db : List Entry) (k k' : List Rat) (n n' : OutName) (v : Mat)
    (h : k' ≠ k ∨ n' ≠ n) :
    lookupOut (store db k n v) k' n' = lookupOut db k' n' := by
  unfold lookupOut lookupEntry store
  by_cases hany : db.any (fun e => e.key == k) = true
  · simp only [hany, if_true]
    rw [lookupEntry_store_hit]
    cases hf : db.find? (fun e => e.key == k') with
    | none => rfl
    | some e0 =>
      have hk0 : (e0.key == k') = true := by
        have := List.find?_some (p := fun e : Entry => e.key == k') hf
        simpa using this
      simp only [Option.map_some]
      by_cases hek : e0.key == k
      · simp only [hek, if_true]
        have hkk : k' = k := by
          have h1 : e0.key = k' := by simpa using hk0
          have h2 : e0.key = k := by simpa using hek
          rw [← h1, h2]
        have hn : n' ≠ n := by
          rcases h with h | h
          · exact absurd hkk h
          · exact h
        exact find_setOut_other e0.outs n n' v hn
      · simp [hek]
  · simp only [hany, Bool.false_eq_true, if_false]
    rw [List.find?_append]
    cases hf : db.find? (fun e => e.key == k') with
    | some e => simp
    | none =>
      simp only [Option.none_or, List.find?_cons, List.find?_nil]
      by_cases hk' : k == k'
      · have hkk : k = k' := by simpa using hk'
        have hn : n' ≠ n := by
          rcases h with h | h
          · exact absurd hkk.symm h
          · exact h
        have hnm : (n == n') = false := by
          simp only [beq_eq_false_iff_ne, ne_eq]; exact fun e => hn e.symm
        simp [hk', hnm]
      · simp [hk']

/-! ### gradient scaling round trip -/

theorem gradComp_round_trip (n : Bool) (l u : Option Rat) (g : Rat) :
    unnormComp false n l u (normComp false n l u (unnormComp false n l u g))
      = unnormComp false n l u g := by
  cases n
  · simp [unnormComp, normComp]
  · simp only [unnormComp, normComp, if_true, Bool.false_eq_true, if_false, add_zero, invScaleOf]
    by_cases hs : scaleOf l u = 0
    · simp [hs]
    · simp only [hs, if_false]
      field_simp

theorem zipWith4_triple {α β γ : Type} (f g : α → β → γ → Rat → Rat)
    (h : ∀ a b c x, f a b c (g a b c (f a b c x)) = f a b c x) :
    ∀ (as : List α) (bs : List β) (cs : List γ) (xs : List Rat),
      zipWith4 f as bs cs (zipWith4 g as bs cs (zipWith4 f as bs cs xs)) = zipWith4 f as bs cs xs := by
  intro as
  induction as with
  | nil => intro bs cs xs; simp [zipWith4]
  | cons a as ih =>
    intro bs cs xs
    cases bs with
    | nil => simp [zipWith4]
    | cons b bs =>
      cases cs with
      | nil => simp [zipWith4]
      | cons c cs =>
        cases xs with
        | nil => simp [zipWith4]
        | cons x xs => simp only [zipWith4, h, ih]

/-- `normalize_grad ∘ unnormalize_grad ∘ normalize_grad = normalize_grad`: what is served from the
    database equals what was returned the first time (also on components with `lb = ub`). -/
theorem normalizeGrad_round_trip (ds : DS) (g : List Rat) :
    ds.normalizeGrad (ds.unnormalizeGrad (ds.normalizeGrad g)) = ds.normalizeGrad g := by
  unfold DS.normalizeGrad DS.unnormalizeGrad DS.unnormalizeVect DS.normalizeVect
  simp only [Bool.false_eq_true, if_false]
  exact zipWith4_triple (fun n l u x => unnormComp false n l u x) (fun n l u x => normComp false n l u x)
    gradComp_round_trip _ _ _ _

end GV.C01
