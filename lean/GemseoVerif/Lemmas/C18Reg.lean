/-
C18 — the regressor wrapper: `predict = T_out⁻¹ ∘ g ∘ T_in` ⇒ `predict_jacobian` (the product
`J_{T_out⁻¹} · J_g · J_{T_in}` computed by `transform_jacobian`) is the derivative of `predict`,
in every direction, for every core model `g` whose own Jacobian is exact; linear regression is
such a core (`J = W`); RBF networks reproduce their learning data when their weights solve the
interpolation system; the surrogate discipline's blocks are the entries of the Jacobian.
-/
import GemseoVerif.Lemmas.C18Pipe
import Mathlib.Analysis.Calculus.Deriv.Add
import Mathlib.Analysis.Calculus.Deriv.Mul

namespace GV.C18

theorem hasDerivAt_sumTo (n : ℕ) (g : ℕ → ℝ → ℝ) (g' : ℕ → ℝ) (t : ℝ)
    (h : ∀ j, j < n → HasDerivAt (g j) (g' j) t) :
    HasDerivAt (fun s => sumTo n (fun j => g j s)) (sumTo n g') t := by
  induction n with
  | zero => simpa [sumTo] using hasDerivAt_const t (0 : ℝ)
  | succ k ih =>
    simp only [sumTo]
    exact HasDerivAt.fun_add (ih (fun j hj => h j (Nat.lt_succ_of_lt hj))) (h k (Nat.lt_succ_self k))

/-- `Jg` is the exact Jacobian of the core model `g : ℝ^k → ℝ^m`: `g` reads its first `k` inputs only
    and, for every point `z` and direction `w`, `t ↦ g (z + t w) i` has derivative `(Jg z · w) i` at 0. -/
def HasJac (k m : ℕ) (g : Vec ℝ → Vec ℝ) (Jg : Vec ℝ → Mat ℝ) : Prop :=
  (∀ u v : Vec ℝ, (∀ j, j < k → u j = v j) → ∀ i, i < m → g u i = g v i) ∧
  ∀ (z w : Vec ℝ) (i : ℕ), i < m →
    HasDerivAt (fun t : ℝ => g (fun j => z j + t * w j) i) (mulVec k (Jg z) w i) 0

/-- **Chain rule of the regressor wrapper.** `d` inputs, `k` transformed inputs, `m` transformed
    outputs, `dout` outputs; any pipelines of scalers / linear reductions on both sides. -/
theorem regressor_jacobian_chain_rule (tin tout : List (Step ℝ)) (d k m dout : ℕ)
    (hin : PipeWF tin d) (hk : pipeOutDim tin d = k)
    (hout : PipeWF tout dout) (hm : pipeOutDim tout dout = m)
    (g : Vec ℝ → Vec ℝ) (Jg : Vec ℝ → Mat ℝ) (hg : HasJac k m g Jg) (x v : Vec ℝ) :
    ∀ i, i < dout →
      HasDerivAt (fun t : ℝ => regPredict tin tout g (fun j => x j + t * v j) i)
        (mulVec d (regJac tin tout k m Jg x) v i) 0 := by
  intro i hi
  set z := pipeTransform tin x with hz
  set w : Vec ℝ := fun j => mulVec d (pipeJac tin) v j with hw
  -- the transformed input moves along `w`
  have hT : ∀ t : ℝ, ∀ j, j < k →
      pipeTransform tin (fun j => x j + t * v j) j = z j + t * w j := by
    intro t j hj
    rw [pipeTransform_increment tin d hin x (fun j => t * v j) j (by rw [hk]; exact hj),
      mulVec_smul]
  set G : ℝ → Vec ℝ := fun t l => g (fun j => z j + t * w j) l with hG
  have hG0 : ∀ l, G 0 l = g z l := by
    intro l
    simp only [hG]
    congr 1
    funext j; ring
  -- the prediction as an affine function of `G t`
  have hP : ∀ t : ℝ, regPredict tin tout g (fun j => x j + t * v j) i
      = pipeInverse tout (G 0) i
        + sumTo m (fun l => pipeJacInv tout i l * (G t l - G 0 l)) := by
    intro t
    unfold regPredict
    have h1 : pipeInverse tout (g (pipeTransform tin (fun j => x j + t * v j))) i
        = pipeInverse tout (G t) i :=
      pipeInverse_congr tout dout hout _ _
        (fun l hl => hg.1 _ _ (fun j hj => hT t j hj) l (by rw [← hm]; exact hl)) i hi
    have h3 : pipeInverse tout (G t) i
        = pipeInverse tout (fun l => G 0 l + (G t l - G 0 l)) i := by
      congr 1
      funext l; ring
    rw [h1, h3, pipeInverse_increment tout dout hout (G 0) (fun l => G t l - G 0 l) i hi, hm]
    rfl
  have hfun : (fun t : ℝ => regPredict tin tout g (fun j => x j + t * v j) i)
      = fun t => pipeInverse tout (G 0) i
        + sumTo m (fun l => pipeJacInv tout i l * (G t l - G 0 l)) := funext hP
  rw [hfun]
  have hsum : HasDerivAt (fun t : ℝ => sumTo m (fun l => pipeJacInv tout i l * (G t l - G 0 l)))
      (sumTo m (fun l => pipeJacInv tout i l * mulVec k (Jg z) w l)) 0 :=
    hasDerivAt_sumTo m _ _ 0 (fun l hl =>
      ((hg.2 z w l hl).sub_const (G 0 l)).const_mul (pipeJacInv tout i l))
  have hd := hsum.const_add (pipeInverse tout (G 0) i)
  -- the accumulated matrix product is this sum
  have hval : mulVec d (regJac tin tout k m Jg x) v i
      = sumTo m (fun l => pipeJacInv tout i l * mulVec k (Jg z) w l) := by
    unfold regJac
    rw [mulVec_matMul, ← hz]
    show sumTo m (fun l => pipeJacInv tout i l * mulVec d (matMul k (Jg z) (pipeJac tin)) v l) = _
    exact sumTo_congr (fun l _ => by rw [mulVec_matMul])
  rw [hval]
  exact hd

/-- **Linear regression**: the coefficient matrix is the exact Jacobian. -/
theorem linreg_jac (k m : ℕ) (W : Mat ℝ) (b : Vec ℝ) : HasJac k m (linPredict k W b) (linJac W) := by
  refine ⟨fun u v huv i _ => ?_, fun z w i _ => ?_⟩
  · unfold linPredict
    congr 1
    exact sumTo_congr (fun j hj => by rw [huv j hj])
  · unfold linPredict linJac mulVec
    have : HasDerivAt (fun t : ℝ => sumTo k (fun j => W i j * (z j + t * w j)))
        (sumTo k (fun j => W i j * w j)) 0 :=
      hasDerivAt_sumTo k _ _ 0 (fun j _ => by
        have h1 : HasDerivAt (fun t : ℝ => z j + t * w j) (w j) 0 := by
          simpa using ((hasDerivAt_id (0 : ℝ)).mul_const (w j)).const_add (z j)
        exact h1.const_mul (W i j))
    exact this.add_const (b i)

/-! ### Interpolating kernel models reproduce their learning data -/

/-- `Σ_k w_k φ(x, c_k) + avg` with an arbitrary kernel `κ x c` (e.g. `φ(‖x − c‖)`). -/
def kernelPredict {K : Type} [Field K] (n : ℕ) (κ : Vec K → Vec K → K) (centres : ℕ → Vec K)
    (w : ℕ → Vec K) (avg : Vec K) (x : Vec K) : Vec K :=
  fun i => sumTo n (fun k => w k i * κ x (centres k)) + avg i

/-- If the weights solve the interpolation system `Φ w = y − avg` (what `scipy.interpolate.Rbf`
    solves with `smooth = 0` after `RBFRegressor._fit` has centred the outputs), the model
    reproduces the learning outputs at the learning inputs. -/
theorem interpolating_reproduces_data {K : Type} [Field K] (n : ℕ) (κ : Vec K → Vec K → K)
    (centres : ℕ → Vec K) (w : ℕ → Vec K) (avg : Vec K) (y : ℕ → Vec K)
    (hfit : ∀ l i, l < n → sumTo n (fun k => κ (centres l) (centres k) * w k i) = y l i - avg i) :
    ∀ l i, l < n → kernelPredict n κ centres w avg (centres l) i = y l i := by
  intro l i hl
  unfold kernelPredict
  have : sumTo n (fun k => w k i * κ (centres l) (centres k))
      = sumTo n (fun k => κ (centres l) (centres k) * w k i) :=
    sumTo_congr (fun k _ => by ring)
  rw [this, hfit l i hl]
  ring

/-! ### Surrogate discipline: the blocks by names are the entries of the model's Jacobian -/

theorem splitBlock_apply {K : Type} [Field K] (outSizes inSizes : List ℕ) (J : Mat K) (o i a b : ℕ) :
    splitBlock outSizes inSizes J o i a b = J (offsetOf outSizes o + a) (offsetOf inSizes i + b) := rfl

theorem offsetOf_succ (sizes : List ℕ) (n : ℕ) (hn : n < sizes.length) :
    offsetOf sizes (n + 1) = offsetOf sizes n + sizes[n] := by
  unfold offsetOf
  rw [List.take_succ_eq_append_getElem hn, List.foldl_append]
  simp

/-- Every row index below the total size belongs to exactly one variable: the blocks tile the array. -/
theorem locate (sizes : List ℕ) (r : ℕ) (hr : r < offsetOf sizes sizes.length) :
    ∃ n a, ∃ hn : n < sizes.length, a < sizes[n] ∧ r = offsetOf sizes n + a := by
  have key : ∀ m, m ≤ sizes.length → r < offsetOf sizes m →
      ∃ n a, ∃ hn : n < sizes.length, a < sizes[n] ∧ r = offsetOf sizes n + a := by
    intro m
    induction m with
    | zero => intro _ h; simp [offsetOf] at h
    | succ m ih =>
      intro hm h
      have hlt : m < sizes.length := hm
      by_cases hr' : r < offsetOf sizes m
      · exact ih (Nat.le_of_lt hlt) hr'
      · rw [offsetOf_succ sizes m hlt] at h
        exact ⟨m, r - offsetOf sizes m, hlt, by omega, by omega⟩
  exact key sizes.length (Nat.le_refl _) hr

end GV.C18
