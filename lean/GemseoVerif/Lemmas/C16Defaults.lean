/-
C16 — lemmas about the default inputs of a discipline during an approximation (Model/C16.lean, last section):
`__hold_other_inputs` (`holdEnter` / `holdExit`), the completion of input data by the default inputs (`complete`),
the discipline as a state machine (`DState`, `DOp`).
-/
import GemseoVerif.Lemmas.C16Hist

namespace GV.C16

/-- Two lists of the same length updated by the same assignments agree at `j` as soon as they agreed at `j`
    before or `j` is assigned. -/
theorem setAll_agree {α : Type} (a b : List α) (ps : List (Nat × α)) (j : Nat) (hl : a.length = b.length)
    (h : a[j]? = b[j]? ∨ j ∈ ps.map Prod.fst) : (setAll a ps)[j]? = (setAll b ps)[j]? := by
  induction ps generalizing a b with
  | nil =>
    rcases h with h | h
    · simpa [setAll] using h
    · simp at h
  | cons p rest ih =>
    simp only [setAll, List.foldl_cons] at ih ⊢
    apply ih (a.set p.1 p.2) (b.set p.1 p.2) (by simp [hl])
    by_cases hpj : p.1 = j
    · left
      subst hpj
      simp [List.getElem?_set, hl]
    · rcases h with h | h
      · left
        simp [hpj, h]
      · right
        simp only [List.map_cons, List.mem_cons] at h
        rcases h with h | h
        · exact absurd h.symm hpj
        · exact h

theorem zip_pickL_fst {α : Type} (d : α) (ic : List Nat) (y : List α) :
    (ic.zip (pickL d ic y)).map Prod.fst = ic := by
  rw [List.map_fst_zip (le_of_eq (pickL_length d ic y).symm)]

/-- Components written from `y` hold the values of `y` afterwards, whatever the list was before — stated as
    agreement with `y` itself. -/
theorem overwriteL_pick_get_mem {α : Type} (d : α) (x y : List α) (ic : List Nat) (j : Nat)
    (hl : x.length = y.length) (hr : ∀ g ∈ ic, g < y.length) (hj : j ∈ ic) :
    (overwriteL x ic (pickL d ic y))[j]? = y[j]? := by
  have h1 := setAll_agree x y (ic.zip (pickL d ic y)) j hl (Or.inr (by rw [zip_pickL_fst]; exact hj))
  have h2 := overwriteL_pick_self d y ic hr
  rw [overwriteL_eq_setAll] at h2 ⊢
  rw [h1, h2]

theorem overwriteL_pick_get_not_mem {α : Type} (d : α) (x y : List α) (ic : List Nat) (j : Nat)
    (hj : j ∉ ic) : (overwriteL x ic (pickL d ic y))[j]? = x[j]? := by
  rw [overwriteL_eq_setAll]
  exact setAll_get_not_mem x _ j (by rw [zip_pickL_fst]; exact hj)

theorem mem_heldOf (n : Nat) (fic : List Nat) (g : Nat) : g ∈ heldOf n fic ↔ g < n ∧ g ∉ fic := by
  simp [heldOf]

theorem holdEnter_length (defaults data : Vec) (held : List Nat) :
    (holdEnter defaults data held).length = defaults.length := by
  simp [holdEnter, overwriteL_length]

/-- `__hold_other_inputs` restores the default inputs: after the context the defaults are what they were
    before, whatever the local data and whatever the held names. -/
theorem holdExit_holdEnter (defaults data : Vec) (held : List Nat) (hr : ∀ g ∈ held, g < defaults.length) :
    holdExit (holdEnter defaults data held) defaults held = defaults := by
  apply List.ext_getElem?
  intro j
  by_cases hj : j ∈ held
  · exact overwriteL_pick_get_mem 0 _ defaults held j (holdEnter_length _ _ _) hr hj
  · unfold holdExit pick
    rw [overwriteL_pick_get_not_mem 0 _ defaults held j hj]
    unfold holdEnter pick
    exact overwriteL_pick_get_not_mem 0 defaults data held j hj

/-- Inside `__hold_other_inputs` the adapter `v ↦ execute({input_names: v})`, which completes its argument with the
    default inputs in force, evaluates the discipline at the local data with the differentiated components replaced
    by its argument: the inputs that are not differentiated keep their CURRENT values (`reqFun`). -/
theorem hold_gives_current_point (defaults data : Vec) (fic : List Nat) (v : Vec)
    (hl : data.length = defaults.length) (hv : fic.length ≤ v.length) :
    overwriteL (holdEnter defaults data (heldOf defaults.length fic)) fic v = overwriteL data fic v := by
  apply List.ext_getElem?
  intro j
  rw [overwriteL_eq_setAll, overwriteL_eq_setAll]
  apply setAll_agree _ _ _ j (by rw [holdEnter_length, hl])
  by_cases hj : j ∈ fic
  · right
    rw [List.map_fst_zip hv]
    exact hj
  · left
    by_cases hjn : j < defaults.length
    · have hmem : j ∈ heldOf defaults.length fic := (mem_heldOf _ _ _).mpr ⟨hjn, hj⟩
      exact overwriteL_pick_get_mem 0 defaults data _ j hl.symm
        (fun g hg => by rw [hl]; exact ((mem_heldOf _ _ _).mp hg).1) hmem
    · have h1 : (holdEnter defaults data (heldOf defaults.length fic)).length ≤ j := by
        rw [holdEnter_length]; omega
      have h2 : data.length ≤ j := by omega
      rw [List.getElem?_eq_none h1, List.getElem?_eq_none h2]

theorem drun_append (sch : Scheme) (par : Bool) (D : Disc) (s : Step) (st : DState) (a b : List DOp) :
    DState.run sch par D s st (a ++ b) =
      ((DState.run sch par D s (DState.run sch par D s st a).1 b).1,
       (DState.run sch par D s st a).2 ++ (DState.run sch par D s (DState.run sch par D s st a).1 b).2) := by
  induction a generalizing st with
  | nil => simp [DState.run]
  | cons o rest ih => simp [DState.run, ih]

/-- No operation changes the default inputs. -/
theorem dop_defaults (sch : Scheme) (par : Bool) (D : Disc) (s : Step) (st : DState) (o : DOp) :
    (st.op sch par D s o).1.defaults = st.defaults := by
  cases o with
  | execute given v => rfl
  | autoStep last => rfl
  | approx r =>
    simp only [DState.op]
    exact holdExit_holdEnter _ _ _ (fun g hg => ((mem_heldOf _ _ _).mp hg).1)

theorem drun_defaults (sch : Scheme) (par : Bool) (D : Disc) (s : Step) (st : DState) (ops : List DOp) :
    (DState.run sch par D s st ops).1.defaults = st.defaults := by
  induction ops generalizing st with
  | nil => rfl
  | cons o rest ih => simp only [DState.run]; rw [ih, dop_defaults]

end GV.C16
