/-
C20 — helper lemmas about the serialization model (`Model/C20.lean`):
association lists, `getstate`, the hooks, the state loop of `__setstate__`, and the
shared-memory invariant (`Inv`) that carries the "fresh cell / original untouched" theorems.
-/
import GemseoVerif.Model.C20

namespace GV.C20

/-! ### Association lists -/

theorem get_set {α : Type} (d : List (String × α)) (k a : String) (v : α) :
    get (set d k v) a = if k = a then some v else get d a := by
  induction d with
  | nil => simp [set, get]
  | cons x r ih =>
    obtain ⟨k', w⟩ := x
    by_cases hk : k' = k
    · subst hk
      by_cases ha : k' = a <;> simp [set, get, ha]
    · by_cases ha : k' = a
      · subst ha
        have : ¬ k = k' := fun h => hk h.symm
        simp [set, get, hk, this]
      · simp [set, get, hk, ha, ih]

theorem get_eq_none_iff {α : Type} (d : List (String × α)) (a : String) :
    get d a = none ↔ a ∉ keys d := by
  induction d with
  | nil => simp [get, keys]
  | cons x r ih =>
    obtain ⟨k, w⟩ := x
    by_cases hk : k = a
    · subst hk; simp [get, keys]
    · have : ¬ a = k := fun h => hk h.symm
      simp [get, hk, this, keys] at ih ⊢
      exact ih

theorem mem_keys_iff_get {α : Type} (d : List (String × α)) (a : String) :
    a ∈ keys d ↔ ∃ v, get d a = some v := by
  constructor
  · intro h
    cases hg : get d a with
    | none => exact absurd h ((get_eq_none_iff d a).1 hg)
    | some v => exact ⟨v, rfl⟩
  · intro ⟨v, hv⟩
    by_cases h : a ∈ keys d
    · exact h
    · rw [(get_eq_none_iff d a).2 h] at hv; cases hv

theorem mem_keys_set {α : Type} (d : List (String × α)) (k a : String) (v : α) :
    a ∈ keys (set d k v) ↔ a = k ∨ a ∈ keys d := by
  rw [mem_keys_iff_get, mem_keys_iff_get]
  by_cases h : k = a
  · subst h; simp [get_set]
  · have : ¬ a = k := fun e => h e.symm
    simp [get_set, h, this]

theorem mem_of_get {α : Type} (d : List (String × α)) (a : String) (v : α) (h : get d a = some v) :
    (a, v) ∈ d := by
  induction d with
  | nil => simp [get] at h
  | cons x r ih =>
    obtain ⟨k, w⟩ := x
    by_cases hk : k = a
    · subst hk; simp [get] at h; subst h; simp
    · simp [get, hk] at h; exact List.mem_cons_of_mem _ (ih h)

/-- With unique keys, membership determines `get`. -/
theorem get_of_mem {α : Type} (d : List (String × α)) (a : String) (v : α)
    (hn : (keys d).Nodup) (h : (a, v) ∈ d) : get d a = some v := by
  induction d with
  | nil => cases h
  | cons x r ih =>
    obtain ⟨k, w⟩ := x
    simp only [keys, List.map_cons, List.nodup_cons] at hn
    rcases List.mem_cons.1 h with h | h
    · cases h; simp [get]
    · have hak : a ∈ keys r := List.mem_map.2 ⟨(a, v), h, rfl⟩
      have : ¬ k = a := fun e => hn.1 (e ▸ hak)
      simp [get, this]; exact ih hn.2 h

/-! ### `__getstate__` -/

theorem get_getstate (s : Spec) (o : Obj) (h : Heap) (a : String) :
    get (getstate s o h) a = if s.excluded.contains a then none else (get o a).map (toS h) := by
  induction o with
  | nil => simp [getstate, get]
  | cons x r ih =>
    obtain ⟨k, w⟩ := x
    unfold getstate at ih ⊢
    by_cases hk : k = a
    · subst hk
      by_cases he : k ∈ s.excluded
      · simp [he] at ih ⊢; exact ih
      · simp [he, get]
    · by_cases he : k ∈ s.excluded
      · simp [he, get, hk] at ih ⊢; exact ih
      · simp [he, get, hk] at ih ⊢; exact ih

theorem keys_getstate (s : Spec) (o : Obj) (h : Heap) :
    keys (getstate s o h) = (keys o).filter (fun k => !s.excluded.contains k) := by
  induction o with
  | nil => simp [getstate, keys]
  | cons x r ih =>
    obtain ⟨k, w⟩ := x
    unfold getstate keys at ih ⊢
    by_cases he : k ∈ s.excluded
    · simp [he] at ih ⊢; exact ih
    · simp [he] at ih ⊢; exact ih

theorem nodup_keys_getstate (s : Spec) (o : Obj) (h : Heap) (hn : (keys o).Nodup) :
    (keys (getstate s o h)).Nodup := by
  rw [keys_getstate]; exact hn.filter _

theorem fromS_ne_sync (sv : SVal) (c : Nat) : fromS sv ≠ .sync c := by
  cases sv <;> simp [fromS]

/-! ### Hooks -/

/-- The value a hook statement assigns, given the current size of the shared memory. -/
def initVal (n : Nat) : Init → Val
  | .mkSync _ => .sync n
  | .mkPlain v => .plain v
  | .mkPath p => .path p
  | .mkLock => .lock

/-- The cells a hook statement allocates. -/
def initCells : Init → List Rat
  | .mkSync v => [v]
  | _ => []

theorem runInit_fst (oh : Obj × Heap) (ki : String × Init) :
    (runInit oh ki).1 = set oh.1 ki.1 (initVal oh.2.length ki.2) := by
  obtain ⟨k, i⟩ := ki
  cases i <;> simp [runInit, initVal]

theorem runInit_snd (oh : Obj × Heap) (ki : String × Init) :
    (runInit oh ki).2 = oh.2 ++ initCells ki.2 := by
  obtain ⟨k, i⟩ := ki
  cases i <;> simp [runInit, initCells]

theorem get_runInit (oh : Obj × Heap) (ki : String × Init) (a : String) :
    get (runInit oh ki).1 a = if ki.1 = a then some (initVal oh.2.length ki.2) else get oh.1 a := by
  rw [runInit_fst, get_set]

theorem runHook_nil (oh : Obj × Heap) : runHook [] oh = oh := rfl

theorem runHook_cons (ki : String × Init) (hook : List (String × Init)) (oh : Obj × Heap) :
    runHook (ki :: hook) oh = runHook hook (runInit oh ki) := rfl

theorem get_runHook_of_not_mem (hook : List (String × Init)) (oh : Obj × Heap) (a : String)
    (ha : a ∉ keys hook) : get (runHook hook oh).1 a = get oh.1 a := by
  induction hook generalizing oh with
  | nil => rfl
  | cons ki r ih =>
    simp only [keys, List.map_cons, List.mem_cons, not_or] at ha
    rw [runHook_cons, ih _ ha.2, get_runInit]
    have : ¬ ki.1 = a := fun e => ha.1 e.symm
    simp [this]

theorem mem_keys_runHook (hook : List (String × Init)) (oh : Obj × Heap) (a : String) :
    a ∈ keys (runHook hook oh).1 ↔ a ∈ keys hook ∨ a ∈ keys oh.1 := by
  induction hook generalizing oh with
  | nil => simp [runHook_nil, keys]
  | cons ki r ih =>
    rw [runHook_cons, ih, runInit_fst, mem_keys_set]
    simp only [keys, List.map_cons, List.mem_cons]
    constructor
    · rintro (h | h | h)
      · exact Or.inl (Or.inr h)
      · exact Or.inl (Or.inl h)
      · exact Or.inr h
    · rintro ((h | h) | h)
      · exact Or.inr (Or.inl h)
      · exact Or.inl h
      · exact Or.inr (Or.inr h)

theorem length_runHook_le (hook : List (String × Init)) (oh : Obj × Heap) :
    oh.2.length ≤ (runHook hook oh).2.length := by
  induction hook generalizing oh with
  | nil => exact Nat.le_refl _
  | cons ki r ih =>
    rw [runHook_cons]
    refine Nat.le_trans ?_ (ih _)
    rw [runInit_snd]; simp

/-- A hook never writes into an existing cell. -/
theorem getD_runHook (hook : List (String × Init)) (oh : Obj × Heap) (c : Nat) (hc : c < oh.2.length) :
    (runHook hook oh).2.getD c 0 = oh.2.getD c 0 := by
  induction hook generalizing oh with
  | nil => rfl
  | cons ki r ih =>
    rw [runHook_cons, ih]
    · rw [runInit_snd]; simp [List.getD_eq_getElem?_getD, List.getElem?_append_left hc]
    · rw [runInit_snd]; simp; omega

/-- If every statement of the hook that assigns `a` assigns a new `Value`, then after the hook `a` is a
    `Value` (when the hook assigns it at all, or when it was one before). -/
theorem get_runHook_sync (hook : List (String × Init)) (oh : Obj × Heap) (a : String)
    (hs : ∀ ki ∈ hook, ki.1 = a → ∃ v0, ki.2 = .mkSync v0)
    (hm : a ∈ keys hook ∨ ∃ c, get oh.1 a = some (.sync c)) :
    ∃ c, get (runHook hook oh).1 a = some (.sync c) := by
  induction hook generalizing oh with
  | nil =>
    rcases hm with h | h
    · simp [keys] at h
    · exact h
  | cons ki r ih =>
    rw [runHook_cons]
    apply ih
    · intro kj hj; exact hs kj (List.mem_cons_of_mem _ hj)
    · by_cases hk : ki.1 = a
      · right
        obtain ⟨v0, hv⟩ := hs ki (List.mem_cons_self ..) hk
        exact ⟨oh.2.length, by rw [get_runInit]; simp [hk, hv, initVal]⟩
      · rcases hm with h | ⟨c, h⟩
        · left
          simp only [keys, List.map_cons, List.mem_cons] at h
          rcases h with h | h
          · exact absurd h.symm hk
          · exact h
        · right; exact ⟨c, by rw [get_runInit]; simp [hk, h]⟩

/-! ### The loop over the state -/

theorem get_stepItem (oh : Obj × Heap) (kv : String × SVal) (a : String) :
    get (stepItem oh kv).1 a =
      match get oh.1 a with
      | some v => some v
      | none => if kv.1 = a then some (fromS kv.2) else none := by
  obtain ⟨k, sv⟩ := kv
  unfold stepItem
  cases hg : get oh.1 k with
  | none =>
    simp only [get_set]
    by_cases hk : k = a
    · subst hk; simp [hg]
    · simp [hk]; cases get oh.1 a <;> rfl
  | some w =>
    have key : ∀ (x : Obj × Heap), x.1 = oh.1 →
        get x.1 a = match get oh.1 a with
          | some v => some v
          | none => if k = a then some (fromS sv) else none := by
      intro x hx
      rw [hx]
      by_cases hk : k = a
      · subst hk; simp [hg]
      · simp [hk]; cases get oh.1 a <;> rfl
    cases w with
    | sync c => cases sv <;> exact key _ rfl
    | plain v => exact key _ rfl
    | path p => exact key _ rfl
    | lock => exact key _ rfl

theorem get_foldl_stepItem (st : PState) (oh : Obj × Heap) (a : String) :
    get (st.foldl stepItem oh).1 a =
      match get oh.1 a with
      | some v => some v
      | none => (get st a).map fromS := by
  induction st generalizing oh with
  | nil => simp [get]; cases get oh.1 a <;> rfl
  | cons kv r ih =>
    rw [List.foldl_cons, ih, get_stepItem]
    cases hg : get oh.1 a with
    | some v => rfl
    | none =>
      by_cases hk : kv.1 = a
      · simp [hk, get]
      · simp [hk, get]

/-! ### The shared-memory invariant -/

/-- Invariant of `__setstate__` run next to a live original whose cells are `h`:
    the original's cells keep their values, every cell the new object refers to was allocated
    after them, and two attributes never share a cell. -/
structure Inv (h : Heap) (oh : Obj × Heap) : Prop where
  pre : oh.2.take h.length = h
  le : h.length ≤ oh.2.length
  fresh : ∀ k c, get oh.1 k = some (.sync c) → h.length ≤ c ∧ c < oh.2.length
  inj : ∀ k1 k2 c, get oh.1 k1 = some (.sync c) → get oh.1 k2 = some (.sync c) → k1 = k2

theorem Inv.init (h : Heap) : Inv h ([], h) :=
  ⟨by simp, Nat.le_refl _, by intro k c hk; simp [get] at hk, by intro k1 k2 c hk; simp [get] at hk⟩

theorem Inv.of_runInit {h : Heap} {oh : Obj × Heap} (hi : Inv h oh) (ki : String × Init) :
    Inv h (runInit oh ki) := by
  obtain ⟨k, i⟩ := ki
  have hpre : ((oh.2 ++ initCells i).take h.length) = h := by
    rw [List.take_append_of_le_length hi.le]; exact hi.pre
  have hle : h.length ≤ (oh.2 ++ initCells i).length := by
    simp; have := hi.le; omega
  refine ⟨by rw [runInit_snd]; exact hpre, by rw [runInit_snd]; exact hle, ?_, ?_⟩
  · intro k' c hk
    rw [get_runInit] at hk
    rw [runInit_snd]
    by_cases hkk : k = k'
    · simp only [hkk, if_true] at hk
      cases i <;> simp [initVal] at hk
      subst hk
      simp [initCells]; exact hi.le
    · simp only [hkk, if_false] at hk
      have := hi.fresh k' c hk
      simp; omega
  · intro k1 k2 c h1 h2
    rw [get_runInit] at h1 h2
    by_cases e1 : k = k1 <;> by_cases e2 : k = k2
    · rw [← e1, ← e2]
    · rw [if_pos e1] at h1; rw [if_neg e2] at h2
      cases i <;> simp [initVal] at h1
      have := hi.fresh k2 c h2
      omega
    · rw [if_neg e1] at h1; rw [if_pos e2] at h2
      cases i <;> simp [initVal] at h2
      have := hi.fresh k1 c h1
      omega
    · rw [if_neg e1] at h1; rw [if_neg e2] at h2
      exact hi.inj k1 k2 c h1 h2

theorem Inv.of_runHook {h : Heap} (hook : List (String × Init)) {oh : Obj × Heap} (hi : Inv h oh) :
    Inv h (runHook hook oh) := by
  induction hook generalizing oh with
  | nil => exact hi
  | cons ki r ih => rw [runHook_cons]; exact ih (hi.of_runInit ki)

theorem stepItem_snd_length (oh : Obj × Heap) (kv : String × SVal) :
    (stepItem oh kv).2.length = oh.2.length := by
  unfold stepItem
  cases get oh.1 kv.1 with
  | none => rfl
  | some w =>
    cases w with
    | sync c => cases kv.2 <;> simp
    | plain v => rfl
    | path p => rfl
    | lock => rfl

theorem Inv.of_stepItem {h : Heap} {oh : Obj × Heap} (hi : Inv h oh) (kv : String × SVal) :
    Inv h (stepItem oh kv) := by
  have hget := get_stepItem oh kv
  have hlen := stepItem_snd_length oh kv
  have hpre : (stepItem oh kv).2.take h.length = h := by
    unfold stepItem
    cases hg : get oh.1 kv.1 with
    | none => exact hi.pre
    | some w =>
      cases w with
      | sync c =>
        cases kv.2 with
        | num v =>
          have := (hi.fresh kv.1 c hg).1
          simp only []
          rw [List.take_set_of_le this]; exact hi.pre
        | ppath p => exact hi.pre
        | unpicklable => exact hi.pre
      | plain v => exact hi.pre
      | path p => exact hi.pre
      | lock => exact hi.pre
  have hsync : ∀ k c, get (stepItem oh kv).1 k = some (.sync c) → get oh.1 k = some (.sync c) := by
    intro k c hk
    rw [hget] at hk
    cases hg : get oh.1 k with
    | some v => simpa [hg] using hk
    | none =>
      simp only [hg] at hk
      by_cases e : kv.1 = k
      · simp [e] at hk; exact absurd hk (fromS_ne_sync _ _)
      · simp [e] at hk
  refine ⟨hpre, by rw [hlen]; exact hi.le, ?_, ?_⟩
  · intro k c hk
    rw [hlen]; exact hi.fresh k c (hsync k c hk)
  · intro k1 k2 c h1 h2
    exact hi.inj k1 k2 c (hsync _ _ h1) (hsync _ _ h2)

theorem Inv.of_foldl {h : Heap} (st : PState) {oh : Obj × Heap} (hi : Inv h oh) :
    Inv h (st.foldl stepItem oh) := by
  induction st generalizing oh with
  | nil => exact hi
  | cons kv r ih => rw [List.foldl_cons]; exact ih (hi.of_stepItem kv)

theorem restore_inv (s : Spec) (o : Obj) (h : Heap) : Inv h (restore s o h) := by
  unfold restore setstate
  exact ((((Inv.init h).of_runHook s.before).of_foldl _).of_runHook s.after).of_runHook s.post

/-! ### A `Value` re-created before the loop receives the pickled number -/

/-- A state item for another attribute does not touch the cell of `a`. -/
theorem getD_stepItem_of_ne {h : Heap} {oh : Obj × Heap} (hi : Inv h oh) (kv : String × SVal)
    (a : String) (c : Nat) (ha : get oh.1 a = some (.sync c)) (hne : kv.1 ≠ a) :
    (stepItem oh kv).2.getD c 0 = oh.2.getD c 0 := by
  unfold stepItem
  cases hg : get oh.1 kv.1 with
  | none => rfl
  | some w =>
    cases w with
    | sync c2 =>
      cases kv.2 with
      | num v =>
        have hcc : c2 ≠ c := by
          intro e; subst e
          exact hne (hi.inj _ _ _ hg ha)
        simp [List.getD_eq_getElem?_getD, List.getElem?_set_ne hcc]
      | ppath p => rfl
      | unpicklable => rfl
    | plain v => rfl
    | path p => rfl
    | lock => rfl

theorem getD_foldl_of_not_mem {h : Heap} (st : PState) {oh : Obj × Heap} (hi : Inv h oh)
    (a : String) (c : Nat) (ha : get oh.1 a = some (.sync c)) (hn : a ∉ keys st) :
    (st.foldl stepItem oh).2.getD c 0 = oh.2.getD c 0 := by
  induction st generalizing oh with
  | nil => rfl
  | cons kv r ih =>
    simp only [keys, List.map_cons, List.mem_cons, not_or] at hn
    have hne : kv.1 ≠ a := fun e => hn.1 e.symm
    rw [List.foldl_cons, ih (hi.of_stepItem kv) (by rw [get_stepItem, ha]) hn.2,
      getD_stepItem_of_ne hi kv a c ha hne]

theorem getD_foldl_carried {h : Heap} (st : PState) {oh : Obj × Heap} (hi : Inv h oh)
    (a : String) (c : Nat) (v : Rat) (ha : get oh.1 a = some (.sync c))
    (hn : (keys st).Nodup) (hv : get st a = some (.num v)) :
    (st.foldl stepItem oh).2.getD c 0 = v := by
  induction st generalizing oh with
  | nil => simp [get] at hv
  | cons kv r ih =>
    simp only [keys, List.map_cons, List.nodup_cons] at hn
    rw [List.foldl_cons]
    by_cases hk : kv.1 = a
    · have hkv : kv.2 = .num v := by
        obtain ⟨k, sv⟩ := kv
        simp only at hk; subst hk
        simpa [get] using hv
      have hnr : a ∉ keys r := by rw [← hk]; exact hn.1
      rw [getD_foldl_of_not_mem r (hi.of_stepItem kv) a c (by rw [get_stepItem, ha]) hnr]
      have hc := (hi.fresh a c ha).2
      unfold stepItem
      rw [hk, ha, hkv]
      simp [List.getD_eq_getElem?_getD, hc]
    · have hv' : get r a = some (.num v) := by
        obtain ⟨k, sv⟩ := kv
        simpa [get, hk] using hv
      rw [ih (hi.of_stepItem kv) (by rw [get_stepItem, ha]) hn.2 hv']

/-! ### Grammar defaults -/

theorem defaultsUpdate_append (props : List (String × Nat)) (d l : List (String × Rat))
    (hn : (keys (d ++ l)).Nodup) (hk : ∀ k ∈ keys l, k ∈ keys props) :
    defaultsUpdate props d l = some (d ++ l) := by
  induction l generalizing d with
  | nil => simp [defaultsUpdate]
  | cons x r ih =>
    obtain ⟨k, v⟩ := x
    have hkp : (keys props).contains k = true := by
      simpa using hk k (by simp [keys])
    have hnd : k ∉ keys d := by
      simp only [keys, List.map_append, List.map_cons] at hn
      have := (List.nodup_append.1 hn).2.2
      intro hmem
      exact this k hmem k (by simp) rfl
    have hset : set d k v = d ++ [(k, v)] := by
      clear hn ih
      induction d with
      | nil => rfl
      | cons y t iht =>
        obtain ⟨k', w⟩ := y
        simp only [keys, List.map_cons, List.mem_cons, not_or] at hnd
        have : ¬ k' = k := fun e => hnd.1 e.symm
        simp [set, this]
        exact iht hnd.2
    simp only [defaultsUpdate, hkp, if_true, hset]
    rw [ih (d ++ [(k, v)])]
    · simp
    · simpa [keys] using hn
    · intro k' hk'; exact hk k' (by simp [keys] at hk' ⊢; exact Or.inr hk')

theorem defaultsUpdate_none (props : List (String × Nat)) (d l : List (String × Rat))
    (hk : ∃ k ∈ keys l, k ∉ keys props) : defaultsUpdate props d l = none := by
  induction l generalizing d with
  | nil => obtain ⟨k, hk, _⟩ := hk; simp [keys] at hk
  | cons x r ih =>
    obtain ⟨k, v⟩ := x
    by_cases hkp : (keys props).contains k = true
    · simp only [defaultsUpdate, hkp, if_true]
      apply ih
      obtain ⟨k', hk', hn⟩ := hk
      simp only [keys, List.map_cons, List.mem_cons] at hk'
      rcases hk' with e | hk'
      · subst e; simp at hkp; exact absurd hkp hn
      · exact ⟨k', hk', hn⟩
    · simp only [defaultsUpdate, hkp]; rfl

/-! ### Disk -/

theorem entries_write (d : Disk) (c : HCache) (e : Entry) :
    (c.write d e).1.entries c.path c.node = d.entries c.path c.node ++ [e] := by
  simp only [HCache.write, Disk.entries, get_set, if_true, Option.bind]
  cases hp : get d c.path with
  | none => simp [get]
  | some f =>
    cases hn : get f c.node <;> simp [hn]

end GV.C20
