/-
C12 — lemmas for `deterministic_replay`: requests only look at the database through `recorded` and
`unseen`, which respect `DbEq`; the counter equals the number of entries; an algorithm that is a
function of what it observes issues the same requests in the uninterrupted and in the restarted
run.
-/
import GemseoVerif.Lemmas.C12

namespace GV.C12
open GV.C11

variable {κ : Type} [DecidableEq κ]

/-! ### `DbEq` is a congruence for what a request looks at -/

theorem alook_dbEq {a b : Db} (h : DbEq a b) (p : Pt) :
    (alook p a = none ∧ alook p b = none) ∨
      ∃ oa ob, alook p a = some oa ∧ alook p b = some ob ∧ OutsEq oa ob := by
  unfold DbEq at h
  induction h with
  | nil => exact Or.inl ⟨rfl, rfl⟩
  | @cons x y ta tb hxy _ ih =>
    obtain ⟨qa, ca⟩ := x
    obtain ⟨qb, cb⟩ := y
    obtain ⟨hq, hc⟩ := hxy
    simp only at hq hc
    subst hq
    simp only [alook_cons]
    by_cases e : qa = p
    · simp only [e, if_true]
      exact Or.inr ⟨ca, cb, rfl, rfl, hc⟩
    · simp only [e, if_false]
      exact ih

theorem recorded_congr {a b : Db} (h : DbEq a b) (p : Pt) (n : String) :
    recorded a p n = recorded b p n := by
  unfold recorded
  rcases alook_dbEq h p with ⟨h1, h2⟩ | ⟨oa, ob, h1, h2, ho⟩
  · rw [h1, h2]
  · rw [h1, h2]; exact ho n

theorem outs_isEmpty_iff (o : Outs) : o.isEmpty = true ↔ ∀ n, alook n o = none := by
  cases o with
  | nil => simp
  | cons nv t =>
    obtain ⟨n, v⟩ := nv
    simp only [List.isEmpty_cons, Bool.false_eq_true, false_iff, not_forall]
    exact ⟨n, by simp [alook_cons]⟩

theorem isEmpty_congr {oa ob : Outs} (h : OutsEq oa ob) : oa.isEmpty = ob.isEmpty := by
  have h1 := outs_isEmpty_iff oa
  have h2 := outs_isEmpty_iff ob
  have : (∀ n, alook n oa = none) ↔ (∀ n, alook n ob = none) :=
    ⟨fun g n => (h n) ▸ g n, fun g n => (h n).symm ▸ g n⟩
  cases ha : oa.isEmpty <;> cases hb : ob.isEmpty <;> simp_all

theorem unseen_congr {a b : Db} (h : DbEq a b) (p : Pt) : unseen a p = unseen b p := by
  unfold unseen
  rcases alook_dbEq h p with ⟨h1, h2⟩ | ⟨oa, ob, h1, h2, ho⟩
  · rw [h1, h2]
  · rw [h1, h2]; exact isEmpty_congr ho

theorem dbStore_congr {a b : Db} (h : DbEq a b) (p : Pt) (n : String) (v : Val) :
    DbEq (dbStore a p [(n, v)]) (dbStore b p [(n, v)]) := by
  unfold DbEq at h ⊢
  induction h with
  | nil => exact List.Forall₂.cons ⟨rfl, fun _ => rfl⟩ List.Forall₂.nil
  | @cons x y ta tb hxy ht ih =>
    obtain ⟨qa, ca⟩ := x
    obtain ⟨qb, cb⟩ := y
    obtain ⟨hq, hc⟩ := hxy
    simp only at hq hc
    subst hq
    unfold dbStore
    by_cases e : qa = p
    · simp only [e, if_true]
      refine List.Forall₂.cons ⟨rfl, ?_⟩ ht
      intro m
      simp only [updateOuts, alook_setOut, hc m]
    · simp only [e, if_false]
      exact List.Forall₂.cons ⟨rfl, hc⟩ ih

theorem dbEq_refl (a : Db) : DbEq a a := by
  unfold DbEq
  induction a with
  | nil => exact List.Forall₂.nil
  | cons x t ih => exact List.Forall₂.cons ⟨rfl, fun _ => rfl⟩ ih

theorem dbEq_symm {a b : Db} (h : DbEq a b) : DbEq b a := by
  unfold DbEq at *
  induction h with
  | nil => exact List.Forall₂.nil
  | cons h _ ih => exact List.Forall₂.cons ⟨h.1.symm, fun n => (h.2 n).symm⟩ ih

theorem dbEq_trans {a b c : Db} (h₁ : DbEq a b) (h₂ : DbEq b c) : DbEq a c := by
  unfold DbEq at *
  induction h₁ generalizing c with
  | nil => cases h₂; exact List.Forall₂.nil
  | cons h _ ih =>
    cases h₂ with
    | cons h' t' => exact List.Forall₂.cons ⟨h.1.trans h'.1, fun n => (h.2 n).trans (h'.2 n)⟩ (ih t')

/-! ### the counter is the number of entries -/

/-- No entry is empty and the counter is the number of entries (true of a fresh problem and of a
    problem that has just loaded a backup; kept by every request when the counter is not reset). -/
def CountOK (s : St κ) : Prop :=
  s.counter = s.h.db.length ∧ ∀ po ∈ s.h.db, po.2 ≠ []

theorem unseen_iff_not_mem {db : Db} (hne : ∀ po ∈ db, po.2 ≠ []) (p : Pt) :
    unseen db p = true ↔ p ∉ db.map (·.1) := by
  unfold unseen
  cases h : alook p db with
  | none => simp [alook_eq_none.mp h]
  | some o =>
    have hm := alook_mem h
    have : o ≠ [] := hne (p, o) hm
    have hp : p ∈ db.map (·.1) := List.mem_map.mpr ⟨(p, o), hm, rfl⟩
    cases o with
    | nil => exact absurd rfl this
    | cons x t => simp [hp]

theorem setOut_ne_nil (c : Outs) (n : String) (v : Val) : setOut c n v ≠ [] := by
  cases c with
  | nil => simp [setOut]
  | cons mw t =>
    obtain ⟨m, w⟩ := mw
    unfold setOut
    split <;> simp

theorem dbStore_noEmpty {db : Db} (hne : ∀ po ∈ db, po.2 ≠ []) (p : Pt) (n : String) (v : Val) :
    ∀ po ∈ dbStore db p [(n, v)], po.2 ≠ [] := by
  induction db with
  | nil => intro po hpo; simp only [dbStore, List.mem_singleton] at hpo; subst hpo; simp
  | cons qc t ih =>
    obtain ⟨q, c⟩ := qc
    intro po hpo
    unfold dbStore at hpo
    by_cases e : q = p
    · simp only [e, if_true, List.mem_cons] at hpo
      rcases hpo with h | h
      · subst h; simp only [updateOuts]; exact setOut_ne_nil _ _ _
      · exact hne po (List.mem_cons_of_mem _ h)
    · simp only [e, if_false, List.mem_cons] at hpo
      rcases hpo with h | h
      · subst h; exact hne (q, c) (by simp)
      · exact ih (fun x hx => hne x (List.mem_cons_of_mem _ hx)) po h

section
variable (H : Pt → κ) (cfg : Cfg) (val : String → Pt → Val)

omit [DecidableEq κ] in
@[simp] theorem notifyStore_counter (s : St κ) : (notifyStore cfg s).counter = s.counter := by
  unfold notifyStore; split <;> simp

omit [DecidableEq κ] in
@[simp] theorem notifyStore_maximum (s : St κ) : (notifyStore cfg s).maximum = s.maximum := by
  unfold notifyStore; split <;> simp

omit [DecidableEq κ] in
@[simp] theorem notifyNewIter_counter (s : St κ) : (notifyNewIter cfg s).counter = s.counter + 1 := by
  unfold notifyNewIter; split <;> simp

omit [DecidableEq κ] in
@[simp] theorem notifyNewIter_maximum (s : St κ) : (notifyNewIter cfg s).maximum = s.maximum := by
  unfold notifyNewIter; split <;> simp

theorem computedSt_counter (s : St κ) (r : Req) (v : Val) :
    (computedSt H cfg s r v).counter = if unseen s.h.db r.p then s.counter + 1 else s.counter := by
  unfold computedSt
  split <;> simp [storeSt]

@[simp] theorem computedSt_maximum (s : St κ) (r : Req) (v : Val) :
    (computedSt H cfg s r v).maximum = s.maximum := by
  unfold computedSt
  split <;> simp [storeSt]

theorem countOK_step (s : St κ) (hs : CountOK s) (r : Req) : CountOK (step H cfg val s r).1 := by
  rcases step_cases H cfg val s r with ⟨v, _, h⟩ | ⟨_, _, _, h⟩ | ⟨hn, _, h⟩
  · rw [h]; exact hs
  · rw [h]; exact hs
  · rw [h]
    refine ⟨?_, ?_⟩
    · rw [computedSt_counter, computedSt_db]
      have hlen : (dbStore s.h.db r.p [(r.name, val r.name r.p)]).length
          = ((dbStore s.h.db r.p [(r.name, val r.name r.p)]).map (·.1)).length := by simp
      rw [hlen, dbStore_keys]
      by_cases hu : unseen s.h.db r.p = true
      · have := (unseen_iff_not_mem hs.2 r.p).mp hu
        simp [hu, this, hs.1]
      · have hu' : unseen s.h.db r.p = false := by simpa using hu
        have : r.p ∈ s.h.db.map (·.1) := by
          by_contra hc
          exact hu ((unseen_iff_not_mem hs.2 r.p).mpr hc)
        simp [hu', this, hs.1]
    · rw [computedSt_db]
      exact dbStore_noEmpty hs.2 _ _ _

/-! ### two states that look the same to the requests -/

/-- Same database content (points in order, outputs, values), same counter, same budget. -/
def Sim (a b : St κ) : Prop :=
  DbEq a.h.db b.h.db ∧ a.counter = b.counter ∧ a.maximum = b.maximum

omit [DecidableEq κ] in
theorem maxReached_congr {a b : St κ} (h : Sim a b) : maxReached a = maxReached b := by
  unfold maxReached; rw [h.2.1, h.2.2]

/-- A request has the same outcome in two similar states, and leaves them similar. -/
theorem step_sim {a b : St κ} (h : Sim a b) (r : Req) :
    (step H cfg val a r).2.1 = (step H cfg val b r).2.1 ∧
      Sim (step H cfg val a r).1 (step H cfg val b r).1 := by
  have hrec := recorded_congr h.1 r.p r.name
  have huns := unseen_congr h.1 r.p
  have hmax := maxReached_congr h
  rcases step_cases H cfg val a r with ⟨v, hv, ha⟩ | ⟨hn, hu, hm, ha⟩ | ⟨hn, hm, ha⟩
  · rcases step_cases H cfg val b r with ⟨w, hw, hb⟩ | ⟨hn', _, _, _⟩ | ⟨hn', _, _⟩
    · rw [ha, hb]
      rw [hrec, hw] at hv
      injection hv with hv; subst hv
      exact ⟨rfl, h⟩
    · rw [hrec, hn'] at hv; cases hv
    · rw [hrec, hn'] at hv; cases hv
  · rcases step_cases H cfg val b r with ⟨w, hw, _⟩ | ⟨_, _, _, hb⟩ | ⟨_, hm', _⟩
    · rw [hrec, hw] at hn; cases hn
    · rw [ha, hb]; exact ⟨rfl, h⟩
    · rw [← huns, ← hmax, hu, hm] at hm'; cases hm'
  · rcases step_cases H cfg val b r with ⟨w, hw, _⟩ | ⟨_, hu', hm', _⟩ | ⟨_, _, hb⟩
    · rw [hrec, hw] at hn; cases hn
    · rw [huns, hmax, hu', hm'] at hm; cases hm
    · rw [ha, hb]
      refine ⟨rfl, ?_, ?_, ?_⟩
      · simp only [computedSt_db]; exact dbStore_congr h.1 _ _ _
      · simp only [computedSt_counter, huns, h.2.1]
      · simp only [computedSt_maximum]; exact h.2.2

end

/-! ### algorithms -/

section strat
variable (H : Pt → κ) (cfg : Cfg) (val : String → Pt → Val) (strat : Strategy)

theorem step_maximum (s : St κ) (r : Req) : (step H cfg val s r).1.maximum = s.maximum := by
  rcases step_cases H cfg val s r with ⟨v, _, h⟩ | ⟨_, _, _, h⟩ | ⟨_, _, h⟩ <;> rw [h]
  simp

theorem stratStep_dead (c : RunCfg κ) (h : c.live = false) : stratStep H cfg val strat c = c := by
  unfold stratStep; simp [h]

theorem stratRun_dead (c : RunCfg κ) (h : c.live = false) (n : Nat) :
    stratRun H cfg val strat n c = c := by
  induction n with
  | zero => rfl
  | succ n ih => simp only [stratRun, ih]; exact stratStep_dead H cfg val strat c h

theorem stratRun_add (c : RunCfg κ) (j k : Nat) :
    stratRun H cfg val strat (j + k) c = stratRun H cfg val strat k (stratRun H cfg val strat j c) := by
  induction k with
  | zero => rfl
  | succ k ih => rw [← Nat.add_assoc]; simp only [stratRun, ih]

/-- What one step of a live algorithm does, by the shape of its request. -/
theorem stratStep_cases (c : RunCfg κ) (hl : c.live = true) :
    (strat c.hist = none ∧ stratStep H cfg val strat c = { c with live := false }) ∨
    ∃ r, strat c.hist = some r ∧
      ((∃ v, recorded c.s.h.db r.p r.name = some v ∧
          stratStep H cfg val strat c = { s := c.s, hist := c.hist ++ [(r, v)], live := true }) ∨
       (recorded c.s.h.db r.p r.name = none ∧ unseen c.s.h.db r.p = true ∧ maxReached c.s = true ∧
          stratStep H cfg val strat c = { s := c.s, hist := c.hist, live := false }) ∨
       (recorded c.s.h.db r.p r.name = none ∧ (unseen c.s.h.db r.p && maxReached c.s) = false ∧
          stratStep H cfg val strat c =
            { s := computedSt H cfg c.s r (val r.name r.p), hist := c.hist ++ [(r, val r.name r.p)], live := true })) := by
  unfold stratStep
  simp only [hl, Bool.not_true, Bool.false_eq_true, if_false]
  cases hs : strat c.hist with
  | none => exact Or.inl ⟨rfl, rfl⟩
  | some r =>
    right
    refine ⟨r, rfl, ?_⟩
    rcases step_cases H cfg val c.s r with ⟨v, hv, h⟩ | ⟨hn, hu, hm, h⟩ | ⟨hn, hm, h⟩
    · exact Or.inl ⟨v, hv, by simp only [h]⟩
    · exact Or.inr (Or.inl ⟨hn, hu, hm, by simp only [h]⟩)
    · exact Or.inr (Or.inr ⟨hn, hm, by simp only [h]⟩)

theorem stratStep_dbLe (c : RunCfg κ) : DbLe c.s.h.db (stratStep H cfg val strat c).s.h.db := by
  by_cases hl : c.live = true
  · rcases stratStep_cases H cfg val strat c hl with ⟨_, h⟩ | ⟨r, _, ⟨v, _, h⟩ | ⟨_, _, _, h⟩ | ⟨hn, _, h⟩⟩
    · rw [h]; exact DbLe.refl _
    · rw [h]; exact DbLe.refl _
    · rw [h]; exact DbLe.refl _
    · rw [h]; simp only [computedSt_db]; exact dbLe_dbStore _ _ _ _ hn
  · rw [stratStep_dead H cfg val strat c (by simpa using hl)]; exact DbLe.refl _

theorem stratRun_dbLe (c : RunCfg κ) (j k : Nat) :
    DbLe (stratRun H cfg val strat j c).s.h.db (stratRun H cfg val strat (j + k) c).s.h.db := by
  induction k with
  | zero => exact DbLe.refl _
  | succ k ih =>
    rw [← Nat.add_assoc]
    simp only [stratRun]
    exact ih.trans (stratStep_dbLe H cfg val strat _)

theorem stratStep_countOK (c : RunCfg κ) (h : CountOK c.s) : CountOK (stratStep H cfg val strat c).s := by
  by_cases hl : c.live = true
  · rcases stratStep_cases H cfg val strat c hl with ⟨_, e⟩ | ⟨r, _, ⟨v, _, e⟩ | ⟨_, _, _, e⟩ | ⟨hn, hm, e⟩⟩
    · rw [e]; exact h
    · rw [e]; exact h
    · rw [e]; exact h
    · rw [e]
      have := countOK_step H cfg val c.s h r
      rcases step_cases H cfg val c.s r with ⟨v, hv, _⟩ | ⟨_, hu, hm', _⟩ | ⟨_, _, h3⟩
      · rw [hn] at hv; cases hv
      · rw [hu, hm'] at hm; cases hm
      · rw [h3] at this; exact this
  · rw [stratStep_dead H cfg val strat c (by simpa using hl)]; exact h

theorem stratRun_countOK (c : RunCfg κ) (h : CountOK c.s) (n : Nat) :
    CountOK (stratRun H cfg val strat n c).s := by
  induction n with
  | zero => exact h
  | succ n ih => exact stratStep_countOK H cfg val strat _ ih

theorem stratStep_maximum (c : RunCfg κ) : (stratStep H cfg val strat c).s.maximum = c.s.maximum := by
  by_cases hl : c.live = true
  · rcases stratStep_cases H cfg val strat c hl with ⟨_, e⟩ | ⟨r, _, ⟨v, _, e⟩ | ⟨_, _, _, e⟩ | ⟨_, _, e⟩⟩ <;>
      rw [e]
    simp
  · rw [stratStep_dead H cfg val strat c (by simpa using hl)]

theorem stratRun_maximum (c : RunCfg κ) (n : Nat) :
    (stratRun H cfg val strat n c).s.maximum = c.s.maximum := by
  induction n with
  | zero => rfl
  | succ n ih => simp only [stratRun, stratStep_maximum, ih]

/-- Two runs of the same algorithm that look the same (similar states, same observations). -/
def SimRun (a b : RunCfg κ) : Prop := Sim a.s b.s ∧ a.hist = b.hist ∧ a.live = b.live

theorem stratStep_sim {a b : RunCfg κ} (h : SimRun a b) :
    SimRun (stratStep H cfg val strat a) (stratStep H cfg val strat b) := by
  obtain ⟨hs, hh, hl⟩ := h
  by_cases hla : a.live = true
  · have hlb : b.live = true := hl ▸ hla
    unfold stratStep
    simp only [hla, hlb, Bool.not_true, Bool.false_eq_true, if_false, ← hh]
    cases hst : strat a.hist with
    | none => exact ⟨hs, rfl, rfl⟩
    | some r =>
      simp only
      obtain ⟨ho, hsim⟩ := step_sim H cfg val hs r
      rcases ha : step H cfg val a.s r with ⟨sa, oa, ea⟩
      rcases hb : step H cfg val b.s r with ⟨sb, ob, eb⟩
      rw [ha, hb] at ho hsim
      simp only at ho hsim
      subst ho
      cases oa with
      | maxIter => exact ⟨hsim, rfl, rfl⟩
      | served v => exact ⟨hsim, rfl, rfl⟩
      | computed v => exact ⟨hsim, rfl, rfl⟩
  · have hla' : a.live = false := by simpa using hla
    have hlb' : b.live = false := hl ▸ hla'
    rw [stratStep_dead H cfg val strat a hla', stratStep_dead H cfg val strat b hlb']
    exact ⟨hs, hh, hl⟩

theorem stratRun_sim {a b : RunCfg κ} (h : SimRun a b) (n : Nat) :
    SimRun (stratRun H cfg val strat n a) (stratRun H cfg val strat n b) := by
  induction n with
  | zero => exact h
  | succ n ih => exact stratStep_sim H cfg val strat ih

/-- **Before the crash point the restarted run recomputes nothing and observes what the
    uninterrupted run observed.** `cR` starts from a database equal to the one `cU` has after `m`
    steps; during its first `m` steps its database, counter and budget do not move and its
    observations are those of `cU`. -/
theorem replay_phase1 (cU cR : RunCfg κ) (m : Nat) (hU : CountOK cU.s)
    (hcnt : cR.s.counter = cR.s.h.db.length) (hmax : cR.s.maximum = cU.s.maximum)
    (hload : DbEq cR.s.h.db (stratRun H cfg val strat m cU).s.h.db)
    (hhist : cR.hist = cU.hist) (hlive : cR.live = cU.live) :
    ∀ j, j ≤ m →
      (stratRun H cfg val strat j cR).s.h.db = cR.s.h.db ∧
      (stratRun H cfg val strat j cR).s.counter = cR.s.counter ∧
      (stratRun H cfg val strat j cR).s.maximum = cR.s.maximum ∧
      (stratRun H cfg val strat j cR).hist = (stratRun H cfg val strat j cU).hist ∧
      (stratRun H cfg val strat j cR).live = (stratRun H cfg val strat j cU).live := by
  intro j
  induction j with
  | zero => intro _; exact ⟨rfl, rfl, rfl, hhist, hlive⟩
  | succ j ih =>
    intro hj
    obtain ⟨hdb, hc, hmx, hh, hl⟩ := ih (by omega)
    -- abbreviations
    generalize hRj : stratRun H cfg val strat j cR = Rj at hdb hc hmx hh hl
    generalize hUj : stratRun H cfg val strat j cU = Uj at hh hl
    have hRj1 : stratRun H cfg val strat (j + 1) cR = stratStep H cfg val strat Rj := by
      simp only [stratRun, hRj]
    have hUj1 : stratRun H cfg val strat (j + 1) cU = stratStep H cfg val strat Uj := by
      simp only [stratRun, hUj]
    rw [hRj1, hUj1]
    -- the target database: what the uninterrupted run holds after m steps
    have hTle : DbLe (stratStep H cfg val strat Uj).s.h.db (stratRun H cfg val strat m cU).s.h.db := by
      have := stratRun_dbLe H cfg val strat cU (j + 1) (m - (j + 1))
      rw [show j + 1 + (m - (j + 1)) = m by omega, hUj1] at this
      exact this
    have hUjle : DbLe Uj.s.h.db (stratRun H cfg val strat m cU).s.h.db :=
      (stratStep_dbLe H cfg val strat Uj).trans hTle
    have hrecR : ∀ p n, recorded Rj.s.h.db p n = recorded (stratRun H cfg val strat m cU).s.h.db p n := by
      intro p n; rw [hdb]; exact recorded_congr hload p n
    by_cases hlU : Uj.live = true
    · have hlR : Rj.live = true := hl ▸ hlU
      rcases stratStep_cases H cfg val strat Uj hlU with ⟨hsn, eU⟩ | ⟨r, hsr, hcase⟩
      · -- the algorithm stops by itself
        rcases stratStep_cases H cfg val strat Rj hlR with ⟨_, eR⟩ | ⟨r', hsr', _⟩
        · rw [eR, eU]; exact ⟨hdb, hc, hmx, hh, rfl⟩
        · rw [hh, hsn] at hsr'; cases hsr'
      · rcases stratStep_cases H cfg val strat Rj hlR with ⟨hsn', _⟩ | ⟨r', hsr', hcaseR⟩
        · rw [hh, hsr] at hsn'; cases hsn'
        · have hrr : r' = r := by rw [hh, hsr] at hsr'; exact (Option.some.inj hsr').symm
          subst hrr
          rcases hcase with ⟨v, hv, eU⟩ | ⟨hn, hu, hm, eU⟩ | ⟨hn, hm, eU⟩
          · -- served in the uninterrupted run: recorded in the target, hence served in the restart
            have hT : recorded Rj.s.h.db r'.p r'.name = some v := by
              rw [hrecR]; exact hUjle.2 _ _ _ hv
            rcases hcaseR with ⟨w, hw, eR⟩ | ⟨hn', _, _, _⟩ | ⟨hn', _, _⟩
            · rw [hT] at hw; injection hw with hw; subst hw
              rw [eR, eU]; exact ⟨hdb, hc, hmx, by simp [hh], rfl⟩
            · rw [hT] at hn'; cases hn'
            · rw [hT] at hn'; cases hn'
          · -- the budget stops the uninterrupted run here: it holds the target database already
            have hdead : (stratStep H cfg val strat Uj).live = false := by rw [eU]
            have hTeq : (stratRun H cfg val strat m cU) = stratStep H cfg val strat Uj := by
              have := stratRun_add H cfg val strat cU (j + 1) (m - (j + 1))
              rw [show j + 1 + (m - (j + 1)) = m by omega, hUj1] at this
              rw [this]; exact stratRun_dead H cfg val strat _ hdead _
            have hTdb : (stratRun H cfg val strat m cU).s.h.db = Uj.s.h.db := by rw [hTeq, eU]
            have hloadj : DbEq Rj.s.h.db Uj.s.h.db := by rw [hdb, ← hTdb]; exact hload
            have hUjc : CountOK Uj.s := hUj ▸ stratRun_countOK H cfg val strat cU hU j
            have hsim : Sim Rj.s Uj.s := by
              refine ⟨hloadj, ?_, ?_⟩
              · rw [hc, hcnt, ← hdb, dbEq_length hloadj]; exact hUjc.1.symm
              · rw [hmx, hmax, ← hUj]; exact (stratRun_maximum H cfg val strat cU j).symm
            have hnR : recorded Rj.s.h.db r'.p r'.name = none := by
              rw [recorded_congr hloadj]; exact hn
            have huR : unseen Rj.s.h.db r'.p = true := by rw [unseen_congr hloadj]; exact hu
            have hmR : maxReached Rj.s = true := by rw [maxReached_congr hsim]; exact hm
            rcases hcaseR with ⟨w, hw, _⟩ | ⟨_, _, _, eR⟩ | ⟨_, hm', _⟩
            · rw [hnR] at hw; cases hw
            · rw [eR, eU]; exact ⟨hdb, hc, hmx, hh, rfl⟩
            · rw [huR, hmR] at hm'; cases hm'
          · -- computed in the uninterrupted run before the crash point: recorded in the target
            have hrecU : recorded (stratStep H cfg val strat Uj).s.h.db r'.p r'.name = some (val r'.name r'.p) := by
              rw [eU]; simp only [computedSt_db, recorded_dbStore]; simp
            have hT : recorded Rj.s.h.db r'.p r'.name = some (val r'.name r'.p) := by
              rw [hrecR]; exact hTle.2 _ _ _ hrecU
            rcases hcaseR with ⟨w, hw, eR⟩ | ⟨hn', _, _, _⟩ | ⟨hn', _, _⟩
            · rw [hT] at hw; injection hw with hw; subst hw
              rw [eR, eU]; exact ⟨hdb, hc, hmx, by simp [hh], rfl⟩
            · rw [hT] at hn'; cases hn'
            · rw [hT] at hn'; cases hn'
    · have hlU' : Uj.live = false := by simpa using hlU
      have hlR' : Rj.live = false := hl ▸ hlU'
      rw [stratStep_dead H cfg val strat Rj hlR', stratStep_dead H cfg val strat Uj hlU']
      exact ⟨hdb, hc, hmx, hh, hl⟩

/-- **After the crash point the two runs are in lockstep.** -/
theorem replay_all (cU cR : RunCfg κ) (m : Nat) (hU : CountOK cU.s)
    (hcnt : cR.s.counter = cR.s.h.db.length) (hmax : cR.s.maximum = cU.s.maximum)
    (hload : DbEq cR.s.h.db (stratRun H cfg val strat m cU).s.h.db)
    (hhist : cR.hist = cU.hist) (hlive : cR.live = cU.live) (n : Nat) (hmn : m ≤ n) :
    SimRun (stratRun H cfg val strat n cR) (stratRun H cfg val strat n cU) := by
  obtain ⟨hdb, hc, hmx, hh, hl⟩ := replay_phase1 H cfg val strat cU cR m hU hcnt hmax hload hhist hlive m (Nat.le_refl m)
  have hUm := stratRun_countOK H cfg val strat cU hU m
  have hm : SimRun (stratRun H cfg val strat m cR) (stratRun H cfg val strat m cU) := by
    refine ⟨⟨?_, ?_, ?_⟩, hh, hl⟩
    · rw [hdb]; exact hload
    · rw [hc, hcnt, dbEq_length hload]; exact hUm.1.symm
    · rw [hmx, hmax]; exact (stratRun_maximum H cfg val strat cU m).symm
  have := stratRun_sim H cfg val strat hm (n - m)
  rw [← stratRun_add, ← stratRun_add, show m + (n - m) = n by omega] at this
  exact this

end strat

/-! ### the snapshot is the database of an earlier step; the invariant along an algorithm -/

section snap
variable (H : Pt → κ) (cfg : Cfg) (val : String → Pt → Val) (strat : Strategy)

omit [DecidableEq κ] in
theorem backup_snap (s : St κ) : (backup s).snap = s.snap ∨ (backup s).snap = (backup s).h.db := by
  unfold backup
  cases doExport s.h true with
  | none => exact Or.inl rfl
  | some h' => exact Or.inr rfl

theorem computedSt_snap (s : St κ) (r : Req) (v : Val) :
    (computedSt H cfg s r v).snap = s.snap ∨
      (computedSt H cfg s r v).snap = (computedSt H cfg s r v).h.db := by
  have hdb := computedSt_db H cfg s r v
  rw [hdb]
  unfold computedSt notifyStore notifyNewIter
  cases cfg.eachCall <;> cases cfg.eachIter <;> cases unseen s.h.db r.p <;> simp only [if_true, if_false, Bool.false_eq_true]
  all_goals first
    | exact Or.inl rfl
    | (rcases backup_snap (storeSt H s r v) with h | h
       · left; simpa [storeSt] using h
       · right; simpa [storeSt, doStore] using h)
    | (rcases backup_snap (backup (storeSt H s r v)) with h | h
       · rcases backup_snap (storeSt H s r v) with h' | h'
         · left; simpa [storeSt] using h.trans h'
         · right; simpa [storeSt, doStore] using h.trans h'
       · right; simpa [storeSt, doStore] using h)

theorem stratStep_snap (c : RunCfg κ) :
    (stratStep H cfg val strat c).s.snap = c.s.snap ∨
      (stratStep H cfg val strat c).s.snap = (stratStep H cfg val strat c).s.h.db := by
  by_cases hl : c.live = true
  · rcases stratStep_cases H cfg val strat c hl with ⟨_, e⟩ | ⟨r, _, ⟨v, _, e⟩ | ⟨_, _, _, e⟩ | ⟨_, _, e⟩⟩
    · rw [e]; exact Or.inl rfl
    · rw [e]; exact Or.inl rfl
    · rw [e]; exact Or.inl rfl
    · rw [e]; exact computedSt_snap H cfg c.s r _
  · rw [stratStep_dead H cfg val strat c (by simpa using hl)]; exact Or.inl rfl

/-- **The snapshot is the database the run had at an earlier step** (the last one that notified
    the backup listener). -/
theorem snapshot_is_earlier_database (c0 : RunCfg κ) (h0 : c0.s.snap = c0.s.h.db) (j : Nat) :
    ∃ m, m ≤ j ∧ (stratRun H cfg val strat j c0).s.snap = (stratRun H cfg val strat m c0).s.h.db := by
  induction j with
  | zero => exact ⟨0, Nat.le_refl 0, h0⟩
  | succ j ih =>
    obtain ⟨m, hm, hs⟩ := ih
    rcases stratStep_snap H cfg val strat (stratRun H cfg val strat j c0) with h | h
    · exact ⟨m, by omega, by simp only [stratRun]; rw [h, hs]⟩
    · exact ⟨j + 1, Nat.le_refl _, by simpa only [stratRun] using h⟩

theorem inv_stratStep (hinj : Function.Injective H) (c : RunCfg κ) (h : Inv H cfg c.s) :
    Inv H cfg (stratStep H cfg val strat c).s := by
  by_cases hl : c.live = true
  · rcases stratStep_cases H cfg val strat c hl with ⟨_, e⟩ | ⟨r, _, ⟨v, _, e⟩ | ⟨_, _, _, e⟩ | ⟨hn, hm, e⟩⟩
    · rw [e]; exact h
    · rw [e]; exact h
    · rw [e]; exact h
    · rw [e]
      exact ⟨inv0_computedSt H cfg hinj c.s h.base r _ hn,
        fun hc => computedSt_eachCall H cfg hinj c.s h.base r _ hn hc⟩
  · rw [stratStep_dead H cfg val strat c (by simpa using hl)]; exact h

theorem inv_stratRun (hinj : Function.Injective H) (c : RunCfg κ) (h : Inv H cfg c.s) (n : Nat) :
    Inv H cfg (stratRun H cfg val strat n c).s := by
  induction n with
  | zero => exact h
  | succ n ih => exact inv_stratStep H cfg val strat hinj _ ih

end snap

end GV.C12
