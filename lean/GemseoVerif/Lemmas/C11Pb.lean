/-
C11 — lemmas about the attribute groups of an optimization problem (`store_h5data`,
`store_attr_h5data`, `convert_h5_group_to_dict`, `MDOFunction.to_dict/init_from_dict_repr`,
the statement order of `OptimizationProblem.from_hdf`) and about the CSR layout of the sparse
Jacobian blocks of an HDF5 cache.
-/
import GemseoVerif.Lemmas.C11

namespace GV.C11

/-! ### One attribute -/

/-- The values `store_h5data` does not write: `None` and the empty string / list / array. -/
def PyV.isEmpty : PyV → Bool
  | .none => true
  | .str s => s == ""
  | .strs l => l.isEmpty
  | .nums a => a.lenZero
  | _ => false

theorem storeAttr_eq_none {v : PyV} : storeAttr v = none ↔ v.isEmpty = true := by
  cases v <;> simp [storeAttr, storeH5, PyV.isEmpty]

theorem readAttr_of_storeAttr {v : PyV} {d : DSet} (h : storeAttr v = some d) : readAttr d = v := by
  cases v <;> simp [storeAttr, storeH5] at h
  all_goals (obtain ⟨_, rfl⟩ := h; rfl)

theorem attr_roundtrip (v : PyV) :
    (storeAttr v).map readAttr = if v.isEmpty then none else some v := by
  cases hs : storeAttr v with
  | none => simp [storeAttr_eq_none.mp hs]
  | some d =>
    have hne : v.isEmpty = false := by
      cases he : v.isEmpty with
      | false => rfl
      | true => rw [storeAttr_eq_none.mpr he] at hs; cases hs
    simp [hne, readAttr_of_storeAttr hs]

theorem readGroup_writeGroup (d : List (String × PyV)) :
    readGroup (writeGroup d) = d.filter (fun nv => !nv.2.isEmpty) := by
  induction d with
  | nil => rfl
  | cons nv t ih =>
    obtain ⟨n, v⟩ := nv
    have h := attr_roundtrip v
    unfold readGroup readGroupWith writeGroup at *
    cases hs : storeAttr v with
    | none =>
      have he := storeAttr_eq_none.mp hs
      simp [hs, he, ih]
    | some x =>
      rw [hs] at h
      cases he : v.isEmpty with
      | true => simp [he] at h
      | false =>
        simp only [he, Option.map_some] at h
        simp [hs, he, ih]
        simpa using h

/-! ### Function descriptions -/

theorem function_roundtrip (f : FuncDesc) (hn : f.name ≠ "") :
    funcFromDict (readGroup (writeGroup (funcToDict f))) = some f := by
  obtain ⟨name, fType, expr, inputNames, dim, specialRepr, outputNames⟩ := f
  simp only at hn
  rw [readGroup_writeGroup]
  by_cases h1 : fType = "" <;> by_cases h2 : expr = "" <;> by_cases h3 : inputNames = [] <;>
    by_cases h4 : specialRepr = "" <;> by_cases h5 : outputNames = [] <;>
    simp [funcToDict, funcFromDict, PyV.isEmpty, alook, pyStr, pyNat, pyListOfNames, hn, h1, h2, h3,
      h4, h5]

theorem length_pyListOfNames_str (s : String) : (pyListOfNames (some (.str s))).length = s.length := by
  simp [pyListOfNames, String.length]

/-! ### Groups of functions -/

theorem writeFuncs_spec (fs : List FuncDesc) (acc : List (String × Group))
    (nd : (acc.map (·.1) ++ fs.map (·.name)).Nodup) :
    writeFuncs fs acc = some (acc ++ fs.map (fun f => (f.name, writeGroup (funcToDict f)))) := by
  induction fs generalizing acc with
  | nil => simp [writeFuncs]
  | cons f t ih =>
    have hnot : f.name ∉ acc.map (·.1) := by
      intro hm
      rw [List.nodup_append] at nd
      exact nd.2.2 _ hm _ (by simp) rfl
    have hnone : alook f.name acc = none := alook_eq_none.mpr hnot
    simp only [writeFuncs, hnone]
    rw [ih]
    · simp
    · simpa [List.map_append, List.append_assoc] using nd

theorem readFuncs_written (fs : List FuncDesc) (hn : ∀ f ∈ fs, f.name ≠ "") :
    readFuncs (fs.map (fun f => (f.name, writeGroup (funcToDict f)))) = some fs := by
  unfold readFuncs
  apply optAll_eq_some
  simp only [List.map_map]
  apply List.map_congr_left
  intro f hf
  simpa using function_roundtrip f (hn f hf)

/-! ### Sparse blocks -/

theorem zip_map_fst_snd' {α β : Type} (l : List (α × β)) : (l.map (·.1)).zip (l.map (·.2)) = l := by
  induction l with
  | nil => rfl
  | cons a t ih => simp [ih]

theorem rowNz_col_ge {k : Nat} {r : List Rat} {e : Nat × Rat} (h : e ∈ rowNz k r) : k ≤ e.1 := by
  induction r generalizing k with
  | nil => simp [rowNz] at h
  | cons v t ih =>
    unfold rowNz at h
    split at h
    · exact Nat.le_of_succ_le (ih h)
    · rcases List.mem_cons.mp h with rfl | h
      · exact Nat.le_refl _
      · exact Nat.le_of_succ_le (ih h)

theorem entryAt_eq_zero {j : Nat} {ents : List (Nat × Rat)} (h : ∀ e ∈ ents, e.1 ≠ j) :
    entryAt j ents = 0 := by
  unfold entryAt
  have : ents.filter (fun e => e.1 == j) = [] := by
    rw [List.filter_eq_nil_iff]
    intro e he
    simpa using h e he
  rw [this]; rfl

theorem entryAt_cons_ne {j : Nat} {e : Nat × Rat} {ents : List (Nat × Rat)} (h : e.1 ≠ j) :
    entryAt j (e :: ents) = entryAt j ents := by
  unfold entryAt
  simp [h]

theorem scatterFrom_cons_lt {e : Nat × Rat} {ents : List (Nat × Rat)} {k : Nat} (n : Nat)
    (h : e.1 < k) : scatterFrom (e :: ents) k n = scatterFrom ents k n := by
  induction n generalizing k with
  | zero => rfl
  | succ n ih =>
    simp only [scatterFrom]
    rw [entryAt_cons_ne (Nat.ne_of_lt h), ih (Nat.lt_succ_of_lt h)]

theorem scatterFrom_rowNz (r : List Rat) (k : Nat) : scatterFrom (rowNz k r) k r.length = r := by
  induction r generalizing k with
  | nil => rfl
  | cons v t ih =>
    have hz : entryAt k (rowNz (k + 1) t) = 0 :=
      entryAt_eq_zero (fun e he => Nat.ne_of_gt (rowNz_col_ge he))
    simp only [List.length_cons, scatterFrom]
    unfold rowNz
    split
    · next hv => rw [hz, ih, hv]
    · next hv =>
      rw [scatterFrom_cons_lt _ (Nat.lt_succ_self k), ih]
      have : entryAt k ((k, v) :: rowNz (k + 1) t) = v := by
        have h2 : entryAt k ((k, v) :: rowNz (k + 1) t) = v + entryAt k (rowNz (k + 1) t) := by
          unfold entryAt; simp
        rw [h2, hz, Rat.add_zero]
      rw [this]

theorem csrRows_spec (ncols : Nat) (m : Mat) (hc : ∀ r ∈ m, r.length = ncols)
    (pre : List (Nat × Rat)) :
    csrRows ncols (pre ++ (m.map (rowNz 0)).flatten) pre.length (indptrTail pre.length m) = m := by
  induction m generalizing pre with
  | nil => rfl
  | cons r t ih =>
    simp only [indptrTail, csrRows, List.map_cons, List.flatten_cons]
    have hlen : r.length = ncols := hc r (by simp)
    subst hlen
    have h1 : ((pre ++ (rowNz 0 r ++ (t.map (rowNz 0)).flatten)).drop pre.length).take
        (pre.length + (rowNz 0 r).length - pre.length) = rowNz 0 r := by
      rw [List.drop_left, Nat.add_sub_cancel_left, List.take_left]
    rw [h1, scatterFrom_rowNz]
    have h2 : pre ++ (rowNz 0 r ++ (t.map (rowNz 0)).flatten)
        = (pre ++ rowNz 0 r) ++ (t.map (rowNz 0)).flatten := by simp
    have h3 : pre.length + (rowNz 0 r).length = (pre ++ rowNz 0 r).length := by simp
    rw [h2, h3, ih (fun r' hr' => hc r' (by simp [hr']))]

theorem readSparse_writeSparse (nrows ncols : Nat) (m : Mat) (hc : ∀ r ∈ m, r.length = ncols) :
    readSparse (writeSparse nrows ncols m) = m := by
  unfold readSparse writeSparse
  simp only [zip_map_fst_snd']
  simpa using csrRows_spec ncols m hc []

/-! ### The whole description -/

/-- The descriptions `to_hdf` can be given: every function has a name (it names its group),
    constraints (resp. observables) have distinct names, the objective is typed `obj` (the setter
    `problem.objective = f` does it), the differentiation method is a member of its enumeration
    (never the empty string), no solution field holds an empty string / list / array. -/
structure PbWF (p : PbDesc) : Prop where
  objName : p.objective.name ≠ ""
  objType : p.objective.fType = "obj"
  method : p.diffMethod ≠ ""
  cName : ∀ f ∈ p.constraints, f.name ≠ ""
  oName : ∀ f ∈ p.observables, f.name ≠ ""
  cNodup : (p.constraints.map (·.name)).Nodup
  oNodup : (p.observables.map (·.name)).Nodup
  solution : ∀ l, p.solution = some l → ∀ nv ∈ l, nv.2.isEmpty = false

theorem setDescr_writeOptDescr (q p : PbDesc) (hm : p.diffMethod ≠ "") :
    setDescr q (writeOptDescr p) =
      { q with minimize := p.minimize, isLinear := p.isLinear, diffMethod := p.diffMethod,
               diffStep := p.diffStep, ineqTol := p.ineqTol, eqTol := p.eqTol } := by
  simp [setDescr, writeOptDescr, storeH5, hm, setDescrAttr, readAttr]

theorem solution_roundtrip (l : List (String × PyV)) (h : ∀ nv ∈ l, nv.2.isEmpty = false) :
    readGroup (writeGroup l) = l := by
  rw [readGroup_writeGroup, List.filter_eq_self]
  intro nv hnv
  simp [h nv hnv]

theorem pbToHdf_spec (p : PbDesc) (wf : PbWF p) :
    pbToHdf p = some
      { optDescr := writeOptDescr p, objective := writeGroup (funcToDict p.objective),
        constraints := p.constraints.map (fun f => (f.name, writeGroup (funcToDict f))),
        observables := p.observables.map (fun f => (f.name, writeGroup (funcToDict f))),
        solution := p.solution.map writeGroup } := by
  unfold pbToHdf
  rw [writeFuncs_spec _ [] (by simpa using wf.cNodup), writeFuncs_spec _ [] (by simpa using wf.oNodup)]
  simp

theorem pbFromHdf_pbToHdf (p : PbDesc) (wf : PbWF p) : (pbToHdf p).bind pbFromHdf = some p := by
  rw [pbToHdf_spec p wf]
  simp only [Option.bind_some, pbFromHdf, function_roundtrip _ wf.objName,
    readFuncs_written _ wf.cName, readFuncs_written _ wf.oName]
  rw [setDescr_writeOptDescr _ _ wf.method]
  obtain ⟨mn, il, dm, dstep, it, et, obj, cs, os, sol⟩ := p
  have ht : obj.fType = "obj" := wf.objType
  obtain ⟨n, ft, ex, inn, dim, sr, outn⟩ := obj
  simp only at ht
  subst ht
  simp only [setObjective, pbBlank, Option.some.injEq, PbDesc.mk.injEq, true_and]
  cases sol with
  | none => rfl
  | some l => simp [solution_roundtrip l (wf.solution l rfl)]

theorem pbFromHdfObjectiveLast_pbToHdf (p : PbDesc) (wf : PbWF p) :
    (pbToHdf p).bind pbFromHdfObjectiveLast = some { p with isLinear := false } := by
  rw [pbToHdf_spec p wf]
  simp only [Option.bind_some, pbFromHdfObjectiveLast, function_roundtrip _ wf.objName,
    readFuncs_written _ wf.cName, readFuncs_written _ wf.oName]
  rw [setDescr_writeOptDescr _ _ wf.method]
  obtain ⟨mn, il, dm, dstep, it, et, obj, cs, os, sol⟩ := p
  have ht : obj.fType = "obj" := wf.objType
  obtain ⟨n, ft, ex, inn, dim, sr, outn⟩ := obj
  simp only at ht
  subst ht
  simp only [setObjective, pbBlank, Option.some.injEq, PbDesc.mk.injEq, true_and]
  cases sol with
  | none => rfl
  | some l => simp [solution_roundtrip l (wf.solution l rfl)]

/-! ### Transposition -/

theorem transposeM_rect (n : Nat) (m : Mat) : ∀ r ∈ transposeM n m, r.length = m.length := by
  intro r hr
  simp only [transposeM, List.mem_map] at hr
  obtain ⟨j, _, rfl⟩ := hr
  simp

end GV.C11
