/-
C13 — helper lemmas about successive `execute()` calls on one executor (`Sess`, `sstep?`,
`srun?` of `Model/C13.lean`) and about what a joined call leaves in its queues.
-/
import GemseoVerif.Lemmas.C13Pool

set_option linter.unusedSimpArgs false
set_option linter.unusedSectionVars false
set_option linter.unusedVariables false

namespace GV.C13

variable {α β : Type}

theorem reachable_init (c : Cfg α β) : Reachable c (init c) := ⟨[], rfl⟩

theorem reachable_step {c : Cfg α β} {s s' : State β} {o : Op} (h : Reachable c s)
    (hs : step? c s o = some s') : Reachable c s' := by
  obtain ⟨ops, h⟩ := h
  refine ⟨ops ++ [o], run_append h ?_⟩
  simp [run?, hs]

/-- The session invariant: the current call is a reachable state of the pool started on *its own*
    configuration (the executor's callables and worker count, the inputs of this call), and so
    was every earlier call, which moreover was joined before the next one started. -/
structure SInv (c0 : Cfg α β) (s : Sess α β) : Prop where
  cur : Reachable s.cfg s.st
  callables : s.cfg.callables = c0.callables
  nProcs : s.cfg.nProcs = c0.nProcs
  past : ∀ p ∈ s.past, Reachable p.1 p.2 ∧ p.2.final = true ∧
    p.1.callables = c0.callables ∧ p.1.nProcs = c0.nProcs

theorem sinv_init (c0 : Cfg α β) : SInv c0 (sinit c0) where
  cur := reachable_init c0
  callables := rfl
  nProcs := rfl
  past := by simp [sinit]

theorem sinv_step {c0 : Cfg α β} {s s' : Sess α β} {o : SOp α} (hi : SInv c0 s)
    (h : sstep? s o = some s') : SInv c0 s' := by
  cases o with
  | op o =>
    simp only [sstep?] at h
    split at h
    · rename_i st' hst
      cases h
      exact ⟨reachable_step hi.cur hst, hi.callables, hi.nProcs, hi.past⟩
    · cases h
  | call xs =>
    simp only [sstep?] at h
    split at h
    · rename_i hfin
      cases h
      refine ⟨reachable_init _, hi.callables, hi.nProcs, ?_⟩
      intro p hp
      simp only [List.mem_cons] at hp
      rcases hp with rfl | hp
      · exact ⟨hi.cur, hfin, hi.callables, hi.nProcs⟩
      · exact hi.past p hp
    · cases h

theorem sinv_run {c0 : Cfg α β} {s s' : Sess α β} {ops : List (SOp α)} (hi : SInv c0 s)
    (h : srun? s ops = some s') : SInv c0 s' := by
  induction ops generalizing s with
  | nil => simp [srun?] at h; subst h; exact hi
  | cons op ops ih =>
    simp only [srun?] at h
    split at h
    · rename_i s1 h1
      exact ih (sinv_step hi h1) h
    · cases h

/-! ### What a joined call leaves in its queues -/

/-- `queue_in` is FIFO and the sentinels are put after every task: once a worker has read a
    sentinel, no task is left in `queue_in`. -/
structure QInv (s : State β) : Prop where
  shape : ∃ (ts : List Nat) (k : Nat), s.queueIn = ts.map some ++ List.replicate k none
  drained : 0 < nExited s.workers → tasksOf s.queueIn = []

theorem qinv_init (c : Cfg α β) : QInv (init c) where
  shape := ⟨[], 0, by simp [init]⟩
  drained := by
    intro h
    simp [init, tasksOf]

theorem tasksOf_map_some (ts : List Nat) : tasksOf (ts.map some) = ts := by
  induction ts with
  | nil => rfl
  | cons t ts ih => simp [tasksOf] at ih ⊢

theorem nExited_set_busy (ws : List WState) (w i : Nat) (h : ws[w]? = some .idle) :
    nExited (ws.set w (.busy i)) = nExited ws :=
  nExited_set_of_not ws w .idle (.busy i) h (by simp) (by simp)

theorem nExited_set_idle (ws : List WState) (w i : Nat) (h : ws[w]? = some (.busy i)) :
    nExited (ws.set w .idle) = nExited ws :=
  nExited_set_of_not ws w (.busy i) .idle h (by simp) (by simp)

theorem qinv_step {c : Cfg α β} {s s' : State β} {op : Op} (hi : Inv c s) (hq : QInv s)
    (h : step? c s op = some s') : QInv s' := by
  obtain ⟨ts, k, hshape⟩ := hq.shape
  cases op with
  | submit =>
    obtain ⟨i, rest, hp, rfl⟩ := step_submit h
    have hns : s.sent = false := by
      cases hs : s.sent with
      | false => rfl
      | true => have := (hi.sent_ok hs).2; simp [hp] at this
    have hsen := hi.sentinels
    simp only [hns] at hsen
    have hk : k = 0 := by
      have := hsen.1
      rw [hshape, nNone_append, nNone_replicate_none] at this
      omega
    subst hk
    refine ⟨⟨ts ++ [i], 0, by simp [hshape]⟩, ?_⟩
    intro hex
    simp only [] at hex
    have := hsen.2
    omega
  | take w =>
    obtain ⟨hw, hcase⟩ := step_take h
    rcases hcase with ⟨i, rest, hq', rfl⟩ | ⟨rest, hq', rfl⟩
    · -- a task is taken
      have hts : ∃ ts', ts = i :: ts' ∧ rest = ts'.map some ++ List.replicate k none := by
        cases ts with
        | nil =>
          rw [hshape] at hq'
          cases k with
          | zero => simp at hq'
          | succ k => simp [List.replicate_succ] at hq'
        | cons t ts' =>
          rw [hshape] at hq'
          simp only [List.map_cons, List.cons_append, List.cons.injEq, Option.some.injEq] at hq'
          exact ⟨ts', by rw [hq'.1], hq'.2.symm⟩
      obtain ⟨ts', rfl, hrest⟩ := hts
      refine ⟨⟨ts', k, hrest⟩, ?_⟩
      intro hex
      simp only [] at hex
      rw [nExited_set_busy _ _ _ hw] at hex
      have := hq.drained hex
      rw [hq', tasksOf_cons_some] at this
      cases this
    · -- a sentinel is taken: no task can be before it
      have hts : ts = [] ∧ ∃ k', rest = List.replicate k' none := by
        cases ts with
        | nil =>
          rw [hshape] at hq'
          cases k with
          | zero => simp at hq'
          | succ k =>
            simp only [List.map_nil, List.nil_append, List.replicate_succ, List.cons.injEq, true_and] at hq'
            exact ⟨rfl, k, hq'.symm⟩
        | cons t ts' =>
          rw [hshape] at hq'
          simp at hq'
      obtain ⟨rfl, k', hrest⟩ := hts
      refine ⟨⟨[], k', by simp [hrest]⟩, ?_⟩
      intro _
      simp only []
      rw [hrest, tasksOf_replicate_none]
  | finish w =>
    obtain ⟨i, hw, rfl⟩ := step_finish h
    refine ⟨⟨ts, k, hshape⟩, ?_⟩
    intro hex
    simp only [] at hex ⊢
    rw [nExited_set_idle _ _ _ hw] at hex
    exact hq.drained hex
  | collect =>
    obtain ⟨_, _, _, _, i, o, rest, hq', hs'⟩ := step_collect h
    have h1 : s'.queueIn = s.queueIn := by rw [hs']
    have h2 : s'.workers = s.workers := by rw [hs']
    refine ⟨⟨ts, k, by rw [h1, hshape]⟩, ?_⟩
    rw [h1, h2]
    exact hq.drained
  | shutdown =>
    obtain ⟨_, hns, _, rfl⟩ := step_shutdown h
    have hsen := hi.sentinels
    simp only [hns] at hsen
    have hk : k = 0 := by
      have := hsen.1
      rw [hshape, nNone_append, nNone_replicate_none] at this
      omega
    subst hk
    refine ⟨⟨ts, s.workers.length, by simp [hshape]⟩, ?_⟩
    intro hex
    simp only [] at hex
    have := hsen.2
    omega

theorem qinv_run {c : Cfg α β} {s s' : State β} {ops : List Op} (hi : Inv c s) (hq : QInv s)
    (h : run? c s ops = some s') : QInv s' := by
  induction ops generalizing s with
  | nil => simp [run?] at h; subst h; exact hq
  | cons op ops ih =>
    simp only [run?] at h
    split at h
    · rename_i s1 h1
      exact ih (inv_step hi h1) (qinv_step hi hq h1) h
    · cases h

theorem qinv_reachable {c : Cfg α β} {s : State β} (h : Reachable c s) : QInv s := by
  obtain ⟨ops, h⟩ := h
  exact qinv_run (inv_init c) (qinv_init c) h

/-- Reachable by a session schedule (pool transitions and new `execute` calls) from a fresh executor. -/
def SReachable (c0 : Cfg α β) (s : Sess α β) : Prop := ∃ ops, srun? (sinit c0) ops = some s

theorem sinv_reachable {c0 : Cfg α β} {s : Sess α β} (h : SReachable c0 s) : SInv c0 s := by
  obtain ⟨ops, h⟩ := h
  exact sinv_run (sinv_init c0) h

/-- Pool transitions of the current call do not change the configuration of the call. -/
theorem srun_ops {s s' : Sess α β} {ops : List Op} (h : srun? s (ops.map SOp.op) = some s') :
    s'.cfg = s.cfg ∧ s'.past = s.past ∧ run? s.cfg s.st ops = some s'.st := by
  induction ops generalizing s with
  | nil => simp [srun?] at h; subst h; simp [run?]
  | cons o ops ih =>
    simp only [List.map_cons, srun?, sstep?] at h
    split at h
    · rename_i s1 h1
      split at h1
      · rename_i st' hst
        cases h1
        obtain ⟨h1, h2, h3⟩ := ih h
        exact ⟨h1, h2, by simp [run?, hst]; exact h3⟩
      · cases h1
    · cases h

theorem srun_append {s s1 s2 : Sess α β} {ops1 ops2 : List (SOp α)}
    (h1 : srun? s ops1 = some s1) (h2 : srun? s1 ops2 = some s2) :
    srun? s (ops1 ++ ops2) = some s2 := by
  induction ops1 generalizing s with
  | nil => simp [srun?] at h1; subst h1; simpa using h2
  | cons op ops ih =>
    simp only [srun?] at h1
    split at h1
    · rename_i s' hs'
      simp only [List.cons_append, srun?, hs']
      exact ih h1
    · cases h1

end GV.C13
