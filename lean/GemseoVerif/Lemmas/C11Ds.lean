/-
C11 — lemmas about the design-space file formats (`DesignSpace.to_hdf/from_hdf`, rows of
`to_csv/from_csv`).
-/
import GemseoVerif.Lemmas.C11

namespace GV.C11

def groupOf (v : DVar) : DVarGroup :=
  { size := v.size, lb := v.lb, ub := v.ub, varType := List.replicate v.size v.isInt, value := v.value }

theorem dsToHdfGroups_spec (ds : DSpace) (gs : List (String × DVarGroup))
    (nd : (ds.map (·.name)).Nodup) (dj : ∀ n ∈ ds.map (·.name), n ∉ gs.map (·.1)) :
    dsToHdfGroups ds gs = some (gs ++ ds.map (fun v => (v.name, groupOf v))) := by
  induction ds generalizing gs with
  | nil => simp [dsToHdfGroups]
  | cons v t ih =>
    simp only [List.map_cons, List.nodup_cons] at nd
    have hnone : alook v.name gs = none := alook_eq_none.mpr (dj v.name (by simp))
    simp only [dsToHdfGroups, putGroup, hnone]
    have := ih (gs ++ [(v.name, groupOf v)]) nd.2 (by
      intro n hn
      simp only [List.map_append, List.map_cons, List.map_nil, List.mem_append, List.mem_singleton, not_or]
      exact ⟨dj n (by simp [hn]), fun e => nd.1 (e ▸ hn)⟩)
    simpa [groupOf] using this

theorem dsHdf_roundtrip (ds : DSpace) (nd : (ds.map (·.name)).Nodup)
    (hsize : ∀ v ∈ ds, 1 ≤ v.size) :
    ∃ f, dsToHdf ds = some f ∧ dsFromHdf f = some ds := by
  have hg := dsToHdfGroups_spec ds [] nd (by simp)
  simp only [List.nil_append] at hg
  refine ⟨{ names := ds.map (·.name), groups := ds.map (fun v => (v.name, groupOf v)) }, by
    simp [dsToHdf, hg], ?_⟩
  unfold dsFromHdf
  apply optAll_eq_some
  simp only [List.map_map]
  apply List.map_congr_left
  intro v hv
  have hkeys : ((ds.map (fun v => (v.name, groupOf v))).map (·.1)) = ds.map (·.name) := by
    simp [List.map_map, Function.comp_def]
  have hl : alook v.name (ds.map (fun v => (v.name, groupOf v))) = some (groupOf v) :=
    alook_of_mem_nodup (by rw [hkeys]; exact nd) (List.mem_map.mpr ⟨v, hv, rfl⟩)
  have hs := hsize v hv
  simp only [Function.comp_def, hl]
  obtain ⟨m, hm⟩ : ∃ m, v.size = m + 1 := ⟨v.size - 1, by omega⟩
  simp [groupOf, hm, List.replicate_succ]
  cases v; simp_all

end GV.C11
