/-
C11 — lemmas about the design-space file formats (`DesignSpace.to_hdf/from_hdf`, rows of
`to_csv/from_csv`).
-/
import GemseoVerif.Lemmas.C11

namespace GV.C11

def groupOf (v : DVar) : DVarGroup :=
  { size := v.size, lb := v.lb, ub := v.ub, varType := List.replicate v.size v.isInt, value := v.value }

theorem dsToHdfGroups_spec (ds : DSpace) (gs : List (String × DVarGroup))
    (nd : (ds.map (·.name)).Nodup) (dj : ∀ n ∈ ds.map (·.name), n ∉ gs.map (·.1)) :
    dsToHdfGroups ds gs = some (gs ++ ds.map (fun v => (v.name, groupOf v))) := by
  induction ds generalizing gs with
  | nil => simp [dsToHdfGroups]
  | cons v t ih =>
    simp only [List.map_cons, List.nodup_cons] at nd
    have hnone : alook v.name gs = none := alook_eq_none.mpr (dj v.name (by simp))
    simp only [dsToHdfGroups, putGroup, hnone]
    have := ih (gs ++ [(v.name, groupOf v)]) nd.2 (by
      intro n hn
      simp only [List.map_append, List.map_cons, List.map_nil, List.mem_append, List.mem_singleton, not_or]
      exact ⟨dj n (by simp [hn]), fun e => nd.1 (e ▸ hn)⟩)
    simpa [groupOf] using this

theorem dsHdf_roundtrip (ds : DSpace) (nd : (ds.map (·.name)).Nodup)
    (hsize : ∀ v ∈ ds, 1 ≤ v.size) :
    ∃ f, dsToHdf ds = some f ∧ dsFromHdf f = some ds := by
  have hg := dsToHdfGroups_spec ds [] nd (by simp)
  simp only [List.nil_append] at hg
  refine ⟨{ names := ds.map (·.name), groups := ds.map (fun v => (v.name, groupOf v)) }, by
    simp [dsToHdf, hg], ?_⟩
  unfold dsFromHdf
  apply optAll_eq_some
  simp only [List.map_map]
  apply List.map_congr_left
  intro v hv
  have hkeys : ((ds.map (fun v => (v.name, groupOf v))).map (·.1)) = ds.map (·.name) := by
    simp [List.map_map, Function.comp_def]
  have hl : alook v.name (ds.map (fun v => (v.name, groupOf v))) = some (groupOf v) :=
    alook_of_mem_nodup (by rw [hkeys]; exact nd) (List.mem_map.mpr ⟨v, hv, rfl⟩)
  have hs := hsize v hv
  simp only [Function.comp_def, hl]
  obtain ⟨m, hm⟩ : ∃ m, v.size = m + 1 := ⟨v.size - 1, by omega⟩
  simp [groupOf, hm, List.replicate_succ]
  cases v; simp_all

/-! ### Text format (rows of `to_csv` / `from_csv`) -/

/-- The lists of a variable have the length its size announces (what `add_variable` enforces). -/
structure DVarWF (v : DVar) : Prop where
  size_pos : 1 ≤ v.size
  lb_len : v.lb.length = v.size
  ub_len : v.ub.length = v.size
  val_len : ∀ l, v.value = some l → l.length = v.size

theorem varRows_names (v : DVar) : (varRows v).map (·.name) = List.replicate v.size v.name := by
  simp only [varRows, List.map_map]
  apply List.ext_getElem (by simp)
  intro i h1 h2
  simp

theorem varRows_length (v : DVar) : (varRows v).length = v.size := by simp [varRows]

theorem dsToRows_cons (v : DVar) (t : DSpace) : dsToRows (v :: t) = varRows v ++ dsToRows t := by
  simp [dsToRows]

theorem uniqueNames_skip (n : String) (j : Nat) (rest acc : List String) (hn : n ∈ acc) :
    uniqueNames (List.replicate j n ++ rest) acc (some n) = uniqueNames rest acc (some n) := by
  induction j with
  | zero => simp
  | succ j ih =>
    have hc : acc.contains n = true := by simpa using hn
    simp only [List.replicate_succ, List.cons_append, uniqueNames, hc, Bool.not_true,
      Bool.false_eq_true, if_false, ne_eq, not_true_eq_false]
    exact ih

theorem uniqueNames_block (n : String) (k : Nat) (hk : 1 ≤ k) (rest acc : List String)
    (prev : Option String) (hn : n ∉ acc) :
    uniqueNames (List.replicate k n ++ rest) acc prev = uniqueNames rest (acc ++ [n]) (some n) := by
  obtain ⟨j, rfl⟩ : ∃ j, k = j + 1 := ⟨k - 1, by omega⟩
  have hc : acc.contains n = false := by simpa using hn
  simp only [List.replicate_succ, List.cons_append, uniqueNames, hc, Bool.not_false, if_true]
  exact uniqueNames_skip n j rest (acc ++ [n]) (by simp)

theorem uniqueNames_rows (ds : DSpace) (acc : List String) (prev : Option String)
    (nd : (ds.map (·.name)).Nodup) (dj : ∀ n ∈ ds.map (·.name), n ∉ acc)
    (hsize : ∀ v ∈ ds, 1 ≤ v.size) :
    uniqueNames ((dsToRows ds).map (·.name)) acc prev = some (acc ++ ds.map (·.name)) := by
  induction ds generalizing acc prev with
  | nil => simp [dsToRows, uniqueNames]
  | cons v t ih =>
    simp only [List.map_cons, List.nodup_cons] at nd
    rw [dsToRows_cons, List.map_append, varRows_names,
      uniqueNames_block v.name v.size (hsize v (by simp)) _ acc prev (dj v.name (by simp))]
    rw [ih (acc ++ [v.name]) (some v.name) nd.2 (by
      intro n hn
      simp only [List.mem_append, List.mem_singleton, not_or]
      exact ⟨dj n (by simp [hn]), fun e => nd.1 (e ▸ hn)⟩) (fun w hw => hsize w (List.mem_cons_of_mem _ hw))]
    simp

theorem count_rows_other (ds : DSpace) (n : String) (h : n ∉ ds.map (·.name)) :
    ((dsToRows ds).map (·.name)).count n = 0 := by
  rw [List.count_eq_zero]
  intro hm
  obtain ⟨r, hr, e⟩ := List.mem_map.mp hm
  simp only [dsToRows, List.mem_flatMap] at hr
  obtain ⟨v, hv, hrv⟩ := hr
  have : r.name = v.name := by
    have hmem : r.name ∈ (varRows v).map (·.name) := List.mem_map.mpr ⟨r, hrv, rfl⟩
    rw [varRows_names] at hmem
    exact (List.mem_replicate.mp hmem).2
  exact h (List.mem_map.mpr ⟨v, hv, by rw [← this, e]⟩)

theorem map_getD_range {α : Type} (l : List α) (d : α) (n : Nat) (h : l.length = n) :
    (List.range n).map (fun i => l.getD i d) = l := by
  apply List.ext_getElem (by simp [h])
  intro i h1 h2
  simp [List.getD_eq_getElem?_getD, h2]

theorem rowsToVars_spec (ds : DSpace) (pre : List Row)
    (nd : (ds.map (·.name)).Nodup) (dj : ∀ n ∈ ds.map (·.name), n ∉ pre.map (·.name))
    (wf : ∀ v ∈ ds, DVarWF v) :
    rowsToVars (pre ++ dsToRows ds) (ds.map (·.name)) pre.length = some ds := by
  induction ds generalizing pre with
  | nil => simp [rowsToVars]
  | cons v t ih =>
    simp only [List.map_cons, List.nodup_cons] at nd
    have hwf := wf v (by simp)
    have hcount : ((pre ++ dsToRows (v :: t)).map (·.name)).count v.name = v.size := by
      rw [dsToRows_cons, List.map_append, List.map_append, List.count_append, List.count_append,
        varRows_names, count_rows_other t v.name nd.1]
      have : (pre.map (·.name)).count v.name = 0 := List.count_eq_zero.mpr (dj v.name (by simp))
      simp [this]
    have hchunk : ((pre ++ dsToRows (v :: t)).drop pre.length).take v.size = varRows v := by
      rw [List.drop_left, dsToRows_cons, List.take_left' (varRows_length v)]
    have hrest := ih (pre ++ varRows v) nd.2 (by
      intro n hn
      simp only [List.map_append, List.mem_append, not_or, varRows_names]
      refine ⟨dj n (by simp [hn]), ?_⟩
      intro hm
      exact nd.1 ((List.mem_replicate.mp hm).2 ▸ hn)) (fun w hw => wf w (List.mem_cons_of_mem _ hw))
    have hrows : pre ++ dsToRows (v :: t) = (pre ++ varRows v) ++ dsToRows t := by
      rw [dsToRows_cons, List.append_assoc]
    have hk : pre.length + v.size = (pre ++ varRows v).length := by simp [varRows_length]
    simp only [List.map_cons, rowsToVars, hcount, hchunk]
    -- the chunk is not empty
    obtain ⟨m, hm⟩ : ∃ m, v.size = m + 1 := ⟨v.size - 1, by have := hwf.size_pos; omega⟩
    have hne : ∃ r0 tl, varRows v = r0 :: tl ∧ r0.isInt = v.isInt := by
      refine ⟨_, _, by simp only [varRows, hm, List.range_succ_eq_map, List.map_cons]; rfl, rfl⟩
    obtain ⟨r0, tl, hr0, hint⟩ := hne
    rw [hr0, hk, ← hr0, hrows, hrest]
    simp only [Option.some.injEq, List.cons.injEq, and_true]
    have hlb : (varRows v).map (·.lb) = v.lb := by
      simp only [varRows, List.map_map, Function.comp_def]
      exact map_getD_range v.lb none v.size hwf.lb_len
    have hub : (varRows v).map (·.ub) = v.ub := by
      simp only [varRows, List.map_map, Function.comp_def]
      exact map_getD_range v.ub none v.size hwf.ub_len
    have hval : (if (varRows v).any (fun r => r.value.isNone) then none
        else some ((varRows v).map (fun r => r.value.getD 0))) = v.value := by
      cases hv : v.value with
      | none =>
        have : (varRows v).any (fun r => r.value.isNone) = true := by
          rw [hr0]
          have : r0.value = none := by
            have hmem : r0 ∈ varRows v := by rw [hr0]; simp
            simp only [varRows, hv, List.mem_map] at hmem
            obtain ⟨i, _, rfl⟩ := hmem
            rfl
          simp [this]
        simp [this]
      | some l =>
        have hany : (varRows v).any (fun r => r.value.isNone) = false := by
          rw [List.any_eq_false]
          intro r hr
          simp only [varRows, hv, List.mem_map] at hr
          obtain ⟨i, _, rfl⟩ := hr
          simp
        have hmap : (varRows v).map (fun r => r.value.getD 0) = l := by
          simp only [varRows, hv, List.map_map, Function.comp_def, Option.getD_some]
          exact map_getD_range l 0 v.size (hwf.val_len l hv)
        simp [hany, hmap]
    rw [hlb, hub, hval, hr0]
    simp only [hint]

/-- **Text round trip** on the row structure: grouping consecutive rows by name, counting them,
    taking the bounds row by row, the type of the first row and the value unless a row prints
    `None`, gives back the design space. -/
theorem dsCsv_roundtrip (ds : DSpace) (nd : (ds.map (·.name)).Nodup) (wf : ∀ v ∈ ds, DVarWF v) :
    dsFromRows (dsToRows ds) = some ds := by
  unfold dsFromRows
  rw [uniqueNames_rows ds [] none nd (by simp) (fun v hv => (wf v hv).size_pos)]
  simp only [List.nil_append]
  have := rowsToVars_spec ds [] nd (by simp) wf
  simpa using this

end GV.C11
