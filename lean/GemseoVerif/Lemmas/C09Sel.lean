/-
C09 — helper lemmas (3): `traverse_add_diff_io` selects every partial derivative the accumulation
needs (`selection_covers_paths`), and the request cache of `MDOChain` keeps that property along any
history of requests.
-/
import GemseoVerif.Lemmas.C09Par

namespace GV.C09

set_option linter.unusedSectionVars false

section Lists
variable {V : Type} [DecidableEq V]

theorem mem_inter (a b : List V) (v : V) : v ∈ inter a b ↔ v ∈ a ∧ v ∈ b := by
  simp [inter]

theorem mem_union (a b : List V) (v : V) : v ∈ union a b ↔ v ∈ a ∨ v ∈ b := by
  simp only [union, List.mem_append, List.mem_filter, Bool.not_eq_true', decide_eq_false_iff_not]
  tauto

theorem mem_unions (ls : List (List V)) (v : V) : v ∈ unions ls ↔ ∃ l ∈ ls, v ∈ l := by
  unfold unions
  have gen : ∀ (ls : List (List V)) (acc : List V),
      v ∈ ls.foldl union acc ↔ v ∈ acc ∨ ∃ l ∈ ls, v ∈ l := by
    intro ls
    induction ls with
    | nil => intro acc; simp
    | cons l ls ih =>
      intro acc
      simp only [List.foldl_cons, ih, mem_union, List.mem_cons, exists_eq_or_imp]
      tauto
  simpa using gen ls []

theorem mem_edgeIO (ios : List (DiscIO V)) (i j : Nat) (v : V) :
    v ∈ edgeIO ios i j ↔ i ≠ j ∧ v ∈ (ios.getD i ([], [])).2 ∧ v ∈ (ios.getD j ([], [])).1 := by
  unfold edgeIO
  by_cases h : i = j
  · simp [h]
  · simp [h, mem_inter]

theorem hasEdge_iff (ios : List (DiscIO V)) (i j : Nat) :
    hasEdge ios i j = true ↔ ∃ v, v ∈ edgeIO ios i j := by
  unfold hasEdge
  cases h : edgeIO ios i j with
  | nil => simp
  | cons a l => simp

end Lists

/-! ### Reachability by relaxation rounds -/

section Reach
variable (n : Nat) (next : Nat → Nat → Bool)

theorem mem_expand (s : List Nat) (j : Nat) :
    j ∈ expand n next s ↔ j ∈ s ∨ (j < n ∧ ∃ i ∈ s, next i j = true) := by
  simp only [expand, List.mem_append, List.mem_filter, List.mem_range, Bool.and_eq_true,
    Bool.not_eq_true', decide_eq_false_iff_not, List.any_eq_true]
  constructor
  · rintro (h | ⟨hj, _, hi⟩)
    · exact Or.inl h
    · exact Or.inr ⟨hj, hi⟩
  · rintro (h | ⟨hj, hi⟩)
    · exact Or.inl h
    · by_cases hs : j ∈ s
      · exact Or.inl hs
      · exact Or.inr ⟨hj, hs, hi⟩

theorem reach_mono (f : Nat) (s s' : List Nat) (h : ∀ i ∈ s, i ∈ s') :
    ∀ i ∈ reach n next f s, i ∈ reach n next f s' := by
  induction f generalizing s s' with
  | zero => exact h
  | succ f ih =>
    simp only [reach]
    apply ih
    intro i hi
    rw [mem_expand] at hi ⊢
    rcases hi with hi | ⟨hj, i', hi', hn⟩
    · exact Or.inl (h i hi)
    · exact Or.inr ⟨hj, i', h i' hi', hn⟩

theorem subset_reach (f : Nat) (s : List Nat) : ∀ i ∈ s, i ∈ reach n next f s := by
  induction f generalizing s with
  | zero => intro i hi; exact hi
  | succ f ih =>
    intro i hi
    simp only [reach]
    exact ih _ i ((mem_expand n next s i).mpr (Or.inl hi))

theorem reach_succ_fuel (f : Nat) (s : List Nat) :
    ∀ i ∈ reach n next f s, i ∈ reach n next (f + 1) s := by
  intro i hi
  simp only [reach]
  exact reach_mono n next f s _ (fun j hj => (mem_expand n next s j).mpr (Or.inl hj)) i hi

theorem reach_le_fuel {f f' : Nat} (hf : f ≤ f') (s : List Nat) :
    ∀ i ∈ reach n next f s, i ∈ reach n next f' s := by
  induction hf with
  | refl => exact fun i hi => hi
  | step _ ih => exact fun i hi => reach_succ_fuel n next _ s i (ih i hi)

/-- Last-step characterisation: one more round adds the successors of what was reached. -/
theorem mem_reach_succ (f : Nat) (s : List Nat) (j : Nat) :
    j ∈ reach n next (f + 1) s
      ↔ j ∈ reach n next f s ∨ (j < n ∧ ∃ i ∈ reach n next f s, next i j = true) := by
  induction f generalizing s with
  | zero => simp only [reach]; exact mem_expand n next s j
  | succ f ih =>
    have := ih (expand n next s)
    simp only [reach] at this ⊢
    exact this

theorem reach_step (f : Nat) (s : List Nat) (i j : Nat) (hi : i ∈ reach n next f s)
    (hn : next i j = true) (hj : j < n) : j ∈ reach n next (f + 1) s :=
  (mem_reach_succ n next f s j).mpr (Or.inr ⟨hj, i, hi, hn⟩)

theorem reach_lt (f : Nat) (s : List Nat) (hs : ∀ i ∈ s, i < n) : ∀ i ∈ reach n next f s, i < n := by
  induction f with
  | zero => exact hs
  | succ f ih =>
    intro i hi
    rcases (mem_reach_succ n next f s i).mp hi with h | ⟨h, _⟩
    · exact ih i h
    · exact h

/-- When every edge goes forward in the list, node `i` is reached within `i` rounds. -/
theorem reach_fuel_forward (hfw : ∀ a b, next a b = true → a < b) (s : List Nat) (f : Nat) :
    ∀ i ∈ reach n next f s, i ∈ reach n next i s := by
  induction f with
  | zero => intro i hi; exact subset_reach n next i s i hi
  | succ f ih =>
    intro i hi
    rcases (mem_reach_succ n next f s i).mp hi with h | ⟨hlt, i', hi', hn⟩
    · exact ih i h
    · have hlt' := hfw i' i hn
      have h1 := ih i' hi'
      have h2 := reach_le_fuel n next (Nat.le_sub_one_of_lt hlt') s i' h1
      have h3 := reach_step n next (i - 1) s i' i h2 hn hlt
      have : i - 1 + 1 = i := by omega
      rwa [this] at h3

/-- Forward edges: `n` rounds reach a set closed under the edges. -/
theorem reach_closed_forward (hfw : ∀ a b, next a b = true → a < b) (s : List Nat)
    (i j : Nat) (hi : i ∈ reach n next n s) (hn : next i j = true) (hj : j < n) :
    j ∈ reach n next n s := by
  have h1 := reach_fuel_forward n next hfw s n i hi
  have h2 := reach_step n next i s i j h1 hn hj
  have := hfw i j hn
  exact reach_le_fuel n next (by omega) s j h2

/-- When every edge goes backward in the list, node `i < n` is reached within `n - 1 - i` rounds. -/
theorem reach_fuel_backward (hbw : ∀ a b, next a b = true → b < a) (s : List Nat)
    (hs : ∀ i ∈ s, i < n) (f : Nat) :
    ∀ i ∈ reach n next f s, i ∈ reach n next (n - 1 - i) s := by
  induction f with
  | zero => intro i hi; exact subset_reach n next _ s i hi
  | succ f ih =>
    intro i hi
    rcases (mem_reach_succ n next f s i).mp hi with h | ⟨hlt, i', hi', hn⟩
    · exact ih i h
    · have hlt' := hbw i' i hn
      have hi'n := reach_lt n next f s hs i' hi'
      have h1 := ih i' hi'
      have h3 := reach_step n next (n - 1 - i') s i' i h1 hn hlt
      exact reach_le_fuel n next (by omega) s i h3

theorem reach_closed_backward (hbw : ∀ a b, next a b = true → b < a) (s : List Nat)
    (hs : ∀ i ∈ s, i < n) (i j : Nat) (hi : i ∈ reach n next n s) (hn : next i j = true)
    (hj : j < n) : j ∈ reach n next n s := by
  have hin := reach_lt n next n s hs i hi
  have h1 := reach_fuel_backward n next hbw s hs n i hi
  have h2 := reach_step n next (n - 1 - i) s i j h1 hn hj
  exact reach_le_fuel n next (by omega) s j h2

end Reach

/-! ### Membership in the pieces of `traverseSelect` -/

section Pieces
variable {V : Type} [DecidableEq V] (ios : List (DiscIO V)) (xs os : List V)

theorem mem_srcIn (i : Nat) :
    i ∈ srcIn ios xs os ↔ i < ios.length ∧ ∃ v, v ∈ xs ∧ v ∈ (ios.getD i ([], [])).1 := by
  simp only [srcIn, initIO, List.mem_filter, List.mem_range, Bool.not_eq_true',
    List.isEmpty_eq_false_iff_exists_mem, mem_inter]

theorem mem_srcOut (i : Nat) :
    i ∈ srcOut ios xs os ↔ i < ios.length ∧ ∃ v, v ∈ os ∧ v ∈ (ios.getD i ([], [])).2 := by
  simp only [srcOut, initIO, List.mem_filter, List.mem_range, Bool.not_eq_true',
    List.isEmpty_eq_false_iff_exists_mem, mem_inter]

theorem mem_dirIn (k : Nat) (v : V) :
    v ∈ dirIn ios xs os k ↔ ∃ i, i < ios.length ∧ i ∈ reachF ios xs os ∧ v ∈ edgeIO ios i k := by
  simp only [dirIn, mem_unions, List.mem_map, List.mem_range]
  constructor
  · rintro ⟨l, ⟨i, hi, rfl⟩, hv⟩
    by_cases h : i ∈ reachF ios xs os
    · simp only [h, decide_true, if_true] at hv; exact ⟨i, hi, h, hv⟩
    · simp [h] at hv
  · rintro ⟨i, hi, h, hv⟩
    exact ⟨_, ⟨i, hi, rfl⟩, by simp [h, hv]⟩

theorem mem_dirOut (k : Nat) (v : V) :
    v ∈ dirOut ios xs os k ↔ k ∈ reachF ios xs os ∧ ∃ j, j < ios.length ∧ v ∈ edgeIO ios k j := by
  unfold dirOut
  by_cases h : k ∈ reachF ios xs os
  · simp only [h, decide_true, if_true, mem_unions, List.mem_map, List.mem_range, true_and]
    constructor
    · rintro ⟨l, ⟨j, hj, rfl⟩, hv⟩; exact ⟨j, hj, hv⟩
    · rintro ⟨j, hj, hv⟩; exact ⟨_, ⟨j, hj, rfl⟩, hv⟩
  · simp [h]

theorem mem_revIn (k : Nat) (v : V) :
    v ∈ revIn ios xs os k ↔ k ∈ reachB ios xs os ∧ ∃ i, i < ios.length ∧ v ∈ edgeIO ios i k := by
  unfold revIn
  by_cases h : k ∈ reachB ios xs os
  · simp only [h, decide_true, if_true, mem_unions, List.mem_map, List.mem_range, true_and]
    constructor
    · rintro ⟨l, ⟨j, hj, rfl⟩, hv⟩; exact ⟨j, hj, hv⟩
    · rintro ⟨j, hj, hv⟩; exact ⟨_, ⟨j, hj, rfl⟩, hv⟩
  · simp [h]

theorem mem_revOut (k : Nat) (v : V) :
    v ∈ revOut ios xs os k ↔ ∃ j, j < ios.length ∧ j ∈ reachB ios xs os ∧ v ∈ edgeIO ios k j := by
  simp only [revOut, mem_unions, List.mem_map, List.mem_range]
  constructor
  · rintro ⟨l, ⟨i, hi, rfl⟩, hv⟩
    by_cases h : i ∈ reachB ios xs os
    · simp only [h, decide_true, if_true] at hv; exact ⟨i, hi, h, hv⟩
    · simp [h] at hv
  · rintro ⟨i, hi, h, hv⟩
    exact ⟨_, ⟨i, hi, rfl⟩, by simp [h, hv]⟩

theorem pick_of (a b ini : List V) (c : Bool) (v : V)
    (h : v ∈ a ∨ (v ∈ ini ∧ b ≠ []) ∨ (v ∈ ini ∧ c = true)) :
    v ∈ (if c then union (if !b.isEmpty then union a ini else a) ini
         else (if !b.isEmpty then union a ini else a)) := by
  cases c <;> cases b <;> simp [mem_union] at h ⊢ <;> tauto

theorem traverseSelect_fst (k : Nat) :
    (traverseSelect ios xs os k).1
      = (if (decide (k ∈ srcIn ios xs os) && decide (k ∈ srcOut ios xs os)) then
          union (if !(inter (dirOut ios xs os k) (revOut ios xs os k)).isEmpty then
              union (inter (dirIn ios xs os k) (revIn ios xs os k)) (initIO ios xs os k).1
            else inter (dirIn ios xs os k) (revIn ios xs os k)) (initIO ios xs os k).1
         else (if !(inter (dirOut ios xs os k) (revOut ios xs os k)).isEmpty then
              union (inter (dirIn ios xs os k) (revIn ios xs os k)) (initIO ios xs os k).1
            else inter (dirIn ios xs os k) (revIn ios xs os k))) := by
  unfold traverseSelect
  simp only []
  split <;> rfl

theorem traverseSelect_snd (k : Nat) :
    (traverseSelect ios xs os k).2
      = (if (decide (k ∈ srcIn ios xs os) && decide (k ∈ srcOut ios xs os)) then
          union (if !(inter (dirIn ios xs os k) (revIn ios xs os k)).isEmpty then
              union (inter (dirOut ios xs os k) (revOut ios xs os k)) (initIO ios xs os k).2
            else inter (dirOut ios xs os k) (revOut ios xs os k)) (initIO ios xs os k).2
         else (if !(inter (dirIn ios xs os k) (revIn ios xs os k)).isEmpty then
              union (inter (dirOut ios xs os k) (revOut ios xs os k)) (initIO ios xs os k).2
            else inter (dirOut ios xs os k) (revOut ios xs os k))) := by
  unfold traverseSelect
  simp only []
  split <;> rfl

/-- Sufficient conditions for an input name to be selected for discipline `k`. -/
theorem sel_in_of (k : Nat) (v : V)
    (h : (v ∈ dirIn ios xs os k ∧ v ∈ revIn ios xs os k)
      ∨ (v ∈ (initIO ios xs os k).1 ∧ ∃ w, w ∈ dirOut ios xs os k ∧ w ∈ revOut ios xs os k)
      ∨ (v ∈ (initIO ios xs os k).1 ∧ k ∈ srcIn ios xs os ∧ k ∈ srcOut ios xs os)) :
    v ∈ (traverseSelect ios xs os k).1 := by
  rw [traverseSelect_fst]
  apply pick_of
  rcases h with ⟨h1, h2⟩ | ⟨h1, w, hw1, hw2⟩ | ⟨h1, h2, h3⟩
  · exact Or.inl ((mem_inter _ _ _).mpr ⟨h1, h2⟩)
  · refine Or.inr (Or.inl ⟨h1, ?_⟩)
    intro hh
    have : w ∈ inter (dirOut ios xs os k) (revOut ios xs os k) := (mem_inter _ _ _).mpr ⟨hw1, hw2⟩
    rw [hh] at this; cases this
  · exact Or.inr (Or.inr ⟨h1, by simp [h2, h3]⟩)

/-- Sufficient conditions for an output name to be selected for discipline `k`. -/
theorem sel_out_of (k : Nat) (w : V)
    (h : (w ∈ dirOut ios xs os k ∧ w ∈ revOut ios xs os k)
      ∨ (w ∈ (initIO ios xs os k).2 ∧ ∃ v, v ∈ dirIn ios xs os k ∧ v ∈ revIn ios xs os k)
      ∨ (w ∈ (initIO ios xs os k).2 ∧ k ∈ srcIn ios xs os ∧ k ∈ srcOut ios xs os)) :
    w ∈ (traverseSelect ios xs os k).2 := by
  rw [traverseSelect_snd]
  apply pick_of
  rcases h with ⟨h1, h2⟩ | ⟨h1, v, hv1, hv2⟩ | ⟨h1, h2, h3⟩
  · exact Or.inl ((mem_inter _ _ _).mpr ⟨h1, h2⟩)
  · refine Or.inr (Or.inl ⟨h1, ?_⟩)
    intro hh
    have : v ∈ inter (dirIn ios xs os k) (revIn ios xs os k) := (mem_inter _ _ _).mpr ⟨hv1, hv2⟩
    rw [hh] at this; cases this
  · exact Or.inr (Or.inr ⟨h1, by simp [h2, h3]⟩)

end Pieces

/-! ### The selection of the traversal covers what the accumulation needs -/

section Main
variable {V : Type} [DecidableEq V] [Fintype V] {β : V → V → Type} [BlockOps β]
  [∀ o i, AddCommMonoid (β o i)] [LawfulBlocks β]

/-- Grammars of the disciplines of a chain. -/
def iosOf (ds : List (Disc β)) : List (DiscIO V) := ds.map (fun d => (d.ins, d.outs))

@[simp] theorem iosOf_length (ds : List (Disc β)) : (iosOf ds).length = ds.length := by
  simp [iosOf]

theorem iosOf_getD (ds : List (Disc β)) (k : Nat) (d : Disc β) (h : ds[k]? = some d) :
    (iosOf ds).getD k ([], []) = (d.ins, d.outs) := by
  simp [iosOf, List.getD_eq_getElem?_getD, h]

theorem iosOf_getD_none (ds : List (Disc β)) (k : Nat) (h : ds[k]? = none) :
    (iosOf ds).getD k ([], []) = ([], []) := by
  simp [iosOf, List.getD_eq_getElem?_getD, h]

/-- The quantifier of the property: the chain is listed in a valid order for its name-based
    dependency graph (no discipline computes a variable that an earlier one reads — the graph is then
    acyclic) and the keys of every Jacobian dictionary are (output, input) names of the discipline. -/
structure ValidChain (ds : List (Disc β)) : Prop where
  order : ∀ (i j : Nat) (di dj : Disc β), ds[i]? = some di → ds[j]? = some dj → i < j →
    ∀ v, v ∈ dj.outs → v ∉ di.ins
  keys : ∀ d ∈ ds, ∀ w v, d.jac.present w v → w ∈ d.outs ∧ v ∈ d.ins

theorem edge_of (ds : List (Disc β)) (i j : Nat) (di dj : Disc β) (hi : ds[i]? = some di)
    (hj : ds[j]? = some dj) (hne : i ≠ j) (v : V) (hvo : v ∈ di.outs) (hvi : v ∈ dj.ins) :
    v ∈ edgeIO (iosOf ds) i j ∧ hasEdge (iosOf ds) i j = true := by
  have h : v ∈ edgeIO (iosOf ds) i j := by
    rw [mem_edgeIO, iosOf_getD ds i di hi, iosOf_getD ds j dj hj]
    exact ⟨hne, hvo, hvi⟩
  exact ⟨h, (hasEdge_iff _ _ _).mpr ⟨v, h⟩⟩

theorem edge_forward {ds : List (Disc β)} (hv : ValidChain ds) (a b : Nat)
    (h : hasEdge (iosOf ds) a b = true) : a < b := by
  obtain ⟨v, hvm⟩ := (hasEdge_iff _ _ _).mp h
  rw [mem_edgeIO] at hvm
  obtain ⟨hne, ho, hi⟩ := hvm
  cases ha : ds[a]? with
  | none => rw [iosOf_getD_none ds a ha] at ho; cases ho
  | some da =>
    cases hb : ds[b]? with
    | none => rw [iosOf_getD_none ds b hb] at hi; cases hi
    | some db =>
      rw [iosOf_getD ds a da ha] at ho
      rw [iosOf_getD ds b db hb] at hi
      rcases Nat.lt_or_gt_of_ne hne with hlt | hgt
      · exact hlt
      · exact absurd hi (hv.order b a db da hb ha hgt v ho)

theorem lt_of_getElem? {ds : List (Disc β)} {k : Nat} {d : Disc β} (h : ds[k]? = some d) :
    k < ds.length := by
  by_contra hh
  rw [List.getElem?_eq_none (Nat.le_of_not_lt hh)] at h
  cases h

theorem reachF_closed {ds : List (Disc β)} (hv : ValidChain ds) (X O : List V) (i j : Nat)
    (hi : i ∈ reachF (iosOf ds) X O) (he : hasEdge (iosOf ds) i j = true) (hj : j < ds.length) :
    j ∈ reachF (iosOf ds) X O := by
  unfold reachF at hi ⊢
  rw [iosOf_length] at hi ⊢
  exact reach_closed_forward _ _ (edge_forward hv) _ i j hi he hj

theorem reachB_closed {ds : List (Disc β)} (hv : ValidChain ds) (X O : List V) (i j : Nat)
    (hj : j ∈ reachB (iosOf ds) X O) (he : hasEdge (iosOf ds) i j = true) (hi : i < ds.length) :
    i ∈ reachB (iosOf ds) X O := by
  unfold reachB at hj ⊢
  rw [iosOf_length] at hj ⊢
  refine reach_closed_backward _ _ (fun a b h => edge_forward hv b a h) _ ?_ j i hj he hi
  intro l hl
  have := (mem_srcOut (iosOf ds) X O l).mp hl
  simpa using this.1

theorem srcIn_reachF (ios : List (DiscIO V)) (X O : List V) (k : Nat) (h : k ∈ srcIn ios X O) :
    k ∈ reachF ios X O := subset_reach _ _ _ _ k h

theorem srcOut_reachB (ios : List (DiscIO V)) (X O : List V) (k : Nat) (h : k ∈ srcOut ios X O) :
    k ∈ reachB ios X O := subset_reach _ _ _ _ k h

/-- Backward invariant: a variable needed after position `pre.length` is a requested output or is
    read by a later discipline from which a requested output is reachable. -/
theorem needB_reach {ds : List (Disc β)} (hv : ValidChain ds) (X O : List V) :
    ∀ (rest pre : List (Disc β)), ds = pre ++ rest → ∀ w, needB rest (fun v => v ∈ O) w →
      w ∈ O ∨ ∃ l dl, pre.length ≤ l ∧ ds[l]? = some dl ∧ w ∈ dl.ins ∧ l ∈ reachB (iosOf ds) X O := by
  intro rest
  induction rest with
  | nil => intro pre _ w hw; exact Or.inl hw
  | cons e rest ih =>
    intro pre hds w hw
    have hl0 : ds[pre.length]? = some e := by simp [hds]
    have hds' : ds = (pre ++ [e]) ++ rest := by simp [hds]
    have hlen' : (pre ++ [e]).length = pre.length + 1 := by simp
    rcases hw with ⟨_, h⟩ | ⟨w', hw'o, hn', hp⟩
    · rcases ih (pre ++ [e]) hds' w h with h1 | ⟨l, dl, hl, hdl, hwi, hlb⟩
      · exact Or.inl h1
      · exact Or.inr ⟨l, dl, by omega, hdl, hwi, hlb⟩
    · have hk := hv.keys e (by simp [hds]) w' w hp
      have hl0n := lt_of_getElem? hl0
      have hrb : pre.length ∈ reachB (iosOf ds) X O := by
        rcases ih (pre ++ [e]) hds' w' hn' with h1 | ⟨l, dl, hl, hdl, hwi, hlb⟩
        · apply srcOut_reachB
          rw [mem_srcOut, iosOf_getD ds _ e hl0]
          exact ⟨by simpa using hl0n, w', h1, hw'o⟩
        · have hne : pre.length ≠ l := by omega
          have := (edge_of ds pre.length l e dl hl0 hdl hne w' hw'o hwi).2
          exact reachB_closed hv X O pre.length l hlb this hl0n
      exact Or.inr ⟨pre.length, e, le_refl _, hl0, hk.2, hrb⟩

/-- **selection_covers_paths.**  For a chain in valid order, any selection containing, for every
    discipline, what `traverse_add_diff_io` selects for the request `(X, O)` keeps every partial
    derivative the accumulation needs (`Covers`). -/
theorem covers_suffix {ds : List (Disc β)} (hv : ValidChain ds) (X O : List V)
    (sel : List (DiscIO V)) (hlen : sel.length = ds.length)
    (hsel : ∀ k, k < ds.length →
      (∀ v, v ∈ (traverseSelect (iosOf ds) X O k).1 → v ∈ (sel.getD k ([], [])).1) ∧
      (∀ v, v ∈ (traverseSelect (iosOf ds) X O k).2 → v ∈ (sel.getD k ([], [])).2)) :
    ∀ (suf pre : List (Disc β)) (S : V → Prop), ds = pre ++ suf →
      (∀ v, S v → v ∈ X ∨ ∃ j dj, j < pre.length ∧ ds[j]? = some dj ∧ v ∈ dj.outs ∧
        j ∈ reachF (iosOf ds) X O) →
      Covers (restrictAll suf (sel.drop pre.length)) suf S (fun v => v ∈ O) := by
  intro suf
  induction suf with
  | nil => intro pre S _ _; simp [restrictAll, Covers]
  | cons d rest ih =>
    intro pre S hds hinv
    have hk : ds[pre.length]? = some d := by simp [hds]
    have hkn := lt_of_getElem? hk
    have hks : pre.length < sel.length := by omega
    have hdrop : sel.drop pre.length = sel[pre.length] :: sel.drop (pre.length + 1) :=
      List.drop_eq_getElem_cons hks
    have hgetD : sel.getD pre.length ([], []) = sel[pre.length] := by
      simp [List.getD_eq_getElem?_getD, hks]
    have hds' : ds = (pre ++ [d]) ++ rest := by simp [hds]
    have hdm : d ∈ ds := by simp [hds]
    rw [hdrop]
    simp only [restrictAll, List.zipWith_cons_cons]
    refine ⟨restrict_sub d _ _, ?_, ?_⟩
    · -- every needed key is kept
      intro w v hwo hneed hp hS
      rw [DJac.present_restrict]
      have hkeys := hv.keys d hdm w v hp
      have hio := iosOf_getD ds _ d hk
      -- forward facts about `v`
      have hF : (v ∈ X) ∨ ∃ j dj, j < pre.length ∧ ds[j]? = some dj ∧ v ∈ dj.outs ∧
          j ∈ reachF (iosOf ds) X O := hinv v hS
      -- backward facts about `w`
      have hB := needB_reach hv X O rest (pre ++ [d]) hds' w hneed
      have hkF : pre.length ∈ reachF (iosOf ds) X O := by
        rcases hF with hx | ⟨j, dj, hj, hdj, hvo, hjr⟩
        · apply srcIn_reachF
          rw [mem_srcIn, hio]
          exact ⟨by simpa using hkn, v, hx, hkeys.2⟩
        · have := (edge_of ds j pre.length dj d hdj hk (by omega) v hvo hkeys.2).2
          exact reachF_closed hv X O j pre.length hjr this hkn
      have hkB : pre.length ∈ reachB (iosOf ds) X O := by
        rcases hB with ho | ⟨l, dl, hl, hdl, hwi, hlr⟩
        · apply srcOut_reachB
          rw [mem_srcOut, hio]
          exact ⟨by simpa using hkn, w, ho, hkeys.1⟩
        · have hne : pre.length ≠ l := by simp at hl; omega
          have := (edge_of ds pre.length l d dl hk hdl hne w hkeys.1 hwi).2
          exact reachB_closed hv X O pre.length l hlr this hkn
      have hsk := hsel pre.length hkn
      rw [hgetD] at hsk
      refine ⟨hp, hsk.2 w ?_, hsk.1 v ?_⟩
      · -- `w` is a selected output
        apply sel_out_of
        rcases hB with ho | ⟨l, dl, hl, hdl, hwi, hlr⟩
        · have hini : w ∈ (initIO (iosOf ds) X O pre.length).2 := by
            simp only [initIO, mem_inter, hio]; exact ⟨ho, hkeys.1⟩
          rcases hF with hx | ⟨j, dj, hj, hdj, hvo, hjr⟩
          · refine Or.inr (Or.inr ⟨hini, ?_, ?_⟩)
            · rw [mem_srcIn, hio]; exact ⟨by simpa using hkn, v, hx, hkeys.2⟩
            · rw [mem_srcOut, hio]; exact ⟨by simpa using hkn, w, ho, hkeys.1⟩
          · have he := (edge_of ds j pre.length dj d hdj hk (by omega) v hvo hkeys.2).1
            have hjn := lt_of_getElem? hdj
            refine Or.inr (Or.inl ⟨hini, v, ?_, ?_⟩)
            · rw [mem_dirIn]; exact ⟨j, by simpa using hjn, hjr, he⟩
            · rw [mem_revIn]; exact ⟨hkB, j, by simpa using hjn, he⟩
        · have hne : pre.length ≠ l := by simp at hl; omega
          have he := (edge_of ds pre.length l d dl hk hdl hne w hkeys.1 hwi).1
          have hln := lt_of_getElem? hdl
          refine Or.inl ⟨?_, ?_⟩
          · rw [mem_dirOut]; exact ⟨hkF, l, by simpa using hln, he⟩
          · rw [mem_revOut]; exact ⟨l, by simpa using hln, hlr, he⟩
      · -- `v` is a selected input
        apply sel_in_of
        rcases hF with hx | ⟨j, dj, hj, hdj, hvo, hjr⟩
        · have hini : v ∈ (initIO (iosOf ds) X O pre.length).1 := by
            simp only [initIO, mem_inter, hio]; exact ⟨hx, hkeys.2⟩
          rcases hB with ho | ⟨l, dl, hl, hdl, hwi, hlr⟩
          · refine Or.inr (Or.inr ⟨hini, ?_, ?_⟩)
            · rw [mem_srcIn, hio]; exact ⟨by simpa using hkn, v, hx, hkeys.2⟩
            · rw [mem_srcOut, hio]; exact ⟨by simpa using hkn, w, ho, hkeys.1⟩
          · have hne : pre.length ≠ l := by simp at hl; omega
            have he := (edge_of ds pre.length l d dl hk hdl hne w hkeys.1 hwi).1
            have hln := lt_of_getElem? hdl
            refine Or.inr (Or.inl ⟨hini, w, ?_, ?_⟩)
            · rw [mem_dirOut]; exact ⟨hkF, l, by simpa using hln, he⟩
            · rw [mem_revOut]; exact ⟨l, by simpa using hln, hlr, he⟩
        · have he := (edge_of ds j pre.length dj d hdj hk (by omega) v hvo hkeys.2).1
          have hjn := lt_of_getElem? hdj
          refine Or.inl ⟨?_, ?_⟩
          · rw [mem_dirIn]; exact ⟨j, by simpa using hjn, hjr, he⟩
          · rw [mem_revIn]; exact ⟨hkB, j, by simpa using hjn, he⟩
    · -- the rest of the chain, with the forward invariant re-established
      have := ih (pre ++ [d]) (reachStep d S) hds' ?_
      · simpa [restrictAll] using this
      · intro v hv'
        unfold reachStep at hv'
        by_cases hvo : v ∈ d.outs
        · simp only [hvo, if_true] at hv'
          obtain ⟨i, hpi, hSi⟩ := hv'
          have hkeys := hv.keys d hdm v i hpi
          right
          refine ⟨pre.length, d, by simp, hk, hvo, ?_⟩
          rcases hinv i hSi with hx | ⟨j, dj, hj, hdj, hio', hjr⟩
          · apply srcIn_reachF
            rw [mem_srcIn, iosOf_getD ds _ d hk]
            exact ⟨by simpa using hkn, i, hx, hkeys.2⟩
          · have := (edge_of ds j pre.length dj d hdj hk (by omega) i hio' hkeys.2).2
            exact reachF_closed hv X O j pre.length hjr this hkn
        · simp only [hvo, if_false] at hv'
          rcases hinv v hv' with hx | ⟨j, dj, hj, hdj, hvo', hjr⟩
          · exact Or.inl hx
          · exact Or.inr ⟨j, dj, by simp; omega, hdj, hvo', hjr⟩

theorem selection_covers_paths {ds : List (Disc β)} (hv : ValidChain ds) (X O : List V)
    (sel : List (DiscIO V)) (hlen : sel.length = ds.length)
    (hsel : ∀ k, k < ds.length →
      (∀ v, v ∈ (traverseSelect (iosOf ds) X O k).1 → v ∈ (sel.getD k ([], [])).1) ∧
      (∀ v, v ∈ (traverseSelect (iosOf ds) X O k).2 → v ∈ (sel.getD k ([], [])).2)) :
    Covers (restrictAll ds sel) ds (fun v => v ∈ X) (fun v => v ∈ O) := by
  have := covers_suffix hv X O sel hlen hsel ds [] (fun v => v ∈ X) rfl (fun v h => Or.inl h)
  simpa using this

end Main

/-! ### The request cache of `MDOChain` (`_last_diff_inouts`) along a history -/

section State
variable {V : Type} [DecidableEq V]

theorem sameSet_iff (a b : List V) (h : sameSet a b = true) (v : V) : v ∈ a ↔ v ∈ b := by
  simp only [sameSet, Bool.and_eq_true, List.all_eq_true, decide_eq_true_eq] at h
  exact ⟨h.1 v, h.2 v⟩

/-- Invariant of the chain state: one cumulative selection per discipline, containing what the
    traversal selects for the last traversed request. -/
def ChainState.Inv (ios : List (DiscIO V)) (st : ChainState V) : Prop :=
  st.sel.length = ios.length ∧
  ∀ lx lo, st.last = some (lx, lo) → ∀ k, k < ios.length →
    (∀ v, v ∈ (traverseSelect ios lx lo k).1 → v ∈ (st.sel.getD k ([], [])).1) ∧
    (∀ v, v ∈ (traverseSelect ios lx lo k).2 → v ∈ (st.sel.getD k ([], [])).2)

theorem ChainState.init_inv (ios : List (DiscIO V)) :
    (ChainState.init ios.length : ChainState V).Inv ios := by
  refine ⟨by simp [ChainState.init], ?_⟩
  intro lx lo h
  simp [ChainState.init] at h

theorem ChainState.request_else (ios : List (DiscIO V)) (st : ChainState V) (xs os : List V)
    (hs : ¬ st.sameAsLast xs os = true) :
    (st.request ios xs os).1
      = ⟨some (xs, os),
         (st.sel.zip ((List.range ios.length).map (traverseSelect ios xs os))).map
           (fun p => (union p.1.1 p.2.1, union p.1.2 p.2.2))⟩ := by
  unfold ChainState.request
  simp [hs]

theorem ChainState.request_inv (ios : List (DiscIO V)) (st : ChainState V) (h : st.Inv ios)
    (xs os : List V) : (st.request ios xs os).1.Inv ios := by
  by_cases hs : st.sameAsLast xs os = true
  · have : (st.request ios xs os).1 = st := by unfold ChainState.request; simp [hs]
    rw [this]; exact h
  · rw [ChainState.request_else ios st xs os hs]
    refine ⟨by simp [h.1], ?_⟩
    intro lx lo hl k hk
    simp only [Option.some.injEq, Prod.mk.injEq] at hl
    obtain ⟨rfl, rfl⟩ := hl
    have hk' : k < st.sel.length := by rw [h.1]; exact hk
    have hget : (List.map (fun p : DiscIO V × DiscIO V => (union p.1.1 p.2.1, union p.1.2 p.2.2))
        (st.sel.zip ((List.range ios.length).map (traverseSelect ios xs os)))).getD k ([], [])
        = (union (st.sel[k]).1 (traverseSelect ios xs os k).1,
           union (st.sel[k]).2 (traverseSelect ios xs os k).2) := by
      simp [List.getD_eq_getElem?_getD, hk, hk']
    simp only []
    rw [hget]
    exact ⟨fun v hv => (mem_union _ _ _).mpr (Or.inr hv), fun v hv => (mem_union _ _ _).mpr (Or.inr hv)⟩

/-- After a request the cache holds a request with the same sets of names. -/
theorem ChainState.request_last (ios : List (DiscIO V)) (st : ChainState V) (xs os : List V) :
    ∃ lx lo, (st.request ios xs os).1.last = some (lx, lo) ∧
      (∀ v, v ∈ lx ↔ v ∈ xs) ∧ (∀ v, v ∈ lo ↔ v ∈ os) := by
  by_cases hs : st.sameAsLast xs os = true
  · have hreq : (st.request ios xs os).1 = st := by unfold ChainState.request; simp [hs]
    rw [hreq]
    unfold ChainState.sameAsLast at hs
    cases hl : st.last with
    | none => simp [hl] at hs
    | some p =>
      obtain ⟨lx, lo⟩ := p
      simp only [hl, Bool.and_eq_true] at hs
      exact ⟨lx, lo, rfl, sameSet_iff lx xs hs.1, sameSet_iff lo os hs.2⟩
  · rw [ChainState.request_else ios st xs os hs]
    exact ⟨xs, os, rfl, fun _ => Iff.rfl, fun _ => Iff.rfl⟩

/-- The state after a whole history of requests. -/
def ChainState.run (ios : List (DiscIO V)) (st : ChainState V) (reqs : List (List V × List V)) :
    ChainState V :=
  reqs.foldl (fun st r => (st.request ios r.1 r.2).1) st

theorem ChainState.run_inv (ios : List (DiscIO V)) (st : ChainState V) (h : st.Inv ios)
    (reqs : List (List V × List V)) : (st.run ios reqs).Inv ios := by
  induction reqs generalizing st with
  | nil => exact h
  | cons r reqs ih => exact ih _ (ChainState.request_inv ios st h r.1 r.2)

end State

end GV.C09
