/-
C14 helper lemmas: integer d-th root by bisection, unit-range of the designs GEMSEO computes itself,
lengths of OAT/Morris designs, first occurrences.
-/
import GemseoVerif.Model.C14
import Mathlib.Tactic.Linarith
import Mathlib.Tactic.Ring
import Mathlib.Tactic.Positivity
import Mathlib.Tactic.SplitIfs
import Mathlib.Algebra.Order.Field.Rat
import Mathlib.Algebra.Order.Field.Basic
import Mathlib.Algebra.Order.Ring.Rat

namespace GV.C14
open GV GV.C02

/-! ### Integer root -/

theorem pow_bracket_lt {d lo hi n : Nat} (h1 : lo ^ d ≤ n) (h2 : n < hi ^ d) : lo < hi := by
  by_contra h
  have : hi ≤ lo := Nat.le_of_not_lt h
  have := Nat.pow_le_pow_left this d
  omega

theorem irootAux_spec (n d : Nat) :
    ∀ (fuel lo hi : Nat), lo ^ d ≤ n → n < hi ^ d → hi ≤ lo + fuel →
      (irootAux n d fuel lo hi) ^ d ≤ n ∧ n < (irootAux n d fuel lo hi + 1) ^ d := by
  intro fuel
  induction fuel with
  | zero =>
    intro lo hi h1 h2 h3
    have := pow_bracket_lt h1 h2
    omega
  | succ f ih =>
    intro lo hi h1 h2 h3
    have hlt := pow_bracket_lt h1 h2
    unfold irootAux
    by_cases hc : hi ≤ lo + 1
    · simp only [hc, if_true]
      have : hi = lo + 1 := by omega
      subst this
      exact ⟨h1, h2⟩
    · simp only [hc, if_false]
      have hm1 : lo < (lo + hi) / 2 := by omega
      have hm2 : (lo + hi) / 2 < hi := by omega
      by_cases hp : ((lo + hi) / 2) ^ d ≤ n
      · simp only [hp, if_true]
        exact ih _ _ hp h2 (by omega)
      · simp only [hp, if_false]
        exact ih _ _ h1 (by omega) (by omega)

/-- `iroot n d` is the integer `d`-th root of `n`. -/
theorem iroot_spec (n d : Nat) (hd : 1 ≤ d) : (iroot n d) ^ d ≤ n ∧ n < (iroot n d + 1) ^ d := by
  unfold iroot
  apply irootAux_spec
  · have : (0 : Nat) ^ d = 0 := Nat.zero_pow (by omega)
    omega
  · calc n < n + 1 := Nat.lt_succ_self n
      _ = (n + 1) ^ 1 := (Nat.pow_one _).symm
      _ ≤ (n + 1) ^ d := Nat.pow_le_pow_right (by omega) hd
  · omega

/-- Maximality: every `k` with `k^d ≤ n` is at most the root. -/
theorem iroot_max (n d k : Nat) (hd : 1 ≤ d) (hk : k ^ d ≤ n) : k ≤ iroot n d := by
  by_contra h
  have h' : iroot n d + 1 ≤ k := by omega
  have := Nat.pow_le_pow_left h' d
  have := (iroot_spec n d hd).2
  omega

/-! ### Unit range of GEMSEO's own designs -/

theorem linspace01_unit (n i : Nat) (hi : i < n) : 0 ≤ linspace 0 1 n i ∧ linspace 0 1 n i ≤ 1 := by
  unfold linspace
  split_ifs with h
  · exact ⟨le_refl _, by norm_num⟩
  · have hn : (0 : Rat) < ((n - 1 : Nat) : Rat) := by
      have : 0 < n - 1 := by omega
      exact_mod_cast this
    have hin : (i : Rat) ≤ ((n - 1 : Nat) : Rat) := by
      have : i ≤ n - 1 := by omega
      exact_mod_cast this
    have hi0 : (0 : Rat) ≤ (i : Rat) := by exact_mod_cast Nat.zero_le i
    have e : (0 : Rat) + (i : Rat) * ((1 - 0) / ((n - 1 : Nat) : Rat)) = (i : Rat) / ((n - 1 : Nat) : Rat) := by
      ring
    rw [e]
    exact ⟨div_nonneg hi0 (le_of_lt hn), (div_le_one hn).mpr hin⟩

theorem linspace10_unit (n i : Nat) (hi : i < n) : 0 ≤ linspace 1 0 n i ∧ linspace 1 0 n i ≤ 1 := by
  by_cases h : n ≤ 1
  · simp [linspace, h]
  · have := linspace01_unit n i hi
    have e : linspace 1 0 n i = 1 - linspace 0 1 n i := by
      unfold linspace
      simp only [h, if_false]
      ring
    rw [e]
    constructor <;> linarith [this.1, this.2]

theorem oatStep_unit (step t : Rat) (hs0 : 0 < step) (hs : step ≤ 1 / 2) (h0 : 0 ≤ t) (h1 : t ≤ 1) :
    0 ≤ oatStep step t ∧ oatStep step t ≤ 1 := by
  unfold oatStep
  split_ifs with h
  · constructor <;> linarith
  · constructor <;> linarith

theorem stratMap_unit (c x : Rat) (hc0 : 0 < c) (hc1 : c < 1) (hx0 : 0 ≤ x) (hx1 : x ≤ 1) :
    0 ≤ stratMap c x ∧ stratMap c x ≤ 1 := by
  unfold stratMap
  simp only []
  split_ifs with h
  · have hs1 : (x - 1 / 2) * 2 ≤ 1 := by linarith
    have h1c : 0 ≤ 1 - c := by linarith
    have := mul_nonneg h h1c
    have := mul_le_of_le_one_left h1c hs1
    constructor <;> linarith
  · have hs : (x - 1 / 2) * 2 < 0 := not_le.mp h
    have hs1 : -1 ≤ (x - 1 / 2) * 2 := by linarith
    -- c + s c = c (1 + s) with 0 ≤ 1 + s < 1
    have e : c + (x - 1 / 2) * 2 * c = c * (1 + (x - 1 / 2) * 2) := by ring
    rw [e]
    have hp : 0 ≤ 1 + (x - 1 / 2) * 2 := by linarith
    have hq : 1 + (x - 1 / 2) * 2 ≤ 1 := by linarith
    have := mul_nonneg (le_of_lt hc0) hp
    have := mul_le_of_le_one_right (le_of_lt hc0) hq
    constructor <;> linarith

theorem ffScale_unit (L k : Nat) (hk : k < L) : 0 ≤ ffScale L k ∧ ffScale L k ≤ 1 := by
  unfold ffScale
  split_ifs with h
  · constructor <;> norm_num
  · have hn : (0 : Rat) < ((L - 1 : Nat) : Rat) := by
      have : 0 < L - 1 := by omega
      exact_mod_cast this
    have hin : (k : Rat) ≤ ((L - 1 : Nat) : Rat) := by
      have : k ≤ L - 1 := by omega
      exact_mod_cast this
    have hk0 : (0 : Rat) ≤ (k : Rat) := by exact_mod_cast Nat.zero_le k
    exact ⟨div_nonneg hk0 (le_of_lt hn), (div_le_one hn).mpr hin⟩

theorem pydoeScale_unit (x : Rat) (h0 : -1 ≤ x) (h1 : x ≤ 1) : 0 ≤ pydoeScale x ∧ pydoeScale x ≤ 1 := by
  unfold pydoeScale
  constructor <;> linarith

theorem lhsCentered_unit (n : Nat) (hn : 0 < n) (s : Rat) (h0 : 0 ≤ s) (h1 : s < 1) :
    0 < lhsCentered n s ∧ lhsCentered n s < 1 := by
  unfold lhsCentered
  have hnq : (0 : Rat) < (n : Rat) := by exact_mod_cast hn
  have hsn0 : (0 : Rat) ≤ s * (n : Rat) := mul_nonneg h0 (le_of_lt hnq)
  have hsn1 : s * (n : Rat) < (n : Rat) := by
    have := mul_lt_mul_of_pos_right h1 hnq
    linarith
  have hf0 : (0 : Int) ≤ (s * (n : Rat)).floor := Rat.le_floor_iff.mpr (by simpa using hsn0)
  have hf1 : (s * (n : Rat)).floor < (n : Int) := Rat.floor_lt_iff.mpr (by simpa using hsn1)
  have hf0q : (0 : Rat) ≤ (((s * (n : Rat)).floor : Int) : Rat) := by exact_mod_cast hf0
  have hf1q : (((s * (n : Rat)).floor : Int) : Rat) + 1 ≤ (n : Rat) := by
    have : (s * (n : Rat)).floor + 1 ≤ (n : Int) := by omega
    exact_mod_cast this
  constructor
  · apply div_pos _ hnq
    linarith
  · rw [div_lt_one hnq]
    linarith

/-! ### OAT / Morris -/

theorem oatFrom_length (step : Rat) (pre rest : List Rat) : (oatFrom step pre rest).length = rest.length := by
  induction rest generalizing pre with
  | nil => simp [oatFrom]
  | cons t ts ih => simp [oatFrom, ih]

theorem oat_length (step : Rat) (x0 : List Rat) : (oat step x0).length = x0.length + 1 := by
  simp [oat, oatFrom_length]

theorem oatFrom_row_length (step : Rat) (pre rest : List Rat) :
    ∀ row ∈ oatFrom step pre rest, row.length = pre.length + rest.length := by
  induction rest generalizing pre with
  | nil => simp [oatFrom]
  | cons t ts ih =>
    intro row hrow
    simp only [oatFrom, List.mem_cons] at hrow
    rcases hrow with rfl | h
    · simp
    · have := ih (pre ++ [oatStep step t]) row h
      simp only [List.length_append, List.length_cons, List.length_nil] at this ⊢
      omega

theorem oatFrom_unit (step : Rat) (hs0 : 0 < step) (hs : step ≤ 1 / 2) (pre rest : List Rat)
    (hpre : ∀ t ∈ pre, 0 ≤ t ∧ t ≤ 1) (hrest : ∀ t ∈ rest, 0 ≤ t ∧ t ≤ 1) :
    ∀ row ∈ oatFrom step pre rest, ∀ t ∈ row, 0 ≤ t ∧ t ≤ 1 := by
  induction rest generalizing pre with
  | nil => simp [oatFrom]
  | cons x xs ih =>
    intro row hrow t ht
    have hx := hrest x (by simp)
    have hstep := oatStep_unit step x hs0 hs hx.1 hx.2
    simp only [oatFrom, List.mem_cons] at hrow
    rcases hrow with rfl | h
    · simp only [List.mem_append, List.mem_cons] at ht
      rcases ht with ht | rfl | ht
      · exact hpre t ht
      · exact hstep
      · exact hrest t (List.mem_cons_of_mem _ ht)
    · refine ih (pre ++ [oatStep step x]) ?_ (fun t ht => hrest t (List.mem_cons_of_mem _ ht)) row h t ht
      intro t ht
      simp only [List.mem_append, List.mem_cons, List.not_mem_nil, or_false] at ht
      rcases ht with ht | rfl
      · exact hpre t ht
      · exact hstep

theorem morris_length (step : Rat) (d : Nat) (initials : Matrix) (h : ∀ x ∈ initials, x.length = d) :
    (morris step initials).length = initials.length * (d + 1) := by
  induction initials with
  | nil => simp [morris]
  | cons x xs ih =>
    have hx := h x (by simp)
    have := ih (fun y hy => h y (List.mem_cons_of_mem _ hy))
    simp only [morris, List.flatMap_cons, List.length_append, List.length_cons] at this ⊢
    rw [this, oat_length, hx]
    ring

/-! ### First occurrences (database keys) -/

theorem mem_firstOcc (m : Matrix) (x : List Rat) : x ∈ firstOcc m ↔ x ∈ m := by
  induction m with
  | nil => simp [firstOcc]
  | cons y ys ih =>
    simp only [firstOcc, List.mem_cons, List.mem_filter, ih, bne_iff_ne, ne_eq]
    constructor
    · rintro (h | ⟨h, _⟩)
      · exact Or.inl h
      · exact Or.inr h
    · rintro (h | h)
      · exact Or.inl h
      · by_cases e : x = y
        · exact Or.inl e
        · exact Or.inr ⟨h, e⟩

theorem firstOcc_nodup (m : Matrix) : (firstOcc m).Nodup := by
  induction m with
  | nil => simp [firstOcc]
  | cons y ys ih =>
    simp only [firstOcc, List.nodup_cons, List.mem_filter, bne_iff_ne, ne_eq, not_and, not_not]
    exact ⟨fun _ => trivial, ih.filter _⟩

theorem firstOcc_sublist (m : Matrix) : (firstOcc m).Sublist m := by
  induction m with
  | nil => simp [firstOcc]
  | cons y ys ih =>
    simp only [firstOcc]
    exact List.Sublist.cons_cons _ ((List.filter_sublist).trans ih)

end GV.C14
