/-
C19 — the parameter-space maps in per-variable ("spec") form:
`normalize_vect(use_dist=True)` maps every variable independently — an uncertain variable through
the CDFs of its marginals, a deterministic one through the design-space affine block — and
concatenates the blocks in variable order.  Proved equal to the statement-by-statement model
(`PS.normalizeVect` / `PS.unnormalizeVect`: split, geometric map of the whole vector,
`evaluate_cdf`, "missing names", concatenation) for every well-formed space.
-/
import GemseoVerif.Lemmas.C19

namespace GV.C19
open GV GV.C02

/-- Well-formedness of a parameter space (an invariant of every edit history, see Props). -/
structure PS.WF (p : PS) : Prop where
  ds : p.ds.WF
  uncNodup : p.unc.Nodup
  uncSub : ∀ n ∈ p.unc, n ∈ p.ds.names
  margLen : ∀ n ∈ p.unc, ∀ v ∈ p.ds.vars, v.name = n → (p.margsOf n).length = v.size

/-- One variable: CDFs (or inverse CDFs) of its marginals if it is uncertain, otherwise the
    design-space block `geo`. -/
def PS.mapVar (p : PS) (env : Env) (inverse : Bool) (geo : Var → List Rat → List Rat)
    (v : Var) (xb : List Rat) : List Rat :=
  if p.unc.contains v.name then jointApply env inverse (p.margsOf v.name) xb else geo v xb

def PS.normBlocks (p : PS) (env : Env) (m : Bool) (x : List Rat) : List (List Rat) :=
  List.zipWith (p.mapVar env false (normBlock p.ds.intNorm m)) p.ds.vars (splitBySizes p.ds.sizes x)

def PS.unnormBlocks (p : PS) (env : Env) (m : Bool) (u : List Rat) : List (List Rat) :=
  List.zipWith (p.mapVar env true (unnormBlock p.ds.intNorm m)) p.ds.vars (splitBySizes p.ds.sizes u)

def PS.normSpec (p : PS) (env : Env) (m : Bool) (x : List Rat) : List Rat :=
  (p.normBlocks env m x).flatten

def PS.unnormSpec (p : PS) (env : Env) (m : Bool) (u : List Rat) : List Rat :=
  (p.unnormBlocks env m u).flatten

theorem mapM_some {α β : Type} (f : α → Option β) (g : α → β) (l : List α)
    (h : ∀ a ∈ l, f a = some (g a)) : l.mapM f = some (l.map g) := by
  induction l with
  | nil => rfl
  | cons a l ih =>
    rw [List.mapM_cons, h a (by simp), ih (fun b hb => h b (List.mem_cons_of_mem _ hb))]
    rfl

theorem splitBySizes_flatten_of (ls : List (List Rat)) (sizes : List Nat)
    (h : ls.map List.length = sizes) : splitBySizes sizes ls.flatten = ls := by
  subst h; exact splitBySizes_flatten ls

theorem names_getElem? (d : DS) (i : Nat) : d.names[i]? = (d.vars[i]?).map (·.name) := by
  simp [DS.names, List.getElem?_map]

theorem sizes_getElem? (d : DS) (i : Nat) : d.sizes[i]? = (d.vars[i]?).map Var.size := by
  simp [DS.sizes, List.getElem?_map]

theorem jointApply_length (env : Env) (inv : Bool) (ms : List MargSpec) (x : List Rat)
    (h : ms.length = x.length) : (jointApply env inv ms x).length = x.length := by
  simp [jointApply, h]

/-- The blocks of a vector of the right dimension have the sizes of the variables. -/
theorem block_length (d : DS) (x : List Rat) (hx : x.length = d.dimension) (i : Nat) (v : Var)
    (b : List Rat) (hv : d.vars[i]? = some v) (hb : (splitBySizes d.sizes x)[i]? = some b) :
    b.length = v.size := by
  have hsum : d.sizes.sum = x.length := by simpa [DS.dimension] using hx.symm
  have h1 := splitBySizes_getElem_length d.sizes x hsum i b hb
  rw [sizes_getElem?, hv] at h1
  exact (Option.some.inj h1).symm

theorem blocks_lengths (p : PS) (hwf : p.WF) (env : Env) (inv : Bool)
    (geo : Var → List Rat → List Rat)
    (hgeo : ∀ v ∈ p.ds.vars, ∀ xb : List Rat, xb.length = v.size → (geo v xb).length = v.size)
    (x : List Rat) (hx : x.length = p.ds.dimension) :
    (List.zipWith (p.mapVar env inv geo) p.ds.vars (splitBySizes p.ds.sizes x)).map List.length
      = p.ds.sizes := by
  have hl : (splitBySizes p.ds.sizes x).length = p.ds.vars.length := by
    rw [splitBySizes_length]; simp [DS.sizes]
  rw [zipWith_map_length _ Var.size p.ds.vars _ hl]
  · rfl
  · intro i v b hv hb
    have hbl := block_length p.ds x hx i v b hv hb
    have hmem : v ∈ p.ds.vars := List.mem_of_getElem? hv
    unfold PS.mapVar
    split
    · rename_i hc
      have hn : v.name ∈ p.unc := by simpa [List.contains_iff_mem] using hc
      rw [jointApply_length env inv _ b (by rw [hwf.margLen v.name hn v hmem rfl, hbl]), hbl]
    · exact hgeo v hmem b hbl

/-- Model = spec for `normalize_vect(x, minus_lb, use_dist=True)`. -/
theorem normalizeVect_spec (p : PS) (hwf : p.WF) (env : Env) (m : Bool) (x : List Rat)
    (hx : x.length = p.ds.dimension) :
    p.normalizeVect env m true x = some (p.normSpec env m x) := by
  have hl : (splitBySizes p.ds.sizes x).length = p.ds.vars.length := by
    rw [splitBySizes_length]; simp [DS.sizes]
  have hnl : p.ds.names.length = p.ds.vars.length := by simp [DS.names]
  -- the geometric blocks
  have hG : splitBySizes p.ds.sizes (p.ds.normalizeVect m x) =
      List.zipWith (normBlock p.ds.intNorm m) p.ds.vars (splitBySizes p.ds.sizes x) := by
    rw [normalizeVect_blocks p.ds hwf.ds m x]
    have hlens : (List.zipWith (normBlock p.ds.intNorm m) p.ds.vars (splitBySizes p.ds.sizes x)).map
        List.length = p.ds.sizes := by
      rw [zipWith_map_length _ Var.size p.ds.vars _ hl]
      · rfl
      · intro i v b hv hb
        exact normBlock_length _ _ v (hwf.ds.2 v (List.mem_of_getElem? hv)) b
          (block_length p.ds x hx i v b hv hb)
    exact splitBySizes_flatten_of _ _ hlens
  -- evaluate_cdf succeeds on every uncertain variable
  have hev : p.evaluateCdf env false (p.ds.names.zip (splitBySizes p.ds.sizes x)) =
      some (p.unc.map (fun n => (n, jointApply env false (p.margsOf n)
        ((dget (p.ds.names.zip (splitBySizes p.ds.sizes x)) n).getD [])))) := by
    unfold PS.evaluateCdf
    apply mapM_some
    intro n hn
    obtain ⟨i, hi⟩ := List.getElem?_of_mem (hwf.uncSub n hn)
    have hlt : i < (splitBySizes p.ds.sizes x).length := by
      have := (List.getElem?_eq_some_iff.mp hi).1
      omega
    rw [dget_zip p.ds.names _ hwf.ds.1 i n hi, List.getElem?_eq_getElem hlt]
    rfl
  unfold PS.normalizeVect
  simp only [Bool.not_true, Bool.false_eq_true, if_false]
  rw [hev, hG]
  simp only [Option.map_some, Option.some.injEq]
  unfold assemble PS.normSpec PS.normBlocks
  rw [List.flatMap_def]
  congr 1
  apply List.ext_getElem?
  intro i
  rw [List.getElem?_map, names_getElem?, List.getElem?_zipWith]
  cases hv : p.ds.vars[i]? with
  | none => simp
  | some v =>
    have hni : p.ds.names[i]? = some v.name := by rw [names_getElem?, hv]; rfl
    have hlt : i < (splitBySizes p.ds.sizes x).length := by
      have := (List.getElem?_eq_some_iff.mp hv).1
      omega
    simp only [Option.map_some]
    rw [List.getElem?_eq_getElem hlt]
    simp only [Option.some.injEq]
    rw [dget_map_self p.unc _ v.name]
    unfold PS.mapVar
    by_cases hc : v.name ∈ p.unc
    · have hc' : p.unc.contains v.name = true := by simpa [List.contains_iff_mem] using hc
      simp only [hc, if_true, hc']
      rw [dget_zip p.ds.names _ hwf.ds.1 i v.name hni, List.getElem?_eq_getElem hlt]
      rfl
    · have hc' : p.unc.contains v.name = false := by
        simpa [List.contains_iff_mem] using hc
      simp only [hc, if_false, hc']
      rw [dget_zip p.ds.names _ hwf.ds.1 i v.name hni, List.getElem?_zipWith, hv,
        List.getElem?_eq_getElem hlt]
      rfl

end GV.C19

namespace GV.C19
open GV GV.C02

theorem find?_getElem (d : DS) (hnd : d.names.Nodup) (i : Nat) (v : Var) (hv : d.vars[i]? = some v) :
    d.find? v.name = some v := by
  unfold DS.find?
  unfold DS.names at hnd
  generalize d.vars = vs at hnd hv
  induction vs generalizing i with
  | nil => simp at hv
  | cons w ws ih =>
    cases i with
    | zero =>
      simp only [List.getElem?_cons_zero, Option.some.injEq] at hv
      subst hv
      simp
    | succ j =>
      simp only [List.getElem?_cons_succ] at hv
      simp only [List.map_cons, List.nodup_cons] at hnd
      have hne : (w.name == v.name) = false := by
        simp only [beq_eq_false_iff_ne, ne_eq]
        intro h
        exact hnd.1 (by rw [h]; exact List.mem_map_of_mem (List.mem_of_getElem? hv))
      simp only [List.find?_cons, hne]
      exact ih j hnd.2 hv

/-- `__check_dict_of_array` passes when every component of an uncertain variable is in `[0,1]`. -/
theorem checkUnit_of (p : PS) (hwf : p.WF) (u : List Rat) (hu : u.length = p.ds.dimension)
    (h01 : ∀ (i : Nat) (v : Var) (b : List Rat), p.ds.vars[i]? = some v →
      (splitBySizes p.ds.sizes u)[i]? = some b → v.name ∈ p.unc → ∀ c ∈ b, 0 ≤ c ∧ c ≤ 1) :
    p.checkUnit (p.ds.names.zip (splitBySizes p.ds.sizes u)) = true := by
  unfold PS.checkUnit
  rw [List.all_eq_true]
  intro kv hkv
  obtain ⟨i, hi⟩ := List.getElem?_of_mem hkv
  rw [List.getElem?_zip_eq_some] at hi
  obtain ⟨hn, hb⟩ := hi
  rw [names_getElem?] at hn
  cases hv : p.ds.vars[i]? with
  | none => rw [hv] at hn; simp at hn
  | some v =>
    rw [hv] at hn
    simp only [Option.map_some, Option.some.injEq] at hn
    by_cases hc : v.name ∈ p.unc
    · have hc' : p.unc.contains kv.1 = true := by rw [← hn]; simpa [List.contains_iff_mem] using hc
      simp only [hc', Bool.not_true, Bool.false_or, Bool.and_eq_true, beq_iff_eq, List.all_eq_true,
        decide_eq_true_eq]
      refine ⟨?_, fun c hcm => h01 i v kv.2 hv hb hc c hcm⟩
      rw [← hn, find?_getElem p.ds hwf.ds.1 i v hv]
      simp only [Option.map_some, Option.getD_some]
      exact block_length p.ds u hu i v kv.2 hv hb
    · have hc' : p.unc.contains kv.1 = false := by rw [← hn]; simpa [List.contains_iff_mem] using hc
      simp only [hc', Bool.not_false, Bool.true_or]

/-- Model = spec for `unnormalize_vect(u, minus_lb, use_dist=True)` when the probabilities of the
    uncertain components are in `[0,1]` (otherwise the code raises). -/
theorem unnormalizeVect_spec (p : PS) (hwf : p.WF) (env : Env) (m : Bool) (u : List Rat)
    (hu : u.length = p.ds.dimension)
    (hunit : p.checkUnit (p.ds.names.zip (splitBySizes p.ds.sizes u)) = true) :
    p.unnormalizeVect env m true u = some (p.unnormSpec env m u) := by
  have hl : (splitBySizes p.ds.sizes u).length = p.ds.vars.length := by
    rw [splitBySizes_length]; simp [DS.sizes]
  have hG : splitBySizes p.ds.sizes (p.ds.unnormalizeVect m u) =
      List.zipWith (unnormBlock p.ds.intNorm m) p.ds.vars (splitBySizes p.ds.sizes u) := by
    rw [unnormalizeVect_blocks p.ds hwf.ds m u hu]
    have hlens : (List.zipWith (unnormBlock p.ds.intNorm m) p.ds.vars (splitBySizes p.ds.sizes u)).map
        List.length = p.ds.sizes := by
      rw [zipWith_map_length _ Var.size p.ds.vars _ hl]
      · rfl
      · intro i v b hv hb
        exact unnormBlock_length _ _ v (hwf.ds.2 v (List.mem_of_getElem? hv)) b
          (block_length p.ds u hu i v b hv hb)
    exact splitBySizes_flatten_of _ _ hlens
  have hev : p.evaluateCdf env true (p.ds.names.zip (splitBySizes p.ds.sizes u)) =
      some (p.unc.map (fun n => (n, jointApply env true (p.margsOf n)
        ((dget (p.ds.names.zip (splitBySizes p.ds.sizes u)) n).getD [])))) := by
    unfold PS.evaluateCdf
    apply mapM_some
    intro n hn
    obtain ⟨i, hi⟩ := List.getElem?_of_mem (hwf.uncSub n hn)
    have hlt : i < (splitBySizes p.ds.sizes u).length := by
      have := (List.getElem?_eq_some_iff.mp hi).1
      have hnl : p.ds.names.length = p.ds.vars.length := by simp [DS.names]
      omega
    rw [dget_zip p.ds.names _ hwf.ds.1 i n hi, List.getElem?_eq_getElem hlt]
    rfl
  unfold PS.unnormalizeVect
  simp only [Bool.not_true, Bool.false_eq_true, if_false, hunit]
  rw [hev, hG]
  simp only [Option.map_some, Option.some.injEq]
  unfold assemble PS.unnormSpec PS.unnormBlocks
  rw [List.flatMap_def]
  congr 1
  apply List.ext_getElem?
  intro i
  rw [List.getElem?_map, names_getElem?, List.getElem?_zipWith]
  cases hv : p.ds.vars[i]? with
  | none => simp
  | some v =>
    have hni : p.ds.names[i]? = some v.name := by rw [names_getElem?, hv]; rfl
    have hlt : i < (splitBySizes p.ds.sizes u).length := by
      have := (List.getElem?_eq_some_iff.mp hv).1
      omega
    simp only [Option.map_some]
    rw [List.getElem?_eq_getElem hlt]
    simp only [Option.some.injEq]
    rw [dget_map_self p.unc _ v.name]
    unfold PS.mapVar
    by_cases hc : v.name ∈ p.unc
    · have hc' : p.unc.contains v.name = true := by simpa [List.contains_iff_mem] using hc
      simp only [hc, if_true, hc']
      rw [dget_zip p.ds.names _ hwf.ds.1 i v.name hni, List.getElem?_eq_getElem hlt]
      rfl
    · have hc' : p.unc.contains v.name = false := by
        simpa [List.contains_iff_mem] using hc
      simp only [hc, if_false, hc']
      rw [dget_zip p.ds.names _ hwf.ds.1 i v.name hni, List.getElem?_zipWith, hv,
        List.getElem?_eq_getElem hlt]
      rfl

end GV.C19
