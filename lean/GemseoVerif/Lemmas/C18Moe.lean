/-
C18 — mixture of experts whose public attribute `hard` is assigned by the user after the training:
whatever the history of assignments and queries, a query is answered — prediction AND Jacobian — by the
formula selected by the value of `hard` in force at the query (the last assignment); with the hard formula
the prediction is the prediction of the local model of the predicted class and, at every point where the
predicted class is locally constant, the Jacobian that `predict_jacobian` returns is the derivative of
this prediction; with the soft formula no Jacobian is offered.
-/
import GemseoVerif.Lemmas.C18Sess

namespace GV.C18

/-! ## States reached by a history -/

theorem Moe.run_cons {α : Type} [Add α] [Sub α] [Mul α] [Div α] [Neg α] [OfNat α 0] [OfNat α 1]
    (d dout : ℕ) (m : Moe α) (op : MOp α) (rest : List (MOp α)) :
    Moe.run d dout m (op :: rest) = Moe.run d dout (Moe.step d dout m op).1 rest := rfl

/-- **Only the switch changes, and it holds the last value assigned.** -/
theorem moe_run_eq (d dout : ℕ) (ops : List (MOp ℝ)) : ∀ m : Moe ℝ,
    Moe.run d dout m ops = { m with hard := Moe.lastHard m.hard ops } := by
  induction ops with
  | nil => intro m; rfl
  | cons op rest ih =>
    intro m
    rw [Moe.run_cons]
    cases op with
    | setHard b => rw [ih]; rfl
    | query x => rw [ih]; rfl

theorem moe_answers_length (d dout : ℕ) (ops : List (MOp ℝ)) : ∀ m : Moe ℝ,
    (Moe.answers d dout m ops).length = ops.length := by
  induction ops with
  | nil => intro m; rfl
  | cons op rest ih => intro m; simp [Moe.answers, ih]

/-- Operation `n` of a history is answered by the state reached by the first `n` operations. -/
theorem moe_answers_getElem (d dout : ℕ) (ops : List (MOp ℝ)) : ∀ (m : Moe ℝ) (n : ℕ)
    (hn : n < ops.length),
    (Moe.answers d dout m ops)[n]'(by rw [moe_answers_length]; exact hn)
      = (Moe.step d dout (Moe.run d dout m (ops.take n)) ops[n]).2 := by
  induction ops with
  | nil => intro m n hn; simp at hn
  | cons op rest ih =>
    intro m n hn
    cases n with
    | zero => simp [Moe.answers, Moe.run]
    | succ k =>
      have hk : k < rest.length := by simpa using hn
      simp only [Moe.answers, List.getElem_cons_succ, List.take_succ_cons]
      rw [ih _ k hk, Moe.run_cons]

/-! ## The hard formula -/

/-- With the hard formula the mixture is the prediction of the local model of the predicted class. -/
theorem moe_hard_corePredict (m : Moe ℝ) (hh : m.hard = true) (z : Vec ℝ) (hc : m.cls z < m.K) :
    m.corePredict z = m.expert (m.cls z) z := by
  funext i
  unfold Moe.corePredict Moe.weights
  rw [hh]
  simp only [if_true]
  have : sumTo m.K (fun c => (if c = m.cls z then (1 : ℝ) else 0) * m.expert c z i)
      = sumTo m.K (fun c => if c = m.cls z then m.expert c z i else 0) :=
    sumTo_congr (fun c _ => by by_cases h : c = m.cls z <;> simp [h])
  rw [this, sumTo_ite_eq m.K (m.cls z) hc (fun c => m.expert c z i)]

/-- With the soft formula the mixture is the mean of the local predictions weighted by the class
    probabilities. -/
theorem moe_soft_corePredict (m : Moe ℝ) (hh : m.hard = false) (z : Vec ℝ) (i : ℕ) :
    m.corePredict z i = sumTo m.K (fun c => m.proba z c * m.expert c z i) := by
  unfold Moe.corePredict Moe.weights
  rw [hh]
  simp

/-- What the hard formula needs: transformers that chain, a classifier that reads the `k` transformed
    inputs and answers a class below `K`, local models whose Jacobian is exact. -/
structure MoeWF (d dout : ℕ) (m : Moe ℝ) : Prop where
  hin : PipeWF m.tin d
  hout : PipeWF m.tout dout
  hcls : ∀ u v : Vec ℝ, (∀ j, j < pipeOutDim m.tin d → u j = v j) → m.cls u = m.cls v
  hrange : ∀ z, m.cls z < m.K
  hexp : ∀ c, c < m.K →
    HasJac (pipeOutDim m.tin d) (pipeOutDim m.tout dout) (m.expert c) (m.expertJac c)

/-- The predicted class does not change near the transformed point `z`, along any direction. -/
def ClassLocallyConstant (m : Moe ℝ) (z : Vec ℝ) : Prop :=
  ∀ w : Vec ℝ, ∃ ε : ℝ, 0 < ε ∧ ∀ t : ℝ, |t| < ε → m.cls (fun j => z j + t * w j) = m.cls z

/-- **Hard mixture: the Jacobian is the derivative of the prediction in force** at every point off the
    class boundaries, in every direction. -/
theorem moe_hard_jacobian_hasDerivAt (d dout : ℕ) (m : Moe ℝ) (hwf : MoeWF d dout m)
    (hh : m.hard = true) (x v : Vec ℝ) (hloc : ClassLocallyConstant m (pipeTransform m.tin x)) :
    ∃ J, m.jacobian d dout x = some J ∧ ∀ i, i < dout →
      HasDerivAt (fun t : ℝ => m.predict (fun j => x j + t * v j) i) (mulVec d J v i) 0 := by
  set k := pipeOutDim m.tin d with hk
  set mo := pipeOutDim m.tout dout with hmo
  set z := pipeTransform m.tin x with hz
  set c0 := m.cls z with hc0
  refine ⟨regJac m.tin m.tout k mo m.coreJacHard x, by unfold Moe.jacobian; rw [hh]; rfl, ?_⟩
  intro i hi
  -- the local model of the class of `x`
  have hJ : regJac m.tin m.tout k mo m.coreJacHard x = regJac m.tin m.tout k mo (m.expertJac c0) x := by
    unfold regJac Moe.coreJacHard
    rfl
  rw [hJ]
  have hchain := regressor_jacobian_chain_rule m.tin m.tout d k mo dout hwf.hin rfl hwf.hout rfl
    (m.expert c0) (m.expertJac c0) (hwf.hexp c0 (hwf.hrange z)) x v i hi
  -- near `t = 0` the prediction of the mixture is the prediction of this local model
  set w : Vec ℝ := fun j => mulVec d (pipeJac m.tin) v j with hw
  obtain ⟨ε, hε, hcl⟩ := hloc w
  have hev : (fun t : ℝ => m.predict (fun j => x j + t * v j) i)
      =ᶠ[nhds 0] fun t : ℝ => regPredict m.tin m.tout (m.expert c0) (fun j => x j + t * v j) i := by
    have hball : Metric.ball (0 : ℝ) ε ∈ nhds (0 : ℝ) := Metric.ball_mem_nhds 0 hε
    refine Filter.eventually_of_mem hball (fun t ht => ?_)
    have ht' : |t| < ε := by simpa [Metric.mem_ball, Real.dist_eq] using ht
    set z' := pipeTransform m.tin (fun j => x j + t * v j) with hz'
    have hT : ∀ j, j < k → z' j = z j + t * w j := by
      intro j hj
      rw [hz', pipeTransform_increment m.tin d hwf.hin x (fun j => t * v j) j hj, mulVec_smul]
    have hclass : m.cls z' = c0 := by
      rw [hwf.hcls z' (fun j => z j + t * w j) hT]
      exact hcl t ht'
    show regPredict m.tin m.tout m.corePredict (fun j => x j + t * v j) i
      = regPredict m.tin m.tout (m.expert c0) (fun j => x j + t * v j) i
    unfold regPredict
    rw [← hz', moe_hard_corePredict m hh z' (hwf.hrange z'), hclass]
  exact hchain.congr_of_eventuallyEq hev

/-! ## Histories of assignments and queries -/

/-- The state that answers operation `n`: the trained object with the last value assigned to `hard`. -/
def Moe.stateAt (m : Moe ℝ) (ops : List (MOp ℝ)) (n : ℕ) : Moe ℝ :=
  { m with hard := Moe.lastHard m.hard (ops.take n) }

theorem moe_query_answer (d dout : ℕ) (m : Moe ℝ) (ops : List (MOp ℝ)) (n : ℕ)
    (hn : n < ops.length) (x : Vec ℝ) (hq : ops[n] = MOp.query x) :
    (Moe.answers d dout m ops)[n]'(by rw [moe_answers_length]; exact hn)
      = some ((m.stateAt ops n).predict x, (m.stateAt ops n).jacobian d dout x) := by
  rw [moe_answers_getElem d dout ops m n hn, hq, moe_run_eq]
  rfl

theorem MoeWF.stateAt {d dout : ℕ} {m : Moe ℝ} (h : MoeWF d dout m) (ops : List (MOp ℝ)) (n : ℕ) :
    MoeWF d dout (m.stateAt ops n) :=
  ⟨h.hin, h.hout, h.hcls, h.hrange, h.hexp⟩

end GV.C18
