/-
C17 — lemmas for the parallel IDF (`MDOParallelChain` as top-level discipline), the
`start_at_equilibrium` start point and the heap of returned Jacobian arrays (`Model/C17.lean`).
-/
import GemseoVerif.Lemmas.C17Form

namespace GV.C17
open GV.C02

/-! ### Named data under two input grammars -/

theorem hasInput_of_mem_ins (d : Disc) (p : String × Nat) (hp : p ∈ d.ins) : d.hasInput p.1 = true := by
  simp only [Disc.hasInput, List.any_eq_true]
  exact ⟨p, hp, by simp⟩

theorem filter_contains_of_true (names : List String) (H : String → Bool) (n : String) (hH : H n = true) :
    (names.filter H).contains n = names.contains n := by
  by_cases hm : n ∈ names
  · rw [contains_filter_of_mem hm, hH]; simpa using hm
  · have : n ∉ names.filter H := fun h => hm (List.mem_filter.mp h).1
    simp [hm, this]

/-- The data a discipline is executed with do not depend on which superset of its input grammar is
    used to cut the design vector. -/
theorem inputData_namedData_congr (d : Disc) (names : List String) (H₁ H₂ : String → Bool)
    (pt : String → Vec)
    (h₁ : ∀ n, d.hasInput n = true → H₁ n = true) (h₂ : ∀ n, d.hasInput n = true → H₂ n = true) :
    d.inputData (namedData names H₁ pt) = d.inputData (namedData names H₂ pt) := by
  apply inputData_congr
  intro p hp
  have hin := hasInput_of_mem_ins d p hp
  unfold namedData
  rw [has_map, has_map, filter_contains_of_true names H₁ p.1 (h₁ _ hin),
    filter_contains_of_true names H₂ p.1 (h₂ _ hin)]
  refine ⟨rfl, fun hhas => ?_⟩
  have hm : p.1 ∈ names := by simpa using hhas
  rw [get_map _ _ _ (List.mem_filter.mpr ⟨hm, h₁ _ hin⟩), get_map _ _ _ (List.mem_filter.mpr ⟨hm, h₂ _ hin⟩)]

theorem parHasInput_of_mem (s : Sys) (d : Disc) (hd : d ∈ s.discs) (n : String)
    (h : d.hasInput n = true) : s.parHasInput n = true := by
  simp only [Sys.parHasInput, List.any_eq_true]
  exact ⟨d, hd, h⟩

theorem cat_congr (names : List String) (f g : String → Vec) (h : ∀ n ∈ names, f n = g n) :
    cat names f = cat names g := by
  unfold cat
  exact List.flatMap_congr h

/-! ### The parallel chain exposes what the producer exposes -/

theorem parEval_eq_ffdEval (s : Sys) (sizes : Sizes) (names : List String) (d : Disc)
    (outs : List String) (pt : String → Vec)
    (hd : d ∈ s.discs) (hprod : ∀ o ∈ outs, s.producer? o = some d)
    (hnd : names.Nodup) (hlen : ∀ n ∈ names, (pt n).length = sizeOf sizes n) :
    parEval s sizes names outs (cat names pt) = ffdEval sizes names d outs (cat names pt) := by
  unfold parEval ffdEval
  rw [gEval_named sizes names _ _ outs pt hnd hlen, gEval_named sizes names _ _ outs pt hnd hlen]
  congr 1
  apply List.flatMap_congr
  intro o ho
  simp only [Sys.parRun, hprod o ho, Disc.run]
  rw [inputData_namedData_congr d names s.parHasInput d.hasInput pt
    (fun n h => parHasInput_of_mem s d hd n h) (fun _ h => h)]

theorem zeroMat_getD (r c k : Nat) (hk : k < r) : (zeroMat r c).getD k [] = List.replicate c 0 := by
  unfold zeroMat
  simp [List.getD, hk]

theorem zeroMat_getElem? (r c k : Nat) (hk : k < r) : (zeroMat r c)[k]?.getD [] = List.replicate c 0 := by
  unfold zeroMat
  simp [hk]

theorem jac_namedData_congr (sizes : Sizes) (d : Disc) (names : List String) (H₁ H₂ : String → Bool)
    (pt : String → Vec)
    (h₁ : ∀ n, d.hasInput n = true → H₁ n = true) (h₂ : ∀ n, d.hasInput n = true → H₂ n = true)
    (o i : String) :
    d.jac sizes (namedData names H₁ pt) o i = d.jac sizes (namedData names H₂ pt) o i := by
  unfold Disc.jac
  rw [inputData_namedData_congr d names H₁ H₂ pt h₁ h₂]

theorem parJacF_eq_ffdJac (s : Sys) (sizes : Sizes) (names : List String) (d : Disc)
    (outs : List String) (pt : String → Vec)
    (hd : d ∈ s.discs) (hprod : ∀ o ∈ outs, s.producer? o = some d)
    (hnd : names.Nodup) (hlen : ∀ n ∈ names, (pt n).length = sizeOf sizes n)
    (hrow : ∀ o ∈ outs, ∀ i r, i ∈ names → r < d.rowsOf o →
      ((d.jac sizes (namedData names d.hasInput pt) o i).getD r []).length = sizeOf sizes i) :
    parJacF s sizes names outs (cat names pt) = ffdJac sizes names d outs (cat names pt) := by
  have hup : ∀ n, d.hasInput n = true → s.parHasInput n = true := fun n h => parHasInput_of_mem s d hd n h
  have hjac : ∀ o i, d.jac sizes (namedData names s.parHasInput pt) o i
      = d.jac sizes (namedData names d.hasInput pt) o i :=
    fun o i => jac_namedData_congr sizes d names _ _ pt hup (fun _ h => h) o i
  unfold parJacF ffdJac
  rw [gJac_named' sizes names d.hasInput (d.jac sizes) d.rowsOf outs pt hnd hlen hrow]
  rw [gJac_named' sizes names s.parHasInput (s.parJac sizes) s.parRowsOf outs pt hnd hlen ?_]
  · congr 1
    apply List.flatMap_congr
    intro o ho
    have hro : s.parRowsOf o = d.rowsOf o := by simp [Sys.parRowsOf, hprod o ho]
    rw [hro]
    apply List.map_congr_left
    intro r hr
    have hlt : r < d.rowsOf o := List.mem_range.mp hr
    apply cat_congr
    intro k _
    simp only [Sys.parJac, hprod o ho]
    cases hk : d.hasInput k with
    | true => simp [hup k hk, hjac]
    | false =>
      cases hp : s.parHasInput k with
      | true => simp [zeroMat_getElem? _ _ _ hlt]
      | false => simp
  · intro o ho i r hi hr
    have hro : s.parRowsOf o = d.rowsOf o := by simp [Sys.parRowsOf, hprod o ho]
    rw [hro] at hr
    simp only [Sys.parJac, hprod o ho]
    cases hk : d.hasInput i with
    | true => simp only [if_true]; rw [hjac]; exact hrow o ho i r hi hr
    | false => simp [zeroMat_getElem? _ _ _ hr]

theorem consEvalPar_eq (s : Sys) (normalize : Bool) (d : Disc) (pt : String → Vec)
    (hd : d ∈ s.discs) (hprod : ∀ o ∈ s.outputCouplings d, s.producer? o = some d)
    (hnd : s.ds.names.Nodup) (hlen : ∀ n ∈ s.ds.names, (pt n).length = sizeOf s.sizes n) :
    consEvalPar s normalize d (cat s.ds.names pt) = consEvalRaw s normalize d (cat s.ds.names pt) := by
  unfold consEvalPar consEvalRaw
  simp only
  rw [parEval_eq_ffdEval s s.sizes s.ds.names d _ pt hd hprod hnd hlen]

theorem consJacPar_eq (s : Sys) (normalize : Bool) (d : Disc) (pt : String → Vec)
    (hd : d ∈ s.discs) (hprod : ∀ o ∈ s.outputCouplings d, s.producer? o = some d)
    (hnd : s.ds.names.Nodup) (hlen : ∀ n ∈ s.ds.names, (pt n).length = sizeOf s.sizes n)
    (hrow : ∀ o ∈ s.outputCouplings d, ∀ i r, i ∈ s.ds.names → r < d.rowsOf o →
      ((d.jac s.sizes (namedData s.ds.names d.hasInput pt) o i).getD r []).length = sizeOf s.sizes i) :
    consJacPar s normalize d (cat s.ds.names pt) = consJacRaw s normalize d (cat s.ds.names pt) := by
  unfold consJacPar consJacRaw
  simp only
  rw [parJacF_eq_ffdJac s s.sizes s.ds.names d _ pt hd hprod hnd hlen hrow]

/-! ### `sorted(set(...))` keeps the members -/

theorem mem_insertSorted (x s : String) (l : List String) : x ∈ insertSorted s l ↔ x = s ∨ x ∈ l := by
  induction l with
  | nil => simp [insertSorted]
  | cons t ts ih =>
    unfold insertSorted
    split
    · simp
    · split
      · rename_i _ heq
        have : s = t := by simpa using heq
        subst this
        simp
      · simp only [List.mem_cons, ih]
        constructor
        · rintro (h | h | h)
          · exact Or.inr (Or.inl h)
          · exact Or.inl h
          · exact Or.inr (Or.inr h)
        · rintro (h | h | h)
          · exact Or.inr (Or.inl h)
          · exact Or.inl h
          · exact Or.inr (Or.inr h)

theorem mem_sortedSet (x : String) (l : List String) : x ∈ sortedSet l ↔ x ∈ l := by
  unfold sortedSet
  induction l with
  | nil => simp
  | cons a l ih => simp only [List.foldr_cons, mem_insertSorted, ih, List.mem_cons]

theorem outputCouplings_sub (s : Sys) (d : Disc) (k : String) (hk : k ∈ s.outputCouplings d) :
    k ∈ s.allCouplings := by
  unfold Sys.outputCouplings at hk
  rw [mem_sortedSet, List.mem_filter] at hk
  simpa using hk.2

/-! ### `start_at_equilibrium` -/

/-- The named point after `start_at_equilibrium`: certified couplings, current design values. -/
def eqPt (s : Sys) (pt : String → Vec) (ystar : Data) : String → Vec :=
  fun n => if s.allCouplings.contains n then ystar.get n else pt n

theorem equilibrium_value (s : Sys) (pt : String → Vec) (ystar : Data)
    (hlen : ∀ n ∈ s.ds.names, (pt n).length = sizeOf s.sizes n) :
    (namedPoint s.sizes s.ds.names (cat s.ds.names pt)).flatMap
        (fun q => if s.allCouplings.contains q.1 then ystar.get q.1 else q.2)
      = cat s.ds.names (eqPt s pt ystar) := by
  rw [namedPoint_cat s.sizes s.ds.names pt hlen]
  unfold cat eqPt
  rw [List.flatMap_map]

theorem equilibriumPoint_cat (s : Sys) (pt : String → Vec) (ystar : Data)
    (hlen : ∀ n ∈ s.ds.names, (pt n).length = sizeOf s.sizes n) :
    s.equilibriumPoint (cat s.ds.names pt) ystar
      = (s.ds.names.filter (fun n => !s.allCouplings.contains n)).map (fun n => (n, eqPt s pt ystar n))
        ++ s.allCouplings.map (fun k => (k, eqPt s pt ystar k)) := by
  unfold Sys.equilibriumPoint
  rw [namedPoint_cat s.sizes s.ds.names pt hlen, List.filter_map]
  congr 1
  · apply List.map_congr_left
    intro n hn
    have hc : n ∉ s.allCouplings := by
      have := (List.mem_filter.mp hn).2
      simpa using this
    simp [eqPt, hc]
  · apply List.map_congr_left
    intro k hk
    simp [eqPt, hk]

/-- At the installed start point every discipline computes exactly the coupling values stored in the
    design vector. -/
theorem equilibrium_run_eq (s : Sys) (d : Disc) (pt : String → Vec) (ystar : Data) (k : String)
    (hlen : ∀ n ∈ s.ds.names, (pt n).length = sizeOf s.sizes n)
    (hidf : ∀ c ∈ s.allCouplings, c ∈ s.ds.names)
    (hcons : s.consistent (s.equilibriumPoint (cat s.ds.names pt) ystar) = true)
    (hk : k ∈ s.allCouplings) (hprod : s.producer? k = some d) :
    d.run (namedData s.ds.names d.hasInput (eqPt s pt ystar)) k = eqPt s pt ystar k := by
  rw [equilibriumPoint_cat s pt ystar hlen] at hcons
  unfold Sys.consistent at hcons
  have h := List.all_eq_true.mp hcons k hk
  simp only [hprod] at h
  unfold Disc.run
  cases ho : d.out? k with
  | none => simp [ho] at h
  | some sp =>
    simp only [ho] at h ⊢
    have hnames : ∀ n, d.hasInput n = true →
        (n ∈ s.ds.names ↔ n ∈ s.ds.names.filter (fun n => !s.allCouplings.contains n) ∨ n ∈ s.allCouplings) := by
      intro n _
      constructor
      · intro hn
        by_cases hc : n ∈ s.allCouplings
        · exact Or.inr hc
        · exact Or.inl (List.mem_filter.mpr ⟨hn, by simpa using hc⟩)
      · rintro (h | h)
        · exact (List.mem_filter.mp h).1
        · exact hidf n h
    rw [inputData_idf_eq_mdf d (eqPt s pt ystar) s.ds.names _ s.allCouplings hnames]
    have hget : Data.get ((s.ds.names.filter (fun n => !s.allCouplings.contains n)).map
          (fun n => (n, eqPt s pt ystar n)) ++ s.allCouplings.map (fun k => (k, eqPt s pt ystar k))) k
        = eqPt s pt ystar k := by
      rw [get_append_right _ _ _ (by
        rw [has_map]
        have : k ∉ s.ds.names.filter (fun n => !s.allCouplings.contains n) := by
          intro hm
          have := (List.mem_filter.mp hm).2
          simp [hk] at this
        simpa using this), get_map _ _ _ hk]
    rw [hget] at h
    exact eq_of_beq h

/-! ### The heap of returned Jacobian arrays -/

/-- Well-formed heap: the returned cells and the buffers exist, and no adapter buffer was ever handed
    to the caller. -/
structure JHeap.WF (h : JHeap) : Prop where
  ret_lt : ∀ c ∈ h.ret, c < h.cells.length
  buf_lt : ∀ f c, h.buf.getD f none = some c → c < h.cells.length
  buf_not_ret : ∀ f c, h.buf.getD f none = some c → c ∉ h.ret

theorem JHeap.wf_empty (n : Nat) : (JHeap.empty n).WF := by
  refine ⟨by simp [JHeap.empty], ?_, ?_⟩ <;>
  · intro f c h
    simp [JHeap.empty, List.getD, List.getElem?_replicate] at h
    split at h <;> simp at h

theorem getD_set_ne {α : Type} (l : List α) (i j : Nat) (a d : α) (h : i ≠ j) :
    (l.set i a).getD j d = l.getD j d := by
  simp [List.getD, h]

theorem getD_set_self {α : Type} (l : List α) (i : Nat) (a d : α) (h : i < l.length) :
    (l.set i a).getD i d = a := by
  simp [List.getD, h]

theorem getD_append_lt {α : Type} (l : List α) (a d : α) (j : Nat) (h : j < l.length) :
    (l ++ [a]).getD j d = l.getD j d := by
  simp [List.getD, List.getElem?_append_left h]

theorem getD_append_len {α : Type} (l : List α) (a d : α) : (l ++ [a]).getD l.length d = a := by
  simp [List.getD]

/-- One call of the adapter: its own buffer now holds `j`; nothing the caller holds has changed. -/
theorem JHeap.adapterJac_spec (h : JHeap) (f : Nat) (j : Mat) (hwf : h.WF) :
    (h.adapterJac f j).1.WF ∧ (h.adapterJac f j).1.ret = h.ret ∧
    (h.adapterJac f j).1.read (h.adapterJac f j).2 = j ∧
    (h.adapterJac f j).2 < (h.adapterJac f j).1.cells.length ∧
    ∀ c ∈ h.ret, (h.adapterJac f j).1.read c = h.read c := by
  unfold JHeap.adapterJac
  cases hb : h.buf.getD f none with
  | some c =>
    have hc := hwf.buf_lt f c hb
    have hnr := hwf.buf_not_ret f c hb
    simp only
    refine ⟨⟨?_, ?_, ?_⟩, by trivial, ?_, ?_, ?_⟩
    · intro c' hc'; simpa using hwf.ret_lt c' hc'
    · intro f' c' h'; simpa using hwf.buf_lt f' c' h'
    · intro f' c' h'; exact hwf.buf_not_ret f' c' h'
    · simp only [JHeap.read]; exact getD_set_self _ _ _ _ hc
    · simpa using hc
    · intro c' hc'
      simp only [JHeap.read]
      exact getD_set_ne _ _ _ _ _ (fun e => hnr (e ▸ hc'))
  | none =>
    simp only
    refine ⟨⟨?_, ?_, ?_⟩, by trivial, ?_, ?_, ?_⟩
    · intro c' hc'
      have := hwf.ret_lt c' hc'
      simp only [List.length_append, List.length_singleton]; omega
    · intro f' c' h'
      simp only [List.length_append, List.length_singleton]
      by_cases hf : f = f'
      · subst hf
        by_cases hl : f < h.buf.length
        · rw [getD_set_self _ _ _ _ hl] at h'
          have : h.cells.length = c' := Option.some.inj h'
          omega
        · rw [List.set_eq_of_length_le (by omega), hb] at h'
          cases h'
      · rw [getD_set_ne _ _ _ _ _ hf] at h'
        have := hwf.buf_lt f' c' h'
        omega
    · intro f' c' h'
      by_cases hf : f = f'
      · subst hf
        by_cases hl : f < h.buf.length
        · rw [getD_set_self _ _ _ _ hl] at h'
          have : h.cells.length = c' := Option.some.inj h'
          intro hm
          have := hwf.ret_lt c' hm
          omega
        · rw [List.set_eq_of_length_le (by omega), hb] at h'
          cases h'
      · rw [getD_set_ne _ _ _ _ _ hf] at h'
        exact hwf.buf_not_ret f' c' h'
    · simp only [JHeap.read]; exact getD_append_len _ _ _
    · simp
    · intro c' hc'
      simp only [JHeap.read]
      exact getD_append_lt _ _ _ _ (hwf.ret_lt c' hc')

/-- One `jac` call of a `FunctionFromDiscipline`: the caller holds one more array, containing the unmasked
    Jacobian of THIS call, and every array it already held is unchanged. -/
theorem JHeap.ffdJacCall_spec (h h' : JHeap) (f : Nat) (j : Mat) (un : Mat → Option Mat) (hwf : h.WF)
    (hcall : h.ffdJacCall f j un = some h') :
    h'.WF ∧ ∃ u, un j = some u ∧ h'.held = h.held ++ [u] := by
  obtain ⟨hwf1, hret1, hread1, hlt1, hold1⟩ := h.adapterJac_spec f j hwf
  unfold JHeap.ffdJacCall at hcall
  simp only at hcall
  rw [hread1] at hcall
  cases hu : un j with
  | none => simp [hu] at hcall
  | some u =>
    simp only [hu] at hcall
    have hh' := (Option.some.inj hcall).symm
    subst hh'
    refine ⟨⟨?_, ?_, ?_⟩, u, rfl, ?_⟩
    · intro c hc
      simp only [List.mem_append, List.mem_singleton] at hc
      simp only [List.length_append, List.length_singleton]
      rcases hc with hc | hc
      · have := hwf1.ret_lt c hc; omega
      · omega
    · intro f' c h'
      have := hwf1.buf_lt f' c h'
      simp only [List.length_append, List.length_singleton]; omega
    · intro f' c h' hm
      simp only [List.mem_append, List.mem_singleton] at hm
      rcases hm with hm | hm
      · exact hwf1.buf_not_ret f' c h' hm
      · have := hwf1.buf_lt f' c h'; omega
    · simp only [JHeap.held, List.map_append, List.map_cons, List.map_nil]
      congr 1
      · rw [hret1]
        apply List.map_congr_left
        intro c hc
        have hc1 : c < (h.adapterJac f j).1.cells.length := hwf1.ret_lt c (hret1 ▸ hc)
        simp only [JHeap.read]
        rw [getD_append_lt _ _ _ _ hc1]
        exact hold1 c hc
      · simp only [JHeap.read, getD_append_len]

/-- Any history of `jac` calls on any number of function objects sharing the heap. -/
theorem JHeap.run_spec (cs : List (Nat × Mat × (Mat → Option Mat))) (h h' : JHeap) (hwf : h.WF)
    (hrun : h.run cs = some h') :
    h'.WF ∧ h'.held.map some = h.held.map some ++ cs.map (fun c => c.2.2 c.2.1) := by
  induction cs generalizing h with
  | nil =>
    simp only [JHeap.run] at hrun
    cases hrun
    exact ⟨hwf, by simp⟩
  | cons c cs ih =>
    simp only [JHeap.run] at hrun
    cases hc : h.ffdJacCall c.1 c.2.1 c.2.2 with
    | none => simp [hc] at hrun
    | some h1 =>
      simp only [hc] at hrun
      obtain ⟨hwf1, u, hu, hheld⟩ := h.ffdJacCall_spec h1 c.1 c.2.1 c.2.2 hwf hc
      obtain ⟨hwf', hh⟩ := ih h1 hwf1 hrun
      refine ⟨hwf', ?_⟩
      rw [hh, hheld]
      simp [hu]

/-! ### Function objects of the formulations on the heap -/

/-- What defines a `FunctionFromDiscipline`. -/
structure FFD where
  sizes : Sizes
  names : List String
  hasInput : String → Bool
  jac : Data → String → String → Mat
  rowsOf : String → Nat
  outs : List String

/-- The Jacobian of the function at a design vector (the pure function of `Model/C17`). -/
def FFD.jacAt (F : FFD) (x : Vec) : Option Mat := gJac F.sizes F.names F.hasInput F.jac F.rowsOf F.outs x

def FFD.parts (F : FFD) (x : Vec) : Option (Mat × (Mat → Option Mat)) :=
  gJacParts F.sizes F.names F.hasInput F.jac F.rowsOf F.outs x

theorem FFD.jacAt_eq_parts (F : FFD) (x : Vec) : F.jacAt x = (F.parts x).bind (fun p => p.2 p.1) := by
  unfold FFD.jacAt FFD.parts gJac gJacParts
  simp only
  cases maskX F.sizes (F.names.filter F.hasInput) F.names x <;> rfl

/-- A history of `jac` calls `(function object, design vector)` executed on the heap. -/
def jacHistory (spec : Nat → FFD) : JHeap → List (Nat × Vec) → Option JHeap
  | h, [] => some h
  | h, c :: cs =>
    match (spec c.1).parts c.2 with
    | none => none
    | some p =>
      match h.ffdJacCall c.1 p.1 p.2 with
      | some h' => jacHistory spec h' cs
      | none => none

theorem jacHistory_spec (spec : Nat → FFD) (cs : List (Nat × Vec)) (h h' : JHeap) (hwf : h.WF)
    (hrun : jacHistory spec h cs = some h') :
    h'.WF ∧ h'.held.map some = h.held.map some ++ cs.map (fun c => (spec c.1).jacAt c.2) := by
  induction cs generalizing h with
  | nil =>
    simp only [jacHistory] at hrun
    cases hrun
    exact ⟨hwf, by simp⟩
  | cons c cs ih =>
    simp only [jacHistory] at hrun
    cases hp : (spec c.1).parts c.2 with
    | none => simp [hp] at hrun
    | some p =>
      simp only [hp] at hrun
      cases hc : h.ffdJacCall c.1 p.1 p.2 with
      | none => simp [hc] at hrun
      | some h1 =>
        simp only [hc] at hrun
        obtain ⟨hwf1, u, hu, hheld⟩ := h.ffdJacCall_spec h1 c.1 p.1 p.2 hwf hc
        obtain ⟨hwf', hh⟩ := ih h1 hwf1 hrun
        refine ⟨hwf', ?_⟩
        rw [hh, hheld]
        simp only [List.map_cons, List.map_append, List.map_nil, List.append_assoc, List.singleton_append]
        rw [FFD.jacAt_eq_parts, hp]
        simp [hu]

end GV.C17
