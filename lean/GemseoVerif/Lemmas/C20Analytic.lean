/-
C20 — lemmas about the `AD` model of `Model/C20.lean`: an `AnalyticDiscipline` created by one interpreter and
restored by another one (another iteration order of sets).
-/
import GemseoVerif.Lemmas.C20

namespace GV.C20

/-- Every member of a set is yielded when the interpreter iterates over it (nothing else is assumed about
    the order: the theorems hold for every order, every hash seed). -/
def Env.Covers (E : Env) : Prop := ∀ (s : List String) (n : String), n ∈ s → n ∈ E s

/-! ### Association lists built by `map` -/

theorem get_zip_map (ρ : String → Rat) (l : List String) (n : String) (h : n ∈ l) :
    get (l.zip (l.map ρ)) n = some (ρ n) := by
  induction l with
  | nil => cases h
  | cons k r ih =>
    simp only [List.map_cons, List.zip_cons_cons, get]
    by_cases hk : k = n
    · subst hk; simp
    · simp only [hk, if_false]
      rcases List.mem_cons.mp h with e | e
      · exact absurd e.symm hk
      · exact ih e

theorem get_map_self {β : Type} (f : String → β) (l : List String) (n : String) (h : n ∈ l) :
    get (l.map (fun m => (m, f m))) n = some (f n) := by
  induction l with
  | nil => cases h
  | cons k r ih =>
    simp only [List.map_cons, get]
    by_cases hk : k = n
    · subst hk; simp
    · simp only [hk, if_false]
      rcases List.mem_cons.mp h with e | e
      · exact absurd e.symm hk
      · exact ih e

theorem get_map_val {α β : Type} (f : String × α → β) (l : List (String × α)) (k : String) (v : α)
    (hn : (keys l).Nodup) (h : (k, v) ∈ l) :
    get (l.map (fun kv => (kv.1, f kv))) k = some (f (k, v)) := by
  induction l with
  | nil => cases h
  | cons hd tl ih =>
    obtain ⟨k', w⟩ := hd
    simp only [keys, List.map_cons, List.nodup_cons] at hn
    simp only [List.map_cons, get]
    rcases List.mem_cons.mp h with e | e
    · cases e; simp
    · have hk : ¬ k' = k := by
        intro e'; subst e'
        exact hn.1 (List.mem_map.mpr ⟨(k', v), e, rfl⟩)
      simp only [hk, if_false]
      exact ih hn.2 e

/-! ### Polynomials -/

theorem mem_dedup (l : List String) (a : String) : a ∈ dedup l ↔ a ∈ l := by
  induction l with
  | nil => simp [dedup]
  | cons b r ih =>
    simp only [dedup]
    split
    · rename_i hc
      have hb : b ∈ dedup r := by simpa using hc
      constructor
      · intro h; exact List.mem_cons_of_mem _ (ih.mp h)
      · intro h
        rcases List.mem_cons.mp h with e | e
        · subst e; exact hb
        · exact ih.mpr e
    · simp only [List.mem_cons, ih]

theorem mem_symbols_of_mem (p : Poly) (m : Mono) (s : String) (hm : m ∈ p) (hs : s ∈ m.2) : s ∈ p.symbols := by
  unfold Poly.symbols
  rw [mem_dedup]
  exact List.mem_flatMap.mpr ⟨m, hm, hs⟩

theorem prodOf_congr (ρ ρ' : String → Rat) (l : List String) (h : ∀ s ∈ l, ρ s = ρ' s) :
    prodOf ρ l = prodOf ρ' l := by
  induction l with
  | nil => rfl
  | cons a r ih =>
    simp only [prodOf]
    rw [h a (List.mem_cons_self), ih (fun s hs => h s (List.mem_cons_of_mem _ hs))]

theorem eval_congr_mem (p : Poly) (ρ ρ' : String → Rat) (h : ∀ m ∈ p, ∀ s ∈ m.2, ρ s = ρ' s) :
    p.eval ρ = p.eval ρ' := by
  induction p with
  | nil => rfl
  | cons m r ih =>
    simp only [Poly.eval]
    rw [prodOf_congr ρ ρ' m.2 (h m (List.mem_cons_self)), ih (fun m' hm' => h m' (List.mem_cons_of_mem _ hm'))]

/-- An expression only depends on the values of its free symbols. -/
theorem eval_congr (p : Poly) (ρ ρ' : String → Rat) (h : ∀ s ∈ p.symbols, ρ s = ρ' s) : p.eval ρ = p.eval ρ' :=
  eval_congr_mem p ρ ρ' (fun m hm s hs => h s (mem_symbols_of_mem p m s hm hs))

theorem mem_of_mem_eraseOne (x s : String) (l : List String) (h : s ∈ eraseOne x l) : s ∈ l := by
  induction l with
  | nil => cases h
  | cons a r ih =>
    simp only [eraseOne] at h
    split at h
    · exact List.mem_cons_of_mem _ h
    · rcases List.mem_cons.mp h with e | e
      · subst e; exact List.mem_cons_self
      · exact List.mem_cons_of_mem _ (ih e)

/-- The derivative has no new symbol. -/
theorem symbols_diff_subset (p : Poly) (x s : String) (h : s ∈ (p.diff x).symbols) : s ∈ p.symbols := by
  unfold Poly.symbols at h
  rw [mem_dedup] at h
  obtain ⟨m', hm', hs⟩ := List.mem_flatMap.mp h
  unfold Poly.diff at hm'
  obtain ⟨m, hm, hmm⟩ := List.mem_filterMap.mp hm'
  split at hmm
  · cases hmm
  · cases hmm
    exact mem_symbols_of_mem p m s hm (mem_of_mem_eraseOne x s m.2 hs)

/-- Calling a lambdified function whose arguments contain the free symbols of its body with the values of
    these arguments, in their order, evaluates the body — whatever the order. -/
theorem call_of_cover (body : Poly) (args : List String) (ρ : String → Rat)
    (h : ∀ s ∈ body.symbols, s ∈ args) : (Lam.mk args body).call (args.map ρ) = body.eval ρ := by
  unfold Lam.call
  apply eval_congr
  intro s hs
  simp [get_zip_map ρ args s (h s hs)]

/-! ### The discipline -/

theorem setstate_eq_create (E : Env) (st : AD) : AD.setstate E st = AD.create E st.exprs := rfl

theorem exprs_create (E : Env) (exprs : List (String × Poly)) : (AD.create E exprs).exprs = exprs := rfl

theorem keys_map_fst {α β : Type} (l : List (String × α)) (f : String × α → β) :
    keys (l.map (fun kv => (kv.1, f kv))) = keys l := by
  simp [keys, List.map_map, Function.comp_def]

/-- `_run` of a discipline created (or restored) by any interpreter: every output is the value of its
    expression. -/
theorem run_create (E : Env) (hE : E.Covers) (exprs : List (String × Poly)) (hn : (keys exprs).Nodup)
    (ρ : String → Rat) :
    (AD.create E exprs).run ρ = exprs.map (fun op => (op.1, op.2.eval ρ)) := by
  simp only [AD.run, AD.create, AD.initExpressions, AD.lambdify, List.map_map]
  apply List.map_congr_left
  intro op hop
  obtain ⟨o, p⟩ := op
  simp only [Function.comp_def]
  rw [get_map_val (fun kv => E kv.2.symbols) exprs o p hn hop]
  simp only [Option.getD_some]
  rw [call_of_cover p (E p.symbols) ρ (fun s hs => hE _ _ hs)]

/-- `_compute_jacobian` of a discipline created (or restored) by any interpreter: the entries are the values
    of the derivatives (listed in the interpreter's order of the symbols). -/
theorem jac_create (E : Env) (hE : E.Covers) (exprs : List (String × Poly)) (hn : (keys exprs).Nodup)
    (ρ : String → Rat) :
    (AD.create E exprs).jac ρ
      = exprs.map (fun op => (op.1, (E op.2.symbols).map (fun n => (n, (op.2.diff n).eval ρ)))) := by
  simp only [AD.jac, AD.create, AD.initExpressions, AD.lambdify, List.map_map]
  apply List.map_congr_left
  intro op hop
  obtain ⟨o, p⟩ := op
  simp only [Function.comp_def]
  rw [get_map_val (fun kv => E kv.2.symbols) exprs o p hn hop,
    get_map_val (fun kv => (E kv.2.symbols).map (fun n => (n, kv.2.diff n))) exprs o p hn hop]
  simp only [Option.getD_some]
  congr 1
  rw [List.map_map]
  apply List.map_congr_left
  intro n hnm
  simp only [Function.comp_def]
  rw [get_map_self (fun n => p.diff n) (E p.symbols) n hnm]
  simp only [Option.getD_some]
  rw [call_of_cover (p.diff n) (E p.symbols) ρ (fun s hs => hE _ _ (symbols_diff_subset p n s hs))]

theorem jacEntry_create (E : Env) (hE : E.Covers) (exprs : List (String × Poly)) (hn : (keys exprs).Nodup)
    (ρ : String → Rat) (o : String) (p : Poly) (hop : (o, p) ∈ exprs) (n : String) (hs : n ∈ p.symbols) :
    (AD.create E exprs).jacEntry ρ o n = some ((p.diff n).eval ρ) := by
  unfold AD.jacEntry
  rw [jac_create E hE exprs hn ρ,
    get_map_val (fun kv => (E kv.2.symbols).map (fun n => (n, (kv.2.diff n).eval ρ))) exprs o p hn hop]
  simp only [Option.bind_some]
  exact get_map_self (fun n => (p.diff n).eval ρ) (E p.symbols) n (hE _ _ hs)

end GV.C20
