/-
C07 — list-level lemmas about the executable model (`Model/C07.lean`):
certified solve, shapes and entries of the assembled matrix (block placement by prefix sums),
`-I` on the residual diagonal, `split_jac`.
-/
import GemseoVerif.Model.C07
import Mathlib.Data.List.Basic
import Mathlib.Data.List.GetD
import Mathlib.Tactic.Ring
import Mathlib.Algebra.Order.Ring.Rat

namespace GV.C07

/-! ### The solve is certified -/

theorem solveChecked_sound {a : Mat} {b x : List Rat} (h : solveChecked a b = some x) :
    mulVec a x = b ∧ x.length = b.length ∧ a.length = b.length := by
  unfold solveChecked at h
  split at h
  · exact absurd h (by simp)
  · rename_i y _
    split at h
    · rename_i hc
      cases h
      exact ⟨hc.2.2, hc.1, hc.2.1⟩
    · exact absurd h (by simp)

/-! ### Basic facts on `entry`, `zeros`, `negIdentity`, `shiftDiag` -/

theorem entry_nil (i j : Nat) : entry [] i j = 0 := by simp [entry]

theorem entry_cons_zero (r : List Rat) (m : Mat) (j : Nat) : entry (r :: m) 0 j = r.getD j 0 := by
  simp [entry]

theorem entry_cons_succ (r : List Rat) (m : Mat) (i j : Nat) :
    entry (r :: m) (i + 1) j = entry m i j := by
  simp [entry]

theorem entry_append_left (m₁ m₂ : Mat) (i j : Nat) (h : i < m₁.length) :
    entry (m₁ ++ m₂) i j = entry m₁ i j := by
  simp [entry, List.getD_eq_getElem?_getD, List.getElem?_append_left h]

theorem entry_append_right (m₁ m₂ : Mat) (i j : Nat) :
    entry (m₁ ++ m₂) (m₁.length + i) j = entry m₂ i j := by
  simp [entry, List.getD_eq_getElem?_getD, List.getElem?_append_right]

theorem zeroRow_length (n : Nat) : (zeroRow n).length = n := by simp [zeroRow]

theorem zeroRow_getD (n j : Nat) : (zeroRow n).getD j 0 = 0 := by
  simp only [zeroRow, List.getD_eq_getElem?_getD]
  by_cases h : j < n
  · simp [List.getElem?_replicate, h]
  · simp [List.getElem?_replicate, h]

theorem entry_zeros (r c i j : Nat) : entry (zeros r c) i j = 0 := by
  simp only [entry, zeros, List.getD_eq_getElem?_getD]
  by_cases h : i < r
  · simp [List.getElem?_replicate, h]
    exact zeroRow_getD c j
  · simp [List.getElem?_replicate, h]

theorem entry_negIdentity (n a b : Nat) (ha : a < n) (hb : b < n) :
    entry (negIdentity n) a b = if a = b then -1 else 0 := by
  simp [entry, negIdentity, List.getD_eq_getElem?_getD, ha, hb]

theorem entry_shiftDiag (m : Mat) (a b : Nat) (ha : a < m.length)
    (hb : b < (m.getD a []).length) :
    entry (shiftDiag m) a b = entry m a b - if a = b then 1 else 0 := by
  have hrow : (m.getD a []) = m[a] := by simp [List.getD_eq_getElem?_getD, ha]
  rw [hrow] at hb
  simp only [entry, shiftDiag, List.getD_eq_getElem?_getD, List.getElem?_map,
    List.getElem?_zipIdx]
  simp [ha, hb]
  split <;> simp

/-! ### Block placement: offsets are prefix sums of the sizes -/

section placement
variable (jac : String → String → Option Mat) (sz : String → Nat)

theorem offset_zero (names : List String) : offset sz names 0 = 0 := by simp [offset]

theorem offset_cons_succ (n : String) (names : List String) (k : Nat) :
    offset sz (n :: names) (k + 1) = sz n + offset sz names k := by
  simp [offset]

theorem offset_length (names : List String) : offset sz names names.length = dim sz names := by
  simp [offset, dim]

theorem dim_cons (n : String) (names : List String) : dim sz (n :: names) = sz n + dim sz names := by
  simp [dim]

/-- Every line of a block has the width of its variable (shape check of the discipline's
    Jacobian, `_check_jacobian_shape`). -/
def RowWF (isRes : Bool) : Prop :=
  ∀ f v a, ((blockOf jac sz isRes f v).getD a (zeroRow (sz v))).length = sz v

theorem entry_eq_getD_getD (m : Mat) (n a b : Nat) :
    entry m a b = (m.getD a (zeroRow n)).getD b 0 := by
  simp only [entry, List.getD_eq_getElem?_getD]
  cases h : m[a]? with
  | none => simp [zeroRow_getD, ← List.getD_eq_getElem?_getD]
  | some r => simp

theorem blockRowLine_length (isRes : Bool) (hwf : RowWF jac sz isRes) (f : String)
    (vs : List String) (a : Nat) : (blockRowLine jac sz isRes f vs a).length = dim sz vs := by
  induction vs with
  | nil => simp [blockRowLine, dim]
  | cons v vs ih =>
    have : blockRowLine jac sz isRes f (v :: vs) a =
        (blockOf jac sz isRes f v).getD a (zeroRow (sz v)) ++ blockRowLine jac sz isRes f vs a := by
      simp [blockRowLine]
    rw [this, List.length_append, hwf f v a, ih, dim_cons]

/-- Column placement inside one line of a block row. -/
theorem blockRowLine_getD (isRes : Bool) (hwf : RowWF jac sz isRes) (f : String)
    (vs : List String) (a j b : Nat) (hj : j < vs.length) (hb : b < sz (vs.getD j "")) :
    (blockRowLine jac sz isRes f vs a).getD (offset sz vs j + b) 0 =
      entry (blockOf jac sz isRes f (vs.getD j "")) a b := by
  induction vs generalizing j with
  | nil => simp at hj
  | cons v vs ih =>
    have hsplit : blockRowLine jac sz isRes f (v :: vs) a =
        (blockOf jac sz isRes f v).getD a (zeroRow (sz v)) ++ blockRowLine jac sz isRes f vs a := by
      simp [blockRowLine]
    rw [hsplit]
    have hlen := hwf f v a
    cases j with
    | zero =>
      simp only [List.getD_cons_zero] at hb ⊢
      rw [offset_zero, Nat.zero_add, entry_eq_getD_getD _ (sz v)]
      generalize (blockOf jac sz isRes f v).getD a (zeroRow (sz v)) = r at hlen ⊢
      exact List.getD_append _ _ _ _ (by omega)
    | succ j =>
      simp only [List.getD_cons_succ] at hb ⊢
      have hj' : j < vs.length := by simpa using hj
      rw [offset_cons_succ, Nat.add_assoc, ← ih j hj' hb]
      generalize (blockOf jac sz isRes f v).getD a (zeroRow (sz v)) = r at hlen ⊢
      rw [List.getD_append_right _ _ _ _ (by omega), hlen, Nat.add_sub_cancel_left]

theorem blockRow_length (isRes : Bool) (f : String) (vs : List String) :
    (blockRow jac sz isRes f vs).length = sz f := by simp [blockRow]

theorem assemble_length (isRes : Bool) (fs vs : List String) :
    (assemble jac sz isRes fs vs).length = dim sz fs := by
  induction fs with
  | nil => simp [assemble, dim]
  | cons f fs ih =>
    have : assemble jac sz isRes (f :: fs) vs =
        blockRow jac sz isRes f vs ++ assemble jac sz isRes fs vs := by simp [assemble]
    rw [this, List.length_append, blockRow_length, ih, dim_cons]

/-- Row placement: line `offset fs i + a` of the assembled matrix is line `a` of block row `i`. -/
theorem assemble_getD (isRes : Bool) (fs vs : List String) (i a : Nat) (hi : i < fs.length)
    (ha : a < sz (fs.getD i "")) :
    (assemble jac sz isRes fs vs).getD (offset sz fs i + a) [] =
      blockRowLine jac sz isRes (fs.getD i "") vs a := by
  induction fs generalizing i with
  | nil => simp at hi
  | cons f fs ih =>
    have hsplit : assemble jac sz isRes (f :: fs) vs =
        blockRow jac sz isRes f vs ++ assemble jac sz isRes fs vs := by simp [assemble]
    rw [hsplit]
    have hlen := blockRow_length jac sz isRes f vs
    cases i with
    | zero =>
      simp only [List.getD_cons_zero] at ha ⊢
      rw [offset_zero, Nat.zero_add, List.getD_append _ _ _ _ (by omega)]
      simp [blockRow, List.getD_eq_getElem?_getD, ha]
    | succ i =>
      simp only [List.getD_cons_succ] at ha ⊢
      have hi' : i < fs.length := by simpa using hi
      rw [offset_cons_succ, Nat.add_assoc, ← ih i hi' ha,
        List.getD_append_right _ _ _ _ (by omega), hlen, Nat.add_sub_cancel_left]

/-- **Block placement.** Entry `(off_i + a, off_j + b)` of the assembled matrix is entry `(a, b)`
    of block `(i, j)`, the offsets being the prefix sums of the sizes. -/
theorem assemble_entry' (isRes : Bool) (hwf : RowWF jac sz isRes) (fs vs : List String)
    (i j a b : Nat) (hi : i < fs.length) (hj : j < vs.length)
    (ha : a < sz (fs.getD i "")) (hb : b < sz (vs.getD j "")) :
    entry (assemble jac sz isRes fs vs) (offset sz fs i + a) (offset sz vs j + b) =
      entry (blockOf jac sz isRes (fs.getD i "") (vs.getD j "")) a b := by
  unfold entry
  rw [assemble_getD jac sz isRes fs vs i a hi ha]
  exact blockRowLine_getD jac sz isRes hwf _ vs a j b hj hb

/-- Shape of the disciplines' Jacobians (`_check_jacobian_shape`): block `(f, v)` has `sz f` lines
    of width `sz v`. -/
def JacWF : Prop :=
  ∀ f v m, jac f v = some m → m.length = sz f ∧ ∀ row ∈ m, row.length = sz v

theorem getD_length_of_rows (m : Mat) (n a : Nat) (h : ∀ row ∈ m, row.length = n) :
    (m.getD a (zeroRow n)).length = n := by
  rw [List.getD_eq_getElem?_getD]
  cases hm : m[a]? with
  | none => simp [zeroRow_length]
  | some r => simpa using h r (List.mem_of_getElem? hm)

theorem shiftDiag_rows (m : Mat) (n : Nat) (h : ∀ row ∈ m, row.length = n) :
    ∀ row ∈ shiftDiag m, row.length = n := by
  intro row hrow
  simp only [shiftDiag, List.mem_map] at hrow
  obtain ⟨⟨r, i⟩, hmem, rfl⟩ := hrow
  have : r ∈ m := by
    have := List.mem_zipIdx hmem
    simp only [Nat.zero_add] at this
    rw [this.2.2]
    exact List.getElem_mem _
  simpa using h r this

theorem negIdentity_rows (n : Nat) : ∀ row ∈ negIdentity n, row.length = n := by
  intro row hrow
  simp only [negIdentity, List.mem_map] at hrow
  obtain ⟨i, _, rfl⟩ := hrow
  simp

theorem zeros_rows (r c : Nat) : ∀ row ∈ zeros r c, row.length = c := by
  intro row hrow
  simp only [zeros, List.mem_replicate] at hrow
  rw [hrow.2, zeroRow_length]

theorem blockOf_rows (hj : JacWF jac sz) (isRes : Bool) (f v : String) :
    ∀ row ∈ blockOf jac sz isRes f v, row.length = sz v := by
  unfold blockOf genBlock
  by_cases hc : (isRes && f == v) = true
  · simp only [hc, if_true]
    cases hjac : jac f v with
    | none => exact negIdentity_rows (sz v)
    | some m => exact shiftDiag_rows m (sz v) (hj f v m hjac).2
  · simp only [hc]
    cases hjac : jac f v with
    | none => exact zeros_rows (sz f) (sz v)
    | some m => exact (hj f v m hjac).2

theorem rowWF_of_jacWF (hj : JacWF jac sz) (isRes : Bool) : RowWF jac sz isRes :=
  fun f v a => getD_length_of_rows _ _ a (blockOf_rows jac sz hj isRes f v)

/-- **`-I` on the residual diagonal.** The diagonal block of the residual `Y_f - y_f` is the
    discipline's block `∂Y_f/∂y_f` (zero when the discipline is not self-coupled) minus the identity. -/
theorem blockOf_residual_diag (hj : JacWF jac sz) (f : String) (a b : Nat)
    (ha : a < sz f) (hb : b < sz f) :
    entry (blockOf jac sz true f f) a b =
      (match jac f f with | some m => entry m a b | none => 0) - if a = b then 1 else 0 := by
  unfold blockOf genBlock
  simp only [Bool.true_and, beq_self_eq_true, if_true]
  cases hjac : jac f f with
  | none => simp [entry_negIdentity _ _ _ ha hb]; split <;> simp
  | some m =>
    have hlen := (hj f f m hjac).1
    have hrow : (m.getD a []).length = sz f := by
      have ha' : a < m.length := by omega
      have : m.getD a [] = m[a] := by simp [List.getD_eq_getElem?_getD, ha']
      rw [this]; exact (hj f f m hjac).2 _ (List.getElem_mem _)
    exact entry_shiftDiag m a b (by omega) (by omega)

/-- Off the residual diagonal (or without the residual flag) the block is the discipline's. -/
theorem blockOf_plain (isRes : Bool) (f v : String) (h : (isRes && f == v) = false) (a b : Nat) :
    entry (blockOf jac sz isRes f v) a b =
      match jac f v with | some m => entry m a b | none => 0 := by
  unfold blockOf genBlock
  simp only [h]
  cases jac f v with
  | none => simp [entry_zeros]
  | some m => simp

/-- **`split_jac`.** Entry `(a, b)` of the block of variable `j` is entry `(a, off_j + b)`. -/
theorem splitJac_entry (vs : List String) (m : Mat) (j a b : Nat) (hj : j < vs.length)
    (hb : b < sz (vs.getD j "")) :
    entry (((splitJac sz vs m).getD j ("", [])).2) a b = entry m a (offset sz vs j + b) := by
  simp only [splitJac, List.getD_eq_getElem?_getD, List.getElem?_map, List.getElem?_range hj,
    Option.map_some, Option.getD_some, entry]
  cases hm : m[a]? with
  | none => simp
  | some row =>
    simp only [Option.map_some, Option.getD_some]
    rw [List.getElem?_take_of_lt (by simpa [List.getD_eq_getElem?_getD] using hb),
      List.getElem?_drop]

end placement

end GV.C07

/-! ### Rescaled variables: the assembled matrices are rescaled block-wise -/

namespace GV.C07

theorem entry_scaleMat (c : Rat) (m : Mat) (a b : Nat) :
    entry (scaleMat c m) a b = c * entry m a b := by
  simp only [entry, scaleMat, List.getD_eq_getElem?_getD, List.getElem?_map]
  cases h : m[a]? with
  | none => simp
  | some row =>
    simp only [Option.map_some, Option.getD_some, List.getElem?_map]
    cases h' : row[b]? with
    | none => simp
    | some x => simp

theorem scaleMat_length (c : Rat) (m : Mat) : (scaleMat c m).length = m.length := by
  simp [scaleMat]

theorem scaleMat_rows (c : Rat) (m : Mat) (n : Nat) (h : ∀ row ∈ m, row.length = n) :
    ∀ row ∈ scaleMat c m, row.length = n := by
  intro row hrow
  simp only [scaleMat, List.mem_map] at hrow
  obtain ⟨r, hr, rfl⟩ := hrow
  simpa using h r hr

section scaled
variable (jac : String → String → Option Mat) (sz : String → Nat) (w : String → Rat)

/-- Rescaling keeps the shapes of the disciplines' Jacobians. -/
theorem scaledJac_wf (hj : JacWF jac sz) : JacWF (scaledJac w jac) sz := by
  intro f v m hm
  unfold scaledJac at hm
  cases hjac : jac f v with
  | none => simp [hjac] at hm
  | some m0 =>
    simp only [hjac, Option.map_some, Option.some.injEq] at hm
    subst hm
    exact ⟨by rw [scaleMat_length]; exact (hj f v m0 hjac).1,
      scaleMat_rows _ _ _ (hj f v m0 hjac).2⟩

/-- Block `(f, v)` of the rescaled system, residual diagonal included (`w f / w f = 1`). -/
theorem blockOf_scaled (hj : JacWF jac sz) (hw : ∀ s, w s ≠ 0) (isRes : Bool) (f v : String)
    (a b : Nat) (ha : a < sz f) (hb : b < sz v) :
    entry (blockOf (scaledJac w jac) sz isRes f v) a b =
      w f / w v * entry (blockOf jac sz isRes f v) a b := by
  by_cases hc : (isRes && f == v) = true
  · have hfv : f = v := by
      simp only [Bool.and_eq_true, beq_iff_eq] at hc; exact hc.2
    have hres : isRes = true := by
      simp only [Bool.and_eq_true] at hc; exact hc.1
    subst hfv hres
    rw [blockOf_residual_diag (scaledJac w jac) sz (scaledJac_wf jac sz w hj) f a b ha hb,
      blockOf_residual_diag jac sz hj f a b ha hb, div_self (hw f), one_mul]
    unfold scaledJac
    cases jac f f with
    | none => simp
    | some m => simp [entry_scaleMat, div_self (hw f)]
  · have hc' : (isRes && f == v) = false := by simpa using hc
    rw [blockOf_plain (scaledJac w jac) sz isRes f v hc' a b, blockOf_plain jac sz isRes f v hc' a b]
    unfold scaledJac
    cases jac f v with
    | none => simp
    | some m => simp [entry_scaleMat]

end scaled

end GV.C07
