/-
C07 — list-level lemmas about the executable model (`Model/C07.lean`):
certified solve, shapes and entries of the assembled matrix (block placement by prefix sums),
`-I` on the residual diagonal, `split_jac`.
-/
import GemseoVerif.Model.C07
import Mathlib.Data.List.Basic
import Mathlib.Tactic.Ring
import Mathlib.Algebra.Order.Ring.Rat

namespace GV.C07

/-! ### The solve is certified -/

theorem solveChecked_sound {a : Mat} {b x : List Rat} (h : solveChecked a b = some x) :
    mulVec a x = b ∧ x.length = b.length ∧ a.length = b.length := by
  unfold solveChecked at h
  split at h
  · exact absurd h (by simp)
  · rename_i y _
    split at h
    · rename_i hc
      cases h
      exact ⟨hc.2.2, hc.1, hc.2.1⟩
    · exact absurd h (by simp)

/-! ### Basic facts on `entry`, `zeros`, `negIdentity`, `shiftDiag` -/

theorem entry_nil (i j : Nat) : entry [] i j = 0 := by simp [entry]

theorem entry_cons_zero (r : List Rat) (m : Mat) (j : Nat) : entry (r :: m) 0 j = r.getD j 0 := by
  simp [entry]

theorem entry_cons_succ (r : List Rat) (m : Mat) (i j : Nat) :
    entry (r :: m) (i + 1) j = entry m i j := by
  simp [entry]

theorem entry_append_left (m₁ m₂ : Mat) (i j : Nat) (h : i < m₁.length) :
    entry (m₁ ++ m₂) i j = entry m₁ i j := by
  simp [entry, List.getD_eq_getElem?_getD, List.getElem?_append_left h]

theorem entry_append_right (m₁ m₂ : Mat) (i j : Nat) :
    entry (m₁ ++ m₂) (m₁.length + i) j = entry m₂ i j := by
  simp [entry, List.getD_eq_getElem?_getD, List.getElem?_append_right]

theorem zeroRow_length (n : Nat) : (zeroRow n).length = n := by simp [zeroRow]

theorem zeroRow_getD (n j : Nat) : (zeroRow n).getD j 0 = 0 := by
  simp only [zeroRow, List.getD_eq_getElem?_getD]
  by_cases h : j < n
  · simp [List.getElem?_replicate, h]
  · simp [List.getElem?_replicate, h]

theorem entry_zeros (r c i j : Nat) : entry (zeros r c) i j = 0 := by
  simp only [entry, zeros, List.getD_eq_getElem?_getD]
  by_cases h : i < r
  · simp [List.getElem?_replicate, h]
    exact zeroRow_getD c j
  · simp [List.getElem?_replicate, h]

theorem entry_negIdentity (n a b : Nat) (ha : a < n) (hb : b < n) :
    entry (negIdentity n) a b = if a = b then -1 else 0 := by
  simp [entry, negIdentity, List.getD_eq_getElem?_getD, ha, hb]

theorem entry_shiftDiag (m : Mat) (a b : Nat) (ha : a < m.length)
    (hb : b < (m.getD a []).length) :
    entry (shiftDiag m) a b = entry m a b - if a = b then 1 else 0 := by
  have hrow : (m.getD a []) = m[a] := by simp [List.getD_eq_getElem?_getD, ha]
  rw [hrow] at hb
  simp only [entry, shiftDiag, List.getD_eq_getElem?_getD, List.getElem?_map,
    List.getElem?_zipIdx]
  simp [ha, hb]
  split <;> simp

end GV.C07
