/-
C15 — the representation invariant "the association lists are dictionaries": element names,
names with a default and required names are pairwise distinct. Preserved by every operation.
It is what makes `alookup` the dictionary lookup and lets the copy / pickle theorems speak of the
very same defaults.
-/
import GemseoVerif.Lemmas.C15World

namespace GV.C15

def Grammar.Dict (g : Grammar) : Prop :=
  (akeys g.elems).Nodup ∧ (akeys g.defaults).Nodup ∧ g.required.Nodup

/-! ### list facts -/

theorem akeys_aset_of_mem {α : Type} (l : List (Name × α)) (n : Name) (v : α) (h : n ∈ akeys l) :
    akeys (aset l n v) = akeys l := by
  unfold aset
  simp only [h, if_true]
  unfold akeys
  rw [List.map_map]
  apply List.map_congr_left
  intro p _
  simp only [Function.comp]
  by_cases hp : p.1 = n <;> simp [hp]

theorem aset_of_not_mem {α : Type} (l : List (Name × α)) (n : Name) (v : α) (h : n ∉ akeys l) :
    aset l n v = l ++ [(n, v)] := by
  unfold aset
  simp [h]

theorem nodup_akeys_aset {α : Type} (l : List (Name × α)) (n : Name) (v : α) (h : (akeys l).Nodup) :
    (akeys (aset l n v)).Nodup := by
  by_cases hn : n ∈ akeys l
  · rw [akeys_aset_of_mem l n v hn]; exact h
  · rw [aset_of_not_mem l n v hn]
    have : akeys (l ++ [(n, v)]) = akeys l ++ [n] := by simp [akeys]
    rw [this, List.nodup_append]
    refine ⟨h, by simp, ?_⟩
    intro a ha b hb
    simp only [List.mem_singleton] at hb
    subst hb
    exact fun e => hn (e ▸ ha)

theorem nodup_akeys_filter {α : Type} (l : List (Name × α)) (q : Name × α → Bool) (h : (akeys l).Nodup) :
    (akeys (l.filter q)).Nodup :=
  List.Nodup.sublist (List.Sublist.map _ List.filter_sublist) h

theorem nodup_akeys_aerase {α : Type} (l : List (Name × α)) (n : Name) (h : (akeys l).Nodup) :
    (akeys (aerase l n)).Nodup := nodup_akeys_filter l _ h

theorem nodup_sinsert (l : List Name) (n : Name) (h : l.Nodup) : (sinsert l n).Nodup := by
  unfold sinsert
  split
  · exact h
  · rename_i hn
    rw [List.nodup_append]
    refine ⟨h, by simp, ?_⟩
    intro a ha b hb
    simp only [List.mem_singleton] at hb
    subst hb
    exact fun e => hn (e ▸ ha)

theorem nodup_sunion (l m : List Name) (h : l.Nodup) : (sunion l m).Nodup := by
  unfold sunion
  induction m generalizing l with
  | nil => exact h
  | cons a t ih => exact ih _ (nodup_sinsert l a h)

theorem nodup_serase (l : List Name) (n : Name) (h : l.Nodup) : (serase l n).Nodup :=
  List.Nodup.sublist List.filter_sublist h

theorem nodup_akeys_jsSet (u : Bool) (e : List (Name × TS)) (n : Name) (node : Node)
    (h : (akeys e).Nodup) : (akeys (jsSet u e n node)).Nodup := by
  unfold jsSet
  split
  · exact nodup_akeys_aset _ _ _ h
  · split <;> exact nodup_akeys_aset _ _ _ h

theorem nodup_foldl_aset {β α : Type} (f : β → Name) (g : β → α) (l : List β) (e : List (Name × α))
    (h : (akeys e).Nodup) : (akeys (l.foldl (fun e b => aset e (f b) (g b)) e)).Nodup := by
  induction l generalizing e with
  | nil => exact h
  | cons b t ih => exact ih _ (nodup_akeys_aset _ _ _ h)

theorem nodup_foldl_jsSet {β : Type} (f : β → Name) (g : β → Node) (u : Bool) (l : List β)
    (e : List (Name × TS)) (h : (akeys e).Nodup) :
    (akeys (l.foldl (fun e b => jsSet u e (f b) (g b)) e)).Nodup := by
  induction l generalizing e with
  | nil => exact h
  | cons b t ih => exact ih _ (nodup_akeys_jsSet _ _ _ _ h)

theorem nodup_jsSetAll (u : Bool) (e : List (Name × TS)) (props : List (Name × Node))
    (h : (akeys e).Nodup) : (akeys (jsSetAll u e props)).Nodup := by
  unfold jsSetAll
  induction props generalizing e u with
  | nil => exact h
  | cons p t ih => exact ih _ _ (nodup_akeys_jsSet _ _ _ _ h)

theorem nodup_jsSetData (u : Bool) (e : List (Name × TS)) (l : List (Name × Val))
    (h : (akeys e).Nodup) : (akeys (jsSetData u e l)).Nodup := by
  unfold jsSetData
  induction l generalizing e u with
  | nil => exact h
  | cons p t ih => exact ih _ _ (nodup_akeys_jsSet _ _ _ _ h)

theorem nodup_amove {α : Type} (l : List (Name × α)) (cur new : Name) (h : (akeys l).Nodup) :
    (akeys (amove l cur new)).Nodup := by
  unfold amove
  split
  · exact h
  · exact nodup_akeys_aset _ _ _ (nodup_akeys_aerase _ _ h)

theorem nodup_foldl_checked (keys : List Name) (l : List (Name × String)) (d : List (Name × String))
    (h : (akeys d).Nodup) :
    (akeys (l.foldl (fun d p => if p.1 ∈ keys then aset d p.1 p.2 else d) d)).Nodup := by
  induction l generalizing d with
  | nil => exact h
  | cons p t ih =>
    simp only [List.foldl_cons]
    apply ih
    split
    · exact nodup_akeys_aset _ _ _ h
    · exact h

/-- Re-inserting the items of a dictionary into an empty one gives the same dictionary. -/
theorem foldl_checked_eq (keys : List Name) (l acc : List (Name × String))
    (hn : (akeys (acc ++ l)).Nodup) (hall : ∀ p ∈ l, p.1 ∈ keys) :
    l.foldl (fun d p => if p.1 ∈ keys then aset d p.1 p.2 else d) acc = acc ++ l := by
  induction l generalizing acc with
  | nil => simp
  | cons p t ih =>
    have hp : p.1 ∈ keys := hall p (List.mem_cons_self ..)
    have hnot : p.1 ∉ akeys acc := by
      have h1 : akeys (acc ++ p :: t) = akeys acc ++ (p.1 :: akeys t) := by simp [akeys]
      rw [h1, List.nodup_append] at hn
      intro hmem
      exact hn.2.2 p.1 hmem p.1 (List.mem_cons_self ..) rfl
    simp only [List.foldl_cons, hp, if_true]
    rw [aset_of_not_mem acc p.1 p.2 hnot]
    have : acc ++ [(p.1, p.2)] ++ t = acc ++ p :: t := by simp
    rw [ih (acc ++ [(p.1, p.2)]) (by rw [this]; exact hn) (fun q hq => hall q (List.mem_cons_of_mem _ hq))]
    exact this

/-- Re-adding the names of a set to an empty set gives the same set. -/
theorem sunion_eq (acc l : List Name) (hn : (acc ++ l).Nodup) : sunion acc l = acc ++ l := by
  unfold sunion
  induction l generalizing acc with
  | nil => simp
  | cons a t ih =>
    have hnot : a ∉ acc := by
      rw [List.nodup_append] at hn
      intro hmem
      exact hn.2.2 a hmem a (List.mem_cons_self ..) rfl
    simp only [List.foldl_cons]
    have hs : sinsert acc a = acc ++ [a] := by unfold sinsert; simp [hnot]
    rw [hs]
    have : acc ++ [a] ++ t = acc ++ a :: t := by simp
    rw [ih (acc ++ [a]) (by rw [this]; exact hn)]
    exact this

/-! ### helpers on grammars -/

theorem Dict_reqAddAll (g : Grammar) (names : List Name) (h : g.Dict) : (reqAddAll g names).Dict :=
  ⟨h.1, h.2.1, nodup_sunion _ _ h.2.2⟩

theorem Dict_setDefaultsChecked (g : Grammar) (l : List (Name × String)) (h : g.Dict) :
    (setDefaultsChecked g l).Dict :=
  ⟨h.1, nodup_foldl_checked _ _ _ h.2.1, h.2.2⟩

theorem Dict_fresh (k : Kind) : (Grammar.fresh k).Dict := by
  unfold Grammar.Dict Grammar.fresh akeys
  simp

theorem Dict_elems (g : Grammar) (e : List (Name × TS)) (b : Option (List Name)) (h : g.Dict)
    (he : (akeys e).Nodup) : ({ g with elems := e, breq := b }.resetCaches).Dict :=
  ⟨he, h.2.1, h.2.2⟩

/-- Setting the defaults of a dictionary on a grammar without defaults gives that dictionary. -/
theorem setDefaultsChecked_eq (g : Grammar) (l : List (Name × String)) (h0 : g.defaults = [])
    (hn : (akeys l).Nodup) (hall : ∀ p ∈ l, p.1 ∈ g.keys) : (setDefaultsChecked g l).defaults = l := by
  unfold setDefaultsChecked
  simp only [h0]
  have := foldl_checked_eq g.keys l [] (by simpa using hn) hall
  rw [this]
  simp

/-- Requiring the names of a set on a grammar without required names gives that set. -/
theorem reqAddAll_eq (g : Grammar) (l : List Name) (h0 : g.required = []) (hn : l.Nodup)
    (hall : ∀ n ∈ l, n ∈ g.keys) : (reqAddAll g l).required = l := by
  unfold reqAddAll
  simp only [h0]
  have hf : l.filter (fun n => decide (n ∈ g.keys)) = l :=
    List.filter_eq_self.mpr (fun n hn' => by simpa using hall n hn')
  rw [hf]
  have := sunion_eq [] l (by simpa using hn)
  rw [this]
  simp

/-! ### every operation keeps the dictionaries -/

theorem Dict_updateFromNames (g g' : Grammar) (names : List Name) (m : Bool) (h : g.Dict)
    (hok : updateFromNames g names m = .ok g') : g'.Dict := by
  unfold updateFromNames at hok
  split at hok
  · cases hok; exact h
  · split at hok
    · split at hok
      · cases hok
      · cases hok
        exact Dict_reqAddAll _ _ (Dict_elems g _ g.breq h (nodup_foldl_aset (fun n => n) _ names _ h.1))
    · cases hok
      exact Dict_reqAddAll _ _ (Dict_elems g _ _ h (nodup_foldl_jsSet (fun n => n) _ _ names _ h.1))

theorem Dict_updateFromTypes (g g' : Grammar) (l : List (Name × PyT)) (m : Bool) (h : g.Dict)
    (hok : updateFromTypes g l m = .ok g') : g'.Dict := by
  unfold updateFromTypes at hok
  split at hok
  · cases hok; exact h
  · split at hok
    · split at hok
      · cases hok
      · cases hok
        exact Dict_reqAddAll _ _ (Dict_elems g _ g.breq h
          (nodup_foldl_aset (fun p : Name × PyT => p.1) (fun p => TS.py p.2) l _ h.1))
    · split at hok
      · cases hok
      · cases hok
        exact Dict_reqAddAll _ _ (Dict_elems g _ _ h
          (nodup_foldl_jsSet (fun p : Name × PyT => p.1) (fun p => (ofPy p.2).getD Node.any) _ l _ h.1))

theorem Dict_updateFromData (g g' : Grammar) (l : List (Name × Val)) (m : Bool) (h : g.Dict)
    (hok : updateFromData g l m = .ok g') : g'.Dict := by
  unfold updateFromData at hok
  split at hok
  · cases hok; exact h
  · split at hok
    · split at hok
      · cases hok
      · cases hok
        exact Dict_reqAddAll _ _ (Dict_elems g _ g.breq h
          (nodup_foldl_aset (fun p : Name × Val => p.1) (fun p => TS.py (typeOfVal p.2)) l _ h.1))
    · cases hok
      exact Dict_reqAddAll _ _ (Dict_elems g _ _ h (nodup_jsSetData _ _ _ h.1))

theorem Dict_updateFromSchema (g g' : Grammar) (props : List (Name × Node)) (req : Option (List Name))
    (m : Bool) (h : g.Dict) (hok : updateFromSchema g props req m = .ok g') : g'.Dict := by
  unfold updateFromSchema at hok
  split at hok
  · cases hok
  · simp only at hok
    split at hok
    · cases hok
    · cases hok
      exact Dict_reqAddAll _ _ (Dict_elems g _ _ h (nodup_jsSetAll _ _ _ h.1))

theorem Dict_restrictTo (g g' : Grammar) (names : List Name) (h : g.Dict)
    (hok : restrictTo g names = .ok g') : g'.Dict := by
  unfold restrictTo at hok
  split at hok
  · cases hok
  · cases hok
    exact ⟨nodup_akeys_filter _ _ h.1, nodup_akeys_filter _ _ h.2.1,
           List.Nodup.sublist List.filter_sublist h.2.2⟩

theorem Dict_delItem (g g' : Grammar) (n : Name) (h : g.Dict) (hok : delItem g n = .ok g') : g'.Dict := by
  unfold delItem at hok
  split at hok
  · cases hok
  · cases hok
    exact ⟨nodup_akeys_aerase _ _ h.1, nodup_akeys_aerase _ _ h.2.1, nodup_serase _ _ h.2.2⟩

theorem Dict_renameRequired (g : Grammar) (cur new : Name) (h : g.Dict) : (renameRequired g cur new).Dict := by
  unfold renameRequired
  split
  · exact Dict_reqAddAll _ _ ⟨h.1, h.2.1, nodup_serase _ _ h.2.2⟩
  · exact h

theorem Dict_renameDefault (g : Grammar) (cur new : Name) (h : g.Dict) : (renameDefault g cur new).Dict := by
  unfold renameDefault
  split
  · exact h
  · exact Dict_setDefaultsChecked _ _ ⟨h.1, nodup_akeys_aerase _ _ h.2.1, h.2.2⟩

theorem Dict_renameElement (g g' : Grammar) (cur new : Name) (h : g.Dict)
    (hok : renameElement g cur new = .ok g') : g'.Dict := by
  unfold renameElement at hok
  split at hok
  · cases hok
  · cases hok
    apply Dict_renameDefault
    apply Dict_renameRequired
    exact ⟨nodup_amove _ _ _ h.1, h.2.1, h.2.2⟩

theorem Dict_addNamespace (g g' : Grammar) (n ns : Name) (h : g.Dict)
    (hok : addNamespace g n ns = .ok g') : g'.Dict := by
  unfold addNamespace at hok
  split at hok
  · cases hok
  · split at hok
    · cases hok
    · simp only at hok
      split at hok
      · cases hok
      · rename_i g1 hren
        cases hok
        exact Dict_renameElement g g1 n _ h hren

theorem Dict_setDefault (g g' : Grammar) (n : Name) (v : String) (h : g.Dict)
    (hok : setDefault g n v = .ok g') : g'.Dict := by
  unfold setDefault at hok
  split at hok
  · cases hok; exact ⟨h.1, nodup_akeys_aset _ _ _ h.2.1, h.2.2⟩
  · cases hok

theorem Dict_popDefault (g : Grammar) (n : Name) (h : g.Dict) : (popDefault g n).Dict :=
  ⟨h.1, nodup_akeys_aerase _ _ h.2.1, h.2.2⟩

theorem Dict_assignDefaults (g g' : Grammar) (l : List (Name × String)) (h : g.Dict)
    (hok : assignDefaults g l = .ok g') : g'.Dict := by
  unfold assignDefaults at hok
  split at hok
  · cases hok
  · cases hok
    refine ⟨h.1, ?_, h.2.2⟩
    exact nodup_foldl_aset (fun p : Name × String => p.1) (fun p => p.2) l [] (by simp [akeys])

theorem Dict_reqAdd (g g' : Grammar) (n : Name) (h : g.Dict) (hok : reqAdd g n = .ok g') : g'.Dict := by
  unfold reqAdd at hok
  split at hok
  · cases hok; exact ⟨h.1, h.2.1, nodup_sinsert _ _ h.2.2⟩
  · cases hok

theorem Dict_reqDiscard (g : Grammar) (n : Name) (h : g.Dict) : (reqDiscard g n).Dict :=
  ⟨h.1, h.2.1, nodup_serase _ _ h.2.2⟩

theorem Dict_updateDefaults (g : Grammar) (l : List (Name × String)) (h : g.Dict) :
    (updateDefaults g l).1.Dict := by
  induction l generalizing g with
  | nil => exact h
  | cons p t ih =>
    unfold updateDefaults
    split
    · exact ih _ ⟨h.1, nodup_akeys_aset _ _ _ h.2.1, h.2.2⟩
    · exact h

theorem Dict_clearDefaults (g : Grammar) (h : g.Dict) : (clearDefaults g).Dict :=
  ⟨h.1, by simp [clearDefaults, akeys], h.2.2⟩

theorem Dict_reqRemove (g g' : Grammar) (n : Name) (h : g.Dict) (hok : reqRemove g n = .ok g') : g'.Dict := by
  unfold reqRemove at hok
  split at hok
  · cases hok; exact Dict_reqDiscard g n h
  · cases hok

theorem Dict_reqClear (g : Grammar) (h : g.Dict) : (reqClear g).Dict :=
  ⟨h.1, h.2.1, by simp [reqClear]⟩

theorem Dict_reqUpdate (g : Grammar) (l : List Name) (h : g.Dict) : (reqUpdate g l).1.Dict := by
  induction l generalizing g with
  | nil => exact h
  | cons n t ih =>
    unfold reqUpdate
    split
    · exact ih _ ⟨h.1, h.2.1, nodup_sinsert _ _ h.2.2⟩
    · exact h

theorem Dict_reqSub (g : Grammar) (l : List Name) (h : g.Dict) : (reqSub g l).Dict :=
  ⟨h.1, h.2.1, List.Nodup.sublist List.filter_sublist h.2.2⟩

theorem Dict_reqAnd (g : Grammar) (l : List Name) (h : g.Dict) : (reqAnd g l).Dict :=
  ⟨h.1, h.2.1, List.Nodup.sublist List.filter_sublist h.2.2⟩

theorem Dict_of_pub (g g' : Grammar) (hp : g'.pub = g.pub) (h : g.Dict) : g'.Dict := by
  have he : g'.elems = g.elems := congrArg Pub.elems hp
  have hd : g'.defaults = g.defaults := congrArg Pub.defaults hp
  have hr : g'.required = g.required := congrArg Pub.required hp
  unfold Grammar.Dict
  rw [he, hd, hr]
  exact h

theorem akeys_conv (props : List (Name × TS)) : akeys (props.map convElem) = akeys props := by
  unfold akeys
  rw [List.map_map]
  rfl

theorem Dict_toSimple (g sg g1 : Grammar) (hg : g.Dict) (hc : g.CacheOK) (h : toSimple g = .ok (sg, g1)) :
    sg.Dict := by
  unfold toSimple at h
  split at h
  · cases h; exact hg
  · simp only at h
    split at h
    · cases h
    · cases h
      apply Dict_setDefaultsChecked
      apply Dict_reqAddAll
      refine ⟨?_, by simp [Grammar.fresh, akeys], by simp [Grammar.fresh]⟩
      show (akeys (List.map convElem g.fillSchema.schemaView.props)).Nodup
      rw [akeys_conv, schemaView_props_of_cacheOK _ (CacheOK_fillSchema g hc)]
      have he : g.fillSchema.elems = g.elems := congrArg Pub.elems (fillSchema_pub g)
      rw [he]
      exact hg.1

theorem Dict_updateSpecific (dst src : Grammar) (p : Grammar × Grammar) (excl : List Name) (m : Bool)
    (hd : dst.Dict) (hok : updateSpecific dst src excl m = .ok p) :
    p.1.Dict := by
  unfold updateSpecific at hok
  split at hok
  · split at hok
    · cases hok
    · split at hok
      · cases hok
      · cases hok
        exact Dict_elems dst _ dst.breq hd (nodup_foldl_aset (fun q : Name × TS => q.1) (fun q => q.2) _ _ hd.1)
  · split at hok
    · cases hok
    · cases hok
      exact Dict_elems dst _ _ hd (nodup_jsSetAll _ _ _ hd.1)

theorem Dict_updateCommon (d1 src : Grammar) (excl : List Name) (h : d1.Dict) : (updateCommon d1 src excl).Dict := by
  unfold updateCommon
  apply Dict_reqAddAll
  apply Dict_setDefaultsChecked
  exact ⟨h.1, h.2.1, h.2.2⟩

theorem Dict_updateFrom (dst src : Grammar) (p : Grammar × Grammar) (excl : List Name) (m : Bool)
    (hd : dst.Dict) (hs : src.Dict) (hsi : src.Inv) (hdi : dst.Inv)
    (hok : updateFrom dst src excl m = .ok p) : p.1.Dict ∧ p.2.Dict := by
  have hpub := (Inv_updateFrom dst src p excl m hdi hsi hok).2.2
  refine ⟨?_, Dict_of_pub src p.2 hpub hs⟩
  unfold updateFrom at hok
  split at hok
  · cases hok; exact hd
  · split at hok
    · cases hok
    · rename_i q hspec
      cases hok
      exact Dict_updateCommon _ _ _ (Dict_updateSpecific dst src q excl m hd hspec)

theorem Dict_copyOf (src : Grammar) (hs : src.Dict) : (copyOf src).Dict := by
  unfold copyOf
  apply Dict_setDefaultsChecked
  apply Dict_reqAddAll
  simp only
  split
  · exact ⟨hs.1, by simp [Grammar.fresh, akeys], by simp [Grammar.fresh]⟩
  · exact ⟨hs.1, by simp [Grammar.fresh, akeys], by simp [Grammar.fresh]⟩

theorem Dict_pickleOf (src : Grammar) (hs : src.Dict) (hi : src.Inv) :
    (pickleOf src).1.Dict ∧ (pickleOf src).2.Dict := by
  refine ⟨?_, Dict_of_pub src _ (Inv_pickleOf src hi).2.2 hs⟩
  unfold pickleOf
  split
  · exact hs
  · apply Dict_setDefaultsChecked
    have hp := schemaView_props_of_cacheOK src.fillSchema (Inv_fillSchema src hi).2
    have he : src.fillSchema.elems = src.elems := congrArg Pub.elems (fillSchema_pub src)
    refine ⟨?_, by simp [Grammar.fresh, akeys], hs.2.2⟩
    show (akeys src.fillSchema.schemaView.props).Nodup
    rw [hp, he]
    exact hs.1

/-! ### lifting to the world -/

def World.Dict (w : World) : Prop := ∀ i g, w.get i = some g → g.Dict

theorem World.Dict_put (w : World) (i : Nat) (g : Grammar) (hw : w.Dict) (hg : g.Dict) : (w.put i g).Dict := by
  intro j g' hj
  rw [World.get_put] at hj
  split at hj
  · cases hj; exact hg
  · exact hw j g' hj

theorem Dict_liftE (w : World) (s : Nat) (r : Except Err Grammar) (hw : w.Dict)
    (hr : ∀ g', r = .ok g' → g'.Dict) : (liftE w s r).1.Dict := by
  unfold liftE
  cases r with
  | error e => exact hw
  | ok g => exact World.Dict_put w s g hw (hr g rfl)

theorem emptyDict : World.Dict [none, none, none, none] := by
  intro i g h
  unfold World.get at h
  match i with
  | 0 | 1 | 2 | 3 => simp at h
  | n + 4 => simp at h

theorem step_Dict (w : World) (op : Op) (hw : w.Dict) (hi : w.Inv) : (step w op).1.Dict := by
  cases op with
  | new s k =>
    simp only [step]
    split
    · exact World.Dict_put w s _ hw (Dict_fresh k)
    · exact hw
  | upd d s excl m =>
    simp only [step]
    split
    · rename_i gd gs hd hs
      split
      · exact hw
      · rename_i gd' gs' hok
        have h := Dict_updateFrom gd gs (gd', gs') excl m (hw d gd hd) (hw s gs hs) (hi s gs hs) (hi d gd hd) hok
        split
        · exact World.Dict_put w d _ hw h.1
        · exact World.Dict_put _ d _ (World.Dict_put w s _ hw h.2) h.1
    · exact hw
  | names s l m =>
    simp only [step]
    split
    · rename_i g hg
      exact Dict_liftE w s _ hw (fun g' h => Dict_updateFromNames g g' l m (hw s g hg) h)
    · exact hw
  | types s l m =>
    simp only [step]
    split
    · rename_i g hg
      exact Dict_liftE w s _ hw (fun g' h => Dict_updateFromTypes g g' l m (hw s g hg) h)
    · exact hw
  | data s l m =>
    simp only [step]
    split
    · rename_i g hg
      exact Dict_liftE w s _ hw (fun g' h => Dict_updateFromData g g' l m (hw s g hg) h)
    · exact hw
  | schema s p r m =>
    simp only [step]
    split
    · rename_i g hg
      exact Dict_liftE w s _ hw (fun g' h => Dict_updateFromSchema g g' p r m (hw s g hg) h)
    · exact hw
  | restrict s l =>
    simp only [step]
    split
    · rename_i g hg
      exact Dict_liftE w s _ hw (fun g' h => Dict_restrictTo g g' l (hw s g hg) h)
    · exact hw
  | rename s c n =>
    simp only [step]
    split
    · rename_i g hg
      exact Dict_liftE w s _ hw (fun g' h => Dict_renameElement g g' c n (hw s g hg) h)
    · exact hw
  | del s n =>
    simp only [step]
    split
    · rename_i g hg
      exact Dict_liftE w s _ hw (fun g' h => Dict_delItem g g' n (hw s g hg) h)
    · exact hw
  | addns s n ns =>
    simp only [step]
    split
    · rename_i g hg
      exact Dict_liftE w s _ hw (fun g' h => Dict_addNamespace g g' n ns (hw s g hg) h)
    · exact hw
  | clear s =>
    simp only [step]
    split
    · rename_i g hg
      exact World.Dict_put w s _ hw (Dict_fresh g.kind)
    · exact hw
  | copy s d =>
    simp only [step]
    split
    · rename_i g hg
      split
      · exact World.Dict_put w d _ hw (Dict_copyOf g (hw s g hg))
      · exact hw
    · exact hw
  | pickle s d =>
    simp only [step]
    split
    · rename_i g hg
      split
      · have h := Dict_pickleOf g (hw s g hg) (hi s g hg)
        exact World.Dict_put _ d _ (World.Dict_put w s _ hw h.2) h.1
      · exact hw
    · exact hw
  | setdef s n v =>
    simp only [step]
    split
    · rename_i g hg
      exact Dict_liftE w s _ hw (fun g' h => Dict_setDefault g g' n v (hw s g hg) h)
    · exact hw
  | deldef s n =>
    simp only [step]
    split
    · rename_i g hg
      exact World.Dict_put w s _ hw (Dict_popDefault g n (hw s g hg))
    · exact hw
  | defaults s l =>
    simp only [step]
    split
    · rename_i g hg
      exact Dict_liftE w s _ hw (fun g' h => Dict_assignDefaults g g' l (hw s g hg) h)
    · exact hw
  | reqadd s n =>
    simp only [step]
    split
    · rename_i g hg
      exact Dict_liftE w s _ hw (fun g' h => Dict_reqAdd g g' n (hw s g hg) h)
    · exact hw
  | reqdisc s n =>
    simp only [step]
    split
    · rename_i g hg
      exact World.Dict_put w s _ hw (Dict_reqDiscard g n (hw s g hg))
    · exact hw
  | defupd s l =>
    simp only [step]
    split
    · rename_i g hg
      exact World.Dict_put w s _ hw (Dict_updateDefaults g l (hw s g hg))
    · exact hw
  | defupdfrom d s =>
    simp only [step]
    split
    · rename_i gd gs hd hs
      exact World.Dict_put w d _ hw (Dict_updateDefaults gd gs.defaults (hw d gd hd))
    · exact hw
  | defassignfrom d s =>
    simp only [step]
    split
    · rename_i gd gs hd hs
      exact Dict_liftE w d _ hw (fun g' h => Dict_assignDefaults gd g' gs.defaults (hw d gd hd) h)
    · exact hw
  | defclear s =>
    simp only [step]
    split
    · rename_i g hg
      exact World.Dict_put w s _ hw (Dict_clearDefaults g (hw s g hg))
    · exact hw
  | reqremove s n =>
    simp only [step]
    split
    · rename_i g hg
      exact Dict_liftE w s _ hw (fun g' h => Dict_reqRemove g g' n (hw s g hg) h)
    · exact hw
  | reqclear s =>
    simp only [step]
    split
    · rename_i g hg
      exact World.Dict_put w s _ hw (Dict_reqClear g (hw s g hg))
    · exact hw
  | requpd s l =>
    simp only [step]
    split
    · rename_i g hg
      exact World.Dict_put w s _ hw (Dict_reqUpdate g l (hw s g hg))
    · exact hw
  | reqsub s l =>
    simp only [step]
    split
    · rename_i g hg
      exact World.Dict_put w s _ hw (Dict_reqSub g l (hw s g hg))
    · exact hw
  | reqand s l =>
    simp only [step]
    split
    · rename_i g hg
      exact World.Dict_put w s _ hw (Dict_reqAnd g l (hw s g hg))
    · exact hw
  | reqassign s l =>
    simp only [step]
    split <;> exact hw
  | val s data =>
    simp only [step]
    split
    · rename_i g hg
      exact World.Dict_put w s _ hw (Dict_of_pub g _ (validate_pub g data) (hw s g hg))
    · exact hw
  | qschema s =>
    simp only [step]
    split
    · rename_i g hg
      exact World.Dict_put w s _ hw (Dict_of_pub g _ (fillSchema_pub g) (hw s g hg))
    · exact hw
  | qjson s =>
    simp only [step]
    split
    · rename_i g hg
      exact World.Dict_put w s _ hw (hw s g hg)
    · exact hw
  | qsimple s =>
    simp only [step]
    split
    · rename_i g hg
      split
      · exact hw
      · rename_i sg g' hts
        exact World.Dict_put w s _ hw
          (Dict_of_pub g g' (Inv_toSimple g sg g' (hi s g hg) hts).2.2 (hw s g hg))
    · exact hw
  | qmisc s l =>
    simp only [step]
    split <;> exact hw

theorem run_Dict (w : World) (ops : List Op) (hw : w.Dict) (hi : w.Inv) : (run w ops).Dict := by
  unfold run
  induction ops generalizing w with
  | nil => exact hw
  | cons op t ih => exact ih (step w op).1 (step_Dict w op hw hi) (step_Inv w op hi)

end GV.C15
