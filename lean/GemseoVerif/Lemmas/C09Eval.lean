/-
C09 — at which data the disciplines of a chain are linearized (`section Eval` of `Model/C09.lean`).

Invariant: every cache entry of a discipline is an evaluation of the function the discipline
computes (`KSound`); it holds on a fresh process and is preserved by every operation, whatever the
cache policies.  Under this invariant the forward sweep of the repaired `MDOChain._compute_jacobian`
linearizes every discipline at the data the *definition* of the sequential composition gives
(`specPoints`), independently of the state the history left behind.
-/
import GemseoVerif.Model.C09
import Mathlib.Data.List.Forall2

namespace GV.C09

set_option linter.unusedSectionVars false
set_option linter.unusedVariables false

section
variable {V D : Type} [DecidableEq V] [DecidableEq D]

/-- The function of a discipline only reads its inputs. -/
def EDisc.Local (d : EDisc V D) : Prop :=
  ∀ a b : Env V D, (∀ v ∈ d.ins, a v = b v) → ∀ v ∈ d.outs, d.f a v = d.f b v

/-- Every cache entry is an evaluation of the discipline. -/
def KSound (d : EDisc V D) (s : EState V D) : Prop :=
  ∀ e ∈ s.entries, ∀ v ∈ d.outs, e.2 v = d.f e.1 v

theorem agreeOn_iff (names : List V) (a b : Env V D) :
    agreeOn names a b = true ↔ ∀ v ∈ names, a v = b v := by
  simp [agreeOn]

theorem Env.over_mem (a b : Env V D) (names : List V) (v : V) (h : v ∈ names) :
    Env.over a b names v = b v := by simp [Env.over, h]

theorem Env.over_not_mem (a b : Env V D) (names : List V) (v : V) (h : v ∉ names) :
    Env.over a b names v = a v := by simp [Env.over, h]

theorem cacheFind_some (ins : List V) (entries : List (Env V D × Env V D)) (inp out : Env V D)
    (h : cacheFind ins entries inp = some out) :
    ∃ e ∈ entries, (∀ v ∈ ins, e.1 v = inp v) ∧ e.2 = out := by
  unfold cacheFind at h
  cases hf : entries.find? (fun e => agreeOn ins e.1 inp) with
  | none => simp [hf] at h
  | some e =>
    simp [hf] at h
    refine ⟨e, List.mem_of_find?_eq_some hf, ?_, h⟩
    have := List.find?_some hf
    exact (agreeOn_iff ins e.1 inp).mp this

theorem cacheStore_sound (d : EDisc V D) (k : CacheKind) (entries : List (Env V D × Env V D))
    (inp : Env V D) (h : ∀ e ∈ entries, ∀ v ∈ d.outs, e.2 v = d.f e.1 v) :
    ∀ e ∈ cacheStore k entries inp (d.f inp), ∀ v ∈ d.outs, e.2 v = d.f e.1 v := by
  intro e he v hv
  cases k with
  | none => simp [cacheStore] at he
  | simple =>
    simp [cacheStore] at he
    subst he; rfl
  | full =>
    simp [cacheStore] at he
    rcases he with rfl | he
    · rfl
    · exact h e he v hv

/-- **Result of an execution**: whether it is served by the cache or not, the data of the
    discipline are its input data overwritten by the values of its function. -/
theorem exec_data (d : EDisc V D) (hl : d.Local) (s : EState V D) (hs : KSound d s)
    (inp : Env V D) (v : V) :
    (d.exec s inp).data v = if v ∈ d.outs then d.f inp v else inp v := by
  unfold EDisc.exec
  cases hc : cacheFind d.ins s.entries inp with
  | none => simp [Env.over]
  | some out =>
    obtain ⟨e, he, hag, rfl⟩ := cacheFind_some d.ins s.entries inp out hc
    by_cases hv : v ∈ d.outs
    · simp [Env.over, hv]
      rw [hs e he v hv]
      exact hl e.1 inp hag v hv
    · simp [Env.over, hv]

theorem exec_sound (d : EDisc V D) (s : EState V D) (hs : KSound d s) (inp : Env V D) :
    KSound d (d.exec s inp) := by
  unfold EDisc.exec
  cases hc : cacheFind d.ins s.entries inp with
  | none => exact cacheStore_sound d d.cache s.entries inp hs
  | some out => exact hs

theorem prepLin_sound (d : EDisc V D) (s : EState V D) (hs : KSound d s) (inp : Env V D)
    (e : Bool) : KSound d (d.prepLin s inp e) := by
  unfold EDisc.prepLin
  cases e
  · exact hs
  · exact exec_sound d s hs inp

/-- The data at which a discipline computes its Jacobian after
    `linearize(input_data, execute=…)` are `input_data` on its inputs, whatever its state: also for
    an input that the discipline overwrites. -/
theorem prepLin_point (d : EDisc V D) (s : EState V D) (inp : Env V D) (e : Bool) (v : V)
    (hv : v ∈ d.ins) : (d.prepLin s inp e).data v = inp v := by
  unfold EDisc.prepLin
  simp [Env.over, hv]

theorem mem_chainIns_cons (d : EDisc V D) (ds : List (EDisc V D)) (v : V) :
    v ∈ chainIns (d :: ds) ↔ v ∈ d.ins ∨ (v ∈ chainIns ds ∧ v ∉ d.outs) := by
  simp [chainIns]

theorem mem_chainOuts_cons (d : EDisc V D) (ds : List (EDisc V D)) (v : V) :
    v ∈ chainOuts (d :: ds) ↔ v ∈ d.outs ∨ v ∈ chainOuts ds := by
  simp [chainOuts]

/-- Agreement of two lists of data on the inputs of the corresponding disciplines. -/
def PointsAgree : List (EDisc V D) → List (Env V D) → List (Env V D) → Prop
  | d :: ds, p :: ps, q :: qs => (∀ v ∈ d.ins, p v = q v) ∧ PointsAgree ds ps qs
  | [], [], [] => True
  | _, _, _ => False

/-- One step of the data flow: the data after a discipline, in the implementation (`data1`, from
    the state-dependent execution) and in the specification, agree on the inputs of the rest of
    the chain. -/
theorem step_agree (d : EDisc V D) (ds : List (EDisc V D)) (hl : d.Local) (s : EState V D)
    (hs : KSound d s) (data data' : Env V D)
    (h : ∀ v ∈ chainIns (d :: ds), data v = data' v) :
    ∀ v ∈ chainIns ds,
      Env.over data (d.exec s data).data (d.ins ++ d.outs) v
        = Env.over data' (d.f data') d.outs v := by
  intro v hv
  have hin : ∀ w ∈ d.ins, data w = data' w := fun w hw =>
    h w ((mem_chainIns_cons d ds w).mpr (Or.inl hw))
  by_cases ho : v ∈ d.outs
  · rw [Env.over_mem _ _ _ _ (by simp [ho]), Env.over_mem _ _ _ _ ho, exec_data d hl s hs]
    simp [ho]
    exact hl data data' hin v ho
  · rw [Env.over_not_mem _ _ d.outs _ ho]
    by_cases hi : v ∈ d.ins
    · rw [Env.over_mem _ _ _ _ (by simp [hi]), exec_data d hl s hs]
      simp [ho]
      exact hin v hi
    · rw [Env.over_not_mem _ _ _ _ (by simp [hi, ho])]
      exact h v ((mem_chainIns_cons d ds v).mpr (Or.inr ⟨hv, ho⟩))

/-- **The sweep linearizes at the specified data.**  For sound caches, whatever the data the
    disciplines hold before (`ss` is arbitrary), the forward sweep from data that agree with `x` on
    the inputs of the chain linearizes every discipline at the data the sequential composition
    gives it from `x`. -/
theorem sweep_points (ds : List (EDisc V D)) (hl : ∀ d ∈ ds, d.Local) (ss : List (EState V D))
    (hs : List.Forall₂ KSound ds ss) :
    ∀ (data x : Env V D), (∀ v ∈ chainIns ds, data v = x v) →
      PointsAgree ds (sweep ds ss data).2 (specPoints ds x) := by
  induction hs with
  | nil => intro data x _; simp [sweep, specPoints, PointsAgree]
  | @cons d s ds ss hd _ ih =>
    intro data x h
    have hld : d.Local := hl d (by simp)
    simp only [sweep, specPoints, PointsAgree]
    refine ⟨?_, ?_⟩
    · intro v hv
      rw [prepLin_point d _ data false v hv]
      exact h v ((mem_chainIns_cons d ds v).mpr (Or.inl hv))
    · exact ih (fun e he => hl e (by simp [he])) _ _ (step_agree d ds hld s hd data x h)

theorem sweep_sound (ds : List (EDisc V D)) (ss : List (EState V D))
    (hs : List.Forall₂ KSound ds ss) :
    ∀ data : Env V D, List.Forall₂ KSound ds (sweep ds ss data).1 := by
  induction hs with
  | nil => intro data; simp [sweep]
  | @cons d s ds ss hd _ ih =>
    intro data
    simp only [sweep]
    exact List.Forall₂.cons (prepLin_sound d _ (exec_sound d s hd data) data false) (ih _)

theorem runKids_sound (ds : List (EDisc V D)) (ss : List (EState V D))
    (hs : List.Forall₂ KSound ds ss) :
    ∀ data : Env V D, List.Forall₂ KSound ds (runKids ds ss data).1 := by
  induction hs with
  | nil => intro data; simp [runKids]
  | @cons d s ds ss hd _ ih =>
    intro data
    simp only [runKids]
    exact List.Forall₂.cons (exec_sound d s hd data) (ih _)

/-- **`MDOChain._execute` computes the composed function**, whatever the caches served. -/
theorem runKids_data (ds : List (EDisc V D)) (hl : ∀ d ∈ ds, d.Local) (ss : List (EState V D))
    (hs : List.Forall₂ KSound ds ss) :
    ∀ (data x : Env V D), (∀ v ∈ chainIns ds, data v = x v) →
      ∀ v, (v ∈ chainOuts ds ∨ data v = x v) → (runKids ds ss data).2 v = chainFun ds x v := by
  induction hs with
  | nil =>
    intro data x _ v hv
    simp [chainOuts] at hv
    simpa [runKids, chainFun] using hv
  | @cons d s ds ss hd _ ih =>
    intro data x h v hv
    have hld : d.Local := hl d (by simp)
    simp only [runKids, chainFun]
    apply ih (fun e he => hl e (by simp [he])) _ _ (step_agree d ds hld s hd data x h)
    have hin : ∀ w ∈ d.ins, data w = x w := fun w hw =>
      h w ((mem_chainIns_cons d ds w).mpr (Or.inl hw))
    by_cases hr : v ∈ chainOuts ds
    · exact Or.inl hr
    · right
      by_cases ho : v ∈ d.outs
      · rw [Env.over_mem _ _ _ _ (by simp [ho]), Env.over_mem _ _ _ _ ho, exec_data d hld s hd]
        simp [ho]
        exact hld data x hin v ho
      · have hvx : data v = x v := by
          rcases hv with hv | hv
          · rcases (mem_chainOuts_cons d ds v).mp hv with h1 | h1
            · exact absurd h1 ho
            · exact absurd h1 hr
          · exact hv
        rw [Env.over_not_mem _ _ d.outs _ ho]
        by_cases hi : v ∈ d.ins
        · rw [Env.over_mem _ _ _ _ (by simp [hi]), exec_data d hld s hd]
          simp [ho]
          exact hvx
        · rw [Env.over_not_mem _ _ _ _ (by simp [hi, ho])]
          exact hvx

/-- The function of a chain only reads the inputs of the chain: a chain is itself a discipline in
    the sense of `EDisc` (nesting is compositional). -/
theorem chainFun_local (ds : List (EDisc V D)) (hl : ∀ d ∈ ds, d.Local) :
    ∀ a b : Env V D, (∀ v ∈ chainIns ds, a v = b v) →
      ∀ v, (v ∈ chainOuts ds ∨ a v = b v) → chainFun ds a v = chainFun ds b v := by
  induction ds with
  | nil =>
    intro a b _ v hv
    simp [chainOuts] at hv
    simpa [chainFun] using hv
  | cons d ds ih =>
    intro a b h v hv
    have hld : d.Local := hl d (by simp)
    have hin : ∀ w ∈ d.ins, a w = b w := fun w hw =>
      h w ((mem_chainIns_cons d ds w).mpr (Or.inl hw))
    simp only [chainFun]
    apply ih (fun e he => hl e (by simp [he]))
    · intro w hw
      by_cases ho : w ∈ d.outs
      · rw [Env.over_mem _ _ _ _ ho, Env.over_mem _ _ _ _ ho]
        exact hld a b hin w ho
      · rw [Env.over_not_mem _ _ _ _ ho, Env.over_not_mem _ _ _ _ ho]
        exact h w ((mem_chainIns_cons d ds w).mpr (Or.inr ⟨hw, ho⟩))
    · by_cases hr : v ∈ chainOuts ds
      · exact Or.inl hr
      · right
        by_cases ho : v ∈ d.outs
        · rw [Env.over_mem _ _ _ _ ho, Env.over_mem _ _ _ _ ho]
          exact hld a b hin v ho
        · rw [Env.over_not_mem _ _ _ _ ho, Env.over_not_mem _ _ _ _ ho]
          rcases hv with hv | hv
          · rcases (mem_chainOuts_cons d ds v).mp hv with h1 | h1
            · exact absurd h1 ho
            · exact absurd h1 hr
          · exact hv

/-- The chain seen as a discipline of an enclosing process. -/
def EChain.asDisc (c : EChain V D) : EDisc V D :=
  ⟨chainIns c.kids, chainOuts c.kids, chainFun c.kids, c.cache⟩

theorem EChain.asDisc_local (c : EChain V D) (hl : ∀ d ∈ c.kids, d.Local) : c.asDisc.Local := by
  intro a b h v hv
  exact chainFun_local c.kids hl a b h v (Or.inl hv)

/-- Invariant of a chain object: sound caches of the disciplines and of the chain. -/
def CInv (c : EChain V D) (st : ChState V D) : Prop :=
  List.Forall₂ KSound c.kids st.kids ∧ KSound c.asDisc st.own

theorem fresh_inv (c : EChain V D) (d0 : Env V D) : CInv c (ChState.fresh c.kids.length d0) := by
  refine ⟨?_, ?_⟩
  · simp only [ChState.fresh]
    generalize c.kids = ds
    induction ds with
    | nil => simp
    | cons d ds ih =>
      simp only [List.length_cons, List.replicate_succ]
      exact List.Forall₂.cons (by intro e he; simp at he) ih
  · intro e he; simp [ChState.fresh] at he

theorem chain_exec_inv (c : EChain V D) (hl : ∀ d ∈ c.kids, d.Local) (st : ChState V D)
    (h : CInv c st) (x : Env V D) : CInv c (c.exec st x) := by
  unfold EChain.exec
  cases hc : cacheFind (chainIns c.kids) st.own.entries x with
  | some out => exact ⟨h.1, h.2⟩
  | none =>
    refine ⟨runKids_sound c.kids st.kids h.1 x, ?_⟩
    intro e he v hv
    simp only at he
    cases hk : c.cache with
    | none => simp [hk, cacheStore] at he
    | simple =>
      simp [hk, cacheStore] at he
      subst he
      exact runKids_data c.kids hl st.kids h.1 x x (fun _ _ => rfl) v (Or.inl hv)
    | full =>
      simp [hk, cacheStore] at he
      rcases he with rfl | he
      · exact runKids_data c.kids hl st.kids h.1 x x (fun _ _ => rfl) v (Or.inl hv)
      · exact h.2 e he v hv

/-- **Executing a chain returns the composed function**, after any history (the invariant) and
    whichever cache serves the execution. -/
theorem chain_exec_data (c : EChain V D) (hl : ∀ d ∈ c.kids, d.Local) (st : ChState V D)
    (h : CInv c st) (x : Env V D) (v : V) (hv : v ∈ chainOuts c.kids) :
    (c.exec st x).own.data v = chainFun c.kids x v := by
  unfold EChain.exec
  cases hc : cacheFind (chainIns c.kids) st.own.entries x with
  | some out =>
    obtain ⟨e, he, hag, rfl⟩ := cacheFind_some _ _ _ _ hc
    simp only [Env.over_mem _ _ _ _ hv]
    rw [h.2 e he v hv]
    exact chainFun_local c.kids hl e.1 x hag v (Or.inl hv)
  | none => exact runKids_data c.kids hl st.kids h.1 x x (fun _ _ => rfl) v (Or.inl hv)

theorem chain_lin_inv (c : EChain V D) (hl : ∀ d ∈ c.kids, d.Local) (st : ChState V D)
    (h : CInv c st) (x : Env V D) (e : Bool) : CInv c (c.lin st x e).1 := by
  unfold EChain.lin
  have h' : CInv c (if e then c.exec st x else st) := by
    cases e
    · exact h
    · exact chain_exec_inv c hl st h x
  exact ⟨sweep_sound c.kids _ h'.1 _, h'.2⟩

/-- **Linearization points of a chain.**  In any state satisfying the invariant, with or without
    the execution (`execute=True/False`), served or not by the cache of the chain, the disciplines
    are linearized at the data the sequential composition gives them from `x`. -/
theorem chain_lin_points (c : EChain V D) (hl : ∀ d ∈ c.kids, d.Local) (st : ChState V D)
    (h : List.Forall₂ KSound c.kids st.kids) (x : Env V D) (e : Bool) :
    PointsAgree c.kids (c.lin st x e).2 (specPoints c.kids x) := by
  unfold EChain.lin
  have h' : List.Forall₂ KSound c.kids (if e then c.exec st x else st).kids := by
    cases e
    · exact h
    · simp only [if_true]
      unfold EChain.exec
      cases hc : cacheFind (chainIns c.kids) st.own.entries x with
      | some out => exact h
      | none => exact runKids_sound c.kids st.kids h x
  apply sweep_points c.kids hl _ h'
  intro v hv
  exact Env.over_mem _ _ _ _ hv

theorem chain_step_inv (c : EChain V D) (hl : ∀ d ∈ c.kids, d.Local) (st : ChState V D)
    (h : CInv c st) (op : EOp V D) : CInv c (c.step st op) := by
  cases op with
  | exec x => exact chain_exec_inv c hl st h x
  | lin x e => exact chain_lin_inv c hl st h x e

theorem chain_run_inv (c : EChain V D) (hl : ∀ d ∈ c.kids, d.Local) (ops : List (EOp V D)) :
    ∀ st : ChState V D, CInv c st → CInv c (c.run st ops) := by
  induction ops with
  | nil => intro st h; exact h
  | cons op ops ih =>
    intro st h
    exact ih _ (chain_step_inv c hl st h op)

/-! ### MDAChain(chain_linearize=True) -/

def MInv (c : EChain V D) (st : MState V D) : Prop :=
  CInv c st.inner ∧ KSound c.asDisc st.own

theorem mda_exec_inv (c : EChain V D) (hl : ∀ d ∈ c.kids, d.Local) (w : CacheKind)
    (st : MState V D) (h : MInv c st) (x : Env V D) : MInv c (mdaExec c w st x) := by
  unfold mdaExec
  cases hc : cacheFind (chainIns c.kids) st.own.entries x with
  | some out => exact ⟨h.1, h.2⟩
  | none =>
    refine ⟨chain_exec_inv c hl st.inner h.1 x, ?_⟩
    intro e he v hv
    simp only at he
    cases w with
    | none => simp [cacheStore] at he
    | simple =>
      simp [cacheStore] at he
      subst he
      exact chain_exec_data c hl st.inner h.1 x v hv
    | full =>
      simp [cacheStore] at he
      rcases he with rfl | he
      · exact chain_exec_data c hl st.inner h.1 x v hv
      · exact h.2 e he v hv

theorem mda_lin_points (c : EChain V D) (hl : ∀ d ∈ c.kids, d.Local) (w : CacheKind)
    (st : MState V D) (h : MInv c st) (x : Env V D) (e ie : Bool) :
    PointsAgree c.kids (mdaLin c w st x e ie).2 (specPoints c.kids x) := by
  unfold mdaLin
  have h' : MInv c (if e then mdaExec c w st x else st) := by
    cases e
    · exact h
    · exact mda_exec_inv c hl w st h x
  have hx : ∀ v ∈ chainIns c.kids,
      Env.over (if e then mdaExec c w st x else st).own.data x (chainIns c.kids) v = x v :=
    fun v hv => Env.over_mem _ _ _ _ hv
  have := chain_lin_points c hl (if e then mdaExec c w st x else st).inner h'.1.1
    (Env.over (if e then mdaExec c w st x else st).own.data x (chainIns c.kids)) ie
  -- the specification only depends on the values of the inputs of the chain
  revert this
  generalize (c.lin (if e then mdaExec c w st x else st).inner
    (Env.over (if e then mdaExec c w st x else st).own.data x (chainIns c.kids)) ie).2 = pts
  generalize Env.over (if e then mdaExec c w st x else st).own.data x (chainIns c.kids) = y at hx
  intro hp
  exact pointsAgree_spec c.kids hl pts y x hx hp
where
  pointsAgree_spec (ds : List (EDisc V D)) (hl : ∀ d ∈ ds, d.Local) :
      ∀ (pts : List (Env V D)) (y x : Env V D), (∀ v ∈ chainIns ds, y v = x v) →
        PointsAgree ds pts (specPoints ds y) → PointsAgree ds pts (specPoints ds x) := by
    induction ds with
    | nil => intro pts y x _ hp; cases pts <;> simp [specPoints, PointsAgree] at hp ⊢
    | cons d ds ih =>
      intro pts y x h hp
      cases pts with
      | nil => simp [PointsAgree] at hp
      | cons p ps =>
        simp only [specPoints, PointsAgree] at hp ⊢
        have hin : ∀ w ∈ d.ins, y w = x w := fun w hw =>
          h w ((mem_chainIns_cons d ds w).mpr (Or.inl hw))
        refine ⟨fun v hv => (hp.1 v hv).trans (hin v hv), ?_⟩
        apply ih (fun e he => hl e (by simp [he])) ps _ _ ?_ hp.2
        intro w hw
        by_cases ho : w ∈ d.outs
        · rw [Env.over_mem _ _ _ _ ho, Env.over_mem _ _ _ _ ho]
          exact hl d (by simp) y x hin w ho
        · rw [Env.over_not_mem _ _ _ _ ho, Env.over_not_mem _ _ _ _ ho]
          exact h w ((mem_chainIns_cons d ds w).mpr (Or.inr ⟨hw, ho⟩))

theorem mda_lin_inv (c : EChain V D) (hl : ∀ d ∈ c.kids, d.Local) (w : CacheKind)
    (st : MState V D) (h : MInv c st) (x : Env V D) (e ie : Bool) :
    MInv c (mdaLin c w st x e ie).1 := by
  unfold mdaLin
  have h' : MInv c (if e then mdaExec c w st x else st) := by
    cases e
    · exact h
    · exact mda_exec_inv c hl w st h x
  exact ⟨chain_lin_inv c hl _ h'.1 _ ie, h'.2⟩

theorem mda_run_inv (c : EChain V D) (hl : ∀ d ∈ c.kids, d.Local) (w : CacheKind)
    (ops : List (EOp V D)) : ∀ st : MState V D, MInv c st → MInv c (mdaRun c w st ops) := by
  induction ops with
  | nil => intro st h; exact h
  | cons op ops ih =>
    intro st h
    apply ih
    cases op with
    | exec x => exact mda_exec_inv c hl w st h x
    | lin x e => exact mda_lin_inv c hl w st h x e true

theorem mfresh_inv (c : EChain V D) (d0 : Env V D) : MInv c (MState.fresh c.kids.length d0) :=
  ⟨fresh_inv c d0, by intro e he; simp [MState.fresh] at he⟩

/-! ### From the linearization points to the Jacobian dictionaries -/

variable {β : V → V → Type}

/-- The disciplines of the chain as the accumulation sees them (`Disc`): grammars and the Jacobian
    dictionary `J d p` the discipline `d` computes at the data `p`. -/
def discsAt (J : EDisc V D → Env V D → DJac β) : List (EDisc V D) → List (Env V D) → List (Disc β)
  | d :: ds, p :: ps => ⟨d.ins, d.outs, J d p⟩ :: discsAt J ds ps
  | _, _ => []

/-- The partial derivatives of a discipline only depend on the values of its inputs. -/
def JLocal (J : EDisc V D → Env V D → DJac β) : Prop :=
  ∀ (d : EDisc V D) (a b : Env V D), (∀ v ∈ d.ins, a v = b v) → J d a = J d b

theorem discsAt_congr (J : EDisc V D → Env V D → DJac β) (hJ : JLocal J) :
    ∀ (ds : List (EDisc V D)) (ps qs : List (Env V D)), PointsAgree ds ps qs →
      discsAt J ds ps = discsAt J ds qs := by
  intro ds
  induction ds with
  | nil => intro ps qs h; cases ps <;> cases qs <;> simp [discsAt, PointsAgree] at h ⊢
  | cons d ds ih =>
    intro ps qs h
    cases ps with
    | nil => cases qs <;> simp [PointsAgree] at h
    | cons p ps =>
      cases qs with
      | nil => simp [PointsAgree] at h
      | cons q qs =>
        simp only [PointsAgree] at h
        simp only [discsAt]
        rw [hJ d p q h.1, ih ps qs h.2]

theorem specPoints_length (ds : List (EDisc V D)) : ∀ x : Env V D, (specPoints ds x).length = ds.length := by
  induction ds with
  | nil => intro x; simp [specPoints]
  | cons d ds ih => intro x; simp [specPoints, ih]

theorem discsAt_out (J : EDisc V D → Env V D → DJac β) (o : V) :
    ∀ (ds : List (EDisc V D)) (ps : List (Env V D)), ps.length = ds.length →
      (∃ d ∈ ds, o ∈ d.outs) → ∃ d' ∈ discsAt J ds ps, o ∈ d'.outs := by
  intro ds
  induction ds with
  | nil => intro ps _ h; simp at h
  | cons d ds ih =>
    intro ps hlen h
    cases ps with
    | nil => simp at hlen
    | cons p ps =>
      simp only [discsAt]
      obtain ⟨e, he, ho⟩ := h
      rcases List.mem_cons.mp he with rfl | he
      · exact ⟨_, List.mem_cons_self, ho⟩
      · obtain ⟨d', hd', ho'⟩ := ih ps (by simpa using hlen) ⟨e, he, ho⟩
        exact ⟨d', List.mem_cons_of_mem _ hd', ho'⟩

theorem discsAt_mem (J : EDisc V D → Env V D → DJac β) :
    ∀ (ds : List (EDisc V D)) (ps : List (Env V D)) (d' : Disc β), d' ∈ discsAt J ds ps →
      ∃ d ∈ ds, ∃ p, d'.jac = J d p := by
  intro ds
  induction ds with
  | nil => intro ps d' h; simp [discsAt] at h
  | cons d ds ih =>
    intro ps d' h
    cases ps with
    | nil => simp [discsAt] at h
    | cons p ps =>
      simp only [discsAt] at h
      rcases List.mem_cons.mp h with rfl | h
      · exact ⟨d, List.mem_cons_self, p, rfl⟩
      · obtain ⟨e, he, q, hq⟩ := ih ps d' h
        exact ⟨e, List.mem_cons_of_mem _ he, q, hq⟩

end

/-! ### Concrete processes over integer data (non-vacuity examples and witnesses) -/

/-- Data over two variables (`x = 0`, `a = 1`). -/
def env2 (x a : Int) : Env (Fin 2) Int := fun v => if v = 0 then x else a

/-- `D0: a = 3 x`, `D1: a = a²` (an input that is also an output, non-linear). -/
def inplaceSquare (k : CacheKind) : EChain (Fin 2) Int :=
  { kids := [⟨[0], [1], fun e v => if v = 1 then 3 * e 0 else e v, .simple⟩,
             ⟨[1], [1], fun e v => if v = 1 then e 1 * e 1 else e v, .simple⟩],
    cache := k }

theorem inplaceSquare_local (k : CacheKind) : ∀ d ∈ (inplaceSquare k).kids, d.Local := by
  intro d hd
  simp only [inplaceSquare, List.mem_cons, List.not_mem_nil, or_false] at hd
  rcases hd with rfl | rfl
  · intro a b h v hv
    simp at hv
    subst hv
    have := h 0 (by simp)
    simp [this]
  · intro a b h v hv
    simp at hv
    subst hv
    have := h 1 (by simp)
    simp [this]

end GV.C09
