/-
C08 helper lemmas: the strongly/weakly coupled disciplines and coupling names of
`CouplingStructure`, read off a sequence whose groups are the classes of `mu`.
-/
import GemseoVerif.Lemmas.C08Scc
import GemseoVerif.Lemmas.C08Sort

namespace GV.C08

section
variable {adj mu : Nat → Nat → Bool} {n : Nat}

/-- What the coupling computations need to know about the sequence. -/
structure GroupsOk (mu : Nat → Nat → Bool) (n : Nat) (seq : List (List (List Nat))) : Prop where
  is_class : ∀ g ∈ seq.flatten, ∀ i ∈ g, ∀ j, j ∈ g ↔ mu i j = true
  covers : ∀ i, i < n → ∃ g ∈ seq.flatten, i ∈ g
  nodup : ∀ g ∈ seq.flatten, g.Nodup
  refl : ∀ i, i < n → mu i i = true
  lt : ∀ i j, mu i j = true → i < n ∧ j < n

theorem groupsOk_sequenceOf (h : IsMutual adj mu n) : GroupsOk mu n (sequenceOf adj mu n) where
  is_class := fun _ hg _ hi j => group_is_class h hg hi j
  covers := fun _ hi => exists_group h hi
  nodup := fun _ hg => (group_sorted hg).imp (fun h => Nat.ne_of_lt h)
  refl := fun _ hi => h.refl hi
  lt := fun _ _ hm => ⟨h.lt_left hm, h.lt_right hm⟩

variable {ds : List Disc} {seq : List (List (List Nat))}

theorem mem_stronglyCoupledGroups {G : List Nat} {addSelf : Bool} :
    G ∈ stronglyCoupledGroups ds seq addSelf ↔
      ∃ g ∈ seq.flatten, (g.length > 1 ∧ G = g) ∨
        (¬ g.length > 1 ∧ addSelf = true ∧ ∃ d ∈ g, selfCoupledAt ds d = true ∧ G = [d]) := by
  unfold stronglyCoupledGroups
  simp only [List.mem_flatMap, List.mem_flatten]
  constructor
  · rintro ⟨stage, hstage, g, hg, hG⟩
    refine ⟨g, ⟨stage, hstage, hg⟩, ?_⟩
    split at hG
    · rename_i hlen; left; exact ⟨hlen, by simpa using hG⟩
    · rename_i hlen
      split at hG
      · rename_i hself
        right
        simp only [List.mem_flatMap] at hG
        obtain ⟨d, hd, hdG⟩ := hG
        split at hdG
        · rename_i hsc; exact ⟨hlen, hself, d, hd, hsc, by simpa using hdG⟩
        · simp at hdG
      · simp at hG
  · rintro ⟨g, ⟨stage, hstage, hg⟩, hcase⟩
    refine ⟨stage, hstage, g, hg, ?_⟩
    rcases hcase with ⟨hlen, rfl⟩ | ⟨hlen, hself, d, hd, hsc, rfl⟩
    · simp [hlen]
    · rw [if_neg hlen, if_pos hself]
      simp only [List.mem_flatMap]
      exact ⟨d, hd, by simp [hsc]⟩

theorem selfCoupledAt_iff {i : Nat} :
    selfCoupledAt ds i = true ↔
      ∃ v, v ∈ outputsAt ds i ∧ v ∈ inputsAt ds i ∧ v ∉ statesAt ds i := by
  unfold selfCoupledAt outputsAt inputsAt statesAt
  cases ds[i]? with
  | none => simp
  | some d =>
    simp only [selfCoupled, List.any_eq_true, List.contains_eq_mem, decide_eq_true_eq,
      Bool.and_eq_true, Bool.not_eq_true', decide_eq_false_iff_not]
    constructor
    · rintro ⟨v, h1, h2, h3⟩; exact ⟨v, h2, h1, h3⟩
    · rintro ⟨v, h1, h2, h3⟩; exact ⟨v, h2, h1, h3⟩

/-- A group of length `≤ 1` with a member is the singleton of that member. -/
theorem eq_singleton_of_length {g : List Nat} (hlen : ¬ g.length > 1) {d : Nat} (hd : d ∈ g) :
    g = [d] := by
  match g, hlen, hd with
  | [x], _, hd => simp at hd; rw [hd]
  | _ :: _ :: _, hlen, _ => simp at hlen

/-- A list with two different members has length `> 1`. -/
theorem length_gt_one_of_two {g : List Nat} {i k : Nat} (hi : i ∈ g) (hk : k ∈ g) (hne : k ≠ i) :
    g.length > 1 := by
  match g, hi, hk with
  | [x], hi, hk =>
    simp only [List.mem_singleton] at hi hk
    exact absurd (hk.trans hi.symm) hne
  | _ :: _ :: _, _, _ => simp

/-- A duplicate-free list of length `> 1` has, beside any member, another member. -/
theorem exists_other_member {g : List Nat} (hnd : g.Nodup) (hlen : g.length > 1) {i : Nat}
    (hi : i ∈ g) : ∃ j ∈ g, j ≠ i := by
  match g, hlen, hi, hnd with
  | x :: y :: rest, _, _, hnd =>
    by_cases hx : x = i
    · subst hx
      refine ⟨y, by simp, ?_⟩
      intro hyx
      rw [List.nodup_cons] at hnd
      exact hnd.1 (by simp [hyx])
    · exact ⟨x, by simp, hx⟩

/-- `strongly_coupled_disciplines`: the disciplines on a cycle (in a class with another
    discipline, or feeding themselves). -/
theorem mem_stronglyCoupled (hok : GroupsOk mu n seq) {i : Nat} :
    i ∈ stronglyCoupled ds seq true ↔
      i < n ∧ ((∃ j, j ≠ i ∧ mu i j = true) ∨ selfCoupledAt ds i = true) := by
  unfold stronglyCoupled
  simp only [List.mem_flatten]
  constructor
  · rintro ⟨G, hG, hiG⟩
    obtain ⟨g, hg, hcase⟩ := mem_stronglyCoupledGroups.1 hG
    rcases hcase with ⟨hlen, rfl⟩ | ⟨_, _, d, hd, hsc, rfl⟩
    · have hin : i < n := (hok.lt _ _ ((hok.is_class _ hg i hiG i).1 hiG)).1
      obtain ⟨j, hj, hji⟩ := exists_other_member (hok.nodup _ hg) hlen hiG
      exact ⟨hin, Or.inl ⟨j, hji, (hok.is_class _ hg i hiG j).1 hj⟩⟩
    · simp only [List.mem_singleton] at hiG
      subst hiG
      have hin : i < n := (hok.lt _ _ ((hok.is_class _ hg i hd i).1 hd)).1
      exact ⟨hin, Or.inr hsc⟩
  · rintro ⟨hin, hcase⟩
    obtain ⟨g, hg, hig⟩ := hok.covers i hin
    by_cases hlen : g.length > 1
    · exact ⟨g, mem_stronglyCoupledGroups.2 ⟨g, hg, Or.inl ⟨hlen, rfl⟩⟩, hig⟩
    · have hgi := eq_singleton_of_length hlen hig
      rcases hcase with ⟨j, hji, hij⟩ | hsc
      · exfalso
        have hjg : j ∈ g := (hok.is_class g hg i hig j).2 hij
        rw [hgi] at hjg
        exact hji (by simpa using hjg)
      · exact ⟨[i], mem_stronglyCoupledGroups.2 ⟨g, hg, Or.inr ⟨hlen, rfl, i, hig, hsc, rfl⟩⟩,
          by simp⟩

/-- `strong_couplings`: the names exchanged inside a class of mutual reachability by strongly
    coupled disciplines (including the names such a discipline feeds back to itself). -/
theorem mem_strongCouplings (hok : GroupsOk mu n seq) {v : String} :
    v ∈ strongCouplings ds seq ↔
      ∃ i j, mu i j = true ∧ v ∈ outputsAt ds i ∧ v ∈ inputsAt ds j ∧
        i ∈ stronglyCoupled ds seq true := by
  unfold strongCouplings
  rw [mem_sortDedup]
  simp only [List.mem_flatMap, List.mem_filter, List.contains_eq_mem, decide_eq_true_eq]
  constructor
  · rintro ⟨G, hG, ⟨j, hj, hvj⟩, ⟨i, hi, hvi⟩⟩
    have hisc : i ∈ stronglyCoupled ds seq true := by
      unfold stronglyCoupled; exact List.mem_flatten.2 ⟨G, hG, hi⟩
    obtain ⟨g, hg, hcase⟩ := mem_stronglyCoupledGroups.1 hG
    rcases hcase with ⟨_, rfl⟩ | ⟨_, _, d, hd, _, rfl⟩
    · exact ⟨i, j, (hok.is_class _ hg i hi j).1 hj, hvi, hvj, hisc⟩
    · simp only [List.mem_singleton] at hi hj
      rw [hi] at hvi hisc
      rw [hj] at hvj
      have hm := (hok.is_class g hg d hd d).1 hd
      exact ⟨d, d, hm, hvi, hvj, hisc⟩
  · rintro ⟨i, j, hij, hvi, hvj, hisc⟩
    obtain ⟨g, hg, hig⟩ := hok.covers i (hok.lt _ _ hij).1
    have hjg : j ∈ g := (hok.is_class g hg i hig j).2 hij
    by_cases hlen : g.length > 1
    · exact ⟨g, mem_stronglyCoupledGroups.2 ⟨g, hg, Or.inl ⟨hlen, rfl⟩⟩, ⟨j, hjg, hvj⟩, ⟨i, hig, hvi⟩⟩
    · have hgi := eq_singleton_of_length hlen hig
      have hji : j = i := by rw [hgi] at hjg; simpa using hjg
      subst hji
      have hsc : selfCoupledAt ds j = true := by
        rcases ((mem_stronglyCoupled hok).1 hisc).2 with ⟨k, hkj, hjk⟩ | hsc
        · exfalso
          exact hlen (length_gt_one_of_two hig ((hok.is_class g hg j hig k).2 hjk) hkj)
        · exact hsc
      refine ⟨[j], mem_stronglyCoupledGroups.2 ⟨g, hg, Or.inr ⟨hlen, rfl, j, hig, hsc, rfl⟩⟩, ?_, ?_⟩
      · exact ⟨j, by simp, hvj⟩
      · exact ⟨j, by simp, hvi⟩

/-- `weakly_coupled_disciplines`: the disciplines that are on no cycle. -/
theorem mem_weaklyCoupled (hok : GroupsOk mu n seq) {i : Nat} :
    i ∈ weaklyCoupled ds seq ↔
      i < n ∧ (∀ j, mu i j = true → j = i) ∧ selfCoupledAt ds i = false := by
  unfold weaklyCoupled
  simp only [List.mem_flatMap]
  constructor
  · rintro ⟨stage, hstage, g, hg, hi⟩
    have hgf : g ∈ seq.flatten := List.mem_flatten.2 ⟨stage, hstage, hg⟩
    split at hi
    · rename_i d
      split at hi
      · rename_i hsc
        simp only [List.mem_singleton] at hi
        subst hi
        have hcl := hok.is_class _ hgf i (by simp)
        have hin : i < n := (hok.lt _ _ ((hcl i).1 (by simp))).1
        refine ⟨hin, ?_, by simpa using hsc⟩
        intro j hij
        have := (hcl j).2 hij
        simpa using this
      · simp at hi
    · simp at hi
  · rintro ⟨hin, honly, hsc⟩
    obtain ⟨g, hg, hig⟩ := hok.covers i hin
    obtain ⟨stage, hstage, hgs⟩ := List.mem_flatten.1 hg
    refine ⟨stage, hstage, g, hgs, ?_⟩
    have hgi : g = [i] := by
      have hnd := hok.nodup _ hg
      have hall : ∀ j ∈ g, j = i := fun j hj => honly j ((hok.is_class g hg i hig j).1 hj)
      match g, hig, hnd, hall with
      | [x], hig, _, _ => simp at hig; rw [hig]
      | x :: y :: rest, _, hnd, hall =>
        exfalso
        have hx := hall x (by simp)
        have hy := hall y (by simp)
        rw [List.nodup_cons] at hnd
        exact hnd.1 (by simp [hx, hy])
    rw [hgi]
    simp [hsc]

/-- `weak_couplings`: the outputs of the disciplines that are on no cycle. -/
theorem mem_weakCouplings (hok : GroupsOk mu n seq) {v : String} :
    v ∈ weakCouplings ds seq ↔
      ∃ i, i < n ∧ (∀ j, mu i j = true → j = i) ∧ selfCoupledAt ds i = false ∧
        v ∈ outputsAt ds i := by
  unfold weakCouplings
  rw [mem_sortDedup]
  simp only [List.mem_flatMap, mem_weaklyCoupled hok]
  constructor
  · rintro ⟨i, ⟨h1, h2, h3⟩, hv⟩; exact ⟨i, h1, h2, h3, hv⟩
  · rintro ⟨i, h1, h2, h3, hv⟩; exact ⟨i, ⟨h1, h2, h3⟩, hv⟩

end

/-- `all_couplings`: the names that are an output of a discipline and an input of a discipline. -/
theorem mem_allCouplings {ds : List Disc} {v : String} :
    v ∈ allCouplings ds ↔ ∃ a ∈ ds, ∃ b ∈ ds, v ∈ a.outputs ∧ v ∈ b.inputs := by
  unfold allCouplings
  rw [mem_sortDedup]
  simp only [List.mem_filter, List.mem_flatMap, List.contains_eq_mem, decide_eq_true_eq]
  constructor
  · rintro ⟨⟨b, hb, hvb⟩, ⟨a, ha, hva⟩⟩; exact ⟨a, ha, b, hb, hva, hvb⟩
  · rintro ⟨a, ha, b, hb, hva, hvb⟩; exact ⟨⟨b, hb, hvb⟩, ⟨a, ha, hva⟩⟩

end GV.C08
