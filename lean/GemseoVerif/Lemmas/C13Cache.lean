/-
C13 — helper lemmas about the shared full cache with outputs and Jacobians (`JCache`,
`jCacheOutputs`, `jCacheJacobian`, `jRun` of `Model/C13.lean`): how one atomic write changes
every look-up, the keys, and `_last_accessed_index`.
-/
import GemseoVerif.Model.C13

set_option linter.unusedSimpArgs false
set_option linter.unusedSectionVars false
set_option linter.unusedVariables false

namespace GV.C13

variable {κ ν γ : Type} [DecidableEq κ]

/-! ### Searching and modifying the entry list -/

theorem jLookup_nil (x : κ) : jLookup ([] : List (JEntry κ ν γ)) x = none := rfl

theorem jLookup_cons (e : JEntry κ ν γ) (es : List (JEntry κ ν γ)) (x : κ) :
    jLookup (e :: es) x = if e.key = x then some e else jLookup es x := by
  simp only [jLookup, List.find?_cons]
  by_cases h : e.key = x <;> simp [h]

theorem jLookup_key {es : List (JEntry κ ν γ)} {x : κ} {e : JEntry κ ν γ}
    (h : jLookup es x = some e) : e.key = x := by
  induction es with
  | nil => simp [jLookup_nil] at h
  | cons a as ih =>
    rw [jLookup_cons] at h
    by_cases ha : a.key = x
    · simp [ha] at h; subst h; exact ha
    · simp [ha] at h; exact ih h

theorem idxOfKey_none_iff (es : List (JEntry κ ν γ)) (x : κ) :
    idxOfKey es x = none ↔ jLookup es x = none := by
  induction es with
  | nil => simp [idxOfKey, jLookup_nil]
  | cons a as ih =>
    rw [jLookup_cons]
    by_cases ha : a.key = x
    · simp [idxOfKey, ha]
    · simp [idxOfKey, ha, ih]

theorem idxOfKey_some {es : List (JEntry κ ν γ)} {x : κ} {i : Nat} (h : idxOfKey es x = some i) :
    ∃ e, es[i]? = some e ∧ e.key = x ∧ jLookup es x = some e := by
  induction es generalizing i with
  | nil => simp [idxOfKey] at h
  | cons a as ih =>
    rw [jLookup_cons]
    by_cases ha : a.key = x
    · simp [idxOfKey, ha] at h
      subst h
      exact ⟨a, by simp, ha, by simp [ha]⟩
    · simp only [idxOfKey, ha, if_false, Option.map_eq_some_iff] at h
      obtain ⟨j, hj, rfl⟩ := h
      obtain ⟨e, he, hk, hl⟩ := ih hj
      exact ⟨e, by simpa using he, hk, by simp [ha, hl]⟩

theorem idxOfKey_lt {es : List (JEntry κ ν γ)} {x : κ} {i : Nat} (h : idxOfKey es x = some i) :
    i < es.length := by
  obtain ⟨e, he, _, _⟩ := idxOfKey_some h
  exact (List.getElem?_eq_some_iff.mp he).1

theorem jLookup_modifyAt (f : JEntry κ ν γ → JEntry κ ν γ) (hf : ∀ e, (f e).key = e.key)
    {es : List (JEntry κ ν γ)} {x : κ} {i : Nat} (h : idxOfKey es x = some i) (y : κ) :
    jLookup (modifyAt f es i) y = if y = x then (jLookup es x).map f else jLookup es y := by
  induction es generalizing i with
  | nil => simp [idxOfKey] at h
  | cons a as ih =>
    by_cases ha : a.key = x
    · simp [idxOfKey, ha] at h
      subst h
      simp only [modifyAt, jLookup_cons, hf, ha]
      by_cases hy : y = x
      · subst hy; simp
      · have : ¬ x = y := fun h => hy h.symm
        simp [hy, this]
    · simp only [idxOfKey, ha, if_false, Option.map_eq_some_iff] at h
      obtain ⟨j, hj, rfl⟩ := h
      simp only [modifyAt, jLookup_cons, ha, if_false]
      rw [ih hj]
      by_cases hy : y = x
      · subst hy; simp [ha]
      · simp [hy]

theorem keys_modifyAt (f : JEntry κ ν γ → JEntry κ ν γ) (hf : ∀ e, (f e).key = e.key)
    (es : List (JEntry κ ν γ)) (i : Nat) :
    (modifyAt f es i).map (·.key) = es.map (·.key) := by
  induction es generalizing i with
  | nil => rfl
  | cons a as ih =>
    cases i with
    | zero => simp [modifyAt, hf]
    | succ i => simp [modifyAt, ih]

theorem modifyAt_append_length (f : JEntry κ ν γ → JEntry κ ν γ) (es : List (JEntry κ ν γ))
    (e : JEntry κ ν γ) : modifyAt f (es ++ [e]) es.length = es ++ [f e] := by
  induction es with
  | nil => rfl
  | cons a as ih => simp [modifyAt, ih]

theorem getElem?_modifyAt_self (f : JEntry κ ν γ → JEntry κ ν γ) (es : List (JEntry κ ν γ)) (i : Nat) :
    (modifyAt f es i)[i]? = (es[i]?).map f := by
  induction es generalizing i with
  | nil => simp [modifyAt]
  | cons a as ih =>
    cases i with
    | zero => simp [modifyAt]
    | succ i => simp [modifyAt, ih]

theorem jLookup_append (es : List (JEntry κ ν γ)) (e : JEntry κ ν γ) (y : κ) :
    jLookup (es ++ [e]) y =
      match jLookup es y with
      | some r => some r
      | none => if e.key = y then some e else none := by
  induction es with
  | nil => simp [jLookup_nil, jLookup_cons]
  | cons a as ih =>
    simp only [List.cons_append, jLookup_cons]
    by_cases ha : a.key = y
    · simp [ha]
    · simp [ha, ih]

theorem mem_lookup_of_nodup {es : List (JEntry κ ν γ)} (hn : (es.map (·.key)).Nodup)
    {e : JEntry κ ν γ} (he : e ∈ es) : jLookup es e.key = some e := by
  induction es with
  | nil => cases he
  | cons a as ih =>
    rw [jLookup_cons]
    simp only [List.map_cons, List.nodup_cons, List.mem_map, not_exists, not_and] at hn
    rcases List.mem_cons.mp he with rfl | h
    · simp
    · have : a.key ≠ e.key := fun hk => hn.1 e h hk.symm
      simp [this, ih hn.2 h]

/-! ### One atomic write -/

/-- The outputs are written only if the entry has none (`_has_group`). -/
def fillOut (v : ν) (e : JEntry κ ν γ) : JEntry κ ν γ :=
  { e with out := match e.out with | some o => some o | none => some v }

def fillJac (j : γ) (e : JEntry κ ν γ) : JEntry κ ν γ :=
  { e with jac := match e.jac with | some o => some o | none => some j }

def blankE (x : κ) : JEntry κ ν γ := { key := x, out := none, jac := none }

theorem jLookup_jCacheOutputs (c : JCache κ ν γ) (x : κ) (v : ν) (y : κ) :
    jLookup (jCacheOutputs c x v).entries y =
      if y = x then some (fillOut v ((jLookup c.entries x).getD (blankE x))) else jLookup c.entries y := by
  unfold jCacheOutputs jEnsure
  cases h : idxOfKey c.entries x with
  | none =>
    have hl := (idxOfKey_none_iff _ _).mp h
    simp only [Bool.not_true, Bool.false_and, Bool.false_eq_true, if_false, Nat.add_sub_cancel]
    rw [modifyAt_append_length, jLookup_append]
    by_cases hy : y = x
    · subst hy
      simp [hl, fillOut, blankE]
    · have : ¬ x = y := fun h => hy h.symm
      simp [hy, this]
      cases jLookup c.entries y <;> rfl
  | some i =>
    obtain ⟨e, he, hk, hl⟩ := idxOfKey_some h
    simp only [Bool.not_false, Bool.true_and, Nat.add_sub_cancel, hasOut, he]
    by_cases ho : e.out.isSome = true
    · simp only [ho, if_true]
      by_cases hy : y = x
      · subst hy
        obtain ⟨o, ho'⟩ := Option.isSome_iff_exists.mp ho
        simp [hl, fillOut, ho']
        cases e; simp_all
      · simp [hy]
    · simp only [ho, Bool.false_eq_true, if_false]
      rw [jLookup_modifyAt _ (by intro e; rfl) h]
      by_cases hy : y = x
      · subst hy
        have : e.out = none := by
          cases h' : e.out with
          | none => rfl
          | some o => simp [h'] at ho
        simp [hl, fillOut, this]
      · simp [hy]

theorem jLookup_jCacheJacobian (c : JCache κ ν γ) (x : κ) (j : γ) (y : κ) :
    jLookup (jCacheJacobian c x j).entries y =
      if y = x then some (fillJac j ((jLookup c.entries x).getD (blankE x))) else jLookup c.entries y := by
  unfold jCacheJacobian jEnsure
  cases h : idxOfKey c.entries x with
  | none =>
    have hl := (idxOfKey_none_iff _ _).mp h
    simp only [Bool.not_true, Bool.false_and, Bool.false_eq_true, if_false, Nat.add_sub_cancel]
    rw [modifyAt_append_length, jLookup_append]
    by_cases hy : y = x
    · subst hy
      simp [hl, fillJac, blankE]
    · have : ¬ x = y := fun h => hy h.symm
      simp [hy, this]
      cases jLookup c.entries y <;> rfl
  | some i =>
    obtain ⟨e, he, hk, hl⟩ := idxOfKey_some h
    simp only [Bool.not_false, Bool.true_and, Nat.add_sub_cancel, hasJac, he]
    by_cases ho : e.jac.isSome = true
    · simp only [ho, if_true]
      by_cases hy : y = x
      · subst hy
        obtain ⟨o, ho'⟩ := Option.isSome_iff_exists.mp ho
        simp [hl, fillJac, ho']
        cases e; simp_all
      · simp [hy]
    · simp only [ho, Bool.false_eq_true, if_false]
      rw [jLookup_modifyAt _ (by intro e; rfl) h]
      by_cases hy : y = x
      · subst hy
        have : e.jac = none := by
          cases h' : e.jac with
          | none => rfl
          | some o => simp [h'] at ho
        simp [hl, fillJac, this]
      · simp [hy]

/-- Keys after a write: a new key is appended, an existing one changes nothing. -/
theorem keys_jCacheOutputs (c : JCache κ ν γ) (x : κ) (v : ν) :
    (jCacheOutputs c x v).entries.map (·.key) =
      if x ∈ c.entries.map (·.key) then c.entries.map (·.key) else c.entries.map (·.key) ++ [x] := by
  have hmem : x ∈ c.entries.map (·.key) ↔ idxOfKey c.entries x ≠ none := by
    rw [Ne, idxOfKey_none_iff]
    constructor
    · intro hx
      obtain ⟨e, he, hk⟩ := List.mem_map.mp hx
      intro hn
      have := List.find?_eq_none.mp hn e he
      simp [hk] at this
    · intro hn
      obtain ⟨e, he⟩ := Option.ne_none_iff_exists'.mp hn
      exact List.mem_map.mpr ⟨e, List.mem_of_find?_eq_some he, jLookup_key he⟩
  unfold jCacheOutputs jEnsure
  cases h : idxOfKey c.entries x with
  | none =>
    have : x ∉ c.entries.map (·.key) := by rw [hmem]; simp [h]
    simp only [Bool.not_true, Bool.false_and, Bool.false_eq_true, if_false, Nat.add_sub_cancel, this]
    rw [keys_modifyAt _ (by intro e; rfl)]
    simp
  | some i =>
    have : x ∈ c.entries.map (·.key) := by rw [hmem]; simp [h]
    simp only [Bool.not_false, Bool.true_and, Nat.add_sub_cancel, this, if_true]
    split
    · rfl
    · rw [keys_modifyAt _ (by intro e; rfl)]

theorem keys_jCacheJacobian (c : JCache κ ν γ) (x : κ) (j : γ) :
    (jCacheJacobian c x j).entries.map (·.key) =
      if x ∈ c.entries.map (·.key) then c.entries.map (·.key) else c.entries.map (·.key) ++ [x] := by
  have hmem : x ∈ c.entries.map (·.key) ↔ idxOfKey c.entries x ≠ none := by
    rw [Ne, idxOfKey_none_iff]
    constructor
    · intro hx
      obtain ⟨e, he, hk⟩ := List.mem_map.mp hx
      intro hn
      have := List.find?_eq_none.mp hn e he
      simp [hk] at this
    · intro hn
      obtain ⟨e, he⟩ := Option.ne_none_iff_exists'.mp hn
      exact List.mem_map.mpr ⟨e, List.mem_of_find?_eq_some he, jLookup_key he⟩
  unfold jCacheJacobian jEnsure
  cases h : idxOfKey c.entries x with
  | none =>
    have : x ∉ c.entries.map (·.key) := by rw [hmem]; simp [h]
    simp only [Bool.not_true, Bool.false_and, Bool.false_eq_true, if_false, Nat.add_sub_cancel, this]
    rw [keys_modifyAt _ (by intro e; rfl)]
    simp
  | some i =>
    have : x ∈ c.entries.map (·.key) := by rw [hmem]; simp [h]
    simp only [Bool.not_false, Bool.true_and, Nat.add_sub_cancel, this, if_true]
    split
    · rfl
    · rw [keys_modifyAt _ (by intro e; rfl)]

theorem nodup_keys_jApply (f : κ → ν) (g : κ → γ) (c : JCache κ ν γ) (op : COp κ)
    (hn : (c.entries.map (·.key)).Nodup) : ((jApply f g c op).entries.map (·.key)).Nodup := by
  cases op with
  | out x =>
    simp only [jApply]
    rw [keys_jCacheOutputs]
    split
    · exact hn
    · rename_i hx
      exact List.nodup_append.mpr ⟨hn, by simp, by
        intro a ha b hb
        simp at hb; subst hb
        intro hab; subst hab; exact hx ha⟩
  | jac x =>
    simp only [jApply]
    rw [keys_jCacheJacobian]
    split
    · exact hn
    · rename_i hx
      exact List.nodup_append.mpr ⟨hn, by simp, by
        intro a ha b hb
        simp at hb; subst hb
        intro hab; subst hab; exact hx ha⟩

theorem nodup_keys_jRun (f : κ → ν) (g : κ → γ) (c : JCache κ ν γ) (ops : List (COp κ))
    (hn : (c.entries.map (·.key)).Nodup) : ((jRun f g c ops).entries.map (·.key)).Nodup := by
  induction ops generalizing c with
  | nil => exact hn
  | cons op ops ih => exact ih _ (nodup_keys_jApply f g c op hn)

/-- After a write for `x`, `_last_accessed_index` designates the entry of `x`. -/
theorem last_jEnsure (c : JCache κ ν γ) (x : κ) :
    ((jEnsure c x).1.entries[(jEnsure c x).1.last - 1]?).map (·.key) = some x := by
  unfold jEnsure
  cases h : idxOfKey c.entries x with
  | none => simp
  | some i =>
    obtain ⟨e, he, hk, _⟩ := idxOfKey_some h
    simp [he, hk]

theorem last_jCacheOutputs (c : JCache κ ν γ) (x : κ) (v : ν) :
    ((jCacheOutputs c x v).entries[(jCacheOutputs c x v).last - 1]?).map (·.key) = some x := by
  have h := last_jEnsure c x
  unfold jCacheOutputs
  simp only []
  split
  · exact h
  · simp only [getElem?_modifyAt_self, Option.map_map]
    exact h

theorem last_jCacheJacobian (c : JCache κ ν γ) (x : κ) (j : γ) :
    ((jCacheJacobian c x j).entries[(jCacheJacobian c x j).last - 1]?).map (·.key) = some x := by
  have h := last_jEnsure c x
  unfold jCacheJacobian
  simp only []
  split
  · exact h
  · simp only [getElem?_modifyAt_self, Option.map_map]
    exact h

/-! ### Any interleaving of honest writes -/

/-- What the cache must hold for `y` after the writes `W`: the outputs of `y` iff some worker
    cached outputs for `y`, the Jacobian of `y` iff some worker cached a Jacobian for `y`. -/
def jSpec (f : κ → ν) (g : κ → γ) (W : List (COp κ)) (y : κ) : Option (JEntry κ ν γ) :=
  if COp.out y ∈ W ∨ COp.jac y ∈ W then
    some { key := y,
           out := if COp.out y ∈ W then some (f y) else none,
           jac := if COp.jac y ∈ W then some (g y) else none }
  else none

theorem jSpec_step (f : κ → ν) (g : κ → γ) (c : JCache κ ν γ) (W : List (COp κ)) (op : COp κ)
    (h : ∀ y, jLookup c.entries y = jSpec f g W y) (y : κ) :
    jLookup (jApply f g c op).entries y = jSpec f g (W ++ [op]) y := by
  cases op with
  | out x =>
    simp only [jApply]
    rw [jLookup_jCacheOutputs, h x]
    by_cases hy : y = x
    · subst hy
      by_cases h1 : COp.out y ∈ W <;> by_cases h2 : COp.jac y ∈ W <;>
        simp [jSpec, h1, h2, fillOut, blankE]
    · have hne : ¬ x = y := fun h => hy h.symm
      simp [hy, h y, jSpec, hne]
  | jac x =>
    simp only [jApply]
    rw [jLookup_jCacheJacobian, h x]
    by_cases hy : y = x
    · subst hy
      by_cases h1 : COp.out y ∈ W <;> by_cases h2 : COp.jac y ∈ W <;>
        simp [jSpec, h1, h2, fillJac, blankE]
    · have hne : ¬ x = y := fun h => hy h.symm
      simp [hy, h y, jSpec, hne]

theorem jSpec_run (f : κ → ν) (g : κ → γ) (c : JCache κ ν γ) (W ops : List (COp κ))
    (h : ∀ y, jLookup c.entries y = jSpec f g W y) (y : κ) :
    jLookup (jRun f g c ops).entries y = jSpec f g (W ++ ops) y := by
  induction ops generalizing c W with
  | nil => simpa [jRun] using h y
  | cons op ops ih =>
    simp only [jRun]
    have := ih (jApply f g c op) (W ++ [op]) (fun y => jSpec_step f g c W op h y)
    simpa using this

end GV.C13
