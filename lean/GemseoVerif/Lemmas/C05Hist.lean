/-
Helper lemmas for C05: lifting the facts about the full caches (index invariant, "never
overwritten", run log) from the cache operations to `execute`, `linearize`, `step` and histories.
-/
import GemseoVerif.Lemmas.C05Index

namespace GV.C05

/-! ### How `execute` / `linearize` / `step` change the full cache -/

section transfer

variable {P : Full → Prop} {R : Vals → Nat → Prop}

theorem cacheStoreOutputs_full {cfg : Cfg} {st : State} {x : Vals} {h : Nat} {xc oc : List Cell}
    (hso : ∀ f heap, P f → P (f.storeOutputs heap x h xc oc)) (hP : P st.full) :
    P (cacheStoreOutputs cfg st x h xc oc).full := by
  unfold cacheStoreOutputs
  cases cfg.kind with
  | none => exact hP
  | simple => exact hP
  | memory sh => exact hso _ _ hP
  | hdf5 => exact hso _ _ hP

theorem cacheStoreJac_full {cfg : Cfg} {st : State} {x : Vals} {h : Nat} {xc : List Cell} {j : Jac}
    (hsj : ∀ f heap, P f → P (f.storeJac heap x h xc j)) (hP : P st.full) :
    P (cacheStoreJac cfg st x h xc j).full := by
  unfold cacheStoreJac
  cases cfg.kind with
  | none => exact hP
  | simple => exact hP
  | memory sh => exact hsj _ _ hP
  | hdf5 => exact hsj _ _ hP

theorem execute_full {cfg : Cfg} {d : Disc} {st : State} {xs : List (Arr × Option Nat)} {h : Nat}
    (hcow : cfg.cow = true) (hcoh : cfg.coh = true)
    (hso : ∀ f heap oc, P f →
      P (f.storeOutputs heap (xs.map (·.1)) h ((xs.map (·.1)).map Cell.val) oc))
    (hsj : ∀ f heap j, P f →
      P (f.storeJac heap (xs.map (·.1)) h ((xs.map (·.1)).map Cell.val) j))
    (hP : P st.full) : P (execute cfg d st xs h).1.full := by
  have hxc : ∀ heap, inputCells cfg true heap xs = (xs.map (·.1)).map Cell.val :=
    fun heap => inputCells_eq hcow true heap xs
  unfold execute
  simp only []
  split_ifs
  · unfold execHit
    simp only [hcoh, if_true]
    exact hP
  · unfold execMiss
    simp only [cow_byRef hcow, Bool.false_eq_true, if_false, hxc]
    have h2 : P (missState cfg d { st with hasJac := false } xs).full := by
      rw [(missState_fields cfg d _ xs).2.1]; exact hP
    have h3 := cacheStoreOutputs_full (cfg := cfg) (x := xs.map (·.1)) (h := h)
      (xc := (xs.map (·.1)).map Cell.val) (oc := (d.run (xs.map (·.1))).map Cell.val)
      (fun f heap hf => hso f heap _ hf) h2
    split_ifs
    · exact cacheStoreJac_full (fun f heap hf => hsj f heap _ hf) h3
    · exact h3

theorem linTail_full {cfg : Cfg} {d : Disc} {st1 : State} {all : Bool}
    {xs : List (Arr × Option Nat)} {h : Nat} (hcow : cfg.cow = true)
    (hsj : ∀ f heap j, P f →
      P (f.storeJac heap (xs.map (·.1)) h ((xs.map (·.1)).map Cell.val) j))
    (hP : P st1.full) : P (linTail cfg d st1 all xs h).1.full := by
  have hxc : ∀ heap, inputCells cfg false heap xs = (xs.map (·.1)).map Cell.val :=
    fun heap => inputCells_eq hcow false heap xs
  unfold linTail
  split_ifs
  · exact hP
  · unfold linCompute
    simp only [hxc]
    exact cacheStoreJac_full (fun f heap hf => hsj f heap _ hf) hP

theorem linearize_full {cfg : Cfg} {d : Disc} {st : State} {all exe : Bool}
    {xs : List (Arr × Option Nat)} {h : Nat}
    (hcow : cfg.cow = true) (hcoh : cfg.coh = true)
    (hso : ∀ f heap oc, P f →
      P (f.storeOutputs heap (xs.map (·.1)) h ((xs.map (·.1)).map Cell.val) oc))
    (hsj : ∀ f heap j, P f →
      P (f.storeJac heap (xs.map (·.1)) h ((xs.map (·.1)).map Cell.val) j))
    (hP : P st.full) : P (linearize cfg d st all exe xs h).1.full := by
  unfold linearize
  by_cases he : linEarly cfg all = true
  · simp only [he, if_true]; exact hP
  · simp only [he, Bool.false_eq_true, if_false]
    apply linTail_full hcow hsj
    cases exe with
    | true => exact execute_full hcow hcoh hso hsj hP
    | false => exact hP

/-- The only ways a step changes the full cache: `cache_outputs` / `cache_jacobian` for the prepared
    inputs of the call (with the hash it carries), `reopen`, `clear`. -/
theorem step_full {cfg : Cfg} {d : Disc} {st : State} (op : Op)
    (hcow : cfg.cow = true) (hcoh : cfg.coh = true)
    (hso : ∀ f heap x h oc, R x h → P f → P (f.storeOutputs heap x h (x.map Cell.val) oc))
    (hsj : ∀ f heap x h j, R x h → P f → P (f.storeJac heap x h (x.map Cell.val) j))
    (hre : ∀ f, P f → P f.reopen)
    (hcl : op = .clear → P {})
    (hR : ∀ args h xs, (op = .exec args h ∨ ∃ all exe, op = .lin all exe args h) →
      prepare cfg st args = some xs → R (xs.map (·.1)) h)
    (hP : P st.full) : P (step cfg d st op).1.full := by
  cases op with
  | new id v => exact hP
  | modify id v =>
    simp only [step]
    split
    · split_ifs <;> exact hP
    · exact hP
  | keep id name =>
    simp only [step]
    split <;> exact hP
  | exec args h =>
    simp only [step]
    split
    · exact hP
    · rename_i xs hp
      have hr := hR args h xs (Or.inl rfl) hp
      exact execute_full hcow hcoh (fun f heap oc hf => hso f heap _ h oc hr hf)
        (fun f heap j hf => hsj f heap _ h j hr hf) hP
  | lin all exe args h =>
    simp only [step]
    split
    · exact hP
    · rename_i xs hp
      have hr := hR args h xs (Or.inr ⟨all, exe, rfl⟩) hp
      exact linearize_full hcow hcoh (fun f heap oc hf => hso f heap _ h oc hr hf)
        (fun f heap j hf => hsj f heap _ h j hr hf) hP
  | reopen =>
    simp only [step]
    split
    · exact hre _ hP
    · exact hP
  | clear => exact hcl rfl

end transfer

/-! ### Histories whose calls carry the hash of their inputs -/

/-- The operation carries the hash `hf x` of the inputs `x` it is called with. -/
def OpHashOK (hf : Vals → Nat) (cfg : Cfg) (st : State) (op : Op) : Prop :=
  ∀ args h xs, (op = .exec args h ∨ ∃ all exe, op = .lin all exe args h) →
    prepare cfg st args = some xs → h = hf (xs.map (·.1))

/-- Every call of the history carries the hash of its inputs (the hash function is arbitrary). -/
def HistHashOK (hf : Vals → Nat) (cfg : Cfg) (d : Disc) : State → List Op → Prop
  | _, [] => True
  | st, op :: ops => OpHashOK hf cfg st op ∧ HistHashOK hf cfg d (step cfg d st op).1 ops

theorem step_idx {hf : Vals → Nat} {cfg : Cfg} {d : Disc} {st : State} (op : Op)
    (hcow : cfg.cow = true) (hcoh : cfg.coh = true) (hop : OpHashOK hf cfg st op)
    (hI : IdxInv hf st.full) : IdxInv hf (step cfg d st op).1.full :=
  step_full (P := IdxInv hf) (R := fun x h => h = hf x) op hcow hcoh
    (fun _ _ _ _ _ hr hf => storeOutputs_idx hf hr (allVal_map_val _) (vals_map_val _))
    (fun _ _ _ _ _ hr hf => storeJac_idx hf hr (allVal_map_val _) (vals_map_val _))
    (fun _ hf => reopen_idx hf) (fun _ => idxInv_empty hf) hop hI

theorem reachFrom_idx {hf : Vals → Nat} {cfg : Cfg} {d : Disc} (ops : List Op) (st : State)
    (hcow : cfg.cow = true) (hcoh : cfg.coh = true) (hops : HistHashOK hf cfg d st ops)
    (hI : IdxInv hf st.full) : IdxInv hf (reachFrom cfg d st ops).full := by
  induction ops generalizing st with
  | nil => exact hI
  | cons op ops ih =>
    unfold reachFrom
    simp only [List.foldl_cons]
    exact ih _ hops.2 (step_idx op hcow hcoh hops.1 hI)

/-- No step other than `clear` overwrites or drops an entry. -/
theorem step_ext {cfg : Cfg} {d : Disc} {st : State} (op : Op)
    (hcow : cfg.cow = true) (hcoh : cfg.coh = true) (hnc : op ≠ .clear) :
    Ext st.full (step cfg d st op).1.full :=
  step_full (P := Ext st.full) (R := fun _ _ => True) op hcow hcoh
    (fun _ _ _ _ _ _ hf => hf.trans (storeOutputs_ext _ _ _ _ _ _))
    (fun _ _ _ _ _ _ hf => hf.trans (storeJac_ext _ _ _ _ _ _))
    (fun _ hf => hf) (fun h => absurd h hnc) (fun _ _ _ _ _ => trivial) (Ext.refl _)

/-! ### The run log of a full cache with exact matching -/

/-- Every input the body was run on has an entry with outputs. -/
def Logged (f : Full) (rl : List Vals) : Prop :=
  ∀ x ∈ rl, ∃ i e, f.entry? i = some e ∧ vals e.inputs = x ∧ e.outputs.isSome = true

theorem Logged.ext {f f' : Full} {rl : List Vals} (h : Logged f rl) (he : Ext f f') :
    Logged f' rl := by
  intro x hx
  obtain ⟨i, e, h1, h2, h3⟩ := h x hx
  obtain ⟨e', a1, a2, _, a4, _⟩ := he i e h1
  refine ⟨i, e', a1, by rw [a2]; exact h2, ?_⟩
  cases ho : e.outputs with
  | none => simp [ho] at h3
  | some oc => rw [a4 oc ho]; rfl

/-- State invariant of the run-count theorem. -/
structure RunInv (hf : Vals → Nat) (d : Disc) (st : State) : Prop where
  inv : Inv d st
  idx : IdxInv hf st.full
  logged : Logged st.full st.runLog
  nodup : st.runLog.Nodup

def Kind.isFull : Kind → Bool
  | .memory _ => true
  | .hdf5 => true
  | _ => false

theorem cacheGet_full {cfg : Cfg} (hk : cfg.kind.isFull = true) (st : State) (x : Vals) (h : Nat) :
    cacheGet cfg st x h =
      match st.full.lookup st.heap cfg.tol x h with
      | some i =>
        (match st.full.entry? i with
         | some e => (e.outputs.getD [], e.jac.getD [])
         | none => ([], []))
      | none => ([], []) := by
  unfold cacheGet
  cases hkk : cfg.kind with
  | none => simp [hkk, Kind.isFull] at hk
  | simple => simp [hkk, Kind.isFull] at hk
  | memory sh => rfl
  | hdf5 => rfl

/-- An input that was already run hits: the body is not run again. -/
theorem execute_logged_hit {hf : Vals → Nat} {cfg : Cfg} {d : Disc} {st : State}
    {xs : List (Arr × Option Nat)} {h : Nat}
    (hk : cfg.kind.isFull = true) (ht : cfg.tol = 0) (hcoh : cfg.coh = true)
    (hout : ∀ x, d.run x ≠ []) (hh : h = hf (xs.map (·.1))) (hK : RunInv hf d st)
    (hx : xs.map (·.1) ∈ st.runLog) :
    (execute cfg d st xs h).1.runLog = st.runLog ∧ (execute cfg d st xs h).1.full = st.full := by
  obtain ⟨i, e, he, hv, ho⟩ := hK.logged _ hx
  have hl : st.full.lookup st.heap cfg.tol (xs.map (·.1)) h = some i := by
    rw [ht, hh, ← hv]; exact lookup_finds hK.idx st.heap he
  have hok := hK.inv.full e (entry?_mem he)
  cases hoc : e.outputs with
  | none => simp [hoc] at ho
  | some oc =>
    obtain ⟨_, h2, _⟩ := hok.outOK oc hoc
    have hne : oc ≠ [] := by
      intro hnil
      rw [hnil] at h2
      exact hout _ h2.symm
    have hg : (cacheGet cfg { st with hasJac := false } (xs.map (·.1)) h).1 = oc := by
      rw [cacheGet_full hk]
      simp only [hl, he, hoc, Option.getD_some]
    have hkn : (cfg.kind != Kind.none) = true := by
      cases hkk : cfg.kind <;> simp_all [Kind.isFull]
    unfold execute
    simp only []
    have hcond : (cfg.kind != Kind.none &&
        !(cacheGet cfg { st with hasJac := false } (xs.map (·.1)) h).1.isEmpty) = true := by
      rw [hg, hkn]
      cases oc with
      | nil => exact absurd rfl hne
      | cons _ _ => rfl
    simp only [hcond, if_true]
    unfold execHit
    simp only [hcoh, if_true]
    exact ⟨trivial, trivial⟩

theorem execMiss_runLog (cfg : Cfg) (d : Disc) (st : State) (xs : List (Arr × Option Nat)) (h : Nat) :
    (execMiss cfg d st xs h).1.runLog = st.runLog ++ [xs.map (·.1)] := by
  unfold execMiss
  simp only []
  split_ifs <;>
    first
      | rw [(cacheStoreJac_fields _ _ _ _ _ _).1, (cacheStoreOutputs_fields _ _ _ _ _ _).1,
          (missState_fields cfg d st xs).2.2.1]
      | rw [(cacheStoreOutputs_fields _ _ _ _ _ _).1, (missState_fields cfg d st xs).2.2.1]

/-- After a miss the entry of the input has outputs. -/
theorem execMiss_logged {cfg : Cfg} {d : Disc} {st : State} {xs : List (Arr × Option Nat)} {h : Nat}
    (hk : cfg.kind.isFull = true) (hcow : cfg.cow = true) (hinv : Inv d st) :
    ∃ i e, (execMiss cfg d st xs h).1.full.entry? i = some e ∧ vals e.inputs = xs.map (·.1) ∧
      e.outputs.isSome = true := by
  have hxc : ∀ heap, inputCells cfg true heap xs = (xs.map (·.1)).map Cell.val :=
    fun heap => inputCells_eq hcow true heap xs
  have hf2 : FullOK d st.runLog st.jacLog (missState cfg d st xs).full := by
    rw [(missState_fields cfg d st xs).2.1]; exact hinv.full
  obtain ⟨i, e, h1, h2, h3⟩ := storeOutputs_has (heap := (missState cfg d st xs).heap)
    (x := xs.map (·.1)) (h := h) (xc := (xs.map (·.1)).map Cell.val)
    (oc := (d.run (xs.map (·.1))).map Cell.val) hf2 (vals_map_val _)
  have hs3 : (cacheStoreOutputs cfg (missState cfg d st xs) (xs.map (·.1)) h
      ((xs.map (·.1)).map Cell.val) ((d.run (xs.map (·.1))).map Cell.val)).full =
      (missState cfg d st xs).full.storeOutputs (missState cfg d st xs).heap (xs.map (·.1)) h
        ((xs.map (·.1)).map Cell.val) ((d.run (xs.map (·.1))).map Cell.val) := by
    unfold cacheStoreOutputs
    cases hkk : cfg.kind with
    | none => simp [hkk, Kind.isFull] at hk
    | simple => simp [hkk, Kind.isFull] at hk
    | memory sh => rfl
    | hdf5 => rfl
  unfold execMiss
  simp only [cow_byRef hcow, Bool.false_eq_true, if_false, hxc]
  split_ifs
  · have hext : Ext (cacheStoreOutputs cfg (missState cfg d st xs) (xs.map (·.1)) h
        ((xs.map (·.1)).map Cell.val) ((d.run (xs.map (·.1))).map Cell.val)).full
        (cacheStoreJac cfg (cacheStoreOutputs cfg (missState cfg d st xs) (xs.map (·.1)) h
          ((xs.map (·.1)).map Cell.val) ((d.run (xs.map (·.1))).map Cell.val)) (xs.map (·.1)) h
          ((xs.map (·.1)).map Cell.val)
          (cacheStoreOutputs cfg (missState cfg d st xs) (xs.map (·.1)) h
            ((xs.map (·.1)).map Cell.val) ((d.run (xs.map (·.1))).map Cell.val)).dJac).full :=
      cacheStoreJac_full (P := Ext _) (fun f heap hf => hf.trans (storeJac_ext _ _ _ _ _ _))
        (Ext.refl _)
    rw [hs3] at hext
    obtain ⟨e', a1, a2, _, a4, _⟩ := hext i e h1
    refine ⟨i, e', a1, by rw [a2]; exact h2, ?_⟩
    cases ho : e.outputs with
    | none => simp [ho] at h3
    | some oc => rw [a4 oc ho]; rfl
  · rw [hs3]; exact ⟨i, e, h1, h2, h3⟩

theorem execute_runInv {hf : Vals → Nat} {cfg : Cfg} {d : Disc} {st : State}
    {xs : List (Arr × Option Nat)} {h : Nat}
    (hk : cfg.kind.isFull = true) (ht : cfg.tol = 0) (hcow : cfg.cow = true)
    (hcoh : cfg.coh = true) (hout : ∀ x, d.run x ≠ []) (hh : h = hf (xs.map (·.1)))
    (hK : RunInv hf d st) : RunInv hf d (execute cfg d st xs h).1 := by
  have hinv' := (execute_post (xs := xs) (h := h) hcow hcoh hK.inv).inv
  have hidx' : IdxInv hf (execute cfg d st xs h).1.full :=
    execute_full (P := IdxInv hf) hcow hcoh
      (fun _ _ _ hf => storeOutputs_idx hf hh (allVal_map_val _) (vals_map_val _))
      (fun _ _ _ hf => storeJac_idx hf hh (allVal_map_val _) (vals_map_val _)) hK.idx
  have hext : Ext st.full (execute cfg d st xs h).1.full :=
    execute_full (P := Ext st.full) hcow hcoh
      (fun _ _ _ hf => hf.trans (storeOutputs_ext _ _ _ _ _ _))
      (fun _ _ _ hf => hf.trans (storeJac_ext _ _ _ _ _ _)) (Ext.refl _)
  by_cases hx : xs.map (·.1) ∈ st.runLog
  · obtain ⟨h1, h2⟩ := execute_logged_hit hk ht hcoh hout hh hK hx
    exact ⟨hinv', hidx', by rw [h1, h2]; exact hK.logged, by rw [h1]; exact hK.nodup⟩
  · -- not run yet: either a hit on an entry (no run) or a miss (one run, on a new input)
    have hinv0 : Inv d { st with hasJac := false } := hK.inv.of_eq rfl rfl rfl rfl
    by_cases hhit : (cfg.kind != Kind.none &&
        !(cacheGet cfg { st with hasJac := false } (xs.map (·.1)) h).1.isEmpty) = true
    · have hrl : (execute cfg d st xs h).1.runLog = st.runLog := by
        unfold execute
        simp only [hhit, if_true]
        unfold execHit
        simp only [hcoh, if_true]
      exact ⟨hinv', hidx', by rw [hrl]; exact hK.logged.ext hext, by rw [hrl]; exact hK.nodup⟩
    · have hex : execute cfg d st xs h = execMiss cfg d { st with hasJac := false } xs h := by
        unfold execute
        simp only [hhit, Bool.false_eq_true, if_false]
      have hrl : (execute cfg d st xs h).1.runLog = st.runLog ++ [xs.map (·.1)] := by
        rw [hex, execMiss_runLog]
      refine ⟨hinv', hidx', ?_, ?_⟩
      · rw [hrl]
        intro y hy
        rcases List.mem_append.mp hy with hy | hy
        · exact hK.logged.ext hext y hy
        · simp at hy; subst hy
          rw [hex]
          exact execMiss_logged hk hcow hinv0
      · rw [hrl]
        exact List.nodup_append.mpr ⟨hK.nodup, by simp, by
          intro a ha b hb
          simp at hb; subst hb
          intro hab; subst hab; exact hx ha⟩

theorem linTail_runInv {hf : Vals → Nat} {cfg : Cfg} {d : Disc} {st1 : State} {all : Bool}
    {xs : List (Arr × Option Nat)} {h : Nat} (hcow : cfg.cow = true)
    (hh : h = hf (xs.map (·.1))) (h1 : RunInv hf d st1) :
    RunInv hf d (linTail cfg d st1 all xs h).1 := by
  have hxc : ∀ heap, inputCells cfg false heap xs = (xs.map (·.1)).map Cell.val :=
    fun heap => inputCells_eq hcow false heap xs
  unfold linTail
  split_ifs
  · exact h1
  · have hpost := linCompute_post (cfg := cfg) (d := d) (all := all) (xs := xs) (h := h) hcow h1.inv
    have hrl : (linCompute cfg d st1 all xs h).1.runLog = st1.runLog := by
      unfold linCompute
      simp only []
      rw [(cacheStoreJac_fields _ _ _ _ _ _).1]
    refine ⟨hpost.inv, ?_, ?_, ?_⟩
    · unfold linCompute
      simp only [hxc]
      exact cacheStoreJac_full (P := IdxInv hf)
        (fun f heap hf' => storeJac_idx hf' hh (allVal_map_val _) (vals_map_val _)) h1.idx
    · rw [hrl]
      apply h1.logged.ext
      unfold linCompute
      simp only []
      exact cacheStoreJac_full (P := Ext _) (fun f heap hf' => hf'.trans (storeJac_ext _ _ _ _ _ _))
        (Ext.refl _)
    · rw [hrl]; exact h1.nodup

theorem linearize_runInv {hf : Vals → Nat} {cfg : Cfg} {d : Disc} {st : State} {all exe : Bool}
    {xs : List (Arr × Option Nat)} {h : Nat}
    (hk : cfg.kind.isFull = true) (ht : cfg.tol = 0) (hcow : cfg.cow = true)
    (hcoh : cfg.coh = true) (hout : ∀ x, d.run x ≠ []) (hh : h = hf (xs.map (·.1)))
    (hK : RunInv hf d st) : RunInv hf d (linearize cfg d st all exe xs h).1 := by
  unfold linearize
  by_cases he : linEarly cfg all = true
  · simp only [he, if_true]
    exact ⟨hK.inv.of_eq rfl rfl rfl rfl, hK.idx, hK.logged, hK.nodup⟩
  · simp only [he, Bool.false_eq_true, if_false]
    apply linTail_runInv hcow hh
    cases exe with
    | true => exact execute_runInv hk ht hcow hcoh hout hh hK
    | false => exact hK

theorem step_runInv {hf : Vals → Nat} {cfg : Cfg} {d : Disc} {st : State} (op : Op)
    (hk : cfg.kind.isFull = true) (ht : cfg.tol = 0) (hcow : cfg.cow = true)
    (hcoh : cfg.coh = true) (hout : ∀ x, d.run x ≠ []) (hop : OpHashOK hf cfg st op)
    (hnc : op ≠ .clear) (hK : RunInv hf d st) : RunInv hf d (step cfg d st op).1 := by
  cases op with
  | new id v => exact ⟨hK.inv.of_eq rfl rfl rfl rfl, hK.idx, hK.logged, hK.nodup⟩
  | modify id v =>
    simp only [step]
    split
    · split_ifs
      · exact ⟨hK.inv.of_eq rfl rfl rfl rfl, hK.idx, hK.logged, hK.nodup⟩
      · exact hK
    · exact hK
  | keep id name =>
    simp only [step]
    split
    · exact ⟨hK.inv.of_eq rfl rfl rfl rfl, hK.idx, hK.logged, hK.nodup⟩
    · exact hK
  | exec args h =>
    simp only [step]
    split
    · exact hK
    · rename_i xs hp
      exact execute_runInv hk ht hcow hcoh hout (hop args h xs (Or.inl rfl) hp) hK
  | lin all exe args h =>
    simp only [step]
    split
    · exact hK
    · rename_i xs hp
      exact linearize_runInv hk ht hcow hcoh hout (hop args h xs (Or.inr ⟨all, exe, rfl⟩) hp) hK
  | reopen =>
    simp only [step]
    split
    · exact ⟨⟨hK.inv.simple, fun e he => hK.inv.full e he⟩, reopen_idx hK.idx,
        fun x hx => hK.logged x hx, hK.nodup⟩
    · exact hK
  | clear => exact absurd rfl hnc

theorem reachFrom_runInv {hf : Vals → Nat} {cfg : Cfg} {d : Disc} (ops : List Op) (st : State)
    (hk : cfg.kind.isFull = true) (ht : cfg.tol = 0) (hcow : cfg.cow = true)
    (hcoh : cfg.coh = true) (hout : ∀ x, d.run x ≠ []) (hops : HistHashOK hf cfg d st ops)
    (hnc : Op.clear ∉ ops) (hK : RunInv hf d st) : RunInv hf d (reachFrom cfg d st ops) := by
  induction ops generalizing st with
  | nil => exact hK
  | cons op ops ih =>
    unfold reachFrom
    simp only [List.foldl_cons]
    have hne : op ≠ .clear := fun hc => hnc (by simp [hc])
    exact ih _ hops.2 (fun hc => hnc (List.mem_cons_of_mem _ hc))
      (step_runInv op hk ht hcow hcoh hout hops.1 hne hK)

/-! ### The run counter is the length of the run log -/

theorem cacheStore_nRun (cfg : Cfg) (st : State) (x : Vals) (h : Nat) (xc oc : List Cell) (j : Jac) :
    (cacheStoreOutputs cfg st x h xc oc).nRun = st.nRun ∧
    (cacheStoreJac cfg st x h xc j).nRun = st.nRun := by
  unfold cacheStoreOutputs cacheStoreJac
  cases cfg.kind <;> simp

theorem missState_nRun (cfg : Cfg) (d : Disc) (st : State) (xs : List (Arr × Option Nat)) :
    (missState cfg d st xs).nRun = st.nRun + 1 := by
  unfold missState
  split_ifs <;> rfl

theorem execute_nRun {cfg : Cfg} {d : Disc} {st : State} {xs : List (Arr × Option Nat)} {h : Nat}
    (hcoh : cfg.coh = true) (hn : st.nRun = st.runLog.length) :
    (execute cfg d st xs h).1.nRun = (execute cfg d st xs h).1.runLog.length := by
  unfold execute
  simp only []
  split_ifs
  · unfold execHit
    simp only [hcoh, if_true]
    exact hn
  · rw [execMiss_runLog]
    unfold execMiss
    simp only []
    split_ifs <;>
      simp only [(cacheStore_nRun _ _ _ _ _ [] _).2, (cacheStore_nRun _ _ _ _ _ _ []).1,
        missState_nRun, List.length_append, List.length_singleton] <;> exact congrArg (· + 1) hn

theorem linTail_nRun {cfg : Cfg} {d : Disc} {st1 : State} {all : Bool}
    {xs : List (Arr × Option Nat)} {h : Nat} (hn : st1.nRun = st1.runLog.length) :
    (linTail cfg d st1 all xs h).1.nRun = (linTail cfg d st1 all xs h).1.runLog.length := by
  unfold linTail
  split_ifs
  · exact hn
  · unfold linCompute
    simp only [(cacheStore_nRun _ _ _ _ _ [] _).2, (cacheStoreJac_fields _ _ _ _ _ _).1]
    exact hn

theorem step_nRun {cfg : Cfg} {d : Disc} {st : State} (op : Op) (hcoh : cfg.coh = true)
    (hn : st.nRun = st.runLog.length) :
    (step cfg d st op).1.nRun = (step cfg d st op).1.runLog.length := by
  cases op with
  | new id v => exact hn
  | modify id v =>
    simp only [step]
    split
    · split_ifs <;> exact hn
    · exact hn
  | keep id name =>
    simp only [step]
    split <;> exact hn
  | exec args h =>
    simp only [step]
    split
    · exact hn
    · exact execute_nRun hcoh hn
  | lin all exe args h =>
    simp only [step]
    split
    · exact hn
    · unfold linearize
      simp only []
      split_ifs
      · exact hn
      · exact linTail_nRun (execute_nRun hcoh hn)
      · exact linTail_nRun hn
  | reopen =>
    simp only [step]
    split <;> exact hn
  | clear => exact hn

theorem reachFrom_nRun {cfg : Cfg} {d : Disc} (ops : List Op) (st : State) (hcoh : cfg.coh = true)
    (hn : st.nRun = st.runLog.length) :
    (reachFrom cfg d st ops).nRun = (reachFrom cfg d st ops).runLog.length := by
  induction ops generalizing st with
  | nil => exact hn
  | cons op ops ih =>
    unfold reachFrom
    simp only [List.foldl_cons]
    exact ih _ (step_nRun op hcoh hn)

theorem reachFrom_ext {cfg : Cfg} {d : Disc} (ops : List Op) (st : State)
    (hcow : cfg.cow = true) (hcoh : cfg.coh = true) (hnc : Op.clear ∉ ops) :
    Ext st.full (reachFrom cfg d st ops).full := by
  induction ops generalizing st with
  | nil => exact Ext.refl _
  | cons op ops ih =>
    unfold reachFrom
    simp only [List.foldl_cons]
    have hne : op ≠ .clear := fun hc => hnc (by simp [hc])
    exact (step_ext op hcow hcoh hne).trans (ih _ (fun hc => hnc (List.mem_cons_of_mem _ hc)))

/-! ### The entry written by an execution that runs the body (in-place bodies included) -/

theorem execHit_nRun {cfg : Cfg} {st : State} {x : Vals} {h : Nat} {oc : List Cell} {cj : Jac}
    (hcoh : cfg.coh = true) : (execHit cfg st x h oc cj).1.nRun = st.nRun := by
  unfold execHit
  simp only [hcoh, if_true]

/-- An execution either hits (the body does not run, the run counter is unchanged) or is `execMiss`. -/
theorem execute_cases {cfg : Cfg} {d : Disc} {st : State} {xs : List (Arr × Option Nat)} {h : Nat}
    (hcoh : cfg.coh = true) :
    (execute cfg d st xs h).1.nRun = st.nRun ∨
      execute cfg d st xs h = execMiss cfg d { st with hasJac := false } xs h := by
  unfold execute
  simp only []
  split_ifs
  · left; exact execHit_nRun hcoh
  · right; trivial

/-- After a miss with a full cache, the cache has an entry whose inputs are the values the input
    arrays had **before** the body ran, and whose outputs are the outputs of the body at these
    values — whatever the body wrote into its input arrays (`d.wr` is arbitrary). -/
theorem execMiss_entry {cfg : Cfg} {d : Disc} {st : State} {xs : List (Arr × Option Nat)} {h : Nat}
    (hk : cfg.kind.isFull = true) (hcow : cfg.cow = true) (hinv : Inv d st)
    (hj0 : st.hasJac = false) :
    ∃ i e oc, (execMiss cfg d st xs h).1.full.entry? i = some e ∧ vals e.inputs = xs.map (·.1) ∧
      e.outputs = some oc ∧ vals oc = d.run (xs.map (·.1)) := by
  obtain ⟨i, e, h1, h2, h3⟩ := execMiss_logged (xs := xs) (h := h) hk hcow hinv
  have hinv' := (execMiss_post (xs := xs) (h := h) hcow hinv hj0).inv
  have hok := hinv'.full e (entry?_mem h1)
  cases ho : e.outputs with
  | none => simp [ho] at h3
  | some oc =>
    obtain ⟨_, hv, _⟩ := hok.outOK oc ho
    exact ⟨i, e, oc, h1, h2, ho, by rw [hv, h2]⟩

theorem simple_storeOutputs_inputs {heap : List Arr} {s : Simple} {x : Vals} {xc oc : List Cell}
    (hs : AllVal s.inputs) (hxv : vals xc = x) : vals (s.storeOutputs heap x xc oc).inputs = x := by
  unfold Simple.storeOutputs
  split
  · rename_i hc
    have hx0 := isCached_zero hs hc
    split <;> exact hx0.symm
  · exact hxv

theorem simple_storeJac_inputs {heap : List Arr} {s : Simple} {x : Vals} {xc : List Cell} {j : Jac}
    (hs : AllVal s.inputs) (hxv : vals xc = x) : vals (s.storeJac heap x xc j).inputs = x := by
  unfold Simple.storeJac
  split
  · rename_i hc
    have hx0 := isCached_zero hs hc
    split <;> exact hx0.symm
  · exact hxv

/-- After a miss with a `SimpleCache`, the stored inputs are the values the input arrays had before
    the body ran, and the stored outputs (if any) are the outputs of the body at these values. -/
theorem execMiss_simple_entry {cfg : Cfg} {d : Disc} {st : State} {xs : List (Arr × Option Nat)}
    {h : Nat} (hk : cfg.kind = .simple) (hcow : cfg.cow = true) (hinv : Inv d st)
    (hj0 : st.hasJac = false) :
    vals (execMiss cfg d st xs h).1.simple.inputs = xs.map (·.1) ∧
      ((execMiss cfg d st xs h).1.simple.outputs ≠ [] →
        vals (execMiss cfg d st xs h).1.simple.outputs = d.run (xs.map (·.1))) := by
  have hinv' := (execMiss_post (xs := xs) (h := h) hcow hinv hj0).inv
  have hin : vals (execMiss cfg d st xs h).1.simple.inputs = xs.map (·.1) := by
    have hxe := inputCells_eq hcow true (missState cfg d st xs).heap xs
    have hm : AllVal (missState cfg d st xs).simple.inputs := by
      rw [(missState_fields cfg d st xs).1]; exact hinv.simple.inVal
    unfold execMiss
    simp only [cow_byRef hcow, Bool.false_eq_true, if_false, hxe]
    have h3 : vals (cacheStoreOutputs cfg (missState cfg d st xs) (xs.map (·.1)) h
        ((xs.map (·.1)).map Cell.val) ((d.run (xs.map (·.1))).map Cell.val)).simple.inputs =
        xs.map (·.1) := by
      unfold cacheStoreOutputs
      simp only [hk]
      exact simple_storeOutputs_inputs hm (vals_map_val _)
    have hv3 : AllVal (cacheStoreOutputs cfg (missState cfg d st xs) (xs.map (·.1)) h
        ((xs.map (·.1)).map Cell.val) ((d.run (xs.map (·.1))).map Cell.val)).simple.inputs := by
      unfold cacheStoreOutputs
      simp only [hk]
      unfold Simple.storeOutputs
      split
      · split <;> exact hm
      · exact allVal_map_val _
    split_ifs
    · unfold cacheStoreJac
      simp only [hk]
      exact simple_storeJac_inputs hv3 (vals_map_val _)
    · exact h3
  refine ⟨hin, fun hne => ?_⟩
  rw [(hinv'.simple.outOK hne).1, hin]

end GV.C05
