/-
C10 — the order-dependent nodes over ℝ: positive sum of squares, max, convex linearisation.
Their Jacobians in the model are the exact derivatives wherever the functions are differentiable.
-/
import GemseoVerif.Lemmas.C10Agg
import Mathlib.Analysis.Calculus.Deriv.Slope
import Mathlib.Analysis.Calculus.Deriv.Comp
import Mathlib.Analysis.Asymptotics.Lemmas
import Mathlib.Topology.Order.Basic
import Mathlib.Topology.Algebra.Order.Group
import Mathlib.Analysis.SpecialFunctions.Pow.Real
import Mathlib.Tactic.Linarith

namespace GV.C10

open Filter Topology

/-! ### `w ↦ w² H(w)` is continuously differentiable -/

/-- `w^2 heaviside(w, 0)`: the summand of the positive sum of squares. -/
noncomputable def posSq (w : ℝ) : ℝ := w * w * heavi w

theorem heavi_pos {w : ℝ} (h : 0 < w) : heavi w = 1 := by simp [heavi, h]

theorem heavi_nonpos {w : ℝ} (h : w ≤ 0) : heavi w = 0 := by simp [heavi, not_lt.2 h]

theorem posSq_hasDerivAt (w : ℝ) : HasDerivAt posSq ((1 + 1) * w * heavi w) w := by
  rcases lt_trichotomy w 0 with hw | hw | hw
  · -- identically 0 near w
    have hev : posSq =ᶠ[𝓝 w] fun _ => (0 : ℝ) := by
      filter_upwards [gt_mem_nhds hw] with z hz
      simp [posSq, heavi_nonpos hz.le]
    have := (hasDerivAt_const w (0 : ℝ)).congr_of_eventuallyEq hev
    simpa [heavi_nonpos hw.le] using this
  · subst hw
    rw [hasDerivAt_iff_isLittleO_nhds_zero]
    simp only [zero_add, heavi_nonpos (le_refl (0 : ℝ)), mul_zero, smul_zero, sub_zero]
    have h0 : posSq 0 = 0 := by simp [posSq]
    simp only [h0, sub_zero]
    rw [Asymptotics.isLittleO_iff]
    intro c hc
    filter_upwards [Metric.ball_mem_nhds (0 : ℝ) hc] with h hh
    have hh' : |h| < c := by simpa [Real.dist_eq] using hh
    have hle : |heavi h| ≤ 1 := by
      unfold heavi; split <;> simp
    calc ‖posSq h‖ = |h| * |h| * |heavi h| := by simp [posSq]
      _ ≤ |h| * |h| * 1 := by gcongr
      _ ≤ c * |h| := by nlinarith [abs_nonneg h]
      _ = c * ‖h‖ := by simp
  · have hev : posSq =ᶠ[𝓝 w] fun z => z * z := by
      filter_upwards [lt_mem_nhds hw] with z hz
      simp [posSq, heavi_pos hz]
    have h1 : HasDerivAt (fun z : ℝ => z * z) (1 * w + w * 1) w :=
      HasDerivAt.fun_mul (hasDerivAt_id w) (hasDerivAt_id w)
    have := h1.congr_of_eventuallyEq hev
    refine this.congr_deriv ?_
    rw [heavi_pos hw]; ring

/-- `aggregate_positive_sum_square`: exact derivative of `sum_k scale_k g_k^2 H(g_k)`, at every
    point (the function is continuously differentiable). -/
theorem aggPosSumSq_den {n M : ℕ} {x : ℕ → ℝ} {d : DV ℝ} {F : (ℕ → ℝ) → ℕ → ℝ}
    (h : Den n x d F M) (idx : Option (List ℕ)) (scale : List ℝ)
    (hsel : ∀ k, k < selLen idx M → selIdx idx k < M) :
    Den n x (aggPosSumSq d idx scale)
      (fun y _ => sumTo (selLen idx M)
        (fun k => vec scale (bi scale.length k) * posSq (F y (selIdx idx k)))) 1 := by
  refine ⟨rfl, fun i _ => ⟨?_, fun v => ?_⟩⟩
  · simp only [aggPosSumSq, h.dim, posSq]
    exact sumTo_congr (fun k hk => by rw [h.val_eq (hsel k hk)]; ring)
  · have hd := hasDerivAt_sumTo (selLen idx M)
      (fun k t => vec scale (bi scale.length k) * posSq (F (x + t • v) (selIdx idx k)))
      (fun k => vec scale (bi scale.length k) *
        ((1 + 1) * F x (selIdx idx k) * heavi (F x (selIdx idx k)) * rowDot n (d.jac (selIdx idx k)) v)) 0
      (fun k hk => by
        have hk' := h.deriv (hsel k hk) v
        have hc := (posSq_hasDerivAt (F (x + (0 : ℝ) • v) (selIdx idx k))).comp (0 : ℝ) hk'
        refine (hc.const_mul _).congr_deriv ?_
        simp only [zero_smul, add_zero])
    refine hd.congr_deriv ?_
    simp only [aggPosSumSq, rowDot, h.dim]
    have e : (fun j => sumTo (selLen idx M) (fun k =>
          (1 + 1) * vec scale (bi scale.length k) * d.val (selIdx idx k) * heavi (d.val (selIdx idx k))
            * d.jac (selIdx idx k) j) * v j)
        = fun j => sumTo (selLen idx M) (fun k =>
          (1 + 1) * vec scale (bi scale.length k) * d.val (selIdx idx k) * heavi (d.val (selIdx idx k))
            * (d.jac (selIdx idx k) j * v j)) := by
      funext j
      rw [← sumTo_mul_right]
      exact sumTo_congr (fun k _ => by ring)
    rw [e, sumTo_comm]
    refine sumTo_congr (fun k hk => ?_)
    rw [sumTo_mul_left, ← h.val_eq (hsel k hk)]
    ring

/-! ### Maximum -/

/-- The maximum of `g 0 .. g (K-1)` (`K >= 1`). -/
noncomputable def maxTo : ℕ → (ℕ → ℝ) → ℝ
  | 0, _ => 0
  | 1, g => g 0
  | k + 2, g => max (maxTo (k + 1) g) (g (k + 1))

theorem argmaxTo_lt (g : ℕ → ℝ) : ∀ k, argmaxTo (k + 1) g < k + 1 := by
  intro k
  induction k with
  | zero => simp [argmaxTo]
  | succ k ih =>
    simp only [argmaxTo]
    split <;> omega

theorem maxTo_eq_argmax (g : ℕ → ℝ) : ∀ k, maxTo (k + 1) g = g (argmaxTo (k + 1) g) := by
  intro k
  induction k with
  | zero => simp [maxTo, argmaxTo]
  | succ k ih =>
    simp only [maxTo, argmaxTo, ih]
    split
    · rename_i hlt; exact max_eq_right hlt.le
    · rename_i hnl; exact max_eq_left (not_lt.1 hnl)

theorem le_maxTo (g : ℕ → ℝ) : ∀ k j, j < k + 1 → g j ≤ maxTo (k + 1) g := by
  intro k
  induction k with
  | zero => intro j hj; have : j = 0 := by omega
            subst this; simp [maxTo]
  | succ k ih =>
    intro j hj
    simp only [maxTo]
    by_cases h : j = k + 1
    · subst h; exact le_max_right _ _
    · exact le_trans (ih j (by omega)) (le_max_left _ _)

theorem argmaxTo_congr {g g' : ℕ → ℝ} : ∀ k, (∀ j, j < k + 1 → g j = g' j) →
    argmaxTo (k + 1) g = argmaxTo (k + 1) g' := by
  intro k
  induction k with
  | zero => intro _; simp [argmaxTo]
  | succ k ih =>
    intro h
    have ih' := ih (fun j hj => h j (by omega))
    simp only [argmaxTo, ih']
    have hb : argmaxTo (k + 1) g' < k + 1 := argmaxTo_lt g' k
    rw [h _ (by omega), h (k + 1) (by omega)]

/-- Where one value strictly dominates the others, the maximum is that value. -/
theorem maxTo_eq_of_strict (g : ℕ → ℝ) (k b : ℕ) (hb : b < k + 1)
    (h : ∀ j, j < k + 1 → j ≠ b → g j < g b) : maxTo (k + 1) g = g b := by
  apply le_antisymm
  · rw [maxTo_eq_argmax]
    by_cases e : argmaxTo (k + 1) g = b
    · rw [e]
    · exact (h _ (argmaxTo_lt g k) e).le
  · exact le_maxTo g k b hb

/-- `aggregate_max`: value `max_k scale_k g_k`; its Jacobian (the scaled row of the first
    maximiser) is the exact derivative wherever the maximiser is unique. -/
theorem aggMax_den {n M : ℕ} {x : ℕ → ℝ} {d : DV ℝ} {F : (ℕ → ℝ) → ℕ → ℝ}
    (h : Den n x d F M) (idx : Option (List ℕ)) (scale : List ℝ) (K' : ℕ)
    (hK : selLen idx M = K' + 1)
    (hsel : ∀ k, k < selLen idx M → selIdx idx k < M)
    (huniq : ∀ k, k < K' + 1 →
      k ≠ argmaxTo (K' + 1) (fun k => F x (selIdx idx k) * vec scale (bi scale.length k)) →
      F x (selIdx idx k) * vec scale (bi scale.length k)
        < F x (selIdx idx (argmaxTo (K' + 1) (fun k => F x (selIdx idx k) * vec scale (bi scale.length k))))
          * vec scale (bi scale.length (argmaxTo (K' + 1) (fun k => F x (selIdx idx k) * vec scale (bi scale.length k))))) :
    Den n x (aggMax d idx scale)
      (fun y _ => maxTo (K' + 1) (fun k => F y (selIdx idx k) * vec scale (bi scale.length k))) 1 := by
  set G : (ℕ → ℝ) → ℕ → ℝ := fun y k => F y (selIdx idx k) * vec scale (bi scale.length k) with hG
  set b := argmaxTo (K' + 1) (G x) with hbdef
  have hb : b < K' + 1 := argmaxTo_lt (G x) K'
  have hgeq : ∀ k, k < K' + 1 → d.val (selIdx idx k) * vec scale (bi scale.length k) = G x k := by
    intro k hk
    simp only [hG]
    rw [h.val_eq (hsel k (by omega))]
  have harg : argmaxTo (K' + 1) (fun k => d.val (selIdx idx k) * vec scale (bi scale.length k)) = b :=
    argmaxTo_congr K' hgeq
  refine ⟨rfl, fun i _ => ⟨?_, fun v => ?_⟩⟩
  · simp only [aggMax, h.dim, hK, harg]
    rw [hgeq b hb, maxTo_eq_argmax]
  · -- near t = 0 the maximum is attained by the same index
    have hcont : ∀ k, k < K' + 1 → ContinuousAt (fun t : ℝ => G (x + t • v) k) 0 := by
      intro k hk
      exact ((h.deriv (hsel k (by omega)) v).mul_const _).continuousAt
    have hev : ∀ᶠ t in 𝓝 (0 : ℝ), ∀ k ∈ Finset.range (K' + 1), k ≠ b → G (x + t • v) k < G (x + t • v) b := by
      rw [Filter.eventually_all_finset]
      intro k hk
      by_cases hkb : k = b
      · exact Filter.Eventually.of_forall (fun t hne => absurd hkb hne)
      · have hk' : k < K' + 1 := Finset.mem_range.1 hk
        have hlt : G (x + (0 : ℝ) • v) k < G (x + (0 : ℝ) • v) b := by
          simpa using huniq k hk' hkb
        have := (hcont k hk').eventually_lt (hcont b hb) hlt
        exact this.mono (fun t ht _ => ht)
    have heq : (fun t : ℝ => maxTo (K' + 1) (G (x + t • v))) =ᶠ[𝓝 0] fun t => G (x + t • v) b := by
      filter_upwards [hev] with t ht
      exact maxTo_eq_of_strict _ K' b hb (fun j hj hne => ht j (Finset.mem_range.2 hj) hne)
    have hdb := (h.deriv (hsel b (by omega)) v).mul_const (vec scale (bi scale.length b))
    have := hdb.congr_of_eventuallyEq heq
    refine this.congr_deriv ?_
    simp only [aggMax, rowDot, h.dim, hK, harg]
    rw [← sumTo_mul_right]
    exact sumTo_congr (fun j _ => by ring)

/-! ### Convex linearisation (`ConvexLinearApprox`) -/

theorem absV_eq_abs (s : ℝ) : absV s = |s| := by
  unfold absV
  split
  · rename_i h; rw [abs_of_neg h]
  · rename_i h; rw [abs_of_nonneg (not_lt.1 h)]

/-- Coefficients of the direct (linear) terms: the derivatives above the sign threshold. -/
noncomputable def clDirect (thr : ℝ) (J0 : ℕ → ℕ → ℝ) (i j : ℕ) : ℝ := if thr < J0 i j then J0 i j else 0

/-- Coefficients of the reciprocal terms: `-d_j f . x̂_j^2` for the derivatives below `-thr`. -/
noncomputable def clRecipr (thr : ℝ) (J0 : ℕ → ℕ → ℝ) (xh : ℕ → ℝ) (i j : ℕ) : ℝ :=
  (-(if thr < - J0 i j then J0 i j else 0)) * (xh j * xh j)

/-- `1 / step` where `|step| > thr`, `0` elsewhere (`__get_steps`). -/
noncomputable def invThr (thr s : ℝ) : ℝ := if thr < absV s then 1 / s else 0

/-- The convex linearisation as the code documents and evaluates it. -/
noncomputable def clFn (n : ℕ) (thr : ℝ) (J0 : ℕ → ℕ → ℝ) (xh : ℕ → ℝ) (mask : ℕ → Bool)
    (F : (ℕ → ℝ) → ℕ → ℝ) : (ℕ → ℝ) → ℕ → ℝ :=
  fun y i => F (mergePt mask xh y) i
    + sumTo n (fun j => if mask j then clDirect thr J0 i j * (y j - xh j) else 0)
    + sumTo n (fun j => if mask j then clRecipr thr J0 xh i j * invThr thr (y j - xh j) else 0)

theorem invThr_hasDerivAt {thr : ℝ} (hthr : 0 ≤ thr) (s : ℝ → ℝ) (s' : ℝ) (hs : HasDerivAt s s' 0)
    (hne : |s 0| ≠ thr) :
    HasDerivAt (fun t => invThr thr (s t)) (-(invThr thr (s 0) * invThr thr (s 0)) * s') 0 := by
  have hcont : ContinuousAt (fun t => |s t|) 0 := hs.continuousAt.abs
  rcases lt_or_gt_of_ne hne with hlt | hgt
  · -- below the threshold: identically 0 near 0
    have hev : (fun t => invThr thr (s t)) =ᶠ[𝓝 0] fun _ => (0 : ℝ) := by
      have : ∀ᶠ t in 𝓝 (0 : ℝ), |s t| < thr := hcont.eventually (gt_mem_nhds hlt)
      filter_upwards [this] with t ht
      simp [invThr, absV_eq_abs, not_lt.2 ht.le]
    have h0 : invThr thr (s 0) = 0 := by simp [invThr, absV_eq_abs, not_lt.2 hlt.le]
    have := (hasDerivAt_const (0 : ℝ) (0 : ℝ)).congr_of_eventuallyEq hev
    simpa [h0] using this
  · have hs0 : s 0 ≠ 0 := by
      intro h0; rw [h0, abs_zero] at hgt; linarith
    have hev : (fun t => invThr thr (s t)) =ᶠ[𝓝 0] fun t => (s t)⁻¹ := by
      have : ∀ᶠ t in 𝓝 (0 : ℝ), thr < |s t| := hcont.eventually (lt_mem_nhds hgt)
      filter_upwards [this] with t ht
      simp [invThr, absV_eq_abs, ht]
    have h0 : invThr thr (s 0) = (s 0)⁻¹ := by simp [invThr, absV_eq_abs, hgt]
    have := (HasDerivAt.fun_inv hs hs0).congr_of_eventuallyEq hev
    refine this.congr_deriv ?_
    rw [h0]; field_simp

/-- `ConvexLinearApprox`: the Jacobian of the model is the exact derivative of the convex
    linearisation at every point off the switching set `|x_j - x̂_j| = thr` of the approximated
    inputs. `fm` is the value/Jacobian of the approximated function at the merged point. -/
theorem convexLin_den {n M : ℕ} {thr : ℝ} (hthr : 0 ≤ thr) (J0 : ℕ → ℕ → ℝ) (xh : ℕ → ℝ)
    (mask : ℕ → Bool) {F : (ℕ → ℝ) → ℕ → ℝ} {x : ℕ → ℝ} {fm : DV ℝ}
    (h : Den n (mergePt mask xh x) fm F M)
    (hreg : ∀ j, j < n → mask j = true → |x j - xh j| ≠ thr) :
    Den n x (convexLin n thr J0 xh mask fm x) (clFn n thr J0 xh mask F) M := by
  refine ⟨h.dim, fun i hi => ⟨?_, fun v => ?_⟩⟩
  · simp only [convexLin, clFn, clDirect, clRecipr, invThr, h.val_eq hi]
  · -- (a) the approximated function at the merged point
    have hmerge : ∀ t : ℝ, mergePt mask xh (x + t • v)
        = mergePt mask xh x + t • (fun j => if mask j then 0 else v j) := by
      intro t; funext j
      by_cases hm : mask j <;> simp [mergePt, hm]
    have ha : HasDerivAt (fun t : ℝ => F (mergePt mask xh (x + t • v)) i)
        (rowDot n (fm.jac i) (fun j => if mask j then 0 else v j)) 0 := by
      have := h.deriv hi (fun j => if mask j then 0 else v j)
      simpa only [hmerge] using this
    -- (b) the direct terms
    have hb := hasDerivAt_sumTo n
      (fun j t => if mask j then clDirect thr J0 i j * ((x + t • v) j - xh j) else 0)
      (fun j => if mask j then clDirect thr J0 i j * v j else 0) 0
      (fun j _ => by
        by_cases hm : mask j
        · simp only [hm, if_true]
          exact ((hasDerivAt_coord x v j).sub_const (xh j)).const_mul _
        · simp only [hm]; exact hasDerivAt_const _ _)
    -- (c) the reciprocal terms
    have hc := hasDerivAt_sumTo n
      (fun j t => if mask j then clRecipr thr J0 xh i j * invThr thr ((x + t • v) j - xh j) else 0)
      (fun j => if mask j then clRecipr thr J0 xh i j
        * (-(invThr thr (x j - xh j) * invThr thr (x j - xh j)) * v j) else 0) 0
      (fun j hj => by
        by_cases hm : mask j
        · simp only [hm, if_true]
          have hs : HasDerivAt (fun t : ℝ => (x + t • v) j - xh j) (v j) 0 :=
            (hasDerivAt_coord x v j).sub_const (xh j)
          have hne : |(fun t : ℝ => (x + t • v) j - xh j) 0| ≠ thr := by
            simpa using hreg j hj hm
          have := invThr_hasDerivAt hthr _ (v j) hs hne
          simpa using this.const_mul (clRecipr thr J0 xh i j)
        · simp only [hm]; exact hasDerivAt_const _ _)
    have hall := (ha.add hb).add hc
    simp only [clFn]
    refine hall.congr_deriv ?_
    simp only [rowDot, convexLin]
    rw [← sumTo_add, ← sumTo_add]
    refine sumTo_congr (fun j _ => ?_)
    by_cases hm : mask j
    · simp only [hm, if_true, clDirect, clRecipr, invThr]; ring
    · simp only [hm]; simp

/-- At the expansion point the convex linearisation takes the value of the function. -/
theorem convexLin_value_at_expansion_point (n : ℕ) (thr : ℝ) (hthr : 0 ≤ thr) (J0 : ℕ → ℕ → ℝ)
    (xh : ℕ → ℝ) (mask : ℕ → Bool) (fm : DV ℝ) (i : ℕ) :
    (convexLin n thr J0 xh mask fm xh).val i = fm.val i := by
  simp only [convexLin]
  have e1 : ∀ j, (if mask j = true then (if thr < J0 i j then J0 i j else 0) * (xh j - xh j) else 0) = (0 : ℝ) := by
    intro j; split <;> simp
  have e2 : ∀ j, (if mask j = true then
      -(if thr < -J0 i j then J0 i j else 0) * (xh j * xh j)
        * (if thr < absV (xh j - xh j) then 1 / (xh j - xh j) else 0) else 0) = (0 : ℝ) := by
    intro j; split <;> simp [absV_eq_abs, not_lt.2 hthr]
  simp only [e1, e2, sumTo_zero_fn, add_zero]

end GV.C10
