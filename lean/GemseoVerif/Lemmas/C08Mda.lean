/-
C08 helper lemmas: `mdaChainEval` (the model of `MDAChain._create_mdo_chain` + `_execute`: stage
after stage, each stage a chain or a parallel chain of its groups) is the sequential execution of
the blocks of the flattened sequence.
-/
import GemseoVerif.Lemmas.C08Par

namespace GV.C08

/-- The process `MDAChain` builds for a group: the discipline itself, or an inner MDA. -/
def blockOfGroup (run : Nat → Block) (requiresMda : List Nat → Bool) (solve : List Nat → Block)
    (g : List Nat) : Block :=
  if requiresMda g then solve g
  else match g with
    | [d] => run d
    | _ => solve g

/-- The process `MDAChain` builds for a stage. -/
def stageEval (run : Nat → Block) (requiresMda : List Nat → Bool) (solve : List Nat → Block)
    (outsOf : List Nat → List String) (parallel : Bool) (stage : List (List Nat)) (e : Env) : Env :=
  match stage with
  | [g] => blockOfGroup run requiresMda solve g e
  | _ =>
    if parallel then
      parEval (stage.map (fun g => (blockOfGroup run requiresMda solve g, outsOf g))) e
    else chainEval (stage.map (blockOfGroup run requiresMda solve)) e

theorem mdaChainEval_nil (run : Nat → Block) (requiresMda : List Nat → Bool)
    (solve : List Nat → Block) (outsOf : List Nat → List String) (parallel : Bool) (e : Env) :
    mdaChainEval [] run requiresMda solve outsOf parallel e = e := rfl

theorem mdaChainEval_cons (st : List (List Nat)) (rest : List (List (List Nat)))
    (run : Nat → Block) (requiresMda : List Nat → Bool)
    (solve : List Nat → Block) (outsOf : List Nat → List String) (parallel : Bool) (e : Env) :
    mdaChainEval (st :: rest) run requiresMda solve outsOf parallel e =
      mdaChainEval rest run requiresMda solve outsOf parallel
        (stageEval run requiresMda solve outsOf parallel st e) := rfl

theorem stageEval_seq (run : Nat → Block) (requiresMda : List Nat → Bool)
    (solve : List Nat → Block) (outsOf : List Nat → List String) (st : List (List Nat)) (e : Env) :
    stageEval run requiresMda solve outsOf false st e =
      chainEval (st.map (blockOfGroup run requiresMda solve)) e := by
  match st with
  | [] => rfl
  | [g] => rfl
  | _ :: _ :: _ => rfl

/-- Sequential tasks: the MDA chain is the chain of the blocks of the flattened sequence. -/
theorem mdaChainEval_seq (seq : List (List (List Nat))) (run : Nat → Block)
    (requiresMda : List Nat → Bool) (solve : List Nat → Block) (outsOf : List Nat → List String)
    (e : Env) :
    mdaChainEval seq run requiresMda solve outsOf false e =
      chainEval (seq.flatten.map (blockOfGroup run requiresMda solve)) e := by
  induction seq generalizing e with
  | nil => rfl
  | cons st rest ih =>
    rw [mdaChainEval_cons, stageEval_seq, ih, List.flatten_cons, List.map_append, chainEval_append]

/-- Pointwise equality of data. -/
def Env.Same (e e' : Env) : Prop := ∀ k, e.val k = e'.val k

theorem chainEval_same (bs : List Block)
    (hext : ∀ b ∈ bs, ∀ e e', Env.Same e e' → Env.Same (b e) (b e'))
    {e e' : Env} (h : Env.Same e e') : Env.Same (chainEval bs e) (chainEval bs e') := by
  induction bs generalizing e e' with
  | nil => exact h
  | cons b bs ih =>
    simp only [chainEval_cons]
    exact ih (fun c hc => hext c (List.mem_cons_of_mem _ hc)) (hext b (by simp) e e' h)

/-- One stage with parallel tasks returns the same data as the stage executed sequentially. -/
theorem stageEval_par (spec : List Nat → BlockSpec)
    (run : Nat → Block) (requiresMda : List Nat → Bool) (solve : List Nat → Block)
    (hrun : ∀ g, (spec g).run = blockOfGroup run requiresMda solve g)
    (st : List (List Nat)) (e : Env)
    (hcongr : ∀ g, ∀ e e' : Env, (∀ k ∈ (spec g).ext ++ (spec g).writes, e.val k = e'.val k) →
      ∀ k ∈ (spec g).writes, ((spec g).run e).val k = ((spec g).run e').val k)
    (hdef : ∀ g, ∀ k ∈ (spec g).writes, (((spec g).run e).val k).isSome)
    (hind : (st.map spec).Pairwise Independent) :
    Env.Same (stageEval run requiresMda solve (fun g => (spec g).writes) true st e)
      (chainEval (st.map (blockOfGroup run requiresMda solve)) e) := by
  have hpar : ∀ st : List (List Nat), (st.map spec).Pairwise Independent →
      Env.Same
        (parEval (st.map (fun g => (blockOfGroup run requiresMda solve g, (spec g).writes))) e)
        (chainEval (st.map (blockOfGroup run requiresMda solve)) e) := by
    intro st hind
    have hp := par_eq_seq (st.map spec) e hind
      (fun b hb => by obtain ⟨g, _, rfl⟩ := List.mem_map.1 hb; exact hcongr g)
      (fun b hb => by obtain ⟨g, _, rfl⟩ := List.mem_map.1 hb; exact hdef g)
    have e1 : (st.map spec).map (fun b => (b.run, b.writes)) =
        st.map (fun g => (blockOfGroup run requiresMda solve g, (spec g).writes)) := by
      rw [List.map_map]; apply List.map_congr_left; intro g _; simp [Function.comp, hrun]
    have e2 : (st.map spec).map (·.run) = st.map (blockOfGroup run requiresMda solve) := by
      rw [List.map_map]; apply List.map_congr_left; intro g _; simp [Function.comp, hrun]
    rw [e1, e2] at hp
    exact hp
  match st, hind with
  | [], _ => intro k; rfl
  | [g], _ => intro k; rfl
  | g1 :: g2 :: tl, hind => exact hpar _ hind

/-- Parallel tasks: with independent blocks in each stage the MDA chain returns the same data
    as the chain of the blocks of the flattened sequence. `Inv` is any property of the data
    (e.g. "the inputs are present") that the blocks preserve and under which their outputs are
    defined. -/
theorem mdaChainEval_par (seq : List (List (List Nat))) (spec : List Nat → BlockSpec)
    (run : Nat → Block) (requiresMda : List Nat → Bool) (solve : List Nat → Block)
    (hrun : ∀ g, (spec g).run = blockOfGroup run requiresMda solve g)
    (Inv : Env → Prop)
    (hinv_same : ∀ e e', Env.Same e e' → Inv e → Inv e')
    (hinv_run : ∀ g e, Inv e → Inv ((spec g).run e))
    (hext : ∀ g e e', Env.Same e e' → Env.Same ((spec g).run e) ((spec g).run e'))
    (hcongr : ∀ g, ∀ e e' : Env, (∀ k ∈ (spec g).ext ++ (spec g).writes, e.val k = e'.val k) →
      ∀ k ∈ (spec g).writes, ((spec g).run e).val k = ((spec g).run e').val k)
    (hdef : ∀ g e, Inv e → ∀ k ∈ (spec g).writes, (((spec g).run e).val k).isSome)
    (hind : ∀ st ∈ seq, (st.map spec).Pairwise Independent)
    (e : Env) (he : Inv e) :
    Env.Same (mdaChainEval seq run requiresMda solve (fun g => (spec g).writes) true e)
      (chainEval (seq.flatten.map (blockOfGroup run requiresMda solve)) e) := by
  -- generalise over the two (pointwise equal) data sets reached so far
  suffices H : ∀ e1 e2, Env.Same e1 e2 → Inv e1 → Inv e2 →
      Env.Same (mdaChainEval seq run requiresMda solve (fun g => (spec g).writes) true e1)
        (chainEval (seq.flatten.map (blockOfGroup run requiresMda solve)) e2) from
    H e e (fun _ => rfl) he he
  have hinv_chain : ∀ (gs : List (List Nat)) (e : Env), Inv e →
      Inv (chainEval (gs.map (blockOfGroup run requiresMda solve)) e) := by
    intro gs
    induction gs with
    | nil => intro e h; exact h
    | cons g gs ihg =>
      intro e h
      simp only [List.map_cons, chainEval_cons]
      apply ihg
      rw [← hrun]; exact hinv_run g e h
  induction seq with
  | nil => intro e1 e2 h _ _; exact h
  | cons st rest ih =>
    intro e1 e2 hsame h1 h2
    rw [mdaChainEval_cons, List.flatten_cons, List.map_append, chainEval_append]
    have hstage := stageEval_par spec run requiresMda solve hrun st e1 hcongr
      (fun g => hdef g e1 h1) (hind st (by simp))
    have hextb : ∀ b ∈ st.map (blockOfGroup run requiresMda solve), ∀ e e',
        Env.Same e e' → Env.Same (b e) (b e') := by
      intro b hb
      obtain ⟨g, _, rfl⟩ := List.mem_map.1 hb
      rw [← hrun]; exact hext g
    have hseq12 : Env.Same (chainEval (st.map (blockOfGroup run requiresMda solve)) e1)
        (chainEval (st.map (blockOfGroup run requiresMda solve)) e2) :=
      chainEval_same _ hextb hsame
    have hI2 := hinv_chain st e2 h2
    have hI1 := hinv_same _ _ (fun k => ((hstage k).trans (hseq12 k)).symm) hI2
    exact ih (fun st' hst' => hind st' (List.mem_cons_of_mem _ hst')) _ _
      (fun k => (hstage k).trans (hseq12 k)) hI1 hI2

end GV.C08
