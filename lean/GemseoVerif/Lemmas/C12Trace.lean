/-
C12 — the event trace of a run and its truncation inside the k-th `Call`: replaying the truncated
trace (stores and exports) on the database / pending buffer / file of the process gives exactly the
state reached by the requests completed before that call.
-/
import GemseoVerif.Lemmas.C12

namespace GV.C12
open GV.C11

variable {κ : Type} [DecidableEq κ]

theorem truncate_append_of_lt (evs rest : List Ev) (k : Nat) (h : countCalls evs < k) :
    truncateAtCall k (evs ++ rest) = evs ++ truncateAtCall (k - countCalls evs) rest := by
  induction evs generalizing k with
  | nil => simp [countCalls]
  | cons e t ih =>
    cases e with
    | call n p =>
      simp only [countCalls] at h
      have hk : ¬ k ≤ 1 := by omega
      simp only [List.cons_append, truncateAtCall, hk, if_false, countCalls]
      rw [ih (k - 1) (by omega)]
      have : k - 1 - countCalls t = k - (countCalls t + 1) := by omega
      rw [this]
    | store p n v => simp only [countCalls] at h; simp only [List.cons_append, truncateAtCall, countCalls, ih k h]
    | newIter p => simp only [countCalls] at h; simp only [List.cons_append, truncateAtCall, countCalls, ih k h]
    | «export» => simp only [countCalls] at h; simp only [List.cons_append, truncateAtCall, countCalls, ih k h]

/-- The events of one computed request: its discipline executions come first. -/
theorem events_eq (cfg : Cfg) (r : Req) (v : Val) (newIt : Bool) :
    ∃ tail, events cfg r v newIt = List.replicate r.ncalls (.call r.name r.p) ++ tail ∧ countCalls tail = 0 := by
  refine ⟨[.store r.p r.name v] ++ (if cfg.eachCall then [.export] else []) ++
      (if newIt then [.newIter r.p] ++ (if cfg.eachIter then [.export] else []) else []), ?_, ?_⟩
  · unfold events; simp [List.append_assoc]
  · cases cfg.eachCall <;> cases cfg.eachIter <;> cases newIt <;> simp [countCalls]

theorem countCalls_replicate (n : Nat) (nm : String) (p : Pt) (tail : List Ev) :
    countCalls (List.replicate n (.call nm p) ++ tail) = n + countCalls tail := by
  induction n with
  | zero => simp
  | succ n ih => simp only [List.replicate_succ, List.cons_append, countCalls, ih]; omega

theorem countCalls_events (cfg : Cfg) (r : Req) (v : Val) (newIt : Bool) :
    countCalls (events cfg r v newIt) = r.ncalls := by
  obtain ⟨tail, h, ht⟩ := events_eq cfg r v newIt
  rw [h, countCalls_replicate, ht]; rfl

/-- Truncating inside one of the leading calls keeps only the calls before it. -/
theorem truncate_within_calls (n : Nat) (nm : String) (p : Pt) (tail : List Ev) (k : Nat)
    (h1 : 1 ≤ k) (h2 : k ≤ n) :
    truncateAtCall k (List.replicate n (.call nm p) ++ tail) = List.replicate (k - 1) (.call nm p) := by
  induction n generalizing k with
  | zero => omega
  | succ n ih =>
    simp only [List.replicate_succ, List.cons_append, truncateAtCall]
    by_cases hk : k ≤ 1
    · have : k = 1 := by omega
      subst this; simp
    · simp only [hk, if_false]
      rw [ih (k - 1) (by omega) (by omega)]
      have : k - 1 = (k - 1 - 1) + 1 := by omega
      conv_rhs => rw [this, List.replicate_succ]

section
variable (H : Pt → κ) (cfg : Cfg) (val : String → Pt → Val)

theorem replay_append (h : State κ) (a b : List Ev) :
    replay H h (a ++ b) = replay H (replay H h a) b := by
  unfold replay; rw [List.foldl_append]

theorem replay_calls (h : State κ) (n : Nat) (nm : String) (p : Pt) :
    replay H h (List.replicate n (.call nm p)) = h := by
  induction n with
  | zero => rfl
  | succ n ih =>
    rw [List.replicate_succ]
    unfold replay at ih ⊢
    simp only [List.foldl_cons, applyEv]
    exact ih

omit [DecidableEq κ] in
theorem backup_h (s : St κ) : (backup s).h = (doExport s.h true).getD s.h := by
  unfold backup
  cases doExport s.h true <;> rfl

/-- Replaying the events of a computed request performs exactly its effect on the database, the
    pending buffer and the file. -/
theorem replay_events (s : St κ) (r : Req) (v : Val) :
    replay H s.h (events cfg r v (unseen s.h.db r.p)) = (computedSt H cfg s r v).h := by
  unfold events computedSt notifyStore notifyNewIter
  rw [replay_append, replay_append, replay_append, replay_calls]
  cases cfg.eachCall <;> cases cfg.eachIter <;> cases unseen s.h.db r.p <;>
    simp [replay, applyEv, storeSt, backup_h]

/-- The requests completed before the `k`-th `Call` of the run of `rs` from `s`. -/
def completedBefore (k : Nat) : St κ → List Req → List Req
  | _, [] => []
  | s, r :: rs =>
    match step H cfg val s r with
    | (_, .maxIter, _) => []
    | (s', _, evs) =>
      if k ≤ countCalls evs then [] else r :: completedBefore (k - countCalls evs) s' rs

/-- The trace of a run. -/
def traceOf (s : St κ) (rs : List Req) : List Ev := (run H cfg val s rs).2.1

theorem traceOf_cons (s : St κ) (r : Req) (rs : List Req) :
    traceOf H cfg val s (r :: rs) =
      match (step H cfg val s r).2.1 with
      | .maxIter => []
      | _ => (step H cfg val s r).2.2 ++ traceOf H cfg val (step H cfg val s r).1 rs := by
  unfold traceOf
  conv_lhs => unfold run
  rcases hstep : step H cfg val s r with ⟨s', out, evs⟩
  cases out <;> simp

/-- **The crash state.** Replaying the trace of a run truncated inside its `k`-th `Call` gives the
    database, pending buffer and file reached by the requests completed before that call: nothing
    of the evaluation in progress is stored. -/
theorem replay_truncated (s : St κ) (rs : List Req) (k : Nat) (hk : 1 ≤ k) :
    replay H s.h (truncateAtCall k (traceOf H cfg val s rs)) =
      (runSt H cfg val s (completedBefore H cfg val k s rs)).h := by
  induction rs generalizing s k with
  | nil => simp [traceOf, run, truncateAtCall, replay, completedBefore, runSt_nil]
  | cons r rs ih =>
    rw [traceOf_cons]
    unfold completedBefore
    rcases step_cases H cfg val s r with ⟨v, _, h⟩ | ⟨_, _, _, h⟩ | ⟨hn, hm, h⟩
    · -- served: no event, the request is completed
      rw [h]
      simp only [List.nil_append, countCalls, Nat.le_zero_eq, Nat.sub_zero]
      have hk0 : ¬ k = 0 := by omega
      simp only [hk0, if_false]
      rw [ih s k hk, runSt_cons, h]
    · rw [h]
      simp [truncateAtCall, replay, runSt_nil]
    · rw [h]
      simp only [countCalls_events]
      by_cases hle : k ≤ r.ncalls
      · simp only [hle, if_true, runSt_nil]
        obtain ⟨tail, he, _⟩ := events_eq cfg r (val r.name r.p) (unseen s.h.db r.p)
        rw [he, List.append_assoc, truncate_within_calls _ _ _ _ k hk hle, replay_calls]
      · simp only [hle, if_false]
        rw [truncate_append_of_lt _ _ _ (by rw [countCalls_events]; omega), replay_append,
          replay_events, countCalls_events, ih _ _ (by omega), runSt_cons, h]

end

end GV.C12
