/-
C09 — instances of the block algebra: Mathlib matrices of shape `|o| × |i|` over any semiring
(the blocks GEMSEO manipulates), and the constant family over a semiring (scalar variables).
-/
import GemseoVerif.Lemmas.C09Par
import Mathlib.Data.Matrix.Mul
import Mathlib.Algebra.Ring.Int.Defs
import Mathlib.Algebra.GroupWithZero.Defs

namespace GV.C09

/-- Jacobian blocks as matrices: `∂o/∂i` has `sz o` rows and `sz i` columns. -/
def MatBlocks {V : Type} (sz : V → ℕ) (R : Type) : V → V → Type :=
  fun o i => Matrix (Fin (sz o)) (Fin (sz i)) R

section
variable {V : Type} (sz : V → ℕ) (R : Type) [Semiring R]

instance (o i : V) : AddCommMonoid (MatBlocks sz R o i) :=
  inferInstanceAs (AddCommMonoid (Matrix (Fin (sz o)) (Fin (sz i)) R))

instance : BlockOps (MatBlocks sz R) where
  add := fun {o i} (a b : Matrix (Fin (sz o)) (Fin (sz i)) R) => a + b
  mul := fun {o m i} (a : Matrix (Fin (sz o)) (Fin (sz m)) R)
    (b : Matrix (Fin (sz m)) (Fin (sz i)) R) => a * b

instance : LawfulBlocks (MatBlocks sz R) where
  add_eq := fun _ _ => rfl
  mul_add := fun a b c => Matrix.mul_add a b c
  add_mul := fun a b c => Matrix.add_mul a b c
  mul_zero := fun a => Matrix.mul_zero a
  zero_mul := fun c => Matrix.zero_mul c
  mul_assoc := fun a b c => Matrix.mul_assoc a b c

instance : BlockOne (MatBlocks sz R) where
  one := fun v => (1 : Matrix (Fin (sz v)) (Fin (sz v)) R)

instance : LawfulOne (MatBlocks sz R) where
  mul_one := fun a => Matrix.mul_one a

end

/-- Scalar variables: every block is an element of a semiring. -/
def ConstBlocks (V : Type) (S : Type) : V → V → Type := fun _ _ => S

/-- The semiring element a block of the constant family is. -/
def ConstBlocks.toS {V S : Type} {o i : V} (a : ConstBlocks V S o i) : S := a

section
variable {V : Type} (S : Type) [Semiring S]

instance (o i : V) : AddCommMonoid (ConstBlocks V S o i) := inferInstanceAs (AddCommMonoid S)

instance : BlockOps (ConstBlocks V S) where
  add := fun {_ _} (a b : S) => a + b
  mul := fun {_ _ _} (a b : S) => a * b

instance : LawfulBlocks (ConstBlocks V S) where
  add_eq := fun _ _ => rfl
  mul_add := fun (a b c : S) => _root_.mul_add a b c
  add_mul := fun (a b c : S) => _root_.add_mul a b c
  mul_zero := fun (a : S) => MulZeroClass.mul_zero a
  zero_mul := fun (c : S) => MulZeroClass.zero_mul c
  mul_assoc := fun (a b c : S) => _root_.mul_assoc a b c

instance : BlockOne (ConstBlocks V S) where
  one := fun _ => (1 : S)

instance : LawfulOne (ConstBlocks V S) where
  mul_one := fun (a : S) => _root_.mul_one a

end

/-! ### Concrete chains over integer scalars (non-vacuity examples and witnesses) -/

/-- A scalar discipline over `Fin n` variables given by its (output, input, value) triples. -/
def mkDisc {n : Nat} (ins outs : List (Fin n)) (tab : List (Fin n × Fin n × Int)) :
    Disc (ConstBlocks (Fin n) Int) :=
  { ins := ins, outs := outs,
    jac := { rows := outs, cols := fun _ => ins,
             val := fun w v => match tab.find? (fun e => e.1 == w && e.2.1 == v) with
               | some e => e.2.2
               | none => (0 : Int) } }

theorem mkDisc_wf {n : Nat} (ins outs : List (Fin n)) (tab : List (Fin n × Fin n × Int))
    (h : ins.Nodup) : (mkDisc ins outs tab).jac.WF := fun _ => h

/-- Diamond: `y = 2x`, `z = 3x`, `o = 5y + 7z`; variables x=0, y=1, z=2, o=3. -/
def diamond : List (Disc (ConstBlocks (Fin 4) Int)) :=
  [mkDisc [0] [1] [(1, 0, 2)], mkDisc [0] [2] [(2, 0, 3)], mkDisc [1, 2] [3] [(3, 1, 5), (3, 2, 7)]]

/-- A variable computed twice: `A: y = 2x`, `B: y = 5x`, `C: o = 7y`; x=0, y=1, o=2.
    The function computed is `o = 35 x`. -/
def deadWrite : List (Disc (ConstBlocks (Fin 3) Int)) :=
  [mkDisc [0] [1] [(1, 0, 2)], mkDisc [0] [1] [(1, 0, 5)], mkDisc [1] [2] [(2, 1, 7)]]

/-- Two parallel disciplines computing the same output `s` (x=0, z=1, s=2):
    `A: s = 2x + 3z`, `B: s = 5x`; the value kept is B's, so `∂s/∂z = 0`. -/
def parDup : List (Disc (ConstBlocks (Fin 3) Int)) :=
  [mkDisc [0, 1] [2] [(2, 0, 2), (2, 1, 3)], mkDisc [0] [2] [(2, 0, 5)]]

/-- A discipline that reads and overwrites two variables with cross-dependence (x=0, a=1, b=2, o=3):
    `D0: a = 2x, b = 3x`; `D1: (a, b) := (5a + 7b, 11a + 13b)`; `D2: o = 17a + 19b`.
    The function computed is `o = (17·31 + 19·61) x = 1686 x`. -/
def inplace2 : List (Disc (ConstBlocks (Fin 4) Int)) :=
  [mkDisc [0] [1, 2] [(1, 0, 2), (2, 0, 3)],
   mkDisc [1, 2] [1, 2] [(1, 1, 5), (1, 2, 7), (2, 1, 11), (2, 2, 13)],
   mkDisc [1, 2] [3] [(3, 1, 17), (3, 2, 19)]]

end GV.C09
