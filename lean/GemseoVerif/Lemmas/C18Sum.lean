/-
C18 — algebra of the finite sums / matrix products of the model over a field.
-/
import GemseoVerif.Model.C18
import Mathlib.Algebra.Field.Defs
import Mathlib.Tactic.Ring

namespace GV.C18

variable {K : Type} [Field K]

@[simp] theorem sumTo_zero_fn (n : Nat) : sumTo n (fun _ => (0 : K)) = 0 := by
  induction n with
  | zero => rfl
  | succ k ih => simp [sumTo, ih]

theorem sumTo_congr {n : Nat} {f g : Nat → K} (h : ∀ j, j < n → f j = g j) :
    sumTo n f = sumTo n g := by
  induction n with
  | zero => rfl
  | succ k ih =>
    simp only [sumTo]
    rw [ih (fun j hj => h j (Nat.lt_succ_of_lt hj)), h k (Nat.lt_succ_self k)]

theorem sumTo_add (n : Nat) (f g : Nat → K) :
    sumTo n (fun j => f j + g j) = sumTo n f + sumTo n g := by
  induction n with
  | zero => simp [sumTo]
  | succ k ih => simp only [sumTo, ih]; ring

theorem sumTo_sub (n : Nat) (f g : Nat → K) :
    sumTo n (fun j => f j - g j) = sumTo n f - sumTo n g := by
  induction n with
  | zero => simp [sumTo]
  | succ k ih => simp only [sumTo, ih]; ring

theorem sumTo_mul_right (n : Nat) (f : Nat → K) (c : K) :
    sumTo n (fun j => f j * c) = sumTo n f * c := by
  induction n with
  | zero => simp [sumTo]
  | succ k ih => simp only [sumTo, ih]; ring

theorem sumTo_mul_left (n : Nat) (f : Nat → K) (c : K) :
    sumTo n (fun j => c * f j) = c * sumTo n f := by
  induction n with
  | zero => simp [sumTo]
  | succ k ih => simp only [sumTo, ih]; ring

/-- Exchange of two finite sums. -/
theorem sumTo_comm (n m : Nat) (f : Nat → Nat → K) :
    sumTo n (fun i => sumTo m (fun j => f i j)) = sumTo m (fun j => sumTo n (fun i => f i j)) := by
  induction n with
  | zero => simp [sumTo]
  | succ k ih =>
    simp only [sumTo, ih]
    rw [← sumTo_add]

/-- A sum with a single non-zero term. -/
theorem sumTo_ite_eq (n j0 : Nat) (h : j0 < n) (f : Nat → K) :
    sumTo n (fun j => if j = j0 then f j else 0) = f j0 := by
  induction n with
  | zero => omega
  | succ k ih =>
    simp only [sumTo]
    by_cases hk : j0 = k
    · subst hk
      have : sumTo j0 (fun j => if j = j0 then f j else 0) = 0 := by
        rw [← sumTo_zero_fn (K := K) j0]
        exact sumTo_congr (fun j hj => by simp [Nat.ne_of_lt hj])
      simp [this]
    · have hlt : j0 < k := by omega
      rw [ih hlt]
      have : k ≠ j0 := fun h => hk h.symm
      simp [this]

theorem sumTo_ite_eq' (n j0 : Nat) (h : j0 < n) (f : Nat → K) :
    sumTo n (fun j => if j0 = j then f j else 0) = f j0 := by
  rw [← sumTo_ite_eq n j0 h f]
  exact sumTo_congr (fun j _ => by
    by_cases hj : j = j0
    · simp [hj]
    · have : ¬ j0 = j := fun h => hj h.symm
      simp [hj, this])

/-- A sum whose terms vanish except possibly one. -/
theorem sumTo_eq_single (n j0 : Nat) (h : j0 < n) (f : Nat → K)
    (hz : ∀ j, j < n → j ≠ j0 → f j = 0) : sumTo n f = f j0 := by
  rw [← sumTo_ite_eq n j0 h f]
  exact sumTo_congr (fun j hj => by
    by_cases hj0 : j = j0
    · simp [hj0]
    · simp [hj0, hz j hj hj0])

theorem sumTo_eq_zero (n : Nat) (f : Nat → K) (hz : ∀ j, j < n → f j = 0) : sumTo n f = 0 := by
  rw [← sumTo_zero_fn (K := K) n]
  exact sumTo_congr hz

/-! ### Matrix–vector products -/

theorem mulVec_congr {n : Nat} {A : Mat K} {u v : Vec K} (h : ∀ j, j < n → u j = v j) (i : Nat) :
    mulVec n A u i = mulVec n A v i := by
  unfold mulVec
  exact sumTo_congr (fun j hj => by rw [h j hj])

theorem mulVec_add (n : Nat) (A : Mat K) (u v : Vec K) (i : Nat) :
    mulVec n A (fun j => u j + v j) i = mulVec n A u i + mulVec n A v i := by
  unfold mulVec
  rw [← sumTo_add]
  exact sumTo_congr (fun j _ => by ring)

theorem mulVec_sub (n : Nat) (A : Mat K) (u v : Vec K) (i : Nat) :
    mulVec n A (fun j => u j - v j) i = mulVec n A u i - mulVec n A v i := by
  unfold mulVec
  rw [← sumTo_sub]
  exact sumTo_congr (fun j _ => by ring)

theorem mulVec_smul (n : Nat) (A : Mat K) (t : K) (v : Vec K) (i : Nat) :
    mulVec n A (fun j => t * v j) i = t * mulVec n A v i := by
  unfold mulVec
  rw [← sumTo_mul_left]
  exact sumTo_congr (fun j _ => by ring)

theorem mulVec_id (n : Nat) (v : Vec K) (i : Nat) (hi : i < n) :
    mulVec n (idMat (α := K)) v i = v i := by
  unfold mulVec idMat
  have : sumTo n (fun j => (if i = j then (1 : K) else 0) * v j)
      = sumTo n (fun j => if i = j then v j else 0) :=
    sumTo_congr (fun j _ => by by_cases h : i = j <;> simp [h])
  rw [this, sumTo_ite_eq' n i hi]

theorem mulVec_diag (n : Nat) (c v : Vec K) (i : Nat) (hi : i < n) :
    mulVec n (diagMat c) v i = c i * v i := by
  unfold mulVec diagMat
  have : sumTo n (fun j => (if i = j then c i else 0) * v j)
      = sumTo n (fun j => if i = j then c i * v j else 0) :=
    sumTo_congr (fun j _ => by by_cases h : i = j <;> simp [h])
  rw [this, sumTo_ite_eq' n i hi]

/-- `(A B) h = A (B h)`. -/
theorem mulVec_matMul (n k : Nat) (A B : Mat K) (h : Vec K) (i : Nat) :
    mulVec n (matMul k A B) h i = mulVec k A (mulVec n B h) i := by
  unfold mulVec matMul
  have h1 : sumTo n (fun j => sumTo k (fun l => A i l * B l j) * h j)
      = sumTo n (fun j => sumTo k (fun l => A i l * B l j * h j)) :=
    sumTo_congr (fun j _ => by rw [sumTo_mul_right])
  rw [h1, sumTo_comm]
  exact sumTo_congr (fun l _ => by
    rw [← sumTo_mul_left]
    exact sumTo_congr (fun j _ => by ring))

end GV.C18
