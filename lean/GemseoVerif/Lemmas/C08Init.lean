/-
C08 helper lemmas: `initOrder` (the model of `order_disciplines_from_default_inputs`) returns a
permutation of the disciplines in which every discipline finds all its inputs (as a default
value, in the data given at run time, or computed by an earlier discipline).
-/
import GemseoVerif.Model.C08
import Mathlib.Data.List.Basic
import Mathlib.Data.List.Nodup
import Mathlib.Data.List.Perm.Basic
import Mathlib.Data.List.Perm.Lattice

namespace GV.C08

variable (ds : List Disc) (defaults : Nat → List String)

/-- Discipline `i` can be executed with the available names. -/
def Ready (avail : List String) (i : Nat) : Prop :=
  ∀ v ∈ inputsAt ds i, v ∈ defaults i ∨ v ∈ avail

/-- The names available after executing the disciplines of `order`. -/
def availAfter (avail : List String) (order : List Nat) : List String :=
  order.foldl (fun a i => a ++ outputsAt ds i) avail

/-- Executing `order` from `avail`, every discipline is ready when its turn comes. -/
def ValidOrder : List String → List Nat → Prop
  | _, [] => True
  | avail, i :: rest => Ready ds defaults avail i ∧ ValidOrder (avail ++ outputsAt ds i) rest

theorem validOrder_append (avail : List String) (o1 o2 : List Nat) :
    ValidOrder ds defaults avail (o1 ++ o2) ↔
      ValidOrder ds defaults avail o1 ∧ ValidOrder ds defaults (availAfter ds avail o1) o2 := by
  induction o1 generalizing avail with
  | nil => simp [ValidOrder, availAfter]
  | cons i rest ih =>
    simp only [List.cons_append, ValidOrder, availAfter, List.foldl_cons]
    rw [ih]
    simp only [availAfter, and_assoc]

theorem ready_iff (avail : List String) (i : Nat) :
    ((inputsAt ds i).all (fun v => (defaults i).contains v || avail.contains v)) = true ↔
      Ready ds defaults avail i := by
  simp [Ready, List.all_eq_true]

theorem initPass_spec (rem : List Nat) (avail : List String) :
    ValidOrder ds defaults avail (initPass ds defaults rem avail).1 ∧
    (initPass ds defaults rem avail).2 = availAfter ds avail (initPass ds defaults rem avail).1 ∧
    (initPass ds defaults rem avail).1.Sublist rem := by
  induction rem generalizing avail with
  | nil => simp [initPass, ValidOrder, availAfter]
  | cons i rest ih =>
    simp only [initPass]
    split
    · rename_i hr
      obtain ⟨h1, h2, h3⟩ := ih (avail ++ outputsAt ds i)
      refine ⟨⟨(ready_iff ds defaults avail i).1 hr, h1⟩, ?_, h3.cons_cons i⟩
      simp only [availAfter, List.foldl_cons]
      exact h2
    · obtain ⟨h1, h2, h3⟩ := ih avail
      exact ⟨h1, h2, h3.cons i⟩

/-- `initOrder` soundness: the returned order is valid. -/
theorem initOrder_valid (fuel : Nat) (rem : List Nat) (avail : List String) (order : List Nat)
    (h : initOrder ds defaults fuel rem avail = some order) :
    ValidOrder ds defaults avail order := by
  induction fuel generalizing rem avail order with
  | zero =>
    cases rem with
    | nil => simp [initOrder] at h; subst h; trivial
    | cons _ _ => simp [initOrder] at h
  | succ fuel ih =>
    cases rem with
    | nil => simp [initOrder] at h; subst h; trivial
    | cons i rest =>
      simp only [initOrder] at h
      split at h
      · simp at h
      · split at h
        · rename_i tl htl
          simp only [Option.some.injEq] at h
          subst h
          obtain ⟨h1, h2, _⟩ := initPass_spec ds defaults (i :: rest) avail
          rw [validOrder_append]
          refine ⟨h1, ?_⟩
          rw [← h2]
          exact ih _ _ tl htl
        · simp at h

/-- `initOrder` soundness: every discipline is returned exactly once. -/
theorem initOrder_perm (fuel : Nat) (rem : List Nat) (avail : List String) (order : List Nat)
    (hnd : rem.Nodup) (h : initOrder ds defaults fuel rem avail = some order) :
    order.Perm rem := by
  induction fuel generalizing rem avail order with
  | zero =>
    cases rem with
    | nil => simp [initOrder] at h; subst h; exact List.Perm.refl _
    | cons _ _ => simp [initOrder] at h
  | succ fuel ih =>
    cases rem with
    | nil => simp [initOrder] at h; subst h; exact List.Perm.refl _
    | cons i rest =>
      simp only [initOrder] at h
      split at h
      · simp at h
      · split at h
        · rename_i tl htl
          simp only [Option.some.injEq] at h
          subst h
          obtain ⟨_, _, hsub⟩ := initPass_spec ds defaults (i :: rest) avail
          set removed := (initPass ds defaults (i :: rest) avail).1 with hrem
          have hfilt : ((i :: rest).filter (fun j => !removed.contains j)).Nodup := hnd.filter _
          have htl := ih _ _ tl hfilt htl
          refine (List.Perm.append_left _ htl).trans ?_
          apply (List.perm_ext_iff_of_nodup ?_ hnd).2
          · intro a
            simp only [List.mem_append, List.mem_filter, Bool.not_eq_true', List.contains_eq_mem,
              decide_eq_false_iff_not]
            constructor
            · rintro (ha | ⟨ha, _⟩)
              · exact hsub.subset ha
              · exact ha
            · intro ha
              by_cases hr : a ∈ removed
              · exact Or.inl hr
              · exact Or.inr ⟨ha, hr⟩
          · refine List.Nodup.append (hnd.sublist hsub) hfilt ?_
            intro a ha hb
            simp [List.mem_filter] at hb
            exact hb.2 ha
        · simp at h

/-! ### Completeness: `initOrder` fails only when no initialization order exists -/

theorem ready_mono {avail avail' : List String} (h : avail ⊆ avail') {i : Nat}
    (hr : Ready ds defaults avail i) : Ready ds defaults avail' i := by
  intro v hv
  rcases hr v hv with h1 | h1
  · exact Or.inl h1
  · exact Or.inr (h h1)

theorem subset_availAfter (avail : List String) (order : List Nat) :
    avail ⊆ availAfter ds avail order := by
  induction order generalizing avail with
  | nil => simp [availAfter]
  | cons i rest ih =>
    intro v hv
    simp only [availAfter, List.foldl_cons]
    exact ih (avail ++ outputsAt ds i) (List.mem_append_left _ hv)

theorem outputs_subset_availAfter (avail : List String) (order : List Nat) {i : Nat}
    (hi : i ∈ order) : outputsAt ds i ⊆ availAfter ds avail order := by
  induction order generalizing avail with
  | nil => simp at hi
  | cons j rest ih =>
    simp only [availAfter, List.foldl_cons]
    rcases List.mem_cons.1 hi with rfl | hi
    · intro v hv
      exact subset_availAfter ds (avail ++ outputsAt ds i) rest (List.mem_append_right _ hv)
    · exact ih (avail ++ outputsAt ds j) hi

/-- A ready discipline is taken by the pass (the available names only grow during the pass). -/
theorem initPass_takes_ready (rem : List Nat) (avail avail' : List String) (h : avail ⊆ avail')
    {j : Nat} (hj : j ∈ rem) (hr : Ready ds defaults avail j) :
    j ∈ (initPass ds defaults rem avail').1 := by
  induction rem generalizing avail' with
  | nil => simp at hj
  | cons i rest ih =>
    simp only [initPass]
    split
    · rcases List.mem_cons.1 hj with rfl | hj
      · simp
      · exact List.mem_cons_of_mem _
          (ih (avail' ++ outputsAt ds i) (fun v hv => List.mem_append_left _ (h hv)) hj)
    · rename_i hnr
      rcases List.mem_cons.1 hj with rfl | hj
      · exact absurd ((ready_iff ds defaults avail' j).2 (ready_mono ds defaults h hr)) hnr
      · exact ih avail' h hj

/-- Dropping disciplines whose outputs are already available keeps an order valid. -/
theorem validOrder_filter (p : Nat → Bool) (order : List Nat) (a a' : List String)
    (hsub : a ⊆ a') (hout : ∀ i ∈ order, p i = false → outputsAt ds i ⊆ a')
    (hv : ValidOrder ds defaults a order) : ValidOrder ds defaults a' (order.filter p) := by
  induction order generalizing a a' with
  | nil => trivial
  | cons i rest ih =>
    obtain ⟨hr, hrest⟩ := hv
    by_cases hp : p i = true
    · rw [List.filter_cons_of_pos hp]
      refine ⟨ready_mono ds defaults hsub hr, ?_⟩
      apply ih (a ++ outputsAt ds i) (a' ++ outputsAt ds i)
      · intro v hv
        rcases List.mem_append.1 hv with h | h
        · exact List.mem_append_left _ (hsub h)
        · exact List.mem_append_right _ h
      · intro k hk hpk v hv
        exact List.mem_append_left _ (hout k (List.mem_cons_of_mem _ hk) hpk hv)
      · exact hrest
    · rw [List.filter_cons_of_neg hp]
      have hp' : p i = false := by simpa using hp
      apply ih (a ++ outputsAt ds i) a'
      · intro v hv
        rcases List.mem_append.1 hv with h | h
        · exact hsub h
        · exact hout i (by simp) hp' h
      · intro k hk hpk
        exact hout k (List.mem_cons_of_mem _ hk) hpk
      · exact hrest

/-- `initOrder` completeness: with enough rounds allowed, it returns an order whenever a valid
    order of the remaining disciplines exists. -/
theorem initOrder_complete (fuel : Nat) (rem : List Nat) (avail : List String)
    (hf : rem.length ≤ fuel)
    (hex : ∃ order, order.Perm rem ∧ ValidOrder ds defaults avail order) :
    (initOrder ds defaults fuel rem avail).isSome := by
  induction fuel generalizing rem avail with
  | zero =>
    have : rem = [] := List.eq_nil_of_length_eq_zero (by omega)
    subst this; simp [initOrder]
  | succ fuel ih =>
    cases rem with
    | nil => simp [initOrder]
    | cons i rest =>
      obtain ⟨order, hperm, hvalid⟩ := hex
      simp only [initOrder]
      obtain ⟨_, hav, hsub⟩ := initPass_spec ds defaults (i :: rest) avail
      -- the first discipline of the valid order is ready, hence taken by the pass
      have hne : (initPass ds defaults (i :: rest) avail).1 ≠ [] := by
        cases order with
        | nil => exact absurd hperm.length_eq (by simp)
        | cons j tl =>
          have hj : j ∈ i :: rest := hperm.subset (by simp)
          exact List.ne_nil_of_mem
            (initPass_takes_ready ds defaults (i :: rest) avail avail (fun _ h => h) hj hvalid.1)
      rw [if_neg (by simpa [List.isEmpty_iff] using hne)]
      set removed := (initPass ds defaults (i :: rest) avail).1 with hremoved
      have hlt : ((i :: rest).filter (fun j => !removed.contains j)).length < (i :: rest).length := by
        obtain ⟨a, ha⟩ := List.exists_mem_of_ne_nil _ hne
        apply List.length_filter_lt_length_iff_exists.2
        exact ⟨a, hsub.subset ha, by simp [ha]⟩
      have hrec := ih ((i :: rest).filter (fun j => !removed.contains j))
        (initPass ds defaults (i :: rest) avail).2 (by simp at hf hlt ⊢; omega)
        ⟨order.filter (fun j => !removed.contains j), hperm.filter _, by
          rw [hav]
          apply validOrder_filter ds defaults _ order avail _ (subset_availAfter ds avail removed)
            ?_ hvalid
          intro k _ hpk
          have : k ∈ removed := by simpa using hpk
          exact outputs_subset_availAfter ds avail removed this⟩
      obtain ⟨tl, htl⟩ := Option.isSome_iff_exists.1 hrec
      rw [htl]
      rfl

end GV.C08
