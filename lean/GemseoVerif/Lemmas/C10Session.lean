/-
C10 — sessions (`Sess`, `SOp`, `step` of Model/C10.lean): frame lemmas.

The state of a session is the current public parameters of the registered function objects and
the current content of the caller's point buffer. These lemmas say which operations can change
which part of the state; `Props/C10.lean` combines them with the tree theorems.
-/
import GemseoVerif.Model.C10

namespace GV.C10

variable {α : Type}

/-- The operations that may change the public parameters of object `id`: its constructor, its
    setters, an in-place write into one of its arrays. -/
def SOp.writes (id : Nat) : SOp α → Prop
  | .newLin k _ _ => k = id
  | .newQuad k _ _ _ => k = id
  | .newCallable k _ => k = id
  | .setQuadCoeffs k _ => k = id
  | .setQuadLinCoeffs k _ => k = id
  | .setLinCoeffs k _ => k = id
  | .setLinValueAtZero k _ => k = id
  | .setLinValueAtZeroNum k _ => k = id
  | .setCallables k _ => k = id
  | .editQuadCoeff k _ _ _ => k = id
  | .editQuadLinCoeff k _ _ => k = id
  | .editLinCoeff k _ _ _ => k = id
  | .editLinValueAtZero k _ _ => k = id
  | .writeX _ => False
  | .call _ _ => False

/-- The operations that change the content of the point buffer. -/
def SOp.writesX : SOp α → Prop
  | .writeX _ => True
  | _ => False

theorem Sess.put_objs_ne (s : Sess α) {k id : Nat} (o : FnObj α) (h : ¬ k = id) :
    (s.put k o).objs id = s.objs id := by
  have : ¬ id = k := fun e => h e.symm
  simp [Sess.put, this]

theorem Sess.put_objs_self (s : Sess α) (id : Nat) (o : FnObj α) : (s.put id o).objs id = some o := by
  simp [Sess.put]

theorem Sess.put_x (s : Sess α) (id : Nat) (o : FnObj α) : (s.put id o).x = s.x := rfl

variable [Add α] [Mul α] [Sub α] [Neg α] [Div α] [OfNat α 0] [OfNat α 1]
variable [LT α] [DecidableRel (α := α) (· < ·)]
variable (env : Nat → Nat → (Nat → α) → DV α) (thr : α)

/-- An operation that does not write object `id` leaves its parameters as they are — in particular
    every `call` (evaluation of any tree, at any point) and every write of the point buffer. -/
theorem step_objs_of_not_writes (s : Sess α) (op : SOp α) (id : Nat) (h : ¬ op.writes id) :
    (step env thr s op).1.objs id = s.objs id := by
  cases op <;> simp only [SOp.writes] at h <;> simp only [step] <;>
    first
      | rfl
      | exact Sess.put_objs_ne s _ h
      | (repeat' split) <;> first | rfl | exact Sess.put_objs_ne s _ h

/-- Only a write of the point buffer changes its content. -/
theorem step_x_of_not_writesX (s : Sess α) (op : SOp α) (h : ¬ op.writesX) :
    (step env thr s op).1.x = s.x := by
  cases op <;> simp only [SOp.writesX, not_true_eq_false] at h <;> simp only [step] <;>
    first
      | rfl
      | (repeat' split) <;> rfl

theorem Sess.after_nil (s : Sess α) : s.after env thr [] = s := rfl

theorem Sess.after_cons (s : Sess α) (op : SOp α) (ops : List (SOp α)) :
    s.after env thr (op :: ops) = ((step env thr s op).1).after env thr ops := rfl

theorem Sess.after_append (s : Sess α) (a b : List (SOp α)) :
    s.after env thr (a ++ b) = (s.after env thr a).after env thr b := by
  simp [Sess.after, List.foldl_append]

/-- Histories that never write object `id` leave its parameters as they are. -/
theorem after_objs_of_not_writes (id : Nat) :
    ∀ (ops : List (SOp α)) (s : Sess α), (∀ op ∈ ops, ¬ op.writes id) →
      (s.after env thr ops).objs id = s.objs id := by
  intro ops
  induction ops with
  | nil => intro s _; rfl
  | cons op ops ih =>
    intro s h
    rw [Sess.after_cons, ih _ (fun o ho => h o (List.mem_cons_of_mem _ ho))]
    exact step_objs_of_not_writes env thr s op id (h op List.mem_cons_self)

/-- Histories that never write the point buffer leave its content as it is. -/
theorem after_x_of_not_writesX :
    ∀ (ops : List (SOp α)) (s : Sess α), (∀ op ∈ ops, ¬ op.writesX) → (s.after env thr ops).x = s.x := by
  intro ops
  induction ops with
  | nil => intro s _; rfl
  | cons op ops ih =>
    intro s h
    rw [Sess.after_cons, ih _ (fun o ho => h o (List.mem_cons_of_mem _ ho))]
    exact step_x_of_not_writesX env thr s op (h op List.mem_cons_self)

end GV.C10
