/-
C08 helper lemmas: sequential data propagation (`chainEval`, the model of `MDOChain._execute`)
over blocks with a read/write footprint. A block is a single discipline or the inner MDA of a
group; its equations are an abstract predicate `Sat` on the data.
-/
import GemseoVerif.Model.C08
import Mathlib.Data.List.Basic
import Mathlib.Data.List.Pairwise
import Mathlib.Data.List.Induction

namespace GV.C08

/-- A block of a chain together with what the composition theorem needs to know about it. -/
structure BlockSpec where
  /-- names read from outside the block (its external inputs) -/
  ext : List String
  /-- names written by the block (its outputs) -/
  writes : List String
  /-- executing the block inside a chain -/
  run : Block
  /-- what the data must provide for the block to work (e.g. its inputs are present) -/
  Pre : Env → Prop
  /-- the equations of the block hold in the data -/
  Sat : Env → Prop
  /-- the block only writes its outputs -/
  frame : ∀ e k, k ∉ writes → (run e).val k = e.val k
  /-- after the execution its equations hold -/
  sat_run : ∀ e, Pre e → Sat (run e)
  /-- the equations only look at the external inputs and the outputs -/
  sat_congr : ∀ e e', (∀ k ∈ ext ++ writes, e.val k = e'.val k) → Sat e → Sat e'
  /-- the equations determine the outputs from the external inputs -/
  sat_det : ∀ e e', Sat e → Sat e' → (∀ k ∈ ext, e.val k = e'.val k) →
    ∀ k ∈ writes, e.val k = e'.val k

/-- A later block does not write anything an earlier block reads or writes. -/
def NoBackWrite (b c : BlockSpec) : Prop := ∀ k ∈ c.writes, k ∉ b.ext ++ b.writes

theorem chainEval_nil (e : Env) : chainEval [] e = e := rfl

theorem chainEval_cons (b : Block) (bs : List Block) (e : Env) :
    chainEval (b :: bs) e = chainEval bs (b e) := rfl

theorem chainEval_append (bs cs : List Block) (e : Env) :
    chainEval (bs ++ cs) e = chainEval cs (chainEval bs e) := by
  simp [chainEval, List.foldl_append]

/-- Names written by none of the blocks are left alone. -/
theorem chainEval_frame (bs : List BlockSpec) (e : Env) (k : String)
    (hk : ∀ b ∈ bs, k ∉ b.writes) : (chainEval (bs.map (·.run)) e).val k = e.val k := by
  induction bs generalizing e with
  | nil => rfl
  | cons b bs ih =>
    simp only [List.map_cons, chainEval_cons]
    rw [ih (b.run e) (fun c hc => hk c (List.mem_cons_of_mem _ hc))]
    exact b.frame e k (hk b List.mem_cons_self)

/-- `chain_satisfies_all`: if no block writes what an earlier block reads or writes (a valid
    schedule) and every block finds what it needs when its turn comes, then after the chain the
    equations of *every* block hold simultaneously. -/
theorem chain_satisfies_all (bs : List BlockSpec) (e : Env)
    (hvalid : bs.Pairwise NoBackWrite)
    (hpre : ∀ pre b post, bs = pre ++ b :: post → b.Pre (chainEval (pre.map (·.run)) e)) :
    ∀ b ∈ bs, b.Sat (chainEval (bs.map (·.run)) e) := by
  induction bs generalizing e with
  | nil => simp
  | cons b bs ih =>
    rw [List.pairwise_cons] at hvalid
    intro c hc
    simp only [List.map_cons, chainEval_cons]
    rcases List.mem_cons.1 hc with rfl | hc
    · -- the first block: satisfied right after its execution, untouched afterwards
      have h0 : c.Sat (c.run e) := c.sat_run e (by simpa [chainEval_nil] using hpre [] c bs rfl)
      refine c.sat_congr _ _ ?_ h0
      intro k hk
      symm
      exact chainEval_frame bs (c.run e) k (fun d hd hkd => hvalid.1 d hd k hkd hk)
    · apply ih (b.run e) hvalid.2 ?_ c hc
      intro pre d post hsplit
      have := hpre (b :: pre) d post (by rw [hsplit]; rfl)
      simpa [chainEval_cons] using this

/-- `chain_unique`: the data returned by a valid chain is *the* solution of the whole system:
    any data that satisfies all the equations and agrees with the initial data on the names no
    block writes is the chain's result. Needs: the external inputs of a block are not written
    by this block or a later one. -/
theorem chain_unique (bs : List BlockSpec) (e e' : Env)
    (hsat : ∀ b ∈ bs, b.Sat (chainEval (bs.map (·.run)) e))
    (hsat' : ∀ b ∈ bs, b.Sat e')
    (hsame : ∀ k, (∀ b ∈ bs, k ∉ b.writes) → e'.val k = e.val k)
    (hext : bs.Pairwise (fun b c => ∀ k ∈ b.ext, k ∉ c.writes))
    (hself : ∀ b ∈ bs, ∀ k ∈ b.ext, k ∉ b.writes) :
    ∀ k, e'.val k = (chainEval (bs.map (·.run)) e).val k := by
  -- agreement on everything written by a prefix, by induction on the prefix
  have key : ∀ pre post, bs = pre ++ post →
      ∀ k, (∀ b ∈ post, k ∉ b.writes) → e'.val k = (chainEval (bs.map (·.run)) e).val k := by
    intro pre
    induction pre using List.reverseRecOn with
    | nil =>
      intro post hsplit k hk
      have hk' : ∀ b ∈ bs, k ∉ b.writes := by rw [hsplit]; simpa using hk
      rw [hsame k hk', chainEval_frame bs e k hk']
    | append_singleton pre b ih =>
      intro post hsplit k hk
      by_cases hkb : k ∈ b.writes
      · -- k is written by b: determined by b's equations from b's external inputs
        have hb : b ∈ bs := by rw [hsplit]; simp
        refine b.sat_det e' _ (hsat' b hb) (hsat b hb) ?_ k hkb
        intro x hx
        -- x is not written by b nor by a later block
        apply ih (b :: post) (by rw [hsplit]; simp) x
        intro c hc
        rcases List.mem_cons.1 hc with rfl | hc
        · exact hself c hb x hx
        · have hp : (pre ++ [b] ++ post).Pairwise (fun b c => ∀ k ∈ b.ext, k ∉ c.writes) :=
            hsplit ▸ hext
          rw [List.pairwise_append] at hp
          exact hp.2.2 b (by simp) c hc x hx
      · apply ih (b :: post) (by rw [hsplit]; simp) k
        intro c hc
        rcases List.mem_cons.1 hc with rfl | hc
        · exact hkb
        · exact hk c hc
  intro k
  exact key bs [] (by simp) k (by simp)

end GV.C08
