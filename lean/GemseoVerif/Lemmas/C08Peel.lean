/-
C08 helper lemmas: the leaf-peeling loop `peel` on an arbitrary finite graph.
-/
import GemseoVerif.Model.C08
import Mathlib.Data.List.Basic
import Mathlib.Data.List.Perm.Basic
import Mathlib.Data.List.Forall2

namespace GV.C08

set_option linter.unusedSectionVars false

variable {α : Type} [BEq α] [LawfulBEq α] {r : α → α → Bool}

theorem mem_leaves {rem : List α} {a : α} :
    a ∈ leaves r rem ↔ a ∈ rem ∧ ∀ b ∈ rem, r a b = false := by
  simp [leaves, List.mem_filter, List.all_eq_true]

theorem peel_nil (fuel : Nat) : peel r fuel ([] : List α) = [] := by
  cases fuel <;> simp [peel, leaves]

/-- The remaining nodes after a round. -/
theorem mem_rest {rem : List α} {a : α} :
    a ∈ rem.filter (fun a => !(leaves r rem).contains a) ↔ a ∈ rem ∧ a ∉ leaves r rem := by
  simp [List.mem_filter]

theorem rest_length_lt {rem : List α} (h : leaves r rem ≠ []) :
    (rem.filter (fun a => !(leaves r rem).contains a)).length < rem.length := by
  obtain ⟨a, ha⟩ := List.exists_mem_of_ne_nil _ h
  apply List.length_filter_lt_length_iff_exists.2
  exact ⟨a, (mem_leaves.1 ha).1, by simp [ha]⟩

/-- Every scheduled node is one of the given nodes. -/
theorem peel_mem (fuel : Nat) (rem : List α) :
    ∀ st ∈ peel r fuel rem, ∀ a ∈ st, a ∈ rem := by
  induction fuel generalizing rem with
  | zero => simp [peel]
  | succ fuel ih =>
    intro st hst a ha
    simp only [peel] at hst
    split at hst
    · simp at hst
    · rcases List.mem_cons.1 hst with h | h
      · subst h; exact (mem_leaves.1 ha).1
      · exact (mem_rest.1 (ih _ st h a ha)).1

/-- No stage is empty. -/
theorem peel_stage_ne_nil (fuel : Nat) (rem : List α) : ∀ st ∈ peel r fuel rem, st ≠ [] := by
  induction fuel generalizing rem with
  | zero => simp [peel]
  | succ fuel ih =>
    intro st hst
    simp only [peel] at hst
    split at hst
    · simp at hst
    · rename_i hne
      rcases List.mem_cons.1 hst with h | h
      · subst h; simpa [List.isEmpty_iff] using hne
      · exact ih _ st h

/-- A node peeled in a round has no successor among the nodes peeled in the same or a later
    round. -/
theorem peel_pairwise (fuel : Nat) (rem : List α) :
    (peel r fuel rem).Pairwise (fun s t => ∀ a ∈ s, ∀ b ∈ t, r a b = false) := by
  induction fuel generalizing rem with
  | zero => simp [peel]
  | succ fuel ih =>
    simp only [peel]
    split
    · exact List.Pairwise.nil
    · refine List.Pairwise.cons ?_ (ih _)
      intro t ht a ha b hb
      have hb' := (mem_rest.1 (peel_mem fuel _ t ht b hb)).1
      exact (mem_leaves.1 ha).2 b hb'

theorem peel_stage_indep (fuel : Nat) (rem : List α) :
    ∀ st ∈ peel r fuel rem, ∀ a ∈ st, ∀ b ∈ st, r a b = false := by
  induction fuel generalizing rem with
  | zero => simp [peel]
  | succ fuel ih =>
    intro st hst a ha b hb
    simp only [peel] at hst
    split at hst
    · simp at hst
    · rcases List.mem_cons.1 hst with h | h
      · subst h; exact (mem_leaves.1 ha).2 b (mem_leaves.1 hb).1
      · exact ih _ st h a ha b hb

/-- A finite graph whose edges strictly decrease a rank has a leaf. -/
theorem exists_leaf (rank : α → Nat) {rem : List α}
    (hr : ∀ a ∈ rem, ∀ b ∈ rem, r a b = true → rank b < rank a) (hne : rem ≠ []) :
    leaves r rem ≠ [] := by
  have key : ∀ k, ∀ a ∈ rem, rank a ≤ k → ∃ l, l ∈ leaves r rem := by
    intro k
    induction k with
    | zero =>
      intro a ha hk
      refine ⟨a, mem_leaves.2 ⟨ha, ?_⟩⟩
      intro b hb
      by_contra h
      have := hr a ha b hb (by simpa using h)
      omega
    | succ k ih =>
      intro a ha hk
      by_cases hl : ∀ b ∈ rem, r a b = false
      · exact ⟨a, mem_leaves.2 ⟨ha, hl⟩⟩
      · simp only [not_forall] at hl
        obtain ⟨b, hb, hab⟩ := hl
        have := hr a ha b hb (by simpa using hab)
        exact ih b hb (by omega)
  obtain ⟨a, ha⟩ := List.exists_mem_of_ne_nil _ hne
  obtain ⟨l, hl⟩ := key (rank a) a ha (Nat.le_refl _)
  exact List.ne_nil_of_mem hl

theorem leaves_append_rest_perm (rem : List α) :
    (leaves r rem ++ rem.filter (fun a => !(leaves r rem).contains a)).Perm rem := by
  have h : rem.filter (fun a => !(leaves r rem).contains a)
      = rem.filter (fun a => !(rem.all (fun b => !r a b))) := by
    apply List.filter_congr
    intro a ha
    congr 1
    rw [Bool.eq_iff_iff]
    simp only [List.contains_eq_mem, decide_eq_true_eq, mem_leaves, List.all_eq_true,
      Bool.not_eq_true']
    exact ⟨fun h => h.2, fun h => ⟨ha, h⟩⟩
  rw [h]
  exact List.filter_append_perm _ rem

/-- `each_once` on a generic graph: on a graph without cycles (edges decrease a rank) the
    peeling schedules every node exactly once, provided the loop is allowed `rem.length` rounds. -/
theorem peel_perm (rank : α → Nat) (fuel : Nat) (rem : List α)
    (hr : ∀ a ∈ rem, ∀ b ∈ rem, r a b = true → rank b < rank a) (hf : rem.length ≤ fuel) :
    (peel r fuel rem).flatten.Perm rem := by
  induction fuel generalizing rem with
  | zero =>
    have : rem = [] := List.eq_nil_of_length_eq_zero (by omega)
    subst this; simp [peel]
  | succ fuel ih =>
    by_cases hne : rem = []
    · subst hne; simp [peel_nil]
    · have hl := exists_leaf rank hr hne
      simp only [peel]
      rw [if_neg (by simpa [List.isEmpty_iff] using hl)]
      rw [List.flatten_cons]
      have hlt := rest_length_lt hl
      have hrec := ih (rem.filter (fun a => !(leaves r rem).contains a))
        (fun a ha b hb => hr a (mem_rest.1 ha).1 b (mem_rest.1 hb).1) (by omega)
      exact (List.Perm.append_left _ hrec).trans (leaves_append_rest_perm rem)

/-- The `fuel` of the model is not a restriction: the `while True` loop removes at least one
    node per round, so any `fuel ≥ rem.length` gives the same schedule. -/
theorem peel_fuel (fuel fuel' : Nat) (rem : List α) (h : rem.length ≤ fuel)
    (h' : rem.length ≤ fuel') : peel r fuel rem = peel r fuel' rem := by
  induction fuel generalizing fuel' rem with
  | zero =>
    have : rem = [] := List.eq_nil_of_length_eq_zero (by omega)
    subst this; simp [peel_nil]
  | succ fuel ih =>
    cases fuel' with
    | zero =>
      have : rem = [] := List.eq_nil_of_length_eq_zero (by omega)
      subst this; simp [peel_nil]
    | succ fuel' =>
      simp only [peel]
      split
      · rfl
      · rename_i hne
        have hl : leaves r rem ≠ [] := by simpa [List.isEmpty_iff] using hne
        have hlt := rest_length_lt hl
        rw [ih fuel' _ (by omega) (by omega)]

/-- After the loop stopped, no node is left on a graph without cycles: the loop terminates
    with everything scheduled (`peeling_terminates_on_dag`). -/
theorem peel_complete (rank : α → Nat) (fuel : Nat) (rem : List α)
    (hr : ∀ a ∈ rem, ∀ b ∈ rem, r a b = true → rank b < rank a) (hf : rem.length ≤ fuel) :
    ∀ a ∈ rem, ∃ st ∈ peel r fuel rem, a ∈ st := by
  intro a ha
  have := (peel_perm rank fuel rem hr hf).mem_iff.2 ha
  simpa [List.mem_flatten] using this

/-! ### The schedule does not depend on the order or the names of the nodes -/

theorem leaves_perm {rem rem' : List α} (h : rem.Perm rem') :
    (leaves r rem).Perm (leaves r rem') := by
  unfold leaves
  have hq : (fun a => rem.all (fun b => !r a b)) = (fun a => rem'.all (fun b => !r a b)) := by
    funext a
    rw [Bool.eq_iff_iff, List.all_eq_true, List.all_eq_true]
    exact ⟨fun hh b hb => hh b (h.mem_iff.2 hb), fun hh b hb => hh b (h.mem_iff.1 hb)⟩
  rw [hq]
  exact h.filter _

/-- Peeling a permutation of the nodes gives, round by round, a permutation of the same nodes. -/
theorem peel_perm_congr (fuel : Nat) {rem rem' : List α} (h : rem.Perm rem') :
    List.Forall₂ List.Perm (peel r fuel rem) (peel r fuel rem') := by
  induction fuel generalizing rem rem' with
  | zero => simp [peel]
  | succ fuel ih =>
    have hl := leaves_perm (r := r) h
    simp only [peel]
    by_cases he : leaves r rem = []
    · have he' : leaves r rem' = [] := by
        have := hl.length_eq; rw [he] at this
        exact List.eq_nil_of_length_eq_zero this.symm
      simp [he, he']
    · have he' : leaves r rem' ≠ [] := by
        intro hc; rw [hc] at hl; exact he hl.eq_nil
      rw [if_neg (by simpa [List.isEmpty_iff] using he),
        if_neg (by simpa [List.isEmpty_iff] using he')]
      refine List.Forall₂.cons hl (ih ?_)
      have hq : (fun a => !(leaves r rem).contains a) = (fun a => !(leaves r rem').contains a) := by
        funext a
        congr 1
        rw [Bool.eq_iff_iff]
        simp only [List.contains_eq_mem, decide_eq_true_eq]
        exact hl.mem_iff
      rw [hq]
      exact h.filter _

variable {β : Type} [BEq β] [LawfulBEq β]

/-- Renaming the nodes injectively (with the edges renamed accordingly) renames the schedule. -/
theorem peel_map (f : α → β) (r' : β → β → Bool) (fuel : Nat) (rem : List α)
    (hinj : ∀ a ∈ rem, ∀ b ∈ rem, f a = f b → a = b)
    (hr : ∀ a ∈ rem, ∀ b ∈ rem, r' (f a) (f b) = r a b) :
    peel r' fuel (rem.map f) = (peel r fuel rem).map (List.map f) := by
  induction fuel generalizing rem with
  | zero => simp [peel]
  | succ fuel ih =>
    have hlv : leaves r' (rem.map f) = (leaves r rem).map f := by
      unfold leaves
      rw [List.filter_map]
      congr 1
      apply List.filter_congr
      intro a ha
      simp only [Function.comp, List.all_map]
      rw [Bool.eq_iff_iff, List.all_eq_true, List.all_eq_true]
      constructor
      · intro hh b hb; rw [← hr a ha b hb]; exact hh b hb
      · intro hh b hb; simp only [Function.comp]; rw [hr a ha b hb]; exact hh b hb
    have hrest : (rem.map f).filter (fun x => !((leaves r rem).map f).contains x)
        = (rem.filter (fun a => !(leaves r rem).contains a)).map f := by
      rw [List.filter_map]
      congr 1
      apply List.filter_congr
      intro a ha
      simp only [Function.comp]
      congr 1
      rw [Bool.eq_iff_iff]
      simp only [List.contains_eq_mem, decide_eq_true_eq, List.mem_map]
      constructor
      · rintro ⟨b, hb, hfb⟩
        have := hinj b (mem_leaves.1 hb).1 a ha hfb
        rw [← this]; exact hb
      · intro ha'; exact ⟨a, ha', rfl⟩
    simp only [peel]
    rw [hlv]
    by_cases he : leaves r rem = []
    · simp [he]
    · rw [if_neg (by simpa [List.isEmpty_iff] using he), if_neg (by simpa [List.isEmpty_iff] using he)]
      rw [List.map_cons, hrest]
      congr 1
      apply ih
      · intro a ha b hb; exact hinj a (mem_rest.1 ha).1 b (mem_rest.1 hb).1
      · intro a ha b hb; exact hr a (mem_rest.1 ha).1 b (mem_rest.1 hb).1

end GV.C08
