/-
C08 helper lemmas: listing the same disciplines in another order.
`Relisting ds ds' σ τ`: position `i` of the new listing `ds'` holds the discipline at position
`σ i` of `ds`; `τ` is the inverse renumbering.
-/
import GemseoVerif.Lemmas.C08Scc

namespace GV.C08

open Relation

structure Relisting (ds ds' : List Disc) (σ τ : Nat → Nat) : Prop where
  length_eq : ds'.length = ds.length
  σ_lt : ∀ i, i < ds.length → σ i < ds.length
  τ_lt : ∀ k, k < ds.length → τ k < ds.length
  τσ : ∀ i, i < ds.length → τ (σ i) = i
  στ : ∀ k, k < ds.length → σ (τ k) = k
  get : ∀ i, i < ds.length → ds'[i]? = ds[σ i]?

namespace Relisting

variable {ds ds' : List Disc} {σ τ : Nat → Nat}

theorem symm (h : Relisting ds ds' σ τ) : Relisting ds' ds τ σ where
  length_eq := h.length_eq.symm
  σ_lt := fun i hi => h.length_eq ▸ h.τ_lt i (h.length_eq ▸ hi)
  τ_lt := fun i hi => h.length_eq ▸ h.σ_lt i (h.length_eq ▸ hi)
  τσ := fun i hi => h.στ i (h.length_eq ▸ hi)
  στ := fun i hi => h.τσ i (h.length_eq ▸ hi)
  get := fun k hk => by
    have hk' : k < ds.length := h.length_eq ▸ hk
    rw [h.get (τ k) (h.τ_lt k hk'), h.στ k hk']

theorem edge_eq (h : Relisting ds ds' σ τ) {i j : Nat} (hi : i < ds.length) (hj : j < ds.length) :
    edge ds' i j = edge ds (σ i) (σ j) := by
  unfold edge
  rw [h.get i hi, h.get j hj]
  have hne : (i != j) = (σ i != σ j) := by
    by_cases hij : i = j
    · subst hij; simp
    · have : σ i ≠ σ j := fun e => hij (by rw [← h.τσ i hi, ← h.τσ j hj, e])
      rw [(bne_iff_ne).2 hij, (bne_iff_ne).2 this]
  cases ds[σ i]? <;> cases ds[σ j]? <;> first | rfl | (simp only [hne])

theorem adj_map (h : Relisting ds ds' σ τ) {i j : Nat} (hij : Adj (edge ds') i j) :
    Adj (edge ds) (σ i) (σ j) := by
  have hlt := edge_lt hij
  have hi : i < ds.length := h.length_eq ▸ hlt.1
  have hj : j < ds.length := h.length_eq ▸ hlt.2
  unfold Adj at hij ⊢
  rw [← h.edge_eq hi hj]; exact hij

theorem rtg_map (h : Relisting ds ds' σ τ) {i j : Nat} (hij : ReflTransGen (Adj (edge ds')) i j) :
    ReflTransGen (Adj (edge ds)) (σ i) (σ j) :=
  ReflTransGen.lift σ (fun _ _ hab => h.adj_map hab) i j hij

theorem rtg_iff (h : Relisting ds ds' σ τ) {i j : Nat} (hi : i < ds.length) (hj : j < ds.length) :
    ReflTransGen (Adj (edge ds')) i j ↔ ReflTransGen (Adj (edge ds)) (σ i) (σ j) := by
  constructor
  · exact h.rtg_map
  · intro hij
    have := h.symm.rtg_map hij
    rwa [h.τσ i hi, h.τσ j hj] at this

/-- Mutual reachability does not depend on the listing order. -/
theorem mutual_eq (h : Relisting ds ds' σ τ) {i j : Nat} (hi : i < ds.length)
    (hj : j < ds.length) :
    mutualR (edge ds') ds'.length i j = mutualR (edge ds) ds.length (σ i) (σ j) := by
  rw [Bool.eq_iff_iff, (isMutual_edge ds').iff, (isMutual_edge ds).iff, h.length_eq,
    h.rtg_iff hi hj, h.rtg_iff hj hi]
  constructor
  · rintro ⟨_, _, h1, h2⟩; exact ⟨h.σ_lt i hi, h.σ_lt j hj, h1, h2⟩
  · rintro ⟨_, _, h1, h2⟩; exact ⟨hi, hj, h1, h2⟩

end Relisting

end GV.C08
