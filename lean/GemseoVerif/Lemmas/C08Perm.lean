/-
C08 helper lemmas: listing the same disciplines in another order.
`Relisting ds ds' σ τ`: position `i` of the new listing `ds'` holds the discipline at position
`σ i` of `ds`; `τ` is the inverse renumbering.
-/
import GemseoVerif.Lemmas.C08Scc
import Mathlib.Data.List.Forall2

namespace GV.C08

open Relation

structure Relisting (ds ds' : List Disc) (σ τ : Nat → Nat) : Prop where
  length_eq : ds'.length = ds.length
  σ_lt : ∀ i, i < ds.length → σ i < ds.length
  τ_lt : ∀ k, k < ds.length → τ k < ds.length
  τσ : ∀ i, i < ds.length → τ (σ i) = i
  στ : ∀ k, k < ds.length → σ (τ k) = k
  get : ∀ i, i < ds.length → ds'[i]? = ds[σ i]?

namespace Relisting

variable {ds ds' : List Disc} {σ τ : Nat → Nat}

theorem symm (h : Relisting ds ds' σ τ) : Relisting ds' ds τ σ where
  length_eq := h.length_eq.symm
  σ_lt := fun i hi => h.length_eq ▸ h.τ_lt i (h.length_eq ▸ hi)
  τ_lt := fun i hi => h.length_eq ▸ h.σ_lt i (h.length_eq ▸ hi)
  τσ := fun i hi => h.στ i (h.length_eq ▸ hi)
  στ := fun i hi => h.τσ i (h.length_eq ▸ hi)
  get := fun k hk => by
    have hk' : k < ds.length := h.length_eq ▸ hk
    rw [h.get (τ k) (h.τ_lt k hk'), h.στ k hk']

theorem edge_eq (h : Relisting ds ds' σ τ) {i j : Nat} (hi : i < ds.length) (hj : j < ds.length) :
    edge ds' i j = edge ds (σ i) (σ j) := by
  unfold edge
  rw [h.get i hi, h.get j hj]
  have hne : (i != j) = (σ i != σ j) := by
    by_cases hij : i = j
    · subst hij; simp
    · have : σ i ≠ σ j := fun e => hij (by rw [← h.τσ i hi, ← h.τσ j hj, e])
      rw [(bne_iff_ne).2 hij, (bne_iff_ne).2 this]
  cases ds[σ i]? <;> cases ds[σ j]? <;> first | rfl | (simp only [hne])

theorem adj_map (h : Relisting ds ds' σ τ) {i j : Nat} (hij : Adj (edge ds') i j) :
    Adj (edge ds) (σ i) (σ j) := by
  have hlt := edge_lt hij
  have hi : i < ds.length := h.length_eq ▸ hlt.1
  have hj : j < ds.length := h.length_eq ▸ hlt.2
  unfold Adj at hij ⊢
  rw [← h.edge_eq hi hj]; exact hij

theorem rtg_map (h : Relisting ds ds' σ τ) {i j : Nat} (hij : ReflTransGen (Adj (edge ds')) i j) :
    ReflTransGen (Adj (edge ds)) (σ i) (σ j) :=
  ReflTransGen.lift σ (fun _ _ hab => h.adj_map hab) i j hij

theorem rtg_iff (h : Relisting ds ds' σ τ) {i j : Nat} (hi : i < ds.length) (hj : j < ds.length) :
    ReflTransGen (Adj (edge ds')) i j ↔ ReflTransGen (Adj (edge ds)) (σ i) (σ j) := by
  constructor
  · exact h.rtg_map
  · intro hij
    have := h.symm.rtg_map hij
    rwa [h.τσ i hi, h.τσ j hj] at this

/-- Mutual reachability does not depend on the listing order. -/
theorem mutual_eq (h : Relisting ds ds' σ τ) {i j : Nat} (hi : i < ds.length)
    (hj : j < ds.length) :
    mutualR (edge ds') ds'.length i j = mutualR (edge ds) ds.length (σ i) (σ j) := by
  rw [Bool.eq_iff_iff, (isMutual_edge ds').iff, (isMutual_edge ds).iff, h.length_eq,
    h.rtg_iff hi hj, h.rtg_iff hj hi]
  constructor
  · rintro ⟨_, _, h1, h2⟩; exact ⟨h.σ_lt i hi, h.σ_lt j hj, h1, h2⟩
  · rintro ⟨_, _, h1, h2⟩; exact ⟨hi, hj, h1, h2⟩

end Relisting

/-! ### The stages do not depend on the numbering of the nodes -/

/-- Two numberings of the same graph: node `i` of the primed graph is node `σ i` of the other. -/
structure Renumber (adj mu adj' mu' : Nat → Nat → Bool) (n : Nat) (σ τ : Nat → Nat) : Prop where
  h : IsMutual adj mu n
  h' : IsMutual adj' mu' n
  σ_lt : ∀ i, i < n → σ i < n
  τ_lt : ∀ k, k < n → τ k < n
  τσ : ∀ i, i < n → τ (σ i) = i
  στ : ∀ k, k < n → σ (τ k) = k
  adj_eq : ∀ i j, i < n → j < n → adj' i j = adj (σ i) (σ j)
  mu_eq : ∀ i j, i < n → j < n → mu' i j = mu (σ i) (σ j)

/-- The representative (first member) of the component of `i`. -/
noncomputable def repOf {adj mu : Nat → Nat → Bool} {n : Nat} (h : IsMutual adj mu n) (i : Nat) :
    Nat :=
  if hi : i < n then Classical.choose (exists_rep h hi) else i

theorem repOf_spec {adj mu : Nat → Nat → Bool} {n : Nat} (h : IsMutual adj mu n) {i : Nat}
    (hi : i < n) : repOf h i ∈ reps mu n ∧ mu (repOf h i) i = true := by
  unfold repOf
  rw [dif_pos hi]
  exact Classical.choose_spec (exists_rep h hi)

namespace Renumber

variable {adj mu adj' mu' : Nat → Nat → Bool} {n : Nat} {σ τ : Nat → Nat}

/-- A component of the primed graph, named by its representative, as a component of the other. -/
noncomputable def f (R : Renumber adj mu adj' mu' n σ τ) (a' : Nat) : Nat := repOf R.h (σ a')

theorem f_spec (R : Renumber adj mu adj' mu' n σ τ) {a' : Nat} (ha : a' < n) :
    R.f a' ∈ reps mu n ∧ mu (R.f a') (σ a') = true :=
  repOf_spec R.h (R.σ_lt a' ha)

theorem f_inj (R : Renumber adj mu adj' mu' n σ τ) {a' b' : Nat} (ha : a' ∈ reps mu' n)
    (hb : b' ∈ reps mu' n) (hab : R.f a' = R.f b') : a' = b' := by
  have han := (mem_reps.1 ha).1
  have hbn := (mem_reps.1 hb).1
  have h1 := (R.f_spec han).2
  have h2 := (R.f_spec hbn).2
  rw [hab] at h1
  have h3 : mu (σ a') (σ b') = true := R.h.trans (R.h.symm h1) h2
  have h4 : mu' a' b' = true := by rw [R.mu_eq a' b' han hbn]; exact h3
  exact rep_unique R.h' ha hb h4 (R.h'.refl hbn)

theorem map_f_perm (R : Renumber adj mu adj' mu' n σ τ) :
    ((reps mu' n).map R.f).Perm (reps mu n) := by
  apply (List.perm_ext_iff_of_nodup ?_ reps_nodup).2
  · intro a
    simp only [List.mem_map]
    constructor
    · rintro ⟨a', ha', rfl⟩
      exact (R.f_spec (mem_reps.1 ha').1).1
    · intro ha
      have han := (mem_reps.1 ha).1
      obtain ⟨a', ha', hm⟩ := exists_rep R.h' (R.τ_lt a han)
      have ha'n := (mem_reps.1 ha').1
      refine ⟨a', ha', ?_⟩
      rw [R.mu_eq a' (τ a) ha'n (R.τ_lt a han), R.στ a han] at hm
      -- both R.f a' and a are the representative of the component of a
      have hs := R.f_spec ha'n
      exact rep_unique R.h hs.1 ha (R.h.trans hs.2 hm) (R.h.refl han)
  · exact List.Nodup.map_on (fun a ha b hb hab => R.f_inj ha hb hab) reps_nodup

theorem cedge_eq (R : Renumber adj mu adj' mu' n σ τ) {a' b' : Nat} (ha : a' ∈ reps mu' n)
    (hb : b' ∈ reps mu' n) :
    cedge adj mu n (R.f a') (R.f b') = cedge adj' mu' n a' b' := by
  have han := (mem_reps.1 ha).1
  have hbn := (mem_reps.1 hb).1
  have hfa := (R.f_spec han).2
  have hfb := (R.f_spec hbn).2
  rw [Bool.eq_iff_iff, cedge_iff, cedge_iff]
  constructor
  · rintro ⟨hne, i, j, hai, hbj, hi, hj, hij⟩
    refine ⟨fun e => hne (by rw [e]), τ i, τ j, ?_, ?_, R.τ_lt i hi, R.τ_lt j hj, ?_⟩
    · rw [R.mu_eq a' (τ i) han (R.τ_lt i hi), R.στ i hi]
      exact R.h.trans (R.h.symm hfa) hai
    · rw [R.mu_eq b' (τ j) hbn (R.τ_lt j hj), R.στ j hj]
      exact R.h.trans (R.h.symm hfb) hbj
    · rw [R.adj_eq (τ i) (τ j) (R.τ_lt i hi) (R.τ_lt j hj), R.στ i hi, R.στ j hj]
      exact hij
  · rintro ⟨hne, i, j, hai, hbj, hi, hj, hij⟩
    refine ⟨fun e => hne (R.f_inj ha hb e), σ i, σ j, ?_, ?_, R.σ_lt i hi, R.σ_lt j hj, ?_⟩
    · rw [R.mu_eq a' i han hi] at hai
      exact R.h.trans hfa hai
    · rw [R.mu_eq b' j hbn hj] at hbj
      exact R.h.trans hfb hbj
    · rw [← R.adj_eq i j hi hj]; exact hij

/-- Stage by stage, the components scheduled for the primed graph are (as sets) the components
    scheduled for the other graph. -/
theorem stages (R : Renumber adj mu adj' mu' n σ τ) :
    List.Forall₂ (fun st' st => (st'.map R.f).Perm st) (stagesOf adj' mu' n) (stagesOf adj mu n) := by
  unfold stagesOf
  rw [List.forall₂_reverse_iff]
  have hlen : (reps mu' n).length = (reps mu n).length := by
    have := R.map_f_perm.length_eq; simpa using this
  have hmap := peel_map (r := cedge adj' mu' n) R.f (cedge adj mu n) (reps mu' n).length (reps mu' n)
    (fun a ha b hb hab => R.f_inj ha hb hab) (fun a ha b hb => R.cedge_eq ha hb)
  have hperm := peel_perm_congr (r := cedge adj mu n) (reps mu' n).length R.map_f_perm
  rw [hmap, hlen] at hperm
  rw [hlen]
  exact List.forall₂_map_left_iff.1 hperm

/-- `i` is scheduled at stage `k`. -/
def InStage (seq : List (List (List Nat))) (k i : Nat) : Prop :=
  ∃ g ∈ seq[k]?.getD [], i ∈ g

theorem inStage_sequenceOf {adj mu : Nat → Nat → Bool} {n k i : Nat} :
    InStage (sequenceOf adj mu n) k i ↔
      ∃ a ∈ (stagesOf adj mu n)[k]?.getD [], i < n ∧ mu a i = true := by
  unfold InStage sequenceOf
  rw [List.getElem?_map]
  cases (stagesOf adj mu n)[k]? with
  | none => simp
  | some st =>
    simp only [Option.map_some, Option.getD_some, List.mem_map]
    constructor
    · rintro ⟨g, ⟨a, ha, rfl⟩, hi⟩; exact ⟨a, ha, mem_comp.1 hi⟩
    · rintro ⟨a, ha, hi⟩; exact ⟨_, ⟨a, ha, rfl⟩, mem_comp.2 hi⟩

/-- The stage of a node does not depend on the numbering. -/
theorem inStage_iff (R : Renumber adj mu adj' mu' n σ τ) (k i : Nat) (hi : i < n) :
    InStage (sequenceOf adj' mu' n) k i ↔ InStage (sequenceOf adj mu n) k (σ i) := by
  rw [inStage_sequenceOf, inStage_sequenceOf]
  have hst := R.stages
  have hlen := hst.length_eq
  by_cases hk : k < (stagesOf adj' mu' n).length
  · have hk2 : k < (stagesOf adj mu n).length := hlen ▸ hk
    have hrel : (((stagesOf adj' mu' n)[k]).map R.f).Perm ((stagesOf adj mu n)[k]) := by
      have := (List.forall₂_iff_get.1 hst).2 k hk hk2
      simpa using this
    rw [List.getElem?_eq_getElem hk, List.getElem?_eq_getElem hk2]
    simp only [Option.getD_some]
    have hreps : ∀ a' ∈ (stagesOf adj' mu' n)[k], a' ∈ reps mu' n := fun a' ha' =>
      stage_mem_reps R.h' (List.getElem_mem hk) ha'
    constructor
    · rintro ⟨a', ha', _, hm⟩
      have ha'n := (mem_reps.1 (hreps a' ha')).1
      refine ⟨R.f a', hrel.mem_iff.1 (List.mem_map.2 ⟨a', ha', rfl⟩), R.σ_lt i hi, ?_⟩
      rw [R.mu_eq a' i ha'n hi] at hm
      exact R.h.trans (R.f_spec ha'n).2 hm
    · rintro ⟨a, ha, _, hm⟩
      obtain ⟨a', ha', rfl⟩ := List.mem_map.1 (hrel.mem_iff.2 ha)
      have ha'n := (mem_reps.1 (hreps a' ha')).1
      refine ⟨a', ha', hi, ?_⟩
      rw [R.mu_eq a' i ha'n hi]
      exact R.h.trans (R.h.symm (R.f_spec ha'n).2) hm
  · have hk2 : ¬ k < (stagesOf adj mu n).length := hlen ▸ hk
    rw [List.getElem?_eq_none (by omega), List.getElem?_eq_none (by omega)]
    simp

end Renumber

/-- Two listings of the same disciplines are two numberings of the same dependency graph. -/
theorem Relisting.renumber {ds ds' : List Disc} {σ τ : Nat → Nat} (h : Relisting ds ds' σ τ) :
    Renumber (edge ds) (mutualR (edge ds) ds.length) (edge ds') (mutualR (edge ds') ds'.length)
      ds.length σ τ where
  h := isMutual_edge ds
  h' := h.length_eq ▸ isMutual_edge ds'
  σ_lt := h.σ_lt
  τ_lt := h.τ_lt
  τσ := h.τσ
  στ := h.στ
  adj_eq := fun _ _ hi hj => h.edge_eq hi hj
  mu_eq := fun _ _ hi hj => h.mutual_eq hi hj

end GV.C08
