/-
C03 — the termination-exception table (regenerated from /repo by `harness/translate_c03.py` into
`Gen/C03Term.lean`) and the part of `BaseDriverLibrary.execute` that turns a termination exception into a result.
-/
import GemseoVerif.Gen.C03Term

namespace GV.C03

/-- `issubclass(c, d)` following the base classes of the table (`fuel` = an upper bound of the depth). -/
def isSub (cls : List (String × String)) : Nat → String → String → Bool
  | 0, c, d => c == d
  | n + 1, c, d =>
    c == d ||
      match cls.lookup c with
      | some b => isSub cls n b d
      | none => false

/-- Is an exception of class `c` caught by an `except (caught…)` clause? -/
def caughtBy (cls : List (String × String)) (caught : List String) (c : String) : Bool :=
  caught.any (isSub cls cls.length c)

/-- The exception class that carries each stop reason of the model. -/
def Term.className : Term → String
  | .maxIter => "MaxIterReachedException"
  | .functionIsNan => "FunctionIsNan"
  | .desvarIsNan => "DesvarIsNan"
  | .maxTime => "MaxTimeReached"
  | .ftol => "FtolReached"
  | .xtol => "XtolReached"
  | .kkt => "KKTReached"

/-- What `execute` does with what `_pre_run`/`_run` did: a normal return or a caught termination exception
    builds a result (`_get_result`, total by C04 on the recorded history); any other exception propagates. -/
inductive ExecuteEnd where
  | result        -- an `OptimizationResult` is returned
  | propagates    -- the exception leaves `execute`
  deriving DecidableEq, Repr

def executeEnd (cls : List (String × String)) (caught : List String) (builds : Bool) :
    Option String → ExecuteEnd
  | none => .result
  | some c => if caughtBy cls caught c && builds then .result else .propagates

end GV.C03
