/-
C11 — the invariant of the store/export state machine and its preservation.
-/
import GemseoVerif.Lemmas.C11

namespace GV.C11

variable {κ : Type} [DecidableEq κ]

/-- The histories the property quantifies over: a `store` passes a dict (distinct names) and never
    *changes* an output that is already in the file — append mode by design does not propagate
    overwrites. New points, new outputs at existing points, overwrites of outputs that were not
    exported yet, and re-stores of an exported output with its current value are all allowed.
    Exports (append or fresh) are always allowed. -/
def InScope (s : State κ) : Op → Prop
  | .exportFile _ => True
  | .reload => True
  | .store p o => (o.map (·.1)).Nodup ∧
      ∀ i e outs, dbIndex p s.db = some i → alook i s.file = some e → alook p s.db = some outs →
        ∀ n v, alook n o = some v → n ∈ e.keys → alook n outs = some v

/-- The invariant of the state machine. -/
structure Inv (H : Pt → κ) (s : State κ) : Prop where
  wf : DbWF s.db
  file : FileOK s.db s.file
  pendIn : ∀ hq ∈ s.pend, hq.2 ∈ s.db.map (·.1)
  pendKey : ∀ hq ∈ s.pend, hq.1 = H hq.2
  /-- Every point whose file entry is missing or incomplete is pending. -/
  cover : s.file ≠ [] → ∀ i p outs, s.db[i]? = some (p, outs) →
    p ∈ s.pend.map (·.2) ∨ ∃ e, alook i s.file = some e ∧ EntryComplete s.db i e
  /-- The file is a complete image of the database as it was at the last export (a ghost
      snapshot): this is what a restart reads back. -/
  snap : ∃ dbE, DbWF dbE ∧ FileOK dbE s.file ∧
    ∀ i p outs, dbE[i]? = some (p, outs) → ∃ e, alook i s.file = some e ∧ EntryComplete dbE i e

theorem inv_init (H : Pt → κ) : Inv H (State.init : State κ) :=
  ⟨⟨by simp [State.init], by simp [State.init]⟩, ⟨by simp [State.init], by simp [State.init]⟩,
   by simp [State.init], by simp [State.init], by simp [State.init],
   ⟨[], ⟨by simp, by simp⟩, ⟨by simp [State.init], by simp [State.init]⟩, by simp⟩⟩

theorem inv_store (H : Pt → κ) (hinj : Function.Injective H) (s : State κ) (hs : Inv H s)
    (p : Pt) (o : Outs) (hsc : InScope s (.store p o)) : Inv H (doStore H s p o) := by
  obtain ⟨ndo, hover⟩ := hsc
  have wf' := dbStore_wf hs.wf p ndo
  refine ⟨wf', ⟨hs.file.idx, ?_⟩, ?_, ?_, ?_, hs.snap⟩
  · -- the file stays consistent with the updated database
    intro ie hie
    have hie : ie ∈ s.file := hie
    obtain ⟨q, c, L, hget, hx, hlay, ndL, hsub⟩ := hs.file.ok ie hie
    have hget' := dbStore_getElem_old hs.wf.pts p o hget
    refine ⟨q, _, L, hget', hx, hlay, ndL, ?_⟩
    intro n v hv
    by_cases hq : q = p
    · subst hq
      simp only [if_true]
      rw [alook_updateOuts c o ndo]
      cases hno : alook n o with
      | none => simpa using hsub n v hv
      | some w =>
        have hidx := dbIndex_of_getElem hs.wf.pts hget
        obtain ⟨c2, hget2, hlook⟩ := dbIndex_spec hidx
        rw [hget] at hget2
        injection hget2 with hget2; injection hget2 with _ hc; subst hc
        have hfile : alook ie.1 s.file = some ie.2 := alook_of_mem_nodup hs.file.idx hie
        have hkey : n ∈ ie.2.keys := by
          rw [hlay.keys]
          exact List.mem_map.mpr ⟨(n, v), alook_mem hv, rfl⟩
        have h1 := hover ie.1 ie.2 c hidx hfile hlook n w hno hkey
        have h2 := hsub n v hv
        rw [h1] at h2
        simpa using h2
    · simpa [hq] using hsub n v hv
  · -- pending points are database points
    intro hq hhq
    have hkeys : ∀ x, x ∈ s.db.map (·.1) ∨ x = p → x ∈ (dbStore s.db p o).map (·.1) := by
      intro x hx
      rw [dbStore_keys]
      split
      · rcases hx with hx | hx
        · exact hx
        · subst hx; assumption
      · rcases hx with hx | hx
        · exact List.mem_append_left _ hx
        · subst hx; simp
    rcases addPending_sub H hhq with h | h
    · exact hkeys _ (Or.inl (hs.pendIn hq h))
    · subst h; exact hkeys _ (Or.inr rfl)
  · intro hq hhq
    rcases addPending_sub H hhq with h | h
    · exact hs.pendKey hq h
    · subst h; rfl
  · -- coverage
    intro hne i q c' hget'
    by_cases hqp : q = p
    · subst hqp
      exact Or.inl (List.mem_map.mpr ⟨(H q, q), addPending_mem_self H _ _, rfl⟩)
    · rcases dbStore_getElem_new hs.wf.pts p o hget' with ⟨c, hc, hc'⟩ | ⟨_, hq, _, _⟩
      · simp only [hqp, if_false] at hc'
        subst hc'
        rcases hs.cover hne i q c' hc with hpend | ⟨e, he, p0, outs0, L, hg, hx, hlay, ndL, heq⟩
        · left
          obtain ⟨hq, hhq, rfl⟩ := List.mem_map.mp hpend
          refine List.mem_map.mpr ⟨hq, addPending_keep H hhq ?_, rfl⟩
          rw [hs.pendKey hq hhq]
          exact fun e => hqp (hinj e)
        · right
          rw [hc] at hg
          injection hg with hg; injection hg with h1 h2; subst h1; subst h2
          exact ⟨e, he, q, c', L, hget', hx, hlay, ndL, heq⟩
      · exact absurd hq hqp

omit [DecidableEq κ] in
theorem inv_export (H : Pt → κ) (s : State κ) (hs : Inv H s) (append : Bool) :
    ∃ s', doExport s append = some s' ∧ Inv H s' ∧ s'.db = s.db ∧ s'.pend = [] ∧
      ∀ i p outs, s.db[i]? = some (p, outs) → ∃ e, alook i s'.file = some e ∧ EntryComplete s.db i e := by
  unfold doExport
  by_cases hb : (append && !s.file.isEmpty) = true
  · simp only [hb, if_true]
    have hne : s.file ≠ [] := by
      intro h; simp [h] at hb
    obtain ⟨F', hrun, hF', htouched, huntouched⟩ :=
      appendPending_spec s.db hs.wf (s.pend.map (·.2))
        (by intro p hp; obtain ⟨hq, hhq, rfl⟩ := List.mem_map.mp hp; exact hs.pendIn hq hhq)
        s.file hs.file
    have hall : ∀ i p outs, s.db[i]? = some (p, outs) →
        ∃ e, alook i F' = some e ∧ EntryComplete s.db i e := by
      intro i p outs hget
      by_cases ht : ∃ q ∈ s.pend.map (·.2), dbIndex q s.db = some i
      · exact htouched i ht
      · rcases hs.cover hne i p outs hget with hp | ⟨e, he, hc⟩
        · exact absurd ⟨p, hp, dbIndex_of_getElem hs.wf.pts hget⟩ ht
        · exact ⟨e, by rw [huntouched i ht]; exact he, hc⟩
    refine ⟨{ db := s.db, pend := [], file := F' }, by simp [hrun], ?_, rfl, rfl, hall⟩
    exact ⟨hs.wf, hF', by simp, by simp, fun _ i p outs hget => Or.inr (hall i p outs hget),
      ⟨s.db, hs.wf, hF', hall⟩⟩
  · simp only [hb, if_false, Bool.false_eq_true]
    obtain ⟨F, hF, hok, _, hall⟩ := exportAll_spec s.db hs.wf
    refine ⟨{ db := s.db, pend := [], file := F }, by simp [hF], ?_, rfl, rfl, hall⟩
    exact ⟨hs.wf, hok, by simp, by simp, fun _ i p outs hget => Or.inr (hall i p outs hget),
      ⟨s.db, hs.wf, hok, hall⟩⟩

theorem foldl_addPending_spec (H : Pt → κ) (S : List Pt) (d : Db) (acc : List (κ × Pt))
    (hd : ∀ po ∈ d, po.1 ∈ S) (hacc : ∀ hq ∈ acc, hq.1 = H hq.2 ∧ hq.2 ∈ S) :
    ∀ hq ∈ d.foldl (fun pend po => addPending H pend po.1) acc, hq.1 = H hq.2 ∧ hq.2 ∈ S := by
  induction d generalizing acc with
  | nil => simpa using hacc
  | cons po t ih =>
    simp only [List.foldl_cons]
    apply ih _ (fun q hq => hd q (List.mem_cons_of_mem _ hq))
    intro hq hhq
    rcases addPending_sub H hhq with h | h
    · exact hacc hq h
    · subst h; exact ⟨rfl, hd po (by simp)⟩

/-- A restart (`Database.from_hdf` / `update_from_hdf` into a new database) re-establishes the
    invariant: the new database is what the file holds, and the file is complete for it. -/
theorem inv_reload (H : Pt → κ) (s : State κ) (hs : Inv H s) :
    ∃ s', doReload H s = some s' ∧ Inv H s' ∧ s'.file = s.file := by
  obtain ⟨dbE, wfE, hFE, hallE⟩ := hs.snap
  obtain ⟨d, hd, heq, wfd⟩ := readFile_complete dbE wfE s.file hFE hallE
  have hpts := heq.points
  -- every entry of the file is complete for the reloaded database
  have hcompl : ∀ i e, EntryComplete dbE i e → EntryComplete d i e := by
    intro i e ⟨p, outs, L, hget, hx, hlay, ndL, hoe⟩
    unfold DbEq at heq
    have hlen := heq.length_eq
    have hi : i < dbE.length := by
      by_contra hn
      rw [List.getElem?_eq_none (by omega)] at hget; cases hget
    have hid : i < d.length := by omega
    have hrel := (List.forall₂_iff_get.mp heq).2 i hid hi
    simp only [List.get_eq_getElem] at hrel
    have hdbE : dbE[i] = (p, outs) := by
      have := List.getElem?_eq_getElem hi
      rw [hget] at this; exact (Option.some.inj this).symm
    rw [hdbE] at hrel
    refine ⟨d[i].1, d[i].2, L, by simp [hid], by rw [hx, hrel.1], hlay, ndL, ?_⟩
    intro n
    rw [hoe n]; exact (hrel.2 n).symm
  have hall : ∀ i p outs, d[i]? = some (p, outs) → ∃ e, alook i s.file = some e ∧ EntryComplete d i e := by
    intro i p outs hget
    have hlen := (show List.Forall₂ _ d dbE from heq).length_eq
    have hid : i < d.length := by
      by_contra hn
      rw [List.getElem?_eq_none (by omega)] at hget; cases hget
    obtain ⟨e, he, hc⟩ := hallE i dbE[i].1 dbE[i].2 (by simp [show i < dbE.length by omega])
    exact ⟨e, he, hcompl i e hc⟩
  have hFd : FileOK d s.file := by
    refine ⟨hFE.idx, ?_⟩
    intro ie hie
    have hlook : alook ie.1 s.file = some ie.2 := alook_of_mem_nodup hFE.idx hie
    obtain ⟨p, outs, L, hget, _⟩ := hFE.ok ie hie
    obtain ⟨e, he, hc⟩ := hallE ie.1 p outs hget
    rw [hlook] at he
    injection he with he; subst he
    exact (hcompl ie.1 ie.2 hc).ok
  have hpend := foldl_addPending_spec H (d.map (·.1)) d []
    (fun po hpo => List.mem_map.mpr ⟨po, hpo, rfl⟩) (by simp)
  refine ⟨{ db := d, pend := d.foldl (fun pend po => addPending H pend po.1) [], file := s.file },
    by simp [doReload, hd], ?_, rfl⟩
  exact ⟨wfd, hFd, fun hq hhq => (hpend hq hhq).2, fun hq hhq => (hpend hq hhq).1,
    fun _ i p outs hget => Or.inr (hall i p outs hget), ⟨d, wfd, hFd, hall⟩⟩

theorem foldl_doStore_file (H : Pt → κ) (s : State κ) (sts : List (Pt × Outs)) :
    (sts.foldl (fun st po => doStore H st po.1 po.2) s).file = s.file := by
  induction sts generalizing s with
  | nil => rfl
  | cons po t ih => simp only [List.foldl_cons]; rw [ih]; rfl

theorem nodupB_iff (l : List String) : nodupB l = true ↔ l.Nodup := by
  induction l with
  | nil => simp [nodupB]
  | cons a t ih => simp [nodupB, ih]

omit [DecidableEq κ] in
/-- The Boolean checker of the driver is sound for `InScope`. -/
theorem inScope_of_inScopeB (s : State κ) (op : Op) (h : inScopeB s op = true) : InScope s op := by
  cases op with
  | exportFile a => trivial
  | reload => trivial
  | store p o =>
    simp only [inScopeB, Bool.and_eq_true] at h
    refine ⟨(nodupB_iff _).mp h.1, ?_⟩
    intro i e outs hi he ho n v hv hk
    have h2 := h.2
    simp only [hi, ho, he, List.all_eq_true] at h2
    have := h2 (n, v) (alook_mem hv)
    simp only [Bool.or_eq_true, Bool.not_eq_true', List.contains_eq_mem, decide_eq_false_iff_not,
      beq_iff_eq] at this
    rcases this with h3 | h3
    · exact absurd hk h3
    · exact h3

end GV.C11
