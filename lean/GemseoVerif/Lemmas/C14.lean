/-
C14 helper lemmas: the flat views of the C02 design space are projections of one list of
components (`comps`), so `untransform_vect` is a single `zipWith` over the components; it splits
variable by variable; component-wise bounds and integrality.
-/
import GemseoVerif.Lemmas.C14Round
import GemseoVerif.Lemmas.C02Ops
import Mathlib.Tactic.Linarith
import Mathlib.Tactic.Ring

namespace GV.C14
open GV GV.C02

/-- Every variable has as many lower as upper bounds (part of C02's well-formedness). -/
def LenOk (d : DS) : Prop := ∀ v ∈ d.vars, v.lb.length = v.ub.length

theorem boundedOk_lenOk (d : DS) (h : boundedOk d = true) : LenOk d := by
  intro v hv
  simp only [boundedOk, List.all_eq_true, Bool.and_eq_true, beq_iff_eq] at h
  exact (h v hv).1

theorem wf_lenOk (d : DS) (h : d.WF) : LenOk d := fun v hv => (h.2 v hv).1

theorem boundedOk_compOk (d : DS) (h : boundedOk d = true) : ∀ c ∈ comps d, compOk c = true := by
  intro c hc
  simp only [boundedOk, List.all_eq_true, Bool.and_eq_true, beq_iff_eq] at h
  simp only [comps, List.mem_flatMap] at hc
  obtain ⟨v, hv, hcv⟩ := hc
  exact (h v hv).2 c hcv

/-! ### zipWith plumbing -/

theorem zipWith_left {α β : Type} (l1 : List α) (l2 : List β) (h : l1.length = l2.length) :
    List.zipWith (fun a _ => a) l1 l2 = l1 := by
  induction l1 generalizing l2 with
  | nil => simp
  | cons a as ih =>
    cases l2 with
    | nil => simp at h
    | cons b bs => simp [ih bs (by simpa using h)]

theorem zipWith_right {α β : Type} (l1 : List α) (l2 : List β) (h : l1.length = l2.length) :
    List.zipWith (fun _ b => b) l1 l2 = l2 := by
  induction l1 generalizing l2 with
  | nil =>
    have : l2 = [] := List.eq_nil_of_length_eq_zero (by simpa using h.symm)
    simp [this]
  | cons a as ih =>
    cases l2 with
    | nil => simp at h
    | cons b bs => simp [ih bs (by simpa using h)]

theorem zipWith_const {α β γ : Type} (c : γ) (l1 : List α) (l2 : List β) (h : l1.length = l2.length) :
    List.zipWith (fun _ _ => c) l1 l2 = List.replicate l1.length c := by
  induction l1 generalizing l2 with
  | nil => simp
  | cons a as ih =>
    cases l2 with
    | nil => simp at h
    | cons b bs => simp [ih bs (by simpa using h), List.replicate_succ]

theorem varComps_length (v : Var) (h : v.lb.length = v.ub.length) : (varComps v).length = v.size := by
  simp [varComps, Var.size, h]

theorem varComps_lb (v : Var) (h : v.lb.length = v.ub.length) : (varComps v).map (·.2.1) = v.lb := by
  simp only [varComps, List.map_zipWith]
  exact zipWith_left v.lb v.ub h

theorem varComps_ub (v : Var) (h : v.lb.length = v.ub.length) : (varComps v).map (·.2.2) = v.ub := by
  simp only [varComps, List.map_zipWith]
  exact zipWith_right v.lb v.ub h

theorem varComps_int (v : Var) (h : v.lb.length = v.ub.length) :
    (varComps v).map (·.1) = List.replicate v.size v.isInt := by
  simp only [varComps, List.map_zipWith, Var.size]
  exact zipWith_const v.isInt v.lb v.ub h

theorem zipWith_eq_map_zip' {α β γ : Type} (f : α → β → γ) (l1 : List α) (l2 : List β) :
    List.zipWith f l1 l2 = (l1.zip l2).map (fun p => f p.1 p.2) := by
  induction l1 generalizing l2 with
  | nil => simp
  | cons a as ih =>
    cases l2 with
    | nil => simp
    | cons b bs => simp [ih bs]

theorem varComps_norm (v : Var) :
    (varComps v).map (fun c => c.2.1.isSome && c.2.2.isSome) = Var.normMask true v := by
  simp only [varComps, Var.normMask, List.map_zipWith]
  rw [zipWith_eq_map_zip']
  simp

theorem flatMap_congr' {α β : Type} (vs : List α) (f g : α → List β) (h : ∀ v ∈ vs, f v = g v) :
    vs.flatMap f = vs.flatMap g := by
  induction vs with
  | nil => rfl
  | cons v vs ih =>
    simp only [List.flatMap_cons]
    rw [h v (by simp), ih (fun w hw => h w (List.mem_cons_of_mem _ hw))]

theorem flatLb_eq (d : DS) (h : LenOk d) : d.flatLb = (comps d).map (·.2.1) := by
  simp only [DS.flatLb, comps, List.map_flatMap]
  exact flatMap_congr' _ _ _ (fun v hv => (varComps_lb v (h v hv)).symm)

theorem flatUb_eq (d : DS) (h : LenOk d) : d.flatUb = (comps d).map (·.2.2) := by
  simp only [DS.flatUb, comps, List.map_flatMap]
  exact flatMap_congr' _ _ _ (fun v hv => (varComps_ub v (h v hv)).symm)

theorem intMask_eq (d : DS) (h : LenOk d) : d.intMask = (comps d).map (·.1) := by
  simp only [DS.intMask, comps, List.map_flatMap]
  exact flatMap_congr' _ _ _ (fun v hv => (varComps_int v (h v hv)).symm)

theorem normMask_eq (d : DS) :
    (d.setIntNorm true).normMask = (comps d).map (fun c => c.2.1.isSome && c.2.2.isSome) := by
  simp only [DS.normMask, DS.setIntNorm, comps, List.map_flatMap]
  exact flatMap_congr' _ _ _ (fun v _ => (varComps_norm v).symm)

theorem comps_length (d : DS) (h : LenOk d) : (comps d).length = d.dimension := by
  have := flatMap_length_eq_sum d.vars varComps (fun w hw => varComps_length w (h w hw))
  simpa [comps, DS.dimension, DS.sizes] using this

theorem zipWith4_map {σ α β γ δ ε : Type} (f : α → β → γ → δ → ε) (a : σ → α) (b : σ → β) (c : σ → γ)
    (cs : List σ) (u : List δ) :
    zipWith4 f (cs.map a) (cs.map b) (cs.map c) u = List.zipWith (fun x t => f (a x) (b x) (c x) t) cs u := by
  induction cs generalizing u with
  | nil => cases u <;> simp [zipWith4]
  | cons x xs ih =>
    cases u with
    | nil => simp [zipWith4]
    | cons t ts => simp [zipWith4, ih ts]

theorem zipWith3_map {σ α β γ δ : Type} (f : α → β → γ → δ) (a : σ → α) (b : σ → β)
    (cs : List σ) (u : List γ) :
    zipWith3 f (cs.map a) (cs.map b) u = List.zipWith (fun x t => f (a x) (b x) t) cs u := by
  induction cs generalizing u with
  | nil => cases u <;> simp [zipWith3]
  | cons x xs ih =>
    cases u with
    | nil => simp [zipWith3]
    | cons t ts => simp [zipWith3, ih ts]

theorem zipWith_map_zipWith {σ α β γ δ : Type} (g : α → β → γ) (a : σ → α) (h : σ → δ → β)
    (cs : List σ) (u : List δ) :
    List.zipWith g (cs.map a) (List.zipWith h cs u) = List.zipWith (fun x t => g (a x) (h x t)) cs u := by
  induction cs generalizing u with
  | nil => simp
  | cons x xs ih =>
    cases u with
    | nil => simp
    | cons t ts => simp [ih ts]

/-- **`untransform_vect` is one component-wise map over the components in variable order.** -/
theorem untransform_eq (d : DS) (h : LenOk d) (u : List Rat) :
    untransform d u = List.zipWith untransformComp (comps d) u := by
  have hlb : (d.setIntNorm true).flatLb = (comps d).map (·.2.1) := by
    simpa [DS.setIntNorm, DS.flatLb] using flatLb_eq d h
  have hub : (d.setIntNorm true).flatUb = (comps d).map (·.2.2) := by
    simpa [DS.setIntNorm, DS.flatUb] using flatUb_eq d h
  have hint : (d.setIntNorm true).intMask = (comps d).map (·.1) := by
    simpa [DS.setIntNorm, DS.intMask] using intMask_eq d h
  unfold untransform DS.unnormalizeVect
  simp only [if_true]
  rw [normMask_eq, hlb, hub, hint, zipWith4_map, zipWith_map_zipWith]
  rfl

/-- `transform_vect` (integer normalisation enabled) component-wise. -/
theorem transform_eq (d : DS) (h : LenOk d) (x : List Rat) :
    transform d x = List.zipWith transformComp (comps d) x := by
  have hlb : (d.setIntNorm true).flatLb = (comps d).map (·.2.1) := by
    simpa [DS.setIntNorm, DS.flatLb] using flatLb_eq d h
  have hub : (d.setIntNorm true).flatUb = (comps d).map (·.2.2) := by
    simpa [DS.setIntNorm, DS.flatUb] using flatUb_eq d h
  unfold transform DS.normalizeVect
  rw [normMask_eq, hlb, hub, zipWith4_map]
  rfl

/-! ### variable by variable -/

theorem zipWith_append_left {α β γ : Type} (f : α → β → γ) (a b : List α) (u : List β) :
    List.zipWith f (a ++ b) u =
      List.zipWith f a (u.take a.length) ++ List.zipWith f b (u.drop a.length) := by
  induction a generalizing u with
  | nil => simp
  | cons x xs ih =>
    cases u with
    | nil => simp
    | cons t ts => simp [ih ts]

theorem zipWith_flatMap_split (F : Comp → Rat → Rat) (vs : List Var)
    (h : ∀ v ∈ vs, v.lb.length = v.ub.length) (u : List Rat) :
    List.zipWith F (vs.flatMap varComps) u =
      (List.zipWith (fun v b => List.zipWith F (varComps v) b) vs (splitBySizes (vs.map Var.size) u)).flatten := by
  induction vs generalizing u with
  | nil => simp [splitBySizes]
  | cons v vs ih =>
    simp only [List.flatMap_cons, List.map_cons, splitBySizes, List.zipWith_cons_cons, List.flatten_cons]
    rw [zipWith_append_left, varComps_length v (h v (by simp))]
    rw [ih (fun w hw => h w (List.mem_cons_of_mem _ hw))]

theorem splitBySizes_length (sizes : List Nat) (x : List Rat) : (splitBySizes sizes x).length = sizes.length := by
  induction sizes generalizing x with
  | nil => simp [splitBySizes]
  | cons s ss ih => simp [splitBySizes, ih]

/-! ### one component -/

theorem compOk_iff (c : Comp) :
    compOk c = true ↔ ∃ l u : Rat, c.2.1 = some l ∧ c.2.2 = some u ∧ l ≤ u ∧
      (c.1 = true → isIntegral l = true ∧ isIntegral u = true) := by
  obtain ⟨b, lo, uo⟩ := c
  cases lo with
  | none => simp [compOk]
  | some l =>
    cases uo with
    | none => simp [compOk]
    | some u =>
      simp only [compOk, Bool.and_eq_true, decide_eq_true_eq, Bool.or_eq_true, Bool.not_eq_true',
        Option.some.injEq, exists_and_left, exists_eq_left']
      constructor
      · rintro ⟨hle, hb⟩
        refine ⟨hle, fun hb1 => ?_⟩
        rcases hb with hb0 | hb2
        · rw [hb1] at hb0; cases hb0
        · exact hb2
      · rintro ⟨hle, hb⟩
        refine ⟨hle, ?_⟩
        cases b with
        | false => exact Or.inl rfl
        | true => exact Or.inr (hb rfl)

/-- The affine part of a bounded component. -/
theorem untransformComp_bounded (b : Bool) (l u t : Rat) :
    untransformComp (b, some l, some u) t = roundIf b (t * (u - l) + l) := by
  simp [untransformComp, unnormComp, scaleOf]

/-- **One component**: a unit value in `[0,1]` lands inside the bounds, on an integer for an
    integer variable. -/
theorem untransformComp_in_bounds (c : Comp) (hc : compOk c = true) (t : Rat) (h0 : 0 ≤ t) (h1 : t ≤ 1) :
    ∃ l u : Rat, c.2.1 = some l ∧ c.2.2 = some u ∧ l ≤ untransformComp c t ∧ untransformComp c t ≤ u ∧
      (c.1 = true → isIntegral (untransformComp c t) = true) := by
  obtain ⟨l, u, hl, hu, hle, hint⟩ := (compOk_iff c).mp hc
  obtain ⟨b, lo, uo⟩ := c
  simp only at hl hu hint
  subst hl hu
  refine ⟨l, u, rfl, rfl, ?_⟩
  rw [untransformComp_bounded]
  have hr : 0 ≤ u - l := by linarith
  have hy1 : l ≤ t * (u - l) + l := by
    have := mul_nonneg h0 hr
    linarith
  have hy2 : t * (u - l) + l ≤ u := by
    have := mul_le_of_le_one_left hr h1
    linarith
  obtain ⟨hb1, hb2⟩ := roundIf_between b l u _ hy1 hy2 hint
  refine ⟨hb1, hb2, fun hb => ?_⟩
  simp only at hb
  subst hb
  exact roundIf_integral _

theorem all_zipWith {α β : Type} (p : α → β → Bool) (as : List α) (bs : List β)
    (h : ∀ a ∈ as, ∀ b ∈ bs, p a b = true) : (List.zipWith p as bs).all id = true := by
  induction as generalizing bs with
  | nil => simp
  | cons a as ih =>
    cases bs with
    | nil => simp
    | cons b bs =>
      simp only [List.zipWith_cons_cons, List.all_cons, id, Bool.and_eq_true]
      exact ⟨h a (by simp) b (by simp),
        ih bs (fun a' ha' b' hb' => h a' (List.mem_cons_of_mem _ ha') b' (List.mem_cons_of_mem _ hb'))⟩

end GV.C14

namespace GV.C14
open GV GV.C02

/-! ### Spaces built with `add_variable`; the capability check -/

theorem boundedOk_empty : boundedOk DS.empty = true := by simp [boundedOk, DS.empty]

/-- What `add_variable` checks (`boundsOk`, `intBoundsOk`) + finite bounds = a fillable variable. -/
theorem varOk_of_add (v : Var) (hb : boundsOk v.lb v.ub = true)
    (hi : (intBoundsOk v.isInt v.lb && intBoundsOk v.isInt v.ub) = true)
    (hfin : ∀ b ∈ v.lb ++ v.ub, b.isSome = true) :
    (v.lb.length == v.ub.length && (varComps v).all compOk) = true := by
  simp only [boundsOk, Bool.and_eq_true, beq_iff_eq, decide_eq_true_eq, List.all_eq_true] at hb
  obtain ⟨⟨hlen, _⟩, hord⟩ := hb
  simp only [Bool.and_eq_true] at hi
  obtain ⟨hil, hiu⟩ := hi
  simp only [Bool.and_eq_true, beq_iff_eq, List.all_eq_true]
  refine ⟨hlen, ?_⟩
  intro c hc
  simp only [varComps, zipWith_eq_map_zip', List.mem_map] at hc
  obtain ⟨p, hp, rfl⟩ := hc
  have hp1 : p.1 ∈ v.lb := (List.of_mem_zip hp).1
  have hp2 : p.2 ∈ v.ub := (List.of_mem_zip hp).2
  have hs1 := hfin p.1 (List.mem_append_left _ hp1)
  have hs2 := hfin p.2 (List.mem_append_right _ hp2)
  obtain ⟨l, hl⟩ := Option.isSome_iff_exists.mp hs1
  obtain ⟨u, hu⟩ := Option.isSome_iff_exists.mp hs2
  have ho := hord p hp
  simp only [hl, hu, decide_eq_true_eq] at ho
  simp only [compOk, hl, hu, Bool.and_eq_true, decide_eq_true_eq, Bool.or_eq_true, Bool.not_eq_true']
  refine ⟨ho, ?_⟩
  cases hb : v.isInt with
  | false => exact Or.inl rfl
  | true =>
    right
    simp only [intBoundsOk, hb, Bool.not_true, Bool.false_or, List.all_eq_true] at hil hiu
    have h1 := hil p.1 hp1
    have h2 := hiu p.2 hp2
    simp only [hl] at h1
    simp only [hu] at h2
    exact ⟨h1, h2⟩

/-- `add_variable` of a variable with finite bounds keeps the space fillable. -/
theorem boundedOk_addVariable (d d' : DS) (tol : Rat) (v : Var) (hd : boundedOk d = true)
    (hfin : ∀ b ∈ v.lb ++ v.ub, b.isSome = true) (h : d.addVariable tol v = some d') :
    boundedOk d' = true := by
  unfold DS.addVariable at h
  split_ifs at h with h1 h2 h3
  have hb : boundsOk v.lb v.ub = true := by simpa using h2
  have hi : (intBoundsOk v.isInt v.lb && intBoundsOk v.isInt v.ub) = true := by simpa using h3
  have hv := varOk_of_add v hb hi hfin
  have key : boundedOk { d with vars := d.vars ++ [v] } = true := by
    simp only [boundedOk, List.all_append, List.all_cons, List.all_nil, Bool.and_true, Bool.and_eq_true]
    exact ⟨by simpa [boundedOk] using hd, by simpa using hv⟩
  cases hval : v.value with
  | none =>
    simp only [hval, Option.some.injEq] at h
    rw [← h]; exact key
  | some x =>
    simp only [hval] at h
    split_ifs at h
    simp only [Option.some.injEq] at h
    rw [← h]; exact key

/-- Every space obtained from the empty one by successful `add_variable` calls with finite bounds
    is a bounded design space in the sense of the property. -/
theorem boundedOk_of_adds (tol : Rat) (vs : List Var) (hfin : ∀ v ∈ vs, ∀ b ∈ v.lb ++ v.ub, b.isSome = true) :
    ∀ (d d' : DS), boundedOk d = true → d.extend tol vs = some d' → boundedOk d' = true := by
  induction vs with
  | nil =>
    intro d d' hd h
    simp only [DS.extend, List.foldlM_nil, Option.pure_def, Option.some.injEq] at h
    rw [← h]; exact hd
  | cons v vs ih =>
    intro d d' hd h
    simp only [DS.extend, List.foldlM_cons, Option.bind_eq_bind] at h
    cases h1 : d.addVariable tol v with
    | none => simp [h1] at h
    | some d1 =>
      simp only [h1, Option.bind_some] at h
      exact ih (fun w hw => hfin w (List.mem_cons_of_mem _ hw)) d1 d'
        (boundedOk_addVariable d d1 tol v hd (hfin v (by simp)) h1) h

theorem falseIdxAux_nil (l : List Bool) (i : Nat) : falseIdxAux l i = [] ↔ ∀ b ∈ l, b = true := by
  induction l generalizing i with
  | nil => simp [falseIdxAux]
  | cons b bs ih =>
    cases b with
    | true => simp [falseIdxAux, ih]
    | false => simp [falseIdxAux]

/-- **The capability check** passes exactly when every component has two finite bounds. -/
theorem capability_check_iff (d : DS) :
    unboundedComponents d = [] ↔ ∀ c ∈ comps d, c.2.1.isSome = true ∧ c.2.2.isSome = true := by
  unfold unboundedComponents
  rw [falseIdxAux_nil, normMask_eq]
  simp only [List.mem_map, forall_exists_index, and_imp, forall_apply_eq_imp_iff₂, Bool.and_eq_true]

end GV.C14
