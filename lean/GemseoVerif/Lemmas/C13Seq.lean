/-
C13 — "sequential counterparts" (`Model/C13.lean` §7, §8): the values a parallel gradient approximator
evaluates, histories of calls on one approximator object, and the assembly of the Jacobian / data of a
parallel chain from its disciplines.
-/
import GemseoVerif.Lemmas.C13Pool

set_option linter.unusedSimpArgs false
set_option linter.unusedSectionVars false
set_option linter.unusedVariables false

namespace GV.C13

variable {κ ξ ν ρ : Type}

/-! ### §7 the pool of a parallel approximator call -/

theorem approxPool_run (c : ACfg κ ξ ν ρ) (nProcs : Nat) (s : AState κ ρ) (pts : List ξ) (i : Nat)
    (hi : i < pts.length) :
    (approxPool c nProcs s pts).run i = .ok (c.f pts[i] s.kwargs) := by
  simp only [Cfg.run, approxPool, List.getElem?_eq_getElem hi, Cfg.call, List.length_replicate]
  by_cases h1 : pts.length > 1
  · simp [h1, List.getElem?_replicate, hi]
  · have : pts.length = 1 := by omega
    simp [h1, List.getElem?_replicate, this]

/-- The sequential map of the pool of a call: `f` at every point with the keyword arguments **of the object**. -/
theorem approxPool_seqMap (c : ACfg κ ξ ν ρ) (nProcs : Nat) (s : AState κ ρ) (pts : List ξ) :
    seqMap (approxPool c nProcs s pts) = pts.map (fun p => some (c.f p s.kwargs)) := by
  apply List.ext_getElem
  · simp [seqMap, Cfg.nTasks, approxPool]
  · intro i h1 h2
    have hi : i < pts.length := by simpa using h2
    simp only [seqMap, List.getElem_map, List.getElem_range]
    rw [approxPool_run c nProcs s pts i hi]
    rfl

theorem approxPool_no_stop (c : ACfg κ ξ ν ρ) (nProcs : Nat) (s : AState κ ρ) (pts : List ξ) :
    ∀ i, i < (approxPool c nProcs s pts).nTasks → (approxPool c nProcs s pts).run i ≠ .failStop := by
  intro i hi
  have : i < pts.length := by simpa [Cfg.nTasks, approxPool] using hi
  rw [approxPool_run c nProcs s pts i this]
  intro h; cases h

/-- A history of calls on one parallel approximator in which every call runs its pool under **some** complete
    schedule (`pool` is any reachable final state that returned): the result of a call is computed from what
    that execution returned, `compute_optimal_step` replaces the step. -/
inductive ParHist (c : ACfg κ ξ ν ρ) (nProcs : Nat) : AState κ ρ → List (AOp κ ξ) → List ρ → Prop where
  | nil (s : AState κ ρ) : ParHist c nProcs s [] []
  | cons (s : AState κ ρ) (op : AOp κ ξ) (ops : List (AOp κ ξ)) (outs : List (Option ν)) (rs : List ρ)
      (pool : State ν)
      (hreach : Reachable (approxPool c nProcs (storeKw s op) (c.pts s.step op)) pool)
      (hfinal : pool.final = true) (hres : pool.result = .returned outs)
      (hrest : ParHist c nProcs
        { storeKw s op with step := nextStep s.step op (c.combine s.step op outs) } ops rs) :
      ParHist c nProcs s (op :: ops) (c.combine s.step op outs :: rs)

/-! ### §8 assembling the chain Jacobian and the chain data -/

variable {V B : Type}

theorem foldl_jac_apply (j : Dict (Dict B)) (outs : List Nat) (a : Dict (Dict B)) (o : Nat) :
    (outs.foldl (fun a o' => match j o' with
      | none => a.erase o'
      | some b => a.set o' b) a) o = if o ∈ outs then j o else a o := by
  induction outs generalizing a with
  | nil => simp
  | cons o' outs ih =>
    rw [List.foldl_cons, ih]
    by_cases h : o ∈ outs
    · simp [h]
    · simp only [h, if_false, List.mem_cons, or_false]
      by_cases h2 : o = o'
      · subst h2
        cases hj : j o <;> simp [Dict.erase, Dict.set]
      · cases hj : j o' <;> simp [Dict.erase, Dict.set, h2]

theorem foldl_jacKeep_apply (j : Dict (Dict B)) (outs : List Nat) (a : Dict (Dict B)) (o : Nat) :
    (outs.foldl (fun a o' => match j o' with
      | none => a
      | some b => a.set o' b) a) o = if o ∈ outs ∧ (j o).isSome then j o else a o := by
  induction outs generalizing a with
  | nil => simp
  | cons o' outs ih =>
    rw [List.foldl_cons, ih]
    by_cases h : o ∈ outs ∧ (j o).isSome
    · have : (o = o' ∨ o ∈ outs) ∧ (j o).isSome := ⟨Or.inr h.1, h.2⟩
      simp [h, this]
    · by_cases h2 : o = o'
      · subst h2
        cases hj : j o <;> simp [Dict.set, hj, h]
      · have h3 : ¬ ((o = o' ∨ o ∈ outs) ∧ (j o).isSome) := by
          intro hh; exact h ⟨hh.1.resolve_left h2, hh.2⟩
        cases hj : j o' <;> simp [Dict.set, h2, h, h3]

theorem foldl_data_apply (val : Nat → V) (outs : List Nat) (a : Dict V) (o : Nat) :
    (outs.foldl (fun a o' => a.set o' (val o')) a) o = if o ∈ outs then some (val o) else a o := by
  induction outs generalizing a with
  | nil => simp
  | cons o' outs ih =>
    rw [List.foldl_cons, ih]
    by_cases h : o ∈ outs
    · simp [h]
    · by_cases h2 : o = o'
      · subst h2; simp [Dict.set, h]
      · simp [Dict.set, h, h2]

/-- The slot of discipline `d` for output `o` (`discipline_jacobian.get(o)`; nothing when the linearization failed). -/
def slotJac (d : DiscLin V B) (o : Nat) : Option (Dict B) := d.jac.bind (fun j => j o)

theorem mergeOne_apply (acc : Dict (Dict B)) (d : DiscLin V B) (o : Nat) :
    mergeOne acc d o = if d.jac.isSome && d.outputs.contains o then slotJac d o else acc o := by
  unfold mergeOne slotJac
  cases hj : d.jac with
  | none => simp
  | some j =>
    have key := foldl_jac_apply j d.outputs acc o
    simp only [Option.isSome_some, Bool.true_and, List.contains_iff_mem, Option.bind_some]
    refine Eq.trans key ?_
    by_cases h : o ∈ d.outputs <;> simp [h]

theorem mergeDataOne_apply (acc : Dict V) (d : DiscLin V B) (o : Nat) :
    mergeDataOne acc d o = if d.outputs.contains o then some (d.val o) else acc o := by
  unfold mergeDataOne
  refine Eq.trans (foldl_data_apply d.val d.outputs acc o) ?_
  by_cases h : o ∈ d.outputs <;> simp [h]

theorem lastProducer_cons (p : DiscLin V B → Bool) (d : DiscLin V B) (ds : List (DiscLin V B)) (o : Nat) :
    lastProducer p (d :: ds) o =
      (lastProducer p ds o).or (if p d && d.outputs.contains o then some d else none) := by
  unfold lastProducer
  rw [List.reverse_cons, List.find?_append]
  congr 1
  cases hp : p d <;> by_cases ho : o ∈ d.outputs <;> simp [List.find?, hp, ho]

theorem foldl_mergeOne_apply (ds : List (DiscLin V B)) (acc : Dict (Dict B)) (o : Nat) :
    (ds.foldl mergeOne acc) o =
      match lastProducer (fun d => d.jac.isSome) ds o with
      | some d => slotJac d o
      | none => acc o := by
  induction ds generalizing acc with
  | nil => simp [lastProducer]
  | cons d ds ih =>
    rw [List.foldl_cons, ih, lastProducer_cons]
    cases hl : lastProducer (fun d => d.jac.isSome) ds o with
    | some d' => simp
    | none =>
      simp only [Option.none_or]
      rw [mergeOne_apply]
      cases hp : d.jac.isSome <;> by_cases ho : o ∈ d.outputs <;> simp [hp, ho]

theorem foldl_mergeData_apply (ds : List (DiscLin V B)) (acc : Dict V) (o : Nat) :
    (ds.foldl mergeDataOne acc) o =
      match lastProducer (fun _ => true) ds o with
      | some d => some (d.val o)
      | none => acc o := by
  induction ds generalizing acc with
  | nil => simp [lastProducer]
  | cons d ds ih =>
    rw [List.foldl_cons, ih, lastProducer_cons]
    cases hl : lastProducer (fun _ => true) ds o with
    | some d' => simp
    | none =>
      simp only [Option.none_or, Bool.true_and]
      rw [mergeDataOne_apply]
      by_cases ho : o ∈ d.outputs <;> simp [ho]

theorem find?_congr_mem {α : Type} (l : List α) (p q : α → Bool) (h : ∀ a ∈ l, p a = q a) :
    l.find? p = l.find? q := by
  induction l with
  | nil => rfl
  | cons a l ih =>
    simp only [List.find?_cons]
    rw [h a (by simp), ih (fun b hb => h b (by simp [hb]))]

theorem lastProducer_congr (p q : DiscLin V B → Bool) (ds : List (DiscLin V B)) (o : Nat)
    (h : ∀ d ∈ ds, p d = q d) : lastProducer p ds o = lastProducer q ds o := by
  unfold lastProducer
  apply find?_congr_mem
  intro d hd
  rw [h d (List.mem_reverse.mp hd)]

theorem lastProducer_mem (p : DiscLin V B → Bool) (ds : List (DiscLin V B)) (o : Nat) (d : DiscLin V B)
    (h : lastProducer p ds o = some d) : d ∈ ds ∧ p d = true ∧ o ∈ d.outputs := by
  unfold lastProducer at h
  have h1 := List.mem_of_find?_eq_some h
  have h2 := List.find?_some h
  simp only [Bool.and_eq_true, List.contains_iff_mem] at h2
  exact ⟨List.mem_reverse.mp h1, h2.1, h2.2⟩

end GV.C13
