/-
C15 — helper lemmas about the association lists / name sets of the grammar model
(Python `dict` and `set` bookkeeping) and about the element-level update functions.
-/
import GemseoVerif.Model.C15

namespace GV.C15

/-! ### association lists -/

theorem mem_akeys_aset {α : Type} (l : List (Name × α)) (n : Name) (v : α) (x : Name) :
    x ∈ akeys (aset l n v) ↔ x ∈ akeys l ∨ x = n := by
  unfold aset
  by_cases h : n ∈ akeys l
  · simp only [h, if_true]
    have : akeys (l.map (fun p => if p.1 = n then (n, v) else p)) = akeys l := by
      unfold akeys
      rw [List.map_map]
      apply List.map_congr_left
      intro p _
      simp only [Function.comp]
      by_cases hp : p.1 = n <;> simp [hp]
    rw [this]
    constructor
    · intro hx; exact Or.inl hx
    · rintro (hx | hx)
      · exact hx
      · subst hx; exact h
  · simp only [h, if_false]
    unfold akeys
    simp [List.map_append]

theorem mem_akeys_aerase {α : Type} (l : List (Name × α)) (n : Name) (x : Name) :
    x ∈ akeys (aerase l n) ↔ x ∈ akeys l ∧ x ≠ n := by
  unfold aerase akeys
  simp only [List.mem_map, List.mem_filter, decide_eq_true_eq]
  constructor
  · rintro ⟨p, ⟨hp, hne⟩, rfl⟩
    exact ⟨⟨p, hp, rfl⟩, hne⟩
  · rintro ⟨⟨p, hp, rfl⟩, hne⟩
    exact ⟨p, ⟨hp, hne⟩, rfl⟩

theorem mem_akeys_filter {α : Type} (l : List (Name × α)) (q : Name → Bool) (x : Name) :
    x ∈ akeys (l.filter (fun p => q p.1)) ↔ x ∈ akeys l ∧ q x = true := by
  unfold akeys
  simp only [List.mem_map, List.mem_filter]
  constructor
  · rintro ⟨p, ⟨hp, hq⟩, rfl⟩
    exact ⟨⟨p, hp, rfl⟩, hq⟩
  · rintro ⟨⟨p, hp, rfl⟩, hq⟩
    exact ⟨p, ⟨hp, hq⟩, rfl⟩

theorem alookup_some_mem {α : Type} (l : List (Name × α)) (n : Name) (v : α)
    (h : alookup l n = some v) : n ∈ akeys l := by
  induction l with
  | nil => simp [alookup] at h
  | cons p t ih =>
    obtain ⟨k, w⟩ := p
    unfold alookup at h
    by_cases hk : k = n
    · subst hk; simp [akeys]
    · simp only [hk, if_false] at h
      have := ih h
      simp only [akeys, List.map_cons, List.mem_cons]
      right
      simpa [akeys] using this

theorem alookup_none_iff {α : Type} (l : List (Name × α)) (n : Name) :
    alookup l n = none ↔ n ∉ akeys l := by
  induction l with
  | nil => simp [alookup, akeys]
  | cons p t ih =>
    obtain ⟨k, w⟩ := p
    unfold alookup
    by_cases hk : k = n
    · subst hk; simp [akeys]
    · simp only [hk, if_false, ih]
      simp only [akeys, List.map_cons, List.mem_cons, not_or]
      constructor
      · intro h; exact ⟨fun e => hk e.symm, h⟩
      · intro h; exact h.2

theorem alookup_mem {α : Type} (l : List (Name × α)) (n : Name) (v : α)
    (h : alookup l n = some v) : (n, v) ∈ l := by
  induction l with
  | nil => simp [alookup] at h
  | cons p t ih =>
    obtain ⟨k, w⟩ := p
    unfold alookup at h
    by_cases hk : k = n
    · subst hk
      simp only [if_true, Option.some.injEq] at h
      subst h
      simp
    · simp only [hk, if_false] at h
      exact List.mem_cons_of_mem _ (ih h)

/-! ### name sets -/

theorem mem_sinsert (l : List Name) (n x : Name) : x ∈ sinsert l n ↔ x ∈ l ∨ x = n := by
  unfold sinsert
  by_cases h : n ∈ l
  · simp only [h, if_true]
    constructor
    · intro hx; exact Or.inl hx
    · rintro (hx | hx)
      · exact hx
      · subst hx; exact h
  · simp [h]

theorem mem_serase (l : List Name) (n x : Name) : x ∈ serase l n ↔ x ∈ l ∧ x ≠ n := by
  unfold serase
  simp

theorem mem_sunion (l m : List Name) (x : Name) : x ∈ sunion l m ↔ x ∈ l ∨ x ∈ m := by
  unfold sunion
  induction m generalizing l with
  | nil => simp
  | cons a t ih =>
    simp only [List.foldl_cons]
    rw [ih, mem_sinsert]
    simp only [List.mem_cons]
    constructor
    · rintro ((h | h) | h)
      · exact Or.inl h
      · exact Or.inr (Or.inl h)
      · exact Or.inr (Or.inr h)
    · rintro (h | h | h)
      · exact Or.inl (Or.inl h)
      · exact Or.inl (Or.inr h)
      · exact Or.inr h

theorem mem_insertSorted (n x : Name) (l : List Name) : x ∈ insertSorted n l ↔ x = n ∨ x ∈ l := by
  induction l with
  | nil => simp [insertSorted]
  | cons h t ih =>
    unfold insertSorted
    by_cases h1 : n < h
    · simp [h1]
    · simp only [h1, if_false]
      by_cases h2 : n = h
      · subst h2; simp
      · simp only [h2, if_false, List.mem_cons, ih]
        constructor
        · rintro (h | h | h)
          · exact Or.inr (Or.inl h)
          · exact Or.inl h
          · exact Or.inr (Or.inr h)
        · rintro (h | h | h)
          · exact Or.inr (Or.inl h)
          · exact Or.inl h
          · exact Or.inr (Or.inr h)

/-- Sorting the required names (for the `required` entry of a schema) keeps exactly the same names. -/
theorem mem_sortNames (l : List Name) (x : Name) : x ∈ sortNames l ↔ x ∈ l := by
  unfold sortNames
  induction l with
  | nil => simp
  | cons a t ih =>
    simp only [List.foldr_cons, mem_insertSorted, ih, List.mem_cons]

/-! ### element-level updates keep/extend the keys as a Python dict does -/

theorem mem_akeys_jsSet (upd : Bool) (e : List (Name × TS)) (n : Name) (node : Node) (x : Name) :
    x ∈ akeys (jsSet upd e n node) ↔ x ∈ akeys e ∨ x = n := by
  unfold jsSet
  split
  · exact mem_akeys_aset ..
  · split <;> exact mem_akeys_aset ..

theorem mem_akeys_foldl_aset {β : Type} (f : β → Name) (g : β → TS) (l : List β) (e : List (Name × TS)) (x : Name) :
    x ∈ akeys (l.foldl (fun e b => aset e (f b) (g b)) e) ↔ x ∈ akeys e ∨ x ∈ l.map f := by
  induction l generalizing e with
  | nil => simp
  | cons b t ih =>
    simp only [List.foldl_cons, ih, mem_akeys_aset, List.map_cons, List.mem_cons]
    constructor
    · rintro ((h | h) | h)
      · exact Or.inl h
      · exact Or.inr (Or.inl h)
      · exact Or.inr (Or.inr h)
    · rintro (h | h | h)
      · exact Or.inl (Or.inl h)
      · exact Or.inl (Or.inr h)
      · exact Or.inr h

theorem mem_akeys_foldl_jsSet {β : Type} (f : β → Name) (g : β → Node) (u : Bool) (l : List β)
    (e : List (Name × TS)) (x : Name) :
    x ∈ akeys (l.foldl (fun e b => jsSet u e (f b) (g b)) e) ↔ x ∈ akeys e ∨ x ∈ l.map f := by
  induction l generalizing e with
  | nil => simp
  | cons b t ih =>
    simp only [List.foldl_cons, ih, mem_akeys_jsSet, List.map_cons, List.mem_cons]
    constructor
    · rintro ((h | h) | h)
      · exact Or.inl h
      · exact Or.inr (Or.inl h)
      · exact Or.inr (Or.inr h)
    · rintro (h | h | h)
      · exact Or.inl (Or.inl h)
      · exact Or.inl (Or.inr h)
      · exact Or.inr h

theorem mem_akeys_jsSetAll (u : Bool) (e : List (Name × TS)) (props : List (Name × Node)) (x : Name) :
    x ∈ akeys (jsSetAll u e props) ↔ x ∈ akeys e ∨ x ∈ akeys props := by
  unfold jsSetAll
  induction props generalizing e u with
  | nil => simp [akeys]
  | cons p t ih =>
    simp only [List.foldl_cons]
    rw [ih, mem_akeys_jsSet]
    simp only [akeys, List.map_cons, List.mem_cons]
    constructor
    · rintro ((h | h) | h)
      · exact Or.inl h
      · exact Or.inr (Or.inl h)
      · exact Or.inr (Or.inr h)
    · rintro (h | h | h)
      · exact Or.inl (Or.inl h)
      · exact Or.inl (Or.inr h)
      · exact Or.inr h

theorem mem_akeys_jsSetData (u : Bool) (e : List (Name × TS)) (l : List (Name × Val)) (x : Name) :
    x ∈ akeys (jsSetData u e l) ↔ x ∈ akeys e ∨ x ∈ akeys l := by
  unfold jsSetData
  induction l generalizing e u with
  | nil => simp [akeys]
  | cons p t ih =>
    simp only [List.foldl_cons]
    rw [ih, mem_akeys_jsSet]
    simp only [akeys, List.map_cons, List.mem_cons]
    constructor
    · rintro ((h | h) | h)
      · exact Or.inl h
      · exact Or.inr (Or.inl h)
      · exact Or.inr (Or.inr h)
    · rintro (h | h | h)
      · exact Or.inl (Or.inl h)
      · exact Or.inl (Or.inr h)
      · exact Or.inr h

theorem mem_akeys_amove {α : Type} (l : List (Name × α)) (cur new x : Name) (hc : cur ∈ akeys l) :
    x ∈ akeys (amove l cur new) ↔ (x ∈ akeys l ∧ x ≠ cur) ∨ x = new := by
  unfold amove
  cases h : alookup l cur with
  | none => exact absurd hc ((alookup_none_iff l cur).mp h)
  | some v => simp only [mem_akeys_aset, mem_akeys_aerase]

/-! ### defaults / required helpers -/

theorem setDefaultsChecked_elems (g : Grammar) (l : List (Name × String)) :
    (setDefaultsChecked g l).elems = g.elems := rfl

theorem setDefaultsChecked_required (g : Grammar) (l : List (Name × String)) :
    (setDefaultsChecked g l).required = g.required := rfl

theorem mem_defaults_foldl_checked (keys : List Name) (l : List (Name × String)) (d : List (Name × String))
    (x : Name)
    (h : x ∈ akeys (l.foldl (fun d p => if p.1 ∈ keys then aset d p.1 p.2 else d) d)) :
    x ∈ akeys d ∨ x ∈ keys := by
  induction l generalizing d with
  | nil => exact Or.inl h
  | cons p t ih =>
    simp only [List.foldl_cons] at h
    rcases ih _ h with h' | h'
    · by_cases hp : p.1 ∈ keys
      · simp only [hp, if_true, mem_akeys_aset] at h'
        rcases h' with h' | h'
        · exact Or.inl h'
        · subst h'; exact Or.inr hp
      · simp only [hp, if_false] at h'
        exact Or.inl h'
    · exact Or.inr h'

theorem setDefaultsChecked_defaults_sub (g : Grammar) (l : List (Name × String)) (x : Name)
    (h : x ∈ akeys (setDefaultsChecked g l).defaults) : x ∈ akeys g.defaults ∨ x ∈ g.keys :=
  mem_defaults_foldl_checked g.keys l g.defaults x h

theorem reqAddAll_elems (g : Grammar) (names : List Name) : (reqAddAll g names).elems = g.elems := rfl

theorem reqAddAll_defaults (g : Grammar) (names : List Name) : (reqAddAll g names).defaults = g.defaults := rfl

theorem mem_reqAddAll (g : Grammar) (names : List Name) (x : Name) :
    x ∈ (reqAddAll g names).required ↔ x ∈ g.required ∨ (x ∈ names ∧ x ∈ g.keys) := by
  unfold reqAddAll
  simp only [mem_sunion, List.mem_filter, decide_eq_true_eq]

theorem mem_defaults_foldl_checked_iff (keys : List Name) (l : List (Name × String)) (d : List (Name × String))
    (x : Name) (hall : ∀ p ∈ l, p.1 ∈ keys) :
    x ∈ akeys (l.foldl (fun d p => if p.1 ∈ keys then aset d p.1 p.2 else d) d) ↔ x ∈ akeys d ∨ x ∈ akeys l := by
  induction l generalizing d with
  | nil => simp [akeys]
  | cons p t ih =>
    have hp : p.1 ∈ keys := hall p (List.mem_cons_self ..)
    rw [List.foldl_cons, ih _ (fun q hq => hall q (List.mem_cons_of_mem _ hq))]
    simp only [hp, if_true, mem_akeys_aset]
    have hk : akeys (p :: t) = p.1 :: akeys t := rfl
    rw [hk, List.mem_cons]
    constructor
    · rintro ((h | h) | h)
      · exact Or.inl h
      · exact Or.inr (Or.inl h)
      · exact Or.inr (Or.inr h)
    · rintro (h | h | h)
      · exact Or.inl (Or.inl h)
      · exact Or.inl (Or.inr h)
      · exact Or.inr h

end GV.C15
