/-
C09 — sizes of the zero blocks (`Discipline._init_jacobian`, section Sizes of Model/C09): the sizes of a
request are the lengths of the CURRENT values of the requested names; lemmas for the history theorem
`zero_blocks_follow_current_sizes` of Props/C09.
-/
import GemseoVerif.Model.C09

namespace GV.C09

section
variable {V : Type} [DecidableEq V]

/-- The dictionary `compute_names_to_sizes(names, data)` gives every requested name the length of its
    current value. -/
theorem sizeIn_namesToSizes {D : Type} (len : D → Nat) (data : V → D) (names : List V) (v : V)
    (hv : v ∈ names) : sizeIn (namesToSizes len data names) v = len (data v) := by
  induction names with
  | nil => cases hv
  | cons n ns ih =>
    by_cases h : n = v
    · subst h
      simp [sizeIn, namesToSizes]
    · have hv' : v ∈ ns := by
        cases hv with
        | head => exact absurd rfl h
        | tail _ h' => exact h'
      have := ih hv'
      simpa [sizeIn, namesToSizes, List.find?_cons, h] using this

/-- A name that was not requested has no entry (size 0: the pair is not filled at all by the code). -/
theorem sizeIn_namesToSizes_not_mem {D : Type} (len : D → Nat) (data : V → D) (names : List V) (v : V)
    (hv : v ∉ names) : sizeIn (namesToSizes len data names) v = 0 := by
  induction names with
  | nil => simp [sizeIn, namesToSizes]
  | cons n ns ih =>
    have h : ¬ n = v := fun e => hv (e ▸ List.mem_cons_self)
    have hv' : v ∉ ns := fun e => hv (List.mem_cons_of_mem _ e)
    have := ih hv'
    simpa [sizeIn, namesToSizes, List.find?_cons, h] using this

/-- The zero block of a requested pair has the sizes of the data of the request. -/
theorem SizedReq.fill_eq {D : Type} (len : D → Nat) (r : SizedReq V D) (o x : V)
    (ho : o ∈ r.os) (hx : x ∈ r.xs) :
    r.fill len o x = Mat.zeros (len (r.data o)) (len (r.data x)) := by
  unfold SizedReq.fill zeroFillOf
  rw [sizeIn_namesToSizes len r.data r.os o ho, sizeIn_namesToSizes len r.data r.xs x hx]

theorem Mat.zeros_shape (m n : Nat) :
    (Mat.zeros m n).length = m ∧ ∀ r ∈ Mat.zeros m n, r.length = n ∧ ∀ e ∈ r, e = 0 := by
  refine ⟨by simp [Mat.zeros], ?_⟩
  intro r hr
  have := List.eq_of_mem_replicate hr
  subst this
  exact ⟨by simp, fun e he => List.eq_of_mem_replicate he⟩

end

end GV.C09
