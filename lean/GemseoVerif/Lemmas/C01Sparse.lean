/-
Helper lemmas for C01: containers of the user's Jacobian.  Scaling the stored entries of a sparse
matrix by a factor of their *column* commutes with `todense`; `normalize_grad` /
`unnormalize_grad` of a dense row is the index-wise product with the column factors.
-/
import GemseoVerif.Lemmas.C01

namespace GV.C01
open GV.C02

/-! ### zipWith4, component-wise -/

theorem zipWith4_getElem?_all {α β γ δ ε : Type} (f : α → β → γ → δ → ε) :
    ∀ (as : List α) (bs : List β) (cs : List γ) (ds : List δ) (i : Nat),
      (zipWith4 f as bs cs ds)[i]? =
        (as[i]?).bind (fun a => (bs[i]?).bind (fun b => (cs[i]?).bind (fun c =>
          (ds[i]?).map (fun d => f a b c d))))
  | [], _, _, _, _ => by simp [zipWith4]
  | _ :: _, [], _, _, i => by
    simp only [zipWith4, List.getElem?_nil, Option.bind_none]
    cases (_ :: _ : List α)[i]? <;> rfl
  | _ :: _, _ :: _, [], _, i => by
    simp only [zipWith4, List.getElem?_nil, Option.bind_none]
    cases (_ :: _ : List α)[i]? with
    | none => rfl
    | some a => cases (_ :: _ : List β)[i]? <;> rfl
  | _ :: _, _ :: _, _ :: _, [], i => by
    simp only [zipWith4, List.getElem?_nil, Option.map_none]
    cases (_ :: _ : List α)[i]? with
    | none => rfl
    | some a =>
      cases (_ :: _ : List β)[i]? with
      | none => rfl
      | some b => cases (_ :: _ : List γ)[i]? <;> rfl
  | a :: as, b :: bs, c :: cs, d :: ds, 0 => by simp [zipWith4]
  | a :: as, b :: bs, c :: cs, d :: ds, i + 1 => by
    simp only [zipWith4, List.getElem?_cons_succ]
    exact zipWith4_getElem?_all f as bs cs ds i

/-- A component-wise map that multiplies by a factor read from the three views. -/
theorem zipWith4_eq_mapIdx (mask : List Bool) (lb ub : List (Option Rat)) (row : List Rat)
    (g : Bool → Option Rat → Option Rat → Rat → Rat) (fac : Nat → Rat)
    (hm : mask.length = row.length) (hl : lb.length = row.length) (hu : ub.length = row.length)
    (hfac : ∀ i n l u x, mask[i]? = some n → lb[i]? = some l → ub[i]? = some u → g n l u x = x * fac i) :
    zipWith4 g mask lb ub row = row.mapIdx (fun j x => x * fac j) := by
  apply List.ext_getElem?
  intro i
  rw [zipWith4_getElem?_all, List.getElem?_mapIdx]
  by_cases hi : i < row.length
  · have h1 : mask[i]? = some mask[i] := List.getElem?_eq_getElem (by omega)
    have h2 : lb[i]? = some lb[i] := List.getElem?_eq_getElem (by omega)
    have h3 : ub[i]? = some ub[i] := List.getElem?_eq_getElem (by omega)
    have h4 : row[i]? = some row[i] := List.getElem?_eq_getElem hi
    rw [h1, h2, h3, h4]
    simp only [Option.bind_some, Option.map_some]
    rw [hfac i _ _ _ _ h1 h2 h3]
  · have h4 : row[i]? = none := List.getElem?_eq_none (by omega)
    have h1 : mask[i]? = none := List.getElem?_eq_none (by omega)
    rw [h1, h4]
    rfl

/-- The three flat views of the design space have the length of the rows. -/
def ColsOk (ds : DS) (n : Nat) : Prop :=
  ds.normMask.length = n ∧ ds.flatLb.length = n ∧ ds.flatUb.length = n

theorem normalizeGrad_eq_mapIdx (ds : DS) (row : List Rat) (h : ColsOk ds row.length) :
    ds.normalizeGrad row = row.mapIdx (fun j x => x * colFactor ds j) := by
  unfold DS.normalizeGrad DS.unnormalizeVect
  simp only [Bool.false_eq_true, if_false]
  apply zipWith4_eq_mapIdx _ _ _ _ _ _ h.1 h.2.1 h.2.2
  intro i n l u x hn hl hu
  unfold colFactor
  rw [hn, hl, hu]
  cases n
  · simp [unnormComp]
  · cases l <;> cases u <;> simp [unnormComp, scaleOf]

theorem unnormalizeGrad_eq_mapIdx (ds : DS) (row : List Rat) (h : ColsOk ds row.length) :
    ds.unnormalizeGrad row = row.mapIdx (fun j x => x * colFactorInv ds j) := by
  unfold DS.unnormalizeGrad DS.normalizeVect
  apply zipWith4_eq_mapIdx _ _ _ _ _ _ h.1 h.2.1 h.2.2
  intro i n l u x hn hl hu
  unfold colFactorInv
  rw [hn, hl, hu]
  cases n
  · simp [normComp]
  · cases l <;> cases u <;> simp [normComp, invScaleOf, scaleOf]

/-! ### Scaling the stored entries by their column commutes with `todense` -/

theorem coef_scaleCols (f : Nat → Rat) (s : Sparse) (i j : Nat) :
    (s.scaleCols f).coef i j = s.coef i j * f j := by
  unfold Sparse.coef Sparse.scaleCols
  simp only
  induction s.entries with
  | nil => simp
  | cons e es ih =>
    obtain ⟨r, c, v⟩ := e
    simp only [List.map_cons, List.filter_cons]
    by_cases he : (r == i && c == j) = true
    · have hc : c = j := by
        simp only [Bool.and_eq_true, beq_iff_eq] at he
        exact he.2
      rw [if_pos he, if_pos he]
      simp only [List.map_cons, List.sum_cons]
      rw [ih, hc]
      ring
    · rw [if_neg he, if_neg he]
      exact ih

theorem toDense_rows_length (s : Sparse) : ∀ row ∈ s.toDense, row.length = s.ncols := by
  intro row hrow
  unfold Sparse.toDense at hrow
  obtain ⟨i, _, rfl⟩ := List.mem_map.mp hrow
  simp

theorem toDense_scaleCols (f : Nat → Rat) (s : Sparse) :
    (s.scaleCols f).toDense = s.toDense.map (fun row => row.mapIdx (fun j x => x * f j)) := by
  unfold Sparse.toDense
  have hr : (s.scaleCols f).nrows = s.nrows := rfl
  have hc : (s.scaleCols f).ncols = s.ncols := rfl
  rw [hr, hc, List.map_map]
  apply List.map_congr_left
  intro i _
  simp only [Function.comp]
  apply List.ext_getElem?
  intro j
  rw [List.getElem?_mapIdx, List.getElem?_map, List.getElem?_map]
  by_cases hj : j < s.ncols
  · rw [List.getElem?_range hj]
    simp only [Option.map_some]
    rw [coef_scaleCols]
  · have : (List.range s.ncols)[j]? = none := List.getElem?_eq_none (by simp; omega)
    rw [this]
    rfl

end GV.C01
