/-
C11 — lemmas of the representation layer (`Rep`, `RState`, `rstore`, `rexport`, `rreload`):
the dataset `x/<i>` of the file is, bit for bit, the array the database holds as its `i`-th key,
whatever equal arrays were passed to `store` in between.
-/
import GemseoVerif.Lemmas.C11
import Mathlib.Data.List.Basic
import Mathlib.Data.List.Nodup
import Mathlib.Data.List.Range
import Mathlib.Data.List.Perm.Basic

namespace GV.C11

variable {κ : Type} [DecidableEq κ]

/-- The hash identifies exactly the arrays that are equal (`HashableNdarray`: the hash is taken
    after `array + 0.0`, which forgets dtype and sign of zero; no collision on the run). -/
def KeyHash (H : Rep → κ) : Prop := ∀ a b : Rep, H a = H b ↔ a.xs = b.xs

/-- The keys of the database are pairwise different arrays (by value). -/
def RDistinct (keys : List Rep) : Prop :=
  ∀ (i j : Nat) (a b : Rep), keys[i]? = some a → keys[j]? = some b → a.xs = b.xs → i = j

/-! ### `rindex`, `rkeysStore` -/

theorem rindex_congr {q r : Rep} (h : q.xs = r.xs) (keys : List Rep) :
    rindex q keys = rindex r keys := by
  induction keys with
  | nil => rfl
  | cons a t ih => simp [rindex, h, ih]

theorem rindex_some {r : Rep} {keys : List Rep} {i : Nat} (h : rindex r keys = some i) :
    ∃ q, keys[i]? = some q ∧ q.xs = r.xs := by
  induction keys generalizing i with
  | nil => simp [rindex] at h
  | cons a t ih =>
    simp only [rindex] at h
    split at h
    · cases h; exact ⟨a, rfl, ‹_›⟩
    · obtain ⟨j, hj, rfl⟩ := Option.map_eq_some_iff.1 h
      obtain ⟨q, hq, hx⟩ := ih hj
      exact ⟨q, by simpa using hq, hx⟩

theorem rindex_none {r : Rep} {keys : List Rep} (h : rindex r keys = none) :
    ∀ q ∈ keys, q.xs ≠ r.xs := by
  induction keys with
  | nil => simp
  | cons a t ih =>
    simp only [rindex] at h
    split at h
    · cases h
    · intro q hq
      rcases List.mem_cons.1 hq with rfl | hq
      · assumption
      · exact ih (by simpa using h) q hq

theorem rindex_of_get {keys : List Rep} (hd : RDistinct keys) {i : Nat} {q : Rep}
    (h : keys[i]? = some q) : rindex q keys = some i := by
  cases hr : rindex q keys with
  | none => exact absurd rfl (rindex_none hr q (List.mem_of_getElem? h))
  | some j =>
    obtain ⟨q', hq', hx⟩ := rindex_some hr
    rw [hd j i q' q hq' h hx]

theorem rkeysStore_some {r : Rep} {keys : List Rep} {i : Nat} (h : rindex r keys = some i) :
    rkeysStore keys r = keys := by
  induction keys generalizing i with
  | nil => simp [rindex] at h
  | cons a t ih =>
    simp only [rindex] at h
    simp only [rkeysStore]
    split at h
    · simp [*]
    · obtain ⟨j, hj, _⟩ := Option.map_eq_some_iff.1 h
      simp [*, ih hj]

theorem rkeysStore_none {r : Rep} {keys : List Rep} (h : rindex r keys = none) :
    rkeysStore keys r = keys ++ [r] := by
  induction keys with
  | nil => rfl
  | cons a t ih =>
    simp only [rindex] at h
    simp only [rkeysStore]
    split at h
    · cases h
    · simp [*, ih (by simpa using h)]

theorem rindex_append_left {q r : Rep} {keys : List Rep} {i : Nat} (h : rindex q keys = some i) :
    rindex q (keys ++ [r]) = some i := by
  induction keys generalizing i with
  | nil => simp [rindex] at h
  | cons a t ih =>
    simp only [rindex] at h
    simp only [List.cons_append, rindex]
    split at h
    · simp [*]
    · obtain ⟨j, hj, rfl⟩ := Option.map_eq_some_iff.1 h
      simp [*, ih hj]

theorem rindex_append_self {r : Rep} {keys : List Rep} (h : rindex r keys = none) :
    rindex r (keys ++ [r]) = some keys.length := by
  induction keys with
  | nil => simp [rindex]
  | cons a t ih =>
    simp only [rindex] at h
    simp only [List.cons_append, rindex]
    split at h
    · cases h
    · simp [*, ih (by simpa using h)]

/-! ### the pending buffer -/

theorem raddPending_present (H : Rep → κ) (hH : KeyHash H) (r : Rep) (pend : List (κ × Rep))
    (hk : ∀ hq ∈ pend, hq.1 = H hq.2) (hex : ∃ hq ∈ pend, hq.2.xs = r.xs) :
    raddPending H pend r = pend := by
  induction pend with
  | nil => simp at hex
  | cons a t ih =>
    obtain ⟨h, q⟩ := a
    have hq : h = H q := hk (h, q) (by simp)
    simp only [raddPending]
    by_cases hx : q.xs = r.xs
    · have : h = H r := by rw [hq]; exact (hH q r).2 hx
      simp [this, hx]
    · have : ¬ h = H r := by rw [hq]; exact fun e => hx ((hH q r).1 e)
      simp only [this, if_false]
      congr 1
      apply ih (fun hq' hm => hk hq' (List.mem_cons_of_mem _ hm))
      obtain ⟨hq', hm, hx'⟩ := hex
      rcases List.mem_cons.1 hm with rfl | hm
      · exact absurd hx' hx
      · exact ⟨hq', hm, hx'⟩

theorem raddPending_absent (H : Rep → κ) (hH : KeyHash H) (r : Rep) (pend : List (κ × Rep))
    (hk : ∀ hq ∈ pend, hq.1 = H hq.2) (hne : ∀ hq ∈ pend, hq.2.xs ≠ r.xs) :
    raddPending H pend r = pend ++ [(H r, r)] := by
  induction pend with
  | nil => rfl
  | cons a t ih =>
    obtain ⟨h, q⟩ := a
    have hq : h = H q := hk (h, q) (by simp)
    have hx : q.xs ≠ r.xs := hne (h, q) (by simp)
    have : ¬ h = H r := by rw [hq]; exact fun e => hx ((hH q r).1 e)
    simp only [raddPending, this, if_false, List.cons_append]
    congr 1
    exact ih (fun hq' hm => hk hq' (List.mem_cons_of_mem _ hm))
      (fun hq' hm => hne hq' (List.mem_cons_of_mem _ hm))

/-! ### association lists -/

theorem ralook_append {β : Type} (k : Nat) (X Y : List (Nat × β)) :
    alook k (X ++ Y) = match alook k X with
      | some e => some e
      | none => alook k Y := by
  induction X with
  | nil => simp [alook]
  | cons a t ih =>
    obtain ⟨j, e⟩ := a
    simp only [List.cons_append, alook]
    split <;> simp [*]

theorem alook_renum (i k : Nat) (keys : List Rep) :
    alook i (renum k keys) = if i < k then none else keys[i - k]? := by
  induction keys generalizing k with
  | nil => simp [renum]
  | cons a t ih =>
    simp only [renum, alook]
    by_cases h : k = i
    · subst h; simp
    · simp only [h, if_false, ih]
      by_cases h2 : i < k
      · have : i < k + 1 := by omega
        simp [h2, this]
      · have h3 : ¬ i < k + 1 := by omega
        have h4 : i - k = (i - (k + 1)) + 1 := by omega
        simp [h2, h3, h4]

theorem ralook_mem {β : Type} {k : Nat} {X : List (Nat × β)} {e : β} (h : alook k X = some e) :
    (k, e) ∈ X := by
  induction X with
  | nil => simp [alook] at h
  | cons a t ih =>
    obtain ⟨j, e'⟩ := a
    simp only [alook] at h
    split at h
    · cases h; subst_vars; simp
    · exact List.mem_cons_of_mem _ (ih h)

theorem alook_isSome_of_mem {β : Type} {k : Nat} {X : List (Nat × β)} {e : β} (h : (k, e) ∈ X) :
    ∃ e', alook k X = some e' := by
  induction X with
  | nil => simp at h
  | cons a t ih =>
    obtain ⟨j, e'⟩ := a
    simp only [alook]
    by_cases hj : j = k
    · exact ⟨e', by simp [hj]⟩
    · simp only [hj, if_false]
      rcases List.mem_cons.1 h with h | h
      · cases h; exact absurd rfl hj
      · exact ih h

/-! ### the append loop on the group `x` -/

theorem rappend_spec (keys : List Rep) (qs : List Rep) (X : List (Nat × Rep))
    (hP : ∀ q ∈ qs, ∃ i, rindex q keys = some i ∧ (keys[i]? = some q ∨ ∃ e, alook i X = some e))
    (hG : ∀ i e, alook i X = some e → keys[i]? = some e)
    (hN : (X.map (·.1)).Nodup) :
    ∃ X', rappend keys X qs = some X' ∧
      (∀ i e, alook i X' = some e → keys[i]? = some e) ∧
      (∀ i e, alook i X = some e → alook i X' = some e) ∧
      (∀ q ∈ qs, ∀ i, rindex q keys = some i → ∃ e, alook i X' = some e) ∧
      (X'.map (·.1)).Nodup := by
  induction qs generalizing X with
  | nil => exact ⟨X, rfl, hG, fun _ _ h => h, by simp, hN⟩
  | cons q qs ih =>
    obtain ⟨i, hi, hlit⟩ := hP q (by simp)
    simp only [rappend, hi]
    cases hX : alook i X with
    | some e =>
      simp only []
      obtain ⟨X', h1, h2, h3, h4, h5⟩ :=
        ih X (fun q' hq' => hP q' (List.mem_cons_of_mem _ hq')) hG hN
      refine ⟨X', h1, h2, h3, ?_, h5⟩
      intro q' hq' j hj
      rcases List.mem_cons.1 hq' with rfl | hq'
      · rw [hi] at hj; cases hj; exact ⟨e, h3 _ _ hX⟩
      · exact h4 q' hq' j hj
    | none =>
      simp only []
      have hq : keys[i]? = some q := by
        rcases hlit with h | ⟨e, he⟩
        · exact h
        · rw [hX] at he; cases he
      have hmono : ∀ j e, alook j X = some e → alook j (X ++ [(i, q)]) = some e := by
        intro j e h; rw [ralook_append, h]
      have hG' : ∀ j e, alook j (X ++ [(i, q)]) = some e → keys[j]? = some e := by
        intro j e h
        rw [ralook_append] at h
        cases hj : alook j X with
        | some e' => rw [hj] at h; cases h; exact hG j _ hj
        | none =>
          rw [hj] at h
          simp only [alook] at h
          split at h
          · cases h; subst_vars; exact hq
          · cases h
      have hN' : ((X ++ [(i, q)]).map (·.1)).Nodup := by
        rw [List.map_append, List.nodup_append]
        refine ⟨hN, by simp, ?_⟩
        intro a ha b hb
        simp at hb
        subst hb
        rintro rfl
        obtain ⟨e, he⟩ := List.mem_map.1 ha
        obtain ⟨e', he'⟩ := alook_isSome_of_mem (k := e.1) (e := e.2) (by simpa using he.1)
        rw [he.2, hX] at he'
        cases he'
      obtain ⟨X', h1, h2, h3, h4, h5⟩ := ih (X ++ [(i, q)])
        (fun q' hq' => by
          obtain ⟨j, hj, hl⟩ := hP q' (List.mem_cons_of_mem _ hq')
          refine ⟨j, hj, ?_⟩
          rcases hl with h | ⟨e, he⟩
          · exact Or.inl h
          · exact Or.inr ⟨e, hmono j e he⟩) hG' hN'
      refine ⟨X', h1, h2, fun j e h => h3 j e (hmono j e h), ?_, h5⟩
      intro q' hq' j hj
      rcases List.mem_cons.1 hq' with rfl | hq'
      · rw [hi] at hj; cases hj
        exact ⟨q', h3 _ _ (by rw [ralook_append, hX]; simp [alook])⟩
      · exact h4 q' hq' j hj

/-! ### the invariant -/

/-- Invariant of the representation layer; `m` = number of datasets of the group `x`.
    * `file`: the file holds, under the indices `0..m-1`, exactly the arrays the database holds;
    * `pend`: a pending array is keyed by its hash, is equal to a key, and is that key bit for
      bit unless the entry of the key is already in the file;
    * `cover`: a key whose entry is not yet in the file is pending, bit for bit. -/
structure RInvAt (H : Rep → κ) (s : RState κ) (m : Nat) : Prop where
  le : m ≤ s.keys.length
  file : ∀ i, alook i s.fx = if i < m then s.keys[i]? else none
  nodup : (s.fx.map (·.1)).Nodup
  pend : ∀ hq ∈ s.pend, hq.1 = H hq.2 ∧
    ∃ i, rindex hq.2 s.keys = some i ∧ (s.keys[i]? = some hq.2 ∨ i < m)
  cover : ∀ i, m ≤ i → i < s.keys.length → ∃ q, s.keys[i]? = some q ∧ (H q, q) ∈ s.pend
  distinct : RDistinct s.keys

def RInv (H : Rep → κ) (s : RState κ) : Prop := ∃ m, RInvAt H s m

omit [DecidableEq κ] in
theorem rinv_init (H : Rep → κ) : RInvAt H (RState.init : RState κ) 0 where
  le := Nat.le_refl _
  file := by intro i; simp [RState.init]
  nodup := by simp [RState.init]
  pend := by simp [RState.init]
  cover := by intro i _ h; simp [RState.init] at h
  distinct := by intro i j a b h; simp [RState.init] at h

theorem rdistinct_append {keys : List Rep} {r : Rep} (hd : RDistinct keys)
    (hr : rindex r keys = none) : RDistinct (keys ++ [r]) := by
  have hne := rindex_none hr
  have key : ∀ (i : Nat) (a : Rep), (keys ++ [r])[i]? = some a →
      (i < keys.length ∧ keys[i]? = some a) ∨ (i = keys.length ∧ a = r) := by
    intro i a h
    by_cases hi : i < keys.length
    · left; rw [List.getElem?_append_left hi] at h; exact ⟨hi, h⟩
    · right
      have hi' : keys.length ≤ i := by omega
      rw [List.getElem?_append_right hi'] at h
      by_cases h0 : i - keys.length = 0
      · rw [h0] at h; simp at h; exact ⟨by omega, h.symm⟩
      · have : 1 ≤ i - keys.length := by omega
        rw [List.getElem?_eq_none (by simpa using this)] at h; cases h
  intro i j a b ha hb hx
  rcases key i a ha with ⟨_, ha'⟩ | ⟨hi, rfl⟩ <;> rcases key j b hb with ⟨_, hb'⟩ | ⟨hj, rfl⟩
  · exact hd i j a b ha' hb' hx
  · exact absurd hx (hne a (List.mem_of_getElem? ha'))
  · exact absurd hx.symm (hne b (List.mem_of_getElem? hb'))
  · omega

theorem rinv_store (H : Rep → κ) (hH : KeyHash H) {s : RState κ} {m : Nat} (h : RInvAt H s m)
    (r : Rep) : RInvAt H (rstore H s r) m := by
  have hk : ∀ hq ∈ s.pend, hq.1 = H hq.2 := fun hq hm => (h.pend hq hm).1
  cases hr : rindex r s.keys with
  | none =>
    have hne : ∀ hq ∈ s.pend, hq.2.xs ≠ r.xs := by
      intro hq hm hx
      obtain ⟨_, i, hi, _⟩ := h.pend hq hm
      rw [rindex_congr hx] at hi
      rw [hr] at hi; cases hi
    have e : rstore H s r = { keys := s.keys ++ [r], pend := s.pend ++ [(H r, r)], fx := s.fx } := by
      simp only [rstore, rstoreWith, rkeysStore_none hr, raddPending_absent H hH r s.pend hk hne]
    rw [e]
    refine ⟨?_, ?_, h.nodup, ?_, ?_, rdistinct_append h.distinct hr⟩
    · simp only [List.length_append, List.length_singleton]; have := h.le; omega
    · intro i
      simp only
      rw [h.file i]
      by_cases hi : i < m
      · have : i < s.keys.length := by have := h.le; omega
        simp [hi, List.getElem?_append_left this]
      · simp [hi]
    · intro hq hm
      simp only at hm ⊢
      rcases List.mem_append.1 hm with hm | hm
      · obtain ⟨h1, i, hi, hl⟩ := h.pend hq hm
        refine ⟨h1, i, rindex_append_left hi, ?_⟩
        rcases hl with hl | hl
        · left
          have : i < s.keys.length := (List.getElem?_eq_some_iff.1 hl).1
          rw [List.getElem?_append_left this]; exact hl
        · exact Or.inr hl
      · simp only [List.mem_singleton] at hm
        subst hm
        exact ⟨rfl, s.keys.length, rindex_append_self hr, Or.inl (by simp)⟩
    · intro i hmi hi
      simp only [List.length_append, List.length_singleton] at hi
      simp only
      by_cases hlt : i < s.keys.length
      · obtain ⟨q, hq, hm⟩ := h.cover i hmi hlt
        exact ⟨q, by rw [List.getElem?_append_left hlt]; exact hq, List.mem_append_left _ hm⟩
      · have : i = s.keys.length := by omega
        subst this
        exact ⟨r, by simp, List.mem_append_right _ (by simp)⟩
  | some i0 =>
    by_cases hex : ∃ hq ∈ s.pend, hq.2.xs = r.xs
    · have e : rstore H s r = s := by
        simp only [rstore, rstoreWith, rkeysStore_some hr, raddPending_present H hH r s.pend hk hex]
      rw [e]; exact h
    · have hne : ∀ hq ∈ s.pend, hq.2.xs ≠ r.xs := fun hq hm hx => hex ⟨hq, hm, hx⟩
      have e : rstore H s r = { keys := s.keys, pend := s.pend ++ [(H r, r)], fx := s.fx } := by
        simp only [rstore, rstoreWith, rkeysStore_some hr, raddPending_absent H hH r s.pend hk hne]
      rw [e]
      refine ⟨h.le, h.file, h.nodup, ?_, ?_, h.distinct⟩
      · intro hq hm
        simp only at hm ⊢
        rcases List.mem_append.1 hm with hm | hm
        · exact h.pend hq hm
        · simp only [List.mem_singleton] at hm
          subst hm
          refine ⟨rfl, i0, hr, ?_⟩
          by_cases hlt : i0 < m
          · exact Or.inr hlt
          · exfalso
            obtain ⟨q', hq', hx'⟩ := rindex_some hr
            have hlen : i0 < s.keys.length := (List.getElem?_eq_some_iff.1 hq').1
            obtain ⟨q, hq, hm'⟩ := h.cover i0 (by omega) hlen
            rw [hq'] at hq; cases hq
            exact hne _ hm' hx'
      · intro i hmi hi
        obtain ⟨q, hq, hm⟩ := h.cover i hmi hi
        exact ⟨q, hq, List.mem_append_left _ hm⟩

theorem renum_fst (k : Nat) (keys : List Rep) :
    (renum k keys).map (·.1) = List.range' k keys.length := by
  induction keys generalizing k with
  | nil => rfl
  | cons a t ih => simp [renum, ih, List.range'_succ]

/-- An export (append or not) succeeds; afterwards the group `x` holds under every index the
    array the database holds as the key of that index, and nothing else. -/
theorem rinv_export (H : Rep → κ) {s : RState κ} {m : Nat} (h : RInvAt H s m) (a : Bool) :
    ∃ s', rexport s a = some s' ∧ s'.keys = s.keys ∧ RInvAt H s' s'.keys.length ∧
      ∀ i, alook i s'.fx = s.keys[i]? := by
  have fin : ∀ X : List (Nat × Rep), (X.map (·.1)).Nodup → (∀ i, alook i X = s.keys[i]?) →
      RInvAt H ({ keys := s.keys, pend := [], fx := X } : RState κ) s.keys.length := by
    intro X hN hX
    refine ⟨Nat.le_refl _, ?_, hN, by simp, ?_, h.distinct⟩
    · intro i
      simp only
      rw [hX i]
      by_cases hi : i < s.keys.length
      · simp [hi]
      · simp [hi]
    · intro i h1 h2; simp only at h1 h2; omega
  unfold rexport
  split
  · have hP : ∀ q ∈ s.pend.map (·.2), ∃ i, rindex q s.keys = some i ∧
        (s.keys[i]? = some q ∨ ∃ e, alook i s.fx = some e) := by
      intro q hq
      obtain ⟨hq', hm, rfl⟩ := List.mem_map.1 hq
      obtain ⟨_, i, hi, hl⟩ := h.pend hq' hm
      refine ⟨i, hi, ?_⟩
      rcases hl with hl | hl
      · exact Or.inl hl
      · right
        have hlen : i < s.keys.length := by have := h.le; omega
        exact ⟨s.keys[i], by rw [h.file i]; simp [hl, hlen]⟩
    have hG : ∀ i e, alook i s.fx = some e → s.keys[i]? = some e := by
      intro i e he
      rw [h.file i] at he
      by_cases hi : i < m
      · simpa [hi] using he
      · simp [hi] at he
    obtain ⟨X', h1, h2, h3, h4, h5⟩ := rappend_spec s.keys (s.pend.map (·.2)) s.fx hP hG h.nodup
    have hX : ∀ i, alook i X' = s.keys[i]? := by
      intro i
      by_cases hi : i < s.keys.length
      · by_cases him : i < m
        · have : alook i s.fx = some s.keys[i] := by rw [h.file i]; simp [him, hi]
          rw [h3 i _ this]; simp [hi]
        · obtain ⟨q, hq, hm⟩ := h.cover i (by omega) hi
          have hmem : q ∈ s.pend.map (·.2) := List.mem_map.2 ⟨(H q, q), hm, rfl⟩
          obtain ⟨e, he⟩ := h4 q hmem i (rindex_of_get h.distinct hq)
          rw [he, ← h2 i e he]
      · cases he : alook i X' with
        | none => rw [List.getElem?_eq_none (by omega : s.keys.length ≤ i)]
        | some e =>
          have := h2 i e he
          rw [List.getElem?_eq_none (by omega : s.keys.length ≤ i)] at this; cases this
    exact ⟨{ keys := s.keys, pend := [], fx := X' }, by rw [h1]; rfl, rfl, fin X' h5 hX, hX⟩
  · have hX : ∀ i, alook i (renum 0 s.keys) = s.keys[i]? := by
      intro i; rw [alook_renum]; simp
    refine ⟨_, rfl, rfl, fin _ ?_ hX, hX⟩
    rw [renum_fst]; exact List.nodup_range'

/-! ### restart from the file -/

omit [DecidableEq κ] in
theorem rfx_length (H : Rep → κ) {s : RState κ} {m : Nat} (h : RInvAt H s m) : s.fx.length = m := by
  have hmem : ∀ a, a ∈ s.fx.map (·.1) ↔ a ∈ List.range m := by
    intro a
    rw [List.mem_range]
    constructor
    · intro ha
      obtain ⟨e, he, rfl⟩ := List.mem_map.1 ha
      obtain ⟨e', he'⟩ := alook_isSome_of_mem (k := e.1) (e := e.2) (by simpa using he)
      rw [h.file] at he'
      by_contra hlt
      simp [hlt] at he'
    · intro ha
      have hlen : a < s.keys.length := by have := h.le; omega
      have : alook a s.fx = some s.keys[a] := by rw [h.file]; simp [ha, hlen]
      exact List.mem_map.2 ⟨(a, s.keys[a]), ralook_mem this, rfl⟩
  have := ((List.perm_ext_iff_of_nodup h.nodup List.nodup_range).2 hmem).length_eq
  simpa using this

omit [DecidableEq κ] in
theorem rreadFile_spec (H : Rep → κ) {s : RState κ} {m : Nat} (h : RInvAt H s m) :
    rreadFile s.fx = some (s.keys.take m) := by
  unfold rreadFile
  apply optAll_eq_some
  rw [rfx_length H h]
  apply List.ext_getElem?
  intro j
  by_cases hj : j < m
  · have hlen : j < s.keys.length := by have := h.le; omega
    simp [hj, hlen, h.file j]
  · have h1 : m ≤ j := by omega
    rw [List.getElem?_eq_none (by simpa using h1), List.getElem?_eq_none]
    simp only [List.length_map, List.length_take]
    omega

theorem rdistinct_no_index {k0 t : List Rep} {r : Rep} (hd : RDistinct (k0 ++ r :: t)) :
    rindex r k0 = none := by
  cases hr : rindex r k0 with
  | none => rfl
  | some i =>
    exfalso
    obtain ⟨q, hq, hx⟩ := rindex_some hr
    have hi : i < k0.length := (List.getElem?_eq_some_iff.1 hq).1
    have h1 : (k0 ++ r :: t)[i]? = some q := by rw [List.getElem?_append_left hi]; exact hq
    have h2 : (k0 ++ r :: t)[k0.length]? = some r := by simp
    have := hd i k0.length q r h1 h2 hx
    omega

theorem rfold_store (H : Rep → κ) (hH : KeyHash H) (X : List (Nat × Rep)) (l : List Rep) :
    ∀ (k0 : List Rep) (p0 : List (κ × Rep)), RDistinct (k0 ++ l) →
      (∀ hq ∈ p0, hq.1 = H hq.2 ∧ ∃ q ∈ k0, q.xs = hq.2.xs) →
      l.foldl (rstore H) ({ keys := k0, pend := p0, fx := X } : RState κ) =
        { keys := k0 ++ l, pend := p0 ++ l.map (fun q => (H q, q)), fx := X } := by
  induction l with
  | nil => intro k0 p0 _ _; simp
  | cons r t ih =>
    intro k0 p0 hd hp
    have hr : rindex r k0 = none := rdistinct_no_index hd
    have hne : ∀ hq ∈ p0, hq.2.xs ≠ r.xs := by
      intro hq hm hx
      obtain ⟨_, q, hq', hx'⟩ := hp hq hm
      exact rindex_none hr q hq' (hx'.trans hx)
    have e : rstore H ({ keys := k0, pend := p0, fx := X } : RState κ) r =
        { keys := k0 ++ [r], pend := p0 ++ [(H r, r)], fx := X } := by
      simp only [rstore, rstoreWith, rkeysStore_none hr,
        raddPending_absent H hH r p0 (fun hq hm => (hp hq hm).1) hne]
    rw [List.foldl_cons, e, ih (k0 ++ [r]) (p0 ++ [(H r, r)]) (by simpa using hd)]
    · simp
    · intro hq hm
      rcases List.mem_append.1 hm with hm | hm
      · obtain ⟨h1, q, hq', hx⟩ := hp hq hm
        exact ⟨h1, q, List.mem_append_left _ hq', hx⟩
      · simp only [List.mem_singleton] at hm
        subst hm
        exact ⟨rfl, r, by simp, rfl⟩

theorem rdistinct_take {keys : List Rep} (hd : RDistinct keys) (m : Nat) :
    RDistinct (keys.take m) := by
  intro i j a b ha hb hx
  rw [List.getElem?_take] at ha hb
  split at ha <;> split at hb <;> try (first | cases ha | cases hb)
  exact hd i j a b ha hb hx

/-- `Database.from_hdf` on the file of the state: the new database holds, bit for bit and in
    order, the arrays of the file (all of them pending again). -/
theorem rinv_reload (H : Rep → κ) (hH : KeyHash H) {s : RState κ} {m : Nat} (h : RInvAt H s m) :
    ∃ s', rreload H s = some s' ∧ s'.keys = s.keys.take m ∧ s'.fx = s.fx ∧
      RInvAt H s' s'.keys.length := by
  have hdt := rdistinct_take h.distinct m
  have hlen : (s.keys.take m).length = m := by simp [h.le]
  refine ⟨{ keys := s.keys.take m, pend := (s.keys.take m).map (fun q => (H q, q)), fx := s.fx },
    ?_, rfl, rfl, ?_⟩
  · unfold rreload rupdate
    simp only [rreadFile_spec H h, Option.map_some]
    rw [rfold_store H hH s.fx (s.keys.take m) [] [] (by simpa using hdt) (by simp)]
    simp
  · refine ⟨Nat.le_refl _, ?_, h.nodup, ?_, ?_, hdt⟩
    · intro i
      simp only [hlen]
      rw [h.file i, List.getElem?_take]
      by_cases hi : i < m <;> simp [hi]
    · intro hq hm
      obtain ⟨q, hq', rfl⟩ := List.mem_map.1 hm
      obtain ⟨i, hi⟩ := List.getElem?_of_mem hq'
      exact ⟨rfl, i, rindex_of_get hdt hi, Or.inl hi⟩
    · intro i h1 h2; omega

end GV.C11
