/-
Helper lemmas for C05: the hash index of the full caches (`_hashes_to_indices`).
For an arbitrary hash function `hf` (collisions allowed) the index stays consistent with the
entries, the entries keep pairwise distinct inputs, entries are never overwritten, and an input
that has an entry is found by the exact lookup.
-/
import GemseoVerif.Lemmas.C05
import Mathlib.Tactic.SplitIfs

namespace GV.C05

/-! ### Entry access -/

def getE (es : List Entry) (i : Nat) : Option Entry := if i = 0 then none else es[i - 1]?

theorem entry?_eq_getE (f : Full) (i : Nat) : f.entry? i = getE f.entries i := rfl

theorem getE_some_bounds {es : List Entry} {i : Nat} {e : Entry} (h : getE es i = some e) :
    1 ≤ i ∧ i ≤ es.length := by
  unfold getE at h
  split at h
  · cases h
  · rename_i h0
    have := (List.getElem?_eq_some_iff.mp h).1
    omega

theorem getE_append_singleton (es : List Entry) (e : Entry) (i : Nat) :
    getE (es ++ [e]) i = if i = es.length + 1 then some e else getE es i := by
  unfold getE
  by_cases h0 : i = 0
  · subst h0; simp
  · simp only [h0, if_false]
    by_cases h1 : i = es.length + 1
    · subst h1; simp
    · simp only [h1, if_false]
      by_cases h2 : i - 1 < es.length
      · rw [List.getElem?_append_left h2]
      · have h3 : es.length ≤ i - 1 := Nat.le_of_not_lt h2
        rw [List.getElem?_append_right h3]
        have h4 : i - 1 - es.length ≠ 0 := by omega
        rw [List.getElem?_eq_none (by simp; omega), List.getElem?_eq_none (by omega)]

theorem getE_set {es : List Entry} {i : Nat} {e0 : Entry} (h : getE es i = some e0) (e1 : Entry)
    (j : Nat) : getE (es.set (i - 1) e1) j = if j = i then some e1 else getE es j := by
  obtain ⟨hi1, hi2⟩ := getE_some_bounds h
  unfold getE
  by_cases h0 : j = 0
  · subst h0
    have : (0 : Nat) ≠ i := by omega
    simp [this]
  · simp only [h0, if_false]
    by_cases hji : j = i
    · subst hji
      simp only [if_true]
      rw [List.getElem?_set_self (by omega)]
    · simp only [hji, if_false]
      rw [List.getElem?_set_ne (by omega)]

theorem entry?_modifyEntry {f : Full} {i : Nat} {e0 : Entry} (h : f.entry? i = some e0)
    (g : Entry → Entry) (j : Nat) :
    (f.modifyEntry i g).entry? j = if j = i then some (g e0) else f.entry? j := by
  unfold Full.modifyEntry
  simp only [h]
  rw [entry?_eq_getE, entry?_eq_getE]
  exact getE_set (by rw [← entry?_eq_getE]; exact h) _ _

theorem modifyEntry_index (f : Full) (i : Nat) (g : Entry → Entry) :
    (f.modifyEntry i g).index = f.index := by
  unfold Full.modifyEntry
  split <;> rfl

theorem modifyEntry_none {f : Full} {i : Nat} (h : f.entry? i = none) (g : Entry → Entry) :
    f.modifyEntry i g = f := by
  unfold Full.modifyEntry
  simp [h]

/-! ### The index as an association list -/

theorem lookupIdx_append (ix : List (Nat × List Nat)) (h : Nat) (l : List Nat) (h' : Nat) :
    lookupIdx (ix ++ [(h, l)]) h' =
      match lookupIdx ix h' with
      | some r => some r
      | none => if h = h' then some l else none := by
  unfold lookupIdx
  rw [List.find?_append]
  cases hf : ix.find? (fun p => p.1 == h') with
  | some p => simp
  | none =>
    simp only [Option.map_none, Option.none_or]
    by_cases hh : h = h'
    · subst hh; simp
    · simp [hh]

theorem lookupIdx_map (ix : List (Nat × List Nat)) (h : Nat) (l : List Nat) (h' : Nat) :
    lookupIdx (ix.map (fun p => if p.1 == h then (p.1, l) else p)) h' =
      if h' = h then (lookupIdx ix h).map (fun _ => l) else lookupIdx ix h' := by
  induction ix with
  | nil => simp [lookupIdx]
  | cons p ps ih =>
    obtain ⟨ph, pl⟩ := p
    unfold lookupIdx at ih ⊢
    simp only [List.map_cons, List.find?_cons]
    by_cases h1 : ph = h
    · subst h1
      by_cases h2 : h' = ph
      · subst h2; simp
      · have h3 : (ph == h') = false := by simpa using fun hc => h2 hc.symm
        simp only [beq_self_eq_true, if_true, h3, h2, if_false] at ih ⊢
        exact ih
    · have h1' : (ph == h) = false := by simpa using h1
      simp only [h1', Bool.false_eq_true, if_false]
      by_cases h4 : ph = h'
      · subst h4
        simp [h1]
      · have h4' : (ph == h') = false := by simpa using h4
        simp only [h4']
        exact ih

theorem lookupIdx_setIdx {ix : List (Nat × List Nat)} {h : Nat} {old : List Nat}
    (hp : lookupIdx ix h = some old) (l : List Nat) (h' : Nat) :
    lookupIdx (setIdx ix h l) h' = if h' = h then some l else lookupIdx ix h' := by
  have hany : ix.any (fun p => p.1 == h) = true := by
    unfold lookupIdx at hp
    cases hf : ix.find? (fun p => p.1 == h) with
    | none => simp [hf] at hp
    | some p =>
      have := List.find?_some hf
      exact List.any_eq_true.mpr ⟨p, List.mem_of_find?_eq_some hf, this⟩
  unfold setIdx
  simp only [hany, if_true]
  rw [lookupIdx_map, hp]
  rfl

/-! ### The index invariant -/

/-- For the hash function `hf`: every entry is a private copy stored with the hash of its inputs,
    every entry index is registered in the bucket of that hash, and no two entries have the same
    inputs. -/
structure IdxInv (hf : Vals → Nat) (f : Full) : Prop where
  inVal : ∀ e ∈ f.entries, AllVal e.inputs
  hashOK : ∀ e ∈ f.entries, e.hash = hf (vals e.inputs)
  indexed : ∀ i e, f.entry? i = some e →
    ∃ idxs, lookupIdx f.index e.hash = some idxs ∧ i ∈ idxs
  distinct : ∀ i j ei ej, f.entry? i = some ei → f.entry? j = some ej →
    vals ei.inputs = vals ej.inputs → i = j

theorem idxInv_empty (hf : Vals → Nat) : IdxInv hf {} :=
  ⟨(fun e he => by cases he), (fun e he => by cases he),
   (fun i e h => by simp [Full.entry?] at h), (fun i j ei ej h => by simp [Full.entry?] at h)⟩

/-- The exact lookup finds the entry of `x` (whatever collides with it). -/
theorem lookup_finds {hf : Vals → Nat} {f : Full} (hI : IdxInv hf f) (heap : List Arr)
    {i : Nat} {e : Entry} (he : f.entry? i = some e) :
    f.lookup heap 0 (vals e.inputs) (hf (vals e.inputs)) = some i := by
  obtain ⟨idxs, hl, hi⟩ := hI.indexed i e he
  rw [hI.hashOK e (entry?_mem he)] at hl
  unfold Full.lookup
  simp only [if_true, hl]
  unfold findIdx
  have hp : (match f.entry? i with
      | some e' => cmp 0 (vals e.inputs) (derefs heap e'.inputs)
      | none => false) = true := by
    simp only [he, derefs_eq_vals heap _ (hI.inVal e (entry?_mem he))]
    exact cmp_refl _ _
  cases hf' : idxs.find? (fun i' => match f.entry? i' with
      | some e' => cmp 0 (vals e.inputs) (derefs heap e'.inputs)
      | none => false) with
  | none =>
    have := List.find?_eq_none.mp hf' i hi
    exact absurd hp this
  | some i' =>
    have hp' := List.find?_some hf'
    cases he' : f.entry? i' with
    | none => simp [he'] at hp'
    | some e' =>
      simp only [he', derefs_eq_vals heap _ (hI.inVal e' (entry?_mem he'))] at hp'
      have := (cmp_zero_iff _ _).mp hp'
      rw [hI.distinct i i' e e' he he' this]

/-- `ensure` keeps the index invariant (the hash passed is the hash of `x`). -/
theorem ensure_idx {hf : Vals → Nat} {heap : List Arr} {f : Full} {x : Vals} {h : Nat}
    {xc : List Cell} (hI : IdxInv hf f) (hh : h = hf x) (hxc : AllVal xc) (hxv : vals xc = x) :
    IdxInv hf (f.ensure heap x h xc).1 := by
  unfold Full.ensure
  -- an existing entry with inputs `x` sits in the bucket of `h`
  have inBucket : ∀ j ej, f.entry? j = some ej → vals ej.inputs = x →
      ∃ idxs, lookupIdx f.index h = some idxs ∧ j ∈ idxs := by
    intro j ej hj hv
    obtain ⟨idxs, hl, hm⟩ := hI.indexed j ej hj
    rw [hI.hashOK ej (entry?_mem hj), hv, ← hh] at hl
    exact ⟨idxs, hl, hm⟩
  -- facts about the appended cache
  have app_inVal : ∀ e ∈ f.entries ++ [(⟨xc, none, none, h⟩ : Entry)], AllVal e.inputs := by
    intro e he
    rcases List.mem_append.mp he with he | he
    · exact hI.inVal e he
    · simp at he; subst he; exact hxc
  have app_hash : ∀ e ∈ f.entries ++ [(⟨xc, none, none, h⟩ : Entry)], e.hash = hf (vals e.inputs) := by
    intro e he
    rcases List.mem_append.mp he with he | he
    · exact hI.hashOK e he
    · simp at he; subst he; simp [hxv, hh]
  cases hi : lookupIdx f.index h with
  | none =>
    simp only []
    refine ⟨app_inVal, app_hash, ?_, ?_⟩
    · intro i e he
      simp only [Full.entry?] at he
      have he' : getE (f.entries ++ [(⟨xc, none, none, h⟩ : Entry)]) i = some e := he
      rw [getE_append_singleton] at he'
      by_cases hn : i = f.entries.length + 1
      · simp only [hn, if_true, Option.some.injEq] at he'
        subst he'
        refine ⟨[f.entries.length + 1], ?_, by simp [hn]⟩
        simp only [lookupIdx_append, hi, if_true]
      · simp only [hn, if_false] at he'
        obtain ⟨idxs, hl, hm⟩ := hI.indexed i e he'
        exact ⟨idxs, by simp only [lookupIdx_append, hl], hm⟩
    · intro i j ei ej hei hej hv
      have hei' : getE (f.entries ++ [(⟨xc, none, none, h⟩ : Entry)]) i = some ei := hei
      have hej' : getE (f.entries ++ [(⟨xc, none, none, h⟩ : Entry)]) j = some ej := hej
      rw [getE_append_singleton] at hei' hej'
      by_cases hin : i = f.entries.length + 1 <;> by_cases hjn : j = f.entries.length + 1
      · rw [hin, hjn]
      · simp only [hin, if_true, Option.some.injEq] at hei'
        simp only [hjn, if_false] at hej'
        subst hei'
        obtain ⟨idxs, hl, _⟩ := inBucket j ej hej' (by rw [← hv]; exact hxv)
        rw [hi] at hl; cases hl
      · simp only [hjn, if_true, Option.some.injEq] at hej'
        simp only [hin, if_false] at hei'
        subst hej'
        obtain ⟨idxs, hl, _⟩ := inBucket i ei hei' (by rw [hv]; exact hxv)
        rw [hi] at hl; cases hl
      · simp only [hin, if_false] at hei'
        simp only [hjn, if_false] at hej'
        exact hI.distinct i j ei ej hei' hej' hv
  | some idxs =>
    simp only []
    cases hfi : findIdx heap f 0 x idxs with
    | some i0 =>
      simp only []
      exact ⟨hI.inVal, hI.hashOK, hI.indexed, hI.distinct⟩
    | none =>
      simp only []
      -- no entry of the bucket has inputs `x`
      have notIn : ∀ j ej, f.entry? j = some ej → vals ej.inputs = x → False := by
        intro j ej hj hv
        obtain ⟨idxs', hl, hm⟩ := inBucket j ej hj hv
        rw [hi] at hl; cases hl
        unfold findIdx at hfi
        have := List.find?_eq_none.mp hfi j hm
        simp only [hj, derefs_eq_vals heap _ (hI.inVal ej (entry?_mem hj)), hv] at this
        exact this (cmp_refl _ _)
      refine ⟨app_inVal, app_hash, ?_, ?_⟩
      · intro i e he
        have he' : getE (f.entries ++ [(⟨xc, none, none, h⟩ : Entry)]) i = some e := he
        rw [getE_append_singleton] at he'
        by_cases hn : i = f.entries.length + 1
        · simp only [hn, if_true, Option.some.injEq] at he'
          subst he'
          refine ⟨idxs ++ [f.entries.length + 1], ?_, by simp [hn]⟩
          simp only [lookupIdx_setIdx hi, if_true]
        · simp only [hn, if_false] at he'
          obtain ⟨idxs', hl, hm⟩ := hI.indexed i e he'
          by_cases hhe : e.hash = h
          · rw [hhe, hi] at hl; cases hl
            exact ⟨idxs ++ [f.entries.length + 1], by simp only [lookupIdx_setIdx hi, hhe, if_true],
              List.mem_append_left _ hm⟩
          · exact ⟨idxs', by simp only [lookupIdx_setIdx hi, hhe, if_false]; exact hl, hm⟩
      · intro i j ei ej hei hej hv
        have hei' : getE (f.entries ++ [(⟨xc, none, none, h⟩ : Entry)]) i = some ei := hei
        have hej' : getE (f.entries ++ [(⟨xc, none, none, h⟩ : Entry)]) j = some ej := hej
        rw [getE_append_singleton] at hei' hej'
        by_cases hin : i = f.entries.length + 1 <;> by_cases hjn : j = f.entries.length + 1
        · rw [hin, hjn]
        · simp only [hin, if_true, Option.some.injEq] at hei'
          simp only [hjn, if_false] at hej'
          subst hei'
          exact (notIn j ej hej' (by rw [← hv]; exact hxv)).elim
        · simp only [hjn, if_true, Option.some.injEq] at hej'
          simp only [hin, if_false] at hei'
          subst hej'
          exact (notIn i ei hei' (by rw [hv]; exact hxv)).elim
        · simp only [hin, if_false] at hei'
          simp only [hjn, if_false] at hej'
          exact hI.distinct i j ei ej hei' hej' hv

/-- Filling a group of an entry (inputs and hash untouched) keeps the index invariant. -/
theorem modifyEntry_idx {hf : Vals → Nat} {f : Full} (hI : IdxInv hf f) (i : Nat)
    (g : Entry → Entry) (hg1 : ∀ e, (g e).inputs = e.inputs) (hg2 : ∀ e, (g e).hash = e.hash) :
    IdxInv hf (f.modifyEntry i g) := by
  cases he : f.entry? i with
  | none => rw [modifyEntry_none he]; exact hI
  | some e0 =>
    have hent : ∀ j e, (f.modifyEntry i g).entry? j = some e →
        ∃ e', f.entry? j = some e' ∧ e.inputs = e'.inputs ∧ e.hash = e'.hash := by
      intro j e hj
      rw [entry?_modifyEntry he] at hj
      by_cases hji : j = i
      · simp only [hji, if_true, Option.some.injEq] at hj
        subst hj
        exact ⟨e0, by rw [hji]; exact he, hg1 e0, hg2 e0⟩
      · simp only [hji, if_false] at hj
        exact ⟨e, hj, rfl, rfl⟩
    have hmem : ∀ e ∈ (f.modifyEntry i g).entries,
        ∃ e' ∈ f.entries, e.inputs = e'.inputs ∧ e.hash = e'.hash := by
      intro e hm
      rcases mem_modifyEntry hm with hm | ⟨e1, h1, rfl⟩
      · exact ⟨e, hm, rfl, rfl⟩
      · exact ⟨e1, entry?_mem h1, hg1 e1, hg2 e1⟩
    refine ⟨?_, ?_, ?_, ?_⟩
    · intro e hm
      obtain ⟨e', hm', h1, _⟩ := hmem e hm
      rw [h1]; exact hI.inVal e' hm'
    · intro e hm
      obtain ⟨e', hm', h1, h2⟩ := hmem e hm
      rw [h1, h2]; exact hI.hashOK e' hm'
    · intro j e hj
      obtain ⟨e', hj', _, h2⟩ := hent j e hj
      rw [modifyEntry_index, h2]
      exact hI.indexed j e' hj'
    · intro j k ej ek hj hk hv
      obtain ⟨ej', hj', h1, _⟩ := hent j ej hj
      obtain ⟨ek', hk', h2, _⟩ := hent k ek hk
      rw [h1, h2] at hv
      exact hI.distinct j k ej' ek' hj' hk' hv

theorem storeOutputs_idx {hf : Vals → Nat} {heap : List Arr} {f : Full} {x : Vals} {h : Nat}
    {xc oc : List Cell} (hI : IdxInv hf f) (hh : h = hf x) (hxc : AllVal xc) (hxv : vals xc = x) :
    IdxInv hf (f.storeOutputs heap x h xc oc) := by
  unfold Full.storeOutputs
  simp only []
  have h1 := ensure_idx (heap := heap) hI hh hxc hxv
  split_ifs
  · exact h1
  · exact modifyEntry_idx h1 _ _ (fun _ => rfl) (fun _ => rfl)

theorem storeJac_idx {hf : Vals → Nat} {heap : List Arr} {f : Full} {x : Vals} {h : Nat}
    {xc : List Cell} {j : Jac} (hI : IdxInv hf f) (hh : h = hf x) (hxc : AllVal xc)
    (hxv : vals xc = x) : IdxInv hf (f.storeJac heap x h xc j) := by
  unfold Full.storeJac
  simp only []
  have h1 := ensure_idx (heap := heap) hI hh hxc hxv
  split_ifs
  · exact h1
  · exact modifyEntry_idx h1 _ _ (fun _ => rfl) (fun _ => rfl)

/-! ### Reopen -/

theorem mem_insertBy {α : Type} (lt : α → α → Bool) (x a : α) (l : List α) :
    a ∈ insertBy lt x l ↔ a = x ∨ a ∈ l := by
  induction l with
  | nil => simp [insertBy]
  | cons y ys ih =>
    unfold insertBy
    split
    · simp
    · simp only [List.mem_cons, ih]
      constructor
      · rintro (h | h | h)
        · exact Or.inr (Or.inl h)
        · exact Or.inl h
        · exact Or.inr (Or.inr h)
      · rintro (h | h | h)
        · exact Or.inr (Or.inl h)
        · exact Or.inl h
        · exact Or.inr (Or.inr h)

theorem mem_sortBy {α : Type} (lt : α → α → Bool) (a : α) (l : List α) :
    a ∈ sortBy lt l ↔ a ∈ l := by
  unfold sortBy
  induction l with
  | nil => simp
  | cons y ys ih => simp only [List.foldr_cons, mem_insertBy, ih, List.mem_cons]

theorem mem_h5Order {n i : Nat} (h1 : 1 ≤ i) (h2 : i ≤ n) : i ∈ h5Order n := by
  unfold h5Order
  rw [mem_sortBy]
  exact List.mem_map.mpr ⟨i - 1, by simp; omega, by omega⟩

/-- Registering one more index keeps what is registered. -/
theorem insertIdx_keeps (f : Full) (ix : List (Nat × List Nat)) (i : Nat) (hh : Nat)
    (l : List Nat) (j : Nat) (hl : lookupIdx ix hh = some l) (hj : j ∈ l) :
    ∃ l', lookupIdx (insertIdx f ix i) hh = some l' ∧ j ∈ l' := by
  unfold insertIdx
  cases he : f.entry? i with
  | none => exact ⟨l, hl, hj⟩
  | some e =>
    simp only []
    cases hb : lookupIdx ix e.hash with
    | none =>
      simp only []
      exact ⟨l, by simp only [lookupIdx_append, hl], hj⟩
    | some idxs =>
      simp only []
      by_cases hhe : hh = e.hash
      · subst hhe
        rw [hl] at hb; cases hb
        exact ⟨l ++ [i], by simp only [lookupIdx_setIdx hl, if_true], List.mem_append_left _ hj⟩
      · exact ⟨l, by simp only [lookupIdx_setIdx hb, hhe, if_false]; exact hl, hj⟩

theorem insertIdx_adds (f : Full) (ix : List (Nat × List Nat)) (i : Nat) (e : Entry)
    (he : f.entry? i = some e) :
    ∃ l', lookupIdx (insertIdx f ix i) e.hash = some l' ∧ i ∈ l' := by
  unfold insertIdx
  simp only [he]
  cases hb : lookupIdx ix e.hash with
  | none =>
    simp only []
    exact ⟨[i], by simp only [lookupIdx_append, hb, if_true], by simp⟩
  | some idxs =>
    simp only []
    exact ⟨idxs ++ [i], by simp only [lookupIdx_setIdx hb, if_true], by simp⟩

theorem foldl_insertIdx_keeps (f : Full) (order : List Nat) (ix : List (Nat × List Nat))
    (hh : Nat) (l : List Nat) (j : Nat) (hl : lookupIdx ix hh = some l) (hj : j ∈ l) :
    ∃ l', lookupIdx (order.foldl (insertIdx f) ix) hh = some l' ∧ j ∈ l' := by
  induction order generalizing ix l with
  | nil => exact ⟨l, hl, hj⟩
  | cons i is ih =>
    simp only [List.foldl_cons]
    obtain ⟨l1, h1, h2⟩ := insertIdx_keeps f ix i hh l j hl hj
    exact ih _ l1 h1 h2

theorem foldl_insertIdx_adds (f : Full) (order : List Nat) (ix : List (Nat × List Nat))
    (i : Nat) (e : Entry) (he : f.entry? i = some e) (hi : i ∈ order) :
    ∃ l', lookupIdx (order.foldl (insertIdx f) ix) e.hash = some l' ∧ i ∈ l' := by
  induction order generalizing ix with
  | nil => cases hi
  | cons k ks ih =>
    simp only [List.foldl_cons]
    rcases List.mem_cons.mp hi with hk | hk
    · subst hk
      obtain ⟨l1, h1, h2⟩ := insertIdx_adds f ix i e he
      exact foldl_insertIdx_keeps f ks _ e.hash l1 i h1 h2
    · exact ih _ hk

/-- A reopened file cache has the same entries and a consistent index. -/
theorem reopen_idx {hf : Vals → Nat} {f : Full} (hI : IdxInv hf f) : IdxInv hf f.reopen := by
  refine ⟨hI.inVal, hI.hashOK, ?_, hI.distinct⟩
  intro i e he
  have he' : f.entry? i = some e := he
  obtain ⟨h1, h2⟩ := getE_some_bounds (by rw [← entry?_eq_getE]; exact he')
  exact foldl_insertIdx_adds f _ [] i e he' (mem_h5Order h1 h2)

/-! ### Entries are never overwritten -/

/-- `f'` extends `f`: every entry of `f` is still there with the same inputs and hash, and every
    group it had (outputs, Jacobian) is unchanged. -/
def Ext (f f' : Full) : Prop :=
  ∀ i e, f.entry? i = some e → ∃ e', f'.entry? i = some e' ∧ e'.inputs = e.inputs ∧
    e'.hash = e.hash ∧ (∀ oc, e.outputs = some oc → e'.outputs = some oc) ∧
    (∀ j, e.jac = some j → e'.jac = some j)

theorem Ext.refl (f : Full) : Ext f f := fun _ e h => ⟨e, h, rfl, rfl, fun _ h => h, fun _ h => h⟩

theorem Ext.trans {f g k : Full} (h1 : Ext f g) (h2 : Ext g k) : Ext f k := by
  intro i e he
  obtain ⟨e1, a1, a2, a3, a4, a5⟩ := h1 i e he
  obtain ⟨e2, b1, b2, b3, b4, b5⟩ := h2 i e1 a1
  exact ⟨e2, b1, by rw [b2, a2], by rw [b3, a3], fun oc h => b4 oc (a4 oc h), fun j h => b5 j (a5 j h)⟩

theorem ensure_ext (heap : List Arr) (f : Full) (x : Vals) (h : Nat) (xc : List Cell) :
    Ext f (f.ensure heap x h xc).1 := by
  intro i e he
  cases hn : (f.ensure heap x h xc).2 with
  | true =>
    obtain ⟨hent, _⟩ := ensure_new hn
    refine ⟨e, ?_, rfl, rfl, fun _ h => h, fun _ h => h⟩
    rw [entry?_eq_getE, hent, getE_append_singleton]
    have := (getE_some_bounds (by rw [← entry?_eq_getE]; exact he)).2
    have hne : i ≠ f.entries.length + 1 := by omega
    simp only [hne, if_false]
    exact he
  | false =>
    obtain ⟨hent, _⟩ := ensure_old hn
    exact ⟨e, by rw [entry?_same_entries hent]; exact he, rfl, rfl, fun _ h => h, fun _ h => h⟩

theorem storeOutputs_ext (heap : List Arr) (f : Full) (x : Vals) (h : Nat) (xc oc : List Cell) :
    Ext f (f.storeOutputs heap x h xc oc) := by
  unfold Full.storeOutputs
  simp only []
  have h1 := ensure_ext heap f x h xc
  cases hn : (f.ensure heap x h xc).2 with
  | true =>
    simp only [Bool.not_true, Bool.false_and, Bool.false_eq_true, if_false]
    obtain ⟨hent, hlast⟩ := ensure_new hn
    apply h1.trans
    intro i e he
    have hlast' := entry?_append_last f.entries _ _ hent
    rw [← hlast] at hlast'
    rw [entry?_modifyEntry hlast']
    by_cases hi : i = (f.ensure heap x h xc).1.last
    · subst hi
      rw [hlast'] at he; cases he
      rw [if_pos rfl]
      exact ⟨_, rfl, rfl, rfl, (fun _ h => by cases h), (fun _ h => h)⟩
    · simp only [hi, if_false]
      exact ⟨e, he, rfl, rfl, fun _ h => h, fun _ h => h⟩
  | false =>
    simp only [Bool.not_false, Bool.true_and]
    cases hl : (f.ensure heap x h xc).1.entry? (f.ensure heap x h xc).1.last with
    | none =>
      simp only [Bool.false_eq_true, if_false]
      rw [modifyEntry_none hl]; exact h1
    | some e0 =>
      simp only []
      by_cases hso : e0.outputs.isSome = true
      · simp only [hso, if_true]; exact h1
      · simp only [hso, Bool.false_eq_true, if_false]
        have ho : e0.outputs = none := by
          cases hh : e0.outputs with
          | none => rfl
          | some _ => simp [hh] at hso
        apply h1.trans
        intro i e he
        rw [entry?_modifyEntry hl]
        by_cases hi : i = (f.ensure heap x h xc).1.last
        · subst hi
          rw [hl] at he; cases he
          rw [if_pos rfl]
          exact ⟨_, rfl, rfl, rfl, (fun _ h => by rw [ho] at h; cases h), (fun _ h => h)⟩
        · simp only [hi, if_false]
          exact ⟨e, he, rfl, rfl, fun _ h => h, fun _ h => h⟩

theorem storeJac_ext (heap : List Arr) (f : Full) (x : Vals) (h : Nat) (xc : List Cell) (j : Jac) :
    Ext f (f.storeJac heap x h xc j) := by
  unfold Full.storeJac
  simp only []
  have h1 := ensure_ext heap f x h xc
  cases hn : (f.ensure heap x h xc).2 with
  | true =>
    simp only [Bool.not_true, Bool.false_and, Bool.false_eq_true, if_false]
    obtain ⟨hent, hlast⟩ := ensure_new hn
    apply h1.trans
    intro i e he
    have hlast' := entry?_append_last f.entries _ _ hent
    rw [← hlast] at hlast'
    rw [entry?_modifyEntry hlast']
    by_cases hi : i = (f.ensure heap x h xc).1.last
    · subst hi
      rw [hlast'] at he; cases he
      rw [if_pos rfl]
      exact ⟨_, rfl, rfl, rfl, (fun _ h => h), (fun _ h => by cases h)⟩
    · simp only [hi, if_false]
      exact ⟨e, he, rfl, rfl, fun _ h => h, fun _ h => h⟩
  | false =>
    simp only [Bool.not_false, Bool.true_and]
    cases hl : (f.ensure heap x h xc).1.entry? (f.ensure heap x h xc).1.last with
    | none =>
      simp only [Bool.false_eq_true, if_false]
      rw [modifyEntry_none hl]; exact h1
    | some e0 =>
      simp only []
      by_cases hso : e0.jac.isSome = true
      · simp only [hso, if_true]; exact h1
      · simp only [hso, Bool.false_eq_true, if_false]
        have ho : e0.jac = none := by
          cases hh : e0.jac with
          | none => rfl
          | some _ => simp [hh] at hso
        apply h1.trans
        intro i e he
        rw [entry?_modifyEntry hl]
        by_cases hi : i = (f.ensure heap x h xc).1.last
        · subst hi
          rw [hl] at he; cases he
          rw [if_pos rfl]
          exact ⟨_, rfl, rfl, rfl, (fun _ h => h), (fun _ h => by rw [ho] at h; cases h)⟩
        · simp only [hi, if_false]
          exact ⟨e, he, rfl, rfl, fun _ h => h, fun _ h => h⟩

/-- After `cache_outputs` for `x` the entry of `x` has outputs. -/
theorem storeOutputs_has {heap : List Arr} {f : Full} {x : Vals} {h : Nat} {xc oc : List Cell}
    {d : Disc} {rl jl : List Vals} (hf : FullOK d rl jl f) (hxv : vals xc = x) :
    ∃ i e, (f.storeOutputs heap x h xc oc).entry? i = some e ∧ vals e.inputs = x ∧
      e.outputs.isSome = true := by
  unfold Full.storeOutputs
  simp only []
  cases hn : (f.ensure heap x h xc).2 with
  | true =>
    simp only [Bool.not_true, Bool.false_and, Bool.false_eq_true, if_false]
    obtain ⟨hent, hlast⟩ := ensure_new hn
    have hlast' := entry?_append_last f.entries _ _ hent
    rw [← hlast] at hlast'
    exact ⟨(f.ensure heap x h xc).1.last, { inputs := xc, outputs := some oc, jac := none, hash := h },
      (by rw [entry?_modifyEntry hlast', if_pos rfl]), hxv, rfl⟩
  | false =>
    simp only [Bool.not_false, Bool.true_and]
    obtain ⟨hent, e0, he0, hcmp⟩ := ensure_old hn
    have he0' : (f.ensure heap x h xc).1.entry? (f.ensure heap x h xc).1.last = some e0 := by
      rw [entry?_same_entries hent]; exact he0
    have hv : vals e0.inputs = x := by
      rw [derefs_eq_vals heap _ (hf e0 (entry?_mem he0)).inVal] at hcmp
      exact ((cmp_zero_iff _ _).mp hcmp).symm
    simp only [he0']
    by_cases hso : e0.outputs.isSome = true
    · simp only [hso, if_true]
      exact ⟨_, e0, he0', hv, hso⟩
    · simp only [hso, Bool.false_eq_true, if_false]
      exact ⟨(f.ensure heap x h xc).1.last, { e0 with outputs := some oc },
        (by rw [entry?_modifyEntry he0', if_pos rfl]), hv, rfl⟩

end GV.C05
