/-
C08 helper lemmas: the Boolean closure `reach` of the model is the reflexive-transitive closure
(`Relation.ReflTransGen`) of the adjacency relation; the memoisation tables are the relations
themselves.
-/
import GemseoVerif.Model.C08
import Mathlib.Logic.Relation
import Mathlib.Data.List.Basic
import Mathlib.Data.List.Nodup
import Mathlib.Data.List.Range
import Mathlib.Data.List.Perm.Subperm

namespace GV.C08

open Relation

variable {adj : Nat → Nat → Bool} {n : Nat}

/-- The relation of an adjacency function. -/
def Adj (adj : Nat → Nat → Bool) : Nat → Nat → Prop := fun a b => adj a b = true

/-- A set of nodes closed under successors. -/
def Closed (adj : Nat → Nat → Bool) (vis : List Nat) : Prop :=
  ∀ a ∈ vis, ∀ b, adj a b = true → b ∈ vis

theorem mem_expand {vis : List Nat} {j : Nat} :
    j ∈ expand adj n vis ↔ j ∈ vis ∨ (j < n ∧ j ∉ vis ∧ ∃ m ∈ vis, adj m j = true) := by
  simp [expand, List.mem_append, List.mem_filter, List.mem_range]

theorem subset_expand (vis : List Nat) : vis ⊆ expand adj n vis := by
  intro j hj; exact mem_expand.2 (Or.inl hj)

theorem subset_closureFrom (k : Nat) (vis : List Nat) : vis ⊆ closureFrom adj n k vis := by
  induction k generalizing vis with
  | zero => simp [closureFrom]
  | succ k ih =>
    intro j hj
    simp only [closureFrom]
    exact ih _ (subset_expand vis hj)

theorem nodup_expand {vis : List Nat} (h : vis.Nodup) : (expand adj n vis).Nodup := by
  unfold expand
  refine List.Nodup.append h ((List.nodup_range).filter _) ?_
  intro a ha hb
  simp [List.mem_filter] at hb
  exact hb.2.1 ha

theorem lt_expand {vis : List Nat} (h : ∀ a ∈ vis, a < n) : ∀ a ∈ expand adj n vis, a < n := by
  intro a ha
  rcases mem_expand.1 ha with h1 | h1
  · exact h a h1
  · exact h1.1

theorem nodup_closureFrom (k : Nat) {vis : List Nat} (h : vis.Nodup) :
    (closureFrom adj n k vis).Nodup := by
  induction k generalizing vis with
  | zero => simpa [closureFrom]
  | succ k ih => simp only [closureFrom]; exact ih (nodup_expand h)

theorem lt_closureFrom (k : Nat) {vis : List Nat} (h : ∀ a ∈ vis, a < n) :
    ∀ a ∈ closureFrom adj n k vis, a < n := by
  induction k generalizing vis with
  | zero => simpa [closureFrom]
  | succ k ih => simp only [closureFrom]; exact ih (lt_expand h)

/-- Soundness: everything found is reachable from a start node. -/
theorem sound_closureFrom (k : Nat) (vis : List Nat) :
    ∀ j ∈ closureFrom adj n k vis, ∃ m ∈ vis, ReflTransGen (Adj adj) m j := by
  induction k generalizing vis with
  | zero => intro j hj; exact ⟨j, by simpa [closureFrom] using hj, ReflTransGen.refl⟩
  | succ k ih =>
    intro j hj
    simp only [closureFrom] at hj
    obtain ⟨m, hm, hmj⟩ := ih _ j hj
    rcases mem_expand.1 hm with h1 | ⟨_, _, m', hm', hadj⟩
    · exact ⟨m, h1, hmj⟩
    · exact ⟨m', hm', ReflTransGen.head hadj hmj⟩

theorem length_le_of_nodup_lt {l : List Nat} (hd : l.Nodup) (hl : ∀ a ∈ l, a < n) : l.length ≤ n := by
  have hsub : l ⊆ List.range n := fun a ha => List.mem_range.2 (hl a ha)
  have := (List.subperm_of_subset hd hsub).length_le
  simpa using this

/-- If a round adds nothing, the set is closed (targets of edges are `< n`). -/
theorem closed_of_expand_length (hadj : ∀ a b, adj a b = true → b < n) {vis : List Nat}
    (h : (expand adj n vis).length = vis.length) : Closed adj vis ∧ expand adj n vis = vis := by
  unfold expand at h ⊢
  rw [List.length_append] at h
  have h0 : ((List.range n).filter
      (fun j => !vis.contains j && vis.any (fun m => adj m j))) = [] := by
    apply List.eq_nil_of_length_eq_zero; omega
  refine ⟨?_, by rw [h0, List.append_nil]⟩
  intro a ha b hab
  by_contra hb
  have : b ∈ (List.range n).filter
      (fun j => !vis.contains j && vis.any (fun m => adj m j)) := by
    simp only [List.mem_filter, List.mem_range, Bool.and_eq_true, Bool.not_eq_true',
      List.contains_eq_mem, decide_eq_false_iff_not, List.any_eq_true]
    exact ⟨hadj a b hab, hb, a, ha, hab⟩
  rw [h0] at this
  simp at this

theorem closureFrom_of_fixed (k : Nat) {vis : List Nat} (h : expand adj n vis = vis) :
    closureFrom adj n k vis = vis := by
  induction k with
  | zero => rfl
  | succ k ih => simp only [closureFrom, h, ih]

theorem length_expand_ge (vis : List Nat) : vis.length ≤ (expand adj n vis).length := by
  unfold expand; rw [List.length_append]; omega

/-- After `k` rounds the set is closed or has grown by at least `k` nodes. -/
theorem closed_or_grows (hadj : ∀ a b, adj a b = true → b < n) (k : Nat) (vis : List Nat) :
    Closed adj (closureFrom adj n k vis) ∨ vis.length + k ≤ (closureFrom adj n k vis).length := by
  induction k generalizing vis with
  | zero => right; simp [closureFrom]
  | succ k ih =>
    simp only [closureFrom]
    by_cases h : (expand adj n vis).length = vis.length
    · obtain ⟨hc, hfix⟩ := closed_of_expand_length hadj h
      left
      rw [hfix, closureFrom_of_fixed k hfix]
      exact hc
    · have hge := length_expand_ge (adj := adj) (n := n) vis
      rcases ih (expand adj n vis) with h1 | h1
      · exact Or.inl h1
      · right; omega

theorem closed_closure (hadj : ∀ a b, adj a b = true → b < n) {i : Nat} (hi : i < n) :
    Closed adj (closureFrom adj n n [i]) := by
  rcases closed_or_grows hadj n [i] with h | h
  · exact h
  · exfalso
    have hd : (closureFrom adj n n [i]).Nodup := nodup_closureFrom n (by simp)
    have hl : ∀ a ∈ closureFrom adj n n [i], a < n :=
      lt_closureFrom n (by intro a ha; simp at ha; omega)
    have := length_le_of_nodup_lt hd hl
    simp at h
    omega

/-- `closure_iff_reflTransGen`: the Boolean closure is exactly `Relation.ReflTransGen`. -/
theorem reach_iff (hadj : ∀ a b, adj a b = true → b < n) {i : Nat} (hi : i < n) (j : Nat) :
    reach adj n i j = true ↔ ReflTransGen (Adj adj) i j := by
  unfold reach
  rw [List.contains_eq_mem, decide_eq_true_iff]
  constructor
  · intro h
    obtain ⟨m, hm, hmj⟩ := sound_closureFrom n [i] j h
    simp at hm
    subst hm
    exact hmj
  · intro h
    have hc := closed_closure hadj hi
    have hi' : i ∈ closureFrom adj n n [i] := subset_closureFrom n [i] (by simp)
    induction h with
    | refl => exact hi'
    | tail _ hbc ih => exact hc _ ih _ hbc

theorem reach_lt {i j : Nat} (hi : i < n)
    (h : reach adj n i j = true) : j < n := by
  unfold reach at h
  rw [List.contains_eq_mem, decide_eq_true_iff] at h
  exact lt_closureFrom n (by intro a ha; simp at ha; omega) j h

theorem reach_refl (i : Nat) : reach adj n i i = true := by
  unfold reach
  rw [List.contains_eq_mem, decide_eq_true_iff]
  exact subset_closureFrom n [i] (by simp)

theorem reach_trans (hadj : ∀ a b, adj a b = true → b < n) {i j k : Nat} (hi : i < n)
    (h1 : reach adj n i j = true) (h2 : reach adj n j k = true) : reach adj n i k = true := by
  have hj := reach_lt hi h1
  rw [reach_iff hadj hi] at h1 ⊢
  rw [reach_iff hadj hj] at h2
  exact h1.trans h2

theorem reach_of_adj (hadj : ∀ a b, adj a b = true → b < n) {i j : Nat} (hi : i < n)
    (h : adj i j = true) : reach adj n i j = true :=
  (reach_iff hadj hi j).2 (ReflTransGen.single h)

/-! ### Mutual reachability -/

theorem mutualR_iff (hadj : ∀ a b, adj a b = true → b < n) (i j : Nat) :
    mutualR adj n i j = true ↔
      i < n ∧ j < n ∧ ReflTransGen (Adj adj) i j ∧ ReflTransGen (Adj adj) j i := by
  unfold mutualR
  simp only [Bool.and_eq_true, decide_eq_true_eq]
  constructor
  · rintro ⟨⟨⟨hi, hj⟩, h1⟩, h2⟩
    exact ⟨hi, hj, (reach_iff hadj hi j).1 h1, (reach_iff hadj hj i).1 h2⟩
  · rintro ⟨hi, hj, h1, h2⟩
    exact ⟨⟨⟨hi, hj⟩, (reach_iff hadj hi j).2 h1⟩, (reach_iff hadj hj i).2 h2⟩

/-! ### Memoisation tables -/

theorem look_mkTab (f : Nat → Nat → Bool) (i j : Nat) :
    look (mkTab n f) i j = (decide (i < n) && decide (j < n) && f i j) := by
  unfold look mkTab
  by_cases hi : i < n
  · by_cases hj : j < n
    · simp [hi, hj]
    · simp [hi, hj]
  · simp [hi]

theorem look_mkReachTab (adj : Nat → Nat → Bool) (i j : Nat) :
    look (mkReachTab adj n) i j = (decide (i < n) && decide (j < n) && reach adj n i j) := by
  unfold look mkReachTab reach
  by_cases hi : i < n
  · by_cases hj : j < n
    · simp [hi, hj]
    · simp [hi, hj]
  · simp [hi]

end GV.C08
