/-
C08 helper lemmas: `chainGrammar` (the model of `MDOChain._initialize_grammars`): the inputs of a
chain are the names read by a discipline and not produced by an earlier one; its outputs are all
the outputs.
-/
import GemseoVerif.Model.C08
import Mathlib.Data.List.Basic
import Mathlib.Data.List.Induction

namespace GV.C08

theorem chainGrammar_nil : chainGrammar [] = ([], []) := rfl

theorem chainGrammar_append_singleton (pre : List Disc) (d : Disc) :
    chainGrammar (pre ++ [d]) =
      ((chainGrammar pre).1 ++ d.inputs.filter (fun v => !(chainGrammar pre).2.contains v),
       (chainGrammar pre).2 ++ d.outputs) := by
  simp [chainGrammar, List.foldl_append]

theorem mem_chainGrammar_outputs (ds : List Disc) (v : String) :
    v ∈ (chainGrammar ds).2 ↔ ∃ d ∈ ds, v ∈ d.outputs := by
  induction ds using List.reverseRecOn with
  | nil => simp [chainGrammar_nil]
  | append_singleton pre d ih =>
    rw [chainGrammar_append_singleton]
    simp only [List.mem_append, ih, List.mem_singleton]
    constructor
    · rintro (⟨d', hd', hv⟩ | hv)
      · exact ⟨d', Or.inl hd', hv⟩
      · exact ⟨d, Or.inr rfl, hv⟩
    · rintro ⟨d', hd' | rfl, hv⟩
      · exact Or.inl ⟨d', hd', hv⟩
      · exact Or.inr hv

/-- The inputs of a chain: read by some discipline, produced by none of the earlier ones. -/
theorem mem_chainGrammar_inputs (ds : List Disc) (v : String) :
    v ∈ (chainGrammar ds).1 ↔
      ∃ pre d post, ds = pre ++ d :: post ∧ v ∈ d.inputs ∧ ∀ d' ∈ pre, v ∉ d'.outputs := by
  induction ds using List.reverseRecOn with
  | nil => simp [chainGrammar_nil]
  | append_singleton pre d ih =>
    rw [chainGrammar_append_singleton]
    simp only [List.mem_append, List.mem_filter, Bool.not_eq_true', List.contains_eq_mem,
      decide_eq_false_iff_not, mem_chainGrammar_outputs, ih]
    constructor
    · rintro (⟨p, x, q, hsplit, hvx, hnone⟩ | ⟨hvd, hnone⟩)
      · exact ⟨p, x, q ++ [d], by rw [hsplit]; simp, hvx, hnone⟩
      · exact ⟨pre, d, [], rfl, hvd, fun d' hd' hv => hnone ⟨d', hd', hv⟩⟩
    · rintro ⟨p, x, q, hsplit, hvx, hnone⟩
      rcases List.eq_nil_or_concat q with rfl | ⟨q', y, rfl⟩
      · -- x is the last discipline
        have := List.append_inj' hsplit (by simp)
        obtain ⟨rfl, hx⟩ := this
        simp only [List.cons.injEq, and_true] at hx
        subst hx
        exact Or.inr ⟨hvx, fun ⟨d', hd', hv⟩ => hnone d' hd' hv⟩
      · have h' : pre ++ [d] = (p ++ x :: q') ++ [y] := by rw [hsplit]; simp
        have := List.append_inj' h' (by simp)
        obtain ⟨hpre, _⟩ := this
        exact Or.inl ⟨p, x, q', hpre, hvx, hnone⟩

/-- Giving a value to every input of the chain is enough: each discipline then finds each of its
    inputs in the given data or among the outputs of an earlier discipline. -/
theorem chainGrammar_inputs_suffice (ds : List Disc) (given : String → Prop)
    (h : ∀ k ∈ (chainGrammar ds).1, given k) :
    ∀ pre d post, ds = pre ++ d :: post → ∀ k ∈ d.inputs,
      given k ∨ ∃ d' ∈ pre, k ∈ d'.outputs := by
  intro pre d post hsplit k hk
  by_cases hp : ∃ d' ∈ pre, k ∈ d'.outputs
  · exact Or.inr hp
  · left
    apply h k
    rw [mem_chainGrammar_inputs]
    exact ⟨pre, d, post, hsplit, hk, fun d' hd' hv => hp ⟨d', hd', hv⟩⟩

end GV.C08
