/-
Helper lemmas for the DOE clause of C03: a sequential DOE over `samples` with budget
`samples.length` evaluates each distinct sample exactly once (for every output function) and
records the points in generation order (first occurrences).
-/
import GemseoVerif.Model.C03
import Mathlib.Data.List.Basic
import Mathlib.Data.List.Induction
import Mathlib.Tactic.Linarith

namespace GV.C03

/-- First occurrences, in order. -/
def firstOcc (l : List Key) : List Key :=
  l.foldl (fun acc k => if acc.contains k then acc else acc ++ [k]) []

theorem firstOcc_snoc (l : List Key) (k : Key) :
    firstOcc (l ++ [k]) = if (firstOcc l).contains k then firstOcc l else firstOcc l ++ [k] := by
  simp [firstOcc, List.foldl_append]

theorem firstOcc_length_le (l : List Key) : (firstOcc l).length ≤ l.length := by
  induction l using List.reverseRecOn with
  | nil => simp [firstOcc]
  | append_singleton l k ih =>
    rw [firstOcc_snoc]
    split
    · simp; omega
    · simp; omega

def doeCfg : Cfg := { storeJac := true, stopIfNan := false }

def valueOuts (fnames : List String) : List OutName := fnames.map (fun f => (f, Kind.value))

def sampleReqs (fnames : List String) (s : Key) : List Req :=
  fnames.map (fun f => { name := f, kind := .value, key := s })

def sampleCalls (fnames : List String) (s : Key) : List Call :=
  fnames.map (fun f => Call.mk f .value s)

/-- State reached after the samples `P` have been processed. -/
structure DoeInv (fnames : List String) (N : Nat) (P : List Key) (st : St) : Prop where
  db : st.db = (firstOcc P).map (fun s => Entry.mk s (valueOuts fnames))
  current : st.current = (firstOcc P).length
  maximum : st.maximum = N
  calls : st.calls = (firstOcc P).flatMap (sampleCalls fnames)

theorem lookup_in_map (ks : List Key) (outs : List OutName) (k : Key) :
    lookupEntry (ks.map (fun s => Entry.mk s outs)) k
      = if ks.contains k then some (Entry.mk k outs) else none := by
  unfold lookupEntry
  induction ks with
  | nil => rfl
  | cons a as ih =>
    simp only [List.map_cons, List.find?_cons, List.contains_cons]
    by_cases hak : a == k
    · have : a = k := by simpa using hak
      subst this
      simp
    · have hka : (k == a) = false := by
        have : a ≠ k := by simpa using hak
        simpa using fun h => this h.symm
      simp only [hak, hka, Bool.false_or]
      exact ih

/-- A sample that was already generated: every request is served, nothing changes. -/
theorem sample_seen (fnames : List String) (st : St) (ks : List Key) (s : Key)
    (hdb : st.db = ks.map (fun s => Entry.mk s (valueOuts fnames))) (hs : ks.contains s = true) :
    ∀ fs : List String, (∀ f ∈ fs, f ∈ fnames) →
      runUntilStop doeCfg st (sampleReqs fs s) = (st, none) := by
  intro fs
  induction fs with
  | nil => intro _; rfl
  | cons f fs ih =>
    intro hsub
    have hrec : recorded st.db s (f, Kind.value) = true := by
      unfold recorded
      rw [hdb, lookup_in_map, hs]
      simp only [if_true, valueOuts, List.contains_iff_mem, List.mem_map]
      simpa using hsub f (by simp)
    simp only [sampleReqs, List.map_cons, runUntilStop]
    have hstep : step doeCfg st { name := f, kind := .value, key := s } = (st, .served) := by
      simp [step, hrec]
    rw [hstep]
    exact ih (fun g hg => hsub g (List.mem_cons_of_mem _ hg))

/-- Store of a further output name into the (last) entry of a fresh sample. -/
theorem store_last (db0 : List Entry) (s : Key) (outs : List OutName) (n : OutName)
    (hfresh : db0.any (fun e => e.key == s) = false) (hn : outs.contains n = false) :
    store (db0 ++ [Entry.mk s outs]) s n = db0 ++ [Entry.mk s (outs ++ [n])] := by
  unfold store
  have hany : (db0 ++ [Entry.mk s outs]).any (fun e => e.key == s) = true := by simp
  simp only [hany, if_true, List.map_append, List.map_cons, List.map_nil, beq_self_eq_true, hn,
    Bool.false_eq_true, if_false]
  congr 1
  have : db0.map (fun e => if e.key == s then
      ({ e with outs := if e.outs.contains n then e.outs else e.outs ++ [n] } : Entry) else e)
      = db0.map id := by
    apply List.map_congr_left
    intro e he
    have : (e.key == s) = false := by
      by_contra hc
      have hc' : (e.key == s) = true := by simpa using hc
      have : db0.any (fun e => e.key == s) = true := List.any_eq_true.mpr ⟨e, he, hc'⟩
      rw [hfresh] at this; cases this
    simp [this]
  rw [this, List.map_id]

theorem lookup_last (db0 : List Entry) (s : Key) (outs : List OutName)
    (hfresh : db0.any (fun e => e.key == s) = false) :
    lookupEntry (db0 ++ [Entry.mk s outs]) s = some (Entry.mk s outs) := by
  unfold lookupEntry
  rw [List.find?_append]
  have hnone : db0.find? (fun e => e.key == s) = none := by
    apply List.find?_eq_none.mpr
    intro e he hek
    have : db0.any (fun e => e.key == s) = true := List.any_eq_true.mpr ⟨e, he, hek⟩
    rw [hfresh] at this; cases this
  simp [hnone]

/-- The remaining output functions of a fresh sample, once its entry exists (not unseen any more):
    each one is computed and appended, the counter does not move. -/
theorem sample_rest (db0 : List Entry) (s : Key) (cur mx : Nat)
    (hfresh : db0.any (fun e => e.key == s) = false) :
    ∀ (fs done : List String) (calls : List Call), done ≠ [] →
      (∀ f ∈ fs, (valueOuts done).contains (f, Kind.value) = false) → fs.Nodup →
      runUntilStop doeCfg (St.mk (db0 ++ [Entry.mk s (valueOuts done)]) cur mx calls) (sampleReqs fs s)
        = (St.mk (db0 ++ [Entry.mk s (valueOuts (done ++ fs))]) cur mx (calls ++ sampleCalls fs s), none) := by
  intro fs
  induction fs with
  | nil => intro done calls _ _ _; simp [sampleReqs, sampleCalls, runUntilStop]
  | cons f fs ih =>
    intro done calls hne hnew hnd
    have hf := hnew f (by simp)
    have hlk := lookup_last db0 s (valueOuts done) hfresh
    have hrec : recorded (db0 ++ [Entry.mk s (valueOuts done)]) s (f, Kind.value) = false := by
      unfold recorded; rw [hlk]; exact hf
    have hun : unseen (db0 ++ [Entry.mk s (valueOuts done)]) s = false := by
      unfold unseen; rw [hlk]
      cases done with
      | nil => exact absurd rfl hne
      | cons d ds => simp [valueOuts]
    have hstore := store_last db0 s (valueOuts done) (f, Kind.value) hfresh hf
    have hstep : step doeCfg (St.mk (db0 ++ [Entry.mk s (valueOuts done)]) cur mx calls)
        { name := f, kind := .value, key := s }
        = (St.mk (db0 ++ [Entry.mk s (valueOuts (done ++ [f]))]) cur mx (calls ++ [Call.mk f .value s]),
           Outcome.computed) := by
      simp only [step, hrec, hun, Bool.false_and, Bool.false_eq_true, if_false, doeCfg,
        Bool.and_false, beq_self_eq_true, Bool.true_or, Bool.not_true, Bool.not_false, if_true, hstore]
      simp [valueOuts]
    have hnd' := List.nodup_cons.mp hnd
    have hrest := ih (done ++ [f]) (calls ++ [Call.mk f .value s]) (by simp)
      (by
        intro g hg
        have hg1 := hnew g (List.mem_cons_of_mem _ hg)
        have hgf : g ≠ f := fun e => hnd'.1 (e ▸ hg)
        have hnot : (g, Kind.value) ∉ valueOuts (done ++ [f]) := by
          intro hm
          simp only [valueOuts, List.map_append, List.mem_append, List.map_cons, List.map_nil,
            List.mem_singleton, Prod.mk.injEq, and_true] at hm
          rcases hm with hm | hm
          · have : (valueOuts done).contains (g, Kind.value) = true := by
              simpa [valueOuts] using hm
            rw [hg1] at this; cases this
          · exact hgf hm
        simpa using hnot)
      hnd'.2
    have hunf : runUntilStop doeCfg (St.mk (db0 ++ [Entry.mk s (valueOuts done)]) cur mx calls)
        (sampleReqs (f :: fs) s)
        = runUntilStop doeCfg (St.mk (db0 ++ [Entry.mk s (valueOuts (done ++ [f]))]) cur mx
            (calls ++ [Call.mk f .value s])) (sampleReqs fs s) := by
      simp only [sampleReqs, List.map_cons]
      rw [runUntilStop, hstep]
    rw [hunf, hrest]
    simp [sampleCalls, List.append_assoc]

end GV.C03
