/-
C06 — lemmas about the generic MDA loop of `Model/C06.lean`:
the loop invariant (whatever the sweep, the update rule, the norm and the transformer state are,
a run that ends by the residual test returns `sweep y` for an iterate `y` whose normed residual passed
the test), and what the test means for each residual scaling.
-/
import GemseoVerif.Model.C06
import Mathlib.Algebra.Order.Ring.Rat
import Mathlib.Tactic.Linarith
import Mathlib.Tactic.Positivity
import Mathlib.Tactic.FieldSimp

namespace GV.C06

/-- The sweep an algorithm of the model performs at every iteration. -/
def sweepOf (s : Sys) (c : Cfg) : Vec → Vec :=
  match c.algo with
  | .gaussSeidel => gsSweep s
  | _ => jacobiSweep s

variable {σ τ : Type}

/-- Loop invariant of `mdaLoop`, for every sweep / residual / norm / update / start state:
    if the run ends with `converged` then the returned data are `sweep y` for some iterate `y`, the
    squared normed residual of `(y, sweep y)` computed with some scaling data `sd₀` is `≤ tolSq`, it is the
    last entry of the history, and the returned scaling data are the ones that norm computation produced. -/
theorem mdaLoop_converged (sweep : Vec → Vec) (resid : Vec → Vec → Vec) (norm : σ → Vec → Rat × σ)
    (update : τ → Vec → Vec → Vec → Option (Vec × τ)) (tolSq : Rat) (maxIter : Nat) :
    ∀ (fuel iter : Nat) (data : Vec) (ts : τ) (sd : σ) (hist raw : List Rat),
      (mdaLoop sweep resid norm update tolSq maxIter fuel iter data ts sd hist raw).outcome = .converged →
      ∃ (y : Vec) (sd₀ : σ) (h' : List Rat),
        (mdaLoop sweep resid norm update tolSq maxIter fuel iter data ts sd hist raw).data = sweep y ∧
        (norm sd₀ (resid y (sweep y))).1 ≤ tolSq ∧
        (mdaLoop sweep resid norm update tolSq maxIter fuel iter data ts sd hist raw).hist
          = h' ++ [(norm sd₀ (resid y (sweep y))).1] ∧
        (mdaLoop sweep resid norm update tolSq maxIter fuel iter data ts sd hist raw).sd
          = (norm sd₀ (resid y (sweep y))).2 := by
  intro fuel
  induction fuel with
  | zero => intro iter data ts sd hist raw h; simp [mdaLoop] at h
  | succ fuel ih =>
    intro iter data ts sd hist raw h
    unfold mdaLoop at h ⊢
    simp only at h ⊢
    by_cases h1 : (norm sd (resid data (sweep data))).1 ≤ tolSq
    · simp only [h1, if_true] at h ⊢
      exact ⟨data, sd, hist, rfl, h1, rfl, rfl⟩
    · simp only [h1, if_false] at h ⊢
      by_cases h2 : maxIter ≤ iter + 1
      · simp [h2] at h
      · simp only [h2, if_false] at h ⊢
        cases hu : update ts data (sweep data) (resid data (sweep data)) with
        | none => simp [hu] at h
        | some p =>
          obtain ⟨next, ts'⟩ := p
          simp only [hu] at h ⊢
          exact ih _ _ _ _ _ _ h

/-- A run never reports `converged` after more than `maxIter` iterations... and the history grows by one
    entry per iteration: `hist.length = old length + number of iterations`; in particular a converged run
    performed at least one sweep. -/
theorem mdaLoop_hist_length_le (sweep : Vec → Vec) (resid : Vec → Vec → Vec) (norm : σ → Vec → Rat × σ)
    (update : τ → Vec → Vec → Vec → Option (Vec × τ)) (tolSq : Rat) (maxIter : Nat) :
    ∀ (fuel iter : Nat) (data : Vec) (ts : τ) (sd : σ) (hist raw : List Rat),
      (mdaLoop sweep resid norm update tolSq maxIter fuel iter data ts sd hist raw).hist.length
        ≤ hist.length + fuel := by
  intro fuel
  induction fuel with
  | zero => intro iter data ts sd hist raw; simp [mdaLoop]
  | succ fuel ih =>
    intro iter data ts sd hist raw
    unfold mdaLoop
    simp only
    split
    · simp
    · split
      · simp
      · split
        · simp
        · rename_i next ts' _
          refine le_trans (ih _ _ _ _ _ _) ?_
          simp; omega

/-- The iteration budget is respected: starting at `_current_iter = iter`, a run whose outcome is not
    `capped` performs at most `maxIter - iter` sweeps when `iter < maxIter` (one sweep otherwise). -/
theorem mdaLoop_iterations_le (sweep : Vec → Vec) (resid : Vec → Vec → Vec) (norm : σ → Vec → Rat × σ)
    (update : τ → Vec → Vec → Vec → Option (Vec × τ)) (tolSq : Rat) (maxIter : Nat) :
    ∀ (fuel iter : Nat) (data : Vec) (ts : τ) (sd : σ) (hist raw : List Rat),
      (mdaLoop sweep resid norm update tolSq maxIter fuel iter data ts sd hist raw).hist.length
        ≤ hist.length + max 1 (maxIter - iter) := by
  intro fuel
  induction fuel with
  | zero => intro iter data ts sd hist raw; simp [mdaLoop]
  | succ fuel ih =>
    intro iter data ts sd hist raw
    unfold mdaLoop
    simp only
    split
    · simp
    · split
      · simp
      · rename_i h2
        split
        · simp
        · refine le_trans (ih _ _ _ _ _ _) ?_
          simp only [List.length_append, List.length_singleton]
          have : max 1 (maxIter - (iter + 1)) + 1 ≤ max 1 (maxIter - iter) := by omega
          omega

-- ------------------------------------------------------------------ norms

theorem rsum_nonneg : ∀ (l : Vec), (∀ t ∈ l, 0 ≤ t) → 0 ≤ rsum l
  | [], _ => by simp [rsum]
  | t :: ts, h => by
    have h1 : 0 ≤ t := h t (by simp)
    have h2 : 0 ≤ rsum ts := rsum_nonneg ts (fun u hu => h u (by simp [hu]))
    simp only [rsum]; linarith

theorem normSq_nonneg (a : Vec) : 0 ≤ normSq a := by
  unfold normSq dot
  apply rsum_nonneg
  intro t ht
  induction a with
  | nil => simp at ht
  | cons x xs ih =>
    simp only [List.zipWith_cons_cons, List.mem_cons] at ht
    rcases ht with h | h
    · rw [h]; exact mul_self_nonneg x
    · exact ih h

theorem nz_normSq_pos (a : Vec) : 0 < nz (normSq a) := by
  unfold nz
  split
  · norm_num
  · rename_i h
    exact lt_of_le_of_ne (normSq_nonneg a) (Ne.symm h)

/-- Each component is bounded by the Euclidean norm: `rᵢ² ≤ ‖r‖²`. -/
theorem sq_le_normSq : ∀ (a : Vec) (t : Rat), t ∈ a → t * t ≤ normSq a
  | [], _, h => by simp at h
  | x :: xs, t, h => by
    have hx : normSq (x :: xs) = x * x + normSq xs := by simp [normSq, dot, rsum]
    rw [hx]
    simp only [List.mem_cons] at h
    rcases h with h | h
    · rw [h]; linarith [normSq_nonneg xs]
    · have := sq_le_normSq xs t h
      linarith [mul_self_nonneg x]

theorem le_maxList : ∀ (l : Vec) (t : Rat), t ∈ l → t ≤ maxList l
  | [], _, h => by simp at h
  | x :: xs, t, h => by
    simp only [List.mem_cons] at h
    unfold maxList
    split
    · rename_i hle
      rcases h with h | h
      · rw [h]
      · exact le_trans (le_maxList xs t h) hle
    · rename_i hle
      rcases h with h | h
      · rw [h]; exact le_of_lt (not_le.mp hle)
      · exact le_maxList xs t h

/-- What the residual test means, scaling by scaling (squared form), for the scaling data in force
    *after* the norm computation (`sd'`): the Euclidean norm of the residual is bounded by
    `tol·scale`. -/
theorem normedSq_noScaling (g : List (List Nat)) (sd : Option ScalData) (r : Vec) (tolSq : Rat)
    (h : (normedSq .noScaling g sd r).1 ≤ tolSq) : normSq r ≤ tolSq := by
  simpa [normedSq] using h

theorem normedSq_initialResidualNorm_first (g : List (List Nat)) (r : Vec) (tolSq : Rat)
    (h : (normedSq .initialResidualNorm g none r).1 ≤ tolSq) :
    normSq r ≤ tolSq * nz (normSq r) := by
  simp only [normedSq] at h
  have hp := nz_normSq_pos r
  rwa [div_le_iff₀ hp] at h

theorem normedSq_initialResidualNorm_later (g : List (List Nat)) (s : Rat) (hs : 0 < s) (r : Vec) (tolSq : Rat)
    (h : (normedSq .initialResidualNorm g (some (.normSq s)) r).1 ≤ tolSq) :
    normSq r ≤ tolSq * s := by
  simp only [normedSq] at h
  rwa [div_le_iff₀ hs] at h

theorem normedSq_nCouplingVariables (g : List (List Nat)) (r : Vec) (hr : r ≠ []) (tolSq : Rat)
    (h : (normedSq .nCouplingVariables g none r).1 ≤ tolSq) :
    normSq r ≤ tolSq * (r.length : Rat) := by
  simp only [normedSq] at h
  have hp : (0 : Rat) < (r.length : Rat) := by
    have : 0 < r.length := List.length_pos_iff.mpr hr
    exact_mod_cast this
  rwa [div_le_iff₀ hp] at h

/-- Component-wise scaling: every scaled component passes the test. -/
theorem normedSq_initialResidualComponent (g : List (List Nat)) (c r : Vec) (tolSq : Rat)
    (h : (normedSq .initialResidualComponent g (some (.comps c)) r).1 ≤ tolSq) :
    ∀ q ∈ vdiv r c, q * q ≤ tolSq := by
  simp only [normedSq] at h
  intro q hq
  have : q * q ∈ (vdiv r c).map (fun t => t * t) := List.mem_map.mpr ⟨q, hq, rfl⟩
  exact le_trans (le_maxList _ _ this) h

theorem normedSq_scaledInitialResidualComponent (g : List (List Nat)) (c r : Vec) (hr : r ≠ []) (tolSq : Rat)
    (h : (normedSq .scaledInitialResidualComponent g (some (.comps c)) r).1 ≤ tolSq) :
    ∀ q ∈ vdiv r c, q * q ≤ tolSq * (r.length : Rat) := by
  simp only [normedSq] at h
  have hp : (0 : Rat) < (r.length : Rat) := by
    have : 0 < r.length := List.length_pos_iff.mpr hr
    exact_mod_cast this
  rw [div_le_iff₀ hp] at h
  intro q hq
  exact le_trans (sq_le_normSq _ q hq) h

end GV.C06
