/-
C10 — storage discipline of the value path (`Store`, `Arr`, `SExpr.run` of Model/C10.lean).

The tree theorems are about values; an implementation can compute every value correctly and still
hand out an array that lives in storage it rewrites at the next call (seeded change C10-r3m3:
`FunctionRestriction.__extend_subvect` re-using one stored vector), so that

* a value returned earlier changes when the function is called again, and
* two uses of one function object inside one tree (`r(Ax) - r(Bx)`) read the same storage.

This is only visible when a user function returns its input array or a view of it. The storage
model makes the allocation points of the code explicit (`Store.new` where the code builds a new
array: `empty(N)` + assignments in `__extend_subvect`, `A @ x`, `f(x) + g(x)`, `-f(x)`,
`concatenate`) and proves that, with these allocation points, storage only grows: no cell is
written after its allocation, except the caller's own buffer by the caller.
-/
import GemseoVerif.Model.C10
import Mathlib.Data.List.Basic

set_option linter.unusedSectionVars false

namespace GV.C10

section Storage

variable {α : Type} [Add α] [Mul α] [Sub α] [Neg α] [Div α] [OfNat α 0] [OfNat α 1]

theorem Store.at_none (h : Store α) (c : Nat) : h.at c none = 0 := rfl

/-- Reading an array does not depend on cells allocated later. -/
theorem Store.read_append (h s : Store α) (a : Arr) (ha : a.cell < h.length) :
    Store.read (h ++ s) a = Store.read h a := by
  unfold Store.read
  apply List.map_congr_left
  intro o _
  cases o with
  | none => rfl
  | some i =>
    simp [Store.at, List.getD_eq_getElem?_getD, List.getElem?_append_left ha]

/-- A new array reads as the content it was allocated with. -/
theorem Store.read_new (h : Store α) (v : List α) : (h.new v).1.read (h.new v).2 = v := by
  simp only [Store.new, Store.read, List.map_map]
  apply List.ext_getElem
  · simp
  · intro i h1 h2
    simp [Store.at, Function.comp, List.getElem?_eq_getElem h2]

theorem Store.new_fst (h : Store α) (v : List α) : (h.new v).1 = h ++ [v] := rfl

theorem Store.new_cell (h : Store α) (v : List α) : (h.new v).2.cell = h.length := rfl

theorem Store.grows_trans {h1 h2 h3 : Store α} (a : ∃ s, h2 = h1 ++ s) (b : ∃ s, h3 = h2 ++ s) :
    ∃ s, h3 = h1 ++ s := by
  obtain ⟨s, rfl⟩ := a
  obtain ⟨t, rfl⟩ := b
  exact ⟨s ++ t, by simp⟩

theorem Store.grows_new (h : Store α) (v : List α) : ∃ s, (h.new v).1 = h ++ s := ⟨[v], rfl⟩

/-- Storage only grows during an evaluation: the cells that exist before are not written. -/
theorem SExpr.run_grows (e : SExpr α) : ∀ (h : Store α) (x : Arr), ∃ s, (e.run h x).1 = h ++ s := by
  induction e with
  | view sel => intro h x; exact ⟨[], by simp [SExpr.run]⟩
  | fresh f => intro h x; exact Store.grows_new _ _
  | restrict N frozen vals a ih =>
    intro h x
    simp only [SExpr.run]
    exact Store.grows_trans (Store.grows_new _ _) (ih _ _)
  | lincomp A a ih =>
    intro h x
    simp only [SExpr.run]
    exact Store.grows_trans (Store.grows_new _ _) (ih _ _)
  | bin op a b iha ihb =>
    intro h x
    simp only [SExpr.run]
    exact Store.grows_trans (Store.grows_trans (iha h x) (ihb _ x)) (Store.grows_new _ _)
  | neg a iha =>
    intro h x
    simp only [SExpr.run]
    exact Store.grows_trans (iha h x) (Store.grows_new _ _)
  | concat a b iha ihb =>
    intro h x
    simp only [SExpr.run]
    exact Store.grows_trans (Store.grows_trans (iha h x) (ihb _ x)) (Store.grows_new _ _)

theorem SExpr.run_length_le (e : SExpr α) (h : Store α) (x : Arr) : h.length ≤ (e.run h x).1.length := by
  obtain ⟨s, hs⟩ := e.run_grows h x
  rw [hs]; simp

/-- Whatever was readable before an evaluation reads the same afterwards. -/
theorem SExpr.run_preserves (e : SExpr α) (h : Store α) (x a : Arr) (ha : a.cell < h.length) :
    (e.run h x).1.read a = h.read a := by
  obtain ⟨s, hs⟩ := e.run_grows h x
  rw [hs, Store.read_append _ _ _ ha]

/-- The returned array lives in allocated storage. -/
theorem SExpr.run_valid (e : SExpr α) :
    ∀ (h : Store α) (x : Arr), x.cell < h.length → (e.run h x).2.cell < (e.run h x).1.length := by
  induction e with
  | view sel => intro h x hx; simpa [SExpr.run] using hx
  | fresh f => intro h x _; simp [SExpr.run, Store.new]
  | restrict N frozen vals a ih =>
    intro h x _
    simp only [SExpr.run]
    apply ih
    simp [Store.new]
  | lincomp A a ih =>
    intro h x _
    simp only [SExpr.run]
    apply ih
    simp [Store.new]
  | bin op a b _ _ => intro h x _; simp [SExpr.run, Store.new]
  | neg a _ => intro h x _; simp [SExpr.run, Store.new]
  | concat a b _ _ => intro h x _; simp [SExpr.run, Store.new]

/-- **Refinement**: the array returned by the storage-threaded evaluation reads as the value of the
    pure semantics at the content of the argument. In `f(x) ∘ g(x)` the first operand's array is read
    after the second operand was evaluated: its storage is still intact (`run_preserves`). -/
theorem SExpr.run_value (e : SExpr α) :
    ∀ (h : Store α) (x : Arr), x.cell < h.length →
      (e.run h x).1.read (e.run h x).2 = e.sem (h.read x) := by
  induction e with
  | view sel =>
    intro h x _
    simp only [SExpr.run, SExpr.sem, Store.read, List.map_map]
    apply List.map_congr_left
    intro i _
    simp only [Function.comp, List.getD_eq_getElem?_getD, List.getElem?_map]
    cases x.idx[i]? <;> rfl
  | fresh f => intro h x _; simp only [SExpr.run, SExpr.sem]; exact Store.read_new _ _
  | restrict N frozen vals a ih =>
    intro h x _
    simp only [SExpr.run, SExpr.sem]
    rw [ih _ _ (by simp [Store.new]), Store.read_new]
  | lincomp A a ih =>
    intro h x _
    simp only [SExpr.run, SExpr.sem]
    rw [ih _ _ (by simp [Store.new]), Store.read_new]
  | bin op a b iha ihb =>
    intro h x hx
    simp only [SExpr.run, SExpr.sem]
    rw [Store.read_new]
    have hx' : x.cell < (a.run h x).1.length := Nat.lt_of_lt_of_le hx (a.run_length_le h x)
    rw [b.run_preserves _ _ _ (a.run_valid h x hx), iha h x hx, ihb _ x hx', a.run_preserves _ _ _ hx]
  | neg a iha =>
    intro h x hx
    simp only [SExpr.run, SExpr.sem]
    rw [Store.read_new, iha h x hx]
  | concat a b iha ihb =>
    intro h x hx
    simp only [SExpr.run, SExpr.sem]
    rw [Store.read_new]
    have hx' : x.cell < (a.run h x).1.length := Nat.lt_of_lt_of_le hx (a.run_length_le h x)
    rw [b.run_preserves _ _ _ (a.run_valid h x hx), iha h x hx, ihb _ x hx', a.run_preserves _ _ _ hx]

/-! #### Histories: the caller keeps every returned array -/

/-- What the caller can rely on: the buffer exists, and every kept array that is not (a view of) the
    caller's own buffer still reads as the value it had when it was returned. -/
def Hist.Good (s : Hist α) : Prop :=
  0 < s.store.length ∧
    ∀ p ∈ s.kept, p.1.cell ≠ 0 → p.1.cell < s.store.length ∧ s.store.read p.1 = p.2

theorem Store.read_set_zero (h : Store α) (p : List α) (a : Arr) (ha : a.cell ≠ 0) :
    Store.read (h.set 0 p) a = Store.read h a := by
  unfold Store.read
  apply List.map_congr_left
  intro o _
  cases o with
  | none => rfl
  | some i =>
    simp only [Store.at]
    congr 1
    simp [List.getD_eq_getElem?_getD, List.getElem?_set_ne (Ne.symm ha)]

theorem Hist.step_good (s : Hist α) (op : HOp α) (hs : s.Good) : (s.step op).Good := by
  obtain ⟨h0, hk⟩ := hs
  cases op with
  | write p =>
    refine ⟨by simpa [Hist.step] using h0, ?_⟩
    intro q hq hc
    have := hk q (by simpa [Hist.step] using hq) hc
    simp only [Hist.step, List.length_set]
    exact ⟨this.1, by rw [Store.read_set_zero _ _ _ hc]; exact this.2⟩
  | call e =>
    refine ⟨Nat.lt_of_lt_of_le h0 (by simpa [Hist.step] using e.run_length_le _ _), ?_⟩
    intro q hq hc
    simp only [Hist.step, List.mem_append, List.mem_singleton] at hq
    rcases hq with hq | hq
    · have := hk q hq hc
      simp only [Hist.step]
      exact ⟨Nat.lt_of_lt_of_le this.1 (e.run_length_le _ _), by rw [e.run_preserves _ _ _ this.1]; exact this.2⟩
    · subst hq
      simp only [Hist.step]
      exact ⟨e.run_valid _ _ h0, trivial⟩

theorem Hist.after_good (ops : List (HOp α)) : ∀ (s : Hist α), s.Good → (s.after ops).Good := by
  induction ops with
  | nil => intro s hs; exact hs
  | cons op ops ih => intro s hs; exact ih _ (Hist.step_good s op hs)

end Storage

end GV.C10
