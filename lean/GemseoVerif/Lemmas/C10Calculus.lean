/-
C10 — the Jacobian rules of the model are the exact derivative rules.

`Den n x d F M` says that the dual vector `d` (what `evaluate(x)` / `jac(x)` return) is the value
at `x` of the function `F : 𝕜^n → 𝕜^M` together with its exact derivative: for every direction
`v`, `t ↦ F (x + t v) i` has derivative `sum_j d.jac i j * v j` at `t = 0` (in particular the
entries of `d.jac` are the partial derivatives, see `Den.partial`).
Everything holds over any nontrivially normed field (ℝ, ℂ — complex step —, ℚ).
-/
import GemseoVerif.Lemmas.C10Sum
import Mathlib.Analysis.Calculus.Deriv.Add
import Mathlib.Analysis.Calculus.Deriv.Mul
import Mathlib.Analysis.Calculus.Deriv.Inv
import Mathlib.Tactic.FieldSimp

namespace GV.C10

variable {𝕜 : Type} [NontriviallyNormedField 𝕜]

/-- Product of a Jacobian row with a direction. -/
def rowDot (n : ℕ) (r v : ℕ → 𝕜) : 𝕜 := sumTo n (fun j => r j * v j)

/-- `d` is the value and the exact derivative at `x` of `F`, a function of `n` inputs with `M`
    outputs. -/
def Den (n : ℕ) (x : ℕ → 𝕜) (d : DV 𝕜) (F : (ℕ → 𝕜) → ℕ → 𝕜) (M : ℕ) : Prop :=
  d.m = M ∧ ∀ i, i < M → d.val i = F x i ∧
    ∀ v : ℕ → 𝕜, HasDerivAt (fun t : 𝕜 => F (x + t • v) i) (rowDot n (d.jac i) v) 0

theorem Den.dim {n x d F M} (h : Den (𝕜 := 𝕜) n x d F M) : d.m = M := h.1

theorem Den.val_eq {n x d F M} (h : Den (𝕜 := 𝕜) n x d F M) {i : ℕ} (hi : i < M) :
    d.val i = F x i := (h.2 i hi).1

theorem Den.deriv {n x d F M} (h : Den (𝕜 := 𝕜) n x d F M) {i : ℕ} (hi : i < M) (v : ℕ → 𝕜) :
    HasDerivAt (fun t : 𝕜 => F (x + t • v) i) (rowDot n (d.jac i) v) 0 := (h.2 i hi).2 v

/-- Two functions that agree everywhere have the same values and derivatives. -/
theorem Den.congr {n x d F G M} (h : Den (𝕜 := 𝕜) n x d F M)
    (hFG : ∀ y i, i < M → F y i = G y i) : Den n x d G M := by
  refine ⟨h.1, fun i hi => ⟨by rw [h.val_eq hi, hFG x i hi], fun v => ?_⟩⟩
  have := h.deriv hi v
  have e : (fun t : 𝕜 => G (x + t • v) i) = fun t : 𝕜 => F (x + t • v) i := by
    funext t; exact (hFG _ i hi).symm
  rw [e]; exact this

theorem hasDerivAt_sumTo (n : ℕ) (g : ℕ → 𝕜 → 𝕜) (g' : ℕ → 𝕜) (t : 𝕜)
    (h : ∀ j, j < n → HasDerivAt (g j) (g' j) t) :
    HasDerivAt (fun s => sumTo n (fun j => g j s)) (sumTo n g') t := by
  induction n with
  | zero => simpa [sumTo] using hasDerivAt_const t (0 : 𝕜)
  | succ k ih =>
    simp only [sumTo]
    exact HasDerivAt.fun_add (ih (fun j hj => h j (Nat.lt_succ_of_lt hj))) (h k (Nat.lt_succ_self k))

/-! ### Broadcasting -/

/-- Output dimensions that NumPy broadcasts together. -/
def Compat (Ma Mb : ℕ) : Prop := Ma = Mb ∨ (Ma = 1 ∧ 0 < Mb) ∨ (Mb = 1 ∧ 0 < Ma)

theorem bi_lt_left {Ma Mb i : ℕ} (h : Compat Ma Mb) (hi : i < max Ma Mb) : bi Ma i < Ma := by
  unfold bi; unfold Compat at h
  split <;> omega

theorem bi_lt_right {Ma Mb i : ℕ} (h : Compat Ma Mb) (hi : i < max Ma Mb) : bi Mb i < Mb := by
  unfold bi; unfold Compat at h
  split <;> omega

section BinOps

variable {n : ℕ} {x : ℕ → 𝕜} {a b : DV 𝕜} {F G : (ℕ → 𝕜) → ℕ → 𝕜} {Ma Mb : ℕ}

theorem Den.add (ha : Den n x a F Ma) (hb : Den n x b G Mb) (hc : Compat Ma Mb) :
    Den n x (a.add b) (fun y i => F y (bi Ma i) + G y (bi Mb i)) (max Ma Mb) := by
  refine ⟨by simp [DV.add, ha.dim, hb.dim], fun i hi => ?_⟩
  have hia := bi_lt_left hc hi
  have hib := bi_lt_right hc hi
  refine ⟨by simp [DV.add, ha.dim, hb.dim, ha.val_eq hia, hb.val_eq hib], fun v => ?_⟩
  refine (HasDerivAt.fun_add (ha.deriv hia v) (hb.deriv hib v)).congr_deriv ?_
  simp only [DV.add, rowDot, ha.dim, hb.dim]
  rw [← sumTo_add]; exact sumTo_congr (fun j _ => by ring)

theorem Den.sub (ha : Den n x a F Ma) (hb : Den n x b G Mb) (hc : Compat Ma Mb) :
    Den n x (a.sub b) (fun y i => F y (bi Ma i) - G y (bi Mb i)) (max Ma Mb) := by
  refine ⟨by simp [DV.sub, ha.dim, hb.dim], fun i hi => ?_⟩
  have hia := bi_lt_left hc hi
  have hib := bi_lt_right hc hi
  refine ⟨by simp [DV.sub, ha.dim, hb.dim, ha.val_eq hia, hb.val_eq hib], fun v => ?_⟩
  refine (HasDerivAt.fun_sub (ha.deriv hia v) (hb.deriv hib v)).congr_deriv ?_
  simp only [DV.sub, rowDot, ha.dim, hb.dim]
  rw [← sumTo_sub]; exact sumTo_congr (fun j _ => by ring)

/-- Product rule, for every output dimension and every broadcast. -/
theorem Den.mul (ha : Den n x a F Ma) (hb : Den n x b G Mb) (hc : Compat Ma Mb) :
    Den n x (a.mul b) (fun y i => F y (bi Ma i) * G y (bi Mb i)) (max Ma Mb) := by
  refine ⟨by simp [DV.mul, ha.dim, hb.dim], fun i hi => ?_⟩
  have hia := bi_lt_left hc hi
  have hib := bi_lt_right hc hi
  refine ⟨by simp [DV.mul, ha.dim, hb.dim, ha.val_eq hia, hb.val_eq hib], fun v => ?_⟩
  refine (HasDerivAt.fun_mul (ha.deriv hia v) (hb.deriv hib v)).congr_deriv ?_
  simp only [DV.mul, rowDot, ha.dim, hb.dim, zero_smul, add_zero]
  rw [← ha.val_eq hia, ← hb.val_eq hib, ← sumTo_mul_right, ← sumTo_mul_left, ← sumTo_add]
  exact sumTo_congr (fun j _ => by ring)

/-- Quotient rule, wherever the divisor does not vanish. -/
theorem Den.div (ha : Den n x a F Ma) (hb : Den n x b G Mb) (hc : Compat Ma Mb)
    (hnz : ∀ i, i < Mb → G x i ≠ 0) :
    Den n x (a.div b) (fun y i => F y (bi Ma i) / G y (bi Mb i)) (max Ma Mb) := by
  refine ⟨by simp [DV.div, ha.dim, hb.dim], fun i hi => ?_⟩
  have hia := bi_lt_left hc hi
  have hib := bi_lt_right hc hi
  refine ⟨by simp [DV.div, ha.dim, hb.dim, ha.val_eq hia, hb.val_eq hib], fun v => ?_⟩
  have hg : G (x + (0 : 𝕜) • v) (bi Mb i) ≠ 0 := by simpa using hnz _ hib
  refine (HasDerivAt.fun_div (ha.deriv hia v) (hb.deriv hib v) hg).congr_deriv ?_
  simp only [DV.div, rowDot, ha.dim, hb.dim, zero_smul, add_zero]
  have hb0 : b.val (bi Mb i) ≠ 0 := by rw [hb.val_eq hib]; exact hnz _ hib
  rw [← ha.val_eq hia, ← hb.val_eq hib]
  rw [← sumTo_mul_right, ← sumTo_mul_left, ← sumTo_sub, div_eq_mul_inv, ← sumTo_mul_right]
  refine sumTo_congr (fun j _ => ?_)
  field_simp

end BinOps

section ConstOps

variable {n : ℕ} {x : ℕ → 𝕜} {a : DV 𝕜} {F : (ℕ → 𝕜) → ℕ → 𝕜} {M : ℕ}

theorem Den.addC (ha : Den n x a F M) (c : List 𝕜) :
    Den n x (a.addC c) (fun y i => F y i + vec c (bi c.length i)) M := by
  refine ⟨ha.dim, fun i hi => ⟨by simp [DV.addC, ha.val_eq hi], fun v => ?_⟩⟩
  exact (ha.deriv hi v).add_const _

theorem Den.subC (ha : Den n x a F M) (c : List 𝕜) :
    Den n x (a.subC c) (fun y i => F y i - vec c (bi c.length i)) M := by
  refine ⟨ha.dim, fun i hi => ⟨by simp [DV.subC, ha.val_eq hi], fun v => ?_⟩⟩
  exact (ha.deriv hi v).sub_const _

/-- Scaling by a number or by a vector. -/
theorem Den.mulC (ha : Den n x a F M) (c : List 𝕜) :
    Den n x (a.mulC c) (fun y i => F y i * vec c (bi c.length i)) M := by
  refine ⟨ha.dim, fun i hi => ⟨by simp [DV.mulC, ha.val_eq hi], fun v => ?_⟩⟩
  refine ((ha.deriv hi v).mul_const (vec c (bi c.length i))).congr_deriv ?_
  simp only [DV.mulC, rowDot]
  rw [← sumTo_mul_right]; exact sumTo_congr (fun j _ => by ring)

theorem Den.divC (ha : Den n x a F M) (c : List 𝕜) :
    Den n x (a.divC c) (fun y i => F y i / vec c (bi c.length i)) M := by
  refine ⟨ha.dim, fun i hi => ⟨by simp [DV.divC, ha.val_eq hi], fun v => ?_⟩⟩
  refine ((ha.deriv hi v).div_const (vec c (bi c.length i))).congr_deriv ?_
  simp only [DV.divC, rowDot, div_eq_mul_inv]
  rw [← sumTo_mul_right]; exact sumTo_congr (fun j _ => by ring)

theorem Den.neg (ha : Den n x a F M) : Den n x a.neg (fun y i => - F y i) M := by
  refine ⟨ha.dim, fun i hi => ⟨by simp [DV.neg, ha.val_eq hi], fun v => ?_⟩⟩
  refine (HasDerivAt.fun_neg (ha.deriv hi v)).congr_deriv ?_
  simp only [DV.neg, rowDot]
  rw [← sumTo_neg]; exact sumTo_congr (fun j _ => by ring)

/-- Concatenation: the Jacobian is the stack of the blocks. -/
theorem Den.concat {b : DV 𝕜} {G : (ℕ → 𝕜) → ℕ → 𝕜} {Mb : ℕ}
    (ha : Den n x a F M) (hb : Den n x b G Mb) :
    Den n x (a.concat b) (fun y i => if i < M then F y i else G y (i - M)) (M + Mb) := by
  refine ⟨by simp [DV.concat, ha.dim, hb.dim], fun i hi => ?_⟩
  by_cases h : i < M
  · refine ⟨by simp [DV.concat, ha.dim, h, ha.val_eq h], fun v => ?_⟩
    simpa [DV.concat, ha.dim, h] using ha.deriv h v
  · have h' : i - M < Mb := by omega
    refine ⟨by simp [DV.concat, ha.dim, h, hb.val_eq h'], fun v => ?_⟩
    simpa [DV.concat, ha.dim, h] using hb.deriv h' v

end ConstOps

/-! ### Composition with an affine map: the chain rule `J(f ∘ (A · + c)) = J_f . A` -/

theorem matVec_line (n : ℕ) (A : ℕ → ℕ → 𝕜) (x v : ℕ → 𝕜) (t : 𝕜) (k : ℕ) :
    matVec n A (x + t • v) k = matVec n A x k + t * matVec n A v k := by
  simp only [matVec, Pi.add_apply, Pi.smul_apply, smul_eq_mul]
  rw [← sumTo_mul_left, ← sumTo_add]
  exact sumTo_congr (fun j _ => by ring)

/-- Chain rule for an inner affine map `x ↦ A x + c` (`A` of shape `K x n`). -/
theorem Den.comp_affine {n K : ℕ} {x : ℕ → 𝕜} {d : DV 𝕜} {F : (ℕ → 𝕜) → ℕ → 𝕜} {M : ℕ}
    (A : ℕ → ℕ → 𝕜) (c : ℕ → 𝕜)
    (h : Den K (fun k => matVec n A x k + c k) d F M) :
    Den n x (d.rightMul K A) (fun y i => F (fun k => matVec n A y k + c k) i) M := by
  refine ⟨h.dim, fun i hi => ⟨by simp [DV.rightMul, h.val_eq hi], fun v => ?_⟩⟩
  have hd := h.deriv hi (fun k => matVec n A v k)
  have e : (fun t : 𝕜 => F (fun k => matVec n A (x + t • v) k + c k) i)
      = fun t : 𝕜 => F ((fun k => matVec n A x k + c k) + t • (fun k => matVec n A v k)) i := by
    funext t
    congr 1
    funext k
    simp only [Pi.add_apply, Pi.smul_apply, smul_eq_mul, matVec_line]
    ring
  rw [e]
  refine hd.congr_deriv ?_
  simp only [rowDot, DV.rightMul, matVec]
  have : (fun k => d.jac i k * sumTo n (fun j => A k j * v j))
      = fun k => sumTo n (fun j => d.jac i k * A k j * v j) := by
    funext k
    rw [← sumTo_mul_left]
    exact sumTo_congr (fun j _ => by ring)
  rw [this, sumTo_comm]
  refine sumTo_congr (fun j _ => ?_)
  rw [← sumTo_mul_right]

/-- `LinearCompositeFunction`: `J(f ∘ A) = J_f(Ax) . A`. -/
theorem Den.lincomp {n K : ℕ} {x : ℕ → 𝕜} {d : DV 𝕜} {F : (ℕ → 𝕜) → ℕ → 𝕜} {M : ℕ}
    (A : ℕ → ℕ → 𝕜) (h : Den K (matVec n A x) d F M) :
    Den n x (d.rightMul K A) (fun y i => F (matVec n A y) i) M := by
  have h' : Den K (fun k => matVec n A x k + (fun _ => (0 : 𝕜)) k) d F M := by
    simpa using h
  simpa using Den.comp_affine A (fun _ => (0 : 𝕜)) h'

/-! ### Linear and quadratic functions -/

/-- The affine function computed by an `MDOLinearFunction`. -/
def LinF.fn (L : LinF 𝕜) : (ℕ → 𝕜) → ℕ → 𝕜 :=
  fun y i => sumTo L.n (fun j => L.A i j * y j) + L.b i

theorem LinF.den (L : LinF 𝕜) (x : ℕ → 𝕜) : Den L.n x (L.eval x) L.fn L.m := by
  refine ⟨rfl, fun i _ => ⟨rfl, fun v => ?_⟩⟩
  simp only [LinF.fn, LinF.eval, rowDot]
  refine HasDerivAt.add_const _ ?_
  refine hasDerivAt_sumTo L.n (fun j t => L.A i j * (x + t • v) j) _ 0 (fun j _ => ?_)
  simp only [Pi.add_apply, Pi.smul_apply, smul_eq_mul]
  have h1 : HasDerivAt (fun t : 𝕜 => x j + t * v j) (v j) 0 := by
    simpa using ((hasDerivAt_id (0 : 𝕜)).mul_const (v j)).const_add (x j)
  exact h1.const_mul (L.A i j)

/-- The quadratic function computed by an `MDOQuadraticFunction`. -/
def QuadF.fn (q : QuadF 𝕜) : (ℕ → 𝕜) → ℕ → 𝕜 :=
  fun y _ => sumTo q.n (fun i => y i * sumTo q.n (fun j => q.Q i j * y j))
    + sumTo q.n (fun j => q.b j * y j) + q.c

theorem hasDerivAt_coord (x v : ℕ → 𝕜) (j : ℕ) :
    HasDerivAt (fun t : 𝕜 => (x + t • v) j) (v j) 0 := by
  simp only [Pi.add_apply, Pi.smul_apply, smul_eq_mul]
  simpa using ((hasDerivAt_id (0 : 𝕜)).mul_const (v j)).const_add (x j)

/-- The gradient `(Q + Q') x + b` is the exact derivative of `x' Q x + b' x + c`. -/
theorem QuadF.den (q : QuadF 𝕜) (x : ℕ → 𝕜) : Den q.n x (q.eval x) q.fn 1 := by
  refine ⟨rfl, fun i _ => ⟨rfl, fun v => ?_⟩⟩
  simp only [QuadF.fn]
  have hlin : HasDerivAt (fun t : 𝕜 => sumTo q.n (fun j => q.b j * (x + t • v) j))
      (sumTo q.n (fun j => q.b j * v j)) 0 :=
    hasDerivAt_sumTo q.n (fun j t => q.b j * (x + t • v) j) _ 0
      (fun j _ => (hasDerivAt_coord x v j).const_mul (q.b j))
  have hinner : ∀ i, HasDerivAt (fun t : 𝕜 => sumTo q.n (fun j => q.Q i j * (x + t • v) j))
      (sumTo q.n (fun j => q.Q i j * v j)) 0 := fun i =>
    hasDerivAt_sumTo q.n (fun j t => q.Q i j * (x + t • v) j) _ 0
      (fun j _ => (hasDerivAt_coord x v j).const_mul (q.Q i j))
  have hquad := hasDerivAt_sumTo q.n
      (fun i t => (x + t • v) i * sumTo q.n (fun j => q.Q i j * (x + t • v) j)) _ 0
      (fun i _ => HasDerivAt.fun_mul (hasDerivAt_coord x v i) (hinner i))
  refine ((hquad.add hlin).add_const q.c).congr_deriv ?_
  simp only [QuadF.eval, rowDot, zero_smul, add_zero]
  -- sum_i (v_i (Qx)_i + x_i (Qv)_i) + b.v = sum_i (((Q+Q')x)_i + b_i) v_i
  have e1 : sumTo q.n (fun i => x i * sumTo q.n (fun j => q.Q i j * v j))
      = sumTo q.n (fun i => sumTo q.n (fun j => q.Q j i * x j) * v i) := by
    have : (fun i => x i * sumTo q.n (fun j => q.Q i j * v j))
        = fun i => sumTo q.n (fun j => x i * q.Q i j * v j) := by
      funext i; rw [← sumTo_mul_left]; exact sumTo_congr (fun j _ => by ring)
    rw [this, sumTo_comm]
    refine sumTo_congr (fun i _ => ?_)
    rw [← sumTo_mul_right]; exact sumTo_congr (fun j _ => by ring)
  rw [sumTo_add, e1, ← sumTo_add, ← sumTo_add]
  refine sumTo_congr (fun i _ => ?_)
  have e2 : sumTo q.n (fun j => (q.Q i j + q.Q j i) * x j)
      = sumTo q.n (fun j => q.Q i j * x j) + sumTo q.n (fun j => q.Q j i * x j) := by
    rw [← sumTo_add]; exact sumTo_congr (fun j _ => by ring)
  rw [e2]
  ring

/-! ### The Jacobian entries are the partial derivatives -/

/-- `j`-th vector of the canonical basis. -/
def basisVec (j : ℕ) : ℕ → 𝕜 := fun k => if k = j then 1 else 0

theorem rowDot_basis (n j : ℕ) (hj : j < n) (r : ℕ → 𝕜) : rowDot n r (basisVec j) = r j := by
  simp only [rowDot, basisVec]
  have : (fun k => r k * (if k = j then (1 : 𝕜) else 0)) = fun k => if k = j then r k else 0 := by
    funext k; split <;> simp
  rw [this, sumTo_ite_eq n j hj]

/-- Entry `(i, j)` of the Jacobian is the partial derivative of the `i`-th output with respect
    to the `j`-th input. -/
theorem Den.partial {n x d F M} (h : Den (𝕜 := 𝕜) n x d F M) {i j : ℕ} (hi : i < M) (hj : j < n) :
    HasDerivAt (fun t : 𝕜 => F (x + t • basisVec j) i) (d.jac i j) 0 := by
  have := h.deriv hi (basisVec j)
  rwa [rowDot_basis n j hj] at this

end GV.C10
