/-
Helper lemmas: specification of the "first strictly smallest" scan `firstMinAux`
against an order-embedding valuation `f : κ → α` into a linear order.
-/
import GemseoVerif.Model.C04
import Mathlib.Order.Basic
import Mathlib.Order.Defs.LinearOrder

namespace GV.C04

variable {κ α : Type} [LinearOrder α]

/-- What the accumulator of the scan means: `best` is the first minimiser among the candidates
    at global positions `< i`, which are given by `pre`. -/
structure BestOf (f : κ → α) (pre : List (Option κ)) (best : Option (Nat × κ)) : Prop where
  none_iff : best = none → ∀ c ∈ pre, c = none
  is_cand : ∀ (ib : Nat) (kb : κ), best = some (ib, kb) → pre[ib]? = some (some kb)
  minimal : ∀ (ib : Nat) (kb : κ), best = some (ib, kb) →
    ∀ (j : Nat) (k : κ), pre[j]? = some (some k) → f kb ≤ f k
  first : ∀ (ib : Nat) (kb : κ), best = some (ib, kb) →
    ∀ (j : Nat) (k : κ), j < ib → pre[j]? = some (some k) → f kb < f k

theorem bestOf_nil (f : κ → α) : BestOf f ([] : List (Option κ)) none :=
  ⟨(by intro _ c hc; cases hc), (by intro _ _ h; cases h), (by intro _ _ h; cases h),
   (by intro _ _ h; cases h)⟩

private theorem getElem?_append_singleton_cases {β : Type} (pre : List β) (c : β) (j : Nat) (x : β)
    (h : (pre ++ [c])[j]? = some x) : pre[j]? = some x ∨ (j = pre.length ∧ x = c) := by
  by_cases hj : j < pre.length
  · left; rw [List.getElem?_append_left hj] at h; exact h
  · right
    have hj' : pre.length ≤ j := Nat.le_of_not_lt hj
    rw [List.getElem?_append_right hj'] at h
    by_cases h0 : j - pre.length = 0
    · rw [h0] at h; simp at h; exact ⟨by omega, h.symm⟩
    · have : 1 ≤ j - pre.length := by omega
      have h1 : ([c] : List β)[j - pre.length]? = none := by
        apply List.getElem?_eq_none; simpa using this
      rw [h1] at h; cases h

/-- One step of the scan preserves `BestOf`. -/
theorem bestOf_step (f : κ → α) (lt : κ → κ → Bool) (P : κ → Prop)
    (hlt : ∀ a b, P a → P b → (lt a b = true ↔ f a < f b))
    (pre : List (Option κ)) (c : Option κ) (best : Option (Nat × κ))
    (hPpre : ∀ k, some k ∈ pre → P k) (hPc : ∀ k, c = some k → P k)
    (hb : BestOf f pre best) :
    BestOf f (pre ++ [c])
      (match c, best with
       | none, b => b
       | some k, none => some (pre.length, k)
       | some k, some (ib, kb) => if lt k kb then some (pre.length, k) else some (ib, kb)) := by
  obtain ⟨h1, h2, h3, h4⟩ := hb
  cases c with
  | none =>
    refine ⟨?_, ?_, ?_, ?_⟩
    · intro hn c hc
      rcases List.mem_append.mp hc with hc | hc
      · exact h1 hn c hc
      · simpa using hc
    · intro ib kb hbk
      have := h2 ib kb hbk
      have hlt' : ib < pre.length := by
        by_contra hcon
        rw [List.getElem?_eq_none (Nat.le_of_not_lt hcon)] at this; cases this
      rw [List.getElem?_append_left hlt']; exact this
    · intro ib kb hbk j k hj
      rcases getElem?_append_singleton_cases pre none j (some k) hj with h | ⟨_, h⟩
      · exact h3 ib kb hbk j k h
      · cases h
    · intro ib kb hbk j k hjl hj
      rcases getElem?_append_singleton_cases pre none j (some k) hj with h | ⟨_, h⟩
      · exact h4 ib kb hbk j k hjl h
      · cases h
  | some k0 =>
    cases best with
    | none =>
      have hall := h1 rfl
      refine ⟨?_, ?_, ?_, ?_⟩
      · intro h; cases h
      · intro ib kb hbk
        simp only [Option.some.injEq, Prod.mk.injEq] at hbk
        obtain ⟨rfl, rfl⟩ := hbk
        simp
      · intro ib kb hbk j k hj
        simp only [Option.some.injEq, Prod.mk.injEq] at hbk
        obtain ⟨rfl, rfl⟩ := hbk
        rcases getElem?_append_singleton_cases pre (some k0) j (some k) hj with h | ⟨_, h⟩
        · have := hall (some k) (List.mem_of_getElem? h); cases this
        · cases h; exact le_refl _
      · intro ib kb hbk j k hjl hj
        simp only [Option.some.injEq, Prod.mk.injEq] at hbk
        obtain ⟨rfl, rfl⟩ := hbk
        rcases getElem?_append_singleton_cases pre (some k0) j (some k) hj with h | ⟨h, _⟩
        · have := hall (some k) (List.mem_of_getElem? h); cases this
        · omega
    | some b =>
      obtain ⟨ib0, kb0⟩ := b
      have hc0 := h2 ib0 kb0 rfl
      have hib0 : ib0 < pre.length := by
        by_contra hcon
        rw [List.getElem?_eq_none (Nat.le_of_not_lt hcon)] at hc0; cases hc0
      have hlt0 := hlt k0 kb0 (hPc k0 rfl) (hPpre kb0 (List.mem_of_getElem? hc0))
      by_cases hl : lt k0 kb0 = true
      · have hfl : f k0 < f kb0 := hlt0.mp hl
        simp only [hl, if_true]
        refine ⟨?_, ?_, ?_, ?_⟩
        · intro h; cases h
        · intro ib kb hbk
          simp only [Option.some.injEq, Prod.mk.injEq] at hbk
          obtain ⟨rfl, rfl⟩ := hbk
          simp
        · intro ib kb hbk j k hj
          simp only [Option.some.injEq, Prod.mk.injEq] at hbk
          obtain ⟨rfl, rfl⟩ := hbk
          rcases getElem?_append_singleton_cases pre (some k0) j (some k) hj with h | ⟨_, h⟩
          · exact le_trans (le_of_lt hfl) (h3 ib0 kb0 rfl j k h)
          · cases h; exact le_refl _
        · intro ib kb hbk j k hjl hj
          simp only [Option.some.injEq, Prod.mk.injEq] at hbk
          obtain ⟨rfl, rfl⟩ := hbk
          rcases getElem?_append_singleton_cases pre (some k0) j (some k) hj with h | ⟨h, _⟩
          · exact lt_of_lt_of_le hfl (h3 ib0 kb0 rfl j k h)
          · omega
      · have hnl : ¬ f k0 < f kb0 := fun h => hl (hlt0.mpr h)
        have hle : f kb0 ≤ f k0 := not_lt.mp hnl
        simp only [hl]
        refine ⟨?_, ?_, ?_, ?_⟩
        · intro h; cases h
        · intro ib kb hbk
          simp only [Bool.false_eq_true, if_false, Option.some.injEq, Prod.mk.injEq] at hbk
          obtain ⟨rfl, rfl⟩ := hbk
          rw [List.getElem?_append_left hib0]; exact hc0
        · intro ib kb hbk j k hj
          simp only [Bool.false_eq_true, if_false, Option.some.injEq, Prod.mk.injEq] at hbk
          obtain ⟨rfl, rfl⟩ := hbk
          rcases getElem?_append_singleton_cases pre (some k0) j (some k) hj with h | ⟨_, h⟩
          · exact h3 ib0 kb0 rfl j k h
          · cases h; exact hle
        · intro ib kb hbk j k hjl hj
          simp only [Bool.false_eq_true, if_false, Option.some.injEq, Prod.mk.injEq] at hbk
          obtain ⟨rfl, rfl⟩ := hbk
          rcases getElem?_append_singleton_cases pre (some k0) j (some k) hj with h | ⟨h, _⟩
          · exact h4 ib0 kb0 rfl j k hjl h
          · omega

/-- The scan from an accumulator that is `BestOf pre` ends with `BestOf (pre ++ cs)`. -/
theorem firstMinAux_spec (f : κ → α) (lt : κ → κ → Bool) (P : κ → Prop)
    (hlt : ∀ a b, P a → P b → (lt a b = true ↔ f a < f b)) :
    ∀ (cs pre : List (Option κ)) (best : Option (Nat × κ)),
      (∀ k, some k ∈ pre → P k) → (∀ k, some k ∈ cs → P k) →
      BestOf f pre best → BestOf f (pre ++ cs) (firstMinAux lt cs pre.length best) := by
  intro cs
  induction cs with
  | nil => intro pre best _ _ hb; simpa [firstMinAux] using hb
  | cons c cs ih =>
    intro pre best hPpre hPcs hb
    have hPc : ∀ k, c = some k → P k := fun k hk => hPcs k (by simp [hk])
    have hstep := bestOf_step f lt P hlt pre c best hPpre hPc hb
    have hPpre' : ∀ k, some k ∈ pre ++ [c] → P k := by
      intro k hk
      rcases List.mem_append.mp hk with h | h
      · exact hPpre k h
      · exact hPc k (by simpa using (List.mem_singleton.mp h).symm)
    have hPcs' : ∀ k, some k ∈ cs → P k := fun k hk => hPcs k (List.mem_cons_of_mem _ hk)
    have := ih (pre ++ [c]) _ hPpre' hPcs' hstep
    have hlen : (pre ++ [c]).length = pre.length + 1 := by simp
    rw [hlen] at this
    have happ : pre ++ [c] ++ cs = pre ++ c :: cs := by simp
    rw [happ] at this
    cases c with
    | none => simpa [firstMinAux] using this
    | some k =>
      cases best with
      | none => simpa [firstMinAux] using this
      | some b =>
        obtain ⟨ib, kb⟩ := b
        by_cases hl : lt k kb = true
        · simpa [firstMinAux, hl] using this
        · simpa [firstMinAux, hl] using this

theorem firstMin_spec (f : κ → α) (lt : κ → κ → Bool) (P : κ → Prop)
    (hlt : ∀ a b, P a → P b → (lt a b = true ↔ f a < f b)) (cs : List (Option κ))
    (hP : ∀ k, some k ∈ cs → P k) :
    BestOf f cs (firstMin lt cs) := by
  have := firstMinAux_spec f lt P hlt cs [] none (by intro k hk; cases hk) hP (bestOf_nil f)
  simpa [firstMin] using this

end GV.C04
