/-
C12 — the reported optimum of a restarted run, through C04's theorems on
`OptimizationHistory.optimum`: extending a database (new points after the loaded ones, new outputs
at loaded points, nothing changed) cannot worsen a feasible optimum.
-/
import GemseoVerif.Lemmas.C12
import GemseoVerif.Props.C04

namespace GV.C12
open GV.C11

theorem lookup_toHistOuts (outs : Outs) (n : String) :
    C04.lookup (outs.map (fun nv => (nv.1, convVal nv.2))) n = (alook n outs).map convVal := by
  unfold C04.lookup
  induction outs with
  | nil => rfl
  | cons nv t ih =>
    obtain ⟨m, w⟩ := nv
    simp only [List.map_cons, List.find?_cons, alook_cons]
    by_cases e : m = n
    · simp [e]
    · have : (m == n) = false := by simpa using e
      simp only [this, e, if_false]
      exact ih

/-- The entries of a database and of an extension of it, index by index. -/
theorem dbLe_getElem {a b : Db} (h : DbLe a b) (wfa : DbWF a) (wfb : DbWF b) {i : Nat} {p : Pt}
    {outs : Outs} (hget : a[i]? = some (p, outs)) :
    ∃ outs', b[i]? = some (p, outs') ∧ ∀ n v, alook n outs = some v → alook n outs' = some v := by
  obtain ⟨t, ht⟩ := h.1
  have hi : i < a.length := by
    by_contra hn; rw [List.getElem?_eq_none (by omega)] at hget; cases hget
  have hlen : (b.map (·.1)).length = (a.map (·.1)).length + t.length := by rw [← ht]; simp
  have hib : i < b.length := by simp at hlen; omega
  have hpb : b[i].1 = p := by
    have h1 : (b.map (·.1))[i]? = (a.map (·.1) ++ t)[i]? := by rw [ht]
    rw [List.getElem?_append_left (by simpa using hi)] at h1
    simp only [List.getElem?_map, hget, Option.map_some] at h1
    rw [List.getElem?_eq_getElem hib] at h1
    simpa using h1
  refine ⟨b[i].2, ?_, ?_⟩
  · rw [List.getElem?_eq_getElem hib]; congr 1; exact Prod.ext hpb rfl
  · intro n v hv
    have ha : alook p a = some outs := alook_of_mem_nodup wfa.pts (List.mem_of_getElem? hget)
    have hb : alook p b = some b[i].2 := by
      apply alook_of_mem_nodup wfb.pts
      have : (p, b[i].2) = b[i] := Prod.ext hpb.symm rfl
      rw [this]; exact List.getElem_mem hib
    have hr : recorded a p n = some v := by unfold recorded; rw [ha]; exact hv
    have := h.2 p n v hr
    unfold recorded at this
    rw [hb] at this
    exact this

theorem toHist_getElem (db : Db) (i : Nat) :
    (toHist db)[i]? = (db[i]?).map (fun po => { x := po.1.xs, outs := po.2.map (fun nv => (nv.1, convVal nv.2)) }) := by
  unfold toHist; simp

/-- A feasible entry with a usable objective stays so, with the same objective key, when its
    outputs are extended. -/
theorem feasible_of_extension (c : C04.Cfg) (x : List Rat) (outs outs' : Outs)
    (hext : ∀ n v, alook n outs = some v → alook n outs' = some v) :
    let e : C04.Entry := { x := x, outs := outs.map (fun nv => (nv.1, convVal nv.2)) }
    let e' : C04.Entry := { x := x, outs := outs'.map (fun nv => (nv.1, convVal nv.2)) }
    (C04.isFeasible c e = true → C04.isFeasible c e' = true) ∧
    (∀ k, C04.objKey c e = some k → C04.objKey c e' = some k) := by
  intro e e'
  have hl : ∀ n w, C04.lookup e.outs n = some w → C04.lookup e'.outs n = some w := by
    intro n w hw
    simp only [e, e', lookup_toHistOuts] at hw ⊢
    cases ha : alook n outs with
    | none => rw [ha] at hw; cases hw
    | some v => rw [ha] at hw; rw [hext n v ha]; exact hw
  refine ⟨?_, ?_⟩
  · intro hf
    unfold C04.isFeasible at hf ⊢
    rw [List.all_eq_true] at hf ⊢
    intro cs hcs
    have := hf cs hcs
    cases hlk : C04.lookup e.outs cs.name with
    | none => rw [hlk] at this; cases this
    | some w => rw [hlk] at this; rw [hl _ _ hlk]; exact this
  · intro k hk
    unfold C04.objKey at hk ⊢
    cases hlk : C04.lookup e.outs c.obj with
    | none => rw [hlk] at hk; cases hk
    | some w => rw [hlk] at hk; rw [hl _ _ hlk]; exact hk

/-- **Extending a database never worsens a feasible optimum.** -/
theorem optimum_of_extension (c : C04.Cfg) (L Fin : Db) (wfL : DbWF L) (wfF : DbWF Fin)
    (hle : DbLe L Fin) (sL sF : C04.Solution)
    (hL : reportedOptimum c L = some sL) (hF : reportedOptimum c Fin = some sF)
    (hf : ∃ e ∈ toHist L, C04.isFeasible c e = true ∧ (C04.objKey c e).isSome = true) :
    sL.feasible = true ∧ sF.feasible = true ∧
    ∃ (i i' : Nat) (e e' : C04.Entry) (k k' : C04.Key), sL.idx = some i ∧ sF.idx = some i' ∧
      (toHist L)[i]? = some e ∧ (toHist Fin)[i']? = some e' ∧
      C04.objKey c e = some k ∧ C04.objKey c e' = some k' ∧ k'.toReal ≤ k.toReal := by
  unfold reportedOptimum at hL hF
  obtain ⟨hfl, i, e, k, hi, hge, hfe, hke, _, _⟩ := C04.optimum_feasible_minimal c (toHist L) sL hL hf
  -- the same entry, extended, in the final history
  rw [toHist_getElem] at hge
  cases hLi : L[i]? with
  | none => rw [hLi] at hge; cases hge
  | some po =>
    obtain ⟨p, outs⟩ := po
    rw [hLi] at hge
    simp only [Option.map_some, Option.some.injEq] at hge
    obtain ⟨outs', hFi, hext⟩ := dbLe_getElem hle wfL wfF hLi
    obtain ⟨hfeas, hkey⟩ := feasible_of_extension c p.xs outs outs' hext
    subst hge
    have hge' : (toHist Fin)[i]? = some { x := p.xs, outs := outs'.map (fun nv => (nv.1, convVal nv.2)) } := by
      rw [toHist_getElem, hFi]; rfl
    have hmem := List.mem_of_getElem? hge'
    obtain ⟨hfl', i', e', k', hi', hgeF, _, hke', hmin, _⟩ :=
      C04.optimum_feasible_minimal c (toHist Fin) sF hF
        ⟨_, hmem, hfeas hfe, by rw [hkey k hke]; rfl⟩
    refine ⟨hfl, hfl', i, i', _, e', k, k', hi, hi', ?_, hgeF, hke, hke', ?_⟩
    · rw [toHist_getElem, hLi]; rfl
    · exact hmin i _ k hge' (hfeas hfe) (hkey k hke)

end GV.C12
