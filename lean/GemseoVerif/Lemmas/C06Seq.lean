/-
C06 — lemmas behind the compositions whose parts carry their OWN settings, and behind several MDA objects
living in one process:

* `mdaLoop_last` / `execute_last`: whatever way a run of an elementary MDA ends (residual test, `max_mda_iter`,
  NaN), the data it returns are `sweep y` for its last iterate `y` and the last entry of its residual history —
  `mda.normed_residual` — is the normed residual of `(y, sweep y)`;
* `seqExecute_spec`: the run an `MDASequential` returns the data of is either the run of its LAST sub-MDA, or a run
  whose normed residual is below the tolerance of the SEQUENCE;
* `wrun_congr` / `wrun_filter`: an operation on an MDA object touches that object only, so what an object (its own
  settings and the settings of its inner MDAs) is after any history depends on the operations that name it only;
* `Coherent`: after a construction or an assignment on a composed MDA that cascades its settings, every inner MDA
  holds the tolerance and the iteration budget of the composed MDA.
-/
import GemseoVerif.Lemmas.C06Chain

namespace GV.C06

variable {σ τ : Type}

/-- Whatever way the loop ends — except on the replay budget of the driver — the returned data are `sweep y` for the
    last iterate `y`, and the last entry of the history is the squared normed residual of `(y, sweep y)`. -/
theorem mdaLoop_last (sweep : Vec → Vec) (resid : Vec → Vec → Vec) (norm : σ → Vec → Rat × σ)
    (update : τ → Vec → Vec → Vec → Option (Vec × τ)) (tolSq : Rat) (maxIter : Nat) :
    ∀ (fuel iter : Nat) (data : Vec) (ts : τ) (sd : σ) (hist raw : List Rat),
      (mdaLoop sweep resid norm update tolSq maxIter fuel iter data ts sd hist raw).outcome ≠ .capped →
      ∃ (y : Vec) (sd₀ : σ) (h' : List Rat),
        (mdaLoop sweep resid norm update tolSq maxIter fuel iter data ts sd hist raw).data = sweep y ∧
        (mdaLoop sweep resid norm update tolSq maxIter fuel iter data ts sd hist raw).hist
          = h' ++ [(norm sd₀ (resid y (sweep y))).1] := by
  intro fuel
  induction fuel with
  | zero => intro iter data ts sd hist raw h; simp [mdaLoop] at h
  | succ fuel ih =>
    intro iter data ts sd hist raw h
    unfold mdaLoop at h ⊢
    simp only at h ⊢
    by_cases h1 : (norm sd (resid data (sweep data))).1 ≤ tolSq
    · simp only [h1, if_true] at h ⊢
      exact ⟨data, sd, hist, rfl, rfl⟩
    · simp only [h1, if_false] at h ⊢
      by_cases h2 : maxIter ≤ iter + 1
      · simp only [h2, if_true] at h ⊢
        exact ⟨data, sd, hist, rfl, rfl⟩
      · simp only [h2, if_false] at h ⊢
        cases hu : update ts data (sweep data) (resid data (sweep data)) with
        | none =>
          simp only [hu] at h ⊢
          exact ⟨data, sd, hist, rfl, rfl⟩
        | some p =>
          obtain ⟨next, ts'⟩ := p
          simp only [hu] at h ⊢
          exact ih _ _ _ _ _ _ h

/-- `mda.normed_residual` and the returned data of an elementary MDA of the model, however its run ended: either the
    run recorded nothing (a Gauss–Seidel MDA with `max_mda_iter = 0`), or the returned data are `sweep y` and the last
    entry of the residual history is the squared normed residual of `(y, sweep y)` on the resolved variables. -/
theorem execute_last (s : Sys) (c : Cfg) (fuel : Nat) (st : MState) (start : Vec)
    (h : (execute s c fuel st start).outcome ≠ .capped) :
    (execute s c fuel st start).hist = [] ∨
    ∃ (y : Vec) (sd₀ : Option ScalData) (h' : List Rat),
      (execute s c fuel st start).data = sweepOf s c y ∧
      (execute s c fuel st start).hist
        = h' ++ [(normedSq c.scaling c.groups sd₀ (residOn c.res y (sweepOf s c y))).1] := by
  unfold execute at h ⊢
  unfold sweepOf
  cases hc : c.algo with
  | jacobi =>
    simp only [hc] at h ⊢
    exact Or.inr (mdaLoop_last _ _ _ _ _ _ _ _ _ _ _ _ _ h)
  | newton =>
    simp only [hc] at h ⊢
    exact Or.inr (mdaLoop_last _ _ _ _ _ _ _ _ _ _ _ _ _ h)
  | gaussSeidel =>
    simp only [hc] at h ⊢
    by_cases h0 : c.maxIter = 0
    · left; simp [h0]
    · simp only [h0, if_false] at h ⊢
      exact Or.inr (mdaLoop_last _ _ _ _ _ _ _ _ _ _ _ _ _ h)

/-- What `seqBreaks` means: the run recorded a normed residual, the last one, whose square is below `tol²`. -/
theorem seqBreaks_iff (tol : Rat) (r : Run σ) :
    seqBreaks tol r = true ↔ ∃ nsq, r.hist.getLast? = some nsq ∧ 0 < tol ∧ nsq < tol * tol := by
  unfold seqBreaks
  cases hl : r.hist.getLast? with
  | none => simp
  | some nsq => simp

/-- **`MDASequential._execute`**: the sequence returns the data of the last run it performed, and that run either
    passed the test `normed residual < tolerance of the SEQUENCE`, or is the run of the LAST sub-MDA. -/
theorem seqExecute_spec (s : Sys) (outerTol : Rat) (fuel : Nat) :
    ∀ (stages : List (Cfg × MState)) (data : Vec) (runs : List (Run (Option ScalData))), stages ≠ [] →
      ∃ (pre : List (Run (Option ScalData))) (c : Cfg) (st : MState) (d : Vec), (c, st) ∈ stages ∧
        seqExecute s outerTol fuel stages data runs
          = ((execute s c fuel st d).data, runs ++ pre ++ [execute s c fuel st d]) ∧
        (seqBreaks outerTol (execute s c fuel st d) = true ∨ stages.getLast? = some (c, st)) := by
  intro stages
  induction stages with
  | nil => intro _ _ h; exact absurd rfl h
  | cons cs rest ih =>
    intro data runs _
    obtain ⟨c, st⟩ := cs
    unfold seqExecute
    simp only
    by_cases hb : seqBreaks outerTol (execute s c fuel st data) = true
    · simp only [hb, if_true]
      exact ⟨[], c, st, data, List.mem_cons_self .., by simp, Or.inl hb⟩
    · simp only [hb]
      cases rest with
      | nil =>
        refine ⟨[], c, st, data, List.mem_cons_self .., ?_, Or.inr rfl⟩
        simp [seqExecute]
      | cons cs' rest' =>
        obtain ⟨pre, c', st', d, hmem, heq, hlast⟩ :=
          ih (execute s c fuel st data).data (runs ++ [execute s c fuel st data]) (by simp)
        refine ⟨execute s c fuel st data :: pre, c', st', d, List.mem_cons_of_mem _ hmem, ?_, ?_⟩
        · simp only [Bool.false_eq_true, if_false]
          rw [heq]
          simp
        · rcases hlast with h | h
          · exact Or.inl h
          · right
            simpa [List.getLast?_cons_cons] using h

-- ------------------------------------------------------------------ several MDA objects in one process

theorem wstep_other (w : World) (op : WOp) (a : Nat) (h : op.target ≠ a) : wstep w op a = w a := by
  unfold wstep World.upd
  simp [Ne.symm h]

theorem wstep_target (w : World) (op : WOp) : wstep w op op.target = objStep (w op.target) op := by
  unfold wstep World.upd
  simp

/-- What object `a` is after a history only depends on what it was before and on the history. -/
theorem wrun_congr (a : Nat) : ∀ (ops : List WOp) (w w' : World), w a = w' a → wrun w ops a = wrun w' ops a := by
  intro ops
  induction ops with
  | nil => intro w w' h; exact h
  | cons op ops ih =>
    intro w w' h
    unfold wrun
    simp only [List.foldl_cons]
    apply ih
    by_cases ht : op.target = a
    · subst ht
      rw [wstep_target, wstep_target, h]
    · rw [wstep_other w op a ht, wstep_other w' op a ht, h]

/-- ... and only on the operations of the history that name it. -/
theorem wrun_filter (a : Nat) : ∀ (ops : List WOp) (w : World),
    wrun w ops a = wrun w (ops.filter (fun op => op.target == a)) a := by
  intro ops
  induction ops with
  | nil => intro w; rfl
  | cons op ops ih =>
    intro w
    by_cases ht : op.target = a
    · have hf : (op :: ops).filter (fun op => op.target == a) = op :: ops.filter (fun op => op.target == a) := by
        simp [ht]
      rw [hf]
      show wrun (wstep w op) ops a = wrun (wstep w op) (ops.filter _) a
      exact ih _
    · have hf : (op :: ops).filter (fun op => op.target == a) = ops.filter (fun op => op.target == a) := by
        simp [ht]
      rw [hf]
      show wrun (wstep w op) ops a = wrun w (ops.filter _) a
      rw [← ih w]
      exact wrun_congr a ops _ _ (wstep_other w op a ht)

-- settings dictionaries

theorem Settings.get?_set_same (s : Settings) (k : String) (v : Rat) : (s.set k v).get? k = some v := by
  unfold Settings.get? Settings.set
  simp

theorem Settings.get?_set_other (s : Settings) (k k' : String) (v : Rat) (h : k ≠ k') :
    (s.set k v).get? k' = s.get? k' := by
  unfold Settings.get? Settings.set
  have hk : (k == k') = false := by simpa using h
  rw [List.find?_cons_of_neg (by simpa using hk)]
  congr 1
  induction s with
  | nil => rfl
  | cons e es ih =>
    by_cases he : (e.1 == k) = true
    · have hek' : (e.1 == k') = false := by
        have : e.1 = k := by simpa using he
        rw [this]; exact hk
      rw [List.filter_cons_of_neg (by simpa using he), List.find?_cons_of_neg (by simpa using hek')]
      exact ih
    · rw [List.filter_cons_of_pos (by simpa using he)]
      by_cases hek' : (e.1 == k') = true
      · rw [List.find?_cons_of_pos (by simpa using hek'), List.find?_cons_of_pos (by simpa using hek')]
      · rw [List.find?_cons_of_neg (by simpa using hek'), List.find?_cons_of_neg (by simpa using hek')]
        exact ih

/-- The cascaded fields of the model. -/
def cascadedFields : List String := ["tolerance", "max_mda_iter"]

/-- Every inner MDA holds the value the composed MDA holds, for every cascaded field the composed MDA defines. -/
def Coherent (o : Obj) : Prop :=
  ∀ sub ∈ o.subs, ∀ f ∈ cascadedFields, ∀ v, o.own.get? f = some v → sub.get? f = some v

theorem cascade1_get (own sub : Settings) (f : String) (v : Rat) (h : own.get? f = some v) :
    (cascade1 own f sub).get? f = some v := by
  unfold cascade1
  rw [h]
  exact Settings.get?_set_same _ _ _

theorem cascade1_get_other (own sub : Settings) (f g : String) (hfg : f ≠ g) :
    (cascade1 own f sub).get? g = sub.get? g := by
  unfold cascade1
  cases own.get? f with
  | none => rfl
  | some v => exact Settings.get?_set_other _ _ _ _ hfg

/-- After the cascade of a composed MDA that cascades its settings, the object is coherent. -/
theorem cascade_coherent (o : Obj) (hk : cascades o.kind = true) : Coherent (cascade o) := by
  unfold cascade
  simp only [hk, if_true]
  intro sub hsub f hf v hv
  simp only [List.mem_map] at hsub
  obtain ⟨sub0, _, rfl⟩ := hsub
  simp only [cascadedFields, List.mem_cons, List.not_mem_nil, or_false] at hf
  rcases hf with rfl | rfl
  · rw [cascade1_get_other _ _ "max_mda_iter" "tolerance" (by decide)]
    exact cascade1_get _ _ _ _ hv
  · exact cascade1_get _ _ _ _ hv

/-- A freshly built `MDAChain` / `MDAGSNewton` is coherent, whatever is given for its inner MDAs. -/
theorem mkObj_coherent (kind : Kind) (own : Settings) (given : List Settings) (hk : cascades kind = true) :
    Coherent (mkObj kind own given) := by
  have key : Coherent ⟨kind, own, given.map (innerSettings own)⟩ := by
    intro sub hsub f hf v hv
    simp only [List.mem_map] at hsub
    obtain ⟨g, _, rfl⟩ := hsub
    refine innerSettings_chain_prevails own g f ?_ v hv
    simp only [cascadedFields, List.mem_cons, List.not_mem_nil, or_false] at hf
    rcases hf with rfl | rfl <;> decide
  cases kind with
  | chain => exact key
  | gsNewton => exact key
  | sequential => simp [cascades] at hk
  | elementary => simp [cascades] at hk

/-- `mda.<inner>[j].settings.<field> = v`: the only operation that can make an inner MDA differ from its composed MDA. -/
def WOp.isAssignSub : WOp → Bool
  | .assignSub _ _ _ _ => true
  | _ => false

theorem cascade_kind (o : Obj) : (cascade o).kind = o.kind := by
  unfold cascade
  split <;> rfl

theorem mkObj_kind (kind : Kind) (own : Settings) (given : List Settings) : (mkObj kind own given).kind = kind := by
  cases kind <;> rfl

/-- Invariant of the histories: as long as nobody assigns a field of an inner MDA of object `a` directly, object `a`
    — when it is a composed MDA that cascades its settings — stays coherent, whatever happens to the other objects. -/
theorem wrun_coherent (a : Nat) : ∀ (ops : List WOp) (w : World),
    (∀ o, w a = some o → cascades o.kind = true → Coherent o) →
    (∀ op ∈ ops, op.target = a → op.isAssignSub = false) →
    ∀ o, wrun w ops a = some o → cascades o.kind = true → Coherent o := by
  intro ops
  induction ops with
  | nil => intro w hw _ o ho hk; exact hw o ho hk
  | cons op ops ih =>
    intro w hw hops o ho hk
    refine ih (wstep w op) ?_ (fun op' h' => hops op' (List.mem_cons_of_mem _ h')) o ho hk
    intro o1 ho1 hk1
    by_cases ht : op.target = a
    · have hns := hops op (List.mem_cons_self ..) ht
      subst ht
      rw [wstep_target] at ho1
      cases op with
      | create id kind own given =>
        simp only [objStep, Option.some.injEq] at ho1
        subst ho1
        rw [mkObj_kind] at hk1
        exact mkObj_coherent kind own given hk1
      | assign id f v =>
        simp only [objStep, Option.map_eq_some_iff] at ho1
        obtain ⟨o0, _, rfl⟩ := ho1
        rw [cascade_kind] at hk1
        exact cascade_coherent _ hk1
      | assignSub id j f v => simp [WOp.isAssignSub] at hns
    · rw [wstep_other w op a ht] at ho1
      exact hw o1 ho1 hk1

end GV.C06
