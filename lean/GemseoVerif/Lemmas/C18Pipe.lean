/-
C18 — chains of maps with constant Jacobians (fitted scalers, linear reductions, their inverses):
the Jacobian product accumulated in code order is the exact increment of the composed map, and the
inverse pipeline undoes the pipeline when every step is lossless.
-/
import GemseoVerif.Lemmas.C18Sum
import Mathlib.Tactic.FieldSimp

namespace GV.C18

variable {K : Type} [Field K]

set_option linter.unusedSectionVars false

/-- A map `f : K^n → K^m` given with a constant matrix `J`. -/
structure AffMap (K : Type) where
  n : Nat
  m : Nat
  f : Vec K → Vec K
  J : Mat K

/-- `f` reads only its first `n` inputs and `f (u + h) = f u + J h` on its `m` outputs. -/
def AffMap.IsAff (L : AffMap K) : Prop :=
  (∀ u v : Vec K, (∀ i, i < L.n → u i = v i) → ∀ i, i < L.m → L.f u i = L.f v i) ∧
  (∀ u h : Vec K, ∀ i, i < L.m → L.f (fun j => u j + h j) i = L.f u i + mulVec L.n L.J h i)

def chainF (Ls : List (AffMap K)) (x : Vec K) : Vec K := Ls.foldl (fun v L => L.f v) x
def chainJFrom (J0 : Mat K) (Ls : List (AffMap K)) : Mat K :=
  Ls.foldl (fun J L => matMul L.n L.J J) J0
def chainJ (Ls : List (AffMap K)) : Mat K := chainJFrom idMat Ls
def chainOut (Ls : List (AffMap K)) (d : Nat) : Nat := Ls.foldl (fun _ L => L.m) d

/-- The dimensions chain and every map is affine. -/
def Chained : List (AffMap K) → Nat → Prop
  | [], _ => True
  | L :: rest, d => L.n = d ∧ L.IsAff ∧ Chained rest L.m

theorem chain_increment_from (Ls : List (AffMap K)) :
    ∀ (d n : Nat) (J0 : Mat K) (u v h : Vec K), Chained Ls d →
      (∀ i, i < d → v i = u i + mulVec n J0 h i) →
      ∀ i, i < chainOut Ls d →
        chainF Ls v i = chainF Ls u i + mulVec n (chainJFrom J0 Ls) h i := by
  induction Ls with
  | nil =>
    intro d n J0 u v h _ huv i hi
    simpa [chainF, chainJFrom, chainOut] using huv i (by simpa [chainOut] using hi)
  | cons L rest ih =>
    intro d n J0 u v h hc huv i hi
    obtain ⟨hn, haff, hrest⟩ := hc
    have step : ∀ i, i < L.m →
        L.f v i = L.f u i + mulVec n (matMul L.n L.J J0) h i := by
      intro i hi
      have h1 : L.f v i = L.f (fun j => u j + mulVec n J0 h j) i :=
        haff.1 v _ (fun j hj => huv j (hn ▸ hj)) i hi
      rw [h1, haff.2 u _ i hi, mulVec_matMul]
    have := ih L.m n (matMul L.n L.J J0) (L.f u) (L.f v) h hrest step i
      (by simpa [chainOut] using hi)
    simpa [chainF, chainJFrom] using this

/-- **Pipeline Jacobian = exact increment of the composed map.** -/
theorem chain_increment (Ls : List (AffMap K)) (d : Nat) (hc : Chained Ls d) (x h : Vec K) :
    ∀ i, i < chainOut Ls d →
      chainF Ls (fun j => x j + h j) i = chainF Ls x i + mulVec d (chainJ Ls) h i :=
  chain_increment_from Ls d d idMat x (fun j => x j + h j) h hc
    (fun i hi => by rw [mulVec_id d h i hi])

theorem chain_congr (Ls : List (AffMap K)) :
    ∀ (d : Nat) (u v : Vec K), Chained Ls d → (∀ i, i < d → u i = v i) →
      ∀ i, i < chainOut Ls d → chainF Ls u i = chainF Ls v i := by
  induction Ls with
  | nil =>
    intro d u v _ huv i hi
    simpa [chainF] using huv i (by simpa [chainOut] using hi)
  | cons L rest ih =>
    intro d u v hc huv i hi
    obtain ⟨hn, haff, hrest⟩ := hc
    have := ih L.m (L.f u) (L.f v) hrest
      (fun j hj => haff.1 u v (fun l hl => huv l (hn ▸ hl)) j hj) i (by simpa [chainOut] using hi)
    simpa [chainF] using this

theorem chained_append (A : List (AffMap K)) (L : AffMap K) :
    ∀ d, Chained A d → L.n = chainOut A d → L.IsAff → Chained (A ++ [L]) d := by
  induction A with
  | nil => intro d _ hn haff; exact ⟨by simpa [chainOut] using hn, haff, trivial⟩
  | cons M rest ih =>
    intro d hc hn haff
    obtain ⟨h1, h2, h3⟩ := hc
    exact ⟨h1, h2, ih M.m h3 (by simpa [chainOut] using hn) haff⟩

theorem chainOut_append (A : List (AffMap K)) (L : AffMap K) (d : Nat) :
    chainOut (A ++ [L]) d = L.m := by
  simp [chainOut, List.foldl_append]

/-! ### Steps as affine maps -/

def fwd (s : Step K) : AffMap K := ⟨s.inDim, s.outDim, s.transform, s.jac⟩
def bwd (s : Step K) : AffMap K := ⟨s.outDim, s.inDim, s.inverse, s.jacInv⟩

theorem fwd_isAff (s : Step K) : (fwd s).IsAff := by
  cases s with
  | affine d c o =>
    refine ⟨fun u v huv i hi => ?_, fun u h i hi => ?_⟩
    · simp only [fwd, Step.transform, Step.inDim, Step.outDim] at *
      rw [huv i hi]
    · simp only [fwd, Step.transform, Step.inDim, Step.outDim, Step.jac] at *
      rw [mulVec_diag d c h i hi]; ring
  | linear d k μ W =>
    refine ⟨fun u v huv i _ => ?_, fun u h i _ => ?_⟩
    · simp only [fwd, Step.transform, Step.inDim] at *
      exact sumTo_congr (fun j hj => by rw [huv j hj])
    · simp only [fwd, Step.transform, Step.inDim, Step.jac, mulVec] at *
      rw [← sumTo_add]
      exact sumTo_congr (fun j _ => by ring)

theorem bwd_isAff (s : Step K) : (bwd s).IsAff := by
  cases s with
  | affine d c o =>
    refine ⟨fun u v huv i hi => ?_, fun u h i hi => ?_⟩
    · simp only [bwd, Step.inverse, Step.inDim, Step.outDim] at *
      rw [huv i hi]
    · simp only [bwd, Step.inverse, Step.inDim, Step.outDim, Step.jacInv] at *
      rw [mulVec_diag d _ h i hi]; ring
  | linear d k μ W =>
    refine ⟨fun u v huv i _ => ?_, fun u h i _ => ?_⟩
    · simp only [bwd, Step.inverse, Step.outDim] at *
      congr 1
      exact sumTo_congr (fun j hj => by rw [huv j hj])
    · simp only [bwd, Step.inverse, Step.outDim, Step.jacInv, mulVec, transpose] at *
      have : sumTo k (fun i_1 => (u i_1 + h i_1) * W i_1 i)
          = sumTo k (fun i_1 => u i_1 * W i_1 i) + sumTo k (fun j => W j i * h j) := by
        rw [← sumTo_add]
        exact sumTo_congr (fun j _ => by ring)
      rw [this]; ring

/-- The dimensions of the steps of a pipeline chain from `d`. -/
def PipeWF : List (Step K) → Nat → Prop
  | [], _ => True
  | s :: rest, d => s.inDim = d ∧ PipeWF rest s.outDim

theorem pipeTransform_eq (steps : List (Step K)) (x : Vec K) :
    pipeTransform steps x = chainF (steps.map fwd) x := by
  simp [pipeTransform, chainF, List.foldl_map, fwd]

theorem pipeInverse_eq (steps : List (Step K)) (y : Vec K) :
    pipeInverse steps y = chainF (steps.reverse.map bwd) y := by
  simp [pipeInverse, chainF, List.foldr_map, bwd]

theorem pipeJac_eq (steps : List (Step K)) : pipeJac steps = chainJ (steps.map fwd) := by
  simp [pipeJac, chainJ, chainJFrom, List.foldl_map, fwd]

theorem pipeJacInv_eq (steps : List (Step K)) :
    pipeJacInv steps = chainJ (steps.reverse.map bwd) := by
  simp [pipeJacInv, chainJ, chainJFrom, List.foldr_map, bwd]

theorem pipeOutDim_eq (steps : List (Step K)) (d : Nat) :
    pipeOutDim steps d = chainOut (steps.map fwd) d := by
  simp [pipeOutDim, chainOut, List.foldl_map, fwd]

theorem chained_fwd (steps : List (Step K)) : ∀ d, PipeWF steps d → Chained (steps.map fwd) d := by
  induction steps with
  | nil => intro d _; trivial
  | cons s rest ih =>
    intro d h
    exact ⟨h.1, fwd_isAff s, ih s.outDim h.2⟩

theorem chained_bwd (steps : List (Step K)) :
    ∀ d, PipeWF steps d →
      Chained (steps.reverse.map bwd) (pipeOutDim steps d) ∧
      chainOut (steps.reverse.map bwd) (pipeOutDim steps d) = d := by
  induction steps with
  | nil => intro d _; exact ⟨trivial, rfl⟩
  | cons s rest ih =>
    intro d h
    obtain ⟨hc, ho⟩ := ih s.outDim h.2
    have hout : pipeOutDim (s :: rest) d = pipeOutDim rest s.outDim := by
      simp [pipeOutDim]
    rw [hout]
    have hrev : (s :: rest).reverse.map bwd = rest.reverse.map bwd ++ [bwd s] := by simp
    rw [hrev]
    refine ⟨chained_append _ (bwd s) _ hc (by simpa [bwd] using ho.symm) (bwd_isAff s), ?_⟩
    rw [chainOut_append]; simpa [bwd] using h.1

/-- **`Pipeline.compute_jacobian` is the derivative of `Pipeline.transform`** (exact increment). -/
theorem pipeTransform_increment (steps : List (Step K)) (d : Nat) (hwf : PipeWF steps d)
    (x h : Vec K) :
    ∀ i, i < pipeOutDim steps d →
      pipeTransform steps (fun j => x j + h j) i
        = pipeTransform steps x i + mulVec d (pipeJac steps) h i := by
  intro i hi
  rw [pipeTransform_eq, pipeTransform_eq, pipeJac_eq]
  exact chain_increment _ d (chained_fwd steps d hwf) x h i (by rwa [← pipeOutDim_eq])

/-- **`Pipeline.compute_jacobian_inverse` is the derivative of `Pipeline.inverse_transform`.** -/
theorem pipeInverse_increment (steps : List (Step K)) (d : Nat) (hwf : PipeWF steps d)
    (y h : Vec K) :
    ∀ i, i < d →
      pipeInverse steps (fun j => y j + h j) i
        = pipeInverse steps y i + mulVec (pipeOutDim steps d) (pipeJacInv steps) h i := by
  intro i hi
  obtain ⟨hc, ho⟩ := chained_bwd steps d hwf
  rw [pipeInverse_eq, pipeInverse_eq, pipeJacInv_eq]
  exact chain_increment _ _ hc y h i (by rw [ho]; exact hi)

theorem pipeTransform_congr (steps : List (Step K)) (d : Nat) (hwf : PipeWF steps d)
    (u v : Vec K) (huv : ∀ i, i < d → u i = v i) :
    ∀ i, i < pipeOutDim steps d → pipeTransform steps u i = pipeTransform steps v i := by
  intro i hi
  rw [pipeTransform_eq, pipeTransform_eq]
  exact chain_congr _ d u v (chained_fwd steps d hwf) huv i (by rwa [← pipeOutDim_eq])

theorem pipeInverse_congr (steps : List (Step K)) (d : Nat) (hwf : PipeWF steps d)
    (u v : Vec K) (huv : ∀ i, i < pipeOutDim steps d → u i = v i) :
    ∀ i, i < d → pipeInverse steps u i = pipeInverse steps v i := by
  intro i hi
  obtain ⟨hc, ho⟩ := chained_bwd steps d hwf
  rw [pipeInverse_eq, pipeInverse_eq]
  exact chain_congr _ _ u v hc huv i (by rw [ho]; exact hi)

/-! ### Lossless pipelines: the inverse undoes the transformation -/

/-- A scaler with non-zero coefficients; a linear reduction of full rank with orthonormal
    components (`k = d`, `Wᵀ W = I`, e.g. a PCA keeping all the components). -/
def Step.Lossless : Step K → Prop
  | .affine d c _ => ∀ i, i < d → c i ≠ 0
  | .linear d k _ W => k = d ∧
      ∀ j l, j < d → l < d → sumTo d (fun i => W i l * W i j) = if l = j then 1 else 0

theorem step_inverse_transform (s : Step K) (hs : s.Lossless) (x : Vec K) :
    ∀ i, i < s.inDim → s.inverse (s.transform x) i = x i := by
  cases s with
  | affine d c o =>
    intro i hi
    have hc : c i ≠ 0 := hs i hi
    simp only [Step.inverse, Step.transform]
    field_simp
    ring
  | linear d k μ W =>
    intro j hj
    obtain ⟨hk, horth⟩ := hs
    subst hk
    simp only [Step.inverse, Step.transform, Step.inDim] at *
    have h1 : sumTo k (fun i => sumTo k (fun l => W i l * (x l - μ l)) * W i j)
        = sumTo k (fun l => (x l - μ l) * sumTo k (fun i => W i l * W i j)) := by
      have : sumTo k (fun i => sumTo k (fun l => W i l * (x l - μ l)) * W i j)
          = sumTo k (fun i => sumTo k (fun l => (x l - μ l) * (W i l * W i j))) :=
        sumTo_congr (fun i _ => by
          rw [← sumTo_mul_right]
          exact sumTo_congr (fun l _ => by ring))
      rw [this, sumTo_comm]
      exact sumTo_congr (fun l _ => by rw [sumTo_mul_left])
    rw [h1]
    have h2 : sumTo k (fun l => (x l - μ l) * sumTo k (fun i => W i l * W i j))
        = sumTo k (fun l => if l = j then (x l - μ l) else 0) :=
      sumTo_congr (fun l hl => by
        rw [horth j l hj hl]
        by_cases h : l = j <;> simp [h])
    rw [h2, sumTo_ite_eq k j hj]
    ring

def AllLossless : List (Step K) → Prop
  | [] => True
  | s :: rest => s.Lossless ∧ AllLossless rest

theorem pipeInverse_cons (s : Step K) (rest : List (Step K)) (y : Vec K) :
    pipeInverse (s :: rest) y = s.inverse (pipeInverse rest y) := by
  simp [pipeInverse, List.foldl_append]

theorem pipeTransform_cons (s : Step K) (rest : List (Step K)) (x : Vec K) :
    pipeTransform (s :: rest) x = pipeTransform rest (s.transform x) := by
  simp [pipeTransform]

/-- **`inverse_transform ∘ transform = id` for pipelines of lossless transformers.** -/
theorem pipe_inverse_transform (steps : List (Step K)) :
    ∀ (d : Nat) (x : Vec K), PipeWF steps d → AllLossless steps →
      ∀ i, i < d → pipeInverse steps (pipeTransform steps x) i = x i := by
  induction steps with
  | nil => intro d x _ _ i _; rfl
  | cons s rest ih =>
    intro d x hwf hl i hi
    rw [pipeInverse_cons, pipeTransform_cons]
    have hin : s.inDim = d := hwf.1
    have hrest := ih s.outDim (s.transform x) hwf.2 hl.2
    have hb := (bwd_isAff s).1 (pipeInverse rest (pipeTransform rest (s.transform x)))
      (s.transform x) (fun j hj => hrest j (by simpa [bwd] using hj)) i
      (by simpa [bwd, hin] using hi)
    simp only [bwd] at hb
    rw [hb]
    exact step_inverse_transform s hl.1 x i (by rw [hin]; exact hi)

end GV.C18
