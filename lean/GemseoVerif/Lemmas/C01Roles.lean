/-
Helper lemmas for the function roles of C01: rounding an already rounded point changes nothing
(`round_vect ∘ unnormalize_vect = unnormalize_vect` on points).
-/
import GemseoVerif.Model.C01
import GemseoVerif.Lemmas.C14Round

namespace GV.C01
open GV.C02

/-- `roundIf` is idempotent (numpy.round of an integer is that integer). -/
theorem roundIf_idem (b : Bool) (y : Rat) : roundIf b (roundIf b y) = roundIf b y := by
  cases b with
  | false => simp [roundIf]
  | true => simp [roundIf, GV.C14.roundHalfEven_intCast]

theorem zipWith_roundIf_idem (m : List Bool) (raw : List Rat) :
    List.zipWith roundIf m (List.zipWith roundIf m raw) = List.zipWith roundIf m raw := by
  induction m generalizing raw with
  | nil => simp
  | cons b bs ih =>
    cases raw with
    | nil => simp
    | cons y ys => simp [roundIf_idem, ih]

/-- A point returned by `unnormalize_vect` is already rounded. -/
theorem roundVect_unnormalizeVect (ds : DS) (x : List Rat) :
    ds.roundVect (ds.unnormalizeVect true x) = ds.unnormalizeVect true x := by
  unfold DS.roundVect DS.unnormalizeVect
  simp only [if_true]
  exact zipWith_roundIf_idem _ _

end GV.C01
