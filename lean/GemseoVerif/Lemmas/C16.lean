/-
C16 — helper lemmas about the executable model `Model/C16.lean`
(list bookkeeping: components of perturbed points, columns of the gradient lists,
parallel = serial, placement of partial Jacobians).
-/
import GemseoVerif.Model.C16
import Mathlib.Tactic.Ring
import Mathlib.Tactic.Linarith
import Mathlib.Tactic.FieldSimp
import Mathlib.Algebra.Order.Ring.Rat
import Mathlib.Algebra.Order.Field.Rat
import Mathlib.Algebra.Order.AbsoluteValue.Basic
import Mathlib.Data.List.Basic

namespace GV.C16

theorem absR_eq_abs (r : ℚ) : absR r = |r| := by
  unfold absR
  split
  · rename_i h; rw [abs_of_neg h]
  · rename_i h; rw [abs_of_nonneg (not_lt.mp h)]

theorem bump_length (x : Vec) (i : Nat) (d : ℚ) : (bump x i d).length = x.length := by
  simp [bump]

theorem getR_bump (x : Vec) (i j : Nat) (d : ℚ) :
    getR (bump x i d) j = if i = j ∧ i < x.length then getR x i + d else getR x j := by
  simp only [getR, bump, List.getD_eq_getElem?_getD, List.getElem?_set]
  by_cases hij : i = j
  · subst hij
    by_cases hi : i < x.length
    · simp [hi]
    · simp [hi]
  · simp [hij]

theorem getR_bump_self (x : Vec) (i : Nat) (d : ℚ) (hi : i < x.length) :
    getR (bump x i d) i = getR x i + d := by
  rw [getR_bump]; simp [hi]

theorem getR_bump_ne (x : Vec) (i j : Nat) (d : ℚ) (h : i ≠ j) :
    getR (bump x i d) j = getR x j := by
  rw [getR_bump]; simp [h]

theorem colDiff_length (a b : Vec) (d : ℚ) : (colDiff a b d).length = min a.length b.length := by
  simp [colDiff]

theorem getR_colDiff (a b : Vec) (d : ℚ) (j : Nat) (hab : a.length = b.length) :
    getR (colDiff a b d) j = (getR a j - getR b j) / d := by
  unfold getR colDiff
  simp only [List.getD_eq_getElem?_getD, List.getElem?_zipWith]
  by_cases hj : j < a.length
  · have hjb : j < b.length := hab ▸ hj
    simp [List.getElem?_eq_getElem hj, List.getElem?_eq_getElem hjb]
  · have hjb : ¬ j < b.length := hab ▸ hj
    simp [List.getElem?_eq_none (not_lt.mp hj), List.getElem?_eq_none (not_lt.mp hjb)]


/-! ### Closed forms of the gradient lists -/

theorem range_map_getD {α β : Type} (l : List α) (g : Nat → α → β) (dflt : α) :
    (List.range l.length).map (fun k => g k (l.getD k dflt)) = l.mapIdx (fun k a => g k a) := by
  apply List.ext_getElem
  · simp
  · intro k h1 h2
    have hk : k < l.length := by simpa using h1
    simp [List.getD_eq_getElem?_getD, List.getElem?_eq_getElem hk]

theorem fdCompute_map (f : Vec → Vec) (x : Vec) (idx : List Nat) (p : Nat → Vec) (d : Nat → ℚ) :
    fdCompute f x (idx.map p) (idx.map d) = idx.map (fun i => colDiff (f (p i)) (f x) (d i)) := by
  simp [fdCompute, List.zip_map', List.map_map, Function.comp_def]

/-- Closed form of `f_gradient` for forward differences: column `k` is the difference quotient
    along component `idx[k]` with the signed step of that component. -/
theorem fdGrad_eq (f : Vec → Vec) (sp : Option Space) (x : Vec) (s : Step) (idx : List Nat) :
    fdGrad f sp x s idx =
      (effIndices x.length idx).map
        (fun i => colDiff (f (bump x i (fdStep sp x s i))) (f x) (fdStep sp x s i)) := by
  simp [fdGrad, fdGenerate, fdCompute_map]

theorem fdComputePar_eq (f : Vec → Vec) (x : Vec) (pts : List Vec) (steps : List ℚ)
    (h : steps.length = pts.length) :
    fdComputePar f x pts steps = fdCompute f x pts steps := by
  unfold fdComputePar fdCompute
  apply List.ext_getElem
  · simp [h]
  · intro k h1 h2
    have hk : k < pts.length := by simpa using h1
    have hk' : k < steps.length := h ▸ hk
    simp [List.getD_eq_getElem?_getD, List.getElem?_eq_getElem hk, List.getElem?_eq_getElem hk']

theorem cdCompute_map (f : Vec → Vec) (idx : List Nat) (p q : Nat → Vec) :
    cdCompute f (idx.map p ++ idx.map q) =
      idx.map (fun i => colDiff (f (p i)) (f (q i)) (norm1 (vsub (p i) (q i)))) := by
  have hlen : (idx.map p ++ idx.map q).length / 2 = idx.length := by
    simp; omega
  unfold cdCompute
  simp only [hlen]
  have h1 : (idx.map p ++ idx.map q).take idx.length = idx.map p := by
    have : idx.length = (idx.map p).length := by simp
    rw [this, List.take_left']
    rfl
  have h2 : ((idx.map p ++ idx.map q).drop idx.length).take idx.length = idx.map q := by
    have : idx.length = (idx.map p).length := by simp
    rw [this, List.drop_left']
    · simp
    · rfl
  rw [h1, h2, List.zip_map', List.map_map]
  rfl

theorem cdGrad_eq (f : Vec → Vec) (sp : Option Space) (x : Vec) (s : Step) (idx : List Nat) :
    cdGrad f sp x s idx =
      (effIndices x.length idx).map
        (fun i => colDiff (f (bump x i (cdPlus sp x s i))) (f (bump x i (cdMinus sp x s i)))
          (norm1 (vsub (bump x i (cdPlus sp x s i)) (bump x i (cdMinus sp x s i))))) := by
  simp [cdGrad, cdGenerate, cdCompute_map]

theorem cdComputePar_eq (f : Vec → Vec) (pts : List Vec) :
    cdComputePar f pts = cdCompute f pts := by
  unfold cdComputePar cdCompute
  apply List.ext_getElem
  · simp; omega
  · intro k h1 h2
    have hk : k < pts.length / 2 := by simpa using h1
    have hk1 : k < pts.length := by omega
    have hk2 : pts.length / 2 + k < pts.length := by omega
    simp [List.getD_eq_getElem?_getD, List.getElem?_eq_getElem hk1, List.getElem?_eq_getElem hk2]

theorem csGrad_eq (fc : CVec → CVec) (x : Vec) (s : Step) (idx : List Nat) :
    csGrad fc x s idx =
      (effIndices x.length idx).map
        (fun i => (fc (cadd x (csPert x.length x s i))).map
          (fun z => z.im / imSum (csPert x.length x s i))) := by
  simp [csGrad, csGenerate, csCompute, List.map_map, Function.comp_def]

theorem csComputePar_eq (fc : CVec → CVec) (x : Vec) (perts : List CVec) :
    csComputePar fc x perts = csCompute fc x perts := by
  unfold csComputePar csCompute
  apply List.ext_getElem
  · simp
  · intro k h1 h2
    have hk : k < perts.length := by simpa using h1
    simp [List.getD_eq_getElem?_getD, List.getElem?_eq_getElem hk]


/-! ### Norm of the difference of two perturbed points, imaginary step of a perturbation -/

theorem absR_zero : absR 0 = 0 := by simp [absR]

theorem norm1_vsub_cons (a b : ℚ) (s t : Vec) :
    norm1 (vsub (a :: s) (b :: t)) = absR (a - b) + norm1 (vsub s t) := by
  simp only [norm1, vsub, List.zipWith_cons_cons, List.map_cons, List.sum_cons]

theorem norm1_vsub_self (t : Vec) : norm1 (vsub t t) = 0 := by
  induction t with
  | nil => simp [norm1, vsub]
  | cons a t ih => rw [norm1_vsub_cons, ih, sub_self, absR_zero, add_zero]

theorem norm1_set_sub (x : Vec) (i : Nat) (a b : ℚ) (hi : i < x.length) :
    norm1 (vsub (x.set i a) (x.set i b)) = absR (a - b) := by
  induction x generalizing i with
  | nil => simp at hi
  | cons y t ih =>
    cases i with
    | zero =>
      rw [List.set_cons_zero, List.set_cons_zero, norm1_vsub_cons, norm1_vsub_self, add_zero]
    | succ i =>
      have hi' : i < t.length := by simpa using hi
      rw [List.set_cons_succ, List.set_cons_succ, norm1_vsub_cons, ih i hi', sub_self, absR_zero,
        zero_add]

/-- The denominator of the centered quotient is the distance between the two perturbed
    components. -/
theorem norm1_bump (x : Vec) (i : Nat) (p q : ℚ) (hi : i < x.length) :
    norm1 (vsub (bump x i p) (bump x i q)) = absR (p - q) := by
  unfold bump
  rw [norm1_set_sub x i _ _ hi]
  congr 1; ring

theorem sum_replicate_set (n i : Nat) (d : ℚ) (hi : i < n) :
    ((List.replicate n (0 : ℚ)).set i d).sum = d := by
  induction n generalizing i with
  | zero => omega
  | succ n ih =>
    cases i with
    | zero => simp [List.replicate_succ]
    | succ i =>
      have := ih i (by omega)
      simp [List.replicate_succ, this]

theorem imSum_csPert (n : Nat) (x : Vec) (s : Step) (i : Nat) (hi : i < n) :
    imSum (csPert n x s i) = csDelta x s i := by
  unfold imSum csPert
  rw [List.map_set]
  simp only [List.map_replicate]
  exact sum_replicate_set n i _ hi

/-- Component `j` of the complex point `x + pert_i`: real part `x_j`, imaginary part the
    (relative) step on the differentiated component only. -/
theorem cadd_csPert_get (x : Vec) (s : Step) (i j : Nat) (hj : j < x.length) :
    (cadd x (csPert x.length x s i))[j]? =
      some ⟨getR x j, if i = j then csDelta x s i else 0⟩ := by
  unfold cadd csPert
  simp only [List.getElem?_zipWith, List.getElem?_set, List.getElem?_replicate, List.length_replicate]
  by_cases hij : i = j
  · subst hij
    simp [hj, getR, GRat.add, GRat.ofRat]
  · simp [hj, hij, getR, GRat.add, GRat.ofRat]

theorem cadd_csPert_length (x : Vec) (s : Step) (i : Nat) :
    (cadd x (csPert x.length x s i)).length = x.length := by
  simp [cadd, csPert]


/-! ### Placement of partial Jacobians (`flat_jac_complete[:, x_indices] = flat_jac`) -/

def setAll {α : Type} (acc : List α) (ps : List (Nat × α)) : List α :=
  ps.foldl (fun acc ic => acc.set ic.1 ic.2) acc

theorem setAll_length {α : Type} (acc : List α) (ps : List (Nat × α)) :
    (setAll acc ps).length = acc.length := by
  induction ps generalizing acc with
  | nil => rfl
  | cons p rest ih => simp only [setAll, List.foldl_cons] at ih ⊢; rw [ih]; simp

theorem setAll_get_not_mem {α : Type} (acc : List α) (ps : List (Nat × α)) (j : Nat)
    (hj : j ∉ ps.map Prod.fst) : (setAll acc ps)[j]? = acc[j]? := by
  induction ps generalizing acc with
  | nil => rfl
  | cons p rest ih =>
    simp only [List.map_cons, List.mem_cons, not_or] at hj
    simp only [setAll, List.foldl_cons] at ih ⊢
    rw [ih _ hj.2, List.getElem?_set]
    simp [Ne.symm hj.1]

theorem setAll_get_mem {α : Type} (acc : List α) (ps : List (Nat × α)) (k : Nat) (v : α)
    (hnd : (ps.map Prod.fst).Nodup) (hmem : (k, v) ∈ ps) (hk : k < acc.length) :
    (setAll acc ps)[k]? = some v := by
  induction ps generalizing acc with
  | nil => cases hmem
  | cons p rest ih =>
    simp only [List.map_cons, List.nodup_cons] at hnd
    simp only [setAll, List.foldl_cons] at ih ⊢
    rcases List.mem_cons.mp hmem with h | h
    · subst h
      have := setAll_get_not_mem (acc.set k v) rest k hnd.1
      simp only [setAll] at this
      rw [this, List.getElem?_set]
      simp [hk]
    · exact ih _ hnd.2 h (by simpa using hk)

theorem placeCols_length (m n : Nat) (idx : List Nat) (cols : List Vec) (h : idx ≠ []) :
    (placeCols m n idx cols).length = n := by
  unfold placeCols
  have : idx.isEmpty = false := by simpa using h
  simp only [this, Bool.false_eq_true, if_false]
  exact (setAll_length _ _).trans (by simp)

/-- Column `x_indices[k]` of the completed Jacobian is column `k` of the partial one. -/
theorem placeCols_get_idx (m n : Nat) (idx : List Nat) (cols : List Vec) (k : Nat)
    (hnd : idx.Nodup) (hlen : idx.length = cols.length) (hk : k < idx.length)
    (hn : idx[k] < n) :
    (placeCols m n idx cols)[idx[k]]? = some (cols[k]'(hlen ▸ hk)) := by
  unfold placeCols
  have hne : idx.isEmpty = false := by
    cases idx with
    | nil => simp at hk
    | cons _ _ => rfl
  simp only [hne, Bool.false_eq_true, if_false]
  apply setAll_get_mem
  · rw [List.map_fst_zip (le_of_eq hlen)]; exact hnd
  · rw [List.mem_iff_getElem]
    refine ⟨k, by simpa [hlen] using hk, ?_⟩
    simp
  · simpa using hn

/-- Columns of components that are not differentiated are zero. -/
theorem placeCols_get_other (m n : Nat) (idx : List Nat) (cols : List Vec) (j : Nat)
    (hne : idx ≠ []) (hlen : idx.length = cols.length) (hj : j < n) (hnot : j ∉ idx) :
    (placeCols m n idx cols)[j]? = some (List.replicate m 0) := by
  unfold placeCols
  have : idx.isEmpty = false := by simpa using hne
  simp only [this, Bool.false_eq_true, if_false]
  have h := setAll_get_not_mem (List.replicate n (List.replicate m (0 : ℚ))) (idx.zip cols) j
    (by rw [List.map_fst_zip (le_of_eq hlen)]; exact hnot)
  simp only [setAll] at h
  rw [h]
  simp [hj]

/-! ### `_compute_variable_indices` and `split_array_to_dict_of_arrays` -/

/-- Closed form of the global indices: for each variable `v` (in order) its selected local
    components shifted by the sum of the sizes of the previous variables. -/
theorem globalIndices_spec (sizes : List Nat) (sels : List Sel) (pos : Nat) :
    globalIndices sizes sels pos =
      (List.range sizes.length).flatMap (fun v =>
        (selLocal (sizes.getD v 0) (sels.getD v none)).map (· + (pos + (sizes.take v).sum))) := by
  induction sizes generalizing sels pos with
  | nil => simp [globalIndices]
  | cons s ss ih =>
    rw [globalIndices, ih, List.length_cons, List.range_succ_eq_map, List.flatMap_cons,
      List.flatMap_map]
    congr 1
    · cases sels <;> simp
    · apply List.flatMap_congr
      intro v _
      cases sels with
      | nil => simp [Nat.add_assoc]
      | cons a t => simp [Nat.add_assoc]

theorem mem_globalIndices (sizes : List Nat) (sels : List Sel) (g : Nat) :
    g ∈ globalIndices sizes sels 0 ↔
      ∃ v, v < sizes.length ∧ ∃ l ∈ selLocal (sizes.getD v 0) (sels.getD v none),
        g = (sizes.take v).sum + l := by
  rw [globalIndices_spec]
  simp only [List.mem_flatMap, List.mem_range, List.mem_map, Nat.zero_add]
  constructor
  · rintro ⟨v, hv, l, hl, rfl⟩; exact ⟨v, hv, l, hl, Nat.add_comm _ _⟩
  · rintro ⟨v, hv, l, hl, rfl⟩; exact ⟨v, hv, l, hl, Nat.add_comm _ _⟩

/-- Entry `(r, c)` of the block of output offset `ro` / input offset `co` is entry
    `(ro + r, co + c)` of the flat Jacobian. -/
theorem block_get (rows : List Vec) (ro rs co cs r c : Nat) (hr : r < rs) (hc : c < cs) :
    getR ((block rows ro rs co cs).getD r []) c = getR (rows.getD (ro + r) []) (co + c) := by
  unfold block getR
  simp only [List.getD_eq_getElem?_getD, List.getElem?_map, List.getElem?_take, hr, if_true,
    List.getElem?_drop]
  cases h : rows[ro + r]? with
  | none => simp
  | some row => simp [hc, List.getElem?_drop]

theorem bump_zero (x : Vec) (i : Nat) : bump x i 0 = x := by
  unfold bump getR
  apply List.ext_getElem?
  intro j
  rw [List.getElem?_set]
  by_cases hij : i = j
  · subst hij
    by_cases hi : i < x.length
    · simp [hi]
    · simp [hi]
  · simp [hij]

theorem getR_polyFun (ps : List Poly) (y : Vec) (j : Nat) (hj : j < ps.length) :
    getR (polyFun ps y) j = ps[j].eval y := by
  simp [getR, polyFun, List.getD_eq_getElem?_getD, List.getElem?_eq_getElem hj]

end GV.C16
