/-
C08 helper lemmas: `parEval` (the model of `MDOParallelChain._execute`: every block sees the same
input data, the outputs are merged afterwards) returns the same data as `chainEval` (sequential
execution) when the blocks are independent of each other.
-/
import GemseoVerif.Lemmas.C08Chain
import Mathlib.Data.List.Induction

namespace GV.C08

theorem Env.val_put' (e : Env) (k k' : String) (v : Rat) :
    (e.put k v).val k' = if k' = k then some v else e.val k' := by
  simp [Env.put, Env.val]

theorem Env.val_putFrom (acc src : Env) (keys : List String) (k : String) :
    (acc.putFrom src keys).val k =
      if k ∈ keys then (match src.val k with | some v => some v | none => acc.val k)
      else acc.val k := by
  unfold Env.putFrom
  induction keys generalizing acc with
  | nil => simp
  | cons x xs ih =>
    simp only [List.foldl_cons]
    rw [ih]
    by_cases hkx : k = x
    · subst hkx
      cases hs : src.val k with
      | none => simp
      | some v =>
        simp only [List.mem_cons, true_or, if_true]
        split <;> simp [Env.val_put']
    · cases hs : src.val x with
      | none => simp [List.mem_cons, hkx]
      | some v => simp [List.mem_cons, hkx, Env.val_put']

/-- Two blocks that do not touch each other's names. -/
def Independent (b c : BlockSpec) : Prop :=
  (∀ k ∈ c.writes, k ∉ b.ext ++ b.writes) ∧ (∀ k ∈ b.writes, k ∉ c.ext ++ c.writes)

theorem parEval_append (bs cs : List (Block × List String)) (e : Env) :
    parEval (bs ++ cs) e = cs.foldl (fun acc b => acc.putFrom (b.1 e) b.2) (parEval bs e) := by
  simp [parEval, List.foldl_append]

/-- `parallel_equals_sequential`: for pairwise independent blocks whose outputs only depend on
    their own footprint, running them on the same input data and merging their outputs gives the
    same data as running them one after the other. -/
theorem par_eq_seq (bs : List BlockSpec) (e : Env)
    (hind : bs.Pairwise Independent)
    (hcongr : ∀ b ∈ bs, ∀ e e' : Env, (∀ k ∈ b.ext ++ b.writes, e.val k = e'.val k) →
      ∀ k ∈ b.writes, (b.run e).val k = (b.run e').val k)
    (hdef : ∀ b ∈ bs, ∀ k ∈ b.writes, ((b.run e).val k).isSome) :
    ∀ k, (parEval (bs.map (fun b => (b.run, b.writes))) e).val k =
      (chainEval (bs.map (·.run)) e).val k := by
  induction bs using List.reverseRecOn with
  | nil => intro k; rfl
  | append_singleton pre b ih =>
    intro k
    rw [List.pairwise_append] at hind
    have ih' := ih hind.1 (fun c hc => hcongr c (List.mem_append_left _ hc))
      (fun c hc => hdef c (List.mem_append_left _ hc))
    rw [List.map_append, List.map_append, parEval_append, chainEval_append]
    simp only [List.map_cons, List.map_nil, List.foldl_cons, List.foldl_nil, chainEval_cons,
      chainEval_nil]
    rw [Env.val_putFrom]
    by_cases hk : k ∈ b.writes
    · rw [if_pos hk]
      obtain ⟨v, hv⟩ := Option.isSome_iff_exists.1 (hdef b (by simp) k hk)
      -- sequentially, b sees data that agrees with e on its footprint
      have hseq : (b.run (chainEval (pre.map (·.run)) e)).val k = (b.run e).val k := by
        apply hcongr b (by simp) _ _ ?_ k hk
        intro x hx
        apply chainEval_frame pre e x
        intro c hc hxc
        exact (hind.2.2 c hc b (by simp)).2 x hxc hx
      rw [hseq, hv]
    · rw [if_neg hk, ih' k]
      exact (b.frame _ k hk).symm

end GV.C08
