/-
C08 helper lemmas: components (`reps`, `comp`), condensation (`cedge`) and the execution
sequence (`sequenceOf`) of a graph whose `mu` is the mutual-reachability relation of `adj`.
-/
import GemseoVerif.Lemmas.C08Closure
import GemseoVerif.Lemmas.C08Peel
import Mathlib.Data.List.Pairwise
import Mathlib.Data.List.Flatten

namespace GV.C08

open Relation

/-- `mu` is the mutual-reachability relation of `adj` on the nodes `< n`. -/
structure IsMutual (adj mu : Nat → Nat → Bool) (n : Nat) : Prop where
  adj_lt : ∀ a b, adj a b = true → a < n ∧ b < n
  iff : ∀ i j, mu i j = true ↔
    i < n ∧ j < n ∧ ReflTransGen (Adj adj) i j ∧ ReflTransGen (Adj adj) j i

namespace IsMutual

variable {adj mu : Nat → Nat → Bool} {n : Nat} (h : IsMutual adj mu n)
include h

theorem lt_left {i j : Nat} (hm : mu i j = true) : i < n := ((h.iff i j).1 hm).1
theorem lt_right {i j : Nat} (hm : mu i j = true) : j < n := ((h.iff i j).1 hm).2.1

theorem refl {i : Nat} (hi : i < n) : mu i i = true :=
  (h.iff i i).2 ⟨hi, hi, ReflTransGen.refl, ReflTransGen.refl⟩

theorem symm {i j : Nat} (hm : mu i j = true) : mu j i = true := by
  obtain ⟨hi, hj, h1, h2⟩ := (h.iff i j).1 hm
  exact (h.iff j i).2 ⟨hj, hi, h2, h1⟩

theorem trans {i j k : Nat} (h1 : mu i j = true) (h2 : mu j k = true) : mu i k = true := by
  obtain ⟨hi, _, a1, a2⟩ := (h.iff i j).1 h1
  obtain ⟨_, hk, b1, b2⟩ := (h.iff j k).1 h2
  exact (h.iff i k).2 ⟨hi, hk, a1.trans b1, b2.trans a2⟩

theorem hadj : ∀ a b, adj a b = true → b < n := fun a b hab => (h.adj_lt a b hab).2

end IsMutual

section
variable {adj mu : Nat → Nat → Bool} {n : Nat}

theorem mem_comp {a j : Nat} : j ∈ comp mu n a ↔ j < n ∧ mu a j = true := by
  simp [comp, List.mem_filter]

theorem mem_reps {a : Nat} : a ∈ reps mu n ↔ a < n ∧ ∀ j < a, mu a j = false := by
  simp [reps, isRep, List.mem_filter, List.all_eq_true]

theorem reps_nodup : (reps mu n).Nodup := List.Nodup.filter _ List.nodup_range

theorem comp_nodup (a : Nat) : (comp mu n a).Nodup := List.Nodup.filter _ List.nodup_range

theorem exists_rep (h : IsMutual adj mu n) {i : Nat} (hi : i < n) :
    ∃ a ∈ reps mu n, mu a i = true := by
  induction i using Nat.strong_induction_on with
  | _ i ih =>
    by_cases hr : ∀ j < i, mu i j = false
    · exact ⟨i, mem_reps.2 ⟨hi, hr⟩, h.refl hi⟩
    · simp only [not_forall] at hr
      obtain ⟨j, hj, hij⟩ := hr
      have hij : mu i j = true := by simpa using hij
      obtain ⟨a, ha, haj⟩ := ih j hj (h.lt_right hij)
      exact ⟨a, ha, h.trans haj (h.symm hij)⟩

theorem rep_unique (h : IsMutual adj mu n) {a a' i : Nat} (ha : a ∈ reps mu n)
    (ha' : a' ∈ reps mu n) (h1 : mu a i = true) (h2 : mu a' i = true) : a = a' := by
  have haa' : mu a a' = true := h.trans h1 (h.symm h2)
  rcases Nat.lt_trichotomy a a' with hlt | heq | hgt
  · have := (mem_reps.1 ha').2 a hlt
    rw [h.symm haa'] at this; simp at this
  · exact heq
  · have := (mem_reps.1 ha).2 a' hgt
    rw [haa'] at this; simp at this

/-- The components partition the nodes. -/
theorem flatMap_comp_perm (h : IsMutual adj mu n) :
    ((reps mu n).flatMap (comp mu n)).Perm (List.range n) := by
  apply (List.perm_ext_iff_of_nodup ?_ List.nodup_range).2
  · intro i
    simp only [List.mem_flatMap, List.mem_range]
    constructor
    · rintro ⟨a, _, hi⟩; exact (mem_comp.1 hi).1
    · intro hi
      obtain ⟨a, ha, hai⟩ := exists_rep h hi
      exact ⟨a, ha, mem_comp.2 ⟨hi, hai⟩⟩
  · rw [List.nodup_flatMap]
    refine ⟨fun a _ => comp_nodup a, ?_⟩
    apply List.Nodup.pairwise_of_forall_ne reps_nodup
    intro a ha b hb hab
    rw [Function.onFun, List.disjoint_left]
    intro i hia hib
    exact hab (rep_unique h ha hb (mem_comp.1 hia).2 (mem_comp.1 hib).2)

theorem cedge_iff {a b : Nat} :
    cedge adj mu n a b = true ↔
      a ≠ b ∧ ∃ i j, mu a i = true ∧ mu b j = true ∧ i < n ∧ j < n ∧ adj i j = true := by
  simp only [cedge, Bool.and_eq_true, bne_iff_ne, ne_eq, List.any_eq_true, mem_comp]
  constructor
  · rintro ⟨hab, i, ⟨hi, hai⟩, j, ⟨hj, hbj⟩, hij⟩
    exact ⟨hab, i, j, hai, hbj, hi, hj, hij⟩
  · rintro ⟨hab, i, j, hai, hbj, hi, hj, hij⟩
    exact ⟨hab, i, ⟨hi, hai⟩, j, ⟨hj, hbj⟩, hij⟩

/-- The rank that makes the condensation acyclic: the number of reachable nodes. -/
def rankOf (adj : Nat → Nat → Bool) (n : Nat) (a : Nat) : Nat :=
  ((List.range n).filter (fun j => reach adj n a j)).length

/-- An edge of the condensation strictly decreases the number of reachable nodes. -/
theorem cedge_rank (h : IsMutual adj mu n) {a b : Nat} (ha : a ∈ reps mu n)
    (hb : b ∈ reps mu n) (hab : cedge adj mu n a b = true) : rankOf adj n b < rankOf adj n a := by
  obtain ⟨hne, i, j, hai, hbj, hi, hj, hij⟩ := cedge_iff.1 hab
  have han : a < n := (mem_reps.1 ha).1
  have hbn : b < n := (mem_reps.1 hb).1
  have hai' := (h.iff a i).1 hai
  have hbj' := (h.iff b j).1 hbj
  have hab' : ReflTransGen (Adj adj) a b :=
    (hai'.2.2.1.trans (ReflTransGen.single hij)).trans hbj'.2.2.2
  -- everything reachable from b is reachable from a
  have hsub : List.Sublist ((List.range n).filter (fun j => reach adj n b j))
      ((List.range n).filter (fun j => reach adj n a j)) := by
    apply List.monotone_filter_right
    intro k hk
    exact (reach_iff h.hadj han k).2 (hab'.trans ((reach_iff h.hadj hbn k).1 hk))
  -- but a is not reachable from b
  have hnot : reach adj n b a = false := by
    by_contra hc
    have hc : reach adj n b a = true := by simpa using hc
    have hba : mu b a = true :=
      (h.iff b a).2 ⟨hbn, han, (reach_iff h.hadj hbn a).1 hc, hab'⟩
    exact hne (rep_unique h ha hb (h.refl han) hba)
  unfold rankOf
  rcases Nat.lt_or_ge ((List.range n).filter (fun j => reach adj n b j)).length
      ((List.range n).filter (fun j => reach adj n a j)).length with hlt | hge
  · exact hlt
  · exfalso
    have heq := hsub.eq_of_length_le hge
    have hmem : a ∈ (List.range n).filter (fun j => reach adj n a j) := by
      simp [List.mem_filter, han, reach_refl]
    rw [← heq] at hmem
    simp [List.mem_filter, hnot] at hmem

/-! ### The stages -/

theorem stagesOf_flatten_perm (h : IsMutual adj mu n) :
    (stagesOf adj mu n).flatten.Perm (reps mu n) := by
  unfold stagesOf
  have hp := peel_perm (r := cedge adj mu n) (rankOf adj n) (reps mu n).length (reps mu n)
    (fun a ha b hb hab => cedge_rank h ha hb hab) (Nat.le_refl _)
  exact ((List.reverse_perm _).flatten).trans hp

theorem sequenceOf_flatten (adj mu : Nat → Nat → Bool) (n : Nat) :
    (sequenceOf adj mu n).flatten = (stagesOf adj mu n).flatten.map (comp mu n) := by
  unfold sequenceOf
  rw [List.map_flatten]

/-- `each_once` (generic graph): the flattened sequence is a permutation of the nodes. -/
theorem sequenceOf_perm (h : IsMutual adj mu n) :
    (sequenceOf adj mu n).flatten.flatten.Perm (List.range n) := by
  rw [sequenceOf_flatten, ← List.flatMap_def]
  exact ((stagesOf_flatten_perm h).flatMap_right _).trans (flatMap_comp_perm h)

theorem mem_sequenceOf_flatten {g : List Nat} :
    g ∈ (sequenceOf adj mu n).flatten ↔ ∃ a ∈ (stagesOf adj mu n).flatten, g = comp mu n a := by
  rw [sequenceOf_flatten, List.mem_map]
  constructor
  · rintro ⟨a, ha, rfl⟩; exact ⟨a, ha, rfl⟩
  · rintro ⟨a, ha, rfl⟩; exact ⟨a, ha, rfl⟩

/-- `groups_are_sccs`, first half: a group is exactly a class of mutual reachability. -/
theorem group_is_class (h : IsMutual adj mu n) {g : List Nat}
    (hg : g ∈ (sequenceOf adj mu n).flatten) {i : Nat} (hi : i ∈ g) (j : Nat) :
    j ∈ g ↔ mu i j = true := by
  obtain ⟨a, _, rfl⟩ := mem_sequenceOf_flatten.1 hg
  have hai := (mem_comp.1 hi).2
  rw [mem_comp]
  constructor
  · rintro ⟨_, haj⟩; exact h.trans (h.symm hai) haj
  · intro hij; exact ⟨h.lt_right hij, h.trans hai hij⟩

/-- `groups_are_sccs`, second half: every node is in a group. -/
theorem exists_group (h : IsMutual adj mu n) {i : Nat} (hi : i < n) :
    ∃ g ∈ (sequenceOf adj mu n).flatten, i ∈ g := by
  have := (sequenceOf_perm h).mem_iff.2 (List.mem_range.2 hi)
  simpa [List.mem_flatten] using this

/-- Two nodes share a group iff they are mutually reachable. -/
theorem share_group_iff (h : IsMutual adj mu n) {i j : Nat} (hi : i < n) :
    (∃ g ∈ (sequenceOf adj mu n).flatten, i ∈ g ∧ j ∈ g) ↔ mu i j = true := by
  constructor
  · rintro ⟨g, hg, hig, hjg⟩; exact (group_is_class h hg hig j).1 hjg
  · intro hij
    obtain ⟨g, hg, hig⟩ := exists_group h hi
    exact ⟨g, hg, hig, (group_is_class h hg hig j).2 hij⟩

/-- Two groups of the sequence with mutually reachable members are the same group. -/
theorem group_eq_of_mutual (h : IsMutual adj mu n) {g g' : List Nat}
    (hg : g ∈ (sequenceOf adj mu n).flatten) (hg' : g' ∈ (sequenceOf adj mu n).flatten)
    {i j : Nat} (hi : i ∈ g) (hj : j ∈ g') (hij : mu i j = true) : g = g' := by
  obtain ⟨a, ha, rfl⟩ := mem_sequenceOf_flatten.1 hg
  obtain ⟨b, hb, rfl⟩ := mem_sequenceOf_flatten.1 hg'
  have har : a ∈ reps mu n := (stagesOf_flatten_perm h).mem_iff.1 ha
  have hbr : b ∈ reps mu n := (stagesOf_flatten_perm h).mem_iff.1 hb
  have : a = b := rep_unique h har hbr (h.trans (mem_comp.1 hi).2 hij) (mem_comp.1 hj).2
  rw [this]

/-- The members of a group are listed in increasing (listing) order, without repetition. -/
theorem group_sorted {g : List Nat} (hg : g ∈ (sequenceOf adj mu n).flatten) :
    g.Pairwise (· < ·) := by
  obtain ⟨a, _, rfl⟩ := mem_sequenceOf_flatten.1 hg
  exact List.Pairwise.filter _ List.pairwise_lt_range

theorem stage_mem_reps (h : IsMutual adj mu n) {st : List Nat} (hst : st ∈ stagesOf adj mu n)
    {a : Nat} (ha : a ∈ st) : a ∈ reps mu n :=
  (stagesOf_flatten_perm h).mem_iff.1 (List.mem_flatten.2 ⟨st, hst, ha⟩)

/-- Between two different groups of the sequence, a member edge is an edge of the condensation. -/
theorem cedge_of_adj (h : IsMutual adj mu n) {a b i j : Nat} (hi : i ∈ comp mu n a) (hj : j ∈ comp mu n b) (hij : adj i j = true)
    (hne : mu i j = false) : cedge adj mu n a b = true := by
  refine cedge_iff.2 ⟨?_, i, j, (mem_comp.1 hi).2, (mem_comp.1 hj).2, (mem_comp.1 hi).1,
    (mem_comp.1 hj).1, hij⟩
  rintro rfl
  have := h.trans (h.symm (mem_comp.1 hi).2) (mem_comp.1 hj).2
  rw [this] at hne; simp at hne

/-- `producers_strictly_before` (generic graph): an edge between two different groups goes from
    a strictly earlier stage to a strictly later one. -/
theorem stage_lt_of_adj (h : IsMutual adj mu n) {s t : Nat}
    (hs : s < (sequenceOf adj mu n).length) (ht : t < (sequenceOf adj mu n).length)
    {g g' : List Nat} (hg : g ∈ (sequenceOf adj mu n)[s]) (hg' : g' ∈ (sequenceOf adj mu n)[t])
    {i j : Nat} (hi : i ∈ g) (hj : j ∈ g') (hij : adj i j = true) (hne : mu i j = false) :
    s < t := by
  have hlen : (sequenceOf adj mu n).length = (stagesOf adj mu n).length := by
    simp [sequenceOf]
  have hs' : s < (stagesOf adj mu n).length := hlen ▸ hs
  have ht' : t < (stagesOf adj mu n).length := hlen ▸ ht
  have e1 : (sequenceOf adj mu n)[s] = ((stagesOf adj mu n)[s]).map (comp mu n) := by
    simp [sequenceOf]
  have e2 : (sequenceOf adj mu n)[t] = ((stagesOf adj mu n)[t]).map (comp mu n) := by
    simp [sequenceOf]
  rw [e1, List.mem_map] at hg
  rw [e2, List.mem_map] at hg'
  obtain ⟨a, ha, rfl⟩ := hg
  obtain ⟨b, hb, rfl⟩ := hg'
  have hsa : (stagesOf adj mu n)[s] ∈ stagesOf adj mu n := List.getElem_mem hs'
  have htb : (stagesOf adj mu n)[t] ∈ stagesOf adj mu n := List.getElem_mem ht'
  have hce : cedge adj mu n a b = true :=
    cedge_of_adj h hi hj hij hne
  -- the stages are the reversed peeling rounds
  have hpw : (stagesOf adj mu n).Pairwise
      (fun s t => ∀ x ∈ s, ∀ y ∈ t, cedge adj mu n y x = false) := by
    unfold stagesOf
    rw [List.pairwise_reverse]
    exact (peel_pairwise (r := cedge adj mu n) _ _).imp (fun hab x hx y hy => hab y hy x hx)
  rcases Nat.lt_trichotomy s t with hlt | heq | hgt
  · exact hlt
  · exfalso
    subst heq
    have hind := peel_stage_indep (r := cedge adj mu n) (reps mu n).length (reps mu n)
      ((stagesOf adj mu n)[s]) (by
        have : (stagesOf adj mu n)[s] ∈ (stagesOf adj mu n) := hsa
        unfold stagesOf at this ⊢
        exact List.mem_reverse.1 this) a ha b hb
    rw [hind] at hce; simp at hce
  · exfalso
    have := (List.pairwise_iff_getElem.1 hpw) t s ht' hs' hgt b hb a ha
    rw [this] at hce; simp at hce

/-- `same_stage_independent` (generic graph): no edge between two different groups of a stage. -/
theorem same_stage_no_adj (h : IsMutual adj mu n) {s : Nat}
    (hs : s < (sequenceOf adj mu n).length) {g g' : List Nat}
    (hg : g ∈ (sequenceOf adj mu n)[s]) (hg' : g' ∈ (sequenceOf adj mu n)[s])
    {i j : Nat} (hi : i ∈ g) (hj : j ∈ g') (hne : mu i j = false) : adj i j = false := by
  by_contra hc
  have hc : adj i j = true := by simpa using hc
  have := stage_lt_of_adj h hs hs hg hg' hi hj hc hne
  omega

/-- No stage and no group of the sequence is empty. -/
theorem stage_ne_nil {st : List (List Nat)} (hst : st ∈ sequenceOf adj mu n) : st ≠ [] := by
  unfold sequenceOf at hst
  obtain ⟨s, hs, rfl⟩ := List.mem_map.1 hst
  unfold stagesOf at hs
  have := peel_stage_ne_nil (r := cedge adj mu n) _ _ s (List.mem_reverse.1 hs)
  simpa using this

theorem group_ne_nil (h : IsMutual adj mu n) {g : List Nat}
    (hg : g ∈ (sequenceOf adj mu n).flatten) : g ≠ [] := by
  obtain ⟨a, ha, rfl⟩ := mem_sequenceOf_flatten.1 hg
  have har : a ∈ reps mu n := (stagesOf_flatten_perm h).mem_iff.1 ha
  have han := (mem_reps.1 har).1
  exact List.ne_nil_of_mem (mem_comp.2 ⟨han, h.refl han⟩)

/-- The groups of the sequence are pairwise different (as lists). -/
theorem sequenceOf_flatten_nodup (h : IsMutual adj mu n) :
    (sequenceOf adj mu n).flatten.Nodup := by
  rw [sequenceOf_flatten]
  have hnd : (stagesOf adj mu n).flatten.Nodup :=
    (stagesOf_flatten_perm h).nodup_iff.2 reps_nodup
  apply List.Nodup.map_on ?_ hnd
  intro a ha b hb hab
  have har : a ∈ reps mu n := (stagesOf_flatten_perm h).mem_iff.1 ha
  have hbr : b ∈ reps mu n := (stagesOf_flatten_perm h).mem_iff.1 hb
  have han := (mem_reps.1 har).1
  have : a ∈ comp mu n b := by rw [← hab]; exact mem_comp.2 ⟨han, h.refl han⟩
  exact rep_unique h har hbr (h.refl han) (mem_comp.1 this).2

/-- Members of two different groups are not mutually reachable. -/
theorem not_mutual_of_ne (h : IsMutual adj mu n) {g g' : List Nat}
    (hg : g ∈ (sequenceOf adj mu n).flatten) (hg' : g' ∈ (sequenceOf adj mu n).flatten)
    {i j : Nat} (hi : i ∈ g) (hj : j ∈ g') (hne : g ≠ g') : mu i j = false := by
  by_contra hc
  exact hne (group_eq_of_mutual h hg hg' hi hj (by simpa using hc))

/-- Two different groups of the sequence have no common member. -/
theorem groups_disjoint_of_ne (h : IsMutual adj mu n) {g g' : List Nat}
    (hg : g ∈ (sequenceOf adj mu n).flatten) (hg' : g' ∈ (sequenceOf adj mu n).flatten)
    (hne : g ≠ g') : ∀ i ∈ g, i ∉ g' := by
  intro i hi hi'
  exact hne (group_eq_of_mutual h hg hg' hi hi' ((group_is_class h hg hi i).1 hi))

/-- The flattened sequence is a topological order of the groups: no edge goes from a group to a
    group listed before it. -/
theorem sequenceOf_topological (h : IsMutual adj mu n) :
    (sequenceOf adj mu n).flatten.Pairwise (fun b c => ∀ j ∈ b, ∀ i ∈ c, adj i j = false) := by
  have hnd := sequenceOf_flatten_nodup h
  rw [List.pairwise_flatten]
  constructor
  · intro st hst
    obtain ⟨s, hs, rfl⟩ := List.getElem_of_mem hst
    have hstnd : ((sequenceOf adj mu n)[s]).Nodup :=
      (List.nodup_flatten.1 hnd).1 _ (List.getElem_mem hs)
    refine List.Pairwise.imp_of_mem ?_ hstnd
    intro b c hb hc hbc j hj i hi
    have hbf : b ∈ (sequenceOf adj mu n).flatten := List.mem_flatten.2 ⟨_, List.getElem_mem hs, hb⟩
    have hcf : c ∈ (sequenceOf adj mu n).flatten := List.mem_flatten.2 ⟨_, List.getElem_mem hs, hc⟩
    exact same_stage_no_adj h hs hc hb hi hj (not_mutual_of_ne h hcf hbf hi hj (Ne.symm hbc))
  · rw [List.pairwise_iff_getElem]
    intro s t hs ht hst b hb c hc j hj i hi
    have hbf : b ∈ (sequenceOf adj mu n).flatten := List.mem_flatten.2 ⟨_, List.getElem_mem hs, hb⟩
    have hcf : c ∈ (sequenceOf adj mu n).flatten := List.mem_flatten.2 ⟨_, List.getElem_mem ht, hc⟩
    have hbc : c ≠ b := by
      rintro rfl
      have hdisj := (List.nodup_flatten.1 hnd).2
      have := (List.pairwise_iff_getElem.1 hdisj) s t hs ht hst
      exact this hb hc
    by_contra hadj
    have := stage_lt_of_adj h ht hs hc hb hi hj (by simpa using hadj)
      (not_mutual_of_ne h hcf hbf hi hj hbc)
    omega

end

/-! ### The instance used by `CouplingStructure`: `sequence ds` -/

theorem edge_lt {ds : List Disc} {i j : Nat} (h : edge ds i j = true) :
    i < ds.length ∧ j < ds.length := by
  unfold edge at h
  split at h
  · rename_i a b ha hb
    exact ⟨(List.getElem?_eq_some_iff.1 ha).1, (List.getElem?_eq_some_iff.1 hb).1⟩
  · simp at h

theorem look_edge (ds : List Disc) : look (mkTab ds.length (edge ds)) = edge ds := by
  funext i j
  rw [look_mkTab]
  by_cases h : edge ds i j = true
  · have := edge_lt h; simp [this.1, this.2, h]
  · have h' : edge ds i j = false := by simpa using h
    simp [h']

theorem sequence_eq (ds : List Disc) :
    sequence ds = sequenceOf (edge ds) (mutualR (edge ds) ds.length) ds.length := by
  unfold sequence
  simp only [look_edge]
  congr 1
  funext i j
  simp only [look_mkReachTab, mutualR]
  by_cases hi : i < ds.length <;> by_cases hj : j < ds.length <;> simp [hi, hj]

theorem isMutual_edge (ds : List Disc) :
    IsMutual (edge ds) (mutualR (edge ds) ds.length) ds.length where
  adj_lt := fun _ _ h => edge_lt h
  iff := fun i j => mutualR_iff (fun _ _ h => (edge_lt h).2) i j

end GV.C08
