/-
C19 — round trips: per-variable inverses (marginal pairs; C02's affine block through the
one-variable design space) and their assembly over the whole parameter space.
-/
import GemseoVerif.Lemmas.C19Space
import GemseoVerif.Props.C02

namespace GV.C19
open GV GV.C02

/-! ### One uncertain variable -/

theorem jointApply_round_trip (env : Env) (inv : Bool) (ms : List MargSpec) (b : List Rat)
    (h : ∀ (k : Nat) (mg : MargSpec) (xi : Rat), ms[k]? = some mg → b[k]? = some xi →
      applyMarg env (!inv) mg (applyMarg env inv mg xi) = xi)
    (hlen : b.length ≤ ms.length) :
    jointApply env (!inv) ms (jointApply env inv ms b) = b := by
  induction b generalizing ms with
  | nil => simp [jointApply]
  | cons x xs ih =>
    cases ms with
    | nil => simp at hlen
    | cons mg ms =>
      simp only [jointApply, List.zipWith_cons_cons]
      rw [h 0 mg x rfl rfl]
      congr 1
      exact ih ms (fun k mg' xi h1 h2 => h (k + 1) mg' xi (by simpa using h1) (by simpa using h2))
        (by simpa using hlen)

theorem jointApply_mem (env : Env) (inv : Bool) (ms : List MargSpec) (b : List Rat) (c : Rat)
    (hc : c ∈ jointApply env inv ms b) :
    ∃ (k : Nat) (mg : MargSpec) (xi : Rat), ms[k]? = some mg ∧ b[k]? = some xi ∧
      c = applyMarg env inv mg xi := by
  unfold jointApply at hc
  obtain ⟨k, hk⟩ := List.getElem?_of_mem hc
  rw [List.getElem?_zipWith] at hk
  cases hb : b[k]? with
  | none => simp [hb] at hk
  | some xi =>
    cases hm : ms[k]? with
    | none => simp [hb, hm] at hk
    | some mg =>
      simp only [hb, hm, Option.map₂_some_some, Option.some.injEq] at hk
      exact ⟨k, mg, xi, hm, hb, hk.symm⟩

/-! ### One deterministic variable: the one-variable design space of C02 -/

def oneVar (intNorm : Bool) (v : Var) : DS := { vars := [v], intNorm := intNorm }

theorem oneVar_wf (b : Bool) (v : Var) (h : v.WF) : (oneVar b v).WF := by
  refine ⟨by simp [oneVar, DS.names], ?_⟩
  intro w hw
  simp only [oneVar, List.mem_singleton] at hw
  subst hw; exact h

theorem oneVar_normalize (b m : Bool) (v : Var) (x : List Rat) :
    (oneVar b v).normalizeVect m x = normBlock b m v x := by
  simp [oneVar, DS.normalizeVect, DS.normMask, DS.flatLb, DS.flatUb, normBlock]

theorem oneVar_unnormalize (b m : Bool) (v : Var) (x : List Rat) :
    (oneVar b v).unnormalizeVect m x = unnormBlock b m v x := by
  simp [oneVar, DS.unnormalizeVect, DS.normMask, DS.flatLb, DS.flatUb, DS.intMask, unnormBlock]

/-- The affine block of a float variable is inverted exactly (C02 `unnormalize_normalize`). -/
theorem unnormBlock_normBlock (b m : Bool) (v : Var) (hwf : v.WF) (hfloat : v.isInt = false)
    (x : List Rat) (hx : x.length = v.size)
    (hcomp : ∀ (k : Nat) (l u xi : Rat), (Var.normMask b v)[k]? = some true →
      v.lb[k]? = some (some l) → v.ub[k]? = some (some u) → x[k]? = some xi →
      l ≠ u ∨ (m = true ∧ xi = l)) :
    unnormBlock b m v (normBlock b m v x) = x := by
  rw [← oneVar_normalize, ← oneVar_unnormalize]
  apply unnormalize_normalize (oneVar b v) (oneVar_wf b v hwf) m x
  · simp [oneVar, DS.dimension, DS.sizes, hx]
  · intro c hc
    simp only [oneVar, DS.intMask, List.flatMap_cons, List.flatMap_nil, List.append_nil,
      List.mem_replicate] at hc
    rw [hc.2, hfloat]
  · intro i l u xi h1 h2 h3 h4
    apply hcomp i l u xi
    · simpa [oneVar, DS.normMask] using h1
    · simpa [oneVar, DS.flatLb] using h2
    · simpa [oneVar, DS.flatUb] using h3
    · exact h4

/-! ### Assembly over the whole space -/

/-- Per-variable hypotheses of the round trip `unnormalize ∘ normalize` at a vector `x`. -/
structure RoundTripHyp (p : PS) (env : Env) (m : Bool) (x : List Rat) : Prop where
  /-- uncertain components: the marginal pair is inverse at the value and the CDF is a probability -/
  rnd : ∀ (i : Nat) (v : Var) (b : List Rat), p.ds.vars[i]? = some v →
    (splitBySizes p.ds.sizes x)[i]? = some b → v.name ∈ p.unc →
    ∀ (k : Nat) (mg : MargSpec) (xi : Rat), (p.margsOf v.name)[k]? = some mg → b[k]? = some xi →
      env.icdf mg (env.cdf mg xi) = xi ∧ 0 ≤ env.cdf mg xi ∧ env.cdf mg xi ≤ 1
  /-- deterministic variables are float and, where normalised, have distinct bounds (or sit on them) -/
  det : ∀ (i : Nat) (v : Var) (b : List Rat), p.ds.vars[i]? = some v →
    (splitBySizes p.ds.sizes x)[i]? = some b → v.name ∉ p.unc →
    v.isInt = false ∧ ∀ (k : Nat) (l u xi : Rat), (Var.normMask p.ds.intNorm v)[k]? = some true →
      v.lb[k]? = some (some l) → v.ub[k]? = some (some u) → b[k]? = some xi →
      l ≠ u ∨ (m = true ∧ xi = l)

theorem normSpec_length (p : PS) (hwf : p.WF) (env : Env) (m : Bool) (x : List Rat)
    (hx : x.length = p.ds.dimension) : (p.normSpec env m x).length = p.ds.dimension := by
  have := blocks_lengths p hwf env false (normBlock p.ds.intNorm m)
    (fun v hv xb hxb => normBlock_length _ _ v (hwf.ds.2 v hv) xb hxb) x hx
  unfold PS.normSpec PS.normBlocks
  rw [List.length_flatten, this]; rfl

theorem unnormSpec_length (p : PS) (hwf : p.WF) (env : Env) (m : Bool) (x : List Rat)
    (hx : x.length = p.ds.dimension) : (p.unnormSpec env m x).length = p.ds.dimension := by
  have := blocks_lengths p hwf env true (unnormBlock p.ds.intNorm m)
    (fun v hv xb hxb => unnormBlock_length _ _ v (hwf.ds.2 v hv) xb hxb) x hx
  unfold PS.unnormSpec PS.unnormBlocks
  rw [List.length_flatten, this]; rfl

theorem split_normSpec (p : PS) (hwf : p.WF) (env : Env) (m : Bool) (x : List Rat)
    (hx : x.length = p.ds.dimension) :
    splitBySizes p.ds.sizes (p.normSpec env m x) = p.normBlocks env m x :=
  splitBySizes_flatten_of _ _ (blocks_lengths p hwf env false (normBlock p.ds.intNorm m)
    (fun v hv xb hxb => normBlock_length _ _ v (hwf.ds.2 v hv) xb hxb) x hx)

/-- `unnormalize_vect(normalize_vect(x))` at the spec level. -/
theorem unnormSpec_normSpec (p : PS) (hwf : p.WF) (env : Env) (m : Bool) (x : List Rat)
    (hx : x.length = p.ds.dimension) (h : RoundTripHyp p env m x) :
    p.unnormSpec env m (p.normSpec env m x) = x := by
  have hsum : p.ds.sizes.sum = x.length := by simpa [DS.dimension] using hx.symm
  have hl : (splitBySizes p.ds.sizes x).length = p.ds.vars.length := by
    rw [splitBySizes_length]; simp [DS.sizes]
  unfold PS.unnormSpec PS.unnormBlocks
  rw [split_normSpec p hwf env m x hx]
  have hblocks : List.zipWith (p.mapVar env true (unnormBlock p.ds.intNorm m)) p.ds.vars
      (p.normBlocks env m x) = splitBySizes p.ds.sizes x := by
    apply List.ext_getElem?
    intro i
    unfold PS.normBlocks
    rw [List.getElem?_zipWith, List.getElem?_zipWith]
    cases hv : p.ds.vars[i]? with
    | none =>
      have : (splitBySizes p.ds.sizes x)[i]? = none := by
        apply List.getElem?_eq_none
        have := List.getElem?_eq_none_iff.mp hv
        omega
      simp [this]
    | some v =>
      have hlt : i < (splitBySizes p.ds.sizes x).length := by
        have := (List.getElem?_eq_some_iff.mp hv).1
        omega
      have hb : (splitBySizes p.ds.sizes x)[i]? = some (splitBySizes p.ds.sizes x)[i] :=
        List.getElem?_eq_getElem hlt
      rw [hb]
      simp only [Option.map₂_some_some, Option.some.injEq]
      generalize (splitBySizes p.ds.sizes x)[i] = b at hb
      have hbl := block_length p.ds x hx i v b hv hb
      have hmem : v ∈ p.ds.vars := List.mem_of_getElem? hv
      unfold PS.mapVar
      by_cases hc : v.name ∈ p.unc
      · have hc' : p.unc.contains v.name = true := by simpa [List.contains_iff_mem] using hc
        simp only [hc', if_true]
        have := jointApply_round_trip env false (p.margsOf v.name) b
          (fun k mg xi h1 h2 => by
            simpa [applyMarg] using (h.rnd i v b hv hb hc k mg xi h1 h2).1)
          (by rw [hwf.margLen v.name hc v hmem rfl, hbl])
        simpa using this
      · have hc' : p.unc.contains v.name = false := by simpa [List.contains_iff_mem] using hc
        simp only [hc', Bool.false_eq_true, if_false]
        obtain ⟨hf, hcomp⟩ := h.det i v b hv hb hc
        exact unnormBlock_normBlock _ m v (hwf.ds.2 v hmem) hf b hbl hcomp
  rw [hblocks]
  exact flatten_splitBySizes _ _ hsum

/-- The CDF values of the uncertain components of `normSpec x` are probabilities. -/
theorem normSpec_unit (p : PS) (hwf : p.WF) (env : Env) (m : Bool) (x : List Rat)
    (hx : x.length = p.ds.dimension) (h : RoundTripHyp p env m x) :
    p.checkUnit (p.ds.names.zip (splitBySizes p.ds.sizes (p.normSpec env m x))) = true := by
  apply checkUnit_of p hwf _ (normSpec_length p hwf env m x hx)
  intro i v b hv hb hc c hcb
  rw [split_normSpec p hwf env m x hx] at hb
  unfold PS.normBlocks at hb
  rw [List.getElem?_zipWith, hv] at hb
  cases hx' : (splitBySizes p.ds.sizes x)[i]? with
  | none => simp [hx'] at hb
  | some xb =>
    simp only [hx', Option.map₂_some_some, Option.some.injEq] at hb
    have hc' : p.unc.contains v.name = true := by simpa [List.contains_iff_mem] using hc
    unfold PS.mapVar at hb
    simp only [hc', if_true] at hb
    subst hb
    obtain ⟨k, mg, xi, h1, h2, h3⟩ := jointApply_mem env false _ _ c hcb
    have := (h.rnd i v xb hv hx' hc k mg xi h1 h2).2
    subst h3
    simpa [applyMarg] using this

end GV.C19
