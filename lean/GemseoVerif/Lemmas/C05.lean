/-
Helper lemmas for C05: cells and heap independence, `cmp`, the hash-bucket search, the
`ensure`/`store` operations of the full caches and of `SimpleCache`, and the consistency
invariant of the caches.
-/
import GemseoVerif.Model.C05
import Mathlib.Tactic.Ring
import Mathlib.Tactic.Linarith
import Mathlib.Tactic.Positivity
import Mathlib.Algebra.Order.Ring.Rat

namespace GV.C05

/-! ### Cells -/

def Cell.isVal : Cell → Bool
  | .val _ => true
  | .ref _ => false

/-- Every cell is a private copy. -/
def AllVal (cs : List Cell) : Prop := ∀ c ∈ cs, c.isVal = true

/-- The values of private cells (no heap needed). -/
def vals (cs : List Cell) : Vals := derefs [] cs

theorem allVal_nil : AllVal [] := by intro c hc; cases hc

theorem allVal_map_val (vs : Vals) : AllVal (vs.map Cell.val) := by
  intro c hc
  obtain ⟨v, _, rfl⟩ := List.mem_map.mp hc
  rfl

theorem vals_map_val (vs : Vals) : vals (vs.map Cell.val) = vs := by
  unfold vals derefs
  induction vs with
  | nil => rfl
  | cons v vs ih => simpa [deref] using ih

theorem derefs_eq_vals (heap : List Arr) (cs : List Cell) (h : AllVal cs) :
    derefs heap cs = vals cs := by
  unfold vals derefs
  induction cs with
  | nil => rfl
  | cons c cs ih =>
    have hc : c.isVal = true := h c (by simp)
    have hcs : AllVal cs := fun c' hc' => h c' (by simp [hc'])
    cases c with
    | val v => simp [deref, ih hcs]
    | ref a => cases hc

/-! ### `cmp` -/

theorem cmp_zero_iff (x w : Vals) : cmp 0 x w = true ↔ x = w := by
  simp [cmp]

theorem sumSq_nonneg (v : Arr) : 0 ≤ sumSq v := by
  induction v with
  | nil => simp [sumSq]
  | cons a t ih =>
    simp only [sumSq]
    have : 0 ≤ a * a := mul_self_nonneg a
    linarith

theorem sumSq_subArr_self (a : Arr) : sumSq (subArr a a) = 0 := by
  induction a with
  | nil => simp [subArr, sumSq]
  | cons c cs ih => simp [subArr, sumSq, ih]

theorem withinArr_refl (t : Rat) (a : Arr) : withinArr t a a = true := by
  have h : (0 : Rat) ≤ t * t := mul_self_nonneg t
  simp [withinArr, sumSq_subArr_self, h]

theorem withinVals_refl (t : Rat) (x : Vals) : withinVals t x x = true := by
  induction x with
  | nil => rfl
  | cons a as ih => simp [withinVals, withinArr_refl, ih]

/-- Every input matches itself, whatever the tolerance. -/
theorem cmp_refl (t : Rat) (x : Vals) : cmp t x x = true := by
  unfold cmp
  split
  · simp
  · exact withinVals_refl t x

/-! ### Bucket search -/

theorem entry?_mem {f : Full} {i : Nat} {e : Entry} (h : f.entry? i = some e) : e ∈ f.entries := by
  unfold Full.entry? at h
  split at h
  · cases h
  · exact List.mem_of_getElem? h

theorem findIdx_some {heap : List Arr} {f : Full} {t : Rat} {x : Vals} {idxs : List Nat} {i : Nat}
    (h : findIdx heap f t x idxs = some i) :
    i ∈ idxs ∧ ∃ e, f.entry? i = some e ∧ cmp t x (derefs heap e.inputs) = true := by
  unfold findIdx at h
  have hp := List.find?_some h
  have hm := List.mem_of_find?_eq_some h
  refine ⟨hm, ?_⟩
  cases he : f.entry? i with
  | none => simp [he] at hp
  | some e => exact ⟨e, rfl, by simpa [he] using hp⟩

/-- A lookup that answers designates an entry whose inputs match `x` with the cache tolerance. -/
theorem lookup_some {heap : List Arr} {f : Full} {t : Rat} {x : Vals} {h i : Nat}
    (hl : f.lookup heap t x h = some i) :
    ∃ e, f.entry? i = some e ∧ cmp t x (derefs heap e.inputs) = true := by
  unfold Full.lookup at hl
  split at hl
  · rename_i ht
    subst ht
    cases hi : lookupIdx f.index h with
    | none => simp [hi] at hl
    | some idxs =>
      simp only [hi] at hl
      exact (findIdx_some hl).2
  · exact (findIdx_some hl).2

/-! ### Consistency of the stored entries -/

/-- An entry is consistent with the body `d`: its cells are private copies, its outputs are the
    outputs of its inputs, its Jacobian blocks are blocks of the Jacobian at its inputs, and its
    inputs were really seen by the body (ghost logs). -/
structure EntryOK (d : Disc) (rl jl : List Vals) (e : Entry) : Prop where
  inVal : AllVal e.inputs
  outOK : ∀ oc, e.outputs = some oc →
    AllVal oc ∧ vals oc = d.run (vals e.inputs) ∧ vals e.inputs ∈ rl
  jacOK : ∀ j, e.jac = some j → (∀ kb ∈ j, kb ∈ d.jacf (vals e.inputs)) ∧ vals e.inputs ∈ jl

def FullOK (d : Disc) (rl jl : List Vals) (f : Full) : Prop := ∀ e ∈ f.entries, EntryOK d rl jl e

structure SimpleOK (d : Disc) (rl jl : List Vals) (s : Simple) : Prop where
  inVal : AllVal s.inputs
  outVal : AllVal s.outputs
  outOK : s.outputs ≠ [] → vals s.outputs = d.run (vals s.inputs) ∧ vals s.inputs ∈ rl
  jacOK : s.jac ≠ [] → (∀ kb ∈ s.jac, kb ∈ d.jacf (vals s.inputs)) ∧ vals s.inputs ∈ jl

theorem EntryOK.mono {d : Disc} {rl jl rl' jl' : List Vals} {e : Entry} (h : EntryOK d rl jl e)
    (hr : ∀ x ∈ rl, x ∈ rl') (hj : ∀ x ∈ jl, x ∈ jl') : EntryOK d rl' jl' e :=
  ⟨h.inVal,
   fun oc ho => ⟨(h.outOK oc ho).1, (h.outOK oc ho).2.1, hr _ (h.outOK oc ho).2.2⟩,
   fun j hjj => ⟨(h.jacOK j hjj).1, hj _ (h.jacOK j hjj).2⟩⟩

theorem FullOK.mono {d : Disc} {rl jl rl' jl' : List Vals} {f : Full} (h : FullOK d rl jl f)
    (hr : ∀ x ∈ rl, x ∈ rl') (hj : ∀ x ∈ jl, x ∈ jl') : FullOK d rl' jl' f :=
  fun e he => (h e he).mono hr hj

theorem SimpleOK.mono {d : Disc} {rl jl rl' jl' : List Vals} {s : Simple} (h : SimpleOK d rl jl s)
    (hr : ∀ x ∈ rl, x ∈ rl') (hj : ∀ x ∈ jl, x ∈ jl') : SimpleOK d rl' jl' s :=
  ⟨h.inVal, h.outVal, fun ho => ⟨(h.outOK ho).1, hr _ (h.outOK ho).2⟩,
   fun hjj => ⟨(h.jacOK hjj).1, hj _ (h.jacOK hjj).2⟩⟩

theorem fullOK_empty (d : Disc) (rl jl : List Vals) : FullOK d rl jl {} := by
  intro e he; cases he

theorem simpleOK_empty (d : Disc) (rl jl : List Vals) : SimpleOK d rl jl {} :=
  ⟨allVal_nil, allVal_nil, fun h => absurd rfl h, fun h => absurd rfl h⟩

/-! ### `ensure` -/

theorem ensure_new {heap : List Arr} {f : Full} {x : Vals} {h : Nat} {xc : List Cell}
    (hn : (f.ensure heap x h xc).2 = true) :
    (f.ensure heap x h xc).1.entries = f.entries ++ [⟨xc, none, none, h⟩] ∧
    (f.ensure heap x h xc).1.last = f.entries.length + 1 := by
  unfold Full.ensure at hn ⊢
  cases hi : lookupIdx f.index h with
  | none => simp [hi]
  | some idxs =>
    simp only [hi] at hn ⊢
    cases hf : findIdx heap f 0 x idxs with
    | none => simp [hf]
    | some i => simp [hf] at hn

theorem ensure_old {heap : List Arr} {f : Full} {x : Vals} {h : Nat} {xc : List Cell}
    (hn : (f.ensure heap x h xc).2 = false) :
    (f.ensure heap x h xc).1.entries = f.entries ∧
    ∃ e, f.entry? (f.ensure heap x h xc).1.last = some e ∧
      cmp 0 x (derefs heap e.inputs) = true := by
  unfold Full.ensure at hn ⊢
  cases hi : lookupIdx f.index h with
  | none => simp [hi] at hn
  | some idxs =>
    simp only [hi] at hn ⊢
    cases hf : findIdx heap f 0 x idxs with
    | none => simp [hf] at hn
    | some i =>
      simp only [hf]
      exact ⟨by trivial, by simpa using (findIdx_some hf).2⟩

theorem entry?_append_last (es : List Entry) (e : Entry) (f : Full)
    (hf : f.entries = es ++ [e]) : f.entry? (es.length + 1) = some e := by
  unfold Full.entry?
  simp [hf]

theorem mem_modifyEntry {f : Full} {i : Nat} {g : Entry → Entry} {e' : Entry}
    (h : e' ∈ (f.modifyEntry i g).entries) :
    e' ∈ f.entries ∨ ∃ e, f.entry? i = some e ∧ e' = g e := by
  unfold Full.modifyEntry at h
  cases he : f.entry? i with
  | none => simp [he] at h; exact Or.inl h
  | some e =>
    simp only [he] at h
    rcases List.mem_or_eq_of_mem_set h with h | h
    · exact Or.inl h
    · exact Or.inr ⟨e, rfl, h⟩

theorem entry?_same_entries {f g : Full} (h : f.entries = g.entries) (i : Nat) :
    f.entry? i = g.entry? i := by
  unfold Full.entry?; rw [h]

/-- `cache_outputs` keeps every entry consistent, provided what is stored is a private copy of
    `x` and of the outputs of the body at `x`. -/
theorem storeOutputs_ok {d : Disc} {rl jl : List Vals} {heap : List Arr} {f : Full} {x : Vals}
    {h : Nat} {xc oc : List Cell} (hf : FullOK d rl jl f)
    (hxc : AllVal xc) (hxv : vals xc = x) (hoc : AllVal oc) (hov : vals oc = d.run x)
    (hx : x ∈ rl) : FullOK d rl jl (f.storeOutputs heap x h xc oc) := by
  unfold Full.storeOutputs
  have fresh_ok : EntryOK d rl jl ⟨xc, none, none, h⟩ :=
    ⟨hxc, (fun _ ho => by cases ho), (fun _ hj => by cases hj)⟩
  cases hn : (f.ensure heap x h xc).2 with
  | true =>
    obtain ⟨hent, hlast⟩ := ensure_new hn
    have hf1 : FullOK d rl jl (f.ensure heap x h xc).1 := by
      intro e he
      rw [hent] at he
      rcases List.mem_append.mp he with he | he
      · exact hf e he
      · simp at he; subst he; exact fresh_ok
    simp only [Bool.not_true, Bool.false_and, Bool.false_eq_true, if_false]
    intro e' he'
    rcases mem_modifyEntry he' with he' | ⟨e, hee, rfl⟩
    · exact hf1 e' he'
    · rw [hlast, entry?_append_last f.entries _ _ hent] at hee
      cases hee
      exact ⟨hxc,
        (fun oc' ho => by
          cases ho; exact ⟨hoc, by simpa [hxv] using hov, by simpa [hxv] using hx⟩),
        (fun _ hj => by cases hj)⟩
  | false =>
    obtain ⟨hent, e0, he0, hcmp⟩ := ensure_old hn
    have hf1 : FullOK d rl jl (f.ensure heap x h xc).1 := by
      intro e he; rw [hent] at he; exact hf e he
    simp only [Bool.not_false, Bool.true_and]
    suffices hs : ∀ b : Bool, FullOK d rl jl (if b = true then (f.ensure heap x h xc).1 else
        (f.ensure heap x h xc).1.modifyEntry (f.ensure heap x h xc).1.last
          (fun e => { e with outputs := some oc })) from hs _
    intro b
    cases b with
    | true => simpa using hf1
    | false =>
      simp only [Bool.false_eq_true, if_false]
      intro e' he'
      rcases mem_modifyEntry he' with he' | ⟨e, hee, rfl⟩
      · exact hf1 e' he'
      · rw [entry?_same_entries hent] at hee
        rw [he0] at hee; cases hee
        have hok := hf e0 (entry?_mem he0)
        have hx0 : x = vals e0.inputs := by
          rw [derefs_eq_vals heap _ hok.inVal] at hcmp
          exact (cmp_zero_iff _ _).mp hcmp
        exact ⟨hok.inVal,
          (fun oc' ho => by
            cases ho; exact ⟨hoc, by rw [← hx0]; exact hov, by rw [← hx0]; exact hx⟩),
          hok.jacOK⟩

/-- `cache_jacobian` keeps every entry consistent. -/
theorem storeJac_ok {d : Disc} {rl jl : List Vals} {heap : List Arr} {f : Full} {x : Vals}
    {h : Nat} {xc : List Cell} {j : Jac} (hf : FullOK d rl jl f)
    (hxc : AllVal xc) (hxv : vals xc = x) (hj : ∀ kb ∈ j, kb ∈ d.jacf x)
    (hx : x ∈ jl) : FullOK d rl jl (f.storeJac heap x h xc j) := by
  unfold Full.storeJac
  have fresh_ok : EntryOK d rl jl ⟨xc, none, none, h⟩ :=
    ⟨hxc, (fun _ ho => by cases ho), (fun _ hj => by cases hj)⟩
  cases hn : (f.ensure heap x h xc).2 with
  | true =>
    obtain ⟨hent, hlast⟩ := ensure_new hn
    have hf1 : FullOK d rl jl (f.ensure heap x h xc).1 := by
      intro e he
      rw [hent] at he
      rcases List.mem_append.mp he with he | he
      · exact hf e he
      · simp at he; subst he; exact fresh_ok
    simp only [Bool.not_true, Bool.false_and, Bool.false_eq_true, if_false]
    intro e' he'
    rcases mem_modifyEntry he' with he' | ⟨e, hee, rfl⟩
    · exact hf1 e' he'
    · rw [hlast, entry?_append_last f.entries _ _ hent] at hee
      cases hee
      exact ⟨hxc, (fun _ ho => by cases ho),
        (fun j' hj' => by
          cases hj'; exact ⟨by simpa [hxv] using hj, by simpa [hxv] using hx⟩)⟩
  | false =>
    obtain ⟨hent, e0, he0, hcmp⟩ := ensure_old hn
    have hf1 : FullOK d rl jl (f.ensure heap x h xc).1 := by
      intro e he; rw [hent] at he; exact hf e he
    simp only [Bool.not_false, Bool.true_and]
    suffices hs : ∀ b : Bool, FullOK d rl jl (if b = true then (f.ensure heap x h xc).1 else
        (f.ensure heap x h xc).1.modifyEntry (f.ensure heap x h xc).1.last
          (fun e => { e with jac := some j })) from hs _
    intro b
    cases b with
    | true => simpa using hf1
    | false =>
      simp only [Bool.false_eq_true, if_false]
      intro e' he'
      rcases mem_modifyEntry he' with he' | ⟨e, hee, rfl⟩
      · exact hf1 e' he'
      · rw [entry?_same_entries hent] at hee
        rw [he0] at hee; cases hee
        have hok := hf e0 (entry?_mem he0)
        have hx0 : x = vals e0.inputs := by
          rw [derefs_eq_vals heap _ hok.inVal] at hcmp
          exact (cmp_zero_iff _ _).mp hcmp
        exact ⟨hok.inVal, hok.outOK,
          (fun j' hj' => by
            cases hj'; exact ⟨by rw [← hx0]; exact hj, by rw [← hx0]; exact hx⟩)⟩

/-! ### `SimpleCache` -/

theorem isCached_zero {heap : List Arr} {s : Simple} {x : Vals} (hs : AllVal s.inputs)
    (h : s.isCached heap 0 x = true) : x = vals s.inputs := by
  unfold Simple.isCached at h
  simp only [Bool.and_eq_true] at h
  rw [derefs_eq_vals heap _ hs] at h
  exact (cmp_zero_iff _ _).mp h.2

theorem simple_storeOutputs_ok {d : Disc} {rl jl : List Vals} {heap : List Arr} {s : Simple}
    {x : Vals} {xc oc : List Cell} (hs : SimpleOK d rl jl s)
    (hxc : AllVal xc) (hxv : vals xc = x) (hoc : AllVal oc) (hov : vals oc = d.run x)
    (hx : x ∈ rl) : SimpleOK d rl jl (s.storeOutputs heap x xc oc) := by
  unfold Simple.storeOutputs
  split
  · rename_i hc
    have hx0 := isCached_zero hs.inVal hc
    split
    · exact ⟨hs.inVal, hoc, fun _ => ⟨by rw [← hx0]; exact hov, by rw [← hx0]; exact hx⟩, hs.jacOK⟩
    · exact hs
  · exact ⟨hxc, hoc, fun _ => ⟨by simpa [hxv] using hov, by simpa [hxv] using hx⟩,
      fun h => absurd rfl h⟩

theorem simple_storeJac_ok {d : Disc} {rl jl : List Vals} {heap : List Arr} {s : Simple}
    {x : Vals} {xc : List Cell} {j : Jac} (hs : SimpleOK d rl jl s)
    (hxc : AllVal xc) (hxv : vals xc = x) (hj : ∀ kb ∈ j, kb ∈ d.jacf x)
    (hx : x ∈ jl) : SimpleOK d rl jl (s.storeJac heap x xc j) := by
  unfold Simple.storeJac
  split
  · rename_i hc
    have hx0 := isCached_zero hs.inVal hc
    split
    · exact ⟨hs.inVal, hs.outVal, hs.outOK,
        fun _ => ⟨by rw [← hx0]; exact hj, by rw [← hx0]; exact hx⟩⟩
    · exact hs
  · exact ⟨hxc, allVal_nil, fun h => absurd rfl h,
      fun _ => ⟨by simpa [hxv] using hj, by simpa [hxv] using hx⟩⟩

/-! ### The state invariant -/

/-- Every stored entry is a consistent private copy (w.r.t. the ghost logs of the state). -/
structure Inv (d : Disc) (st : State) : Prop where
  simple : SimpleOK d st.runLog st.jacLog st.simple
  full : FullOK d st.runLog st.jacLog st.full

theorem inv_init (d : Disc) : Inv d {} := ⟨simpleOK_empty _ _ _, fullOK_empty _ _ _⟩

theorem Inv.of_eq {d : Disc} {st st' : State} (h : Inv d st) (h1 : st'.simple = st.simple)
    (h2 : st'.full = st.full) (h3 : st'.runLog = st.runLog) (h4 : st'.jacLog = st.jacLog) :
    Inv d st' := by
  constructor
  · rw [h1, h3, h4]; exact h.simple
  · rw [h2, h3, h4]; exact h.full

theorem Inv.mono {d : Disc} {st st' : State} (h : Inv d st) (h1 : st'.simple = st.simple)
    (h2 : st'.full = st.full) (h3 : ∀ x ∈ st.runLog, x ∈ st'.runLog)
    (h4 : ∀ x ∈ st.jacLog, x ∈ st'.jacLog) : Inv d st' := by
  constructor
  · rw [h1]; exact h.simple.mono h3 h4
  · rw [h2]; exact h.full.mono h3 h4

theorem cow_byRef {cfg : Cfg} (hcow : cfg.cow = true) : cfg.byRef = false := by
  unfold Cfg.cow at hcow
  simp only [Bool.and_eq_true, Bool.not_eq_true'] at hcow
  exact hcow.1

theorem cow_snap {cfg : Cfg} (hcow : cfg.cow = true) : (cfg.pol.snap == Snap.pre) = true := by
  unfold Cfg.cow at hcow
  simp only [Bool.and_eq_true] at hcow
  exact hcow.2

/-- Under the copying policy the cell of an input is a private copy of the value `v` the array had
    when the discipline was called, whatever the body wrote into the array since (`heap`). -/
theorem inputCell_val {cfg : Cfg} (hcow : cfg.cow = true) (p : Bool) (heap : List Arr) (n : Name)
    (v : Arr) (a : Option Nat) : inputCell cfg p heap n v a = Cell.val v := by
  cases a with
  | none => rfl
  | some a =>
    cases p <;> simp [inputCell, cow_byRef hcow, cow_snap hcow]

theorem inputCellsAux_val {cfg : Cfg} (hcow : cfg.cow = true) (p : Bool) (heap : List Arr)
    (ns : List Name) (xs : List (Arr × Option Nat)) :
    inputCellsAux cfg p heap ns xs = (xs.map (·.1)).map Cell.val := by
  induction xs generalizing ns with
  | nil => rfl
  | cons x xs ih =>
    obtain ⟨v, a⟩ := x
    simp [inputCellsAux, inputCell_val hcow, ih]

theorem inputCells_eq {cfg : Cfg} (hcow : cfg.cow = true) (p : Bool) (heap : List Arr)
    (xs : List (Arr × Option Nat)) : inputCells cfg p heap xs = (xs.map (·.1)).map Cell.val := by
  unfold inputCells; exact inputCellsAux_val hcow _ _ _ _

theorem inputCells_allVal {cfg : Cfg} (hcow : cfg.cow = true) (p : Bool) (heap : List Arr)
    (xs : List (Arr × Option Nat)) : AllVal (inputCells cfg p heap xs) := by
  rw [inputCells_eq hcow]; exact allVal_map_val _

theorem inputCells_vals {cfg : Cfg} (hcow : cfg.cow = true) (p : Bool) (heap : List Arr)
    (xs : List (Arr × Option Nat)) : vals (inputCells cfg p heap xs) = xs.map (·.1) := by
  rw [inputCells_eq hcow]; exact vals_map_val _

/-- A non-empty answer of the cache is the private copy of the outputs of an input that the body was
    run on and that matches `x` with the cache tolerance. -/
theorem cacheGet_out_sound {cfg : Cfg} {d : Disc} {st : State} {x : Vals} {h : Nat}
    (hinv : Inv d st) (hne : (cacheGet cfg st x h).1 ≠ []) :
    AllVal (cacheGet cfg st x h).1 ∧
    ∃ w ∈ st.runLog, cmp cfg.tol x w = true ∧ vals (cacheGet cfg st x h).1 = d.run w := by
  unfold cacheGet at hne ⊢
  cases hk : cfg.kind with
  | none => simp [hk] at hne
  | simple =>
    simp only [hk] at hne ⊢
    by_cases hc : st.simple.isCached st.heap cfg.tol x = true
    · simp only [hc, if_true] at hne ⊢
      have hs := hinv.simple
      obtain ⟨hv, hl⟩ := hs.outOK hne
      refine ⟨hs.outVal, vals st.simple.inputs, hl, ?_, hv⟩
      unfold Simple.isCached at hc
      simp only [Bool.and_eq_true] at hc
      rw [derefs_eq_vals _ _ hs.inVal] at hc
      exact hc.2
    · simp [hc] at hne
  | memory sh =>
    simp only [hk] at hne ⊢
    cases hl : st.full.lookup st.heap cfg.tol x h with
    | none => simp [hl] at hne
    | some i =>
      obtain ⟨e, he, hcmp⟩ := lookup_some hl
      simp only [hl, he] at hne ⊢
      have hok := hinv.full e (entry?_mem he)
      cases ho : e.outputs with
      | none => simp [ho] at hne
      | some oc =>
        obtain ⟨h1, h2, h3⟩ := hok.outOK oc ho
        rw [derefs_eq_vals _ _ hok.inVal] at hcmp
        simp only [Option.getD_some]
        exact ⟨h1, vals e.inputs, h3, hcmp, h2⟩
  | hdf5 =>
    simp only [hk] at hne ⊢
    cases hl : st.full.lookup st.heap cfg.tol x h with
    | none => simp [hl] at hne
    | some i =>
      obtain ⟨e, he, hcmp⟩ := lookup_some hl
      simp only [hl, he] at hne ⊢
      have hok := hinv.full e (entry?_mem he)
      cases ho : e.outputs with
      | none => simp [ho] at hne
      | some oc =>
        obtain ⟨h1, h2, h3⟩ := hok.outOK oc ho
        rw [derefs_eq_vals _ _ hok.inVal] at hcmp
        simp only [Option.getD_some]
        exact ⟨h1, vals e.inputs, h3, hcmp, h2⟩

/-- A non-empty Jacobian answered by the cache consists of blocks of the Jacobian at an input that
    was linearized and that matches `x` with the cache tolerance. -/
theorem cacheGet_jac_sound {cfg : Cfg} {d : Disc} {st : State} {x : Vals} {h : Nat}
    (hinv : Inv d st) (hne : (cacheGet cfg st x h).2 ≠ []) :
    ∃ w ∈ st.jacLog, cmp cfg.tol x w = true ∧ ∀ kb ∈ (cacheGet cfg st x h).2, kb ∈ d.jacf w := by
  unfold cacheGet at hne ⊢
  cases hk : cfg.kind with
  | none => simp [hk] at hne
  | simple =>
    simp only [hk] at hne ⊢
    by_cases hc : st.simple.isCached st.heap cfg.tol x = true
    · simp only [hc, if_true] at hne ⊢
      have hs := hinv.simple
      obtain ⟨hv, hl⟩ := hs.jacOK hne
      refine ⟨vals st.simple.inputs, hl, ?_, hv⟩
      unfold Simple.isCached at hc
      simp only [Bool.and_eq_true] at hc
      rw [derefs_eq_vals _ _ hs.inVal] at hc
      exact hc.2
    · simp [hc] at hne
  | memory sh =>
    simp only [hk] at hne ⊢
    cases hl : st.full.lookup st.heap cfg.tol x h with
    | none => simp [hl] at hne
    | some i =>
      obtain ⟨e, he, hcmp⟩ := lookup_some hl
      simp only [hl, he] at hne ⊢
      have hok := hinv.full e (entry?_mem he)
      cases ho : e.jac with
      | none => simp [ho] at hne
      | some j =>
        obtain ⟨h1, h2⟩ := hok.jacOK j ho
        rw [derefs_eq_vals _ _ hok.inVal] at hcmp
        simp only [Option.getD_some]
        exact ⟨vals e.inputs, h2, hcmp, h1⟩
  | hdf5 =>
    simp only [hk] at hne ⊢
    cases hl : st.full.lookup st.heap cfg.tol x h with
    | none => simp [hl] at hne
    | some i =>
      obtain ⟨e, he, hcmp⟩ := lookup_some hl
      simp only [hl, he] at hne ⊢
      have hok := hinv.full e (entry?_mem he)
      cases ho : e.jac with
      | none => simp [ho] at hne
      | some j =>
        obtain ⟨h1, h2⟩ := hok.jacOK j ho
        rw [derefs_eq_vals _ _ hok.inVal] at hcmp
        simp only [Option.getD_some]
        exact ⟨vals e.inputs, h2, hcmp, h1⟩

theorem cacheStoreOutputs_inv {cfg : Cfg} {d : Disc} {st : State} {x : Vals} {h : Nat}
    {xc oc : List Cell} (hinv : Inv d st)
    (hxc : AllVal xc) (hxv : vals xc = x) (hoc : AllVal oc) (hov : vals oc = d.run x)
    (hx : x ∈ st.runLog) : Inv d (cacheStoreOutputs cfg st x h xc oc) := by
  unfold cacheStoreOutputs
  cases cfg.kind with
  | none => exact hinv
  | simple => exact ⟨simple_storeOutputs_ok hinv.simple hxc hxv hoc hov hx, hinv.full⟩
  | memory sh => exact ⟨hinv.simple, storeOutputs_ok hinv.full hxc hxv hoc hov hx⟩
  | hdf5 => exact ⟨hinv.simple, storeOutputs_ok hinv.full hxc hxv hoc hov hx⟩

theorem cacheStoreJac_inv {cfg : Cfg} {d : Disc} {st : State} {x : Vals} {h : Nat}
    {xc : List Cell} {j : Jac} (hinv : Inv d st)
    (hxc : AllVal xc) (hxv : vals xc = x) (hj : ∀ kb ∈ j, kb ∈ d.jacf x)
    (hx : x ∈ st.jacLog) : Inv d (cacheStoreJac cfg st x h xc j) := by
  unfold cacheStoreJac
  cases cfg.kind with
  | none => exact hinv
  | simple => exact ⟨simple_storeJac_ok hinv.simple hxc hxv hj hx, hinv.full⟩
  | memory sh => exact ⟨hinv.simple, storeJac_ok hinv.full hxc hxv hj hx⟩
  | hdf5 => exact ⟨hinv.simple, storeJac_ok hinv.full hxc hxv hj hx⟩

/-- The stores do not touch the logs, the flags or the discipline's Jacobian. -/
theorem cacheStoreOutputs_fields (cfg : Cfg) (st : State) (x : Vals) (h : Nat) (xc oc : List Cell) :
    (cacheStoreOutputs cfg st x h xc oc).runLog = st.runLog ∧
    (cacheStoreOutputs cfg st x h xc oc).jacLog = st.jacLog ∧
    (cacheStoreOutputs cfg st x h xc oc).hasJac = st.hasJac ∧
    (cacheStoreOutputs cfg st x h xc oc).dJac = st.dJac := by
  unfold cacheStoreOutputs
  cases cfg.kind <;> simp

theorem cacheStoreJac_fields (cfg : Cfg) (st : State) (x : Vals) (h : Nat) (xc : List Cell) (j : Jac) :
    (cacheStoreJac cfg st x h xc j).runLog = st.runLog ∧
    (cacheStoreJac cfg st x h xc j).jacLog = st.jacLog ∧
    (cacheStoreJac cfg st x h xc j).hasJac = st.hasJac ∧
    (cacheStoreJac cfg st x h xc j).dJac = st.dJac := by
  unfold cacheStoreJac
  cases cfg.kind <;> simp

/-! ### `execute` -/

/-- What an execution at `x` guarantees about the new state `st'` and the returned outputs `r`. -/
structure ExecPost (cfg : Cfg) (d : Disc) (x : Vals) (st' : State) (r : Vals) : Prop where
  inv : Inv d st'
  out : ∃ w ∈ st'.runLog, cmp cfg.tol x w = true ∧ r = d.run w
  jac : st'.hasJac = true → st'.dJac ≠ [] →
    ∃ w ∈ st'.jacLog, cmp cfg.tol x w = true ∧ ∀ kb ∈ st'.dJac, kb ∈ d.jacf w

theorem missState_fields (cfg : Cfg) (d : Disc) (st : State) (xs : List (Arr × Option Nat)) :
    (missState cfg d st xs).simple = st.simple ∧ (missState cfg d st xs).full = st.full ∧
    (missState cfg d st xs).runLog = st.runLog ++ [xs.map (·.1)] ∧
    (∀ y ∈ st.jacLog, y ∈ (missState cfg d st xs).jacLog) ∧
    (st.hasJac = false → (missState cfg d st xs).hasJac = true →
      (missState cfg d st xs).dJac = d.jacf (xs.map (·.1)) ∧
      xs.map (·.1) ∈ (missState cfg d st xs).jacLog) := by
  unfold missState
  by_cases hsj : cfg.runSetsJac = true
  · simp [hsj]
    exact fun y hy => Or.inl hy
  · simp only [hsj, Bool.false_eq_true, if_false]
    refine ⟨trivial, trivial, trivial, fun y hy => hy, ?_⟩
    intro h0 h1
    simp only [h0] at h1
    cases h1

theorem execMiss_post {cfg : Cfg} {d : Disc} {st : State} {xs : List (Arr × Option Nat)} {h : Nat}
    (hcow : cfg.cow = true) (hinv : Inv d st) (hj0 : st.hasJac = false) :
    ExecPost cfg d (xs.map (·.1)) (execMiss cfg d st xs h).1 (execMiss cfg d st xs h).2 := by
  obtain ⟨m1, m2, m3, m4, m5⟩ := missState_fields cfg d st xs
  have hinv2 : Inv d (missState cfg d st xs) :=
    hinv.mono m1 m2 (fun y hy => by rw [m3]; exact List.mem_append_left _ hy) m4
  have hx2 : xs.map (·.1) ∈ (missState cfg d st xs).runLog := by rw [m3]; simp
  have hxe := inputCells_eq hcow true (missState cfg d st xs).heap xs
  have hxc : AllVal ((xs.map (·.1)).map Cell.val) := allVal_map_val _
  have hxv : vals ((xs.map (·.1)).map Cell.val) = xs.map (·.1) := vals_map_val _
  have hinv3 : Inv d (cacheStoreOutputs cfg (missState cfg d st xs) (xs.map (·.1)) h
      ((xs.map (·.1)).map Cell.val) ((d.run (xs.map (·.1))).map Cell.val)) :=
    cacheStoreOutputs_inv hinv2 hxc hxv (allVal_map_val _) (vals_map_val _) hx2
  obtain ⟨f1, f2, f3, f4⟩ := cacheStoreOutputs_fields cfg (missState cfg d st xs) (xs.map (·.1)) h
    ((xs.map (·.1)).map Cell.val) ((d.run (xs.map (·.1))).map Cell.val)
  unfold execMiss
  simp only [cow_byRef hcow, Bool.false_eq_true, if_false, hxe]
  by_cases hh : (cacheStoreOutputs cfg (missState cfg d st xs) (xs.map (·.1)) h
      ((xs.map (·.1)).map Cell.val) ((d.run (xs.map (·.1))).map Cell.val)).hasJac = true
  · simp only [hh, if_true]
    have hm : (missState cfg d st xs).hasJac = true := by rw [← f3]; exact hh
    obtain ⟨hd, hl⟩ := m5 hj0 hm
    obtain ⟨g1, g2, g3, g4⟩ := cacheStoreJac_fields cfg
      (cacheStoreOutputs cfg (missState cfg d st xs) (xs.map (·.1)) h
        ((xs.map (·.1)).map Cell.val) ((d.run (xs.map (·.1))).map Cell.val)) (xs.map (·.1)) h
      ((xs.map (·.1)).map Cell.val)
      (cacheStoreOutputs cfg (missState cfg d st xs) (xs.map (·.1)) h
        ((xs.map (·.1)).map Cell.val) ((d.run (xs.map (·.1))).map Cell.val)).dJac
    refine ⟨?_, ?_, ?_⟩
    · apply cacheStoreJac_inv hinv3 hxc hxv
      · rw [f4, hd]; exact fun kb hkb => hkb
      · rw [f2]; exact hl
    · exact ⟨xs.map (·.1), by rw [g1, f1]; exact hx2, cmp_refl _ _, rfl⟩
    · intro _ _
      refine ⟨xs.map (·.1), by rw [g2, f2]; exact hl, cmp_refl _ _, ?_⟩
      rw [g4, f4, hd]; exact fun kb hkb => hkb
  · simp only [hh, Bool.false_eq_true, if_false]
    refine ⟨hinv3, ⟨xs.map (·.1), by rw [f1]; exact hx2, cmp_refl _ _, rfl⟩, ?_⟩
    intro h1; exact absurd h1 hh

theorem execHit_post {cfg : Cfg} {d : Disc} {st : State} {x : Vals} {h : Nat}
    (hcoh : cfg.coh = true) (hinv : Inv d st) (hne : (cacheGet cfg st x h).1 ≠ []) :
    ExecPost cfg d x (execHit cfg st x h (cacheGet cfg st x h).1 (cacheGet cfg st x h).2).1
      (execHit cfg st x h (cacheGet cfg st x h).1 (cacheGet cfg st x h).2).2 := by
  obtain ⟨hv, w, hw, hc, hr⟩ := cacheGet_out_sound hinv hne
  unfold execHit
  simp only [hcoh, if_true]
  refine ⟨hinv.of_eq rfl rfl rfl rfl, ⟨w, hw, hc, ?_⟩, ?_⟩
  · rw [derefs_eq_vals _ _ hv]; exact hr
  · intro _ hj
    exact cacheGet_jac_sound hinv hj

/-- **Specification of `execute`** for the copying policies. -/
theorem execute_post {cfg : Cfg} {d : Disc} {st : State} {xs : List (Arr × Option Nat)} {h : Nat}
    (hcow : cfg.cow = true) (hcoh : cfg.coh = true) (hinv : Inv d st) :
    ExecPost cfg d (xs.map (·.1)) (execute cfg d st xs h).1 (execute cfg d st xs h).2 := by
  have hinv0 : Inv d { st with hasJac := false } := hinv.of_eq rfl rfl rfl rfl
  unfold execute
  simp only []
  split
  · rename_i hhit
    simp only [Bool.and_eq_true, Bool.not_eq_true', List.isEmpty_eq_false_iff] at hhit
    exact execHit_post hcoh hinv0 hhit.2
  · exact execMiss_post hcow hinv0 rfl

/-! ### `linearize` -/

theorem mem_prune {j : Jac} {inN outN : List Name} {kb : (Name × Name) × Block}
    (h : kb ∈ prune j inN outN) : kb ∈ j := by
  unfold prune at h
  exact (List.mem_filter.mp h).1

/-- What a linearization at `x` guarantees: every returned block is a block of the Jacobian at an
    input that was linearized and matches `x` with the cache tolerance. -/
structure LinPost (cfg : Cfg) (d : Disc) (x : Vals) (st' : State) (r : Jac) : Prop where
  inv : Inv d st'
  jac : r = [] ∨ ∃ w ∈ st'.jacLog, cmp cfg.tol x w = true ∧ ∀ kb ∈ r, kb ∈ d.jacf w

theorem mem_linJac {cfg : Cfg} {d : Disc} {all : Bool} {x : Vals} {kb : (Name × Name) × Block}
    (h : kb ∈ linJac cfg d all x) : kb ∈ d.jacf x := by
  unfold linJac at h
  split at h
  · exact h
  · exact mem_prune h

theorem linCompute_post {cfg : Cfg} {d : Disc} {st : State} {all : Bool}
    {xs : List (Arr × Option Nat)} {h : Nat} (hcow : cfg.cow = true) (hinv : Inv d st) :
    LinPost cfg d (xs.map (·.1)) (linCompute cfg d st all xs h).1 (linCompute cfg d st all xs h).2 := by
  unfold linCompute
  simp only []
  have hsub : ∀ kb ∈ linJac cfg d all (xs.map (·.1)), kb ∈ d.jacf (xs.map (·.1)) :=
    fun kb hkb => mem_linJac hkb
  have g := cacheStoreJac_fields cfg
    { st with dJac := linJac cfg d all (xs.map (·.1)), nJac := st.nJac + 1,
              jacLog := st.jacLog ++ [xs.map (·.1)] }
    (xs.map (·.1)) h (inputCells cfg false st.heap xs) (linJac cfg d all (xs.map (·.1)))
  refine ⟨?_, Or.inr ⟨xs.map (·.1), ?_, cmp_refl _ _, hsub⟩⟩
  · apply cacheStoreJac_inv _ (inputCells_allVal hcow false st.heap xs)
      (inputCells_vals hcow false st.heap xs) hsub
    · simp
    · exact hinv.mono rfl rfl (fun y hy => hy) (fun y hy => List.mem_append_left _ hy)
  · rw [g.2.1]; simp

theorem linTail_post {cfg : Cfg} {d : Disc} {st1 : State} {all : Bool}
    {xs : List (Arr × Option Nat)} {h : Nat} (hcow : cfg.cow = true) (hinv : Inv d st1)
    (hjac : st1.hasJac = true → st1.dJac ≠ [] →
      ∃ w ∈ st1.jacLog, cmp cfg.tol (xs.map (·.1)) w = true ∧ ∀ kb ∈ st1.dJac, kb ∈ d.jacf w) :
    LinPost cfg d (xs.map (·.1)) (linTail cfg d st1 all xs h).1 (linTail cfg d st1 all xs h).2 := by
  unfold linTail
  by_cases hc : (st1.hasJac && !st1.dJac.isEmpty &&
      hasBlocks st1.dJac (linIn cfg all) (linOut cfg all)) = true
  · simp only [hc, if_true]
    simp only [Bool.and_eq_true, Bool.not_eq_true', List.isEmpty_eq_false_iff] at hc
    exact ⟨hinv, Or.inr (hjac hc.1.1 hc.1.2)⟩
  · simp only [hc, Bool.false_eq_true, if_false]
    exact linCompute_post hcow hinv

theorem linTail_inv {cfg : Cfg} {d : Disc} {st1 : State} {all : Bool}
    {xs : List (Arr × Option Nat)} {h : Nat} (hcow : cfg.cow = true) (hinv : Inv d st1) :
    Inv d (linTail cfg d st1 all xs h).1 := by
  unfold linTail
  split
  · exact hinv
  · exact (linCompute_post hcow hinv).inv

/-- **Specification of `linearize`** (with execution) for the copying policies. -/
theorem linearize_post {cfg : Cfg} {d : Disc} {st : State} {all : Bool}
    {xs : List (Arr × Option Nat)} {h : Nat}
    (hcow : cfg.cow = true) (hcoh : cfg.coh = true) (hinv : Inv d st) :
    LinPost cfg d (xs.map (·.1)) (linearize cfg d st all true xs h).1
      (linearize cfg d st all true xs h).2 := by
  unfold linearize
  by_cases he : linEarly cfg all = true
  · -- nothing to differentiate: the Jacobian of the cache is returned
    simp only [he, if_true]
    refine ⟨hinv.of_eq rfl rfl rfl rfl, ?_⟩
    by_cases hne : (cacheGet cfg st (xs.map (·.1)) h).2 = []
    · exact Or.inl hne
    · have h2 := cacheGet_jac_sound (st := st) hinv hne
      exact Or.inr h2
  · simp only [he, Bool.false_eq_true, if_false, if_true]
    have hp := execute_post (xs := xs) (h := h) hcow hcoh hinv
    exact linTail_post hcow hp.inv hp.jac

/-- Without execution only the consistency of the caches is claimed (the returned Jacobian is the
    discipline's current one when it is flagged valid: it is the caller who asserts that the
    discipline was executed with these inputs). -/
theorem linearize_inv {cfg : Cfg} {d : Disc} {st : State} {all exe : Bool}
    {xs : List (Arr × Option Nat)} {h : Nat}
    (hcow : cfg.cow = true) (hcoh : cfg.coh = true) (hinv : Inv d st) :
    Inv d (linearize cfg d st all exe xs h).1 := by
  unfold linearize
  by_cases he : linEarly cfg all = true
  · simp only [he, if_true]
    exact hinv.of_eq rfl rfl rfl rfl
  · simp only [he, Bool.false_eq_true, if_false]
    apply linTail_inv hcow
    cases exe with
    | true => exact (execute_post hcow hcoh hinv).inv
    | false => exact hinv

/-! ### `step` -/

theorem step_inv {cfg : Cfg} {d : Disc} {st : State} (op : Op)
    (hcow : cfg.cow = true) (hcoh : cfg.coh = true) (hinv : Inv d st) :
    Inv d (step cfg d st op).1 := by
  cases op with
  | new id v => exact hinv.of_eq rfl rfl rfl rfl
  | modify id v =>
    simp only [step]
    split
    · split
      · exact hinv.of_eq rfl rfl rfl rfl
      · exact hinv
    · exact hinv
  | keep id name =>
    simp only [step]
    split
    · exact hinv.of_eq rfl rfl rfl rfl
    · exact hinv
  | exec args h =>
    simp only [step]
    split
    · exact hinv
    · exact (execute_post hcow hcoh hinv).inv
  | lin all exe args h =>
    simp only [step]
    split
    · exact hinv
    · exact linearize_inv hcow hcoh hinv
  | reopen =>
    simp only [step]
    split
    · exact ⟨hinv.simple, fun e he => hinv.full e he⟩
    · exact hinv
  | clear => exact ⟨simpleOK_empty _ _ _, fullOK_empty _ _ _⟩

theorem reachFrom_inv {cfg : Cfg} {d : Disc} (ops : List Op) (st : State)
    (hcow : cfg.cow = true) (hcoh : cfg.coh = true) (hinv : Inv d st) :
    Inv d (reachFrom cfg d st ops) := by
  induction ops generalizing st with
  | nil => exact hinv
  | cons op ops ih =>
    unfold reachFrom
    simp only [List.foldl_cons]
    exact ih _ (step_inv op hcow hcoh hinv)

end GV.C05
