/-
C09 — helper lemmas (2): identity seeds, parallel and additive chains, structural dependence,
pruned Jacobian dictionaries.
-/
import GemseoVerif.Lemmas.C09

namespace GV.C09

set_option linter.unusedSectionVars false

open Finset

/-- Identity blocks `∂v/∂v`. -/
class BlockOne {V : Type} (β : V → V → Type) where
  one : (v : V) → β v v

class LawfulOne {V : Type} (β : V → V → Type) [BlockOps β] [BlockOne β] : Prop where
  mul_one : ∀ {o v : V} (a : β o v), BlockOps.mul a (BlockOne.one v) = a

section
variable {V : Type} [DecidableEq V] {β : V → V → Type} [BlockOps β]
  [∀ o i, AddCommMonoid (β o i)] [LawfulBlocks β]

local infixl:70 " ⬝ " => BlockOps.mul

/-- Transport of a block along an equality of its row variable. -/
def castFst {x v p : V} (h : x = v) (b : β x p) : β v p := h ▸ b

@[simp] theorem castFst_rfl {x p : V} (b : β x p) : castFst rfl b = b := rfl

/-- The seed of the forward sweep for `D · / D x`: identity on `x`, zero elsewhere. -/
def seedAt [BlockOne β] (x : V) (v : V) : β v x :=
  if h : x = v then castFst h (BlockOne.one x) else 0

theorem seedAt_ne [BlockOne β] (x v : V) (h : ¬ v = x) : (seedAt x v : β v x) = 0 := by
  unfold seedAt
  have : ¬ x = v := fun e => h e.symm
  simp [this]

theorem mul_seedAt_self [BlockOne β] [LawfulOne β] {o : V} (x : V) (a : β o x) :
    a ⬝ (seedAt x x : β x x) = a := by
  simp [seedAt, LawfulOne.mul_one]

variable [Fintype V]

/-! ### Parallel chain -/

/-- `MDOParallelChain._execute`: every discipline is executed on the input data of the chain;
    the data are then updated discipline after discipline. -/
def pstep {p : V} (t0 : (v : V) → β v p) (acc : (v : V) → β v p) (d : Disc β) (v : V) : β v p :=
  if v ∈ d.outs then d.jac.out t0 v else acc v

def pfwdFrom {p : V} (ds : List (Disc β)) (t0 acc : (v : V) → β v p) : (v : V) → β v p :=
  ds.foldl (pstep t0) acc

/-- Tangents after a parallel chain. -/
def pfwd {p : V} (ds : List (Disc β)) (t : (v : V) → β v p) : (v : V) → β v p :=
  pfwdFrom ds t t

theorem par_adjoint_from {p : V} (ds : List (Disc β)) (o : V) (t0 acc : (v : V) → β v p)
    (row : Option (Row β o))
    (h : acc o = match row with | some r => pair r.sem t0 | none => t0 o) :
    pfwdFrom ds t0 acc o
      = match ds.foldl (fun a d => if o ∈ d.outs then some (d.jac.row o) else a) row with
        | some r => pair r.sem t0
        | none => t0 o := by
  induction ds generalizing acc row with
  | nil => exact h
  | cons d ds ih =>
    simp only [pfwdFrom, List.foldl_cons]
    apply ih
    unfold pstep
    by_cases ho : o ∈ d.outs
    · simp [ho, pair_row]
    · simp [ho, h]

theorem par_adjoint {p : V} (ds : List (Disc β)) (o : V) (t : (v : V) → β v p) :
    pfwd ds t o = match parRow ds o with
      | some r => pair r.sem t
      | none => t o :=
  par_adjoint_from ds o t t none rfl

theorem parRow_isSome (ds : List (Disc β)) (o : V) (ho : ∃ d ∈ ds, o ∈ d.outs) :
    (parRow ds o).isSome = true := by
  unfold parRow
  have gen : ∀ (ds : List (Disc β)) (row : Option (Row β o)),
      (row.isSome = true ∨ ∃ d ∈ ds, o ∈ d.outs) →
      (ds.foldl (fun a d => if o ∈ d.outs then some (d.jac.row o) else a) row).isSome = true := by
    intro ds
    induction ds with
    | nil => intro row h; rcases h with h | ⟨d, hd, _⟩; exact h; cases hd
    | cons d ds ih =>
      intro row h
      simp only [List.foldl_cons]
      apply ih
      by_cases ho : o ∈ d.outs
      · left; simp [ho]
      · rcases h with h | ⟨e, he, hoe⟩
        · left; simp [ho, h]
        · rcases List.mem_cons.mp he with rfl | he'
          · exact absurd hoe ho
          · right; exact ⟨e, he', hoe⟩
  exact gen ds none (Or.inr ho)

/-! ### Additive chain -/

theorem addBlock_sem_from (ds : List (Disc β)) (o x : V) (acc : Option (β o x)) :
    (ds.foldl (addStep o x) acc).getD 0 = acc.getD 0 + (ds.map (fun d => d.jac.eff o x)).sum := by
  induction ds generalizing acc with
  | nil => simp
  | cons d ds ih =>
    simp only [List.foldl_cons, List.map_cons, List.sum_cons]
    rw [ih, ← add_assoc]
    congr 1
    have hsem := DJac.sem_row d.jac o x
    unfold Row.sem at hsem
    unfold addStep
    cases hg : (d.jac.row o).get x with
    | none => simp [hg] at hsem; cases acc <;> simp [← hsem]
    | some b =>
      simp [hg] at hsem
      cases acc with
      | none => simp [← hsem]
      | some a => simp [← hsem, LawfulBlocks.add_eq]

theorem addBlock_sem (ds : List (Disc β)) (o x : V) :
    (addBlock ds o x).getD 0 = (ds.map (fun d => d.jac.eff o x)).sum := by
  have := addBlock_sem_from ds o x none
  simpa [addBlock] using this

theorem out_support {p : V} (j : DJac β) (o : V) (X : List V) (t : (v : V) → β v p)
    (ht : ∀ v, v ∉ X → t v = 0) :
    j.out t o = ∑ x ∈ X.toFinset, j.eff o x ⬝ t x := by
  unfold DJac.out
  rw [← Finset.sum_subset (Finset.subset_univ X.toFinset)]
  intro v _ hv
  rw [ht v (fun h => hv (List.mem_toFinset.mpr h)), LawfulBlocks.mul_zero]

theorem additive_tangent {p : V} (ds : List (Disc β)) (o : V) (X : List V) (t : (v : V) → β v p)
    (ht : ∀ v, v ∉ X → t v = 0) :
    (ds.map (fun d => d.jac.out t o)).sum
      = ∑ x ∈ X.toFinset, (ds.map (fun d => d.jac.eff o x)).sum ⬝ t x := by
  induction ds with
  | nil => simp [LawfulBlocks.zero_mul]
  | cons d ds ih =>
    simp only [List.map_cons, List.sum_cons, LawfulBlocks.add_mul, Finset.sum_add_distrib]
    rw [ih, out_support d.jac o X t ht]

/-! ### Structural dependence -/

/-- Variables that may depend on the set `S` after the discipline `d`. -/
def reachStep (d : Disc β) (S : V → Prop) : V → Prop :=
  fun v => if v ∈ d.outs then ∃ i, d.jac.present v i ∧ S i else S v

/-- Variables that may depend on `S` after the chain `ds`. -/
def dependsOn (ds : List (Disc β)) (S : V → Prop) : V → Prop :=
  ds.foldl (fun S d => reachStep d S) S

theorem fstep_support {p : V} (d : Disc β) (t : (v : V) → β v p) (S : V → Prop)
    (ht : ∀ v, ¬ S v → t v = 0) : ∀ v, ¬ reachStep d S v → fstep d t v = 0 := by
  intro v hv
  unfold reachStep at hv
  unfold fstep
  by_cases ho : v ∈ d.outs
  · simp only [ho, if_true] at hv ⊢
    unfold DJac.out
    apply Finset.sum_eq_zero
    intro i _
    by_cases hp : d.jac.present v i
    · have : ¬ S i := fun hs => hv ⟨i, hp, hs⟩
      rw [ht i this, LawfulBlocks.mul_zero]
    · simp [DJac.eff, hp, LawfulBlocks.zero_mul]
  · simp only [ho, if_false] at hv ⊢
    exact ht v hv

theorem fwd_support {p : V} (ds : List (Disc β)) (t : (v : V) → β v p) (S : V → Prop)
    (ht : ∀ v, ¬ S v → t v = 0) : ∀ o, ¬ dependsOn ds S o → fwd ds t o = 0 := by
  induction ds generalizing t S with
  | nil => intro o ho; exact ht o ho
  | cons d ds ih =>
    intro o ho
    rw [fwd_cons]
    exact ih (fstep d t) (reachStep d S) (fstep_support d t S ht) o ho

/-! ### Pruned dictionaries -/

/-- `d'` is `d` with a sub-dictionary of its Jacobian. -/
def Disc.Sub (d' d : Disc β) : Prop :=
  d'.outs = d.outs ∧
    ∀ w v, d'.jac.present w v → d.jac.present w v ∧ d'.jac.val w v = d.jac.val w v

/-- What must be known before the discipline to know the set `N` after it. -/
def needStep (d : Disc β) (N : V → Prop) : V → Prop :=
  fun v => (v ∉ d.outs ∧ N v) ∨ ∃ w, w ∈ d.outs ∧ N w ∧ d.jac.present w v

/-- What must be known before the chain to know the set `N` after it. -/
def needB : List (Disc β) → (V → Prop) → (V → Prop)
  | [], N => N
  | d :: ds, N => needStep d (needB ds N)

/-- The pruned chain `ds'` keeps every key `(w, v)` such that `v` may depend on the seeded set and
    a variable of `N` may depend on `w`. -/
def Covers : List (Disc β) → List (Disc β) → (V → Prop) → (V → Prop) → Prop
  | [], [], _, _ => True
  | d' :: ds', d :: ds, S, N =>
    d'.Sub d ∧
    (∀ w v, w ∈ d.outs → needB ds N w → d.jac.present w v → S v → d'.jac.present w v) ∧
    Covers ds' ds (reachStep d S) N
  | _, _, _, _ => False

theorem Covers.outs_iff {ds' ds : List (Disc β)} {S N : V → Prop} (h : Covers ds' ds S N) (o : V) :
    (∃ d ∈ ds', o ∈ d.outs) ↔ (∃ d ∈ ds, o ∈ d.outs) := by
  induction ds' generalizing ds S with
  | nil =>
    cases ds with
    | nil => simp
    | cons d ds => exact absurd h (by simp [Covers])
  | cons d' ds' ih =>
    cases ds with
    | nil => exact absurd h (by simp [Covers])
    | cons d ds =>
      obtain ⟨hsub, _, hrest⟩ := h
      have := ih hrest
      simp only [List.mem_cons, exists_eq_or_imp, hsub.1, this]

theorem eff_sub {d' d : Disc β} (h : d'.Sub d) (w v : V) (hp : d'.jac.present w v) :
    d'.jac.eff w v = d.jac.eff w v := by
  obtain ⟨hp2, hv⟩ := h.2 w v hp
  simp [DJac.eff, hp, hp2, hv]

theorem fwd_pruned {p : V} (ds' ds : List (Disc β)) (S N : V → Prop) (hc : Covers ds' ds S N)
    (t' t : (v : V) → β v p) (heq : ∀ v, needB ds N v → t' v = t v)
    (ht : ∀ v, ¬ S v → t v = 0) (ht' : ∀ v, ¬ S v → t' v = 0) :
    ∀ o, N o → fwd ds' t' o = fwd ds t o := by
  induction ds' generalizing ds S t t' with
  | nil =>
    cases ds with
    | nil => intro o ho; exact heq o ho
    | cons d ds => exact absurd hc (by simp [Covers])
  | cons d' ds' ih =>
    cases ds with
    | nil => exact absurd hc (by simp [Covers])
    | cons d ds =>
      obtain ⟨hsub, hcov, hrest⟩ := hc
      intro o ho
      rw [fwd_cons, fwd_cons]
      refine ih ds (reachStep d S) hrest (fstep d' t') (fstep d t) ?_ (fstep_support d t S ht) ?_ o ho
      · -- the two sweeps agree on what is needed after the discipline
        intro v hv
        unfold fstep
        rw [hsub.1]
        by_cases hvo : v ∈ d.outs
        · simp only [hvo, if_true]
          unfold DJac.out
          apply Finset.sum_congr rfl
          intro i _
          by_cases hp : d.jac.present v i
          · by_cases hs : S i
            · have hp' := hcov v i hvo hv hp hs
              rw [eff_sub hsub v i hp']
              rw [heq i (Or.inr ⟨v, hvo, hv, hp⟩)]
            · rw [ht i hs, ht' i hs, LawfulBlocks.mul_zero, LawfulBlocks.mul_zero]
          · have hp' : ¬ d'.jac.present v i := fun h => hp (hsub.2 v i h).1
            simp [DJac.eff, hp, hp', LawfulBlocks.zero_mul]
        · simp only [hvo, if_false]
          exact heq v (Or.inl ⟨hvo, hv⟩)
      · -- the pruned sweep has the same support
        intro v hv
        unfold reachStep at hv
        unfold fstep
        rw [hsub.1]
        by_cases hvo : v ∈ d.outs
        · simp only [hvo, if_true] at hv ⊢
          unfold DJac.out
          apply Finset.sum_eq_zero
          intro i _
          by_cases hp' : d'.jac.present v i
          · have hp := (hsub.2 v i hp').1
            have : ¬ S i := fun hs => hv ⟨i, hp, hs⟩
            rw [ht' i this, LawfulBlocks.mul_zero]
          · simp [DJac.eff, hp', LawfulBlocks.zero_mul]
        · simp only [hvo, if_false] at hv ⊢
          exact ht' v hv

/-! ### Restriction by `Discipline.linearize` -/

/-- The chain where discipline `k` returns its dictionary restricted to the differentiated
    (inputs, outputs) `sel[k]`. -/
def restrictAll (ds : List (Disc β)) (sel : List (DiscIO V)) : List (Disc β) :=
  List.zipWith (fun d s => { d with jac := d.jac.restrict s.1 s.2 }) ds sel

theorem DJac.restrict_wf (j : DJac β) (hj : j.WF) (dIn dOut : List V) :
    (j.restrict dIn dOut).WF := by
  intro w
  unfold DJac.restrict
  split
  · simp
  · exact (hj w).filter _

theorem restrictAll_wf (ds : List (Disc β)) (sel : List (DiscIO V)) (hds : ∀ d ∈ ds, d.jac.WF) :
    ∀ d ∈ restrictAll ds sel, d.jac.WF := by
  induction ds generalizing sel with
  | nil => intro d hd; simp [restrictAll] at hd
  | cons d ds ih =>
    cases sel with
    | nil => intro e he; simp [restrictAll] at he
    | cons s sel =>
      intro e he
      simp only [restrictAll, List.zipWith_cons_cons, List.mem_cons] at he
      rcases he with rfl | he
      · exact DJac.restrict_wf _ (hds d (List.mem_cons_self ..)) _ _
      · exact ih sel (fun x hx => hds x (List.mem_cons_of_mem _ hx)) e he

theorem DJac.present_restrict (j : DJac β) (dIn dOut : List V) (w v : V) :
    (j.restrict dIn dOut).present w v ↔ j.present w v ∧ w ∈ dOut ∧ v ∈ dIn := by
  unfold DJac.restrict DJac.present
  by_cases h : (dIn.isEmpty || dOut.isEmpty) = true
  · simp only [h, if_true]
    constructor
    · intro hp; simp at hp
    · rintro ⟨_, hw, hv⟩
      rcases Bool.or_eq_true _ _ |>.mp h with h1 | h1
      · rw [List.isEmpty_iff] at h1; subst h1; cases hv
      · rw [List.isEmpty_iff] at h1; subst h1; cases hw
  · simp only [h]
    simp [List.mem_filter]
    tauto

theorem restrict_sub (d : Disc β) (dIn dOut : List V) :
    Disc.Sub { d with jac := d.jac.restrict dIn dOut } d := by
  refine ⟨rfl, ?_⟩
  intro w v hp
  have := (DJac.present_restrict d.jac dIn dOut w v).mp hp
  refine ⟨this.1, ?_⟩
  unfold DJac.restrict
  split <;> rfl

/-! ### Pruning in parallel and additive chains -/

/-- What `MDOParallelChain._compute_jacobian(X, O)` asks its disciplines: the requested names that
    belong to their grammars (`_set_disciplines_diff_inputs/outputs`), or any superset `sel`. -/
def Disc.restrictTo (d : Disc β) (s : DiscIO V) : Disc β :=
  { d with jac := d.jac.restrict s.1 s.2 }

theorem row_restrict_get (d : Disc β) (s : DiscIO V) (o x : V)
    (hk : ∀ w v, d.jac.present w v → w ∈ d.outs ∧ v ∈ d.ins)
    (ho : o ∈ d.outs → o ∈ s.2) (hx : x ∈ d.ins → x ∈ s.1) :
    ((d.restrictTo s).jac.row o).get x = (d.jac.row o).get x := by
  have hp := DJac.present_restrict d.jac s.1 s.2 o x
  have hval : (d.jac.restrict s.1 s.2).val = d.jac.val := by unfold DJac.restrict; split <;> rfl
  unfold DJac.row Disc.restrictTo
  simp only [hval]
  unfold DJac.present at hp
  by_cases h : o ∈ d.jac.rows ∧ x ∈ d.jac.cols o
  · have hk' := hk o x h
    have : o ∈ (d.jac.restrict s.1 s.2).rows ∧ x ∈ (d.jac.restrict s.1 s.2).cols o :=
      hp.mpr ⟨h, ho hk'.1, hx hk'.2⟩
    simp [h, this]
  · have : ¬ (o ∈ (d.jac.restrict s.1 s.2).rows ∧ x ∈ (d.jac.restrict s.1 s.2).cols o) :=
      fun hh => h (hp.mp hh).1
    simp [h, this]

/-- Two lists of disciplines with the same grammars and the same block for the pair `(o, x)`. -/
def SamePair (o x : V) (d' d : Disc β) : Prop :=
  d'.outs = d.outs ∧ ((d'.jac.row o).get x) = ((d.jac.row o).get x)

theorem parJac_congr (fill : (o x : V) → β o x) (o x : V) (ds' ds : List (Disc β))
    (h : List.Forall₂ (SamePair o x) ds' ds) : parJac fill ds' o x = parJac fill ds o x := by
  unfold parJac parRow
  have gen : ∀ (ds' ds : List (Disc β)), List.Forall₂ (SamePair o x) ds' ds →
      ∀ (acc' acc : Option (Row β o)), finishRow fill acc' x = finishRow fill acc x →
      finishRow fill (ds'.foldl (fun a d => if o ∈ d.outs then some (d.jac.row o) else a) acc') x
        = finishRow fill (ds.foldl (fun a d => if o ∈ d.outs then some (d.jac.row o) else a) acc) x := by
    intro ds' ds h
    induction h with
    | nil => intro acc' acc hacc; exact hacc
    | cons hd _ ih =>
      intro acc' acc hacc
      simp only [List.foldl_cons]
      apply ih
      rw [hd.1]
      split
      · simp only [finishRow, hd.2]
      · exact hacc
  exact gen ds' ds h none none rfl

theorem addBlock_congr (o x : V) (ds' ds : List (Disc β))
    (h : List.Forall₂ (SamePair o x) ds' ds) : addBlock ds' o x = addBlock ds o x := by
  unfold addBlock
  have gen : ∀ (ds' ds : List (Disc β)), List.Forall₂ (SamePair o x) ds' ds →
      ∀ acc : Option (β o x), ds'.foldl (addStep o x) acc = ds.foldl (addStep o x) acc := by
    intro ds' ds h
    induction h with
    | nil => intro acc; rfl
    | @cons a b _ _ hd _ ih =>
      intro acc
      simp only [List.foldl_cons]
      have : addStep o x acc a = addStep o x acc b := by
        unfold addStep; rw [hd.2]
      rw [this]; exact ih _
  exact gen ds' ds h none

theorem samePair_restrict (o x : V) (ds : List (Disc β)) (sels : List (DiscIO V))
    (hlen : sels.length = ds.length)
    (hk : ∀ d ∈ ds, ∀ w v, d.jac.present w v → w ∈ d.outs ∧ v ∈ d.ins)
    (hs : ∀ k (d : Disc β), ds[k]? = some d →
      (o ∈ d.outs → o ∈ (sels.getD k ([], [])).2) ∧ (x ∈ d.ins → x ∈ (sels.getD k ([], [])).1)) :
    List.Forall₂ (SamePair o x) (List.zipWith Disc.restrictTo ds sels) ds := by
  induction ds generalizing sels with
  | nil => simp
  | cons d ds ih =>
    cases sels with
    | nil => simp at hlen
    | cons s sels =>
      simp only [List.zipWith_cons_cons]
      refine List.Forall₂.cons ⟨rfl, ?_⟩ ?_
      · have := hs 0 d (by simp)
        simp only [List.getD_cons_zero] at this
        exact row_restrict_get d s o x (hk d (List.mem_cons_self ..)) this.1 this.2
      · apply ih sels (by simpa using hlen) (fun e he => hk e (List.mem_cons_of_mem _ he))
        intro k e he
        have := hs (k + 1) e (by simpa using he)
        simpa using this

end

end GV.C09
