/-
C19 — the well-formedness of a parameter space is preserved by every edit that returns normally
(`add_variable`, `add_random_vector`, `remove_variable`, `rename_variable`), hence holds after
every history of admissible edits.
-/
import GemseoVerif.Lemmas.C19Space

namespace GV.C19
open GV GV.C02

/-! ### Dictionary algebra -/

theorem dget_dset_same {β : Type} (m : List (String × β)) (k : String) (v : β) :
    dget (dset m k v) k = some v := by
  unfold dset
  split
  · rename_i h
    induction m with
    | nil => simp at h
    | cons a m ih =>
      simp only [List.map_cons, dget, List.find?_cons]
      by_cases ha : a.1 == k
      · simp [ha]
      · have ha' : (a.1 == k) = false := by simpa using ha
        simp only [ha', Bool.false_eq_true, if_false]
        have : m.any (fun p => p.1 == k) = true := by
          simp only [List.any_cons, ha', Bool.false_or] at h; exact h
        exact ih this
  · rename_i h
    simp only [Bool.not_eq_true] at h
    induction m with
    | nil => simp [dget]
    | cons a m ih =>
      simp only [List.any_cons, Bool.or_eq_false_iff] at h
      simp only [dget, List.cons_append, List.find?_cons, h.1] at ih ⊢
      exact ih h.2

theorem find_map_other {β : Type} (m : List (String × β)) (k k' : String) (v : β) (hne : k' ≠ k) :
    ((m.map (fun p => if p.1 == k then (k, v) else p)).find? (fun p => p.1 == k')).map (·.2) =
      (m.find? (fun p => p.1 == k')).map (·.2) := by
  induction m with
  | nil => rfl
  | cons a m ih =>
    simp only [List.map_cons, List.find?_cons]
    have h1 : (k == k') = false := by simpa using fun e : k = k' => hne e.symm
    by_cases ha : a.1 == k
    · have hk : a.1 = k := by simpa using ha
      have h2 : (a.1 == k') = false := by rw [hk]; exact h1
      simp only [ha, if_true, h1, h2]
      exact ih
    · have ha' : (a.1 == k) = false := by simpa using ha
      simp only [ha', Bool.false_eq_true, if_false]
      cases hk' : a.1 == k'
      · exact ih
      · rfl

theorem dget_dset_other {β : Type} (m : List (String × β)) (k k' : String) (v : β) (hne : k' ≠ k) :
    dget (dset m k v) k' = dget m k' := by
  unfold dset
  split
  · exact find_map_other m k k' v hne
  · have h1 : (k == k') = false := by simpa using fun e : k = k' => hne e.symm
    simp [dget, List.find?_append, h1]

theorem dget_ddel_same {β : Type} (m : List (String × β)) (k : String) : dget (ddel m k) k = none := by
  simp only [dget, ddel, Option.map_eq_none_iff, List.find?_eq_none, List.mem_filter]
  intro a ha
  simpa using ha.2

theorem dget_ddel_other {β : Type} (m : List (String × β)) (k k' : String) (hne : k' ≠ k) :
    dget (ddel m k) k' = dget m k' := by
  unfold dget ddel
  congr 1
  induction m with
  | nil => rfl
  | cons a m ih =>
    by_cases ha : a.1 == k
    · have hk : a.1 = k := by simpa using ha
      have h2 : (a.1 == k') = false := by rw [hk]; simpa using fun e : k = k' => hne e.symm
      simp only [List.filter_cons, ha, Bool.not_true, Bool.false_eq_true, if_false, List.find?_cons, h2]
      exact ih
    · have ha' : (a.1 == k) = false := by simpa using ha
      simp only [List.filter_cons, ha', Bool.not_false, if_true, List.find?_cons]
      cases a.1 == k'
      · exact ih
      · rfl

/-! ### Facts about the design-space edits -/

theorem addVariable_some (d d' : DS) (tol : Rat) (v : Var) (h : d.addVariable tol v = some d') :
    d.contains v.name = false ∧ d'.vars = d.vars ++ [v] := by
  unfold DS.addVariable at h
  split at h
  · cases h
  · rename_i hc
    split at h
    · cases h
    · split at h
      · cases h
      · split at h
        · split at h
          · cases h; exact ⟨by simpa using hc, rfl⟩
          · cases h
        · cases h; exact ⟨by simpa using hc, rfl⟩

theorem removeVariable_some (d d' : DS) (n : String) (h : d.removeVariable n = some d') :
    d'.vars = d.vars.filter (fun v => !(v.name == n)) := by
  unfold DS.removeVariable at h
  split at h
  · cases h; rfl
  · cases h

theorem renameVariable_some (d d' : DS) (old new : String) (h : d.renameVariable old new = some d') :
    d.contains old = true ∧ d.contains new = false ∧
    d'.vars = d.vars.map (fun v => if v.name == old then { v with name := new } else v) := by
  unfold DS.renameVariable at h
  split at h
  · cases h
  · rename_i h1
    split at h
    · cases h
    · rename_i h2
      cases h
      exact ⟨by simpa using h1, by simpa using h2, rfl⟩

theorem mem_names_iff (d : DS) (n : String) : n ∈ d.names ↔ ∃ v ∈ d.vars, v.name = n := by
  simp [DS.names]

theorem margsOf_eq (p q : PS) (n : String) (h : dget q.dists n = dget p.dists n) :
    q.margsOf n = p.margsOf n := by
  simp [PS.margsOf, h]

theorem margsOf_mk (ds : DS) (unc : List String) (dists : List (String × List MargSpec))
    (joint : List MargSpec) (fam : Option String) (k : String) :
    PS.margsOf ⟨ds, unc, dists, joint, fam⟩ k = (dget dists k).getD [] := rfl

/-! ### Each edit preserves well-formedness when it returns normally -/

theorem wf_empty : PS.empty.WF :=
  ⟨⟨by simp [PS.empty, DS.empty, DS.names], by intro v hv; simp [PS.empty, DS.empty] at hv⟩,
    by simp [PS.empty], by simp [PS.empty], by simp [PS.empty]⟩

theorem wf_addVariable (p : PS) (tol : Rat) (v : Var) (hwf : p.WF)
    (hok : (p.addVariable tol v).2 = true) : (p.addVariable tol v).1.WF := by
  unfold PS.addVariable at hok ⊢
  cases h : p.ds.addVariable tol v with
  | none => simp [h] at hok
  | some d' =>
    simp only
    obtain ⟨hnc, hvars⟩ := addVariable_some p.ds d' tol v h
    have hnot : v.name ∉ p.ds.names := by
      intro hm
      have := (contains_iff p.ds v.name).mpr hm
      rw [hnc] at this; cases this
    refine ⟨C02.wf_addVariable p.ds d' tol v hwf.ds h, hwf.uncNodup, ?_, ?_⟩
    · intro n hn
      rw [mem_names_iff, hvars]
      obtain ⟨w, hw, hwn⟩ := (mem_names_iff p.ds n).mp (hwf.uncSub n hn)
      exact ⟨w, List.mem_append_left _ hw, hwn⟩
    · intro n hn w hw hwn
      change w ∈ d'.vars at hw
      rw [hvars, List.mem_append] at hw
      rcases hw with hw | hw
      · exact hwf.margLen n hn w hw hwn
      · simp only [List.mem_singleton] at hw
        subst hw
        exact absurd (hwn ▸ hwf.uncSub n hn) hnot

theorem margsFor_length (cls : String) (params : List (String × List Rat)) (d : Nat) :
    (margsFor cls params d).length = d := by simp [margsFor]

theorem rebuildJoint_fields (p : PS) :
    p.rebuildJoint.ds = p.ds ∧ p.rebuildJoint.unc = p.unc ∧ p.rebuildJoint.dists = p.dists := by
  unfold PS.rebuildJoint; split <;> simp

theorem wf_addRandomVector (p : PS) (env : Env) (tol : Rat) (name cls fam : String) (size : Nat)
    (params : List (String × List Rat)) (hwf : p.WF)
    (hok : (p.addRandomVector env tol name cls fam size params).2 = true) :
    (p.addRandomVector env tol name cls fam size params).1.WF := by
  -- the `go` part, for any state with the same ds/unc/dists
  have key : ∀ q : PS, q.WF → q.ds.contains name = false →
      (PS.addRandomVector.go env tol name cls size params q).2 = true →
      (PS.addRandomVector.go env tol name cls size params q).1.WF := by
    intro q hq hnc hgo
    unfold PS.addRandomVector.go at hgo ⊢
    cases hvs : vectorSize (params.map (fun kv => kv.2.length)) size with
    | none => simp [hvs] at hgo
    | some d =>
      simp only [hvs] at hgo ⊢
      generalize hp1 : PS.mk q.ds (q.unc ++ [name]) (dset q.dists name (margsFor cls params d))
        q.joint q.fam = p1 at hgo ⊢
      obtain ⟨e1, e2, e3⟩ := rebuildJoint_fields p1
      cases hadd : p1.rebuildJoint.ds.addVariable tol (randomVar env name (margsFor cls params d)) with
      | none => simp [hadd] at hgo
      | some d' =>
        simp only
        have hds : p1.ds = q.ds := by rw [← hp1]
        have hunc : p1.unc = q.unc ++ [name] := by rw [← hp1]
        have hdists : p1.dists = dset q.dists name (margsFor cls params d) := by rw [← hp1]
        rw [e1, hds] at hadd
        obtain ⟨_, hvars⟩ := addVariable_some q.ds d' tol _ hadd
        have hnot : name ∉ q.ds.names := by
          intro hm
          have := (contains_iff q.ds name).mpr hm
          rw [hnc] at this; cases this
        have hnunc : name ∉ q.unc := fun h => hnot (hq.uncSub name h)
        refine ⟨C02.wf_addVariable q.ds d' tol _ hq.ds hadd, ?_, ?_, ?_⟩
        · change (p1.rebuildJoint.unc).Nodup
          rw [e2, hunc]
          exact List.nodup_append.mpr ⟨hq.uncNodup, by simp, by
            intro a ha b hb; simp only [List.mem_singleton] at hb; subst hb
            intro e; subst e; exact hnunc ha⟩
        · intro n hn
          change n ∈ p1.rebuildJoint.unc at hn
          rw [e2, hunc, List.mem_append] at hn
          change n ∈ d'.names
          rw [mem_names_iff, hvars]
          rcases hn with hn | hn
          · obtain ⟨w, hw, hwn⟩ := (mem_names_iff q.ds n).mp (hq.uncSub n hn)
            exact ⟨w, List.mem_append_left _ hw, hwn⟩
          · simp only [List.mem_singleton] at hn
            exact ⟨randomVar env name (margsFor cls params d), List.mem_append_right _ (by simp),
              by simp [randomVar, hn]⟩
        · intro n hn w hw hwn
          change n ∈ p1.rebuildJoint.unc at hn
          change w ∈ d'.vars at hw
          rw [e2, hunc, List.mem_append] at hn
          rw [hvars, List.mem_append] at hw
          rw [margsOf_mk, e3, hdists]
          rcases hw with hw | hw
          · have hne : n ≠ name := by
              intro e; subst e
              exact hnot ((mem_names_iff q.ds n).mpr ⟨w, hw, hwn⟩)
            rw [dget_dset_other _ _ _ _ hne]
            rcases hn with hn | hn
            · exact hq.margLen n hn w hw hwn
            · simp only [List.mem_singleton] at hn; exact absurd hn hne
          · simp only [List.mem_singleton] at hw
            subst hw
            have : n = name := by simpa [randomVar] using hwn.symm
            subst this
            rw [dget_dset_same]
            simp [randomVar, Var.size, margsFor_length]
  unfold PS.addRandomVector at hok ⊢
  split at hok
  · simp at hok
  · rename_i hc
    have hnc : p.ds.contains name = false := by simpa using hc
    simp only [hc, Bool.false_eq_true, if_false]
    cases hf : p.fam with
    | none =>
      simp only [hf] at hok ⊢
      exact key { p with fam := some fam } ⟨hwf.ds, hwf.uncNodup, hwf.uncSub, hwf.margLen⟩ hnc hok
    | some f =>
      simp only [hf] at hok ⊢
      split at hok
      · simp at hok
      · rename_i hff
        simp only [hff, if_false]
        exact key p hwf hnc hok

theorem wf_removeVariable (p : PS) (name : String) (hwf : p.WF)
    (hok : (p.removeVariable name).2 = true) : (p.removeVariable name).1.WF := by
  unfold PS.removeVariable at hok ⊢
  simp only at hok ⊢
  generalize hp1 : (if p.unc.contains name = true then
      ({ p with dists := ddel p.dists name, unc := p.unc.erase name } : PS).rebuildJoint else p) = p1
    at hok ⊢
  have hds : p1.ds = p.ds := by
    rw [← hp1]; split
    · exact (rebuildJoint_fields _).1
    · rfl
  have hunc : p1.unc = p.unc.erase name := by
    rw [← hp1]; split
    · exact (rebuildJoint_fields _).2.1
    · rename_i h
      have : name ∉ p.unc := by simpa [List.contains_iff_mem] using h
      exact (List.erase_of_not_mem this).symm
  have hmarg : ∀ k, k ≠ name → p1.margsOf k = p.margsOf k := by
    intro k hk
    rw [← hp1]; split
    · apply margsOf_eq
      rw [(rebuildJoint_fields _).2.2]
      exact dget_ddel_other _ _ _ hk
    · rfl
  cases hrm : p1.ds.removeVariable name with
  | none => simp [hrm] at hok
  | some d' =>
    simp only
    rw [hds] at hrm
    have hvars := removeVariable_some p.ds d' name hrm
    have hmem : ∀ n, n ∈ p.unc.erase name → n ∈ p.unc ∧ n ≠ name := by
      intro n hn
      exact ⟨List.mem_of_mem_erase hn, fun e => by
        subst e; exact (List.Nodup.not_mem_erase hwf.uncNodup) hn⟩
    refine ⟨C02.wf_removeVariable p.ds d' name hwf.ds hrm, ?_, ?_, ?_⟩
    · change p1.unc.Nodup
      rw [hunc]; exact hwf.uncNodup.erase _
    · intro n hn
      change n ∈ p1.unc at hn
      rw [hunc] at hn
      obtain ⟨h1, h2⟩ := hmem n hn
      change n ∈ d'.names
      rw [mem_names_iff, hvars]
      obtain ⟨w, hw, hwn⟩ := (mem_names_iff p.ds n).mp (hwf.uncSub n h1)
      exact ⟨w, List.mem_filter.mpr ⟨hw, by simpa [hwn] using h2⟩, hwn⟩
    · intro n hn w hw hwn
      change n ∈ p1.unc at hn
      change w ∈ d'.vars at hw
      rw [hunc] at hn
      obtain ⟨h1, h2⟩ := hmem n hn
      rw [hvars] at hw
      have : (dget p1.dists n).getD [] = p1.margsOf n := rfl
      rw [margsOf_mk, this, hmarg n h2]
      exact hwf.margLen n h1 w (List.mem_filter.mp hw).1 hwn

theorem replaceFirst_eq_map (l : List String) (a b : String) (hnd : l.Nodup) :
    replaceFirst l a b = l.map (fun n => if n == a then b else n) := by
  induction l with
  | nil => rfl
  | cons x xs ih =>
    simp only [replaceFirst, List.map_cons]
    by_cases hx : x == a
    · simp only [hx, if_true, List.cons.injEq, true_and]
      have hxa : x = a := by simpa using hx
      have hnot : a ∉ xs := hxa ▸ (List.nodup_cons.mp hnd).1
      have hid : xs.map (fun n => if n == a then b else n) = xs.map id := by
        apply List.map_congr_left
        intro y hy
        have : (y == a) = false := by
          simp only [beq_eq_false_iff_ne, ne_eq]; intro e; subst e; exact hnot hy
        simp [this]
      rw [hid, List.map_id]
    · have hx' : (x == a) = false := by simpa using hx
      simp only [hx', Bool.false_eq_true, if_false]
      rw [ih (List.nodup_cons.mp hnd).2]

theorem wf_renameVariable (p : PS) (cur new : String) (hwf : p.WF)
    (hok : (p.renameVariable cur new).2 = true) : (p.renameVariable cur new).1.WF := by
  unfold PS.renameVariable at hok ⊢
  cases hrn : p.ds.renameVariable cur new with
  | none => simp [hrn] at hok
  | some d' =>
    simp only
    obtain ⟨hc1, hc2, hvars⟩ := renameVariable_some p.ds d' cur new hrn
    have hnew : new ∉ p.ds.names := by
      intro hm
      have := (contains_iff p.ds new).mpr hm
      rw [hc2] at this; cases this
    have hd' := C02.wf_renameVariable p.ds d' cur new hwf.ds hrn
    have hnames : ∀ n, n ∈ p.ds.names → (if n == cur then new else n) ∈ d'.names := by
      intro n hn
      obtain ⟨w, hw, hwn⟩ := (mem_names_iff p.ds n).mp hn
      rw [mem_names_iff, hvars]
      refine ⟨_, List.mem_map_of_mem hw, ?_⟩
      subst hwn
      by_cases h : w.name == cur <;> simp [h]
    split
    · rename_i hcu
      have hcur : cur ∈ p.unc := by simpa [List.contains_iff_mem] using hcu
      have hrf := replaceFirst_eq_map p.unc cur new hwf.uncNodup
      have hnewu : new ∉ p.unc := fun h => hnew (hwf.uncSub new h)
      refine ⟨hd', ?_, ?_, ?_⟩
      · change (replaceFirst p.unc cur new).Nodup
        rw [hrf]
        apply List.Nodup.map_on _ hwf.uncNodup
        intro a ha b hb hab
        by_cases h1 : a == cur <;> by_cases h2 : b == cur <;> simp only [h1, h2, if_true,
          Bool.false_eq_true, if_false] at hab
        · rw [eq_of_beq h1, eq_of_beq h2]
        · subst hab; exact absurd hb hnewu
        · subst hab; exact absurd ha hnewu
        · exact hab
      · intro n hn
        change n ∈ replaceFirst p.unc cur new at hn
        rw [hrf, List.mem_map] at hn
        obtain ⟨a, ha, rfl⟩ := hn
        exact hnames a (hwf.uncSub a ha)
      · intro n hn w hw hwn
        change n ∈ replaceFirst p.unc cur new at hn
        change w ∈ d'.vars at hw
        rw [hrf, List.mem_map] at hn
        obtain ⟨a, ha, han⟩ := hn
        rw [hvars, List.mem_map] at hw
        obtain ⟨w0, hw0, hw0w⟩ := hw
        rw [margsOf_mk]
        by_cases hac : a == cur
        · have : n = new := by simpa [hac] using han.symm
          subst this
          rw [dget_dset_same]
          simp only [Option.getD_some]
          -- w is the renamed variable
          by_cases h0 : w0.name == cur
          · simp only [h0, if_true] at hw0w
            subst hw0w
            exact hwf.margLen cur hcur w0 hw0 (eq_of_beq h0)
          · simp only [h0, Bool.false_eq_true, if_false] at hw0w
            subst hw0w
            exact absurd ((mem_names_iff p.ds _).mpr ⟨w0, hw0, hwn⟩) hnew
        · have hna : n = a := by simpa [hac] using han.symm
          subst hna
          have hne1 : n ≠ cur := by simpa using hac
          have hne2 : n ≠ new := fun e => hnewu (e ▸ ha)
          rw [dget_dset_other _ _ _ _ hne2, dget_ddel_other _ _ _ hne1]
          by_cases h0 : w0.name == cur
          · simp only [h0, if_true] at hw0w
            subst hw0w
            exact absurd hwn.symm hne2
          · simp only [h0, Bool.false_eq_true, if_false] at hw0w
            subst hw0w
            exact hwf.margLen n ha w0 hw0 hwn
    · rename_i hcu
      have hcur : cur ∉ p.unc := by simpa [List.contains_iff_mem] using hcu
      refine ⟨hd', hwf.uncNodup, ?_, ?_⟩
      · intro n hn
        have := hnames n (hwf.uncSub n hn)
        have hne : (n == cur) = false := by
          simp only [beq_eq_false_iff_ne, ne_eq]; intro e; subst e; exact hcur hn
        simpa [hne] using this
      · intro n hn w hw hwn
        change w ∈ d'.vars at hw
        rw [hvars, List.mem_map] at hw
        obtain ⟨w0, hw0, hw0w⟩ := hw
        have hnewu : new ∉ p.unc := fun h => hnew (hwf.uncSub new h)
        by_cases h0 : w0.name == cur
        · simp only [h0, if_true] at hw0w
          subst hw0w
          have hnn : new = n := hwn
          subst hnn
          exact absurd hn hnewu
        · simp only [h0, Bool.false_eq_true, if_false] at hw0w
          subst hw0w
          exact hwf.margLen n hn w0 hw0 hwn

/-- Every edit that returns normally preserves well-formedness. -/
theorem wf_apply (env : Env) (tol : Rat) (p : PS) (op : Op) (hwf : p.WF)
    (hok : (p.apply env tol op).2 = true) : (p.apply env tol op).1.WF := by
  cases op with
  | addDet v => exact wf_addVariable p tol v hwf hok
  | addRnd n c f s ps => exact wf_addRandomVector p env tol n c f s ps hwf hok
  | remove n => exact wf_removeVariable p n hwf hok
  | rename c n => exact wf_renameVariable p c n hwf hok

end GV.C19

namespace GV.C19
open GV GV.C02

/-- Histories of admissible edits: every edit returns normally (`none` otherwise). -/
def PS.runAll (env : Env) (tol : Rat) : PS → List Op → Option PS
  | p, [] => some p
  | p, op :: ops =>
    let r := p.apply env tol op
    if r.2 then PS.runAll env tol r.1 ops else none

theorem wf_runAll (env : Env) (tol : Rat) (ops : List Op) (p q : PS) (hwf : p.WF)
    (h : PS.runAll env tol p ops = some q) : q.WF := by
  induction ops generalizing p with
  | nil => simp only [PS.runAll, Option.some.injEq] at h; subst h; exact hwf
  | cons op ops ih =>
    simp only [PS.runAll] at h
    split at h
    · rename_i hok
      exact ih _ (wf_apply env tol p op hwf hok) h
    · cases h

/-! ### The stored joint distribution -/

/-- The stored joint distribution is the one derived from `uncertain_variables` and
    `distributions` whenever there is an uncertain variable. -/
def PS.JointOk (p : PS) : Prop := p.unc ≠ [] → p.joint = p.derivedJoint

theorem rebuildJoint_jointOk (p : PS) : p.rebuildJoint.JointOk := by
  unfold PS.rebuildJoint PS.JointOk
  split
  · rename_i h
    intro hne
    exact absurd (by simpa using h) hne
  · intro _; rfl

theorem derivedJoint_congr (p q : PS) (hu : q.unc = p.unc) (hd : q.dists = p.dists) :
    q.derivedJoint = p.derivedJoint := by
  unfold PS.derivedJoint PS.margsOf
  rw [hu, hd]

theorem jointOk_apply (env : Env) (tol : Rat) (p : PS) (op : Op) (hwf : p.WF) (hj : p.JointOk)
    (hok : (p.apply env tol op).2 = true) : (p.apply env tol op).1.JointOk := by
  cases op with
  | addDet v =>
    simp only [PS.apply, PS.addVariable] at hok ⊢
    cases h : p.ds.addVariable tol v with
    | none => simp [h] at hok
    | some d' => exact hj
  | addRnd name cls fam size params =>
    have key : ∀ q : PS, (PS.addRandomVector.go env tol name cls size params q).2 = true →
        (PS.addRandomVector.go env tol name cls size params q).1.JointOk := by
      intro q hgo
      unfold PS.addRandomVector.go at hgo ⊢
      cases hvs : vectorSize (params.map (fun kv => kv.2.length)) size with
      | none => simp [hvs] at hgo
      | some d =>
        simp only [hvs] at hgo ⊢
        generalize PS.mk q.ds (q.unc ++ [name]) (dset q.dists name (margsFor cls params d))
          q.joint q.fam = p1 at hgo ⊢
        cases hadd : p1.rebuildJoint.ds.addVariable tol (randomVar env name (margsFor cls params d)) with
        | none => simp [hadd] at hgo
        | some d' =>
          simp only
          have := rebuildJoint_jointOk p1
          intro hne
          exact this hne
    simp only [PS.apply] at hok ⊢
    unfold PS.addRandomVector at hok ⊢
    split at hok
    · simp at hok
    · rename_i hc
      simp only [hc, Bool.false_eq_true, if_false]
      cases hf : p.fam with
      | none => simp only [hf] at hok ⊢; exact key _ hok
      | some f =>
        simp only [hf] at hok ⊢
        split at hok
        · simp at hok
        · rename_i hff
          simp only [hff, if_false]
          exact key _ hok
  | remove name =>
    simp only [PS.apply, PS.removeVariable] at hok ⊢
    by_cases hc : p.unc.contains name = true
    · simp only [hc, if_true] at hok ⊢
      generalize PS.mk p.ds (p.unc.erase name) (ddel p.dists name) p.joint p.fam = q at hok ⊢
      cases hrm : q.rebuildJoint.ds.removeVariable name with
      | none => simp [hrm] at hok
      | some d' =>
        simp only
        have := rebuildJoint_jointOk q
        intro hne; exact this hne
    · simp only [hc, Bool.false_eq_true, if_false] at hok ⊢
      cases hrm : p.ds.removeVariable name with
      | none => simp [hrm] at hok
      | some d' => exact hj
  | rename cur new =>
    simp only [PS.apply, PS.renameVariable] at hok ⊢
    cases hrn : p.ds.renameVariable cur new with
    | none => simp [hrn] at hok
    | some d' =>
      simp only
      obtain ⟨_, hc2, _⟩ := renameVariable_some p.ds d' cur new hrn
      have hnew : new ∉ p.ds.names := by
        intro hm
        have := (contains_iff p.ds new).mpr hm
        rw [hc2] at this; cases this
      have hnewu : new ∉ p.unc := fun h => hnew (hwf.uncSub new h)
      split
      · rename_i hcu
        have hcur : cur ∈ p.unc := by simpa [List.contains_iff_mem] using hcu
        intro hne
        have hpne : p.unc ≠ [] := List.ne_nil_of_mem hcur
        change p.joint = PS.derivedJoint ⟨d', replaceFirst p.unc cur new,
          dset (ddel p.dists cur) new (p.margsOf cur), p.joint, p.fam⟩
        rw [hj hpne]
        unfold PS.derivedJoint
        simp only
        rw [replaceFirst_eq_map p.unc cur new hwf.uncNodup, List.flatMap_map]
        apply List.flatMap_congr
        intro n hn
        simp only [PS.margsOf]
        by_cases h : n == cur
        · have : n = cur := eq_of_beq h
          subst this
          simp only [h, if_true, dget_dset_same, Option.getD_some]
        · have hne1 : n ≠ cur := by simpa using h
          have hne2 : n ≠ new := fun e => hnewu (e ▸ hn)
          simp only [h, Bool.false_eq_true, if_false]
          rw [dget_dset_other _ _ _ _ hne2, dget_ddel_other _ _ _ hne1]
      · exact hj

theorem jointOk_runAll (env : Env) (tol : Rat) (ops : List Op) (p q : PS) (hwf : p.WF)
    (hj : p.JointOk) (h : PS.runAll env tol p ops = some q) : q.JointOk := by
  induction ops generalizing p with
  | nil => simp only [PS.runAll, Option.some.injEq] at h; subst h; exact hj
  | cons op ops ih =>
    simp only [PS.runAll] at h
    split at h
    · rename_i hok
      exact ih _ (wf_apply env tol p op hwf hok) (jointOk_apply env tol p op hwf hj hok) h
    · cases h

end GV.C19
