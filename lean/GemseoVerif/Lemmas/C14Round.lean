/-
C14 helper lemmas: `roundHalfEven` (numpy.round) stays between integer bounds, fixes integers and is
within 1/2 of its argument; integrality of rationals.
-/
import GemseoVerif.Model.C14
import Mathlib.Tactic.Linarith
import Mathlib.Tactic.Ring
import Mathlib.Tactic.SplitIfs
import Mathlib.Algebra.Order.Field.Rat
import Mathlib.Algebra.Order.Ring.Rat

namespace GV.C14
open GV GV.C02

theorem roundHalfEven_cases (r : Rat) :
    roundHalfEven r = r.floor ∨ (roundHalfEven r = r.floor + 1 ∧ (1 / 2 : Rat) ≤ r - (r.floor : Rat)) := by
  unfold roundHalfEven
  simp only []
  split_ifs with h1 h2 h3
  · exact Or.inl rfl
  · exact Or.inr ⟨rfl, le_of_lt h2⟩
  · exact Or.inl rfl
  · exact Or.inr ⟨rfl, not_lt.mp h1⟩

/-- The rounded value is at least every integer below the argument. -/
theorem le_roundHalfEven (k : Int) (r : Rat) (h : (k : Rat) ≤ r) : k ≤ roundHalfEven r := by
  have hk : k ≤ r.floor := Rat.le_floor_iff.mpr h
  rcases roundHalfEven_cases r with h0 | ⟨h1, _⟩
  · omega
  · omega

/-- The rounded value is at most every integer above the argument. -/
theorem roundHalfEven_le (k : Int) (r : Rat) (h : r ≤ (k : Rat)) : roundHalfEven r ≤ k := by
  have hfl : (r.floor : Rat) ≤ r := Rat.floor_le r
  rcases roundHalfEven_cases r with h0 | ⟨h1, hd⟩
  · rw [h0]
    have : ((r.floor : Int) : Rat) ≤ (k : Rat) := le_trans hfl h
    exact_mod_cast this
  · rw [h1]
    -- floor r + 1/2 ≤ r ≤ k, hence floor r < k
    have hlt : ((r.floor : Int) : Rat) < (k : Rat) := by linarith
    have : r.floor < k := by exact_mod_cast hlt
    omega

/-- Integers are fixed by the rounding. -/
theorem roundHalfEven_intCast (k : Int) : roundHalfEven (k : Rat) = k :=
  le_antisymm (roundHalfEven_le k _ (le_refl _)) (le_roundHalfEven k _ (le_refl _))

/-- The rounding moves a number by at most 1/2. -/
theorem roundHalfEven_near (r : Rat) :
    (roundHalfEven r : Rat) - r ≤ 1 / 2 ∧ r - (roundHalfEven r : Rat) ≤ 1 / 2 := by
  have hfl : (r.floor : Rat) ≤ r := Rat.floor_le r
  have hlt : r < ((r.floor + 1 : Int) : Rat) := Rat.lt_floor_add_one r
  push_cast at hlt
  unfold roundHalfEven
  simp only []
  split_ifs with h1 h2 h3
  · constructor <;> linarith
  · push_cast
    constructor <;> linarith
  · have h1' : (1 / 2 : Rat) ≤ r - (r.floor : Rat) := not_lt.mp h1
    have h2' : r - (r.floor : Rat) ≤ 1 / 2 := not_lt.mp h2
    constructor <;> linarith
  · have h1' : (1 / 2 : Rat) ≤ r - (r.floor : Rat) := not_lt.mp h1
    have h2' : r - (r.floor : Rat) ≤ 1 / 2 := not_lt.mp h2
    push_cast
    constructor <;> linarith

/-- A rational with denominator 1 is its numerator. -/
theorem isIntegral_iff (r : Rat) : isIntegral r = true ↔ ∃ k : Int, r = (k : Rat) := by
  unfold isIntegral
  constructor
  · intro h
    have hd : r.den = 1 := by simpa using h
    exact ⟨r.num, (Rat.den_eq_one_iff r).mp hd |>.symm⟩
  · rintro ⟨k, rfl⟩
    simp

theorem isIntegral_intCast (k : Int) : isIntegral (k : Rat) = true := (isIntegral_iff _).mpr ⟨k, rfl⟩

/-- `roundIf` between integer-or-not bounds: a value within `[l, u]` stays within `[l, u]` when, for
    integer components, the bounds are integral. -/
theorem roundIf_between (b : Bool) (l u y : Rat) (hl : l ≤ y) (hu : y ≤ u)
    (hint : b = true → isIntegral l = true ∧ isIntegral u = true) :
    l ≤ roundIf b y ∧ roundIf b y ≤ u := by
  unfold roundIf
  cases b with
  | false => simpa using ⟨hl, hu⟩
  | true =>
    obtain ⟨kl, rfl⟩ := (isIntegral_iff _).mp (hint rfl).1
    obtain ⟨ku, rfl⟩ := (isIntegral_iff _).mp (hint rfl).2
    simp only [if_true]
    constructor
    · exact_mod_cast le_roundHalfEven kl y hl
    · exact_mod_cast roundHalfEven_le ku y hu

theorem roundIf_integral (y : Rat) : isIntegral (roundIf true y) = true := by
  simp [roundIf, isIntegral_intCast]

/-- Rounding an integral value changes nothing. -/
theorem roundIf_of_integral (b : Bool) (y : Rat) (h : b = true → isIntegral y = true) : roundIf b y = y := by
  unfold roundIf
  cases b with
  | false => simp
  | true =>
    obtain ⟨k, rfl⟩ := (isIntegral_iff _).mp (h rfl)
    simp [roundHalfEven_intCast]

end GV.C14
