/-
C14 — the cache of normalisation data of the design-space object can never be observed:
lemmas for `Props/C14` section 7 (sessions: edits, queries and DOEs on one design-space object).
-/
import GemseoVerif.Lemmas.C14

namespace GV.C14
open GV GV.C02

/-! ### The stored arrays, when fresh, give the C02 maps -/

theorem normData_unnormalize (d : DS) (u : List Rat) :
    (NormData.of d).unnormalize u = d.unnormalizeVect true u := by
  simp [NormData.of, NormData.unnormalize, DS.unnormalizeVect]

theorem normData_normalize (d : DS) (x : List Rat) :
    (NormData.of d).normalize x = d.normalizeVect true x := rfl

/-- What the normalisation data depends on: type and bounds of every variable, in order. -/
def Var.core (v : Var) : Bool × List (Option Rat) × List (Option Rat) := (v.isInt, v.lb, v.ub)

theorem flatMap_eq_of_core {β : Type} (f : Var → List β)
    (g : Bool × List (Option Rat) × List (Option Rat) → List β) (hf : ∀ v, f v = g (Var.core v))
    (vs vs' : List Var) (hv : vs'.map Var.core = vs.map Var.core) : vs'.flatMap f = vs.flatMap f := by
  have key : ∀ ws : List Var, ws.flatMap f = (ws.map Var.core).flatMap g := by
    intro ws
    induction ws with
    | nil => rfl
    | cons v ws ih => simp [List.flatMap_cons, ih, hf]
  rw [key vs', key vs, hv]

theorem normData_of_core (d d' : DS) (hv : d'.vars.map Var.core = d.vars.map Var.core)
    (hi : d'.intNorm = d.intNorm) : NormData.of d' = NormData.of d := by
  have h1 : d'.flatLb = d.flatLb :=
    flatMap_eq_of_core (·.lb) (fun c => c.2.1) (fun _ => rfl) _ _ hv
  have h2 : d'.flatUb = d.flatUb :=
    flatMap_eq_of_core (·.ub) (fun c => c.2.2) (fun _ => rfl) _ _ hv
  have h3 : d'.intMask = d.intMask :=
    flatMap_eq_of_core (fun v => List.replicate v.size v.isInt)
      (fun c => List.replicate c.2.1.length c.1) (fun _ => rfl) _ _ hv
  have h4 : d'.normMask = d.normMask := by
    simp only [DS.normMask, hi]
    exact flatMap_eq_of_core (Var.normMask d.intNorm)
      (fun c => (c.2.1.zip c.2.2).map (fun p => (!c.1 || d.intNorm) && p.1.isSome && p.2.isSome))
      (fun _ => rfl) _ _ hv
  simp [NormData.of, h1, h2, h3, h4]

/-! ### Edits that do not reset the flag do not change the data -/

theorem map_core_map (vs : List Var) (f : Var → Var) (h : ∀ v, Var.core (f v) = Var.core v) :
    (vs.map f).map Var.core = vs.map Var.core := by
  rw [List.map_map]
  exact List.map_congr_left (fun v _ => h v)

theorem map_core_zipWith (vs : List Var) (ps : List (List Rat)) (h : vs.length = ps.length) :
    (List.zipWith (fun (v : Var) p => { v with value := some p }) vs ps).map Var.core = vs.map Var.core := by
  induction vs generalizing ps with
  | nil => simp
  | cons v vs ih =>
    cases ps with
    | nil => simp at h
    | cons p ps =>
      simp only [List.length_cons, Nat.add_right_cancel_iff] at h
      simp [List.zipWith_cons_cons, ih ps h, Var.core]

theorem core_apply_of_not_invalidates (tol : Rat) (d : DS) (op : Op) (h : invalidates d op = false) :
    (d.apply tol op).vars.map Var.core = d.vars.map Var.core ∧ (d.apply tol op).intNorm = d.intNorm := by
  cases op with
  | add v => simp [invalidates] at h
  | remove n => simp [invalidates] at h
  | filterDim n dims => simp [invalidates] at h
  | setLb n b => simp [invalidates] at h
  | setUb n b => simp [invalidates] at h
  | extend vs =>
    simp only [invalidates, Bool.not_eq_eq_eq_not, Bool.not_false, List.isEmpty_iff] at h
    subst h
    simp [DS.apply, DS.extend]
  | filter keep =>
    simp only [invalidates] at h
    simp only [DS.apply, DS.filter]
    split_ifs with hk
    · have hall : ∀ v ∈ d.vars, keep.contains v.name = true := by
        intro v hv
        by_contra hc
        have : d.vars.any (fun v => !keep.contains v.name) = true :=
          List.any_eq_true.mpr ⟨v, hv, by simpa using hc⟩
        rw [h] at this
        exact Bool.false_ne_true this
      simp only [Option.getD_some]
      rw [List.filter_eq_self.mpr hall]
      simp
    · simp
  | rename o n =>
    simp only [DS.apply, DS.renameVariable]
    split_ifs
    · exact ⟨rfl, rfl⟩
    · exact ⟨rfl, rfl⟩
    · refine ⟨?_, rfl⟩
      simp only [Option.getD_some]
      apply map_core_map
      intro v
      split_ifs <;> rfl
  | setArr x =>
    simp only [DS.apply, DS.setCurrentArray]
    split_ifs
    · exact ⟨rfl, rfl⟩
    · refine ⟨?_, rfl⟩
      simp only [Option.getD_some]
      apply map_core_zipWith
      rw [splitBySizes_length]
      simp [DS.sizes]
    · exact ⟨rfl, rfl⟩
  | setDict m =>
    simp only [DS.apply, DS.setCurrentDict]
    split_ifs
    · refine ⟨?_, rfl⟩
      simp only [Option.getD_some]
      exact map_core_map _ _ (fun v => rfl)
    · refine ⟨?_, rfl⟩
      simp only [Option.getD_some]
      exact map_core_map _ _ (fun v => rfl)
    · exact ⟨rfl, rfl⟩
  | setVar n x =>
    simp only [DS.apply]
    split
    · split_ifs
      · simp only [DS.setCurrentVariable]
        split_ifs
        · refine ⟨?_, rfl⟩
          simp only [Option.getD_some, updVar]
          apply map_core_map
          intro v
          split_ifs <;> rfl
        · exact ⟨rfl, rfl⟩
      · exact ⟨rfl, rfl⟩
    · exact ⟨rfl, rfl⟩
  | initMissing =>
    refine ⟨?_, rfl⟩
    simp only [DS.apply, DS.initMissing]
    apply map_core_map
    intro v
    cases v.value <;> rfl
  | intNorm b =>
    simp only [invalidates, bne_eq_false_iff_eq] at h
    simp [DS.apply, DS.setIntNorm, h]

/-! ### The invariant of the design-space object -/

/-- When the flag is set, the stored arrays are those of the variables as they are now. -/
def CDS.Inv (c : CDS) : Prop := c.computed = true → c.data = NormData.of c.ds

theorem CDS.inv_fresh (d : DS) (data : NormData) : CDS.Inv { ds := d, computed := false, data := data } := by
  intro h; simp at h

theorem CDS.ensure_ds (c : CDS) : c.ensure.ds = c.ds := by
  unfold CDS.ensure; split_ifs <;> rfl

theorem CDS.ensure_data (c : CDS) (h : c.Inv) : c.ensure.data = NormData.of c.ds := by
  unfold CDS.ensure
  split_ifs with hc
  · exact h hc
  · rfl

theorem CDS.ensure_inv (c : CDS) (h : c.Inv) : c.ensure.Inv := by
  intro _
  rw [CDS.ensure_data c h, CDS.ensure_ds]

theorem setIntNorm_same (d : DS) (b : Bool) (h : b = d.intNorm) : d.setIntNorm b = d := by
  subst h; cases d; rfl

theorem CDS.setIntNorm_ds (c : CDS) (b : Bool) : (c.setIntNorm b).ds = c.ds.setIntNorm b := by
  unfold CDS.setIntNorm
  split_ifs with hb
  · rfl
  · simp only [bne_iff_ne, ne_eq, Decidable.not_not] at hb
    exact (setIntNorm_same _ _ hb).symm

theorem CDS.setIntNorm_inv (c : CDS) (b : Bool) (h : c.Inv) : (c.setIntNorm b).Inv := by
  unfold CDS.setIntNorm
  split_ifs
  · intro hc; simp at hc
  · exact h

theorem CDS.edit_ds (tol : Rat) (c : CDS) (op : Op) : (c.edit tol op).ds = c.ds.apply tol op := rfl

/-- **Every public edit keeps the invariant**: it either resets the flag or leaves type, bounds and
    switch of every component as they were. -/
theorem CDS.edit_inv (tol : Rat) (c : CDS) (op : Op) (h : c.Inv) : (c.edit tol op).Inv := by
  intro hc
  simp only [CDS.edit, Bool.and_eq_true, Bool.not_eq_eq_eq_not, Bool.not_true] at hc
  obtain ⟨hc1, hc2⟩ := hc
  have := core_apply_of_not_invalidates tol c.ds op hc2
  simp only [CDS.edit]
  rw [normData_of_core c.ds (c.ds.apply tol op) this.1 this.2]
  exact h hc1

/-! ### A DOE on the object is the DOE on its variables -/

theorem generateC_spec (c : CDS) (lib : Lib) (r : Req) (h : c.Inv) :
    (generateC c lib r).1.ds = c.ds ∧ (generateC c lib r).1.Inv ∧
    ((generateC c lib r).2.1, (generateC c lib r).2.2) = generate c.ds lib r := by
  have hn : c.ensure.data.normalize = c.ds.normalizeVect true := by
    funext x
    rw [CDS.ensure_data c h, normData_normalize]
  by_cases hu : r.usesSeed = true
  · simp only [generateC, generate, hu, if_true]
    cases r.sampler (lib.seeder.getSeed r.seed).2 with
    | none => exact ⟨rfl, h, rfl⟩
    | some m =>
      simp only []
      split_ifs
      · exact ⟨CDS.ensure_ds c, CDS.ensure_inv c h, by rw [hn]⟩
      · exact ⟨rfl, h, rfl⟩
      · exact ⟨rfl, h, rfl⟩
  · simp only [generateC, generate, hu, Bool.false_eq_true, if_false]
    cases r.sampler 0 with
    | none => exact ⟨rfl, h, rfl⟩
    | some m =>
      simp only []
      split_ifs
      · exact ⟨CDS.ensure_ds c, CDS.ensure_inv c h, by rw [hn]⟩
      · exact ⟨rfl, h, rfl⟩
      · exact ⟨rfl, h, rfl⟩

theorem computeBodyC_spec (c1 : CDS) (lib : Lib) (r : Req) (h : c1.Inv) :
    (computeBodyC c1 lib r).1.ds = c1.ds ∧ (computeBodyC c1 lib r).1.Inv ∧
    ((computeBodyC c1 lib r).2.1, (computeBodyC c1 lib r).2.2) = computeBody c1.ds lib r := by
  obtain ⟨hd, hi, he⟩ := generateC_spec c1 lib r h
  unfold computeBodyC computeBody
  rw [← he]
  split_ifs with h1 h2 h3
  · exact ⟨rfl, h, rfl⟩
  · exact ⟨rfl, h, rfl⟩
  · revert hd hi
    rcases generateC c1 lib r with ⟨c2, lib1, res⟩
    intro hd hi
    simp only at hd hi
    cases res with
    | error e => exact ⟨hd, hi, rfl⟩
    | ok us => exact ⟨hd, hi, rfl⟩
  · revert hd hi
    rcases generateC c1 lib r with ⟨c2, lib1, res⟩
    intro hd hi
    simp only at hd hi
    cases res with
    | error e => exact ⟨hd, hi, rfl⟩
    | ok us =>
      simp only []
      refine ⟨by rw [CDS.ensure_ds, hd], CDS.ensure_inv c2 hi, ?_⟩
      have : c2.ensure.data.unnormalize = c1.ds.unnormalizeVect true := by
        funext u
        rw [CDS.ensure_data c2 hi, normData_unnormalize, hd]
      rw [this]

theorem preRunBodyC_spec (c1 : CDS) (lib : Lib) (r : Req) (h : c1.Inv) :
    (preRunBodyC c1 lib r).1.ds = c1.ds ∧ (preRunBodyC c1 lib r).1.Inv ∧
    ((preRunBodyC c1 lib r).2.1, (preRunBodyC c1 lib r).2.2) = preRunBody c1.ds lib r := by
  obtain ⟨hd, hi, he⟩ := generateC_spec c1 lib r h
  unfold preRunBodyC preRunBody
  rw [← he]
  split_ifs with h1
  · exact ⟨rfl, h, rfl⟩
  · revert hd hi
    rcases generateC c1 lib r with ⟨c2, lib1, res⟩
    intro hd hi
    simp only at hd hi
    cases res with
    | error e => exact ⟨hd, hi, rfl⟩
    | ok us =>
      simp only []
      refine ⟨by rw [CDS.ensure_ds, hd], CDS.ensure_inv c2 hi, ?_⟩
      have : c2.ensure.data.unnormalize = c1.ds.unnormalizeVect true := by
        funext u
        rw [CDS.ensure_data c2 hi, normData_unnormalize, hd]
      rw [this]

theorem enterC (c : CDS) (enabled : Bool) (h : c.Inv) :
    (if enabled then c.setIntNorm true else c).ds = enter c.ds enabled ∧
    (if enabled then c.setIntNorm true else c).Inv := by
  unfold enter
  split_ifs
  · exact ⟨CDS.setIntNorm_ds c true, CDS.setIntNorm_inv c true h⟩
  · exact ⟨rfl, h⟩

theorem leaveC (c : CDS) (d1 : DS) (enabled : Bool) (hd : c.ds = d1) (h : c.Inv) :
    (if enabled then c.setIntNorm false else c).ds = leave d1 enabled ∧
    (if enabled then c.setIntNorm false else c).Inv := by
  unfold leave
  split_ifs
  · exact ⟨by rw [CDS.setIntNorm_ds, hd], CDS.setIntNorm_inv c false h⟩
  · exact ⟨hd, h⟩

/-- **`compute_doe` on a design-space object with a cache = `compute_doe` on its variables.** -/
theorem computeDoeC_spec (c : CDS) (lib : Lib) (r : Req) (h : c.Inv) :
    (computeDoeC c lib r).1.ds = (computeDoe c.ds lib r).ds ∧ (computeDoeC c lib r).1.Inv ∧
    (computeDoeC c lib r).2.1 = (computeDoe c.ds lib r).lib ∧
    (computeDoeC c lib r).2.2 = (computeDoe c.ds lib r).result := by
  obtain ⟨h1d, h1i⟩ := enterC c (!r.unitSampling && !c.ds.intNorm) h
  obtain ⟨hbd, hbi, hbe⟩ := computeBodyC_spec _ lib r h1i
  rw [h1d] at hbd hbe
  obtain ⟨hld, hli⟩ := leaveC _ _ (!r.unitSampling && !c.ds.intNorm) hbd hbi
  have e1 := congrArg Prod.fst hbe
  have e2 := congrArg Prod.snd hbe
  simp only at e1 e2
  exact ⟨hld, hli, e1, e2⟩

/-- **`execute` (`_pre_run`) on a design-space object with a cache = `_pre_run` on its variables.** -/
theorem preRunC_spec (c : CDS) (lib : Lib) (r : Req) (h : c.Inv) :
    (preRunC c lib r).1.ds = (preRun c.ds lib r).ds ∧ (preRunC c lib r).1.Inv ∧
    (preRunC c lib r).2.1 = (preRun c.ds lib r).lib ∧
    (preRunC c lib r).2.2 = (preRun c.ds lib r).result := by
  obtain ⟨h1d, h1i⟩ := enterC c (!c.ds.intNorm) h
  obtain ⟨hbd, hbi, hbe⟩ := preRunBodyC_spec _ lib r h1i
  rw [h1d] at hbd hbe
  obtain ⟨hld, hli⟩ := leaveC _ _ (!c.ds.intNorm) hbd hbi
  have e1 := congrArg Prod.fst hbe
  have e2 := congrArg Prod.snd hbe
  simp only at e1 e2
  exact ⟨hld, hli, e1, e2⟩

/-! ### Sessions -/

/-- The session (objects with their cache) and its specification are in step. -/
def Session.Sim (s : Session) (t : Spec) : Prop := s.cds.Inv ∧ s.cds.ds = t.ds ∧ s.lib = t.lib

theorem Session.doe_sim (s : Session) (t : Spec) (h : s.Sim t) (exec : Bool) (r : Req) :
    (s.doe exec r).1.Sim (t.doe exec r).1 ∧ (s.doe exec r).2 = (t.doe exec r).2 := by
  obtain ⟨hi, hd, hl⟩ := h
  cases exec with
  | true =>
    obtain ⟨a, b, c, d⟩ := preRunC_spec s.cds s.lib r hi
    simp only [Session.doe, Spec.doe, if_true]
    rw [← hd, ← hl]
    exact ⟨⟨b, a, c⟩, by rw [d]⟩
  | false =>
    obtain ⟨a, b, c, d⟩ := computeDoeC_spec s.cds s.lib r hi
    simp only [Session.doe, Spec.doe, Bool.false_eq_true, if_false]
    rw [← hd, ← hl]
    exact ⟨⟨b, a, c⟩, by rw [d]⟩

theorem Session.step_sim (tol : Rat) (s : Session) (t : Spec) (h : s.Sim t) (op : SOp) :
    (s.step tol op).1.Sim (t.step tol op).1 ∧ (s.step tol op).2 = (t.step tol op).2 := by
  have h' := h
  obtain ⟨hi, hd, hl⟩ := h
  cases op with
  | edit op =>
    refine ⟨⟨CDS.edit_inv tol s.cds op hi, ?_, hl⟩, rfl⟩
    show (s.cds.edit tol op).ds = t.ds.apply tol op
    rw [CDS.edit_ds, hd]
  | query u =>
    refine ⟨⟨CDS.ensure_inv _ hi, by simpa [Session.step, Spec.step, CDS.ensure_ds] using hd, hl⟩, ?_⟩
    simp only [Session.step, Spec.step]
    rw [CDS.ensure_data _ hi, normData_unnormalize, hd]
  | newLib => exact ⟨⟨hi, hd, rfl⟩, rfl⟩
  | doe exec r => exact Session.doe_sim s t h' exec r
  | custom exec cs =>
    simp only [Session.step, Spec.step]
    rw [hd]
    exact Session.doe_sim s t h' exec (customReq t.ds cs)

theorem Session.run_sim (tol : Rat) (ops : List SOp) : ∀ (s : Session) (t : Spec), s.Sim t →
    (Session.run tol s ops).1.Sim (Spec.run tol t ops).1 ∧ (Session.run tol s ops).2 = (Spec.run tol t ops).2 := by
  induction ops with
  | nil => intro s t h; exact ⟨h, rfl⟩
  | cons op ops ih =>
    intro s t h
    obtain ⟨h1, h2⟩ := Session.step_sim tol s t h op
    obtain ⟨h3, h4⟩ := ih _ _ h1
    simp only [Session.run, Spec.run]
    exact ⟨h3, by rw [h2, h4]⟩

end GV.C14
