/-
C06 — lemmas behind the *compositions* and the *choice of what an MDA resolves*:

* `Chain`: an abstract execution chain (any index type of variables, any value type, any discipline maps):
  if every step of the chain leaves the other variables untouched, *solves* its own equations, and the steps
  come in the order of the coupling graph, the final data satisfy every equation (`chain_solves`); a discipline
  executed once solves its own equations iff it does not read its own outputs (`runOnce_solves`, and the
  counter-example `runOnce_self_reading_fails`): this is why `MDAChain.__requires_mda` must wrap every
  self-coupled discipline that is not already an MDA;
* what a passed stop test on a *monitored* set of variables is worth: when the set covers everything the
  disciplines read, re-execution reproduces the returned outputs (`monitored_cover_exact`, and for the affine
  model with a tolerance `reexecution_le_of_monitored`); a private self-coupling left out of the set breaks
  it (`unmonitored_self_coupling_fails`);
* `strongCouplingVars` is exactly "read by the group and written by the group" (`mem_strongCouplingVars`);
* the settings of a composed MDA prevail on the ones given for its inner MDAs, in whichever form they are
  given (`innerSettings_chain_prevails`).
-/
import GemseoVerif.Lemmas.C06Loop
import Mathlib.Algebra.Order.Ring.Abs
import Mathlib.Algebra.Order.Ring.Rat
import Mathlib.Data.Set.Basic
import Mathlib.Tactic.Linarith
import Mathlib.Tactic.NormNum
import Mathlib.Tactic.Ring

namespace GV.C06

namespace Chain

variable {ι V : Type*}

/-- One process of an execution chain: the variables it computes and what executing it does to the data. -/
structure Step (ι V : Type*) where
  owns : Set ι
  run : (ι → V) → (ι → V)

/-- `MDOChain.execute`: the processes are executed one after the other on the same local data. -/
def runAll (steps : List (Step ι V)) (y : ι → V) : ι → V := steps.foldl (fun d st => st.run d) y

/-- A well-formed chain, `done` being the variables computed by the processes already executed:
    each process (frame) leaves the variables it does not own untouched, (solve) returns data that satisfy,
    in the sense of `R`, the equations of the variables it owns, whatever data it starts from, and (order) owns no
    variable that is already computed or read by the equations of the variables already computed. -/
def ChainOK (f : ι → (ι → V) → V) (reads : ι → Set ι) (R : ι → V → V → Prop) :
    Set ι → List (Step ι V) → Prop
  | _, [] => True
  | done, st :: rest =>
    (∀ y j, j ∉ st.owns → st.run y j = y j) ∧
    (∀ y, ∀ i ∈ st.owns, R i (f i (st.run y)) (st.run y i)) ∧
    (∀ i ∈ done, i ∉ st.owns ∧ ∀ j ∈ reads i, j ∉ st.owns) ∧
    ChainOK f reads R (done ∪ st.owns) rest

/-- **A chain of solved components solves the whole system** (`R i (f i y) (y i)` = "equation `i` holds at `y`":
    equality for exact solves, `dist … ≤ ε i` for converged MDAs — the residual a component leaves is not
    touched by the later ones). -/
theorem chain_solves (f : ι → (ι → V) → V) (reads : ι → Set ι) (R : ι → V → V → Prop)
    (hreads : ∀ i y z, (∀ j ∈ reads i, y j = z j) → f i y = f i z) :
    ∀ (steps : List (Step ι V)) (done : Set ι) (y : ι → V), ChainOK f reads R done steps →
      (∀ i ∈ done, R i (f i y) (y i)) →
      ∀ i, (i ∈ done ∨ ∃ st ∈ steps, i ∈ st.owns) → R i (f i (runAll steps y)) (runAll steps y i) := by
  intro steps
  induction steps with
  | nil =>
    intro done y _ h i hi
    rcases hi with hi | ⟨st, hst, _⟩
    · exact h i hi
    · cases hst
  | cons st rest ih =>
    intro done y hok h i hi
    obtain ⟨hframe, hsolve, horder, hrest⟩ := hok
    have hinv : ∀ k ∈ done ∪ st.owns, R k (f k (st.run y)) (st.run y k) := by
      intro k hk
      by_cases hko : k ∈ st.owns
      · exact hsolve y k hko
      · have hkd : k ∈ done := hk.resolve_right hko
        have hf : f k (st.run y) = f k y :=
          hreads k _ _ (fun j hj => hframe y j ((horder k hkd).2 j hj))
        rw [hf, hframe y k hko]
        exact h k hkd
    have := ih (done ∪ st.owns) (st.run y) hrest hinv i
    apply this
    rcases hi with hi | ⟨st', hst', hi'⟩
    · exact Or.inl (Or.inl hi)
    · rcases List.mem_cons.mp hst' with rfl | hmem
      · exact Or.inl (Or.inr hi')
      · exact Or.inr ⟨st', hmem, hi'⟩

/-- A discipline (or any process: an `MDOChain`, an `MDOParallelChain`) executed once: the variables it owns are
    recomputed from the input data. -/
noncomputable def runOnce (f : ι → (ι → V) → V) (owns : Set ι) (y : ι → V) : ι → V :=
  fun i => by classical exact if i ∈ owns then f i y else y i

theorem runOnce_frame (f : ι → (ι → V) → V) (owns : Set ι) (y : ι → V) (j : ι) (hj : j ∉ owns) :
    runOnce f owns y j = y j := by
  classical
  simp [runOnce, hj]

/-- Executed once, a process that reads none of its own outputs returns data satisfying its equations. -/
theorem runOnce_solves (f : ι → (ι → V) → V) (reads : ι → Set ι)
    (hreads : ∀ i y z, (∀ j ∈ reads i, y j = z j) → f i y = f i z) (owns : Set ι)
    (hno : ∀ i ∈ owns, ∀ j ∈ reads i, j ∉ owns) (y : ι → V) :
    ∀ i ∈ owns, f i (runOnce f owns y) = runOnce f owns y i := by
  classical
  intro i hi
  have h1 : runOnce f owns y i = f i y := by simp [runOnce, hi]
  rw [h1]
  exact hreads i _ _ (fun j hj => runOnce_frame f owns y j (hno i hi j hj))

/-- ... and a self-coupled one does not in general (`y ↦ y/2 + 1` executed once from `0` returns `1`, but
    re-executing it on `1` gives `3/2`): it needs an MDA, unless it is one. -/
theorem runOnce_self_reading_fails :
    ∃ (f : Unit → (Unit → ℚ) → ℚ) (y : Unit → ℚ),
      f () (runOnce f Set.univ y) ≠ runOnce f Set.univ y () := by
  refine ⟨fun _ y => y () / 2 + 1, fun _ => 0, ?_⟩
  simp [runOnce]

/-- **What a monitored set is worth (exact form).** `G y = fun i => f i y` are the data an MDA returns after
    executing every discipline on the last iterate `y`. If the stop test saw no change on a set `mon` of variables
    that covers everything the disciplines read, re-executing any discipline on the returned data reproduces
    the returned outputs. -/
theorem monitored_cover_exact (f : ι → (ι → V) → V) (reads : ι → Set ι)
    (hreads : ∀ i y z, (∀ j ∈ reads i, y j = z j) → f i y = f i z) (mon : Set ι)
    (hcover : ∀ i, ∀ j ∈ reads i, j ∈ mon) (y : ι → V) (hstop : ∀ j ∈ mon, f j y = y j) :
    ∀ i, f i (fun j => f j y) = f i y :=
  fun i => hreads i _ _ (fun j hj => hstop j (hcover i j hj))

/-- A variable that a discipline only feeds back to itself must be monitored: with `f 0 y = y 0 / 2` (private
    self-coupling) and `f 1 y = 0`, the set `{1}` sees no change at `y = (1, 0)`, yet re-executing discipline `0`
    on the returned data changes its output. -/
theorem unmonitored_self_coupling_fails :
    ∃ (f : Bool → (Bool → ℚ) → ℚ) (y : Bool → ℚ),
      (∀ j ∈ ({true} : Set Bool), f j y = y j) ∧ f false (fun j => f j y) ≠ f false y := by
  refine ⟨fun i y => if i then 0 else y false / 2, fun i => if i then 0 else 1, ?_, ?_⟩
  · intro j hj
    have : j = true := hj
    subst this
    simp
  · simp
    norm_num

end Chain

-- ------------------------------------------------------------------ the model: what is resolved

theorem mem_strongCouplingVars {nvars : Nat} {reads writes : List (List Nat)} {v : Nat} :
    v ∈ strongCouplingVars nvars reads writes ↔
      v < nvars ∧ (∃ r ∈ reads, v ∈ r) ∧ (∃ w ∈ writes, v ∈ w) := by
  unfold strongCouplingVars
  simp [List.mem_filter, List.mem_range, List.any_eq_true]

/-- The resolved variables are listed in increasing order (= sorted names), without repetition. -/
theorem strongCouplingVars_sorted (nvars : Nat) (reads writes : List (List Nat)) :
    (strongCouplingVars nvars reads writes).Pairwise (· < ·) := by
  unfold strongCouplingVars
  exact List.Pairwise.filter _ List.pairwise_lt_range

-- ------------------------------------------------------------------ the affine model: re-execution bound

theorem dot_nil_right : ∀ c : Vec, dot c [] = 0
  | [] => rfl
  | _ :: _ => rfl

/-- `|c·a - c·b| ≤ (Σ|cⱼ|)·ε` when `|aⱼ - bⱼ| ≤ ε` wherever `cⱼ ≠ 0` (missing components count as `0`). -/
theorem abs_dot_sub_le (ε : Rat) (hε : 0 ≤ ε) :
    ∀ (c a b : Vec), (∀ j, c.getD j 0 ≠ 0 → |a.getD j 0 - b.getD j 0| ≤ ε) →
      |dot c a - dot c b| ≤ rsum (c.map (|·|)) * ε := by
  intro c
  induction c with
  | nil => intro a b _; simp [dot, rsum]
  | cons c0 cs ih =>
    intro a b h
    have hnn : 0 ≤ rsum (cs.map (|·|)) := rsum_nonneg _ (by
      intro t ht
      obtain ⟨u, _, rfl⟩ := List.mem_map.mp ht
      exact abs_nonneg u)
    -- normalise `a` and `b` to cons form (a missing component is `0`)
    have key : ∀ (a0 b0 : Rat) (as bs : Vec), |a0 - b0| ≤ ε ∨ c0 = 0 →
        (∀ j, cs.getD j 0 ≠ 0 → |as.getD j 0 - bs.getD j 0| ≤ ε) →
        |(c0 * a0 + dot cs as) - (c0 * b0 + dot cs bs)| ≤ (|c0| + rsum (cs.map (|·|))) * ε := by
      intro a0 b0 as bs h0 ht
      have e : (c0 * a0 + dot cs as) - (c0 * b0 + dot cs bs) = c0 * (a0 - b0) + (dot cs as - dot cs bs) := by ring
      rw [e]
      have h1 : |c0 * (a0 - b0)| ≤ |c0| * ε := by
        rw [abs_mul]
        rcases h0 with h0 | h0
        · exact mul_le_mul_of_nonneg_left h0 (abs_nonneg _)
        · subst h0; simp
      have h2 := ih as bs ht
      calc |c0 * (a0 - b0) + (dot cs as - dot cs bs)|
          ≤ |c0 * (a0 - b0)| + |dot cs as - dot cs bs| := abs_add_le _ _
        _ ≤ |c0| * ε + rsum (cs.map (|·|)) * ε := add_le_add h1 h2
        _ = (|c0| + rsum (cs.map (|·|))) * ε := by ring
    have hhead : ∀ (a0 b0 : Rat), (c0 ≠ 0 → |a0 - b0| ≤ ε) → |a0 - b0| ≤ ε ∨ c0 = 0 := by
      intro a0 b0 hh
      by_cases hc : c0 = 0
      · exact Or.inr hc
      · exact Or.inl (hh hc)
    have hgoal : rsum ((c0 :: cs).map (|·|)) = |c0| + rsum (cs.map (|·|)) := rfl
    rw [hgoal]
    cases a with
    | nil =>
      cases b with
      | nil =>
        simp only [dot_nil_right, sub_self, abs_zero]
        exact mul_nonneg (add_nonneg (abs_nonneg _) hnn) hε
      | cons b0 bs =>
        have := key 0 b0 [] bs (hhead 0 b0 (fun hc => by simpa using h 0 (by simpa using hc)))
          (fun j hj => by simpa using h (j + 1) (by simpa using hj))
        simpa [dot, rsum, dot_nil_right] using this
    | cons a0 as =>
      cases b with
      | nil =>
        have := key a0 0 as [] (hhead a0 0 (fun hc => by simpa using h 0 (by simpa using hc)))
          (fun j hj => by simpa using h (j + 1) (by simpa using hj))
        simpa [dot, rsum, dot_nil_right] using this
      | cons b0 bs =>
        have := key a0 b0 as bs (hhead a0 b0 (fun hc => by simpa using h 0 (by simpa using hc)))
          (fun j hj => by simpa using h (j + 1) (by simpa using hj))
        simpa [dot, rsum] using this

/-- Every component of the residual on the resolved components is an entry of the residual vector. -/
theorem residOn_mem (res : List Nat) (before after : Vec) :
    ∀ j ∈ res, after.getD j 0 - before.getD j 0 ∈ residOn res before after := by
  unfold residOn vsub gather
  induction res with
  | nil => intro j hj; cases hj
  | cons r rs ih =>
    intro j hj
    simp only [List.map_cons, List.zipWith_cons_cons, List.mem_cons]
    rcases List.mem_cons.mp hj with rfl | hj
    · exact Or.inl rfl
    · exact Or.inr (ih j hj)

/-- **Re-execution bound of the affine model.** Let `y` be the last iterate and `jacobiSweep s y` the returned
    data. If the residual is at most `ε` on resolved components `res` that cover every component some row really
    reads (non-zero coefficient), then re-executing any row on the returned data changes its output by at most
    `(Σⱼ|coefⱼ|)·ε` — `K·ε` for a `K`-contractive system. -/
theorem reexecution_le_of_monitored (s : Sys) (res : List Nat) (y : Vec) (ε : Rat) (hε : 0 ≤ ε)
    (hcover : ∀ r ∈ s.rows, ∀ j, r.coefs.getD j 0 ≠ 0 → j ∈ res)
    (hstop : ∀ t ∈ residOn res y (jacobiSweep s y), |t| ≤ ε) :
    ∀ r ∈ s.rows, |evalRow r (jacobiSweep s y) - evalRow r y| ≤ rsum (r.coefs.map (|·|)) * ε := by
  intro r hr
  have e : evalRow r (jacobiSweep s y) - evalRow r y = dot r.coefs (jacobiSweep s y) - dot r.coefs y := by
    unfold evalRow; ring
  rw [e]
  exact abs_dot_sub_le ε hε r.coefs _ _
    (fun j hj => hstop _ (residOn_mem res y (jacobiSweep s y) j (hcover r hr j hj)))

-- ------------------------------------------------------------------ settings of the inner MDAs

theorem Settings.get?_union_of_right (a b : Settings) (k : String) (v : Rat) (h : b.get? k = some v) :
    (a.union b).get? k = some v := by
  unfold Settings.get? Settings.union at *
  rw [List.find?_append]
  cases hb : b.find? (fun e => e.1 == k) with
  | none => simp [hb] at h
  | some e => simpa [hb] using h

theorem Settings.get?_filter_key (s : Settings) (p : String → Bool) (k : String) (hp : p k = true) :
    Settings.get? (s.filter (fun e => p e.1)) k = Settings.get? s k := by
  unfold Settings.get?
  congr 1
  induction s with
  | nil => rfl
  | cons e es ih =>
    by_cases hk : (e.1 == k) = true
    · have hpe : p e.1 = true := by rw [beq_iff_eq.mp hk]; exact hp
      rw [List.filter_cons_of_pos (by simpa using hpe), List.find?_cons_of_pos (by simpa using hk),
        List.find?_cons_of_pos (by simpa using hk)]
    · by_cases hpe : p e.1 = true
      · rw [List.filter_cons_of_pos (by simpa using hpe), List.find?_cons_of_neg (by simpa using hk),
          List.find?_cons_of_neg (by simpa using hk)]
        exact ih
      · rw [List.filter_cons_of_neg (by simpa using hpe), List.find?_cons_of_neg (by simpa using hk)]
        exact ih

/-- **The settings of the composed MDA prevail**: whatever is given for the inner MDAs — a dictionary with a
    few keys, or the full content of a Pydantic model with its default `tolerance`, `max_mda_iter`, `warm_start` —
    the inner MDA receives the `BaseMDASettings` fields of the composed MDA. -/
theorem innerSettings_chain_prevails (chain given : Settings) (k : String) (hk : k ∈ baseFields) (v : Rat)
    (h : chain.get? k = some v) : (innerSettings chain given).get? k = some v := by
  unfold innerSettings
  apply Settings.get?_union_of_right
  rw [Settings.get?_filter_key chain (fun n => baseFields.contains n) k (by simpa using hk)]
  exact h

end GV.C06
