/-
C17 — lemmas for the adapter's Jacobian array filled block by block (`convertJac`, dense and sparse
blocks), the histories of `jac` calls on adapters that keep their array from one call to the next, and the
dtype of the array in which the caller writes the design point (`Model/C17.lean`).
-/
import GemseoVerif.Lemmas.C17Par

namespace GV.C17
open GV.C02

/-! ### Sparse blocks -/

/-- Densifying the sparse array built from the values of a matrix gives the matrix back (the entries that
    are not stored are the exact zeros). -/
theorem JBlock.toArray_ofMat (sp : Bool) (m : Mat) : (JBlock.ofMat sp m).toArray = m := by
  cases sp
  · simp [JBlock.ofMat, JBlock.toArray]
  · simp only [JBlock.ofMat, if_true, JBlock.toArray, List.map_map]
    have hcell : ((fun c : Option Rat => c.getD 0) ∘ fun v : Rat => if (v == 0) = true then none else some v) = id := by
      funext v
      by_cases hv : v = 0
      · simp [hv]
      · simp [hv]
    have hrow : ((fun row : List (Option Rat) => row.map (fun c => c.getD 0)) ∘
        fun row : List Rat => row.map (fun v => if (v == 0) = true then none else some v)) = id := by
      funext row
      simp only [Function.comp, List.map_map, hcell, List.map_id, id]
    rw [hrow, List.map_id]

/-- A block of zeros built sparse stores nothing (`nnz == 0`) … -/
theorem JBlock.nnz_ofMat_zero (r c : Nat) : (JBlock.ofMat true (zeroMat r c)).nnz = 0 := by
  simp [JBlock.ofMat, JBlock.nnz, zeroMat, List.map_replicate]

/-! ### The table of cells -/

theorem BlockTable.get_write (t : BlockTable) (o i o' i' : String) (m : Mat) :
    (t.write o i m).get o' i' = if o' = o ∧ i' = i then m else t.get o' i' := by
  unfold BlockTable.write BlockTable.get
  by_cases h : o' = o ∧ i' = i
  · obtain ⟨h1, h2⟩ := h
    subst h1 h2
    simp
  · have : ((o, i) == (o', i')) = false := by
      simp only [beq_eq_false_iff_ne, ne_eq, Prod.mk.injEq, not_and]
      intro h1 h2
      exact h ⟨h1.symm, h2.symm⟩
    simp [List.find?, this, h]

theorem get_writeRow (J : String → String → Mat) (o : String) (ins : List String) (b : BlockTable) (o' i' : String) :
    (ins.foldl (fun b i => b.write o i (J o i)) b).get o' i'
      = if o' = o ∧ i' ∈ ins then J o i' else b.get o' i' := by
  induction ins generalizing b with
  | nil => simp
  | cons a as ih =>
    simp only [List.foldl_cons, ih, BlockTable.get_write, List.mem_cons]
    by_cases h1 : o' = o
    · by_cases h2 : i' ∈ as
      · simp [h1, h2]
      · by_cases h3 : i' = a
        · simp [h1, h3]
        · simp [h1, h2, h3]
    · simp [h1]

theorem get_convert (J : String → String → Mat) (outs ins : List String) (b : BlockTable) (o' i' : String) :
    (outs.foldl (fun b o => ins.foldl (fun b i => b.write o i (J o i)) b) b).get o' i'
      = if o' ∈ outs ∧ i' ∈ ins then J o' i' else b.get o' i' := by
  induction outs generalizing b with
  | nil => simp
  | cons a as ih =>
    simp only [List.foldl_cons, ih, get_writeRow, List.mem_cons]
    by_cases h1 : i' ∈ ins
    · by_cases h2 : o' ∈ as
      · simp [h1, h2]
      · by_cases h3 : o' = a
        · simp [h1, h3]
        · simp [h1, h2, h3]
    · simp [h1]

theorem gAdapterJac_congr (ins : List String) (j1 j2 : String → String → Mat) (rowsOf : String → Nat)
    (outs : List String) (h : ∀ o ∈ outs, ∀ i ∈ ins, j1 o i = j2 o i) :
    gAdapterJac ins j1 rowsOf outs = gAdapterJac ins j2 rowsOf outs := by
  unfold gAdapterJac
  apply List.flatMap_congr
  intro o ho
  have : ins.map (fun i => j1 o i) = ins.map (fun i => j2 o i) :=
    List.map_congr_left (fun i hi => h o ho i hi)
  rw [this]

/-- After the loop, the adapter's array is the Jacobian of THIS call, whatever it held before. -/
theorem convertJac_toArray (buf : BlockTable) (outs ins : List String) (jac : String → String → JBlock)
    (rowsOf : String → Nat) :
    (convertJac buf outs ins jac).toArray ins rowsOf outs
      = gAdapterJac ins (fun o i => (jac o i).toArray) rowsOf outs := by
  unfold BlockTable.toArray convertJac
  apply gAdapterJac_congr
  intro o ho i hi
  rw [get_convert (fun o i => (jac o i).toArray) outs ins buf o i]
  simp [ho, hi]

/-! ### Histories on adapters that keep their array -/

/-- One `jac` call of a `FunctionFromDiscipline` whose adapter holds the array `buf`, the discipline handing
    each block over dense or sparse (`sp o i`): the adapter's array after the call, and the unmasking. -/
def FFD.partsS (F : FFD) (buf : BlockTable) (sp : String → String → Bool) (x : Vec) :
    Option (BlockTable × (Mat → Option Mat)) :=
  let inputNames := F.names.filter F.hasInput
  match maskX F.sizes inputNames F.names x with
  | none => none
  | some xm =>
    some (convertJac buf F.outs inputNames
            (fun o i => JBlock.ofMat (sp o i) (F.jac (adapterInputData F.sizes inputNames xm) o i)),
          fun m => unmaskRows F.sizes inputNames F.names m none)

def FFD.arrayOf (F : FFD) (t : BlockTable) : Mat := t.toArray (F.names.filter F.hasInput) F.rowsOf F.outs

theorem FFD.partsS_eq (F : FFD) (buf : BlockTable) (sp : String → String → Bool) (x : Vec) :
    (F.partsS buf sp x).map (fun p => (F.arrayOf p.1, p.2)) = F.parts x := by
  unfold FFD.partsS FFD.parts gJacParts FFD.arrayOf
  simp only
  cases maskX F.sizes (F.names.filter F.hasInput) F.names x with
  | none => rfl
  | some xm =>
    simp only [Option.map_some, convertJac_toArray, JBlock.toArray_ofMat]

/-- A history of `jac` calls `(function object, design vector, storage of the blocks)`; `bufs f` is the array
    the adapter of function object `f` holds (before its first call: the arbitrary contents of `numpy.empty`). -/
def jacHistoryS (spec : Nat → FFD) : JHeap → (Nat → BlockTable) →
    List (Nat × Vec × (String → String → Bool)) → Option JHeap
  | h, _, [] => some h
  | h, bufs, c :: cs =>
    match (spec c.1).partsS (bufs c.1) c.2.2 c.2.1 with
    | none => none
    | some p =>
      match h.ffdJacCall c.1 ((spec c.1).arrayOf p.1) p.2 with
      | some h' => jacHistoryS spec h' (fun f => if f = c.1 then p.1 else bufs f) cs
      | none => none

/-- The arrays left in the adapters and the storage chosen by the disciplines have no influence on a history. -/
theorem jacHistoryS_eq (spec : Nat → FFD) (cs : List (Nat × Vec × (String → String → Bool))) (h : JHeap)
    (bufs : Nat → BlockTable) :
    jacHistoryS spec h bufs cs = jacHistory spec h (cs.map (fun c => (c.1, c.2.1))) := by
  induction cs generalizing h bufs with
  | nil => rfl
  | cons c cs ih =>
    simp only [jacHistoryS, List.map_cons, jacHistory]
    rw [← FFD.partsS_eq (spec c.1) (bufs c.1) c.2.2 c.2.1]
    cases hp : (spec c.1).partsS (bufs c.1) c.2.2 c.2.1 with
    | none => rfl
    | some p =>
      simp only [Option.map_some]
      cases hc : h.ffdJacCall c.1 ((spec c.1).arrayOf p.1) p.2 with
      | none => rfl
      | some h1 => exact ih h1 _

/-! ### The dtype of the design vector -/

theorem truncToInt_of_integral (r : Rat) (h : isIntegral r = true) : truncToInt r = r := by
  have hden : r.den = 1 := by simpa [isIntegral] using h
  have hr : r = ((r.num : Int) : Rat) := by
    have := Rat.num_div_den r
    rw [hden] at this
    simpa using this.symm
  unfold truncToInt
  by_cases hneg : r < 0
  · simp only [hneg, if_true]
    have : (-r) = (((-r.num : Int)) : Rat) := by rw [hr]; simp
    rw [this, Rat.floor_intCast]
    rw [hr]; simp
  · simp only [hneg, if_false]
    rw [hr, Rat.floor_intCast]

theorem map_truncToInt_of_integral (v : Vec) (h : v.all isIntegral = true) : v.map truncToInt = v := by
  induction v with
  | nil => rfl
  | cons a as ih =>
    simp only [List.all_cons, Bool.and_eq_true] at h
    simp [truncToInt_of_integral a h.1, ih h.2]

/-- An array of integer dtype holding the point, or a float array carrying the declared types, holds exactly
    the numbers of the point — provided the point is admissible for that representation. -/
theorem typedVector_eq (intMask : List Bool) (dt : DType) (typed : Bool) (x : Vec)
    (hdt : dt = DType.int → x.all isIntegral = true)
    (hlen : typed = true → intMask.length = x.length)
    (hint : typed = true → ∀ k, intMask.getD k false = true → isIntegral (x.getD k 0) = true) :
    typedVector intMask dt typed x = x := by
  have hcast : castTo dt x = x := by
    cases dt with
    | int => exact map_truncToInt_of_integral x (hdt rfl)
    | float => rfl
  unfold typedVector
  simp only [hcast]
  cases typed with
  | false => rfl
  | true =>
    simp only [if_true]
    have hl := hlen rfl
    have hi := hint rfl
    clear hdt hlen hint hcast
    induction x generalizing intMask with
    | nil => cases intMask <;> simp
    | cons a as ih =>
      cases intMask with
      | nil => simp at hl
      | cons b bs =>
        simp only [List.zipWith_cons_cons]
        have h0 := hi 0
        simp only [List.getD_cons_zero] at h0
        have htail := ih bs (by simpa using hl) (fun k hk => by
          have := hi (k + 1)
          simpa using this hk)
        rw [htail]
        cases b with
        | false => rfl
        | true => simp [truncToInt_of_integral a (h0 rfl)]

end GV.C17
