/-
C10 — polynomial user functions: the formal Jacobian computed by the model (and by the harness
leaves) is the exact derivative. This makes the leaf hypothesis of the main theorem satisfiable
and gives the "leaves are polynomials" instance of it.
-/
import GemseoVerif.Lemmas.C10Calculus

namespace GV.C10

variable {𝕜 : Type} [NontriviallyNormedField 𝕜]

theorem npowDeriv_succ (a : 𝕜) (k : ℕ) : npowDeriv a (k + 1) = npowDeriv a k * a + npow a k := by
  cases k with
  | zero => simp [npowDeriv, npow, natCast]
  | succ k' => simp only [npowDeriv, npow, natCast]; ring

theorem hasDerivAt_npow (f : 𝕜 → 𝕜) (f' t : 𝕜) (hf : HasDerivAt f f' t) (e : ℕ) :
    HasDerivAt (fun s => npow (f s) e) (npowDeriv (f t) e * f') t := by
  induction e with
  | zero => simpa [npow, npowDeriv] using hasDerivAt_const t (1 : 𝕜)
  | succ k ih =>
    simp only [npow]
    refine (HasDerivAt.fun_mul ih hf).congr_deriv ?_
    rw [npowDeriv_succ]; ring

theorem hasDerivAt_mono (n : ℕ) (x v : ℕ → 𝕜) (e : List ℕ) :
    ∀ k0, k0 + e.length ≤ n →
      HasDerivAt (fun t : 𝕜 => monoEvalFrom k0 e (x + t • v))
        (sumTo n (fun j => monoDerivFrom k0 j e x * v j)) 0 := by
  induction e with
  | nil =>
    intro k0 _
    simpa [monoEvalFrom, monoDerivFrom] using hasDerivAt_const (0 : 𝕜) (1 : 𝕜)
  | cons a r ih =>
    intro k0 hk
    simp only [List.length_cons] at hk
    simp only [monoEvalFrom]
    have h1 := hasDerivAt_npow (fun t : 𝕜 => (x + t • v) k0) (v k0) 0 (hasDerivAt_coord x v k0) a
    have h2 := ih (k0 + 1) (by omega)
    refine (HasDerivAt.fun_mul h1 h2).congr_deriv ?_
    simp only [zero_smul, add_zero, monoDerivFrom]
    have hk0 : k0 < n := by omega
    have e1 : sumTo n (fun j => (if j = k0 then npowDeriv (x k0) a * monoEvalFrom (k0 + 1) r x * v j else 0))
        = npowDeriv (x k0) a * monoEvalFrom (k0 + 1) r x * v k0 :=
      sumTo_ite_eq n k0 hk0 (fun j => npowDeriv (x k0) a * monoEvalFrom (k0 + 1) r x * v j)
    have e2 : sumTo n (fun j => npow (x k0) a * (monoDerivFrom (k0 + 1) j r x * v j))
        = npow (x k0) a * sumTo n (fun j => monoDerivFrom (k0 + 1) j r x * v j) :=
      sumTo_mul_left n _ _
    have e3 : sumTo n (fun j => ((if k0 = j then npowDeriv (x k0) a * monoEvalFrom (k0 + 1) r x else 0)
          + npow (x k0) a * monoDerivFrom (k0 + 1) j r x) * v j)
        = sumTo n (fun j => (if j = k0 then npowDeriv (x k0) a * monoEvalFrom (k0 + 1) r x * v j else 0))
          + sumTo n (fun j => npow (x k0) a * (monoDerivFrom (k0 + 1) j r x * v j)) := by
      rw [← sumTo_add]
      refine sumTo_congr (fun j _ => ?_)
      by_cases h : k0 = j
      · subst h; simp; ring
      · have h' : ¬ j = k0 := fun hh => h hh.symm
        simp [h, h']; ring
    rw [e3, e1, e2]
    ring

/-- Every exponent list of the polynomial has at most `n` entries. -/
def PolyOK (n : ℕ) (p : List (Mono 𝕜)) : Prop := ∀ m ∈ p, m.2.length ≤ n

theorem hasDerivAt_poly (n : ℕ) (x v : ℕ → 𝕜) (p : List (Mono 𝕜)) (hp : PolyOK n p) :
    HasDerivAt (fun t : 𝕜 => polyEval p (x + t • v))
      (sumTo n (fun j => polyDeriv p j x * v j)) 0 := by
  induction p with
  | nil => simpa [polyEval, polyDeriv] using hasDerivAt_const (0 : 𝕜) (0 : 𝕜)
  | cons m r ih =>
    obtain ⟨c, e⟩ := m
    simp only [polyEval, polyDeriv]
    have hm : e.length ≤ n := hp (c, e) (by simp)
    have h1 := (hasDerivAt_mono n x v e 0 (by omega)).const_mul c
    have h2 := ih (fun m hm' => hp m (List.mem_cons_of_mem _ hm'))
    refine (HasDerivAt.fun_add h1 h2).congr_deriv ?_
    rw [← sumTo_mul_left, ← sumTo_add]
    exact sumTo_congr (fun j _ => by ring)

/-- Polynomial leaves: the formal Jacobian is the exact derivative, at every point. -/
theorem polyDV_den (n : ℕ) (ps : List (List (Mono 𝕜))) (hps : ∀ p ∈ ps, PolyOK n p) (x : ℕ → 𝕜) :
    Den n x (polyDV ps x) (fun y i => polyEval (ps.getD i []) y) ps.length := by
  refine ⟨rfl, fun i hi => ⟨rfl, fun v => ?_⟩⟩
  have hmem : ps.getD i [] ∈ ps := by
    rw [List.getD_eq_getElem?_getD, List.getElem?_eq_getElem hi]
    exact List.getElem_mem hi
  simpa [polyDV, rowDot] using hasDerivAt_poly n x v (ps.getD i []) (hps _ hmem)

end GV.C10
