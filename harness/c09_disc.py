"""Harness disciplines of the C09 check (must live in a real module: GEMSEO's docstring
inheritance needs source access).

`PolyDisc`: every output component is a polynomial of degree <= 2 of the input components,

    out[o][i] = c + sum_k a_k * in_k + sum_k b_k * in_k * in'_k

with dyadic coefficients; evaluated in float64 at dyadic points of small magnitude every
intermediate is exact.  Its `_compute_jacobian` returns the exact partials at the point of its
last execution, as dense arrays, SciPy CSR arrays or `JacobianOperator`s, either for all
(output, input) pairs or only for the requested ones (both styles exist among GEMSEO's own
disciplines).

`FlexDisc`: the same specification read as a template defined for input vectors of ANY length
(`harness/c09_flex.py`): the sizes are data of the input point, not part of the object.
"""

from __future__ import annotations

from fractions import Fraction
from typing import Any

import numpy as np
from scipy.sparse import csr_array

from gemseo.core.derivatives.jacobian_operator import JacobianOperator
from gemseo.core.discipline import Discipline


class PolyDisc(Discipline):
    """A polynomial discipline described by a JSON-able specification.

    spec = {"name": str,
            "ins": [[name, size], ...], "outs": [[name, size], ...],
            "poly": {out: [component, ...]}, component = {"c": "p/q",
                      "lin": [[in, idx, "p/q"], ...], "quad": [[in1, i1, in2, i2, "p/q"], ...]},
            "kind": "dense" | "sparse" | "operator", "jac_all": bool}
    """

    def __init__(self, spec: dict[str, Any]) -> None:
        super().__init__(spec["name"])
        self.spec = spec
        self.in_sizes = {n: int(s) for n, s in spec["ins"]}
        self.out_sizes = {n: int(s) for n, s in spec["outs"]}
        self.io.input_grammar.update_from_names(list(self.in_sizes))
        self.io.output_grammar.update_from_names(list(self.out_sizes))
        self.io.input_grammar.defaults = {n: np.zeros(s) for n, s in self.in_sizes.items()}
        self.kind = spec.get("kind", "dense")
        self.jac_all = bool(spec.get("jac_all", True))
        self.n_lin = 0
        self.calls = []  # (input_names, output_names) of every _compute_jacobian call
        self.lin_data = []  # input values (io.data) at every _compute_jacobian call: the linearization point
        self.n_run = 0
        self._poly = self._compile(spec["poly"])

    @staticmethod
    def _compile(poly):
        return {
            o: [
                (
                    float(Fraction(c["c"])),
                    [(n, int(i), float(Fraction(a))) for n, i, a in c.get("lin", [])],
                    [(n1, int(i1), n2, int(i2), float(Fraction(b))) for n1, i1, n2, i2, b in c.get("quad", [])],
                )
                for c in comps
            ]
            for o, comps in poly.items()
        }

    def _run(self, input_data):
        self.n_run += 1
        out = {}
        for o, comps in self._poly.items():
            v = np.zeros(len(comps))
            for k, (c, lin, quad) in enumerate(comps):
                acc = c
                for n, i, a in lin:
                    acc += a * float(input_data[n][i])
                for n1, i1, n2, i2, b in quad:
                    acc += b * float(input_data[n1][i1]) * float(input_data[n2][i2])
                v[k] = acc
            out[o] = v
        return out

    def _block(self, o: str, n: str) -> np.ndarray:
        data = self.io.data
        m = np.zeros((self.out_sizes[o], self.in_sizes[n]))
        for k, (_, lin, quad) in enumerate(self._poly[o]):
            for nn, i, a in lin:
                if nn == n:
                    m[k, i] += a
            for n1, i1, n2, i2, b in quad:
                if n1 == n:
                    m[k, i1] += b * float(data[n2][i2])
                if n2 == n:
                    m[k, i2] += b * float(data[n1][i1])
        return m

    def _compute_jacobian(self, input_names=(), output_names=()):
        self.n_lin += 1
        self.calls.append((tuple(input_names), tuple(output_names)))
        self.lin_data.append({n: np.array(self.io.data[n], dtype=float).copy() for n in self.in_sizes})
        if self.jac_all or not input_names:
            input_names = list(self.in_sizes)
        if self.jac_all or not output_names:
            output_names = list(self.out_sizes)
        jac = {}
        for o in output_names:
            jac[o] = {}
            for n in input_names:
                m = self._block(o, n)
                if self.kind == "sparse":
                    jac[o][n] = csr_array(m)
                elif self.kind == "operator":
                    op = JacobianOperator(shape=m.shape, dtype=m.dtype)

                    def matvec(x, matrix=m):
                        return matrix @ x

                    def rmatvec(x, matrix=m):
                        return matrix.T @ x

                    op._matvec = matvec
                    op._rmatvec = rmatvec
                    jac[o][n] = op
                else:
                    jac[o][n] = m
        self.jac = jac


class FlexDisc(PolyDisc):
    """A size-agnostic discipline: the template of `harness/c09_flex.py` evaluated at the lengths of the
    input vectors it receives (element-wise-like functions of vectors of any length; the lengths of the
    outputs follow the length of the first input).  No size is remembered from one call to the next."""

    def __init__(self, spec: dict[str, Any]) -> None:
        super().__init__(spec)
        self.template = spec

    def _at_sizes_of(self, data) -> None:
        from harness.c09_flex import expand_spec

        lens = {n: len(np.atleast_1d(data[n])) for n, _ in self.template["ins"]}
        sp = expand_spec(self.template, lens)
        self.in_sizes = {n: int(s) for n, s in sp["ins"]}
        self.out_sizes = {n: int(s) for n, s in sp["outs"]}
        self._poly = self._compile(sp["poly"])

    def _run(self, input_data):
        self._at_sizes_of(input_data)
        return super()._run(input_data)

    def _compute_jacobian(self, input_names=(), output_names=()):
        self._at_sizes_of(self.io.data)
        super()._compute_jacobian(input_names, output_names)
